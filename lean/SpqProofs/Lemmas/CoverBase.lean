/-
  Base lemmas for `Spq/Cover.lean`: the scalar store loop, the four-slice register loop `mapV4x4`, and the
  complex-number vocabulary (subtraction, `i·z`) added to `Cx`.
-/
import SpqProofs.Lemmas.Reim4Fftvec
import Spq.Cover
namespace Spq
namespace Cover
open Reim4
variable {α : Type}

/-! ### `scalarMap` -/

theorem scalarMap_size (n : Nat) (f : Nat → α) (res : Array α) : (scalarMap n f res).size = res.size := by
  unfold scalarMap
  induction n with
  | zero => rfl
  | succ n ih => rw [Nat.fold_succ]; simp only [Array.size_setIfInBounds]; exact ih

theorem scalarMap_getD (z : α) (n : Nat) (f : Nat → α) (res : Array α) (i : Nat) :
    (scalarMap n f res).getD i z = if i < n ∧ i < res.size then f i else res.getD i z := by
  unfold scalarMap
  induction n with
  | zero => simp
  | succ n ih =>
    rw [Nat.fold_succ, getD_setIfInBounds]
    have hs : (Nat.fold n (fun i _ r => r.setIfInBounds i (f i)) res).size = res.size := scalarMap_size n f res
    rw [hs, ih]
    by_cases h1 : n = i
    · subst h1
      by_cases h2 : n < res.size
      · simp [h2]
      · simp [h2]
    · by_cases h2 : i < n
      · have : i < n + 1 := by omega
        simp [h1, h2, this]
      · have : ¬ i < n + 1 := by omega
        simp [h1, h2, this]

/-! ### `mapV4x4`: SIMD loop on one register of each of four slices per step -/

theorem mapV4x4_spec (z : α) (n off : Nat) (F : Nat → V4 α → V4 α → V4 α → V4 α → V4 α × V4 α × V4 α × V4 α)
    (r : Array α) (hoff : 4 * n ≤ off) (hb : 3 * off + 4 * n ≤ r.size) :
    (mapV4x4 z n off F r).size = r.size ∧
    (∀ j, j < n → ∀ l, l < 4 →
      let q := F j (V4.load z r (4 * j)) (V4.load z r (off + 4 * j)) (V4.load z r (2 * off + 4 * j))
        (V4.load z r (3 * off + 4 * j))
      (mapV4x4 z n off F r).getD (4 * j + l) z = q.1.lane l ∧
      (mapV4x4 z n off F r).getD (off + 4 * j + l) z = q.2.1.lane l ∧
      (mapV4x4 z n off F r).getD (2 * off + 4 * j + l) z = q.2.2.1.lane l ∧
      (mapV4x4 z n off F r).getD (3 * off + 4 * j + l) z = q.2.2.2.lane l) ∧
    (∀ x, (∀ j, j < n → ∀ s, s < 4 → x < s * off + 4 * j ∨ s * off + 4 * j + 4 ≤ x) →
      (mapV4x4 z n off F r).getD x z = r.getD x z) := by
  let Q : Nat → Array α → V4 α × V4 α × V4 α × V4 α := fun j r =>
    F j (V4.load z r (4 * j)) (V4.load z r (off + 4 * j)) (V4.load z r (2 * off + 4 * j)) (V4.load z r (3 * off + 4 * j))
  let body : Nat → Array α → Array α := fun j r =>
    V4.store (V4.store (V4.store (V4.store r (4 * j) (Q j r).1) (off + 4 * j) (Q j r).2.1) (2 * off + 4 * j) (Q j r).2.2.1)
      (3 * off + 4 * j) (Q j r).2.2.2
  have hfold : mapV4x4 z n off F r = Nat.fold n (fun j _ r => body j r) r := rfl
  have hbody : ∀ j r x, (body j r).getD x z =
      if 3 * off + 4 * j ≤ x ∧ x < 3 * off + 4 * j + 4 ∧ x < r.size then (Q j r).2.2.2.lane (x - (3 * off + 4 * j))
      else if 2 * off + 4 * j ≤ x ∧ x < 2 * off + 4 * j + 4 ∧ x < r.size then (Q j r).2.2.1.lane (x - (2 * off + 4 * j))
      else if off + 4 * j ≤ x ∧ x < off + 4 * j + 4 ∧ x < r.size then (Q j r).2.1.lane (x - (off + 4 * j))
      else if 4 * j ≤ x ∧ x < 4 * j + 4 ∧ x < r.size then (Q j r).1.lane (x - 4 * j)
      else r.getD x z := by
    intro j r x
    simp only [body, V4.getD_store, V4.size_store]
  have main := fold_disjoint z n body
    (fun j x => (4 * j ≤ x ∧ x < 4 * j + 4) ∨ (off + 4 * j ≤ x ∧ x < off + 4 * j + 4) ∨
      (2 * off + 4 * j ≤ x ∧ x < 2 * off + 4 * j + 4) ∨ (3 * off + 4 * j ≤ x ∧ x < 3 * off + 4 * j + 4))
    (by intro j r; simp [body])
    r
    (by
      intro j _ r x _ hx
      rw [hbody]
      have h3 : ¬ (3 * off + 4 * j ≤ x ∧ x < 3 * off + 4 * j + 4 ∧ x < r.size) := by
        intro h; exact hx (Or.inr (Or.inr (Or.inr ⟨h.1, h.2.1⟩)))
      have h2 : ¬ (2 * off + 4 * j ≤ x ∧ x < 2 * off + 4 * j + 4 ∧ x < r.size) := by
        intro h; exact hx (Or.inr (Or.inr (Or.inl ⟨h.1, h.2.1⟩)))
      have h1 : ¬ (off + 4 * j ≤ x ∧ x < off + 4 * j + 4 ∧ x < r.size) := by
        intro h; exact hx (Or.inr (Or.inl ⟨h.1, h.2.1⟩))
      have h0 : ¬ (4 * j ≤ x ∧ x < 4 * j + 4 ∧ x < r.size) := by
        intro h; exact hx (Or.inl ⟨h.1, h.2.1⟩)
      rw [if_neg h3, if_neg h2, if_neg h1, if_neg h0])
    (by
      intro j _ r r' hs hs' h x hx
      have e0 : V4.load z r (4 * j) = V4.load z r' (4 * j) :=
        V4.load_congr z r r' _ (fun y h1 h2 => h y (Or.inl ⟨h1, h2⟩))
      have e1 : V4.load z r (off + 4 * j) = V4.load z r' (off + 4 * j) :=
        V4.load_congr z r r' _ (fun y h1 h2 => h y (Or.inr (Or.inl ⟨h1, h2⟩)))
      have e2 : V4.load z r (2 * off + 4 * j) = V4.load z r' (2 * off + 4 * j) :=
        V4.load_congr z r r' _ (fun y h1 h2 => h y (Or.inr (Or.inr (Or.inl ⟨h1, h2⟩))))
      have e3 : V4.load z r (3 * off + 4 * j) = V4.load z r' (3 * off + 4 * j) :=
        V4.load_congr z r r' _ (fun y h1 h2 => h y (Or.inr (Or.inr (Or.inr ⟨h1, h2⟩))))
      have eQ : Q j r = Q j r' := by simp only [Q, e0, e1, e2, e3]
      rw [hbody, hbody, hs, hs', eQ, h x hx])
    (by
      intro j j' x h1 h2 h3 hx hx'
      omega)
  rw [hfold]
  obtain ⟨ms, mv, mf⟩ := main
  refine ⟨ms, ?_, ?_⟩
  · intro j hj l hl
    refine ⟨?_, ?_, ?_, ?_⟩
    · rw [mv j hj (4 * j + l) (Or.inl (by omega)), hbody]
      have h3 : ¬ (3 * off + 4 * j ≤ 4 * j + l ∧ 4 * j + l < 3 * off + 4 * j + 4 ∧ 4 * j + l < r.size) := by omega
      have h2 : ¬ (2 * off + 4 * j ≤ 4 * j + l ∧ 4 * j + l < 2 * off + 4 * j + 4 ∧ 4 * j + l < r.size) := by omega
      have h1 : ¬ (off + 4 * j ≤ 4 * j + l ∧ 4 * j + l < off + 4 * j + 4 ∧ 4 * j + l < r.size) := by omega
      have h0 : 4 * j ≤ 4 * j + l ∧ 4 * j + l < 4 * j + 4 ∧ 4 * j + l < r.size := by omega
      rw [if_neg h3, if_neg h2, if_neg h1, if_pos h0]
      congr 1; omega
    · rw [mv j hj (off + 4 * j + l) (Or.inr (Or.inl (by omega))), hbody]
      have h3 : ¬ (3 * off + 4 * j ≤ off + 4 * j + l ∧ off + 4 * j + l < 3 * off + 4 * j + 4 ∧ off + 4 * j + l < r.size) := by omega
      have h2 : ¬ (2 * off + 4 * j ≤ off + 4 * j + l ∧ off + 4 * j + l < 2 * off + 4 * j + 4 ∧ off + 4 * j + l < r.size) := by omega
      have h1 : off + 4 * j ≤ off + 4 * j + l ∧ off + 4 * j + l < off + 4 * j + 4 ∧ off + 4 * j + l < r.size := by omega
      rw [if_neg h3, if_neg h2, if_pos h1]
      congr 1; omega
    · rw [mv j hj (2 * off + 4 * j + l) (Or.inr (Or.inr (Or.inl (by omega)))), hbody]
      have h3 : ¬ (3 * off + 4 * j ≤ 2 * off + 4 * j + l ∧ 2 * off + 4 * j + l < 3 * off + 4 * j + 4 ∧ 2 * off + 4 * j + l < r.size) := by omega
      have h2 : 2 * off + 4 * j ≤ 2 * off + 4 * j + l ∧ 2 * off + 4 * j + l < 2 * off + 4 * j + 4 ∧ 2 * off + 4 * j + l < r.size := by omega
      rw [if_neg h3, if_pos h2]
      congr 1; omega
    · rw [mv j hj (3 * off + 4 * j + l) (Or.inr (Or.inr (Or.inr (by omega)))), hbody]
      have h3 : 3 * off + 4 * j ≤ 3 * off + 4 * j + l ∧ 3 * off + 4 * j + l < 3 * off + 4 * j + 4 ∧ 3 * off + 4 * j + l < r.size := by omega
      rw [if_pos h3]
      congr 1; omega
  · intro x hx
    apply mf
    intro j hj hc
    have a0 := hx j hj 0 (by omega)
    have a1 := hx j hj 1 (by omega)
    have a2 := hx j hj 2 (by omega)
    have a3 := hx j hj 3 (by omega)
    omega

end Cover
end Spq
