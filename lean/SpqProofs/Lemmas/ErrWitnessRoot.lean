/-
  Non-vacuity witness for the binary64 rounding theorems at a size WITH real twiddle factors
  (`k = 2`, `m = 4`, `N = 8`, `K = ℝ`), part 1: the exact root and rational enclosures.

  `cis θ = cos θ + i·sin θ` in `Cplx ℝ` (the type of C06Err), de Moivre, `ζ = cis(π/8) = exp(iπ/2m)`, `ζi = cis(−π/8)`;
  `cos(π/8) = √(2+√2)/2`, `sin(π/8) = √(2−√2)/2`, `cos(π/4) = sin(π/4) = √2/2` are enclosed between rationals by
  squaring (`a ≤ √x ⇐ a² ≤ x`, `√x ≤ b ⇐ 0 ≤ b ∧ x ≤ b²`), all numerals checked by `norm_num`.
-/
import SpqProofs.Lemmas.FftErrSchedFin
import Mathlib.Analysis.SpecialFunctions.Trigonometric.Basic
import Mathlib.Analysis.Real.Sqrt
set_option linter.unusedSectionVars false
namespace Spq.ErrWitness
open Spq.FftErr Spq.F64

/-- `cos θ + i·sin θ` -/
noncomputable def cis (θ : ℝ) : Cplx ℝ := ⟨Real.cos θ, Real.sin θ⟩

theorem cis_re (θ : ℝ) : (cis θ).re = Real.cos θ := rfl
theorem cis_im (θ : ℝ) : (cis θ).im = Real.sin θ := rfl

theorem cis_mul (a b : ℝ) : cis a * cis b = cis (a + b) := by
  ext
  · simp only [QuadraticAlgebra.re_mul, cis_re, cis_im, Real.cos_add]; ring
  · simp only [QuadraticAlgebra.im_mul, cis_re, cis_im, Real.sin_add]; ring

theorem cis_zero : cis 0 = 1 := by
  ext <;> simp [cis, QuadraticAlgebra.re_one, QuadraticAlgebra.im_one]

/-- de Moivre -/
theorem cis_pow (θ : ℝ) (e : ℕ) : cis θ ^ e = cis (e * θ) := by
  induction e with
  | zero => simp [cis_zero]
  | succ e ih =>
    rw [pow_succ, ih, cis_mul]
    congr 1
    push_cast; ring

theorem nsq_cis (θ : ℝ) : nsq (cis θ) = 1 := by
  simp only [nsq, cis_re, cis_im]
  exact Real.cos_sq_add_sin_sq θ

theorem cis_pi_div_two : cis (Real.pi / 2) = Ic := by
  ext <;> simp [cis, Ic]

theorem cis_neg_pi_div_two : cis (-(Real.pi / 2)) = -Ic := by
  ext <;> simp [cis, Ic]

/-- the primitive 16th root of unity `exp(iπ/8) = exp(iπ/(2m))`, `m = 4` -/
noncomputable def zeta : Cplx ℝ := cis (Real.pi / 8)
/-- its inverse (= conjugate) `exp(−iπ/8)` -/
noncomputable def zetai : Cplx ℝ := cis (-(Real.pi / 8))

theorem nsq_zeta : nsq zeta = 1 := nsq_cis _
theorem nsq_zetai : nsq zetai = 1 := nsq_cis _

theorem zeta_pow_m : zeta ^ 2 ^ 2 = Ic := by
  unfold zeta
  rw [cis_pow, ← cis_pi_div_two]
  congr 1
  push_cast; ring

theorem zetai_pow_m : zetai ^ 2 ^ 2 = -Ic := by
  unfold zetai
  rw [cis_pow, ← cis_neg_pi_div_two]
  congr 1
  push_cast; ring

theorem zeta_mul_zetai : zeta * zetai = 1 := by
  unfold zeta zetai
  rw [cis_mul, add_neg_cancel, cis_zero]

/-- `ζi` is the complex conjugate of `ζ` -/
theorem zetai_conj : zetai = ⟨zeta.re, -zeta.im⟩ := by
  ext <;> simp [zeta, zetai, cis]

/-! ### the powers that the `m = 4` network uses: exponents `twE ℓ d b ∈ {2, 1, 5}` -/

theorem zeta_pow1 : zeta ^ 1 = ⟨Real.cos (Real.pi / 8), Real.sin (Real.pi / 8)⟩ := by
  rw [pow_one]; rfl

theorem zeta_pow2 : zeta ^ 2 = ⟨Real.cos (Real.pi / 4), Real.sin (Real.pi / 4)⟩ := by
  unfold zeta
  rw [cis_pow]
  have : ((2 : ℕ) : ℝ) * (Real.pi / 8) = Real.pi / 4 := by push_cast; ring
  rw [this]; rfl

theorem zeta_pow5 : zeta ^ 5 = ⟨-Real.sin (Real.pi / 8), Real.cos (Real.pi / 8)⟩ := by
  unfold zeta
  rw [cis_pow]
  have : ((5 : ℕ) : ℝ) * (Real.pi / 8) = Real.pi / 8 + Real.pi / 2 := by push_cast; ring
  rw [this]
  ext
  · exact Real.cos_add_pi_div_two _
  · exact Real.sin_add_pi_div_two _

theorem zetai_pow (e : ℕ) : zetai ^ e = ⟨(zeta ^ e).re, -(zeta ^ e).im⟩ := by
  unfold zeta zetai
  rw [cis_pow, cis_pow, mul_neg]
  ext <;> simp [cis]

theorem zetai_pow1 : zetai ^ 1 = ⟨Real.cos (Real.pi / 8), -Real.sin (Real.pi / 8)⟩ := by
  rw [zetai_pow, zeta_pow1]

theorem zetai_pow2 : zetai ^ 2 = ⟨Real.cos (Real.pi / 4), -Real.sin (Real.pi / 4)⟩ := by
  rw [zetai_pow, zeta_pow2]

theorem zetai_pow5 : zetai ^ 5 = ⟨-Real.sin (Real.pi / 8), -Real.cos (Real.pi / 8)⟩ := by
  rw [zetai_pow, zeta_pow5]

/-! ### rational enclosures by squaring -/

theorem sqrt_two_ge (a : ℝ) (h : a ^ 2 ≤ 2) : a ≤ √2 := Real.le_sqrt_of_sq_le h

theorem sqrt_two_le (b : ℝ) (hb : 0 ≤ b) (h : 2 ≤ b ^ 2) : √2 ≤ b := Real.sqrt_le_iff.2 ⟨hb, h⟩

/-- `lo ≤ √(2+√2)/2 ≤ hi` from `((2lo)² − 2)² ≤ 2 ≤ ((2hi)² − 2)²` -/
theorem cos8_encl (lo hi : ℝ) (hhi : 0 ≤ hi) (h1 : ((2 * lo) ^ 2 - 2) ^ 2 ≤ 2)
    (h2 : 0 ≤ (2 * hi) ^ 2 - 2) (h3 : 2 ≤ ((2 * hi) ^ 2 - 2) ^ 2) :
    lo ≤ Real.cos (Real.pi / 8) ∧ Real.cos (Real.pi / 8) ≤ hi := by
  rw [Real.cos_pi_div_eight]
  have a1 := sqrt_two_ge _ h1
  have a2 := sqrt_two_le _ h2 h3
  constructor
  · have : 2 * lo ≤ √(2 + √2) := Real.le_sqrt_of_sq_le (by linarith)
    linarith
  · have : √(2 + √2) ≤ 2 * hi := Real.sqrt_le_iff.2 ⟨by linarith, by linarith⟩
    linarith

/-- `lo ≤ √(2−√2)/2 ≤ hi` from `(2 − (2hi)²)² ≤ 2 ≤ (2 − (2lo)²)²` -/
theorem sin8_encl (lo hi : ℝ) (hhi : 0 ≤ hi) (h1 : 0 ≤ 2 - (2 * lo) ^ 2) (h2 : 2 ≤ (2 - (2 * lo) ^ 2) ^ 2)
    (h3 : (2 - (2 * hi) ^ 2) ^ 2 ≤ 2) :
    lo ≤ Real.sin (Real.pi / 8) ∧ Real.sin (Real.pi / 8) ≤ hi := by
  rw [Real.sin_pi_div_eight]
  have a1 := sqrt_two_le _ h1 h2
  have a2 := sqrt_two_ge _ h3
  constructor
  · have : 2 * lo ≤ √(2 - √2) := Real.le_sqrt_of_sq_le (by linarith)
    linarith
  · have : √(2 - √2) ≤ 2 * hi := Real.sqrt_le_iff.2 ⟨by linarith, by linarith⟩
    linarith

/-- `lo ≤ √2/2 ≤ hi` -/
theorem cs4_encl (lo hi : ℝ) (hhi : 0 ≤ hi) (h1 : (2 * lo) ^ 2 ≤ 2) (h2 : 2 ≤ (2 * hi) ^ 2) :
    lo ≤ √2 / 2 ∧ √2 / 2 ≤ hi := by
  have a1 := sqrt_two_ge _ h1
  have a2 := sqrt_two_le (2 * hi) (by linarith) h2
  constructor <;> linarith

end Spq.ErrWitness
