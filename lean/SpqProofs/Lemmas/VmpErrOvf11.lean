/-
  No-overflow from a magnitude box, step 11: the vector-matrix product pipeline.  `VmpOkU` (underflow-only flags of
  the four stages of column `j`) + coefficient boxes + twiddles bounded by 1 ⇒ `VmpOk`, for `k ≤ 64`, `n ≤ 2^25 − 1`.
  Magnitudes: `2^50` → forward `2^(50+3k)` → accumulation `32·U²·(n+1) ≤ 2^(130+6k)` → inverse `2^(130+9k) < 2^1023`.
-/
import SpqProofs.Lemmas.VmpErrOvf10
import SpqProofs.Lemmas.VmpErrPipe2
set_option linter.unusedSectionVars false
namespace Spq.VmpErr
open Spq Spq.Module Spq.Fft Spq.Fft.Alg Spq.Fft.RelN Spq.Fft.SimP Spq.Fft.LevelN Spq.Fft.SchedN Spq.Fft.Sim Spq.FftErr Spq.F64
  Spq.Reim4 Spq.ProdErr

/-- **the underflow-only flags of the pipeline for output column `j`** (`VmpOk` with `NoUnd` in place of `NormalRange`) -/
structure VmpOkU (c : Cfg) (k : ℕ) (cN sN cNi sNi : ℕ → ℕ) (mat : Array Int) (nrows ncols : ℕ) (a : Array Int)
    (asz asl rsz j : ℕ) : Prop where
  okA : ∀ i, i < min nrows asz → FwdOkU c k cN sN (limbOf a i asl (2 * 2 ^ k))
  okB : ∀ i, i < min nrows asz → FwdOkU c k cN sN (matEntry mat ncols (2 * 2 ^ k) i j)
  okD : ∀ p, p < 2 * 2 ^ k → vmpFlagU c mat nrows ncols a asz asl rsz (j * (2 * 2 ^ k) + p)
  okI : ∀ p, p < 2 * 2 ^ k →
    ((reimIfftA (ifamOf c.ifftFma aU) (2 ^ k) ((((reimIfftEnts (2 ^ k)).map (valP cNi sNi)).toArray).map lift)
      ((dlimb (vmpRes c mat nrows ncols a asz asl rsz) j (2 * 2 ^ k)).map lift))[p]!).2

theorem kap_pow_le (n : ℕ) (hn : 2 * n + 2 ≤ 67108864) : kap ^ (2 * n) ≤ 4 := by
  unfold kap
  have hu : (0 : ℚ) ≤ u64 := le_of_lt u64_pos
  have hu' : u64 = 1 / 9007199254740992 := by unfold u64; norm_num
  have hp : ((2 * n : ℕ) : ℚ) ≤ 67108864 := by exact_mod_cast (by omega : 2 * n ≤ 67108864)
  have hp0 : (0 : ℚ) ≤ ((2 * n : ℕ) : ℚ) := Nat.cast_nonneg _
  have h1 : ((2 * n : ℕ) : ℚ) * u64 ≤ 1 := by rw [hu']; nlinarith
  have h := pow_le_quad u64 hu (2 * n) h1
  have h2 : (((2 * n : ℕ) : ℚ) * u64) ^ 2 ≤ 1 := by
    have : 0 ≤ ((2 * n : ℕ) : ℚ) * u64 := mul_nonneg hp0 hu
    nlinarith
  linarith

theorem vmp_no_ovf (c : Cfg) (k : ℕ) (hk : k ≤ 64) (cN sN cNi sNi : ℕ → ℕ) (h : VCfgOk c k cN sN cNi sNi)
    (htab : TabOk cN sN) (htabi : TabOk cNi sNi)
    (mat : Array Int) (nrows ncols : ℕ) (a : Array Int) (asz asl rsz : ℕ) (hn : 2 * min nrows asz + 2 ≤ 67108864)
    (hA : ∀ i, i < min nrows asz → Box k (limbOf a i asl (2 * 2 ^ k)))
    (hM : ∀ i j, i < nrows → j < ncols → Box k (matEntry mat ncols (2 * 2 ^ k) i j))
    (j : ℕ) (hj : j < min ncols rsz) (hpos : k < 2 → 0 < min nrows asz)
    (hok : VmpOkU c k cN sN cNi sNi mat nrows ncols a asz asl rsz j) :
    VmpOk c k cN sN cNi sNi mat nrows ncols a asz asl rsz j := by
  have hjc : j < ncols := lt_of_lt_of_le hj (Nat.min_le_left _ _)
  have hjr : j < rsz := lt_of_lt_of_le hj (Nat.min_le_right _ _)
  have fa := fun i (hi : i < min nrows asz) => fwd_no_ovf c k (by omega) cN sN cNi sNi h.cfg htab _ (hA i hi) (hok.okA i hi)
  have fb := fun i (hi : i < min nrows asz) => fwd_no_ovf c k (by omega) cN sN cNi sNi h.cfg htab _
    (hM i j (lt_of_lt_of_le hi (Nat.min_le_left _ _)) hjc) (hok.okB i hi)
  obtain ⟨U, hU⟩ : ∃ U : ℚ, U = 2 ^ (50 + 3 * k) := ⟨_, rfl⟩
  have hU0 : 0 ≤ U := by rw [hU]; positivity
  have hn1 : (((min nrows asz : ℕ) : ℚ) + 1) ≤ 2 ^ 25 := by
    have : ((min nrows asz : ℕ) : ℚ) + 1 = ((min nrows asz + 1 : ℕ) : ℚ) := by push_cast; ring
    rw [this]
    have : min nrows asz + 1 ≤ 2 ^ 25 := by norm_num; omega
    exact_mod_cast this
  have hn0 : (0 : ℚ) ≤ ((min nrows asz : ℕ) : ℚ) + 1 := by positivity
  have hB : 32 * (U * U) * (((min nrows asz : ℕ) : ℚ) + 1) ≤ 2 ^ (130 + 6 * k) := by
    have e : (2 : ℚ) ^ (130 + 6 * k) = 32 * (U * U) * 2 ^ 25 := by
      rw [hU, show (32 : ℚ) = 2 ^ 5 by norm_num, ← pow_add, ← pow_add, ← pow_add]; congr 1; omega
    rw [e]
    exact mul_le_mul_of_nonneg_left hn1 (by positivity)
  have hT : 32 * (U * U) * (((min nrows asz : ℕ) : ℚ) + 1) < Tov := lt_of_le_of_lt hB (pow2_lt_Tov _ (by omega))
  have cells := fun t (ht : t < 2 ^ k) => cell_no_ovf c k cN sN cNi sNi h mat nrows ncols a asz asl rsz hA hM U U hU0 hU0
    (fun i hi x hx => by rw [← getElem!_nat, hU]; exact ((fa i hi).2 x hx).2)
    (kap_pow_le _ hn) hT j t hj ht hpos
    (fun i hi x hx => by rw [← getElem!_nat, hU]; exact ((fb i hi).2 x hx).2)
  have cellp : ∀ p, p < 2 * 2 ^ k → vmpFlag c mat nrows ncols a asz asl rsz (j * (2 * 2 ^ k) + p) ∧
      |val ((vmpRes c mat nrows ncols a asz asl rsz).getD (j * (2 * 2 ^ k) + p) 0)| ≤
        32 * (U * U) * (((min nrows asz : ℕ) : ℚ) + 1) := by
    intro p hp
    by_cases hlt : p < 2 ^ k
    · exact (cells p hlt).1 (hok.okD p hp)
    · obtain ⟨t, rfl⟩ : ∃ t, p = t + 2 ^ k := ⟨p - 2 ^ k, by omega⟩
      have := (cells t (by omega)).2 (by rw [Nat.add_assoc]; exact hok.okD _ hp)
      rw [Nat.add_assoc] at this
      exact this
  have hsz : (dlimb (vmpRes c mat nrows ncols a asz asl rsz) j (2 * 2 ^ k)).size = 2 * 2 ^ k :=
    dlimb_size _ j _ rsz (vmpRes_size c k cN sN cNi sNi h mat nrows ncols a asz asl rsz hM) hjr
  have hTi : (8 : ℚ) ^ k * (32 * (U * U) * (((min nrows asz : ℕ) : ℚ) + 1)) < Tov := by
    have : (8 : ℚ) ^ k * (32 * (U * U) * (((min nrows asz : ℕ) : ℚ) + 1)) ≤ 8 ^ k * 2 ^ (130 + 6 * k) :=
      mul_le_mul_of_nonneg_left hB (by positivity)
    refine lt_of_le_of_lt this ?_
    rw [pow8, ← pow_add]
    exact pow2_lt_Tov _ (by omega)
  have ri := ifft_no_ovf' c.ifftFma k cNi sNi htabi _ hsz (32 * (U * U) * (((min nrows asz : ℕ) : ℚ) + 1))
    (mul_nonneg (mul_nonneg (by norm_num) (mul_nonneg hU0 hU0)) hn0)
    (fun p hp => by
      rw [getElem!_nat, dlimb_get 0 _ j (2 * 2 ^ k) p hp]
      exact (cellp p hp).2) hTi hok.okI
  exact ⟨fun i hi => (fa i hi).1, fun i hi => (fb i hi).1, fun p hp => (cellp p hp).1, fun p hp => (ri p hp).1⟩

end Spq.VmpErr
