/-
  Heap-level refinement of `fft64_znx_small_single_product`: the scratch layout `ffta = tmp[0,nn)`,
  `fftb = tmp[nn,2nn)`, seven kernel calls.
-/
import SpqProofs.Lemmas.ModHeapIdft
namespace Spq.ModuleHeap
open Spq Heap Reim4
variable {γ α : Type}

section
variable (c : Module.Parts α) (cd : Cells γ α) (hs : Sized c) (hr : RoundTrip cd)
include hs hr

/-- What the call tolerates: `a` and `b` are read before anything else is written outside scratch, so `res` may
    overlap `a` and `b` in any way; `a`, `b` must not meet the scratch cells that are written before they are read
    (`a`: `ffta`; `b`: `ffta` and `fftb`); `res` must be disjoint from (or equal to) `ffta`.
    Stated here with the plain contract "a, b, res disjoint from the scratch area". -/
theorem smallProduct_heap (h : Heap γ) (res a b tmp tb : Nat)
    (htb : 8 * (2 * c.nn) ≤ tb)
    (ha : a + c.nn ≤ h.mem.size) (hb : b + c.nn ≤ h.mem.size) (hres : res + c.nn ≤ h.mem.size)
    (htmp : tmp + 2 * c.nn ≤ h.mem.size)
    (hda : a + c.nn ≤ tmp ∨ tmp + 2 * c.nn ≤ a) (hdb : b + c.nn ≤ tmp ∨ tmp + 2 * c.nn ≤ b)
    (hdr : res + c.nn ≤ tmp ∨ tmp + 2 * c.nn ≤ res) :
    Fr (fun x => In res c.nn x ∨ In tmp (2 * c.nn) x) h (smallProduct c cd h res a b tmp tb) ∧
    (smallProduct c cd h res a b tmp tb).readLimb cd.dflt res c.nn =
      (Module.smallProduct c (rdI cd h a c.nn) (rdI cd h b c.nn)).map cd.encI := by
  unfold smallProduct
  simp only [scr_eq tb 0 c.nn _ (by omega), scr_eq tb c.nn c.nn _ (by omega), scr_eq tb 0 (2 * c.nn) _ (by omega)]
  -- ffta <- a
  obtain ⟨f1, v1⟩ := kFromZnx_spec c cd h hs tmp a ha (by omega) (sameOrDisj_of _ _ _ (by omega))
  -- fftb <- b
  obtain ⟨f2, v2⟩ := kFromZnx_spec c cd (kFromZnx c cd tmp a h) hs (tmp + c.nn) b (by rw [f1.size]; omega)
    (by rw [f1.size]; omega) (sameOrDisj_of _ _ _ (by omega))
  rw [rdI_of_fr f1 cd b c.nn (fun x hx hw => by unfold In at *; omega)] at v2
  have a2 : (kFromZnx c cd (tmp + c.nn) b (kFromZnx c cd tmp a h)).readLimb cd.dflt tmp c.nn = _ :=
    (readLimb_of_fr f2 cd.dflt tmp c.nn (fun x hx hw => by unfold In at *; omega)).trans v1
  have F2 := f1.trans f2
  -- fft(ffta)
  obtain ⟨f3, v3⟩ := kFft_spec c cd _ hs tmp (by rw [F2.size]; omega)
  rw [rdD_of_cells cd hr _ _ _ _ a2] at v3
  have b3 := (readLimb_of_fr f3 cd.dflt (tmp + c.nn) c.nn (fun x hx hw => by unfold In at *; omega)).trans v2
  have F3 := F2.trans f3
  -- fft(fftb)
  obtain ⟨f4, v4⟩ := kFft_spec c cd _ hs (tmp + c.nn) (by rw [F3.size]; omega)
  rw [rdD_of_cells cd hr _ _ _ _ b3] at v4
  have a4 := (readLimb_of_fr f4 cd.dflt tmp c.nn (fun x hx hw => by unfold In at *; omega)).trans v3
  have F4 := F3.trans f4
  -- ffta <- ffta * fftb
  obtain ⟨f5, v5⟩ := kMul_spec c cd _ tmp tmp (tmp + c.nn) (by rw [F4.size]; omega) (by rw [F4.size]; omega)
    (by rw [F4.size]; omega) (sameOrDisj_same _ _) (sameOrDisj_of _ _ _ (by omega))
  rw [rdD_of_cells cd hr _ _ _ _ a4, rdD_of_cells cd hr _ _ _ _ v4] at v5
  have F5 := F4.trans f5
  -- ifft(ffta)
  obtain ⟨f6, v6⟩ := kIfft_spec c cd _ hs tmp (by rw [F5.size]; omega)
  rw [rdD_of_cells cd hr _ _ _ _ v5] at v6
  have F6 := F5.trans f6
  -- res <- round(ffta / m)
  obtain ⟨f7, v7⟩ := kToZnx_spec c cd _ hs res tmp (by rw [F6.size]; omega) (by rw [F6.size]; omega)
    (sameOrDisj_of _ _ _ (by omega))
  rw [rdD_of_cells cd hr _ _ _ _ v6] at v7
  refine ⟨(F6.trans f7).mono (fun x q => by unfold In at *; omega), ?_⟩
  rw [v7]
  rfl

end
end Spq.ModuleHeap
