/-
  `znx_normalize`: the six loops of the C function (selected by which of `out`, `carry_in`, `carry_out` are
  null) against `Coeffs.znxNormalize`.  One lemma per loop; `SpqProofs/Properties/Src.lean` combines them.
-/
import Gen.CSrc
import Spq.Coeffs
import SpqProofs.Lemmas.SrcInv
import SpqProofs.Lemmas.SrcFuel
namespace Spq.CIR
open Spq

theorem znxNormalize_fst (nn k : Nat) (inp : Array Int) (cin : Option (Array Int)) :
    (Coeffs.znxNormalize nn k inp cin).1
      = Array.ofFn (n := nn) fun j => (Coeffs.normCoef k (inp.getD j.val 0) (cin.map fun c => c.getD j.val 0)).1 := by
  apply Array.ext
  · simp [Coeffs.znxNormalize]
  · intro j h1 h2
    simp [Coeffs.znxNormalize]

theorem znxNormalize_snd (nn k : Nat) (inp : Array Int) (cin : Option (Array Int)) :
    (Coeffs.znxNormalize nn k inp cin).2
      = Array.ofFn (n := nn) fun j => (Coeffs.normCoef k (inp.getD j.val 0) (cin.map fun c => c.getD j.val 0)).2 := by
  apply Array.ext
  · simp [Coeffs.znxNormalize]
  · intro j h1 h2
    simp [Coeffs.znxNormalize]

/-- `64 - base_k` in uint64 -/
theorem sub64 (k : Nat) (hk : k ≤ 64) :
    ((64 : Int) % 18446744073709551616 - (k : Int)) % 18446744073709551616 = ((64 - k : Nat) : Int) := by
  omega

/-- reduce the null-pointer tests of the branch selection -/
macro "cir_branch" : tactic =>
  `(tactic| simp only [Option.isNone_some, Option.isNone_none, Bool.false_eq_true, ↓reduceIte, Int.reduceEq, ne_eq,
    not_true_eq_false, not_false_eq_true, decide_true, decide_false, R.bind_ok])

/-- `out` only: `out[i] = get_base_k_digit(in[i], base_k)` -/
theorem norm_out_only (nn : Nat) (hnn : nn < 18446744073709551616) (k : Nat) (hk1 : 1 ≤ k) (hk2 : k ≤ 63)
    (mem : Mem) (o i : Nat) (ho : (buf mem o).size = nn) (hi : (buf mem i).size = nn) :
    ∀ fuel, nn ≤ fuel →
      run fuel Gen.CSrc.znx_normalize [(nn : Int), (k : Int)] [some (o, 0), none, some (i, 0), none] mem
        = .ok (mem.setIfInBounds o (Coeffs.znxNormalize nn k (buf mem i) none).1) := by
  intro fuel hf
  cir_enter Gen.CSrc.znx_normalize
  cir_simp
  cir_branch
  rw [fill_for _ _ _ _ _ _ _ mem mem o (fun j => (Coeffs.normCoef k ((buf mem i).getD j 0) none).1) 0 nn
    (set_fill_zero _ _ _).symm rfl (Nat.zero_le _) (by omega) hnn (by simp) ?he0 ?hhi ?he fuel (by omega)]
  case he0 => rfl
  case hhi => intro j _ _; rfl
  case he =>
    intro j _ hj
    cir_simp
    rw [load_fill _ _ _ _ _ _ (by omega) (Nat.le_refl _)]; cir_simp
    rw [sub64 k (by omega), evalBin_shl_i64 _ _ (by omega)]; cir_simp
    rw [evalBin_shr_i64 _ _ (by omega)]
    rfl
  rw [fillMem_all _ _ _ _ ho, znxNormalize_fst]
  rfl

/-- what the loops of `znx_normalize` need to know about the environment (33 slots; slot 0 = nn, 1 = base_k) -/
def NKeep (nn k : Nat) (env : List Int) : Prop :=
  env.length = 33 ∧ lget env 0 = (nn : Int) ∧ lget env 1 = (k : Int)

/- evaluate slot reads over the abstract environment (`hl h0 h1 hjs` as introduced in the proofs below) -/
set_option hygiene false in
macro "env_simp" : tactic =>
  `(tactic| simp only [lget_lset, length_lset, hl, h0, h1, hjs, Nat.reduceEqDiff, Nat.reduceLT, ↓reduceIte])

/- run the straight-line body: slot reads, loads of not-yet-written cells, the shifts by `64 - base_k`/`base_k` -/
set_option hygiene false in
macro "norm_steps" : tactic =>
  `(tactic| repeat (first
    | rw [load_fill _ _ _ _ _ _ (by omega) (Nat.le_refl _)]
    | rw [load_fillMem2 _ _ _ _ _ _ _ _ _ hoc (by omega) (by omega) (by omega)]
    | rw [sub64 k (by omega)]
    | rw [evalBin_shl_i64 _ _ (by omega)]
    | rw [evalBin_shr_i64 _ _ (by omega)]
    | cir_simp
    | env_simp))

/- the side goals of `body_for` that do not depend on the loop body -/
set_option hygiene false in
macro "norm_side" : tactic =>
  `(tactic| first
    | exact ⟨rfl, rfl, rfl⟩
    | (intro env v ⟨h1, h2, h3⟩
       exact ⟨by rw [length_lset]; exact h1, by rw [lget_lset_ne _ _ _ _ (by decide)]; exact h2,
         by rw [lget_lset_ne _ _ _ _ (by decide)]; exact h3⟩)
    | (intro env ⟨h1, _, _⟩; omega)
    | rfl
    | (intro env j ⟨_, h2, _⟩; cir_simp; rw [h2]))

/-- `carry_out` only (no `out`, no `carry_in`) -/
theorem norm_cout (nn : Nat) (hnn : nn < 18446744073709551616) (k : Nat) (hk1 : 1 ≤ k) (hk2 : k ≤ 63)
    (mem : Mem) (c i : Nat) (hc : (buf mem c).size = nn) (hi : (buf mem i).size = nn) :
    ∀ fuel, nn ≤ fuel →
      run fuel Gen.CSrc.znx_normalize [(nn : Int), (k : Int)] [none, some (c, 0), some (i, 0), none] mem
        = .ok (mem.setIfInBounds c (Coeffs.znxNormalize nn k (buf mem i) none).2) := by
  intro fuel hf
  cir_enter Gen.CSrc.znx_normalize
  cir_simp
  cir_branch
  let g : Nat → Int := fun j => (Coeffs.normCoef k ((buf mem i).getD j 0) none).2
  rw [body_for _ _ _ _ _ _ mem (fun j => fillMem mem c g j) (NKeep nn k) 0 nn
    (set_fill_zero _ _ _).symm (Nat.zero_le _) hnn ?hK0 ?hKjs ?hKlen ?he0 ?hhiE ?hbody fuel (by omega)]
  · rw [fillMem_all _ _ _ _ hc, znxNormalize_snd]
    rfl
  case hbody =>
    intro env j _ hj ⟨hl, h0, h1⟩ hjs f
    norm_steps
    rw [store_fill mem c g j _ (by omega) (by rfl)]; cir_simp
    refine ⟨_, rfl, ⟨?_, ?_, ?_⟩, ?_⟩ <;> env_simp
  all_goals norm_side

/-- `carry_out` and `carry_in` (no `out`) -/
theorem norm_cout_cin (nn : Nat) (hnn : nn < 18446744073709551616) (k : Nat) (hk1 : 1 ≤ k) (hk2 : k ≤ 63)
    (mem : Mem) (c i ci : Nat) (hc : (buf mem c).size = nn) (hi : (buf mem i).size = nn)
    (hci : (buf mem ci).size = nn) :
    ∀ fuel, nn ≤ fuel →
      run fuel Gen.CSrc.znx_normalize [(nn : Int), (k : Int)] [none, some (c, 0), some (i, 0), some (ci, 0)] mem
        = .ok (mem.setIfInBounds c (Coeffs.znxNormalize nn k (buf mem i) (some (buf mem ci))).2) := by
  intro fuel hf
  cir_enter Gen.CSrc.znx_normalize
  cir_simp
  cir_branch
  let g : Nat → Int := fun j =>
    (Coeffs.normCoef k ((buf mem i).getD j 0) (some ((buf mem ci).getD j 0))).2
  rw [body_for _ _ _ _ _ _ mem (fun j => fillMem mem c g j) (NKeep nn k) 0 nn
    (set_fill_zero _ _ _).symm (Nat.zero_le _) hnn ?hK0 ?hKjs ?hKlen ?he0 ?hhiE ?hbody fuel (by omega)]
  · rw [fillMem_all _ _ _ _ hc, znxNormalize_snd]
    rfl
  case hbody =>
    intro env j _ hj ⟨hl, h0, h1⟩ hjs f
    norm_steps
    rw [store_fill mem c g j _ (by omega) (by rfl)]; cir_simp
    refine ⟨_, rfl, ⟨?_, ?_, ?_⟩, ?_⟩ <;> env_simp
  all_goals norm_side

/-- `out` and `carry_in` (carry dropped) -/
theorem norm_out_cin (nn : Nat) (hnn : nn < 18446744073709551616) (k : Nat) (hk1 : 1 ≤ k) (hk2 : k ≤ 63)
    (mem : Mem) (o i ci : Nat) (ho : (buf mem o).size = nn) (hi : (buf mem i).size = nn)
    (hci : (buf mem ci).size = nn) :
    ∀ fuel, nn ≤ fuel →
      run fuel Gen.CSrc.znx_normalize [(nn : Int), (k : Int)] [some (o, 0), none, some (i, 0), some (ci, 0)] mem
        = .ok (mem.setIfInBounds o (Coeffs.znxNormalize nn k (buf mem i) (some (buf mem ci))).1) := by
  intro fuel hf
  cir_enter Gen.CSrc.znx_normalize
  cir_simp
  cir_branch
  let g : Nat → Int := fun j =>
    (Coeffs.normCoef k ((buf mem i).getD j 0) (some ((buf mem ci).getD j 0))).1
  rw [body_for _ _ _ _ _ _ mem (fun j => fillMem mem o g j) (NKeep nn k) 0 nn
    (set_fill_zero _ _ _).symm (Nat.zero_le _) hnn ?hK0 ?hKjs ?hKlen ?he0 ?hhiE ?hbody fuel (by omega)]
  · rw [fillMem_all _ _ _ _ ho, znxNormalize_fst]
    rfl
  case hbody =>
    intro env j _ hj ⟨hl, h0, h1⟩ hjs f
    norm_steps
    rw [store_fill mem o g j _ (by omega) (by rfl)]; cir_simp
    refine ⟨_, rfl, ⟨?_, ?_, ?_⟩, ?_⟩ <;> env_simp
  all_goals norm_side

theorem fillMem2_all (m : Mem) (o c : Nat) (gy gc : Nat → Int) (n : Nat) (ho : (buf m o).size = n)
    (hc : (buf m c).size = n) :
    fillMem2 m o gy c gc n n
      = (m.setIfInBounds o (Array.ofFn (n := n) fun j => gy j.val)).setIfInBounds c
          (Array.ofFn (n := n) fun j => gc j.val) := by
  unfold fillMem2
  rw [fillTo_all _ _ _ ho, fillTo_all _ _ _ hc]

/-- `out` and `carry_out`, no `carry_in`; `out` and `carry_out` are different buffers -/
theorem norm_out_cout (nn : Nat) (hnn : nn < 18446744073709551616) (k : Nat) (hk1 : 1 ≤ k) (hk2 : k ≤ 63)
    (mem : Mem) (o c i : Nat) (hoc : c ≠ o) (ho : (buf mem o).size = nn) (hc : (buf mem c).size = nn)
    (hi : (buf mem i).size = nn) :
    ∀ fuel, nn ≤ fuel →
      run fuel Gen.CSrc.znx_normalize [(nn : Int), (k : Int)] [some (o, 0), some (c, 0), some (i, 0), none] mem
        = .ok ((mem.setIfInBounds o (Coeffs.znxNormalize nn k (buf mem i) none).1).setIfInBounds c
            (Coeffs.znxNormalize nn k (buf mem i) none).2) := by
  intro fuel hf
  cir_enter Gen.CSrc.znx_normalize
  cir_simp
  cir_branch
  let gy : Nat → Int := fun j => (Coeffs.normCoef k ((buf mem i).getD j 0) none).1
  let gc : Nat → Int := fun j => (Coeffs.normCoef k ((buf mem i).getD j 0) none).2
  rw [body_for _ _ _ _ _ _ mem (fun j => fillMem2 mem o gy c gc j j) (NKeep nn k) 0 nn
    (fillMem2_zero _ _ _ _ _).symm (Nat.zero_le _) hnn ?hK0 ?hKjs ?hKlen ?he0 ?hhiE ?hbody fuel (by omega)]
  · rw [fillMem2_all _ _ _ _ _ _ ho hc, znxNormalize_fst, znxNormalize_snd]
    rfl
  case hbody =>
    intro env j _ hj ⟨hl, h0, h1⟩ hjs f
    norm_steps
    rw [store_fillMem2_fst mem o c gy gc j j _ hoc (by omega) (by rfl)]; cir_simp; env_simp
    rw [store_fillMem2_snd mem o c gy gc (j + 1) j _ hoc (by omega) (by rfl)]; cir_simp
    refine ⟨_, rfl, ⟨?_, ?_, ?_⟩, ?_⟩ <;> env_simp
  all_goals norm_side

/-- all of `out`, `carry_out`, `carry_in`; `out` and `carry_out` are different buffers -/
theorem norm_out_cout_cin (nn : Nat) (hnn : nn < 18446744073709551616) (k : Nat) (hk1 : 1 ≤ k) (hk2 : k ≤ 63)
    (mem : Mem) (o c i ci : Nat) (hoc : c ≠ o) (ho : (buf mem o).size = nn) (hc : (buf mem c).size = nn)
    (hi : (buf mem i).size = nn) (hci : (buf mem ci).size = nn) :
    ∀ fuel, nn ≤ fuel →
      run fuel Gen.CSrc.znx_normalize [(nn : Int), (k : Int)]
          [some (o, 0), some (c, 0), some (i, 0), some (ci, 0)] mem
        = .ok ((mem.setIfInBounds o (Coeffs.znxNormalize nn k (buf mem i) (some (buf mem ci))).1).setIfInBounds c
            (Coeffs.znxNormalize nn k (buf mem i) (some (buf mem ci))).2) := by
  intro fuel hf
  cir_enter Gen.CSrc.znx_normalize
  cir_simp
  cir_branch
  let gy : Nat → Int := fun j =>
    (Coeffs.normCoef k ((buf mem i).getD j 0) (some ((buf mem ci).getD j 0))).1
  let gc : Nat → Int := fun j =>
    (Coeffs.normCoef k ((buf mem i).getD j 0) (some ((buf mem ci).getD j 0))).2
  rw [body_for _ _ _ _ _ _ mem (fun j => fillMem2 mem o gy c gc j j) (NKeep nn k) 0 nn
    (fillMem2_zero _ _ _ _ _).symm (Nat.zero_le _) hnn ?hK0 ?hKjs ?hKlen ?he0 ?hhiE ?hbody fuel (by omega)]
  · rw [fillMem2_all _ _ _ _ _ _ ho hc, znxNormalize_fst, znxNormalize_snd]
    rfl
  case hbody =>
    intro env j _ hj ⟨hl, h0, h1⟩ hjs f
    norm_steps
    rw [store_fillMem2_fst mem o c gy gc j j _ hoc (by omega) (by rfl)]; cir_simp; env_simp
    rw [store_fillMem2_snd mem o c gy gc (j + 1) j _ hoc (by omega) (by rfl)]; cir_simp
    refine ⟨_, rfl, ⟨?_, ?_, ?_⟩, ?_⟩ <;> env_simp
  all_goals norm_side

end Spq.CIR
