/-
  `vec_znx_normalize_base2k_ref`: the loop bodies of the generated term (referred to through accessors, not
  restated) take the arena of model state `nT d` to the arena of `nT (d+1)`; `d` counts the limbs processed so
  far, the limb index is `asz - 1 - d`.
-/
import Gen.CSrc
import SpqProofs.Lemmas.SrcNormVec
import SpqProofs.Lemmas.SrcVecTac
namespace Spq.CIR
open Spq Spq.Norm

def sFst : Stmt → Stmt | .seq a _ => a | s => s
def sSnd : Stmt → Stmt | .seq _ b => b | s => s
def sForBody : Stmt → Stmt | .for _ _ _ b => b | s => s

/-- `for (; i >= res_size; --i) {…} ; for (; i >= 1; --i) {…} ; znx_normalize(…last…) ; for (…zero…)` -/
def normTail : Stmt := sSnd (sSnd (sSnd (sSnd (sSnd (sSnd Gen.CSrc.vec_znx_normalize_base2k_ref.body)))))
def normFor1 : Stmt := sFst normTail
def normFor2 : Stmt := sFst (sSnd normTail)
def normLast : Stmt := sFst (sSnd (sSnd normTail))
def normFor4 : Stmt := sSnd (sSnd (sSnd normTail))

/-- model state after `d` limbs -/
def nT (nn k res rsz rsl a asz asl : Nat) (X : Array Int) (d : Nat) : NState :=
  seqD (nstep nn k res rsz rsl a asl) (asz - 1) (⟨X, true⟩, none) d

/-- slots of the wrapper: `cout` = scratch, `cin` = null before the first limb, then the scratch -/
def nEnv (nn k rsz rsl asz asl B t d : Nat) (i : Int) : List Int :=
  [(nn : Int), (k : Int), (rsz : Int), (rsl : Int), (asz : Int), (asl : Int), (nn : Int), 0, (B : Int), (t : Int),
    if d = 0 then -1 else (B : Int), if d = 0 then 0 else (t : Int), i, 0]

theorem nT_succ (nn k res rsz rsl a asz asl : Nat) (X : Array Int) (d : Nat) :
    nT nn k res rsz rsl a asz asl X (d + 1)
      = nstep nn k res rsz rsl a asl (nT nn k res rsz rsl a asz asl X d) (asz - 1 - d) := rfl

theorem nT_inv (nn k res rsz rsl a asz asl : Nat) (X : Array Int) (d : Nat) :
    NInv nn X.size (nT nn k res rsz rsl a asz asl X d) :=
  seqD_inv nn X.size _ (fun st i h => nstep_inv nn k res rsz rsl a asl X.size st i h) _ _
    ⟨rfl, fun c h => by cases h⟩ d

theorem nT_snd_zero (nn k res rsz rsl a asz asl : Nat) (X : Array Int) :
    (nT nn k res rsz rsl a asz asl X 0).2 = none := rfl

theorem ptrAt_pvar_null (Γ : List Ptr) (env : List Int) (s : Nat) (v : Int) (h : lget env s = -1) :
    ptrAt Γ env (.pvar s) v = .ok none := by
  simp [ptrAt, decPtr, h]

theorem idx_wrap (i s : Nat) (hi : i < 18446744073709551616) (h : i * s < 18446744073709551616) :
    ((i : Int) % 18446744073709551616 * (s : Int)) % 18446744073709551616 = ((i * s : Nat) : Int) := by
  have e : (i : Int) % 18446744073709551616 = (i : Int) := Int.emod_eq_of_lt (by omega) (by omega)
  rw [e]
  exact mul_wrap i s h

/-- the arena after the last limb (`carry_out = NULL`): the scratch keeps the carry of the previous limb -/
def lastArena (t : Nat) (prev next : NState) : Array Int := scr t (next.1, prev.2)
theorem lastArena_some (t : Nat) (prev next : NState) (c : Array Int) (h : prev.2 = some c) :
    lastArena t prev next = Heap.writeArr next.1.mem t c := scr_some t (next.1, prev.2) c h
theorem lastArena_none (t : Nat) (prev next : NState) (h : prev.2 = none) :
    lastArena t prev next = next.1.mem := scr_none t (next.1, prev.2) h

section step
variable (nn k rsz rsl asz asl res a t : Nat) (m0 : Mem) (B : Nat) (hB : B < m0.size) (X : Array Int)
include hB

theorem norm_step1 (hnn : nn < 18446744073709551616) (hk1 : 1 ≤ k) (hk2 : k ≤ 63)
    (hasz : asz < 9223372036854775808) (hX : X.size < 18446744073709551616)
    (hTa : ∀ i, i < asz → a + i * asl + nn ≤ t ∨ t + nn ≤ a + i * asl) (hT : t + nn ≤ X.size)
    (d : Nat) (hd : d < asz) (hge : rsz ≤ asz - 1 - d)
    (hok : (nT nn k res rsz rsl a asz asl X (d + 1)).1.ok = true) (f : Nat) (hf : nn ≤ f) :
    exec [some (B, res), some (B, a), some (B, t)] (sForBody normFor1) f
        ⟨nEnv nn k rsz rsl asz asl B t d ((asz - 1 - d : Nat) : Int),
          m0.setIfInBounds B (scr t (nT nn k res rsz rsl a asz asl X d))⟩
      = .ok (.norm, ⟨nEnv nn k rsz rsl asz asl B t (d + 1) ((asz - 1 - d : Nat) : Int),
          m0.setIfInBounds B (scr t (nT nn k res rsz rsl a asz asl X (d + 1)))⟩) := by
  have hinv := nT_inv nn k res rsz rsl a asz asl X d
  rw [nT_succ] at hok ⊢
  obtain ⟨_, hab, _⟩ := nstep_ok _ _ _ _ _ _ _ _ _ hok
  rw [hinv.size] at hab
  have hi64 : asz - 1 - d < 18446744073709551616 := by omega
  have hmul : (asz - 1 - d) * asl < 18446744073709551616 := by omega
  have hat := hTa (asz - 1 - d) (by omega)
  have hsz : (scr t (nT nn k res rsz rsl a asz asl X d)).size = X.size := by rw [size_scr, hinv.size]
  show exec _ (.seq _ _) f _ = _
  rcases d with _ | d'
  · -- first limb: no carry in
    simp only [nEnv, if_pos (rfl : (0 : Nat) = 0), if_neg (Nat.add_one_ne_zero 0)]
    cir_simp
    rw [ptrAt_null, ptrAt_pvar _ _ 8 B t rfl rfl, idx_wrap _ _ hi64 hmul,
      ptrAt_param _ _ 1 B a ((asz - 1 - 0) * asl) rfl, ptrAt_pvar_null _ _ 10 0 rfl]
    cir_simp
    rw [arena_norm_cout m0 B hB _ nn hnn k hk1 hk2 (a + (asz - 1 - 0) * asl) t (by rw [hsz]; exact hab)
      (by rw [hsz]; exact hT) hat f hf]
    cir_simp
    rw [scr_step_ge_none nn k res rsz rsl a asl t _ _ (by omega) rfl, ptrAt_pvar _ _ 8 B t rfl rfl]
    cir_simp
    rfl
  · -- carry in = the scratch
    obtain ⟨c, h2⟩ : ∃ c, (nT nn k res rsz rsl a asz asl X (d' + 1)).2 = some c :=
      ⟨_, by rw [nT_succ]; exact nstep_snd _ _ _ _ _ _ _ _ _⟩
    simp only [nEnv, if_neg (Nat.add_one_ne_zero d'), if_neg (Nat.add_one_ne_zero (d' + 1))]
    cir_simp
    rw [ptrAt_null, ptrAt_pvar _ _ 8 B t rfl rfl, idx_wrap _ _ hi64 hmul,
      ptrAt_param _ _ 1 B a ((asz - 1 - (d' + 1)) * asl) rfl, ptrAt_pvar _ _ 10 B t rfl rfl]
    cir_simp
    rw [arena_norm_cout_cin m0 B hB _ nn hnn k hk1 hk2 (a + (asz - 1 - (d' + 1)) * asl) t (by rw [hsz]; exact hab)
      (by rw [hsz]; exact hT) hat f hf]
    cir_simp
    rw [scr_step_ge_some nn k res rsz rsl a asl t X.size _ hinv _ (by omega) c h2 hat hT,
      ptrAt_pvar _ _ 8 B t rfl rfl]
    cir_simp
    rfl
theorem norm_step2 (hnn : nn < 18446744073709551616) (hk1 : 1 ≤ k) (hk2 : k ≤ 63)
    (hasz : asz < 9223372036854775808) (hX : X.size < 18446744073709551616)
    (hA : ∀ i, i < min rsz asz → SameOrDisj nn (res + i * rsl) (a + i * asl))
    (hTr : ∀ i, i < rsz → res + i * rsl + nn ≤ t ∨ t + nn ≤ res + i * rsl)
    (hTa : ∀ i, i < asz → a + i * asl + nn ≤ t ∨ t + nn ≤ a + i * asl) (hT : t + nn ≤ X.size)
    (d : Nat) (hd : d < asz) (hlt : asz - 1 - d < rsz)
    (hok : (nT nn k res rsz rsl a asz asl X (d + 1)).1.ok = true) (f : Nat) (hf : nn ≤ f) :
    exec [some (B, res), some (B, a), some (B, t)] (sForBody normFor2) f
        ⟨nEnv nn k rsz rsl asz asl B t d ((asz - 1 - d : Nat) : Int),
          m0.setIfInBounds B (scr t (nT nn k res rsz rsl a asz asl X d))⟩
      = .ok (.norm, ⟨nEnv nn k rsz rsl asz asl B t (d + 1) ((asz - 1 - d : Nat) : Int),
          m0.setIfInBounds B (scr t (nT nn k res rsz rsl a asz asl X (d + 1)))⟩) := by
  have hinv := nT_inv nn k res rsz rsl a asz asl X d
  rw [nT_succ] at hok ⊢
  obtain ⟨_, hab, hrb⟩ := nstep_ok _ _ _ _ _ _ _ _ _ hok
  have hrb := hrb hlt
  rw [hinv.size] at hab hrb
  have hi64 : asz - 1 - d < 18446744073709551616 := by omega
  have hmul : (asz - 1 - d) * asl < 18446744073709551616 := by omega
  have hmulr : (asz - 1 - d) * rsl < 18446744073709551616 := by omega
  have hat := hTa (asz - 1 - d) (by omega)
  have hrt := hTr (asz - 1 - d) hlt
  have hda := hA (asz - 1 - d) (by omega)
  have hsz : (scr t (nT nn k res rsz rsl a asz asl X d)).size = X.size := by rw [size_scr, hinv.size]
  show exec _ (.seq _ _) f _ = _
  rcases d with _ | d'
  · simp only [nEnv, if_pos (rfl : (0 : Nat) = 0), if_neg (Nat.add_one_ne_zero 0)]
    cir_simp
    rw [idx_wrap _ _ hi64 hmulr, ptrAt_param _ _ 0 B res ((asz - 1 - 0) * rsl) rfl, ptrAt_pvar _ _ 8 B t rfl rfl,
      idx_wrap _ _ hi64 hmul, ptrAt_param _ _ 1 B a ((asz - 1 - 0) * asl) rfl, ptrAt_pvar_null _ _ 10 0 rfl]
    cir_simp
    rw [arena_norm_out_cout m0 B hB _ nn hnn k hk1 hk2 (res + (asz - 1 - 0) * rsl) (a + (asz - 1 - 0) * asl) t
      (by rw [hsz]; exact hrb) (by rw [hsz]; exact hab) (by rw [hsz]; exact hT) hda hrt hat f hf]
    cir_simp
    rw [scr_step_lt_none nn k res rsz rsl a asl t _ _ hlt rfl, ptrAt_pvar _ _ 8 B t rfl rfl]
    cir_simp
    rfl
  · obtain ⟨c, h2⟩ : ∃ c, (nT nn k res rsz rsl a asz asl X (d' + 1)).2 = some c :=
      ⟨_, by rw [nT_succ]; exact nstep_snd _ _ _ _ _ _ _ _ _⟩
    simp only [nEnv, if_neg (Nat.add_one_ne_zero d'), if_neg (Nat.add_one_ne_zero (d' + 1))]
    cir_simp
    rw [idx_wrap _ _ hi64 hmulr, ptrAt_param _ _ 0 B res ((asz - 1 - (d' + 1)) * rsl) rfl,
      ptrAt_pvar _ _ 8 B t rfl rfl, idx_wrap _ _ hi64 hmul,
      ptrAt_param _ _ 1 B a ((asz - 1 - (d' + 1)) * asl) rfl, ptrAt_pvar _ _ 10 B t rfl rfl]
    cir_simp
    rw [arena_norm_out_cout_cin m0 B hB _ nn hnn k hk1 hk2 (res + (asz - 1 - (d' + 1)) * rsl)
      (a + (asz - 1 - (d' + 1)) * asl) t (by rw [hsz]; exact hrb) (by rw [hsz]; exact hab) (by rw [hsz]; exact hT)
      hda hrt hat f hf]
    cir_simp
    rw [scr_step_lt_some nn k res rsz rsl a asl t X.size _ hinv _ hlt c h2 hat hrt hT,
      ptrAt_pvar _ _ 8 B t rfl rfl]
    cir_simp
    rfl

theorem norm_last (hnn : nn < 18446744073709551616) (hk1 : 1 ≤ k) (hk2 : k ≤ 63)
    (hrsz : 0 < rsz) (hasz : 0 < asz)
    (hA : ∀ i, i < min rsz asz → SameOrDisj nn (res + i * rsl) (a + i * asl))
    (hTr : ∀ i, i < rsz → res + i * rsl + nn ≤ t ∨ t + nn ≤ res + i * rsl)
    (hTa : ∀ i, i < asz → a + i * asl + nn ≤ t ∨ t + nn ≤ a + i * asl) (hT : t + nn ≤ X.size)
    (hok : (nT nn k res rsz rsl a asz asl X asz).1.ok = true) (f : Nat) (hf : nn ≤ f) :
    exec [some (B, res), some (B, a), some (B, t)] normLast f
        ⟨nEnv nn k rsz rsl asz asl B t (asz - 1) 0,
          m0.setIfInBounds B (scr t (nT nn k res rsz rsl a asz asl X (asz - 1)))⟩
      = .ok (.norm, ⟨nEnv nn k rsz rsl asz asl B t (asz - 1) 0,
          m0.setIfInBounds B (lastArena t (nT nn k res rsz rsl a asz asl X (asz - 1))
            (nT nn k res rsz rsl a asz asl X asz))⟩) := by
  obtain ⟨d, rfl⟩ : ∃ d, asz = d + 1 := ⟨asz - 1, by omega⟩
  have hinv := nT_inv nn k res rsz rsl a (d + 1) asl X d
  simp only [Nat.add_sub_cancel] at hinv ⊢
  rw [nT_succ] at hok ⊢
  simp only [Nat.add_sub_cancel, Nat.sub_self] at hok ⊢
  obtain ⟨_, hab0, hrb0⟩ := nstep_ok _ _ _ _ _ _ _ _ _ hok
  have hrb1 := hrb0 hrsz
  rw [hinv.size] at hab0 hrb1
  have hab : a + 0 + nn ≤ X.size := by simpa using hab0
  have hrb : res + 0 + nn ≤ X.size := by simpa using hrb1
  clear hab0 hrb0 hrb1
  have hat : a + 0 + nn ≤ t ∨ t + nn ≤ a + 0 := by simpa using hTa 0 (by omega)
  have hrt : res + 0 + nn ≤ t ∨ t + nn ≤ res + 0 := by simpa using hTr 0 hrsz
  have hda : SameOrDisj nn (res + 0) (a + 0) := by simpa using hA 0 (by omega)
  have hsz : (scr t (nT nn k res rsz rsl a (d + 1) asl X d)).size = X.size := by rw [size_scr, hinv.size]
  show exec _ (.call _ _ _ _) f _ = _
  rcases d with _ | d'
  · simp only [nEnv, if_pos (rfl : (0 : Nat) = 0)]
    cir_simp
    rw [show (0 : Int) = ((0 : Nat) : Int) from rfl, ptrAt_param _ _ 0 B res 0 rfl, ptrAt_null,
      ptrAt_param _ _ 1 B a 0 rfl, ptrAt_pvar_null _ _ 10 _ rfl]
    cir_simp
    rw [arena_norm_out m0 B hB _ nn hnn k hk1 hk2 (res + 0) (a + 0) t (by rw [hsz]; exact hrb)
      (by rw [hsz]; exact hab) (by rw [hsz]; exact hT) hda hrt hat f hf]
    cir_simp
    have := scr_last_none nn k res rsz rsl a asl t (nT nn k res rsz rsl a (0 + 1) asl X 0) 0 hrsz rfl
    simp only [Nat.zero_mul] at this
    rw [this]
    rfl
  · obtain ⟨c, h2⟩ : ∃ c, (nT nn k res rsz rsl a (d' + 1 + 1) asl X (d' + 1)).2 = some c :=
      ⟨_, by rw [nT_succ]; exact nstep_snd _ _ _ _ _ _ _ _ _⟩
    simp only [nEnv, if_neg (Nat.add_one_ne_zero d')]
    cir_simp
    rw [ptrAt_null, ptrAt_pvar _ _ 10 B t rfl rfl, show (0 : Int) = ((0 : Nat) : Int) from rfl,
      ptrAt_param _ _ 0 B res 0 rfl, ptrAt_param _ _ 1 B a 0 rfl]
    cir_simp
    rw [arena_norm_out_cin m0 B hB _ nn hnn k hk1 hk2 (res + 0) (a + 0) t (by rw [hsz]; exact hrb)
      (by rw [hsz]; exact hab) (by rw [hsz]; exact hT) hda hrt hat f hf]
    cir_simp
    have hat' : a + 0 * asl + nn ≤ t ∨ t + nn ≤ a + 0 * asl := by simpa using hat
    have hrt' : res + 0 * rsl + nn ≤ t ∨ t + nn ≤ res + 0 * rsl := by simpa using hrt
    have := scr_last_some nn k res rsz rsl a asl t X.size (nT nn k res rsz rsl a (d' + 1 + 1) asl X (d' + 1)) hinv 0
      hrsz c h2 hat' hrt' hT
    simp only [Nat.zero_mul] at this
    rw [this]
    rw [lastArena_some t _ _ c h2]
end step
end Spq.CIR
