/-
  C16, binary64 side, products of products, step 6: the CONSUMER side of the metric invariant.
  `idft_limb_of_metric`: a DFT-space limb `d` of finite cells with `‖d − DFT(x)‖₂² ≤ δ²·m`, the flags of ITS inverse
  transform, `S2 ≥ ‖x‖₂`, and `ε·(S2 + δ) + δ < 1/2` (`ε = (1+8u)^k − 1`)  ⇒  `toZnx (ifft d) = x` exactly
  (`ProdErr.inv_compose` + `toZnx_spec`; generalises the last step of `small_product_exact_f64_partial` and of
  `ProgErr.rt_exact`).
-/
import SpqProofs.Lemmas.ProgErr2Col
import SpqProofs.Lemmas.ProgErrOps
set_option linter.unusedSectionVars false
namespace Spq.ProgErr2
open Finset Spq Spq.Module Spq.Fft Spq.Fft.Alg Spq.FftErr Spq.F64 Spq.Reim4 Spq.ProdErr Spq.VmpErr Spq.ProgErr Spq.Closed
  Spq.Conv Spq.C06Err
variable {K : Type} [Field K] [LinearOrder K] [IsStrictOrderedRing K]

/-- the budget of the inverse transform + the incoming DFT-space error, per coefficient: `ε·(S2 + δ) + δ` -/
def invBudget (M : F64Mod K) (S2 δ : K) : K := eps K M.k * (S2 + δ) + δ

theorem invBudget_nonneg (M : F64Mod K) (S2 δ : K) (h1 : 0 ≤ S2) (h2 : 0 ≤ δ) : 0 ≤ invBudget M S2 δ := by
  unfold invBudget
  have := eps_nonneg (K := K) M.k
  positivity

/-- every cell of the computed inverse transform is finite and within `invBudget·m` of `m·x_i` -/
theorem inv_limb_stage (M : F64Mod K) (d : Array ℕ) (x : Array Int) (δ : K) (hsz : d.size = M.N)
    (hrep : LimbMetric M d x δ) (hok : InvOk M.c M.k M.cNi M.sNi d) (S2 : K) (hS0 : 0 ≤ S2)
    (hS : n2sq K x M.N ≤ S2 ^ 2) :
    (∀ p, p < M.N → Fin64 ((M.parts.ifft d).getD p 0)) ∧
    ∀ i, i < M.N → |((val ((M.parts.ifft d).getD i 0) : ℚ) : K) - 2 ^ M.k * ((x.getD i 0 : Int) : K)| ≤
      invBudget M S2 δ * 2 ^ M.k := by
  obtain ⟨hδ, _, hy⟩ := hrep
  obtain ⟨hζi, hIi⟩ := inv_root M.k M.ζ M.ζi M.hζ M.hI M.hinv
  rw [parts_ifft M.c M.k M.cN M.sN M.cNi M.sNi M.ok.cfg]
  have FI := reim_ifft_err M.c.ifftFma M.k M.ζi hζi hIi M.cNi M.sNi M.hcsi d hsz hok
  obtain ⟨ch, hch⟩ : ∃ ch, ch = reimIfft (if M.c.ifftFma then "fma" else "ref") (2 ^ M.k) (tabI M.k M.cNi M.sNi) d :=
    ⟨_, rfl⟩
  have F1 : ∀ p, p < 2 * 2 ^ M.k → Fin64 (ch[p]!) := by rw [hch]; exact FI.1
  have F2 : ∑ p ∈ range (2 ^ M.k), nsq (outC ch M.k p - WIk M.k M.ζi (fun q => outC d M.k q) M.k p) ≤
      eps K M.k ^ 2 * ∑ p ∈ range (2 ^ M.k), nsq (WIk M.k M.ζi (fun q => outC d M.k q) M.k p) := by
    rw [hch]; exact FI.2
  rw [← hch]
  have hM0 : (0 : K) ≤ 2 ^ M.k := by positivity
  have hC : ∑ p ∈ range (2 ^ M.k), nsq (V M.ζ (pkC x (2 ^ M.k)) M.k 0 p) ≤ S2 ^ 2 * 2 ^ M.k := by
    rw [V_sum M.k M.ζ M.hζ x, mul_comm]
    exact mul_le_mul_of_nonneg_right hS hM0
  have hc := inv_compose M.k M.ζ M.ζi hζi M.hinv (pkC x (2 ^ M.k)) (fun q => outC d M.k q) (fun p => outC ch M.k p)
    (eps K M.k) δ S2 (2 ^ M.k) rfl (eps_nonneg M.k) hδ hS0 hy hC F2
  have hB0 : 0 ≤ invBudget M S2 δ * 2 ^ M.k := mul_nonneg (invBudget_nonneg M S2 δ hS0 hδ) hM0
  refine ⟨fun p hp => by have := F1 p hp; rwa [getElem!_nat] at this, ?_⟩
  intro i hi
  have hi' : i < 2 * 2 ^ M.k := hi
  have e1 : ((val (ch.getD i 0) : ℚ) : K) = ((val (ch[i]!) : ℚ) : K) := by rw [getElem!_nat]
  rw [e1]
  by_cases hlt : i < 2 ^ M.k
  · have := (coord_of_sum (2 ^ M.k) (fun p => outC ch M.k p - 2 ^ M.k * pkC x (2 ^ M.k) p) _ hB0 hc i hlt).1
    simp only [QuadraticAlgebra.re_sub, (two_pow_mul_re M.k _).1] at this
    exact this
  · obtain ⟨p, rfl⟩ : ∃ p, i = 2 ^ M.k + p := ⟨i - 2 ^ M.k, by omega⟩
    have := (coord_of_sum (2 ^ M.k) (fun p => outC ch M.k p - 2 ^ M.k * pkC x (2 ^ M.k) p) _ hB0 hc p (by omega)).2
    simp only [QuadraticAlgebra.im_sub, (two_pow_mul_re M.k _).2] at this
    exact this

/-- **`idft_limb_of_metric`**: the consumer side — inverse transform + final rounding of a limb inside the metric
    invariant returns EXACTLY the `N` coefficients of the polynomial it represents -/
theorem idft_limb_of_metric (M : F64Mod K) (d : Array ℕ) (x : Array Int) (δ : K) (hsz : d.size = M.N)
    (hrep : LimbMetric M d x δ) (hok : InvOk M.c M.k M.cNi M.sNi d) (S2 : K) (hS0 : 0 ≤ S2)
    (hS : n2sq K x M.N ≤ S2 ^ 2)
    (hdom : ∀ t, t < M.N → |((x.getD t 0 : Int) : K)| + invBudget M S2 δ < ((Bv M.c.toVariant : ℚ) : K))
    (hE : invBudget M S2 δ < 1 / 2) :
    M.parts.toZnx (M.parts.ifft d) = firstN M.N x := by
  obtain ⟨hfin, herr⟩ := inv_limb_stage M d x δ hsz hrep hok S2 hS0 hS
  apply array_eq_of_cells M.N
  · exact toZnx_size M.c M.k M.ok.cfg.nn M.ok.cfg.toVar _
  · exact size_firstN _ _
  · intro i hi
    have hP : (0 : K) < 2 ^ M.k := by positivity
    have he := herr i hi
    have hf := hfin i hi
    obtain ⟨y, hy⟩ : ∃ y, y = (M.parts.ifft d).getD i 0 := ⟨_, rfl⟩
    obtain ⟨ci, hci⟩ : ∃ ci : K, ci = ((x.getD i 0 : Int) : K) := ⟨_, rfl⟩
    have hd := hdom i hi
    rw [← hy] at he hf
    rw [← hci] at he hd
    have hdomQ : |val y| < Bv M.c.toVariant * 2 ^ M.k := by
      have h1 : |((val y : ℚ) : K)| ≤ 2 ^ M.k * |ci| + invBudget M S2 δ * 2 ^ M.k := by
        have : ((val y : ℚ) : K) = (((val y : ℚ) : K) - 2 ^ M.k * ci) + 2 ^ M.k * ci := by ring
        rw [this]
        refine le_trans (abs_add_le _ _) ?_
        rw [abs_mul, abs_of_pos hP]
        linarith
      have h2 : |((val y : ℚ) : K)| < ((Bv M.c.toVariant : ℚ) : K) * 2 ^ M.k := by
        have := mul_lt_mul_of_pos_right hd hP
        nlinarith
      have h3 : ((|val y| : ℚ) : K) < ((Bv M.c.toVariant * 2 ^ M.k : ℚ) : K) := by
        push_cast; exact h2
      exact (Rat.cast_lt (K := K)).1 h3
    obtain ⟨r, hr1, hr2⟩ := toZnx_spec M.c M.k (k961 M) M.ok.cfg.nn M.ok.cfg.toVar (M.parts.ifft d) i hi
      (by rw [← hy]; exact hf.1) (by rw [← hy]; exact hdomQ)
    rw [← hy] at hr2
    refine ⟨r, hr1, ?_⟩
    rw [getD_firstN _ _ _ hi]
    have hr3 : |(r : K) * 2 ^ M.k - ((val y : ℚ) : K)| ≤ 2 ^ M.k / 2 := by
      have := (Rat.cast_le (K := K)).2 hr2
      push_cast at this
      exact this
    have h4 : |(r : K) - ci| * 2 ^ M.k ≤ (invBudget M S2 δ + 1 / 2) * 2 ^ M.k := by
      have e : ((r : K) - ci) * 2 ^ M.k = ((r : K) * 2 ^ M.k - ((val y : ℚ) : K)) + (((val y : ℚ) : K) - 2 ^ M.k * ci) := by
        ring
      rw [← abs_of_pos hP, ← abs_mul, e, abs_of_pos hP]
      refine le_trans (abs_add_le _ _) ?_
      linarith
    have h5 : |(r : K) - ci| ≤ invBudget M S2 δ + 1 / 2 := le_of_mul_le_mul_right h4 hP
    rw [hci] at h5
    exact int_eq_of_lt_one (K := K) r _ (by linarith)

/-- the domain condition of the final conversion follows from `S2 + 1/2 ≤ 2^50` (every kernel accepts `|x| < 2^50`) -/
theorem dom_of_box (M : F64Mod K) (x : Array Int) (δ S2 : K) (hS0 : 0 ≤ S2) (hS : n2sq K x M.N ≤ S2 ^ 2)
    (hbox : S2 + 1 / 2 ≤ 1125899906842624) (hE : invBudget M S2 δ < 1 / 2) :
    ∀ t, t < M.N → |((x.getD t 0 : Int) : K)| + invBudget M S2 δ < ((Bv M.c.toVariant : ℚ) : K) := by
  intro t ht
  have hBv : ((1125899906842624 : ℚ) : K) ≤ ((Bv M.c.toVariant : ℚ) : K) := (Rat.cast_le (K := K)).2 (Bv_ge _)
  have hBv' : (1125899906842624 : K) ≤ ((Bv M.c.toVariant : ℚ) : K) := by
    refine le_trans (le_of_eq ?_) hBv; push_cast; rfl
  have h1 : ((x.getD t 0 : Int) : K) ^ 2 ≤ n2sq K x M.N :=
    single_le_sum (f := fun t => ((x.getD t 0 : Int) : K) ^ 2) (fun i _ => sq_nonneg _) (mem_range.2 ht)
  have h2 : |((x.getD t 0 : Int) : K)| ≤ S2 := abs_le_of_sq_le_sq (le_trans h1 hS) hS0
  linarith

end Spq.ProgErr2
