/-
  C06.4, structural schedule theorem, top level: `fftRI F (2^k) T s` = level network `VN (gNet F c s k)`, every `k`.
-/
import SpqProofs.Lemmas.FftErrSchedFwd
set_option linter.unusedSectionVars false
set_option linter.unusedSimpArgs false
namespace Spq.Fft.SchedN
open Spq.Fft Spq.Fft.Alg Spq.Fft.View Spq.Fft.Sim Spq.Fft.SimP Spq.Fft.LevelN Spq.Fft.KernN Spq.Fft.Tw

variable {R : Type} [Inhabited R] (F : Flav R) (c s : ℕ → R) (k : ℕ) (a : ℕ → R × R)

/-- one butterfly on adjacent cells -/
theorem pair1_advN (f : Bf R) (wr wi : R) (N ℓ b p : ℕ) (s0 : RI R) (hs : Valid N s0) (hp : p = 2 * b)
    (hN : p + 2 ≤ N) (hq : bfV f wr wi = gNet F c s k ℓ 0 b) :
    AdvN (gNet F c s k) a (prs s0) (prs (bf f s0 p (p + 1) wr wi)) ℓ 1 (ℓ + 1) 0 p 2 ∧
      Valid N (bf f s0 p (p + 1) wr wi) := by
  have h1 := SimP.bf_sim N f wr wi _ _ (realP f wr wi) s0 p (p + 1) hs (by omega) (by omega) (by omega)
  rw [h1.1, G_eq_twG1]
  exact ⟨AdvN.tw _ a _ ℓ 0 b p (by omega) _ _ (bq_of_eq f wr wi _ hq), h1.2⟩

/-- two butterflies `(p, p+2)`, `(p+1, p+3)` -/
theorem pair2_advN (f : Bf R) (wr wi : R) (N ℓ b p p1 p2 p3 : ℕ) (s0 : RI R) (hs : Valid N s0) (hp : p = 4 * b)
    (h1 : p1 = p + 1) (h2 : p2 = p + 2) (h3 : p3 = p + 3) (hN : p + 4 ≤ N)
    (hq : bfV f wr wi = gNet F c s k ℓ 1 b) :
    AdvN (gNet F c s k) a (prs s0) (prs (bf f (bf f s0 p p2 wr wi) p1 p3 wr wi)) ℓ 2 (ℓ + 1) 1 p 4 ∧
      Valid N (bf f (bf f s0 p p2 wr wi) p1 p3 wr wi) := by
  have e := SimP.bf2_sim N f f wr wi wr wi _ _ _ _ (realP f wr wi) (realP f wr wi) s0 p p2 p1 p3 hs (by omega)
    (by omega) (by omega) (by omega) (by omega) (by omega)
  rw [e.1, G_G_eq_twG2' _ _ p p1 p2 p3 h1 h2 h3]
  exact ⟨AdvN.tw _ a _ ℓ 1 b p (by omega) _ _ (bq_of_eq f wr wi _ hq), e.2⟩

/-- `fftRI` for `m = 2^k ≥ 32` -/
theorem fftRI_bigN (hk : 5 ≤ k) (s0 : RI R) (hs : Valid (2 ^ k) s0) :
    AdvN (gNet F c s k) a (prs s0)
        (prs (fftRI F (2 ^ k) (((reimFftEnts (2 ^ k)).map (valP c s)).toArray) s0)) 0 k k 0 0 (2 ^ k) ∧
      Valid (2 ^ k) (fftRI F (2 ^ k) (((reimFftEnts (2 ^ k)).map (valP c s)).toArray) s0) := by
  have h32 : 32 ≤ 2 ^ k := by
    have : 2 ^ 5 ≤ 2 ^ k := Nat.pow_le_pow_right (by omega) hk
    simpa using this
  have hb0 : 2 ^ k * (1 + 4 * brev 0 0) = 2 ^ k := by simp [brev]
  have hE : reimFftEnts (2 ^ k) = if 2 ^ k ≤ 2048 then rBfs (4 * 2 ^ k) (2 ^ k) (2 ^ k)
      else rRec (4 * 2 ^ k) (2 ^ k) (2 ^ k) (2 ^ k) := by
    unfold reimFftEnts
    rw [if_neg (by omega)]
    rw [show ((2 ^ k == 2) = false) by simp; omega, show ((2 ^ k == 4) = false) by simp; omega,
      show ((2 ^ k == 8) = false) by simp; omega, show ((2 ^ k == 16) = false) by simp; omega]
    simp only [Bool.false_eq_true, ↓reduceIte]
  unfold fftRI
  rw [if_neg (by omega)]
  rw [show ((2 ^ k == 2) = false) by simp; omega, show ((2 ^ k == 4) = false) by simp; omega,
    show ((2 ^ k == 8) = false) by simp; omega, show ((2 ^ k == 16) = false) by simp; omega]
  simp only [Bool.false_eq_true, ↓reduceIte]
  rw [hE]
  by_cases hle : 2 ^ k ≤ 2048
  · rw [if_pos hle, if_pos hle]
    have hD11 : k ≤ 11 := by
      by_contra hc
      have : 2 ^ 12 ≤ 2 ^ k := Nat.pow_le_pow_right (by omega) (by omega)
      omega
    have hseg := SegP.of_toArray ((rBfs (4 * 2 ^ k) (2 ^ k) (2 ^ k)).map (valP c s))
    have := bfs16_specN F c s k a _ (2 ^ k) 0 k 0 0 (2 ^ k) 0 s0 (by omega) rfl hk hD11 (Or.inr rfl) (by ring)
      (by omega) hs (by rw [hb0]; exact hseg)
    exact ⟨this.1, this.2.1⟩
  · rw [if_neg hle, if_neg hle]
    have hseg := SegP.of_toArray ((rRec (4 * 2 ^ k) (2 ^ k) (2 ^ k) (2 ^ k)).map (valP c s))
    have := rec16_specN F c s k a _ (2 ^ k) (2 ^ k) k 0 0 0 (2 ^ k) 0 s0 (by omega) rfl hk (Or.inl rfl) (Nat.le_refl _)
      (by ring) (by omega) hs (by rw [hb0]; exact hseg)
    exact ⟨this.1, this.2.1⟩

theorem gNet_small_ct (hk : k ≤ 3) (hk1 : 2 ≤ k) (ℓ d b : ℕ) (h : clv (k - ℓ) = false ∨ b % 2 = 0) :
    gNet F c s k ℓ d b = bfV F.ctS (c (twE ℓ d b)) (s (twE ℓ d b)) := by
  rw [gNet_ct F c s k ℓ d b h]; unfold ctK; rw [if_neg (by omega), if_pos hk]

theorem gNet_small_cit (hk : k ≤ 3) (ℓ d b : ℕ) (h : clv (k - ℓ) = true) :
    gNet F c s k ℓ d (2 * b + 1) = bfV F.citS (c (twE ℓ d (2 * b))) (s (twE ℓ d (2 * b))) := by
  rw [gNet_cit F c s k ℓ d b h]; unfold citK; rw [if_pos hk]

theorem fftRI_k0N (hk : k = 0) (T : Array R) (s0 : RI R) (hs : Valid (2 ^ k) s0) :
    AdvN (gNet F c s k) a (prs s0) (prs (fftRI F (2 ^ k) T s0)) 0 k k 0 0 (2 ^ k) ∧ Valid (2 ^ k) (fftRI F (2 ^ k) T s0) := by
  subst hk
  simp only [fftRI, pow_zero, Nat.le_refl, ↓reduceIte]
  exact ⟨AdvG.id _ _ _ _, hs⟩

theorem fftRI_k1N (hk : k = 1) (s0 : RI R) (hs : Valid (2 ^ k) s0) :
    AdvN (gNet F c s k) a (prs s0)
        (prs (fftRI F (2 ^ k) (((reimFftEnts (2 ^ k)).map (valP c s)).toArray) s0)) 0 k k 0 0 (2 ^ k) ∧
      Valid (2 ^ k) (fftRI F (2 ^ k) (((reimFftEnts (2 ^ k)).map (valP c s)).toArray) s0) := by
  subst hk
  have hT : ((reimFftEnts (2 ^ 1)).map (valP c s)).toArray = #[c 1, s 1] := by
    simp [reimFftEnts, rFill2, eP, valP]
  rw [hT]
  simp only [fftRI, fft2, Nat.reducePow, Nat.reduceLeDiff, ↓reduceIte, BEq.rfl, Nat.zero_add]
  have := pair1_advN F c s 1 a F.ct2 (c 1) (s 1) 2 0 0 0 s0 hs rfl (by omega)
    (by rw [gNet_ct F c s 1 0 0 0 (Or.inr rfl)]; rfl)
  exact ⟨by simpa using this.1, this.2⟩

theorem fftRI_k2N (hk : k = 2) (s0 : RI R) (hs : Valid (2 ^ k) s0) :
    AdvN (gNet F c s k) a (prs s0)
        (prs (fftRI F (2 ^ k) (((reimFftEnts (2 ^ k)).map (valP c s)).toArray) s0)) 0 k k 0 0 (2 ^ k) ∧
      Valid (2 ^ k) (fftRI F (2 ^ k) (((reimFftEnts (2 ^ k)).map (valP c s)).toArray) s0) := by
  subst hk
  have hT : ((reimFftEnts (2 ^ 2)).map (valP c s)).toArray = #[c 2, s 2, c 1, s 1] := by
    simp [reimFftEnts, rFill4, eP, valP]
  rw [hT]
  simp only [fftRI, fft4, Nat.reducePow, Nat.reduceLeDiff, ↓reduceIte, Nat.zero_add, Nat.reduceBEq,
    Bool.false_eq_true, BEq.rfl]
  have s1 := pair2_advN F c s 2 a F.ctS (c 2) (s 2) 4 0 0 0 1 2 3 s0 hs rfl rfl rfl rfl (by omega)
    (by rw [gNet_small_ct F c s 2 (by omega) (by omega) 0 1 0 (Or.inr rfl)]; rfl)
  have s2 := pair1_advN F c s 2 a F.ctS (c 1) (s 1) 4 1 0 0 _ s1.2 rfl (by omega)
    (by rw [gNet_small_ct F c s 2 (by omega) (by omega) 1 0 0 (Or.inr rfl)]; rfl)
  have s3 := pair1_advN F c s 2 a F.citS (c 1) (s 1) 4 1 1 2 _ s2.2 rfl (by omega)
    (by rw [show (1 : ℕ) = 2 * 0 + 1 by rfl, gNet_small_cit F c s 2 (by omega) 1 0 0 rfl]; rfl)
  have := s1.1.seq (s2.1.par s3.1)
  exact ⟨by simpa using this, s3.2⟩

theorem fftRI_k3N (hk : k = 3) (s0 : RI R) (hs : Valid (2 ^ k) s0) :
    AdvN (gNet F c s k) a (prs s0)
        (prs (fftRI F (2 ^ k) (((reimFftEnts (2 ^ k)).map (valP c s)).toArray) s0)) 0 k k 0 0 (2 ^ k) ∧
      Valid (2 ^ k) (fftRI F (2 ^ k) (((reimFftEnts (2 ^ k)).map (valP c s)).toArray) s0) := by
  subst hk
  have hT : ((reimFftEnts (2 ^ 3)).map (valP c s)).toArray = #[c 4, s 4, c 2, s 2, c 1, c 5, s 1, s 5] := by
    simp [reimFftEnts, rFill8, eP, valP]
  rw [hT]
  obtain ⟨T, hTd⟩ : ∃ T : Array R, T = #[c 4, s 4, c 2, s 2, c 1, c 5, s 1, s 5] := ⟨_, rfl⟩
  have t0 : T[0]! = c 4 := by rw [hTd]; rfl
  have t1 : T[0 + 1]! = s 4 := by rw [hTd]; rfl
  have t2 : T[0 + 2]! = c 2 := by rw [hTd]; rfl
  have t3 : T[0 + 3]! = s 2 := by rw [hTd]; rfl
  have t4 : T[0 + 4]! = c 1 := by rw [hTd]; rfl
  have t5 : T[0 + 5]! = c 5 := by rw [hTd]; rfl
  have t6 : T[0 + 6]! = s 1 := by rw [hTd]; rfl
  have t7 : T[0 + 7]! = s 5 := by rw [hTd]; rfl
  rw [← hTd]
  simp only [fftRI, Nat.reducePow, Nat.reduceLeDiff, ↓reduceIte, Nat.reduceBEq, Bool.false_eq_true, BEq.rfl]
  unfold fft8
  have hs8 : Valid 8 s0 := hs
  have s1 := twPass_advN (gNet F c s 3) a F.ctS 8 0 2 0 0 T[0]! T[0 + 1]! s0 hs8 rfl (by omega)
    (by rw [gNet_small_ct F c s 3 (by omega) (by omega) 0 2 0 (Or.inr rfl), t0, t1]; rfl)
  have s2 := pair2_advN F c s 3 a F.ctS T[0 + 2]! T[0 + 3]! 8 1 0 0 (0 + 1) (0 + 2) (0 + 3) _ s1.2
    rfl rfl rfl rfl (by omega) (by rw [gNet_small_ct F c s 3 (by omega) (by omega) 1 1 0 (Or.inr rfl), t2, t3]; rfl)
  have s3 := pair2_advN F c s 3 a F.citS T[0 + 2]! T[0 + 3]! 8 1 1 (0 + 4) (0 + 5) (0 + 6) (0 + 7) _ s2.2
    rfl rfl rfl rfl (by omega)
    (by rw [show (1 : ℕ) = 2 * 0 + 1 by rfl, gNet_small_cit F c s 3 (by omega) 1 1 0 rfl, t2, t3]; rfl)
  have s4 := pair1_advN F c s 3 a F.ctS T[0 + 4]! T[0 + 6]! 8 2 0 0 _ s3.2 rfl (by omega)
    (by rw [gNet_small_ct F c s 3 (by omega) (by omega) 2 0 0 (Or.inr rfl), t4, t6]; rfl)
  have s5 := pair1_advN F c s 3 a F.citS T[0 + 4]! T[0 + 6]! 8 2 1 (0 + 2) _ s4.2 rfl (by omega)
    (by rw [show (1 : ℕ) = 2 * 0 + 1 by rfl, gNet_small_cit F c s 3 (by omega) 2 0 0 rfl, t4, t6]; rfl)
  have s6 := pair1_advN F c s 3 a F.ctS T[0 + 5]! T[0 + 7]! 8 2 2 (0 + 4) _ s5.2 rfl (by omega)
    (by rw [gNet_small_ct F c s 3 (by omega) (by omega) 2 0 2 (Or.inr rfl), t5, t7]; rfl)
  have s7 := pair1_advN F c s 3 a F.citS T[0 + 5]! T[0 + 7]! 8 2 3 (0 + 6) _ s6.2 rfl (by omega)
    (by rw [show (3 : ℕ) = 2 * 1 + 1 by rfl, gNet_small_cit F c s 3 (by omega) 2 0 1 rfl, t5, t7]; rfl)
  have l2 := s2.1.par s3.1
  have l3 := ((s4.1.par s5.1).par s6.1).par s7.1
  exact ⟨(s1.1.seq l2).seq l3, s7.2⟩

theorem fftRI_k4N (hk : k = 4) (s0 : RI R) (hs : Valid (2 ^ k) s0) :
    AdvN (gNet F c s k) a (prs s0)
        (prs (fftRI F (2 ^ k) (((reimFftEnts (2 ^ k)).map (valP c s)).toArray) s0)) 0 k k 0 0 (2 ^ k) ∧
      Valid (2 ^ k) (fftRI F (2 ^ k) (((reimFftEnts (2 ^ k)).map (valP c s)).toArray) s0) := by
  have hE : reimFftEnts (2 ^ k) = rFill16 (4 * 2 ^ k) 16 := by rw [hk]; rfl
  rw [hE]
  have hseg := SegP.of_toArray ((rFill16 (4 * 2 ^ k) 16).map (valP c s))
  obtain ⟨T, hT⟩ : ∃ T, T = ((rFill16 (4 * 2 ^ k) 16).map (valP c s)).toArray := ⟨_, rfl⟩
  rw [← hT] at hseg ⊢
  have h16 : 2 ^ k = 16 := by rw [hk]; rfl
  rw [h16] at hs ⊢
  simp only [fftRI, Nat.reduceLeDiff, ↓reduceIte, Nat.reduceBEq, Bool.false_eq_true, BEq.rfl]
  have := leaf_stepN F c s k a T 0 16 0 0 0 16 s0 hs rfl (by omega) (by omega) (by simp [brev]) hseg
  exact ⟨AdvN.cast _ _ this.1 0 k k 0 rfl hk (by omega) rfl, this.2⟩

/-- **Structural schedule theorem** (no ring laws): for every value type, every `Flav` of butterfly functions, every
`k`, the forward reim schedule is the level network `VN` with the butterflies `gNet F c s k`. -/
theorem fftRI_struct (s0 : RI R) (hs : Valid (2 ^ k) s0) :
    (∀ p, p < 2 ^ k → prs (fftRI F (2 ^ k) (((reimFftEnts (2 ^ k)).map (valP c s)).toArray) s0) p
      = VN (gNet F c s k) (prs s0) k 0 p) ∧
    Valid (2 ^ k) (fftRI F (2 ^ k) (((reimFftEnts (2 ^ k)).map (valP c s)).toArray) s0) := by
  have key : AdvN (gNet F c s k) (prs s0) (prs s0)
        (prs (fftRI F (2 ^ k) (((reimFftEnts (2 ^ k)).map (valP c s)).toArray) s0)) 0 k k 0 0 (2 ^ k) ∧
      Valid (2 ^ k) (fftRI F (2 ^ k) (((reimFftEnts (2 ^ k)).map (valP c s)).toArray) s0) := by
    by_cases h5 : 5 ≤ k
    · exact fftRI_bigN F c s k _ h5 s0 hs
    have : k = 0 ∨ k = 1 ∨ k = 2 ∨ k = 3 ∨ k = 4 := by omega
    rcases this with h | h | h | h | h
    · exact fftRI_k0N F c s k _ h _ s0 hs
    · exact fftRI_k1N F c s k _ h s0 hs
    · exact fftRI_k2N F c s k _ h s0 hs
    · exact fftRI_k3N F c s k _ h s0 hs
    · exact fftRI_k4N F c s k _ h s0 hs
  refine ⟨fun p hp => ?_, key.2⟩
  exact key.1.1 (fun q _ _ => rfl) p (Nat.zero_le _) (by omega)

end Spq.Fft.SchedN
