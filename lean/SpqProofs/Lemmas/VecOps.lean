/-
  Normal forms of the vec_znx operations (helper lemmas for C08 / C13 / C18 / C11).
-/
import SpqProofs.Lemmas.VecGeneric
namespace Spq.C08
open Spq Heap
variable {α : Type}

theorem _root_.Spq.Heap.StepNF.of_eq {f : Heap α → Heap α} {r : Nat} {G G' : Array α → Array α} {B B' : Nat → Bool}
    (h : StepNF f r G B) (hG : G = G') (hB : B = B') : StepNF f r G' B' := by
  subst hG hB; exact h

/-- the extents an operation declares: `rsz` output limbs, the first `min asz rsz` limbs of `a` … -/
def InBounds (nn sz : Nat) (off n sl : Nat) : Prop := ∀ i, i < n → off + i * sl + nn ≤ sz

/-- frame condition shared by all theorems -/
def Frame (nn res rsz rsl : Nat) (m m' : Array α) : Prop :=
  ∀ x, (∀ i, i < rsz → x < res + i * rsl ∨ res + i * rsl + nn ≤ x) → m'[x]? = m[x]?

@[simp] theorem size_cadd (o : Ops α) (nn : Nat) (x y : Array α) : (Coeffs.add o nn x y).size = nn := by simp [Coeffs.add]
@[simp] theorem size_csub (o : Ops α) (nn : Nat) (x y : Array α) : (Coeffs.sub o nn x y).size = nn := by simp [Coeffs.sub]
@[simp] theorem size_cneg (o : Ops α) (nn : Nat) (x : Array α) : (Coeffs.negate o nn x).size = nn := by simp [Coeffs.negate]
@[simp] theorem size_ccopy (o : Ops α) (nn : Nat) (x : Array α) : (Coeffs.copy o nn x).size = nn := by simp [Coeffs.copy]
@[simp] theorem size_czero (o : Ops α) (nn : Nat) : (Coeffs.zero o nn).size = nn := by simp [Coeffs.zero]

theorem all_range_true (n : Nat) (B : Nat → Bool) (h : ∀ i, i < n → B i = true) :
    (List.range' 0 n).all B = true := by
  rw [List.all_eq_true]
  intro i hi
  rw [List.mem_range'_1] at hi
  exact h i (by omega)

/-! ### add -/

def addK (o : Ops α) (nn asz bsz : Nat) (i : Nat) (x y _z : Array α) : Array α :=
  if i < asz ∧ i < bsz then Coeffs.add o nn x y
  else if i < bsz then Coeffs.copy o nn y
  else if i < asz then Coeffs.copy o nn x
  else Coeffs.zero o nn

def addB (nn res rsl a asz asl b bsz bsl : Nat) (i sz : Nat) : Bool :=
  if i < asz ∧ i < bsz then decide (a + i * asl + nn ≤ sz) && decide (b + i * bsl + nn ≤ sz) && decide (res + i * rsl + nn ≤ sz)
  else if i < bsz then decide (b + i * bsl + nn ≤ sz) && decide (res + i * rsl + nn ≤ sz)
  else if i < asz then decide (a + i * asl + nn ≤ sz) && decide (res + i * rsl + nn ≤ sz)
  else decide (res + i * rsl + nn ≤ sz)

theorem add_nf (o : Ops α) (nn : Nat) (h : Heap α) (res rsz rsl a asz asl b bsz bsl : Nat) :
    (VecZnx.add o nn h res rsz rsl a asz asl b bsz bsl).mem =
      (List.range' 0 rsz).foldl (fun m i => writeArr m (res + i * rsl)
        (addK o nn asz bsz i (readLimb ⟨m, true⟩ o.zero (a + i * asl) nn) (readLimb ⟨m, true⟩ o.zero (b + i * bsl) nn)
          (readLimb ⟨m, true⟩ o.zero (res + i * rsl) nn))) h.mem ∧
    (VecZnx.add o nn h res rsz rsl a asz asl b bsz bsl).ok =
      (h.ok && (List.range' 0 rsz).all (fun i => addB nn res rsl a asz asl b bsz bsl i h.mem.size)) := by
  unfold VecZnx.add
  split
  · rename_i hab
    apply three_phase _ _ _ (min rsz asz) (min rsz bsz) rsz (by omega) (by omega) (fun i => res + i * rsl)
      (fun i m => addK o nn asz bsz i (readLimb ⟨m, true⟩ o.zero (a + i * asl) nn) (readLimb ⟨m, true⟩ o.zero (b + i * bsl) nn)
          (readLimb ⟨m, true⟩ o.zero (res + i * rsl) nn))
      (addB nn res rsl a asz asl b bsz bsl)
    · intro i hi
      have c1 : i < asz ∧ i < bsz := by omega
      exact (stepNF_limb2 o.zero nn (Coeffs.add o nn) (by simp) _ _ _).of_eq
        (by funext m; simp [addK, c1]) (by funext sz; simp [addB, c1])
    · intro i h1 h2
      have c1 : ¬ i < asz := by omega
      have c2 : i < bsz := by omega
      exact (stepNF_limb1 o.zero nn (Coeffs.copy o nn) (by simp) _ _).of_eq
        (by funext m; simp [addK, c1, c2]) (by funext sz; simp [addB, c1, c2])
    · intro i h1 h2
      have c2 : ¬ i < bsz := by omega
      have c3 : ¬ i < asz := by omega
      exact (stepNF_limb0 (Coeffs.zero o nn) _).of_eq
        (by funext m; simp [addK, c2, c3]) (by funext sz; simp [addB, c2, c3])
  · rename_i hab
    apply three_phase _ _ _ (min rsz bsz) (min rsz asz) rsz (by omega) (by omega) (fun i => res + i * rsl)
      (fun i m => addK o nn asz bsz i (readLimb ⟨m, true⟩ o.zero (a + i * asl) nn) (readLimb ⟨m, true⟩ o.zero (b + i * bsl) nn)
          (readLimb ⟨m, true⟩ o.zero (res + i * rsl) nn))
      (addB nn res rsl a asz asl b bsz bsl)
    · intro i hi
      have c1 : i < asz ∧ i < bsz := by omega
      exact (stepNF_limb2 o.zero nn (Coeffs.add o nn) (by simp) _ _ _).of_eq
        (by funext m; simp [addK, c1]) (by funext sz; simp [addB, c1])
    · intro i h1 h2
      have c2 : ¬ i < bsz := by omega
      have c3 : i < asz := by omega
      exact (stepNF_limb1 o.zero nn (Coeffs.copy o nn) (by simp) _ _).of_eq
        (by funext m; simp [addK, c2, c3]) (by funext sz; simp [addB, c2, c3])
    · intro i h1 h2
      have c2 : ¬ i < bsz := by omega
      have c3 : ¬ i < asz := by omega
      exact (stepNF_limb0 (Coeffs.zero o nn) _).of_eq
        (by funext m; simp [addK, c2, c3]) (by funext sz; simp [addB, c2, c3])


end Spq.C08
