/-
  Normal forms of the vec_znx operations (helper lemmas for C08 / C13 / C18 / C11).
-/
import SpqProofs.Lemmas.VecGeneric2
import SpqProofs.Lemmas.CoeffSizes
namespace Spq.C08
open Spq Heap
variable {α : Type}

theorem _root_.Spq.Heap.StepNF.of_eq {f : Heap α → Heap α} {r : Nat} {G G' : Array α → Array α} {B B' : Nat → Bool}
    (h : StepNF f r G B) (hG : G = G') (hB : B = B') : StepNF f r G' B' := by
  subst hG hB; exact h

/-- the extents an operation declares: `rsz` output limbs, the first `min asz rsz` limbs of `a` … -/
def InBounds (nn sz : Nat) (off n sl : Nat) : Prop := ∀ i, i < n → off + i * sl + nn ≤ sz

/-- frame condition shared by all theorems -/
def Frame (nn res rsz rsl : Nat) (m m' : Array α) : Prop :=
  ∀ x, (∀ i, i < rsz → x < res + i * rsl ∨ res + i * rsl + nn ≤ x) → m'[x]? = m[x]?

@[simp] theorem size_cadd (o : Ops α) (nn : Nat) (x y : Array α) : (Coeffs.add o nn x y).size = nn := by simp [Coeffs.add]
@[simp] theorem size_csub (o : Ops α) (nn : Nat) (x y : Array α) : (Coeffs.sub o nn x y).size = nn := by simp [Coeffs.sub]
@[simp] theorem size_cneg (o : Ops α) (nn : Nat) (x : Array α) : (Coeffs.negate o nn x).size = nn := by simp [Coeffs.negate]
@[simp] theorem size_ccopy (o : Ops α) (nn : Nat) (x : Array α) : (Coeffs.copy o nn x).size = nn := by simp [Coeffs.copy]
@[simp] theorem size_czero (o : Ops α) (nn : Nat) : (Coeffs.zero o nn).size = nn := by simp [Coeffs.zero]

theorem all_range_true (n : Nat) (B : Nat → Bool) (h : ∀ i, i < n → B i = true) :
    (List.range' 0 n).all B = true := by
  rw [List.all_eq_true]
  intro i hi
  rw [List.mem_range'_1] at hi
  exact h i (by omega)

/-! ### add -/

def addK (o : Ops α) (nn asz bsz : Nat) (i : Nat) (x y _z : Array α) : Array α :=
  if i < asz ∧ i < bsz then Coeffs.add o nn x y
  else if i < bsz then Coeffs.copy o nn y
  else if i < asz then Coeffs.copy o nn x
  else Coeffs.zero o nn

def addB (nn res rsl a asz asl b bsz bsl : Nat) (i sz : Nat) : Bool :=
  if i < asz ∧ i < bsz then decide (a + i * asl + nn ≤ sz) && decide (b + i * bsl + nn ≤ sz) && decide (res + i * rsl + nn ≤ sz)
  else if i < bsz then decide (b + i * bsl + nn ≤ sz) && decide (res + i * rsl + nn ≤ sz)
  else if i < asz then decide (a + i * asl + nn ≤ sz) && decide (res + i * rsl + nn ≤ sz)
  else decide (res + i * rsl + nn ≤ sz)

theorem add_nf (o : Ops α) (nn : Nat) (h : Heap α) (res rsz rsl a asz asl b bsz bsl : Nat) :
    (VecZnx.add o nn h res rsz rsl a asz asl b bsz bsl).mem =
      (List.range' 0 rsz).foldl (fun m i => writeArr m (res + i * rsl)
        (addK o nn asz bsz i (readLimb ⟨m, true⟩ o.zero (a + i * asl) nn) (readLimb ⟨m, true⟩ o.zero (b + i * bsl) nn)
          (readLimb ⟨m, true⟩ o.zero (res + i * rsl) nn))) h.mem ∧
    (VecZnx.add o nn h res rsz rsl a asz asl b bsz bsl).ok =
      (h.ok && (List.range' 0 rsz).all (fun i => addB nn res rsl a asz asl b bsz bsl i h.mem.size)) := by
  unfold VecZnx.add
  split
  · rename_i hab
    apply three_phase _ _ _ (min rsz asz) (min rsz bsz) rsz (by omega) (by omega) (fun i => res + i * rsl)
      (fun i m => addK o nn asz bsz i (readLimb ⟨m, true⟩ o.zero (a + i * asl) nn) (readLimb ⟨m, true⟩ o.zero (b + i * bsl) nn)
          (readLimb ⟨m, true⟩ o.zero (res + i * rsl) nn))
      (addB nn res rsl a asz asl b bsz bsl)
    · intro i hi
      have c1 : i < asz ∧ i < bsz := by omega
      exact (stepNF_limb2 o.zero nn (Coeffs.add o nn) (by simp) _ _ _).of_eq
        (by funext m; simp [addK, c1]) (by funext sz; simp [addB, c1])
    · intro i h1 h2
      have c1 : ¬ i < asz := by omega
      have c2 : i < bsz := by omega
      exact (stepNF_limb1 o.zero nn (Coeffs.copy o nn) (by simp) _ _).of_eq
        (by funext m; simp [addK, c1, c2]) (by funext sz; simp [addB, c1, c2])
    · intro i h1 h2
      have c2 : ¬ i < bsz := by omega
      have c3 : ¬ i < asz := by omega
      exact (stepNF_limb0 (Coeffs.zero o nn) _).of_eq
        (by funext m; simp [addK, c2, c3]) (by funext sz; simp [addB, c2, c3])
  · rename_i hab
    apply three_phase _ _ _ (min rsz bsz) (min rsz asz) rsz (by omega) (by omega) (fun i => res + i * rsl)
      (fun i m => addK o nn asz bsz i (readLimb ⟨m, true⟩ o.zero (a + i * asl) nn) (readLimb ⟨m, true⟩ o.zero (b + i * bsl) nn)
          (readLimb ⟨m, true⟩ o.zero (res + i * rsl) nn))
      (addB nn res rsl a asz asl b bsz bsl)
    · intro i hi
      have c1 : i < asz ∧ i < bsz := by omega
      exact (stepNF_limb2 o.zero nn (Coeffs.add o nn) (by simp) _ _ _).of_eq
        (by funext m; simp [addK, c1]) (by funext sz; simp [addB, c1])
    · intro i h1 h2
      have c2 : ¬ i < bsz := by omega
      have c3 : i < asz := by omega
      exact (stepNF_limb1 o.zero nn (Coeffs.copy o nn) (by simp) _ _).of_eq
        (by funext m; simp [addK, c2, c3]) (by funext sz; simp [addB, c2, c3])
    · intro i h1 h2
      have c2 : ¬ i < bsz := by omega
      have c3 : ¬ i < asz := by omega
      exact (stepNF_limb0 (Coeffs.zero o nn) _).of_eq
        (by funext m; simp [addK, c2, c3]) (by funext sz; simp [addB, c2, c3])


/-! ### sub -/

def subK (o : Ops α) (nn asz bsz : Nat) (i : Nat) (x y _z : Array α) : Array α :=
  if i < asz ∧ i < bsz then Coeffs.sub o nn x y
  else if i < bsz then Coeffs.negate o nn y
  else if i < asz then Coeffs.copy o nn x
  else Coeffs.zero o nn

theorem sub_nf (o : Ops α) (nn : Nat) (h : Heap α) (res rsz rsl a asz asl b bsz bsl : Nat) :
    (VecZnx.sub o nn h res rsz rsl a asz asl b bsz bsl).mem =
      (List.range' 0 rsz).foldl (fun m i => writeArr m (res + i * rsl)
        (subK o nn asz bsz i (readLimb ⟨m, true⟩ o.zero (a + i * asl) nn) (readLimb ⟨m, true⟩ o.zero (b + i * bsl) nn)
          (readLimb ⟨m, true⟩ o.zero (res + i * rsl) nn))) h.mem ∧
    (VecZnx.sub o nn h res rsz rsl a asz asl b bsz bsl).ok =
      (h.ok && (List.range' 0 rsz).all (fun i => addB nn res rsl a asz asl b bsz bsl i h.mem.size)) := by
  unfold VecZnx.sub
  split
  · rename_i hab
    apply three_phase _ _ _ (min rsz asz) (min rsz bsz) rsz (by omega) (by omega) (fun i => res + i * rsl)
      (fun i m => subK o nn asz bsz i (readLimb ⟨m, true⟩ o.zero (a + i * asl) nn) (readLimb ⟨m, true⟩ o.zero (b + i * bsl) nn)
          (readLimb ⟨m, true⟩ o.zero (res + i * rsl) nn))
      (addB nn res rsl a asz asl b bsz bsl)
    · intro i hi
      have c1 : i < asz ∧ i < bsz := by omega
      exact (stepNF_limb2 o.zero nn (Coeffs.sub o nn) (by simp) _ _ _).of_eq
        (by funext m; simp [subK, c1]) (by funext sz; simp [addB, c1])
    · intro i h1 h2
      have c1 : ¬ i < asz := by omega
      have c2 : i < bsz := by omega
      exact (stepNF_limb1 o.zero nn (Coeffs.negate o nn) (by simp) _ _).of_eq
        (by funext m; simp [subK, c1, c2]) (by funext sz; simp [addB, c1, c2])
    · intro i h1 h2
      have c2 : ¬ i < bsz := by omega
      have c3 : ¬ i < asz := by omega
      exact (stepNF_limb0 (Coeffs.zero o nn) _).of_eq
        (by funext m; simp [subK, c2, c3]) (by funext sz; simp [addB, c2, c3])
  · rename_i hab
    apply three_phase _ _ _ (min rsz bsz) (min rsz asz) rsz (by omega) (by omega) (fun i => res + i * rsl)
      (fun i m => subK o nn asz bsz i (readLimb ⟨m, true⟩ o.zero (a + i * asl) nn) (readLimb ⟨m, true⟩ o.zero (b + i * bsl) nn)
          (readLimb ⟨m, true⟩ o.zero (res + i * rsl) nn))
      (addB nn res rsl a asz asl b bsz bsl)
    · intro i hi
      have c1 : i < asz ∧ i < bsz := by omega
      exact (stepNF_limb2 o.zero nn (Coeffs.sub o nn) (by simp) _ _ _).of_eq
        (by funext m; simp [subK, c1]) (by funext sz; simp [addB, c1])
    · intro i h1 h2
      have c2 : ¬ i < bsz := by omega
      have c3 : i < asz := by omega
      exact (stepNF_limb1 o.zero nn (Coeffs.copy o nn) (by simp) _ _).of_eq
        (by funext m; simp [subK, c2, c3]) (by funext sz; simp [addB, c2, c3])
    · intro i h1 h2
      have c2 : ¬ i < bsz := by omega
      have c3 : ¬ i < asz := by omega
      exact (stepNF_limb0 (Coeffs.zero o nn) _).of_eq
        (by funext m; simp [subK, c2, c3]) (by funext sz; simp [addB, c2, c3])

/-! ### one-source operations: `k` on the first `min rsz asz` limbs, then zero-extension.
    The per-limb kernel `k i x z` receives the source limb `x` and the prior content `z` of the
    output limb. -/

def oneK (o : Ops α) (nn : Nat) (k : Nat → Array α → Array α → Array α) (asz : Nat)
    (i : Nat) (x _y z : Array α) : Array α :=
  if i < asz then k i x z else Coeffs.zero o nn

def oneB (nn res rsl a asz asl : Nat) (i sz : Nat) : Bool :=
  if i < asz then decide (a + i * asl + nn ≤ sz) && decide (res + i * rsl + nn ≤ sz)
  else decide (res + i * rsl + nn ≤ sz)

theorem oneSrc_nf (o : Ops α) (nn : Nat) (f : Nat → Heap α → Heap α)
    (k : Nat → Array α → Array α → Array α) (h : Heap α) (res rsz rsl a asz asl : Nat)
    (hf : ∀ i, i < min rsz asz → StepNF (f i) (res + i * rsl)
      (fun m => k i (readLimb ⟨m, true⟩ o.zero (a + i * asl) nn) (readLimb ⟨m, true⟩ o.zero (res + i * rsl) nn))
      (fun sz => decide (a + i * asl + nn ≤ sz) && decide (res + i * rsl + nn ≤ sz))) :
    let h' := forLimbs (min rsz asz) rsz (fun i => limb0 (Coeffs.zero o nn) (res + i * rsl))
                (forLimbs 0 (min rsz asz) f h)
    h'.mem =
      (List.range' 0 rsz).foldl (fun m i => writeArr m (res + i * rsl)
        (oneK o nn k asz i (readLimb ⟨m, true⟩ o.zero (a + i * asl) nn) (readLimb ⟨m, true⟩ o.zero (res + i * rsl) nn)
          (readLimb ⟨m, true⟩ o.zero (res + i * rsl) nn))) h.mem ∧
    h'.ok = (h.ok && (List.range' 0 rsz).all (fun i => oneB nn res rsl a asz asl i h.mem.size)) := by
  intro h'
  apply two_phase _ _ (min rsz asz) rsz (by omega) (fun i => res + i * rsl)
    (fun i m => oneK o nn k asz i (readLimb ⟨m, true⟩ o.zero (a + i * asl) nn) (readLimb ⟨m, true⟩ o.zero (res + i * rsl) nn)
          (readLimb ⟨m, true⟩ o.zero (res + i * rsl) nn))
    (oneB nn res rsl a asz asl)
  · intro i hi
    have c1 : i < asz := by omega
    exact (hf i hi).of_eq (by funext m; simp [oneK, c1]) (by funext sz; simp [oneB, c1])
  · intro i h1 h2
    have c1 : ¬ i < asz := by omega
    exact (stepNF_limb0 (Coeffs.zero o nn) _).of_eq
      (by funext m; simp [oneK, c1]) (by funext sz; simp [oneB, c1])

/-- value / frame theorem of a one-source operation in normal form -/
theorem oneSrc_generic (o : Ops α) (nn : Nat) (k : Nat → Array α → Array α → Array α)
    (hk : ∀ i x z, x.size = nn → z.size = nn → (k i x z).size = nn)
    (m0 : Array α) (res rsz rsl a asz asl : Nat)
    (hsl : nn ≤ rsl) (hres : InBounds nn m0.size res rsz rsl)
    (ha : SrcOK nn res rsz rsl a asz asl) :
    let G := fun i (m : Array α) => oneK o nn k asz i (readLimb ⟨m, true⟩ o.zero (a + i * asl) nn)
                (readLimb ⟨m, true⟩ o.zero (res + i * rsl) nn) (readLimb ⟨m, true⟩ o.zero (res + i * rsl) nn)
    let m' := (List.range' 0 rsz).foldl (fun m i => writeArr m (res + i * rsl) (G i m)) m0
    m'.size = m0.size ∧
    (∀ i c, i < rsz → c < nn → m'[res + i * rsl + c]? = (G i m0)[c]?) ∧
    Frame nn res rsz rsl m0 m' :=
  vec_generic' nn res rsz rsl a asz asl res 0 rsl o.zero (oneK o nn k asz)
    (by intro i x y z hx _ hz; unfold oneK; split
        · exact hk i x z hx hz
        · simp)
    (by intro i hi x x' y z
        have c : ¬ i < asz := by omega
        simp [oneK, c])
    (by intro i _ x y y' z; rfl)
    m0 hsl hres ha (Or.inl ⟨rfl, rfl⟩)

/-! ### zero -/

theorem zero_nf (o : Ops α) (nn : Nat) (h : Heap α) (res rsz rsl : Nat) :
    (VecZnx.zero o nn h res rsz rsl).mem =
      (List.range' 0 rsz).foldl (fun m i => writeArr m (res + i * rsl)
        (oneK o nn (fun _ x _ => x) 0 i (readLimb ⟨m, true⟩ o.zero (res + i * rsl) nn) (readLimb ⟨m, true⟩ o.zero (res + i * rsl) nn)
          (readLimb ⟨m, true⟩ o.zero (res + i * rsl) nn))) h.mem ∧
    (VecZnx.zero o nn h res rsz rsl).ok =
      (h.ok && (List.range' 0 rsz).all (fun i => oneB nn res rsl res 0 rsl i h.mem.size)) := by
  have := oneSrc_nf o nn (fun _ h => h) (fun _ x _ => x) h res rsz rsl res 0 rsl (fun i hi => by omega)
  simp only [Nat.min_zero, forLimbs_self] at this
  exact this

/-! ### copy, negate -/

theorem copy_nf (o : Ops α) (nn : Nat) (h : Heap α) (res rsz rsl a asz asl : Nat) :
    (VecZnx.copy o nn h res rsz rsl a asz asl).mem =
      (List.range' 0 rsz).foldl (fun m i => writeArr m (res + i * rsl)
        (oneK o nn (fun _ x _ => Coeffs.copy o nn x) asz i (readLimb ⟨m, true⟩ o.zero (a + i * asl) nn)
          (readLimb ⟨m, true⟩ o.zero (res + i * rsl) nn) (readLimb ⟨m, true⟩ o.zero (res + i * rsl) nn))) h.mem ∧
    (VecZnx.copy o nn h res rsz rsl a asz asl).ok =
      (h.ok && (List.range' 0 rsz).all (fun i => oneB nn res rsl a asz asl i h.mem.size)) :=
  oneSrc_nf o nn _ (fun _ x _ => Coeffs.copy o nn x) h res rsz rsl a asz asl
    (fun _ _ => stepNF_limb1 o.zero nn (Coeffs.copy o nn) (by simp) _ _)

theorem negate_nf (o : Ops α) (nn : Nat) (h : Heap α) (res rsz rsl a asz asl : Nat) :
    (VecZnx.negate o nn h res rsz rsl a asz asl).mem =
      (List.range' 0 rsz).foldl (fun m i => writeArr m (res + i * rsl)
        (oneK o nn (fun _ x _ => Coeffs.negate o nn x) asz i (readLimb ⟨m, true⟩ o.zero (a + i * asl) nn)
          (readLimb ⟨m, true⟩ o.zero (res + i * rsl) nn) (readLimb ⟨m, true⟩ o.zero (res + i * rsl) nn))) h.mem ∧
    (VecZnx.negate o nn h res rsz rsl a asz asl).ok =
      (h.ok && (List.range' 0 rsz).all (fun i => oneB nn res rsl a asz asl i h.mem.size)) :=
  oneSrc_nf o nn _ (fun _ x _ => Coeffs.negate o nn x) h res rsz rsl a asz asl
    (fun _ _ => stepNF_limb1 o.zero nn (Coeffs.negate o nn) (by simp) _ _)

/-! ### rotate, automorphism: the kernel is selected per limb by the pointer-equality test -/

/-- the kernel `vec_znx_rotate_ref` applies to limb `i` -/
def rotKer (o : Ops α) (nn : Nat) (p : Int) (res rsl a asl : Nat) (i : Nat) (x _z : Array α) : Array α :=
  if res + i * rsl = a + i * asl then Coeffs.rotateInplace o nn p x else Coeffs.rotate o nn p x

/-- the kernel `vec_znx_automorphism_ref` applies to limb `i` (`z`: prior content of the output limb) -/
def autKer (o : Ops α) (nn : Nat) (p : Int) (res rsl a asl : Nat) (i : Nat) (x z : Array α) : Array α :=
  if res + i * rsl = a + i * asl then Coeffs.automorphismInplace o nn p x else Coeffs.automorphism o nn p x z

theorem size_rotKer (o : Ops α) (nn : Nat) (p : Int) (res rsl a asl i : Nat) (x z : Array α)
    (hx : x.size = nn) : (rotKer o nn p res rsl a asl i x z).size = nn := by
  unfold rotKer; split <;> simp [hx]

theorem size_autKer (o : Ops α) (nn : Nat) (p : Int) (res rsl a asl i : Nat) (x z : Array α)
    (hx : x.size = nn) (hz : z.size = nn) : (autKer o nn p res rsl a asl i x z).size = nn := by
  unfold autKer; split <;> simp [hx, hz]

theorem rotate_nf (o : Ops α) (nn : Nat) (p : Int) (h : Heap α) (res rsz rsl a asz asl : Nat) :
    (VecZnx.rotate o nn p h res rsz rsl a asz asl).mem =
      (List.range' 0 rsz).foldl (fun m i => writeArr m (res + i * rsl)
        (oneK o nn (rotKer o nn p res rsl a asl) asz i (readLimb ⟨m, true⟩ o.zero (a + i * asl) nn)
          (readLimb ⟨m, true⟩ o.zero (res + i * rsl) nn) (readLimb ⟨m, true⟩ o.zero (res + i * rsl) nn))) h.mem ∧
    (VecZnx.rotate o nn p h res rsz rsl a asz asl).ok =
      (h.ok && (List.range' 0 rsz).all (fun i => oneB nn res rsl a asz asl i h.mem.size)) := by
  apply oneSrc_nf o nn _ (rotKer o nn p res rsl a asl) h res rsz rsl a asz asl
  intro i _
  by_cases heq : res + i * rsl = a + i * asl
  · simp only [if_pos heq]
    refine (stepNF_limb1' o.zero nn (Coeffs.rotateInplace o nn p) (by intro x hx; simp [hx]) _ _).of_eq ?_ ?_
    · funext m; simp only [rotKer, if_pos heq]; rw [heq]
    · funext sz; rw [heq]
  · simp only [if_neg heq]
    refine (stepNF_limb1 o.zero nn (Coeffs.rotate o nn p) (by simp) _ _).of_eq ?_ rfl
    funext m; simp only [rotKer, if_neg heq]

theorem automorphism_nf (o : Ops α) (nn : Nat) (p : Int) (h : Heap α) (res rsz rsl a asz asl : Nat) :
    (VecZnx.automorphism o nn p h res rsz rsl a asz asl).mem =
      (List.range' 0 rsz).foldl (fun m i => writeArr m (res + i * rsl)
        (oneK o nn (autKer o nn p res rsl a asl) asz i (readLimb ⟨m, true⟩ o.zero (a + i * asl) nn)
          (readLimb ⟨m, true⟩ o.zero (res + i * rsl) nn) (readLimb ⟨m, true⟩ o.zero (res + i * rsl) nn))) h.mem ∧
    (VecZnx.automorphism o nn p h res rsz rsl a asz asl).ok =
      (h.ok && (List.range' 0 rsz).all (fun i => oneB nn res rsl a asz asl i h.mem.size)) := by
  apply oneSrc_nf o nn _ (autKer o nn p res rsl a asl) h res rsz rsl a asz asl
  intro i _
  by_cases heq : res + i * rsl = a + i * asl
  · simp only [if_pos heq]
    refine (stepNF_limb1' o.zero nn (Coeffs.automorphismInplace o nn p) (by intro x hx; simp [hx]) _ _).of_eq ?_ ?_
    · funext m; simp only [autKer, if_pos heq]; rw [heq]
    · funext sz; rw [heq]
  · simp only [if_neg heq]
    refine (stepNF_limb1_dep o.zero nn (fun x z => Coeffs.automorphism o nn p x z)
      (by intro x z _ hz; simp [hz]) _ _).of_eq ?_ rfl
    funext m; simp only [autKer, if_neg heq]

/-! ### frame with no hypothesis on the sources (C18) and bounds flag (C08), for any normal form -/

theorem frame_of_nf (nn res rsz rsl : Nat) (G : Nat → Array α → Array α)
    (hsz : ∀ i m, (G i m).size = nn) (m0 : Array α) :
    let m' := (List.range' 0 rsz).foldl (fun m i => writeArr m (res + i * rsl) (G i m)) m0
    m'.size = m0.size ∧ Frame nn res rsz rsl m0 m' := by
  intro m'
  refine ⟨size_foldl_writeArr _ _ _ _, ?_⟩
  intro x hx
  apply foldl_writeArr_frame nn (fun i => res + i * rsl) G hsz
  intro i hi
  rw [List.mem_range'_1] at hi
  exact hx i (by omega)

theorem size_addK (o : Ops α) (nn asz bsz i : Nat) (x y z : Array α) : (addK o nn asz bsz i x y z).size = nn := by
  unfold addK; repeat' split
  all_goals simp

theorem size_subK (o : Ops α) (nn asz bsz i : Nat) (x y z : Array α) : (subK o nn asz bsz i x y z).size = nn := by
  unfold subK; repeat' split
  all_goals simp

theorem size_oneK (o : Ops α) (nn : Nat) (k : Nat → Array α → Array α → Array α) (asz i : Nat) (x y z : Array α)
    (hk : (k i x z).size = nn) : (oneK o nn k asz i x y z).size = nn := by
  unfold oneK; split
  · exact hk
  · simp

theorem oneB_true (nn sz res rsz rsl a asz asl : Nat)
    (hres : InBounds nn sz res rsz rsl) (ha : InBounds nn sz a (min asz rsz) asl) :
    (List.range' 0 rsz).all (fun i => oneB nn res rsl a asz asl i sz) = true := by
  apply all_range_true
  intro i hi
  have r1 := hres i hi
  unfold oneB
  split
  · have := ha i (by omega); simp; omega
  · simp; omega

theorem addB_true (nn sz res rsz rsl a asz asl b bsz bsl : Nat)
    (hres : InBounds nn sz res rsz rsl)
    (ha : InBounds nn sz a (min asz rsz) asl) (hb : InBounds nn sz b (min bsz rsz) bsl) :
    (List.range' 0 rsz).all (fun i => addB nn res rsl a asz asl b bsz bsl i sz) = true := by
  apply all_range_true
  intro i hi
  have r1 := hres i hi
  unfold addB
  split
  · rename_i c; have := ha i (by omega); have := hb i (by omega); simp; omega
  · split
    · have := hb i (by omega); simp; omega
    · split
      · have := ha i (by omega); simp; omega
      · simp; omega

/-! ### vocabulary shared by C13 / C18 -/

/-- the source vector `(a, asz, asl)` is separate from the output: each of its limbs is disjoint
    from every output limb (the right disjunct of `SrcOK`) -/
def Sep (nn res rsz rsl a asz asl : Nat) : Prop :=
  ∀ i j, i < asz → j < rsz → a + i * asl + nn ≤ res + j * rsl ∨ res + j * rsl + nn ≤ a + i * asl

theorem Sep.srcOK {nn res rsz rsl a asz asl : Nat} (h : Sep nn res rsz rsl a asz asl) :
    SrcOK nn res rsz rsl a asz asl := Or.inr h

/-- the limbs an operation with `rsz` output limbs can read from `(a, asz, asl)` on heap `m` hold
    the same data as those of `(a', asz, asl')` on heap `m2` -/
def SameSrc (d : α) (nn rsz : Nat) (m : Array α) (a asz asl : Nat) (m2 : Array α) (a' asl' : Nat) : Prop :=
  ∀ i c, i < asz → i < rsz → c < nn → m.getD (a + i * asl + c) d = m2.getD (a' + i * asl' + c) d

theorem readLimb_eq_of_getD (h h2 : Heap α) (d : α) (a a' nn : Nat)
    (hh : ∀ c, c < nn → h.mem.getD (a + c) d = h2.mem.getD (a' + c) d) :
    h.readLimb d a nn = h2.readLimb d a' nn := by
  apply Array.ext
  · simp
  · intro c h1 _
    simp only [size_readLimb] at h1
    simp only [readLimb, Array.getElem_ofFn]
    exact hh c h1

theorem SameSrc.readLimb {d : α} {nn rsz : Nat} {h h2 : Heap α} {a asz asl a' asl' : Nat}
    (hs : SameSrc d nn rsz h.mem a asz asl h2.mem a' asl') (i : Nat) (hi : i < asz) (hr : i < rsz) :
    h.readLimb d (a + i * asl) nn = h2.readLimb d (a' + i * asl') nn :=
  readLimb_eq_of_getD h h2 d _ _ nn (fun c hc => hs i c hi hr hc)

theorem frame_src {nn res rsz rsl : Nat} {m m' : Array α} (hf : Frame nn res rsz rsl m m')
    {a asz asl : Nat} (hsep : Sep nn res rsz rsl a asz asl) (i c : Nat) (hi : i < asz) (hc : c < nn) :
    m'[a + i * asl + c]? = m[a + i * asl + c]? := by
  apply hf
  intro j hj
  have := hsep i j hi hj
  omega

theorem frame_extent {nn res rsz rsl : Nat} {m m' : Array α} (hf : Frame nn res rsz rsl m m')
    (lo hi : Nat) (hd : ∀ j, j < rsz → hi ≤ res + j * rsl ∨ res + j * rsl + nn ≤ lo)
    (x : Nat) (h1 : lo ≤ x) (h2 : x < hi) : m'[x]? = m[x]? := by
  apply hf
  intro j hj
  have := hd j hj
  omega

end Spq.C08
