/-
  One valuation class of the in-place automorphism, walked by paired cycles with leaders
  `B, 5B, 25B, …` (the general branch of `znx_automorphism_inplace_i64`).
-/
import SpqProofs.Lemmas.CoeffsAutRel
import SpqProofs.Lemmas.CoeffsPairWalk
import SpqProofs.Lemmas.CoeffsOrbit
namespace Spq.Rq
open Spq
variable {α : Type}

/-- sign applied to the value leaving cell `j` -/
def autG (o : Ops α) (N pm : Nat) (j : Nat) (t : α) : α :=
  if (j * pm) % (2 * N) < N then t else o.neg t

theorem autWalkCycle_eq (o : Ops α) (nn pm jstart : Nat) :
    ∀ (fuel j : Nat) (t1 t2 : α) (res : Array α) (nb : Nat),
      Coeffs.autWalkCycle o nn pm jstart fuel j t1 t2 res nb =
        walkP (autSigma nn pm) (fun j => nn - j) (autG o nn pm) o.zero jstart fuel j t1 t2 res nb := by
  intro fuel
  induction fuel with
  | zero => intro j t1 t2 res nb; rfl
  | succ f ih =>
    intro j t1 t2 res nb
    simp only [Coeffs.autWalkCycle, walkP, ih, autSigma, autG]
    by_cases c : j * pm % (2 * nn) < nn
    · simp only [c, if_true]
    · simp only [c, if_false]

/-- mirror symmetry: `(N - z)·pm ≡ N - z·pm (mod 2N)` for odd `pm` -/
theorem mirror_exp (N pm z : Nat) (hN : 0 < N) (hpm : pm % 2 = 1) (hz : z ≤ N)
    (hE : (z * pm) % (2 * N) % N ≠ 0) :
    ((N - z) * pm) % (2 * N) =
      if (z * pm) % (2 * N) < N then N - (z * pm) % (2 * N) else 3 * N - (z * pm) % (2 * N) := by
  have hElt := Nat.mod_lt (z * pm) (show 0 < 2 * N by omega)
  have hq := Nat.div_add_mod (z * pm) (2 * N)
  set E := (z * pm) % (2 * N) with hEdef
  set q := (z * pm) / (2 * N)
  obtain ⟨c, hc⟩ : ∃ c, pm = 2 * c + 1 := ⟨pm / 2, by omega⟩
  have hEN : E ≠ N := by
    intro h; rw [h] at hE; simp at hE
  have hE0 : E ≠ 0 := by
    intro h; rw [h] at hE; simp at hE
  have cast1 : (((N - z) * pm : Nat) : Int) = (N : Int) * pm - (z : Int) * pm := by
    rw [Nat.cast_mul, Nat.cast_sub hz]; ring
  have hq' : (2 * (N : Int)) * q + E = (z : Int) * pm := by exact_mod_cast hq
  have hpmI : (pm : Int) = 2 * c + 1 := by exact_mod_cast hc
  have goalI : ∀ v : Nat, (v : Int) < 2 * N →
      ((2 * N : Nat) : Int) ∣ (((N - z) * pm : Nat) : Int) - v → ((N - z) * pm) % (2 * N) = v := by
    intro v hv hd
    have := emod_eq_of_dvd_sub (by omega) (by push_cast; omega) hd
    exact_mod_cast this
  by_cases c1 : E < N
  · rw [if_pos c1]
    apply goalI _ (by omega)
    refine ⟨(c : Int) - q, ?_⟩
    rw [cast1, Nat.cast_sub (by omega)]
    push_cast
    linear_combination hq' + (N : Int) * hpmI
  · rw [if_neg c1]
    apply goalI _ (by omega)
    refine ⟨(c : Int) - q - 1, ?_⟩
    rw [cast1, Nat.cast_sub (by omega)]
    push_cast
    linear_combination hq' + (N : Int) * hpmI

theorem mirror_sigma (N pm z : Nat) (hN : 0 < N) (hpm : pm % 2 = 1) (hz : z ≤ N) (hE : autSigma N pm z ≠ 0) :
    autSigma N pm (N - z) = N - autSigma N pm z := by
  have h := mirror_exp N pm z hN hpm hz hE
  unfold autSigma at hE ⊢
  have hElt := Nat.mod_lt (z * pm) (show 0 < 2 * N by omega)
  rw [h]
  generalize (z * pm) % (2 * N) = E at *
  by_cases c1 : E < N
  · rw [if_pos c1, Nat.mod_eq_of_lt c1]
    rw [Nat.mod_eq_of_lt c1] at hE
    exact Nat.mod_eq_of_lt (by omega)
  · rw [if_neg c1]
    have e1 : E % N = E - N := by
      rw [Nat.mod_eq_sub_mod (by omega)]; exact Nat.mod_eq_of_lt (by omega)
    rw [e1] at hE ⊢
    have : 3 * N - E = (2 * N - E) + N := by omega
    rw [this, Nat.add_mod_right, Nat.mod_eq_of_lt (by omega)]
    omega

theorem mirror_autG (o : Ops α) (N pm z : Nat) (hN : 0 < N) (hpm : pm % 2 = 1) (hz : z ≤ N)
    (hE : autSigma N pm z ≠ 0) (t : α) : autG o N pm (N - z) t = autG o N pm z t := by
  have h := mirror_exp N pm z hN hpm hz hE
  unfold autG
  rw [h]
  unfold autSigma at hE
  have hElt := Nat.mod_lt (z * pm) (show 0 < 2 * N by omega)
  generalize (z * pm) % (2 * N) = E at *
  by_cases c1 : E < N
  · have : E ≠ 0 := by intro h; rw [h] at hE; simp at hE
    have c2 : N - E < N := by omega
    simp only [c1, c2, if_true]
  · have e1 : E % N = E - N := by
      rw [Nat.mod_eq_sub_mod (by omega)]; exact Nat.mod_eq_of_lt (by omega)
    rw [e1] at hE
    have c2 : ¬ 3 * N - E < N := by omega
    simp only [c1, c2, if_false]

/-! ### hypotheses of the pair walk for a cycle started at `j0 ≡ 2^b·5^l` -/

theorem orbLen_even (n a : Nat) (ha : a < 2 ^ n) (ha0 : 0 < a) : 2 ∣ 2 ^ n / Nat.gcd a (2 ^ n) := by
  obtain ⟨k, hk, hd⟩ := (Nat.dvd_prime_pow Nat.prime_two).1 (Nat.gcd_dvd_right a (2 ^ n))
  have hle : Nat.gcd a (2 ^ n) ≤ a := Nat.le_of_dvd ha0 (Nat.gcd_dvd_left _ _)
  have hkn : k < n := by
    by_contra h
    have : n = k := by omega
    subst this
    omega
  rw [hd, Nat.pow_div hk (by norm_num)]
  exact dvd_pow_self 2 (by omega)

theorem exp_mod (n a e s k : Nat) (h : e ≡ s + k * a [MOD 2 ^ n]) :
    e % Nat.gcd a (2 ^ n) = s % Nat.gcd a (2 ^ n) := by
  have h1 : e % Nat.gcd a (2 ^ n) = (s + k * a) % Nat.gcd a (2 ^ n) :=
    Nat.ModEq.of_dvd (Nat.gcd_dvd_right a (2 ^ n)) h
  rw [h1]
  obtain ⟨c, hc⟩ := Nat.gcd_dvd_left a (2 ^ n)
  have : s + k * a = s + Nat.gcd a (2 ^ n) * (k * c) := by
    conv_lhs => rw [hc]
    ring
  rw [this, Nat.add_mul_mod_self_left]

section cycle
variable (b n pm a : Nat) (ε : ZMod (2 ^ (b + n + 2)))
  (hpm2 : pm % 2 = 1) (ha : a < 2 ^ n) (ha0 : 0 < a) (hε : ε = 1 ∨ ε = -1)
  (hpm : (2 : ZMod (2 ^ (b + n + 2))) ^ b * pm = ε * (2 ^ b * 5 ^ a))
  (j0 l : Nat) (hl : l < 2 ^ n) (hj0 : j0 < 2 ^ (b + n + 2))
  (hj0c : (j0 : ZMod (2 ^ (b + n + 2))) = 2 ^ b * 5 ^ l)

include hj0 in
theorem cyc_lt (i : Nat) : (autSigma (2 ^ (b + n + 2)) pm)^[i] j0 < 2 ^ (b + n + 2) := by
  cases i with
  | zero => exact hj0
  | succ i => rw [Function.iterate_succ_apply']; exact autSigma_lt _ _ _ (Nat.pow_pos (by norm_num))

include hε hpm hj0c in
theorem cyc_rel (i : Nat) : Rel b n ((autSigma (2 ^ (b + n + 2)) pm)^[i] j0) (l + i * a) :=
  autSigma_iter_rel b n pm a ε hε hpm j0 l hj0c i

include hε hpm hj0c in
theorem cyc_pos (i : Nat) : 0 < (autSigma (2 ^ (b + n + 2)) pm)^[i] j0 := by
  have := (cyc_rel b n pm a ε hε hpm j0 l hj0c i).cls
  have hB : 0 < 2 ^ b := Nat.pow_pos (by norm_num)
  rcases Nat.eq_zero_or_pos ((autSigma (2 ^ (b + n + 2)) pm)^[i] j0) with h | h
  · rw [h] at this; simp at this; omega
  · exact h

include ha ha0 hε hpm hj0 hj0c in
theorem cyc_ret : (autSigma (2 ^ (b + n + 2)) pm)^[2 ^ n / Nat.gcd a (2 ^ n)] j0 = j0 := by
  apply natCast_inj_of_lt (cyc_lt b n pm j0 hj0 _) hj0
  rw [autSigma_iter_cast b n pm a ε hpm j0 l hj0c, hj0c]
  have hev : Even (2 ^ n / Nat.gcd a (2 ^ n)) := (even_iff_two_dvd).2 (orbLen_even n a ha ha0)
  have h1 : ε ^ (2 ^ n / Nat.gcd a (2 ^ n)) = 1 := by
    rcases hε with h | h
    · rw [h, one_pow]
    · rw [h, hev.neg_one_pow]
  rw [h1, one_mul]
  apply (cell_eq_iff b n _ _).2
  have hQ : 0 < 2 ^ n := Nat.pow_pos (by norm_num)
  rw [orbLen_mul_pn (2 ^ n) a hQ]
  unfold Nat.ModEq
  rw [Nat.add_mul_mod_self_right]

include hl hε hpm hj0c in
theorem cyc_dist (i j : Nat) (hi : i < 2 ^ n / Nat.gcd a (2 ^ n)) (hj : j < 2 ^ n / Nat.gcd a (2 ^ n))
    (e : (autSigma (2 ^ (b + n + 2)) pm)^[i] j0 = (autSigma (2 ^ (b + n + 2)) pm)^[j] j0) : i = j := by
  have r1 := cyc_rel b n pm a ε hε hpm j0 l hj0c i
  have r2 := cyc_rel b n pm a ε hε hpm j0 l hj0c j
  rw [e] at r1
  have h := r1.unique r2
  have hQ : 0 < 2 ^ n := Nat.pow_pos (by norm_num)
  apply addMod_dist (2 ^ n) a hQ l hl i j hi hj
  rw [addMod_iter _ _ _ _ hl, addMod_iter _ _ _ _ hl]
  exact h

include hε hpm hj0c in
theorem cyc_not_self_mirror (i : Nat) :
    2 ^ (b + n + 2) - (autSigma (2 ^ (b + n + 2)) pm)^[i] j0 ≠ (autSigma (2 ^ (b + n + 2)) pm)^[i] j0 := by
  intro h
  have c := (cyc_rel b n pm a ε hε hpm j0 l hj0c i).cls
  generalize (autSigma (2 ^ (b + n + 2)) pm)^[i] j0 = y at *
  have e1 : (2 : Nat) ^ (b + n + 2) = 2 ^ (b + 1) * (2 * 2 ^ n) := by ring
  have hy : y = 2 ^ (b + 1) * 2 ^ n := by
    have : 2 ^ (b + n + 2) = 2 * y := by omega
    rw [e1] at this
    have h2 : 2 * (2 ^ (b + 1) * 2 ^ n) = 2 * y := by rw [← this]; ring
    omega
  rw [hy, Nat.mul_mod_right] at c
  have hB : 0 < 2 ^ b := Nat.pow_pos (by norm_num)
  omega

include hl hε hpm hj0 hj0c in
theorem cyc_cross (i j : Nat) (hi : i < 2 ^ n / Nat.gcd a (2 ^ n)) (hj : j < 2 ^ n / Nat.gcd a (2 ^ n)) :
    2 ^ (b + n + 2) - (autSigma (2 ^ (b + n + 2)) pm)^[i] j0 ≠ (autSigma (2 ^ (b + n + 2)) pm)^[j] j0 := by
  intro e
  have r1 := (cyc_rel b n pm a ε hε hpm j0 l hj0c i).mirror (Nat.le_of_lt (cyc_lt b n pm j0 hj0 i))
  have r2 := cyc_rel b n pm a ε hε hpm j0 l hj0c j
  rw [e] at r1
  have h := r1.unique r2
  have hQ : 0 < 2 ^ n := Nat.pow_pos (by norm_num)
  have hij : i = j := by
    apply addMod_dist (2 ^ n) a hQ l hl i j hi hj
    rw [addMod_iter _ _ _ _ hl, addMod_iter _ _ _ _ hl]
    exact h
  subst hij
  exact cyc_not_self_mirror b n pm a ε hε hpm j0 l hj0c i e

end cycle

/-! ### the leader loop `autWalkAll` on one class -/

/-- state after the leaders `5^0·B … 5^(s-1)·B` have been walked (`orig` = array at the start of the level) -/
def WInv (o : Ops α) (b n pm a : Nat) (orig : Array α) (s : Nat) (f : Array α) : Prop :=
  f.size = 2 ^ (b + n + 2) ∧
  (∀ x, x < 2 ^ (b + n + 2) → x % 2 ^ (b + 1) ≠ 2 ^ b → f.getD x o.zero = orig.getD x o.zero) ∧
  (∀ y e, y < 2 ^ (b + n + 2) → Rel b n y e → e % Nat.gcd a (2 ^ n) < s →
      f.getD (autSigma (2 ^ (b + n + 2)) pm y) o.zero = autG o (2 ^ (b + n + 2)) pm y (orig.getD y o.zero)) ∧
  (∀ y e, y < 2 ^ (b + n + 2) → Rel b n y e → s ≤ e % Nat.gcd a (2 ^ n) →
      f.getD y o.zero = orig.getD y o.zero)

theorem autWalkAll_spec (o : Ops α) (b n pm a : Nat) (ε : ZMod (2 ^ (b + n + 2)))
    (hpm2 : pm % 2 = 1) (ha : a < 2 ^ n) (ha0 : 0 < a) (hε : ε = 1 ∨ ε = -1)
    (hpm : (2 : ZMod (2 ^ (b + n + 2))) ^ b * pm = ε * (2 ^ b * 5 ^ a)) (orig : Array α) :
    ∀ (r s fuel : Nat) (f : Array α) (nb jstart : Nat), s + r = Nat.gcd a (2 ^ n) → r ≤ fuel →
      nb = s * (2 * (2 ^ n / Nat.gcd a (2 ^ n))) → jstart < 2 ^ (b + n + 2) →
      (jstart : ZMod (2 ^ (b + n + 2))) = 2 ^ b * 5 ^ s →
      WInv o b n pm a orig s f →
      WInv o b n pm a orig (Nat.gcd a (2 ^ n))
        (Coeffs.autWalkAll o (2 ^ (b + n + 2)) pm (2 * 2 ^ n) fuel jstart nb f) := by
  have hQ : 0 < 2 ^ n := Nat.pow_pos (by norm_num)
  have hN : 0 < 2 ^ (b + n + 2) := Nat.pow_pos (by norm_num)
  have hd := gcd_pos' (2 ^ n) a hQ
  have hL := orbLen_pos (2 ^ n) a hQ
  have hLd := orbLen_mul (2 ^ n) a hQ
  have hdQ : Nat.gcd a (2 ^ n) ≤ 2 ^ n := Nat.le_of_dvd hQ (Nat.gcd_dvd_right _ _)
  have hQN : 2 ^ n ≤ 2 ^ (b + n + 2) := Nat.pow_le_pow_right (by norm_num) (by omega)
  intro r
  induction r with
  | zero =>
    intro s fuel f nb jstart hs _ hnb _ _ hinv
    have hsd : s = Nat.gcd a (2 ^ n) := by omega
    have hnn : ¬ nb < 2 * 2 ^ n := by
      rw [hnb, hsd]
      have : Nat.gcd a (2 ^ n) * (2 * (2 ^ n / Nat.gcd a (2 ^ n))) = 2 * 2 ^ n := by
        calc _ = 2 * (2 ^ n / Nat.gcd a (2 ^ n) * Nat.gcd a (2 ^ n)) := by ring
          _ = _ := by rw [hLd]
      omega
    cases fuel with
    | zero => rw [← hsd]; exact hinv
    | succ k => simp only [Coeffs.autWalkAll, hnn, if_false]; rw [← hsd]; exact hinv
  | succ r ih =>
    intro s fuel f nb jstart hs hfuel hnb hjlt hjc hinv
    obtain ⟨fuel', rfl⟩ : ∃ k, fuel = k + 1 := ⟨fuel - 1, by omega⟩
    have hsd : s < Nat.gcd a (2 ^ n) := by omega
    have hsQ : s < 2 ^ n := by omega
    have hlt : nb < 2 * 2 ^ n := by
      have h1 := Nat.mul_lt_mul_of_pos_right hsd hL
      rw [Nat.mul_comm (Nat.gcd a (2 ^ n)), hLd] at h1
      rw [hnb]
      calc s * (2 * (2 ^ n / Nat.gcd a (2 ^ n))) = 2 * (s * (2 ^ n / Nat.gcd a (2 ^ n))) := by ring
        _ < 2 * 2 ^ n := by omega
    obtain ⟨hsz, hfr, hdone, hun⟩ := hinv
    have hLN : 2 ^ n / Nat.gcd a (2 ^ n) ≤ 2 ^ (b + n + 2) :=
      Nat.le_trans (Nat.div_le_self _ _) hQN
    -- abbreviations
    have clt := cyc_lt b n pm jstart hjlt
    have crel := cyc_rel b n pm a ε hε hpm jstart s hjc
    have cpos := cyc_pos b n pm a ε hε hpm jstart s hjc
    have hw := walkP_cycle (autSigma (2 ^ (b + n + 2)) pm) (fun j => 2 ^ (b + n + 2) - j)
      (autG o (2 ^ (b + n + 2)) pm) o.zero jstart (2 ^ n / Nat.gcd a (2 ^ n)) f
      (fun i => by rw [hsz]; exact clt i)
      (fun i => by rw [hsz]; have := cpos i; omega) hL
      (cyc_ret b n pm a ε ha ha0 hε hpm jstart s hjlt hjc)
      (fun i j hi hj e => cyc_dist b n pm a ε hε hpm jstart s hsQ hjc i j hi hj e)
      (fun i j hi hj e => by
        have e' : (autSigma (2 ^ (b + n + 2)) pm)^[i] jstart = (autSigma (2 ^ (b + n + 2)) pm)^[j] jstart := by
          have := clt i; have := clt j
          have e2 : 2 ^ (b + n + 2) - (autSigma (2 ^ (b + n + 2)) pm)^[i] jstart =
              2 ^ (b + n + 2) - (autSigma (2 ^ (b + n + 2)) pm)^[j] jstart := e
          omega
        exact cyc_dist b n pm a ε hε hpm jstart s hsQ hjc i j hi hj e')
      (fun i j hi hj => cyc_cross b n pm a ε hε hpm jstart s hsQ hjlt hjc i j hi hj)
      (2 ^ (b + n + 2)) nb hLN
    simp only [Coeffs.autWalkAll, hlt, if_true, autWalkCycle_eq]
    obtain ⟨hw1, hw2, hw3, hw4⟩ := hw
    -- cells written by this walk are related to exponents ≡ s modulo d
    have written : ∀ i x e, (x = (autSigma (2 ^ (b + n + 2)) pm)^[i+1] jstart ∨
        x = 2 ^ (b + n + 2) - (autSigma (2 ^ (b + n + 2)) pm)^[i+1] jstart) → Rel b n x e →
        e % Nat.gcd a (2 ^ n) = s := by
      intro i x e hx hre
      have r1 : Rel b n x (s + (i + 1) * a) := by
        rcases hx with hx | hx
        · rw [hx]; exact crel (i + 1)
        · rw [hx]; exact (crel (i + 1)).mirror (Nat.le_of_lt (clt (i + 1)))
      have := exp_mod n a e s (i + 1) (hre.unique r1)
      rw [this, Nat.mod_eq_of_lt hsd]
    apply ih (s + 1) fuel' _ _ _ (by omega) (by omega)
    · rw [hw1, hnb]; ring
    · exact Nat.mod_lt _ hN
    · rw [ZMod.natCast_mod, Nat.cast_mul, hjc, pow_succ]; push_cast; ring
    · refine ⟨by rw [hw2, hsz], ?_, ?_, ?_⟩
      · -- frame
        intro x hx hxc
        rw [hw4 x ?_]
        · exact hfr x hx hxc
        · intro i _
          constructor
          · intro h; rw [h] at hxc; exact hxc (crel (i + 1)).cls
          · intro h; rw [h] at hxc
            exact hxc ((crel (i + 1)).mirror (Nat.le_of_lt (clt (i + 1)))).cls
      · -- done
        intro y e hy hre hes
        by_cases c : e % Nat.gcd a (2 ^ n) = s
        · -- y is on this walk
          have hmm : (e % 2 ^ n) % Nat.gcd a (2 ^ n) = s := by
            rw [Nat.mod_mod_of_dvd _ (Nat.gcd_dvd_right _ _)]; exact c
          obtain ⟨i, hi, hei⟩ := addMod_surj (2 ^ n) a hQ s (e % 2 ^ n) (Nat.mod_lt _ hQ) hsd hmm
          rw [addMod_iter _ _ _ _ hsQ] at hei
          have hre' : Rel b n y (s + i * a) := hre.congr hei
          have hforig : f.getD y o.zero = orig.getD y o.zero := hun y e hy hre (by omega)
          rcases hre'.eq_or_mirror hy (clt i) (cpos i) (crel i) with hy1 | hy1
          · have e1 : autSigma (2 ^ (b + n + 2)) pm y = (autSigma (2 ^ (b + n + 2)) pm)^[i+1] jstart := by
              rw [Function.iterate_succ_apply', ← hy1]
            rw [e1, (hw3 i hi).1, ← hy1, hforig]
          · have hz := clt i
            have hsz0 : autSigma (2 ^ (b + n + 2)) pm ((autSigma (2 ^ (b + n + 2)) pm)^[i] jstart) ≠ 0 := by
              have := cpos (i + 1)
              rw [Function.iterate_succ_apply'] at this
              omega
            have e1 : autSigma (2 ^ (b + n + 2)) pm y =
                2 ^ (b + n + 2) - (autSigma (2 ^ (b + n + 2)) pm)^[i+1] jstart := by
              rw [Function.iterate_succ_apply', hy1]
              exact mirror_sigma _ pm _ hN hpm2 (Nat.le_of_lt hz) hsz0
            rw [e1, (hw3 i hi).2]
            beta_reduce
            rw [← hy1, hforig, hy1, mirror_autG o _ pm _ hN hpm2 (Nat.le_of_lt hz) hsz0]
        · -- y was finished by an earlier walk; this walk does not touch σ y
          have hre2 : Rel b n (autSigma (2 ^ (b + n + 2)) pm y) (e + a) := hre.step ε hε hpm
          rw [hw4 _ ?_]
          · exact hdone y e hy hre (by omega)
          · intro i _
            have key : ∀ x, (x = (autSigma (2 ^ (b + n + 2)) pm)^[i+1] jstart ∨
                x = 2 ^ (b + n + 2) - (autSigma (2 ^ (b + n + 2)) pm)^[i+1] jstart) →
                autSigma (2 ^ (b + n + 2)) pm y ≠ x := by
              intro x hx hh
              have := written i x (e + a) hx (hh ▸ hre2)
              have h2 : (e + a) % Nat.gcd a (2 ^ n) = e % Nat.gcd a (2 ^ n) := by
                have := exp_mod n a (e + a) e 1 (by rw [Nat.one_mul])
                exact this
              omega
            exact ⟨key _ (Or.inl rfl), key _ (Or.inr rfl)⟩
      · -- untouched
        intro y e hy hre hes
        rw [hw4 y ?_]
        · exact hun y e hy hre (by omega)
        · intro i _
          constructor
          · intro h
            have := written i y e (Or.inl h) hre
            omega
          · intro h
            have := written i y e (Or.inr h) hre
            omega

/-- the general branch of one level: all cells of the class receive their final value, the rest is
    untouched -/
theorem autWalkAll_level (o : Ops α) (b n pm : Nat) (hpm2 : pm % 2 = 1)
    (hne1 : (2 : ZMod (2 ^ (b + n + 2))) ^ b * pm ≠ 2 ^ b)
    (hne2 : (2 : ZMod (2 ^ (b + n + 2))) ^ b * pm ≠ -(2 ^ b))
    (orig : Array α) (hsz : orig.size = 2 ^ (b + n + 2)) :
    (Coeffs.autWalkAll o (2 ^ (b + n + 2)) pm (2 * 2 ^ n) (2 ^ (b + n + 2)) (2 ^ b) 0 orig).size
        = 2 ^ (b + n + 2) ∧
    (∀ x, x < 2 ^ (b + n + 2) → x % 2 ^ (b + 1) ≠ 2 ^ b →
      (Coeffs.autWalkAll o (2 ^ (b + n + 2)) pm (2 * 2 ^ n) (2 ^ (b + n + 2)) (2 ^ b) 0 orig).getD x o.zero
        = orig.getD x o.zero) ∧
    (∀ y, y < 2 ^ (b + n + 2) → y % 2 ^ (b + 1) = 2 ^ b →
      (Coeffs.autWalkAll o (2 ^ (b + n + 2)) pm (2 * 2 ^ n) (2 ^ (b + n + 2)) (2 ^ b) 0 orig).getD
          (autSigma (2 ^ (b + n + 2)) pm y) o.zero
        = autG o (2 ^ (b + n + 2)) pm y (orig.getD y o.zero)) := by
  obtain ⟨a, ha, ε, hε, hpm⟩ := pm_dlog b n pm hpm2
  have ha0 : 0 < a := by
    rcases Nat.eq_zero_or_pos a with h | h
    · subst h
      rcases hε with he | he
      · exact absurd (by rw [hpm, he]; ring) hne1
      · exact absurd (by rw [hpm, he]; ring) hne2
    · exact h
  have hQ : 0 < 2 ^ n := Nat.pow_pos (by norm_num)
  have hdQ : Nat.gcd a (2 ^ n) ≤ 2 ^ n := Nat.le_of_dvd hQ (Nat.gcd_dvd_right _ _)
  have hQN : 2 ^ n ≤ 2 ^ (b + n + 2) := Nat.pow_le_pow_right (by norm_num) (by omega)
  have hBN : 2 ^ b < 2 ^ (b + n + 2) := Nat.pow_lt_pow_right (by norm_num) (by omega)
  have h := autWalkAll_spec o b n pm a ε hpm2 ha ha0 hε hpm orig (Nat.gcd a (2 ^ n)) 0
    (2 ^ (b + n + 2)) orig 0 (2 ^ b) (by omega) (by omega) (by simp) hBN (by push_cast; ring)
    ⟨hsz, fun _ _ _ => rfl, fun _ _ _ _ h => by omega, fun _ _ _ _ _ => rfl⟩
  obtain ⟨h1, h2, h3, -⟩ := h
  refine ⟨h1, h2, ?_⟩
  intro y hy hyc
  obtain ⟨e, -, hre⟩ := Rel.exists (n := n) hyc
  exact h3 y e hy hre (Nat.mod_lt _ (gcd_pos' (2 ^ n) a hQ))

end Spq.Rq
