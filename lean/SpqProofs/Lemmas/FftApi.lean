/-
  C06: from the split-storage theorems to the flat reim vector (`splitRI` / `joinRI`).
-/
import SpqProofs.Lemmas.FftReimSmall
set_option linter.unusedSectionVars false
namespace Spq.Fft.Api
open Spq.Fft Spq.Fft.Alg Spq.Fft.Sim Spq.Fft.Tab Spq.Fft.Kern

variable {R : Type} [CommRing R] [Inhabited R]

theorem splitRI_valid (m : ℕ) (data : Array R) (h : data.size = 2 * m) : Valid m (splitRI m data) := by
  constructor <;> simp [splitRI, h] <;> omega

theorem splitRI_re (m : ℕ) (data : Array R) (h : data.size = 2 * m) (p : ℕ) (hp : p < m) :
    (splitRI m data).re[p]! = data[p]! := by
  simp only [splitRI, getElem!_def]
  rw [Array.getElem?_extract]
  simp [hp, h]; rw [if_pos (by omega)]

theorem splitRI_im (m : ℕ) (data : Array R) (h : data.size = 2 * m) (p : ℕ) (hp : p < m) :
    (splitRI m data).im[p]! = data[m + p]! := by
  simp only [splitRI, getElem!_def]
  rw [Array.getElem?_extract]
  simp [h]; rw [if_pos (by omega)]

theorem joinRI_re (m : ℕ) (s : RI R) (hs : Valid m s) (p : ℕ) (hp : p < m) : (joinRI s)[p]! = s.re[p]! := by
  simp only [joinRI, getElem!_def]
  rw [Array.getElem?_append_left (by rw [hs.1]; exact hp)]

theorem joinRI_im (m : ℕ) (s : RI R) (hs : Valid m s) (p : ℕ) (hp : p < m) : (joinRI s)[m + p]! = s.im[p]! := by
  simp only [joinRI, getElem!_def]
  rw [Array.getElem?_append_right (by rw [hs.1]; omega), hs.1]
  simp

theorem deinterleave_valid (m : ℕ) (data : Array R) : Valid m (deinterleave m data) := by
  constructor <;> simp [deinterleave]

theorem deinterleave_re (m : ℕ) (data : Array R) (p : ℕ) (hp : p < m) :
    (deinterleave m data).re[p]! = data[2 * p]! := by
  simp [deinterleave, hp]

theorem deinterleave_im (m : ℕ) (data : Array R) (p : ℕ) (hp : p < m) :
    (deinterleave m data).im[p]! = data[2 * p + 1]! := by
  simp [deinterleave, hp]

theorem interleave_re (m : ℕ) (s : RI R) (p : ℕ) (hp : p < m) : (interleave m s)[2 * p]! = s.re[p]! := by
  have : 2 * p < 2 * m := by omega
  simp [interleave, this]

theorem interleave_im (m : ℕ) (s : RI R) (p : ℕ) (hp : p < m) : (interleave m s)[2 * p + 1]! = s.im[p]! := by
  have : 2 * p + 1 < 2 * m := by omega
  have h1 : (2 * p + 1) % 2 = 1 := by omega
  have h2 : (2 * p + 1) / 2 = p := by omega
  simp [interleave, this, h1, h2]

end Spq.Fft.Api
