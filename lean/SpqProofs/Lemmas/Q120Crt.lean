/-
  The CRT lift `q120_b_to_znx128_simple`: under the decidable predicate `crtOK` on the primes and
  the CRT constants, the result is THE centered representative modulo `Q = q0·q1·q2·q3`
  (congruent to each lane modulo its prime, in `[-(Q-1)/2, (Q-1)/2]`, unique), and no `__int128`
  operation overflows.
-/
import SpqProofs.Lemmas.Q120Conv
import Mathlib.Data.Nat.GCD.Basic
namespace Spq.Q120

/-- product of the three primes other than `k`, as a natural number -/
def qmN (p : Q120Params) (k : Nat) : Nat :=
  match k with
  | 0 => p.q 1 * p.q 2 * p.q 3
  | 1 => p.q 0 * p.q 2 * p.q 3
  | 2 => p.q 0 * p.q 1 * p.q 3
  | _ => p.q 0 * p.q 1 * p.q 2

def bigQN (p : Q120Params) : Nat := p.q 0 * p.q 1 * p.q 2 * p.q 3

/-- what the proof of the CRT lift needs from the constants -/
def crtOK (p : Q120Params) : Bool :=
  ((List.range 4).all fun k =>
    decide (1 < p.q k) && decide (p.q k < 4294967296) && decide (p.crt k < 4294967296)
    && decide ((p.crt k * qmN p k) % p.q k = 1))
  && decide (bigQN p % 2 = 1)
  && decide (bigQN p < 42535295865117307932921825928971026432)   -- 2^125: four terms < Q fit an __int128

theorem crtOK_lane (p : Q120Params) (ok : crtOK p = true) (k : Nat) (hk : k < 4) :
    1 < p.q k ∧ p.q k < 4294967296 ∧ p.crt k < 4294967296 ∧ (p.crt k * qmN p k) % p.q k = 1 := by
  simp only [crtOK, Bool.and_eq_true, decide_eq_true_eq, List.all_eq_true, List.mem_range] at ok
  exact ⟨(ok.1.1 k hk).1.1.1, (ok.1.1 k hk).1.1.2, (ok.1.1 k hk).1.2, (ok.1.1 k hk).2⟩

theorem crtOK_Q (p : Q120Params) (ok : crtOK p = true) :
    bigQN p % 2 = 1 ∧ bigQN p < 42535295865117307932921825928971026432 := by
  simp only [crtOK, Bool.and_eq_true, decide_eq_true_eq] at ok
  exact ⟨ok.1.2, ok.2⟩

theorem wrapS128_eq (z : Int) (h1 : -170141183460469231731687303715884105728 ≤ z)
    (h2 : z < 170141183460469231731687303715884105728) : wrapS128 z = z := by
  unfold wrapS128; omega

theorem mulS128_nat (a b : Nat) (h : a * b < 42535295865117307932921825928971026432) :
    mulS128 (a : Int) (b : Int) = ((a * b : Nat) : Int) := by
  unfold mulS128
  have h' : ((a * b : Nat) : Int) < ((42535295865117307932921825928971026432 : Nat) : Int) := Int.ofNat_lt.mpr h
  have nn : (0 : Int) ≤ ((a * b : Nat) : Int) := Int.natCast_nonneg _
  rw [Int.natCast_mul] at h' nn ⊢
  rw [wrapS128_eq] <;> omega

theorem mul3S128 (a b c : Nat) (hc : 0 < c) (hlt : a * b * c < 42535295865117307932921825928971026432) :
    mulS128 (mulS128 (a : Int) (b : Int)) (c : Int) = ((a * b * c : Nat) : Int) := by
  have l1 : a * b ≤ a * b * c := Nat.le_mul_of_pos_right _ hc
  rw [mulS128_nat a b (by omega), mulS128_nat (a * b) c hlt]

/-- one CRT term: no uint64 / `__int128` overflow, and the term is `< q·(a·b·c) = Q` -/
theorem crtTerm_eq (q crt a b c x : Nat) (hq : 1 < q) (hq2 : q < 4294967296) (hc : crt < 4294967296)
    (ha : 0 < a) (hb : 0 < b) (hcc : 0 < c) (hQ : q * (a * b * c) < 42535295865117307932921825928971026432) :
    crtTerm q crt (mulS128 (mulS128 (a : Int) (b : Int)) (c : Int)) x
      = ((((x % q) * crt) % q * (a * b * c) : Nat) : Int)
    ∧ ((x % q) * crt) % q * (a * b * c) < q * (a * b * c) := by
  have pos : 0 < a * b * c := Nat.mul_pos (Nat.mul_pos ha hb) hcc
  have le : a * b * c ≤ q * (a * b * c) := Nat.le_mul_of_pos_left _ (by omega)
  have lx : x % q < q := Nat.mod_lt _ (by omega)
  have lu : ((x % q) * crt) % q < q := Nat.mod_lt _ (by omega)
  have b64 := mul_lt_P64 (x % q) crt (by omega) hc
  have lt : ((x % q) * crt) % q * (a * b * c) < q * (a * b * c) := Nat.mul_lt_mul_of_pos_right lu pos
  refine ⟨?_, lt⟩
  unfold crtTerm
  rw [mul64_eq _ _ (by omega), mul3S128 a b c hcc (by omega)]
  exact mulS128_nat _ _ (by omega)

/-- `((x % q_k) · CRT_k) % q_k` -/
def crtU (p : Q120Params) (k x : Nat) : Nat := ((x % p.q k) * p.crt k) % p.q k

/-- the exact value accumulated in `tmp` -/
def crtSum (p : Q120Params) (x0 x1 x2 x3 : Nat) : Nat :=
  crtU p 0 x0 * (p.q 1 * p.q 2 * p.q 3) + crtU p 1 x1 * (p.q 0 * p.q 2 * p.q 3)
  + crtU p 2 x2 * (p.q 0 * p.q 1 * p.q 3) + crtU p 3 x3 * (p.q 0 * p.q 1 * p.q 2)

/-- `Q` of the function is the exact product -/
theorem bigQ_eq (p : Q120Params) (ok : crtOK p = true) : bigQ p = (bigQN p : Int) := by
  obtain ⟨_, hQ⟩ := crtOK_Q p ok
  have h2 := (crtOK_lane p ok 2 (by decide)).1
  have h3 := (crtOK_lane p ok 3 (by decide)).1
  unfold bigQ
  unfold bigQN at hQ ⊢
  have l1 : p.q 0 * p.q 1 * p.q 2 ≤ p.q 0 * p.q 1 * p.q 2 * p.q 3 := Nat.le_mul_of_pos_right _ (by omega)
  rw [mul3S128 _ _ _ (by omega) (by omega), mulS128_nat _ _ hQ]

theorem addS128_nat (a b : Nat) (h : a + b < 170141183460469231731687303715884105728) :
    addS128 (a : Int) (b : Int) = ((a + b : Nat) : Int) := by
  unfold addS128; rw [wrapS128_eq] <;> omega

/-- the four `tmp +=` do not overflow -/
theorem sum4_eq (T0 T1 T2 T3 Q : Nat) (l0 : T0 < Q) (l1 : T1 < Q) (l2 : T2 < Q) (l3 : T3 < Q)
    (hQ : Q < 42535295865117307932921825928971026432) :
    addS128 (addS128 (addS128 (addS128 0 (T0 : Int)) (T1 : Int)) (T2 : Int)) (T3 : Int)
      = ((T0 + T1 + T2 + T3 : Nat) : Int) := by
  have s1 : addS128 0 (T0 : Int) = ((T0 : Nat) : Int) := by
    have := addS128_nat 0 T0 (by omega)
    simpa using this
  rw [s1, addS128_nat T0 T1 (by omega), addS128_nat (T0 + T1) T2 (by omega),
    addS128_nat (T0 + T1 + T2) T3 (by omega)]

/-- `tmp %= Q; res = (tmp >= (Q+1)/2) ? tmp - Q : tmp` on a non-negative `tmp` -/
theorem center_eq (S Q : Nat) (hpos : 0 < Q) (hQ : Q < 42535295865117307932921825928971026432) :
    (if Int.tmod (S : Int) (Q : Int) ≥ Int.tdiv (addS128 (Q : Int) 1) 2
      then wrapS128 (Int.tmod (S : Int) (Q : Int) - (Q : Int)) else Int.tmod (S : Int) (Q : Int))
    = if (Q + 1) / 2 ≤ S % Q then ((S % Q : Nat) : Int) - (Q : Int) else ((S % Q : Nat) : Int) := by
  have hmod := Nat.mod_lt S hpos
  have s5 : addS128 (Q : Int) 1 = (Q : Int) + 1 := by unfold addS128; rw [wrapS128_eq] <;> omega
  rw [s5, Int.tmod_eq_emod_of_nonneg (Int.natCast_nonneg _), Int.tdiv_eq_ediv_of_nonneg (by omega),
    ← Int.natCast_mod]
  generalize S % Q = r at *
  by_cases hc : (Q + 1) / 2 ≤ r
  · rw [if_pos hc, if_pos (by omega), wrapS128_eq] <;> omega
  · rw [if_neg hc, if_neg (by omega)]

/-- **no `__int128` overflow**: the function returns the centered lift of `crtSum mod Q` -/
theorem bToZnx128_eq (p : Q120Params) (ok : crtOK p = true) (x0 x1 x2 x3 : Nat) :
    bToZnx128 p x0 x1 x2 x3 =
      if (bigQN p + 1) / 2 ≤ crtSum p x0 x1 x2 x3 % bigQN p
      then ((crtSum p x0 x1 x2 x3 % bigQN p : Nat) : Int) - (bigQN p : Int)
      else ((crtSum p x0 x1 x2 x3 % bigQN p : Nat) : Int) := by
  obtain ⟨_, hQ⟩ := crtOK_Q p ok
  obtain ⟨a0, a0', c0, _⟩ := crtOK_lane p ok 0 (by decide)
  obtain ⟨a1, a1', c1, _⟩ := crtOK_lane p ok 1 (by decide)
  obtain ⟨a2, a2', c2, _⟩ := crtOK_lane p ok 2 (by decide)
  obtain ⟨a3, a3', c3, _⟩ := crtOK_lane p ok 3 (by decide)
  have p0 : 0 < p.q 0 := Nat.lt_trans Nat.zero_lt_one a0
  have p1 : 0 < p.q 1 := Nat.lt_trans Nat.zero_lt_one a1
  have p2 : 0 < p.q 2 := Nat.lt_trans Nat.zero_lt_one a2
  have p3 : 0 < p.q 3 := Nat.lt_trans Nat.zero_lt_one a3
  have Q0 : p.q 0 * (p.q 1 * p.q 2 * p.q 3) = bigQN p := by unfold bigQN; ring
  have Q1 : p.q 1 * (p.q 0 * p.q 2 * p.q 3) = bigQN p := by unfold bigQN; ring
  have Q2 : p.q 2 * (p.q 0 * p.q 1 * p.q 3) = bigQN p := by unfold bigQN; ring
  have Q3 : p.q 3 * (p.q 0 * p.q 1 * p.q 2) = bigQN p := by unfold bigQN; ring
  obtain ⟨e0, l0⟩ := crtTerm_eq (p.q 0) (p.crt 0) (p.q 1) (p.q 2) (p.q 3) x0 a0 a0' c0 p1 p2 p3
    (by rw [Q0]; exact hQ)
  obtain ⟨e1, l1⟩ := crtTerm_eq (p.q 1) (p.crt 1) (p.q 0) (p.q 2) (p.q 3) x1 a1 a1' c1 p0 p2 p3
    (by rw [Q1]; exact hQ)
  obtain ⟨e2, l2⟩ := crtTerm_eq (p.q 2) (p.crt 2) (p.q 0) (p.q 1) (p.q 3) x2 a2 a2' c2 p0 p1 p3
    (by rw [Q2]; exact hQ)
  obtain ⟨e3, l3⟩ := crtTerm_eq (p.q 3) (p.crt 3) (p.q 0) (p.q 1) (p.q 2) x3 a3 a3' c3 p0 p1 p2
    (by rw [Q3]; exact hQ)
  rw [Q0] at l0; rw [Q1] at l1; rw [Q2] at l2; rw [Q3] at l3
  have hpos : 0 < bigQN p := Nat.lt_of_le_of_lt (Nat.zero_le _) l0
  unfold bToZnx128 qm0 qm1 qm2 qm3
  rw [e0, e1, e2, e3, bigQ_eq p ok]
  simp only []
  rw [sum4_eq _ _ _ _ (bigQN p) l0 l1 l2 l3 hQ]
  exact center_eq _ (bigQN p) hpos hQ


/-! ### congruence, centering, uniqueness -/

/-- lane `k` of a 4-lane element -/
def sel4 (x0 x1 x2 x3 : Nat) (k : Nat) : Nat :=
  match k with
  | 0 => x0
  | 1 => x1
  | 2 => x2
  | _ => x3

theorem crtU_mul_mod (q c m x : Nat) (h : (c * m) % q = 1) : (((x % q) * c) % q * m) % q = x % q := by
  rw [Nat.mod_mul_mod, Nat.mul_assoc, Nat.mul_mod, h, Nat.mod_mod, Nat.mul_one, Nat.mod_mod]

theorem crtSum_mod (p : Q120Params) (ok : crtOK p = true) (x0 x1 x2 x3 : Nat) (k : Nat) (hk : k < 4) :
    crtSum p x0 x1 x2 x3 % p.q k = sel4 x0 x1 x2 x3 k % p.q k := by
  have h := (crtOK_lane p ok k hk).2.2.2
  have hk' : k = 0 ∨ k = 1 ∨ k = 2 ∨ k = 3 := by omega
  rcases hk' with rfl | rfl | rfl | rfl
  · have e : crtSum p x0 x1 x2 x3 = crtU p 0 x0 * (p.q 1 * p.q 2 * p.q 3)
        + p.q 0 * (crtU p 1 x1 * (p.q 2 * p.q 3) + crtU p 2 x2 * (p.q 1 * p.q 3) + crtU p 3 x3 * (p.q 1 * p.q 2)) := by
      unfold crtSum; ring
    rw [e, Nat.add_mul_mod_self_left]
    exact crtU_mul_mod _ _ _ _ h
  · have e : crtSum p x0 x1 x2 x3 = crtU p 1 x1 * (p.q 0 * p.q 2 * p.q 3)
        + p.q 1 * (crtU p 0 x0 * (p.q 2 * p.q 3) + crtU p 2 x2 * (p.q 0 * p.q 3) + crtU p 3 x3 * (p.q 0 * p.q 2)) := by
      unfold crtSum; ring
    rw [e, Nat.add_mul_mod_self_left]
    exact crtU_mul_mod _ _ _ _ h
  · have e : crtSum p x0 x1 x2 x3 = crtU p 2 x2 * (p.q 0 * p.q 1 * p.q 3)
        + p.q 2 * (crtU p 0 x0 * (p.q 1 * p.q 3) + crtU p 1 x1 * (p.q 0 * p.q 3) + crtU p 3 x3 * (p.q 0 * p.q 1)) := by
      unfold crtSum; ring
    rw [e, Nat.add_mul_mod_self_left]
    exact crtU_mul_mod _ _ _ _ h
  · have e : crtSum p x0 x1 x2 x3 = crtU p 3 x3 * (p.q 0 * p.q 1 * p.q 2)
        + p.q 3 * (crtU p 0 x0 * (p.q 1 * p.q 2) + crtU p 1 x1 * (p.q 0 * p.q 2) + crtU p 2 x2 * (p.q 0 * p.q 1)) := by
      unfold crtSum; ring
    rw [e, Nat.add_mul_mod_self_left]
    exact crtU_mul_mod _ _ _ _ h

theorem q_dvd_bigQN (p : Q120Params) (k : Nat) (hk : k < 4) : p.q k ∣ bigQN p := by
  have hk' : k = 0 ∨ k = 1 ∨ k = 2 ∨ k = 3 := by omega
  unfold bigQN
  rcases hk' with rfl | rfl | rfl | rfl
  · exact ⟨p.q 1 * p.q 2 * p.q 3, by ring⟩
  · exact ⟨p.q 0 * p.q 2 * p.q 3, by ring⟩
  · exact ⟨p.q 0 * p.q 1 * p.q 3, by ring⟩
  · exact ⟨p.q 0 * p.q 1 * p.q 2, by ring⟩

/-- centered lift of a residue `r < Q`, `Q` odd -/
def centerN (r Q : Nat) : Int := if (Q + 1) / 2 ≤ r then (r : Int) - (Q : Int) else (r : Int)

theorem centerN_bounds (r Q : Nat) (hodd : Q % 2 = 1) (hr : r < Q) :
    -(((Q : Int) - 1) / 2) ≤ centerN r Q ∧ centerN r Q ≤ ((Q : Int) - 1) / 2 := by
  unfold centerN
  split <;> omega

theorem centerN_mod (r Q q : Nat) (hd : q ∣ Q) : centerN r Q % (q : Int) = ((r % q : Nat) : Int) := by
  obtain ⟨m, rfl⟩ := hd
  unfold centerN
  split
  · rw [Int.natCast_mul, Int.sub_mul_emod_self_left, Int.natCast_mod]
  · rw [Int.natCast_mod]

/-- **congruence**: the result is congruent to lane `k` modulo `q k` -/
theorem bToZnx128_mod (p : Q120Params) (ok : crtOK p = true) (x0 x1 x2 x3 : Nat) (k : Nat) (hk : k < 4) :
    bToZnx128 p x0 x1 x2 x3 % (p.q k : Int) = ((sel4 x0 x1 x2 x3 k % p.q k : Nat) : Int) := by
  rw [bToZnx128_eq p ok]
  have := centerN_mod (crtSum p x0 x1 x2 x3 % bigQN p) (bigQN p) (p.q k) (q_dvd_bigQN p k hk)
  unfold centerN at this
  rw [this, Nat.mod_mod_of_dvd _ (q_dvd_bigQN p k hk), crtSum_mod p ok x0 x1 x2 x3 k hk]

/-- **centering**: `-(Q-1)/2 ≤ result ≤ (Q-1)/2` -/
theorem bToZnx128_centered (p : Q120Params) (ok : crtOK p = true) (x0 x1 x2 x3 : Nat) :
    -(((bigQN p : Int) - 1) / 2) ≤ bToZnx128 p x0 x1 x2 x3
    ∧ bToZnx128 p x0 x1 x2 x3 ≤ ((bigQN p : Int) - 1) / 2 := by
  obtain ⟨hodd, hQ⟩ := crtOK_Q p ok
  have hpos : 0 < bigQN p := by
    rcases Nat.eq_zero_or_pos (bigQN p) with h | h
    · rw [h] at hodd; exact absurd hodd (by decide)
    · exact h
  rw [bToZnx128_eq p ok]
  exact centerN_bounds _ _ hodd (Nat.mod_lt _ hpos)

theorem coprime_of_mul_mod_one (a b n : Nat) (h : (a * b) % n = 1) : Nat.Coprime b n := by
  have g1 : Nat.gcd b n ∣ a * b := Dvd.dvd.mul_left (Nat.gcd_dvd_left b n) a
  have g2 : Nat.gcd b n ∣ n := Nat.gcd_dvd_right b n
  have : Nat.gcd b n ∣ (a * b) % n := (Nat.dvd_mod_iff g2).mpr g1
  rw [h] at this
  exact Nat.eq_one_of_dvd_one this

/-- the CRT identities force the primes to be pairwise coprime -/
theorem crtOK_coprime (p : Q120Params) (ok : crtOK p = true) :
    Nat.Coprime (p.q 0) (p.q 1) ∧ Nat.Coprime (p.q 0 * p.q 1) (p.q 2)
    ∧ Nat.Coprime (p.q 0 * p.q 1 * p.q 2) (p.q 3) := by
  have c1 : Nat.Coprime (p.q 0 * p.q 2 * p.q 3) (p.q 1) :=
    coprime_of_mul_mod_one _ _ _ (crtOK_lane p ok 1 (by decide)).2.2.2
  have c2 : Nat.Coprime (p.q 0 * p.q 1 * p.q 3) (p.q 2) :=
    coprime_of_mul_mod_one _ _ _ (crtOK_lane p ok 2 (by decide)).2.2.2
  have c3 : Nat.Coprime (p.q 0 * p.q 1 * p.q 2) (p.q 3) :=
    coprime_of_mul_mod_one _ _ _ (crtOK_lane p ok 3 (by decide)).2.2.2
  refine ⟨?_, ?_, c3⟩
  · exact Nat.Coprime.coprime_mul_right (Nat.Coprime.coprime_mul_right c1)
  · exact Nat.Coprime.coprime_mul_right c2

/-- **uniqueness**: two integers in the centered range that agree modulo each prime are equal -/
theorem centered_unique (p : Q120Params) (ok : crtOK p = true) (r r' : Int)
    (hr : -(((bigQN p : Int) - 1) / 2) ≤ r ∧ r ≤ ((bigQN p : Int) - 1) / 2)
    (hr' : -(((bigQN p : Int) - 1) / 2) ≤ r' ∧ r' ≤ ((bigQN p : Int) - 1) / 2)
    (hc : ∀ k, k < 4 → r % (p.q k : Int) = r' % (p.q k : Int)) : r = r' := by
  obtain ⟨c01, c012, c0123⟩ := crtOK_coprime p ok
  have dv : ∀ k, k < 4 → p.q k ∣ (r - r').natAbs := fun k hk =>
    Int.natCast_dvd.mp (Int.ModEq.dvd (hc k hk).symm)
  have d01 := Nat.Coprime.mul_dvd_of_dvd_of_dvd c01 (dv 0 (by decide)) (dv 1 (by decide))
  have d012 := Nat.Coprime.mul_dvd_of_dvd_of_dvd c012 d01 (dv 2 (by decide))
  have d0123 : bigQN p ∣ (r - r').natAbs := Nat.Coprime.mul_dvd_of_dvd_of_dvd c0123 d012 (dv 3 (by decide))
  generalize bigQN p = Q at *
  have lt : (r - r').natAbs < Q ∨ Q = 0 := by omega
  rcases lt with lt | rfl
  · have z := Nat.eq_zero_of_dvd_of_lt d0123 lt
    omega
  · omega


/-- **round trip** `int64 → b → int128` is the identity on ALL int64 values (needs `Q > 2^64`) -/
theorem znx_roundtrip_gen (p : Q120Params) (ok : crtOK p = true) (hbig : 18446744073709551616 < bigQN p)
    (x : Int) (hx : IsI64 x) :
    bToZnx128 p (bFromZnx64Lane (p.q 0) x) (bFromZnx64Lane (p.q 1) x) (bFromZnx64Lane (p.q 2) x)
      (bFromZnx64Lane (p.q 3) x) = x := by
  apply centered_unique p ok _ x (bToZnx128_centered p ok _ _ _ _)
  · unfold IsI64 at hx
    generalize bigQN p = Q at *
    omega
  · intro k hk
    obtain ⟨hq1, hq2, _, _⟩ := crtOK_lane p ok k hk
    rw [bToZnx128_mod p ok _ _ _ _ k hk, Int.natCast_mod]
    have hk' : k = 0 ∨ k = 1 ∨ k = 2 ∨ k = 3 := by omega
    have e : sel4 (bFromZnx64Lane (p.q 0) x) (bFromZnx64Lane (p.q 1) x) (bFromZnx64Lane (p.q 2) x)
        (bFromZnx64Lane (p.q 3) x) k = bFromZnx64Lane (p.q k) x := by
      rcases hk' with rfl | rfl | rfl | rfl <;> rfl
    rw [e]
    exact (bFromZnx64Lane_spec (p.q k) x (by omega) (by omega) hx).2

end Spq.Q120
