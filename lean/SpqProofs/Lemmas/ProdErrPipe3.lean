/-
  C01 rounding budget, step 9: the inverse stage and the final conversion.
  `inv_stage`: every cell of the computed inverse transform is finite and within `budget·m` of `m·(a ⊛ b)_i`.
  `pipe_out`: every output coefficient of `smallProduct` is an integer within `budget + 1/2` of `(a ⊛ b)_i`.
-/
import SpqProofs.Lemmas.ProdErrPipe2
set_option linter.unusedSectionVars false
namespace Spq.ProdErr
open Finset Spq Spq.Module Spq.Fft Spq.Fft.Alg Spq.Fft.SimP Spq.Fft.LevelN Spq.Fft.SchedN Spq.Fft.RelN Spq.FftErr Spq.F64
  Spq.Reim4 Spq.C06Err
variable {K : Type} [Field K] [LinearOrder K] [IsStrictOrderedRing K]

theorem inv_stage (c : Cfg) (k : ℕ) (cN sN cNi sNi : ℕ → ℕ) (h : CfgOk c k cN sN cNi sNi)
    (ζ ζi : Cplx K) (hζ : nsq ζ = 1) (hI : ζ ^ 2 ^ k = Ic) (hinv : ζ * ζi = 1)
    (hcs : ∀ ℓ d b, ℓ + d + 1 = k → b < 2 ^ ℓ →
      nsq (toC (((val (cN (twE ℓ d b)) : ℚ) : K), ((val (sN (twE ℓ d b)) : ℚ) : K)) - ζ ^ twE ℓ d b) ≤
        (((7 / 2 * u64 : ℚ)) : K) ^ 2)
    (hcsi : ∀ ℓ d b, ℓ + d + 1 = k → b < 2 ^ ℓ →
      nsq (toC (((val (cNi (twE ℓ d b)) : ℚ) : K), ((val (sNi (twE ℓ d b)) : ℚ) : K)) - ζi ^ twE ℓ d b) ≤
        (((7 / 2 * u64 : ℚ)) : K) ^ 2)
    (a b : Array Int)
    (ha : ∀ i, i < 2 * 2 ^ k → -1125899906842624 < a.getD i 0 ∧ a.getD i 0 < 1125899906842624)
    (hb : ∀ i, i < 2 * 2 ^ k → -1125899906842624 < b.getD i 0 ∧ b.getD i 0 < 1125899906842624)
    (hok : PipeOk c k cN sN cNi sNi a b)
    (na nb : K) (hna0 : 0 ≤ na) (hnb0 : 0 ≤ nb) (hna : n2sq K a (2 * 2 ^ k) ≤ na ^ 2) (hnb : n2sq K b (2 * 2 ^ k) ≤ nb ^ 2)
    (hnl : nb ≤ n1 K b (2 * 2 ^ k)) :
    (∀ p, p < 2 * 2 ^ k → Fin64 ((stI c k cN sN cNi sNi a b)[p]!)) ∧
    ∀ i, i < 2 * 2 ^ k →
      |((val ((stI c k cN sN cNi sNi a b)[i]!) : ℚ) : K) - 2 ^ k * (((nmul (2 * 2 ^ k) a b).getD i 0 : Int) : K)| ≤
        budget K k a b na nb * 2 ^ k := by
  obtain ⟨hζi, hIi⟩ := inv_root k ζ ζi hζ hI hinv
  obtain ⟨hMsz, hCs, hCe⟩ := dft_stage c k cN sN cNi sNi h ζ hζ hI hcs a b ha hb hok na nb hna0 hnb0 hna hnb hnl
  have FI := reim_ifft_err c.ifftFma k ζi hζi hIi cNi sNi hcsi (stM c k cN sN a b) hMsz hok.okI
  refine ⟨FI.1, ?_⟩
  obtain ⟨S, hS⟩ : ∃ S, S = n1 K a (2 * 2 ^ k) * nb + na * n1 K b (2 * 2 ^ k) := ⟨_, rfl⟩
  have hS0 : 0 ≤ S := by
    rw [hS]
    have h2 : (0 : K) ≤ n1 K a (2 * 2 ^ k) := sum_nonneg (fun _ _ => abs_nonneg _)
    have h3 : (0 : K) ≤ n1 K b (2 * 2 ^ k) := sum_nonneg (fun _ _ => abs_nonneg _)
    positivity
  have hθ0 : (0 : K) ≤ eps K k * 2 ^ k := mul_nonneg (eps_nonneg k) (by positivity)
  have hf0 := fB_nonneg (eps_nonneg (K := K) k) (mu_nonneg (K := K)) hθ0
  rw [← hS] at hCs hCe
  have hch : ∑ p ∈ range (2 ^ k), nsq (outC (stI c k cN sN cNi sNi a b) k p -
        WIk k ζi (fun q => outC (stM c k cN sN a b) k q) k p) ≤
      eps K k ^ 2 * ∑ p ∈ range (2 ^ k), nsq (WIk k ζi (fun q => outC (stM c k cN sN a b) k q) k p) := FI.2
  have hc := inv_compose k ζ ζi hζi hinv (pkC (nmul (2 * 2 ^ k) a b) (2 ^ k)) (fun q => outC (stM c k cN sN a b) k q)
    (fun p => outC (stI c k cN sN cNi sNi a b) k p) (eps K k)
    (fB (eps K k) ((mu64 : ℚ) : K) (eps K k * 2 ^ k) * S) (S / 2) (2 ^ k) rfl (eps_nonneg k)
    (mul_nonneg hf0 hS0) (by positivity) hCe hCs hch
  have hE : (eps K k * (S / 2 + fB (eps K k) ((mu64 : ℚ) : K) (eps K k * 2 ^ k) * S) +
      fB (eps K k) ((mu64 : ℚ) : K) (eps K k * 2 ^ k) * S) * 2 ^ k = budget K k a b na nb * 2 ^ k := by
    unfold budget eB; rw [← hS]; ring
  rw [hE] at hc
  have hB0 : 0 ≤ budget K k a b na nb * 2 ^ k := mul_nonneg (budget_nonneg k a b na nb hna0 hnb0) (by positivity)
  intro i hi
  by_cases hlt : i < 2 ^ k
  · have := (coord_of_sum (2 ^ k) (fun p => outC (stI c k cN sN cNi sNi a b) k p -
      2 ^ k * pkC (nmul (2 * 2 ^ k) a b) (2 ^ k) p) _ hB0 hc i hlt).1
    simp only [QuadraticAlgebra.re_sub, (two_pow_mul_re k _).1] at this
    exact this
  · obtain ⟨p, rfl⟩ : ∃ p, i = 2 ^ k + p := ⟨i - 2 ^ k, by omega⟩
    have := (coord_of_sum (2 ^ k) (fun p => outC (stI c k cN sN cNi sNi a b) k p -
      2 ^ k * pkC (nmul (2 * 2 ^ k) a b) (2 ^ k) p) _ hB0 hc p (by omega)).2
    simp only [QuadraticAlgebra.im_sub, (two_pow_mul_re k _).2] at this
    exact this

/-- by-product: `|(a ⊛ b)_i| ≤ S/2`, `S = ‖a‖₁·nb + na·‖b‖₁` (Parseval + `|A(z)| ≤ ‖a‖₁`) -/
theorem coeff_bound (c : Cfg) (k : ℕ) (cN sN cNi sNi : ℕ → ℕ) (h : CfgOk c k cN sN cNi sNi)
    (ζ ζi : Cplx K) (hζ : nsq ζ = 1) (hI : ζ ^ 2 ^ k = Ic) (hinv : ζ * ζi = 1)
    (hcs : ∀ ℓ d b, ℓ + d + 1 = k → b < 2 ^ ℓ →
      nsq (toC (((val (cN (twE ℓ d b)) : ℚ) : K), ((val (sN (twE ℓ d b)) : ℚ) : K)) - ζ ^ twE ℓ d b) ≤
        (((7 / 2 * u64 : ℚ)) : K) ^ 2)
    (a b : Array Int)
    (ha : ∀ i, i < 2 * 2 ^ k → -1125899906842624 < a.getD i 0 ∧ a.getD i 0 < 1125899906842624)
    (hb : ∀ i, i < 2 * 2 ^ k → -1125899906842624 < b.getD i 0 ∧ b.getD i 0 < 1125899906842624)
    (hok : PipeOk c k cN sN cNi sNi a b)
    (na nb : K) (hna0 : 0 ≤ na) (hnb0 : 0 ≤ nb) (hna : n2sq K a (2 * 2 ^ k) ≤ na ^ 2) (hnb : n2sq K b (2 * 2 ^ k) ≤ nb ^ 2)
    (hnl : nb ≤ n1 K b (2 * 2 ^ k)) :
    ∀ i, i < 2 * 2 ^ k →
      |(((nmul (2 * 2 ^ k) a b).getD i 0 : Int) : K)| ≤ (n1 K a (2 * 2 ^ k) * nb + na * n1 K b (2 * 2 ^ k)) / 2 := by
  obtain ⟨hζi, _⟩ := inv_root k ζ ζi hζ hI hinv
  obtain ⟨_, hCs, _⟩ := dft_stage c k cN sN cNi sNi h ζ hζ hI hcs a b ha hb hok na nb hna0 hnb0 hna hnb hnl
  obtain ⟨S, hS⟩ : ∃ S, S = n1 K a (2 * 2 ^ k) * nb + na * n1 K b (2 * 2 ^ k) := ⟨_, rfl⟩
  have hS0 : 0 ≤ S := by
    rw [hS]
    have h2 : (0 : K) ≤ n1 K a (2 * 2 ^ k) := sum_nonneg (fun _ _ => abs_nonneg _)
    have h3 : (0 : K) ≤ n1 K b (2 * 2 ^ k) := sum_nonneg (fun _ _ => abs_nonneg _)
    positivity
  rw [← hS] at hCs ⊢
  have hP : (0 : K) < 2 ^ k := by positivity
  have hG : ∑ p ∈ range (2 ^ k), nsq ((2 : Cplx K) ^ k * pkC (nmul (2 * 2 ^ k) a b) (2 ^ k) p) ≤ (S / 2 * 2 ^ k) ^ 2 := by
    have e : ∀ p, (2 : Cplx K) ^ k * pkC (nmul (2 * 2 ^ k) a b) (2 ^ k) p =
        WIk k ζi (fun q => V ζ (pkC (nmul (2 * 2 ^ k) a b) (2 ^ k)) k 0 q) k p := fun p => (WIk_V k ζ ζi hinv _ p).symm
    simp only [e]
    rw [WIk_norm k ζi hζi]
    have := mul_le_mul_of_nonneg_left hCs (le_of_lt hP)
    rw [show (S / 2 * 2 ^ k) ^ 2 = 2 ^ k * ((S / 2) ^ 2 * 2 ^ k) by ring]
    exact this
  have hB0 : 0 ≤ S / 2 * 2 ^ k := by positivity
  intro i hi
  have key : ∀ x : K, |2 ^ k * x| ≤ S / 2 * 2 ^ k → |x| ≤ S / 2 := by
    intro x hx
    rw [abs_mul, abs_of_pos hP, mul_comm] at hx
    exact le_of_mul_le_mul_right hx hP
  by_cases hlt : i < 2 ^ k
  · have := (coord_of_sum (2 ^ k) (fun p => (2 : Cplx K) ^ k * pkC (nmul (2 * 2 ^ k) a b) (2 ^ k) p) _ hB0 hG i hlt).1
    simp only [(two_pow_mul_re k _).1] at this
    exact key _ this
  · obtain ⟨p, rfl⟩ : ∃ p, i = 2 ^ k + p := ⟨i - 2 ^ k, by omega⟩
    have := (coord_of_sum (2 ^ k) (fun p => (2 : Cplx K) ^ k * pkC (nmul (2 * 2 ^ k) a b) (2 ^ k) p) _ hB0 hG p (by omega)).2
    simp only [(two_pow_mul_re k _).2] at this
    exact key _ this

/-- the domain side condition of the final conversion, on the inputs only: `|(a ⊛ b)_i| + budget < B_v` -/
def OutDom (K : Type) [Field K] [LinearOrder K] (c : Cfg) (k : ℕ) (a b : Array Int) (na nb : K) : Prop :=
  ∀ i, i < 2 * 2 ^ k →
    |(((nmul (2 * 2 ^ k) a b).getD i 0 : Int) : K)| + budget K k a b na nb < ((Bv c.toVariant : ℚ) : K)

theorem pipe_out (c : Cfg) (k : ℕ) (hk : k ≤ 961) (cN sN cNi sNi : ℕ → ℕ) (h : CfgOk c k cN sN cNi sNi)
    (ζ ζi : Cplx K) (hζ : nsq ζ = 1) (hI : ζ ^ 2 ^ k = Ic) (hinv : ζ * ζi = 1)
    (hcs : ∀ ℓ d b, ℓ + d + 1 = k → b < 2 ^ ℓ →
      nsq (toC (((val (cN (twE ℓ d b)) : ℚ) : K), ((val (sN (twE ℓ d b)) : ℚ) : K)) - ζ ^ twE ℓ d b) ≤
        (((7 / 2 * u64 : ℚ)) : K) ^ 2)
    (hcsi : ∀ ℓ d b, ℓ + d + 1 = k → b < 2 ^ ℓ →
      nsq (toC (((val (cNi (twE ℓ d b)) : ℚ) : K), ((val (sNi (twE ℓ d b)) : ℚ) : K)) - ζi ^ twE ℓ d b) ≤
        (((7 / 2 * u64 : ℚ)) : K) ^ 2)
    (a b : Array Int)
    (ha : ∀ i, i < 2 * 2 ^ k → -1125899906842624 < a.getD i 0 ∧ a.getD i 0 < 1125899906842624)
    (hb : ∀ i, i < 2 * 2 ^ k → -1125899906842624 < b.getD i 0 ∧ b.getD i 0 < 1125899906842624)
    (hok : PipeOk c k cN sN cNi sNi a b)
    (na nb : K) (hna0 : 0 ≤ na) (hnb0 : 0 ≤ nb) (hna : n2sq K a (2 * 2 ^ k) ≤ na ^ 2) (hnb : n2sq K b (2 * 2 ^ k) ≤ nb ^ 2)
    (hnl : nb ≤ n1 K b (2 * 2 ^ k)) (hdom : OutDom K c k a b na nb) :
    ∀ i, i < 2 * 2 ^ k → ∃ r : ℤ, (smallProduct (Cfg.parts c) a b)[i]? = some r ∧
      |(r : K) - (((nmul (2 * 2 ^ k) a b).getD i 0 : Int) : K)| ≤ budget K k a b na nb + 1 / 2 := by
  obtain ⟨hfin, herr⟩ := inv_stage c k cN sN cNi sNi h ζ ζi hζ hI hinv hcs hcsi a b ha hb hok na nb hna0 hnb0 hna hnb hnl
  intro i hi
  rw [smallProduct_stages c k cN sN cNi sNi h]
  have hP : (0 : K) < 2 ^ k := by positivity
  have he := herr i hi
  have hf := hfin i hi
  rw [getElem!_nat] at he hf
  obtain ⟨x, hx⟩ : ∃ x, x = (stI c k cN sN cNi sNi a b).getD i 0 := ⟨_, rfl⟩
  obtain ⟨ci, hci⟩ : ∃ ci : K, ci = (((nmul (2 * 2 ^ k) a b).getD i 0 : Int) : K) := ⟨_, rfl⟩
  have hd := hdom i hi
  rw [← hx] at he hf
  rw [← hci] at he hd ⊢
  -- the domain of the conversion
  have hdomQ : |val x| < Bv c.toVariant * 2 ^ k := by
    have h1 : |((val x : ℚ) : K)| ≤ 2 ^ k * |ci| + budget K k a b na nb * 2 ^ k := by
      have : ((val x : ℚ) : K) = (((val x : ℚ) : K) - 2 ^ k * ci) + 2 ^ k * ci := by ring
      rw [this]
      refine le_trans (abs_add_le _ _) ?_
      rw [abs_mul, abs_of_pos hP]
      linarith
    have h2 : |((val x : ℚ) : K)| < ((Bv c.toVariant : ℚ) : K) * 2 ^ k := by
      have := mul_lt_mul_of_pos_right hd hP
      nlinarith
    have h3 : ((|val x| : ℚ) : K) < ((Bv c.toVariant * 2 ^ k : ℚ) : K) := by
      push_cast; exact h2
    exact (Rat.cast_lt (K := K)).1 h3
  obtain ⟨r, hr1, hr2⟩ := toZnx_spec c k hk h.nn h.toVar (stI c k cN sN cNi sNi a b) i hi (by rw [← hx]; exact hf.1)
    (by rw [← hx]; exact hdomQ)
  rw [← hx] at hr2
  refine ⟨r, hr1, ?_⟩
  have hr3 : |(r : K) * 2 ^ k - ((val x : ℚ) : K)| ≤ 2 ^ k / 2 := by
    have := (Rat.cast_le (K := K)).2 hr2
    push_cast at this
    exact this
  have h4 : |(r : K) - ci| * 2 ^ k ≤ (budget K k a b na nb + 1 / 2) * 2 ^ k := by
    have e : ((r : K) - ci) * 2 ^ k = ((r : K) * 2 ^ k - ((val x : ℚ) : K)) + (((val x : ℚ) : K) - 2 ^ k * ci) := by ring
    rw [← abs_of_pos hP, ← abs_mul, e, abs_of_pos hP]
    refine le_trans (abs_add_le _ _) ?_
    linarith
  exact le_of_mul_le_mul_right h4 hP

end Spq.ProdErr
