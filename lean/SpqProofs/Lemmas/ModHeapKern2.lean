/-
  Kernel calls of the VMP entry points (block extraction, dot products, block save), the bridge
  "a kernel call inside a region = `writeAt` on the region's content", and loop simulation.
-/
import SpqProofs.Lemmas.ModHeapLoop
namespace Spq.ModuleHeap
open Spq Heap Module Reim4
variable {γ α : Type}

section kernels
variable (c : Parts α) (cd : Cells γ α) (h : Heap γ)

theorem kExtract1_spec (blk dst src : Nat) (hsrc : src + c.nn ≤ h.mem.size) (hdst : dst + 8 ≤ h.mem.size)
    (hal : dst + 8 ≤ src ∨ src + c.nn ≤ dst) :
    Fr (In dst 8) h (kExtract1 c cd blk dst src h) ∧
    (kExtract1 c cd blk dst src h).readLimb cd.dflt dst 8 =
      (extract1blkFromReimRef c.ar.zero c.m blk (Array.replicate 8 c.ar.zero) (rdD cd h src c.nn)).map cd.enc := by
  unfold kExtract1 wrD
  exact wr_spec h _ cd.dflt dst 8 _ (by simp) (by rw [guard_ok _ _ (disj_of _ _ _ _ hal), tch_ok _ _ _ hsrc])
    (by simp [size_extract1]) hdst

theorem kExtractRows_spec (rows blk dst src : Nat) (hsrc : src + rows * c.nn ≤ h.mem.size)
    (hdst : dst + 8 * rows ≤ h.mem.size) (hal : dst + 8 * rows ≤ src ∨ src + rows * c.nn ≤ dst) :
    Fr (In dst (8 * rows)) h (kExtractRows c cd rows blk dst src h) ∧
    (kExtractRows c cd rows blk dst src h).readLimb cd.dflt dst (8 * rows) =
      (extract1blkFromContiguousReimRef c.ar.zero c.m rows blk (Array.replicate (8 * rows) c.ar.zero)
        (rdD cd h src (rows * c.nn))).map cd.enc := by
  unfold kExtractRows wrD
  exact wr_spec h _ cd.dflt dst (8 * rows) _ (by simp)
    (by rw [guard_ok _ _ (disj_of _ _ _ _ hal), tch_ok _ _ _ hsrc]) (by simp [size_extractRows]) hdst

theorem kProd2_spec (rows nrows out u v : Nat) (hu : u + 8 * rows ≤ h.mem.size) (hv : v + 16 * nrows ≤ h.mem.size)
    (hout : out + 16 ≤ h.mem.size) (hau : out + 16 ≤ u ∨ u + 8 * rows ≤ out) (hav : out + 16 ≤ v ∨ v + 16 * nrows ≤ out) :
    Fr (In out 16) h (kProd2 c cd rows nrows out u v h) ∧
    (kProd2 c cd rows nrows out u v h).readLimb cd.dflt out 16 =
      (prod2 c rows (rdD cd h u (8 * rows)) (rdD cd h v (16 * nrows))).map cd.enc := by
  unfold kProd2 wrD
  exact wr_spec h _ cd.dflt out 16 _ (by simp)
    (by rw [guard_ok _ _ (by simp [disj_of _ _ _ _ hau, disj_of _ _ _ _ hav]), tch_ok _ _ _ (by simpa using hv),
          tch_ok _ _ _ hu])
    (by simp [size_prod2]) hout

theorem kProd1_spec (rows nrows out u v : Nat) (hu : u + 8 * rows ≤ h.mem.size) (hv : v + 8 * nrows ≤ h.mem.size)
    (hout : out + 8 ≤ h.mem.size) (hau : out + 8 ≤ u ∨ u + 8 * rows ≤ out) (hav : out + 8 ≤ v ∨ v + 8 * nrows ≤ out) :
    Fr (In out 8) h (kProd1 c cd rows nrows out u v h) ∧
    (kProd1 c cd rows nrows out u v h).readLimb cd.dflt out 8 =
      (prod1 c rows (rdD cd h u (8 * rows)) (rdD cd h v (8 * nrows))).map cd.enc := by
  unfold kProd1 wrD
  exact wr_spec h _ cd.dflt out 8 _ (by simp)
    (by rw [guard_ok _ _ (by simp [disj_of _ _ _ _ hau, disj_of _ _ _ _ hav]), tch_ok _ _ _ (by simpa using hv),
          tch_ok _ _ _ hu])
    (by simp [size_prod1]) hout

/-- `reim4_save_1blk_to_reim`: two 4-cell stores; `g1` is the state between them -/
theorem kSave_spec (blk dst src : Nat) (hsrc : src + 8 ≤ h.mem.size)
    (h1 : dst + 4 * blk + 4 ≤ h.mem.size) (h2 : dst + c.m + 4 * blk + 4 ≤ h.mem.size)
    (ha1 : dst + 4 * blk + 4 ≤ src ∨ src + 8 ≤ dst + 4 * blk)
    (ha2 : dst + c.m + 4 * blk + 4 ≤ src ∨ src + 8 ≤ dst + c.m + 4 * blk) :
    ∃ g1 : Heap γ,
      Fr (In (dst + 4 * blk) 4) h g1 ∧
      g1.readLimb cd.dflt (dst + 4 * blk) 4 = ((rdD cd h src 8).extract 0 4).map cd.enc ∧
      Fr (In (dst + c.m + 4 * blk) 4) g1 (kSave c cd blk dst src h) ∧
      (kSave c cd blk dst src h).readLimb cd.dflt (dst + c.m + 4 * blk) 4 = ((rdD cd h src 8).extract 4 8).map cd.enc := by
  unfold kSave wrD
  have hs1 : (((rdD cd h src 8).extract 0 4).map cd.enc).size = 4 := by simp
  have hs2 : (((rdD cd h src 8).extract 4 8).map cd.enc).size = 4 := by simp
  obtain ⟨f1, v1⟩ := wr_spec h (guard (disj (dst + 4 * blk) 4 src 8 && disj (dst + c.m + 4 * blk) 4 src 8) (tch src 8 h))
    cd.dflt (dst + 4 * blk) 4 _ (by simp)
    (by rw [guard_ok _ _ (by simp [disj_of _ _ _ _ ha1, disj_of _ _ _ _ ha2]), tch_ok _ _ _ hsrc]) hs1 (by omega)
  refine ⟨_, f1, v1, ?_⟩
  exact wr_spec _ _ cd.dflt (dst + c.m + 4 * blk) 4 _ rfl rfl hs2 (by rw [f1.size]; omega)

end kernels

/-! ### a write inside a region -/

theorem writeAt_eq_writeArr {β : Type} (dst : Array β) (off : Nat) (src : Array β) : Module.writeAt dst off src = writeArr dst off src := rfl

/-- a step that changes only the window `[reg + off, +n)` of the region `[reg, reg + N)` and leaves `V` there
    acts on the region's content as `writeAt · off V` -/
theorem region_step {g g' : Heap γ} (d : γ) (reg N off n : Nat) (V : Array γ)
    (f : Fr (In (reg + off) n) g g') (v : g'.readLimb d (reg + off) n = V) (_hin : off + n ≤ N)
    (_hb : reg + N ≤ g.mem.size) :
    g'.readLimb d reg N = Module.writeAt (g.readLimb d reg N) off V := by
  have hV : V.size = n := by rw [← v]; simp
  apply Array.ext
  · simp
  · intro i h1 h2
    simp only [size_readLimb] at h1
    rw [← Option.some_inj, ← Array.getElem?_eq_getElem, ← Array.getElem?_eq_getElem, writeAt_eq_writeArr, getElem?_writeArr]
    simp only [size_readLimb, hV]
    by_cases hw : off ≤ i ∧ i < off + n
    · rw [if_pos (by omega)]
      have : (g'.readLimb d (reg + off) n)[i - off]? = V[i - off]? := by rw [v]
      rw [← this, getElem?_readLimb _ _ _ _ _ h1, getElem?_readLimb _ _ _ _ _ (by omega)]
      congr 2; omega
    · rw [if_neg (by omega), getElem?_readLimb _ _ _ _ _ h1, getElem?_readLimb _ _ _ _ _ h1]
      simp only [Array.getD_eq_getD_getElem?]
      rw [f.out (reg + i) (by unfold In; omega)]

/-- the same when the window is not inside the region at all -/
theorem region_keep {W : Nat → Prop} {g g' : Heap γ} (d : γ) (reg N : Nat) (f : Fr W g g')
    (hd : ∀ x, In reg N x → ¬ W x) : g'.readLimb d reg N = g.readLimb d reg N :=
  readLimb_of_fr f d reg N hd

/-! ### simulation of a heap loop by a functional fold -/

theorem loop_sim {β : Type} (P : Heap γ → β → Prop) (n : Nat) (body : Nat → Heap γ → Heap γ) (fb : β → Nat → β)
    (h : Heap γ) (b : β) (h0 : P h b) (hs : ∀ i g r, i < n → P g r → P (body i g) (fb r i)) :
    P (loop n body h) ((List.range n).foldl fb b) := by
  unfold loop
  induction n with
  | zero => exact h0
  | succ n ih =>
    rw [List.range_succ, List.foldl_append, List.foldl_append]
    exact hs n _ _ (by omega) (ih (fun i g r hi => hs i g r (by omega)))

end Spq.ModuleHeap
