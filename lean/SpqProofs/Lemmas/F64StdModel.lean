/-
  The standard model restricted to a set of exact results (`StdModelOn`), the guarded arithmetic that turns it into
  agent H's unconditional `StdModel` (`RArith.guard`), and the instance for binary64: the arithmetic `arQ` on ℚ
  (`op = rnd ∘ exact op`) satisfies `StdModelOn arQ 2^-53 GoodQ`, `GoodQ q` = multiple of 2^-2148 in the normal range.

  An unconditional `StdModel arQ 2^-53` is impossible: `rnd (2^-1074 · 2^-1)` = 0 (underflow: relative error 1), and
  `rnd` of a value ≥ 2^1024·(1−2^-54) is the value decoded from the `inf` pattern.
-/
import SpqProofs.Lemmas.F64StdRnd
import SpqProofs.Lemmas.Reim4Err

namespace Spq
variable {K : Type} [Field K] [LinearOrder K] [IsStrictOrderedRing K]

/-- the standard model of floating-point arithmetic with unit roundoff `u`, for exact results in `P` -/
structure StdModelOn (ar : RArith K) (u : K) (P : K → Prop) : Prop where
  u_nonneg : 0 ≤ u
  zero : ar.zero = 0
  add : ∀ a b, P (a + b) → |ar.add a b - (a + b)| ≤ u * |a + b|
  sub : ∀ a b, P (a - b) → |ar.sub a b - (a - b)| ≤ u * |a - b|
  mul : ∀ a b, P (a * b) → |ar.mul a b - a * b| ≤ u * |a * b|
  fma : ∀ a b c, P (a * b + c) → |ar.fma a b c - (a * b + c)| ≤ u * |a * b + c|
  fms : ∀ a b c, P (a * b - c) → |ar.fms a b c - (a * b - c)| ≤ u * |a * b - c|

omit [IsStrictOrderedRing K] in
theorem StdModel.on {ar : RArith K} {u : K} (h : StdModel ar u) (P : K → Prop) : StdModelOn ar u P :=
  ⟨h.u_nonneg, h.zero, fun a b _ => h.add a b, fun a b _ => h.sub a b, fun a b _ => h.mul a b,
    fun a b c _ => h.fma a b c, fun a b c _ => h.fms a b c⟩

/-- `x` if `p`, else `y` (classical) -/
noncomputable def gd (p : Prop) (x y : K) : K := @ite K p (Classical.propDecidable p) x y

omit [Field K] [LinearOrder K] [IsStrictOrderedRing K] in
theorem gd_pos {p : Prop} (h : p) (x y : K) : gd p x y = x := by unfold gd; rw [if_pos h]

/-- `ar` where the exact result is in `P`, the exact operation elsewhere -/
noncomputable def RArith.guard (ar : RArith K) (P : K → Prop) : RArith K where
  zero := ar.zero
  add := fun a b => gd (P (a + b)) (ar.add a b) (a + b)
  sub := fun a b => gd (P (a - b)) (ar.sub a b) (a - b)
  mul := fun a b => gd (P (a * b)) (ar.mul a b) (a * b)
  fma := fun a b c => gd (P (a * b + c)) (ar.fma a b c) (a * b + c)
  fms := fun a b c => gd (P (a * b - c)) (ar.fms a b c) (a * b - c)

theorem guard_aux {u x y : K} {p : Prop} (hu : 0 ≤ u) (h : p → |x - y| ≤ u * |y|) :
    |gd p x y - y| ≤ u * |y| := by
  unfold gd
  split
  · rename_i hp; exact h hp
  · rw [sub_self, abs_zero]; exact mul_nonneg hu (abs_nonneg _)

/-- the guarded arithmetic satisfies the unconditional standard model: all of agent H's theorems apply to it -/
theorem StdModelOn.guard {ar : RArith K} {u : K} {P : K → Prop} (h : StdModelOn ar u P) :
    StdModel (ar.guard P) u where
  u_nonneg := h.u_nonneg
  zero := h.zero
  add := fun a b => guard_aux h.u_nonneg (h.add a b)
  sub := fun a b => guard_aux h.u_nonneg (h.sub a b)
  mul := fun a b => guard_aux h.u_nonneg (h.mul a b)
  fma := fun a b c => guard_aux h.u_nonneg (h.fma a b c)
  fms := fun a b c => guard_aux h.u_nonneg (h.fms a b c)

namespace F64

/-- binary64 arithmetic on exact rational values: every operation is `rnd` of the exact result -/
def arQ : RArith ℚ where
  zero := 0
  add := fun a b => rnd (a + b)
  sub := fun a b => rnd (a - b)
  mul := fun a b => rnd (a * b)
  fma := fun a b c => rnd (a * b + c)
  fms := fun a b c => rnd (a * b - c)

/-- exact results on which `rnd` is a faithful binary64 rounding with relative error `2^-53` -/
def GoodQ (q : ℚ) : Prop := Dyadic q ∧ NormalRange q

theorem rnd_good {q : ℚ} (h : GoodQ q) : |rnd q - q| ≤ u64 * |q| :=
  (rnd_std q h.1 h.2.noOvf).1 h.2

/-- **binary64 satisfies the standard model with `u = 2^-53` on the normal range** -/
theorem arQ_stdModelOn : StdModelOn arQ u64 GoodQ where
  u_nonneg := le_of_lt u64_pos
  zero := rfl
  add := fun _ _ h => rnd_good h
  sub := fun _ _ h => rnd_good h
  mul := fun _ _ h => rnd_good h
  fma := fun _ _ _ h => rnd_good h
  fms := fun _ _ _ h => rnd_good h

/-- underflow: half of the smallest subnormal rounds (tie, to even) to 0 -/
theorem rnd_underflow : rnd ((2 : ℚ) ^ (-1075 : ℤ)) = 0 := by
  have h := rnd_scaled 1 (-1075) (by norm_num) false
  rw [Int.cast_one, one_mul] at h
  rw [h, packSigned_ne_zero (by norm_num)]
  have : pack (decide ((1 : Int) < 0)) (1 : Int).natAbs (-1075) = 0 := by decide +kernel
  rw [this]
  exact val_sgn false

/-- hence `arQ` does not satisfy the unconditional standard model (for any `u < 1`) -/
theorem arQ_not_stdModel (u : ℚ) (hu : u < 1) : ¬ StdModel arQ u := by
  intro sm
  have h := sm.mul ((2 : ℚ) ^ (-1074 : ℤ)) ((2 : ℚ) ^ (-1 : ℤ))
  have e : (2 : ℚ) ^ (-1074 : ℤ) * 2 ^ (-1 : ℤ) = 2 ^ (-1075 : ℤ) := by
    rw [← zpow_add₀ (by norm_num)]; norm_num
  have hm : arQ.mul ((2 : ℚ) ^ (-1074 : ℤ)) ((2 : ℚ) ^ (-1 : ℤ)) = 0 := by
    show rnd _ = 0
    rw [e]; exact rnd_underflow
  rw [hm, e, zero_sub, abs_neg] at h
  have hp : (0 : ℚ) < |(2 : ℚ) ^ (-1075 : ℤ)| := abs_pos.2 (ne_of_gt (zpow_pos (by norm_num) _))
  generalize |(2 : ℚ) ^ (-1075 : ℤ)| = X at *
  nlinarith

/-- `arQ` guarded by `GoodQ` -/
noncomputable def arG : RArith ℚ := arQ.guard GoodQ

theorem arG_stdModel : StdModel arG u64 := arQ_stdModelOn.guard

/-- `val` is a homomorphism from the bit-level arithmetic to `arQ` (patterns `< 2^64`) -/
theorem val_arith_hom :
    val F64.arith.zero = arQ.zero ∧
    (∀ a b, val (F64.arith.add a b) = arQ.add (val a) (val b)) ∧
    (∀ a b, b < 18446744073709551616 → val (F64.arith.sub a b) = arQ.sub (val a) (val b)) ∧
    (∀ a b, val (F64.arith.mul a b) = arQ.mul (val a) (val b)) ∧
    (∀ a b c, val (F64.arith.fma a b c) = arQ.fma (val a) (val b) (val c)) ∧
    (∀ a b c, c < 18446744073709551616 → val (F64.arith.fms a b c) = arQ.fms (val a) (val b) (val c)) :=
  ⟨val_sgn false, val_add, val_sub, val_mul, val_fma, val_fms⟩

end F64
end Spq
