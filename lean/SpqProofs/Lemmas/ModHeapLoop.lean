/-
  The limb loop of the heap-level module model (one `nn`-cell window of the result per iteration, possibly some
  extra cells `J i` elsewhere), and "a region is known when each of its limbs is known".
-/
import SpqProofs.Lemmas.ModHeapKern
namespace Spq.ModuleHeap
open Spq Heap Module Reim4
variable {γ α : Type}

theorem succ_mul' (i n : Nat) : (i + 1) * n = i * n + n := by rw [Nat.add_mul, Nat.one_mul]

theorem mul_step (p p' n : Nat) (h : p < p') : p * n + n ≤ p' * n := by
  have : (p + 1) * n ≤ p' * n := Nat.mul_le_mul_right n h
  rw [succ_mul'] at this
  exact this

theorem mul_le' (p p' n : Nat) (h : p ≤ p') : p * n ≤ p' * n := Nat.mul_le_mul_right n h

/-- iteration `i` changes the window `[res + i*nn, +nn)` (and possibly cells `J i` that are not in any earlier
    window) and leaves `V i` in the window, whatever the earlier iterations did inside their windows -/
theorem limbLoop (nn res n : Nat) (body : Nat → Heap γ → Heap γ) (h : Heap γ) (d : γ) (V : Nat → Array γ)
    (J : Nat → Nat → Prop)
    (hJ : ∀ i j x, j < i → i < n → J i x → ¬ In (res + j * nn) nn x)
    (hstep : ∀ i g, i < n → Fr (fun x => In res (i * nn) x ∨ ∃ j, j < i ∧ J j x) h g →
      Fr (fun x => In (res + i * nn) nn x ∨ J i x) g (body i g) ∧ (body i g).readLimb d (res + i * nn) nn = V i) :
    Fr (fun x => In res (n * nn) x ∨ ∃ j, j < n ∧ J j x) h (loop n body h) ∧
    ∀ i, i < n → (loop n body h).readLimb d (res + i * nn) nn = V i := by
  apply loop_inv (fun i g => Fr (fun x => In res (i * nn) x ∨ ∃ j, j < i ∧ J j x) h g ∧
      ∀ j, j < i → g.readLimb d (res + j * nn) nn = V j)
  · exact ⟨(Fr.refl _ h), fun j hj => by omega⟩
  · intro i g hi ⟨f, hv⟩
    obtain ⟨f1, v1⟩ := hstep i g hi f
    refine ⟨(f.trans f1).mono ?_, ?_⟩
    · intro x hx
      rw [succ_mul']
      rcases hx with (hx | ⟨j, hj, hx⟩) | hx | hx
      · left; unfold In at *; omega
      · right; exact ⟨j, by omega, hx⟩
      · left; unfold In at *; omega
      · right; exact ⟨i, by omega, hx⟩
    · intro j hj
      by_cases e : j = i
      · subst e; exact v1
      · have hlt : j < i := by omega
        rw [readLimb_of_fr f1 d _ _ ?_]
        · exact hv j hlt
        · intro x hx hw
          rcases hw with hw | hw
          · have := mul_step j i nn hlt
            unfold In at *; omega
          · exact hJ i j x hlt hi hw hx

/-- two arrays of `n` limbs of `w` cells are equal when their limbs are -/
theorem limbs_ext {β : Type} (A B : Array β) (n w : Nat) (hA : A.size = n * w) (hB : B.size = n * w)
    (hl : ∀ i, i < n → A.extract (i * w) (i * w + w) = B.extract (i * w) (i * w + w)) : A = B := by
  apply Array.ext
  · rw [hA, hB]
  · intro x h1 h2
    have hw : 0 < w := by
      rcases Nat.eq_zero_or_pos w with e | e
      · subst e; simp at hA; omega
      · exact e
    have hi : x / w < n := by
      rw [Nat.div_lt_iff_lt_mul hw]; omega
    have hk : x % w < w := Nat.mod_lt _ hw
    have hx : x / w * w + x % w = x := by rw [Nat.mul_comm]; exact Nat.div_add_mod x w
    have hs := mul_step (x / w) n w hi
    have := congrArg (fun (a : Array β) => a[x % w]?) (hl (x / w) hi)
    simp only [Array.getElem?_extract] at this
    rw [if_pos (by omega), if_pos (by omega), hx] at this
    rw [Array.getElem?_eq_getElem h1, Array.getElem?_eq_getElem h2] at this
    exact Option.some.inj this

/-- a region whose limbs are known -/
theorem region_of_limbs (g : Heap γ) (d : γ) (res n w : Nat) (X : Array γ) (hX : X.size = n * w)
    (hl : ∀ i, i < n → g.readLimb d (res + i * w) w = X.extract (i * w) (i * w + w)) :
    g.readLimb d res (n * w) = X := by
  apply limbs_ext _ _ n w (by simp) hX
  intro i hi
  rw [readLimb_extract _ _ _ _ _ _ (mul_step i n w hi)]
  exact hl i hi

theorem extract_map {β δ : Type} (f : β → δ) (a : Array β) (s e : Nat) : (a.map f).extract s e = (a.extract s e).map f := by
  apply Array.ext
  · simp
  · intro i h1 h2
    simp

theorem extract_replicate {β : Type} (n s k : Nat) (z : β) (h : s + k ≤ n) :
    (Array.replicate n z).extract s (s + k) = Array.replicate k z := by
  apply Array.ext
  · simp; omega
  · intro i h1 h2
    simp

theorem sub_mul_add (i s n : Nat) (h : s ≤ i) : s * n + (i - s) * n = i * n := by
  rw [← Nat.add_mul]; congr 1; omega

/-- the result region of a limb-vector entry point: `smin` computed limbs followed by a zeroed tail -/
theorem region_assemble (g g' : Heap γ) (d : γ) (res rsz smin nn : Nat) (hsm : smin ≤ rsz) (V : Nat → Array γ) (zc : γ)
    (X : Array γ) (hX : X.size = rsz * nn)
    (hv : ∀ i, i < smin → g.readLimb d (res + i * nn) nn = V i)
    (fz : Fr (In (res + smin * nn) ((rsz - smin) * nn)) g g')
    (vz : g'.readLimb d (res + smin * nn) ((rsz - smin) * nn) = Array.replicate ((rsz - smin) * nn) zc)
    (hX1 : ∀ i, i < smin → X.extract (i * nn) (i * nn + nn) = V i)
    (hX2 : ∀ i, smin ≤ i → i < rsz → X.extract (i * nn) (i * nn + nn) = Array.replicate nn zc) :
    g'.readLimb d res (rsz * nn) = X := by
  apply region_of_limbs g' d res rsz nn X hX
  intro i hi
  by_cases hlt : i < smin
  · rw [hX1 i hlt, ← hv i hlt]
    apply readLimb_of_fr fz
    intro x hx hw
    have := mul_step i smin nn hlt
    unfold In at *; omega
  · have hge : smin ≤ i := by omega
    rw [hX2 i hge hi]
    have e := sub_mul_add i smin nn hge
    have e2 := sub_mul_add rsz smin nn hsm
    have hs := mul_step (i - smin) (rsz - smin) nn (by omega)
    have := readLimb_extract g' d (res + smin * nn) ((rsz - smin) * nn) ((i - smin) * nn) nn hs
    rw [vz, extract_replicate _ _ _ _ hs] at this
    rw [this]
    congr 1; omega

/-- the shape in which the property theorems are stated: flag, size, frame, content of the result region -/
theorem final_form {W : Nat → Prop} {h g : Heap γ} (f : Fr W h g) (d : γ) (p n : Nat) (X : Array γ)
    (hb : p + n ≤ h.mem.size) (v : g.readLimb d p n = X) :
    g.ok = h.ok ∧ g.mem.size = h.mem.size ∧ (∀ x, ¬ W x → g.mem[x]? = h.mem[x]?) ∧ g.mem.extract p (p + n) = X := by
  refine ⟨f.ok, f.size, f.out, ?_⟩
  rw [← v, readLimb_eq_extract _ _ _ _ (by rw [f.size]; exact hb)]

end Spq.ModuleHeap
