/-
  C06.4: the structural network `VN (gNet F c s k)` over an ordered field, with butterflies satisfying the
  standard model and stored twiddles within `τ` of the exact roots, is within `(1+η)^k − 1` of the exact network `V`.
-/
import SpqProofs.Lemmas.FftErrSchedLift
set_option linter.unusedSectionVars false
namespace Spq.FftErr
open Finset Spq.Fft Spq.Fft.Alg Spq.Fft.SimP Spq.Fft.LevelN Spq.Fft.SchedN
variable {K : Type} [Field K] [LinearOrder K] [IsStrictOrderedRing K]

/-- pair ↦ complex number -/
def toC (p : K × K) : Cplx K := ⟨p.1, p.2⟩

/-- every butterfly of a forward implementation has 2-norm relative error `η` (stored twiddle within `τ`) -/
structure FwdErrOK (F : Flav K) (τ η : K) : Prop where
  ct : ∀ wh w : Cplx K, nsq w = 1 → nsq (wh - w) ≤ τ ^ 2 → BfErrAt (fun a b => bfC F.ct a b wh) w η
  cit : ∀ wh w : Cplx K, nsq w = 1 → nsq (wh - w) ≤ τ ^ 2 → BfErrAt (fun a b => bfC F.cit a b wh) (Ic * w) η
  ctS : ∀ wh w : Cplx K, nsq w = 1 → nsq (wh - w) ≤ τ ^ 2 → BfErrAt (fun a b => bfC F.ctS a b wh) w η
  citS : ∀ wh w : Cplx K, nsq w = 1 → nsq (wh - w) ≤ τ ^ 2 → BfErrAt (fun a b => bfC F.citS a b wh) (Ic * w) η
  ct2 : ∀ wh w : Cplx K, nsq w = 1 → nsq (wh - w) ≤ τ ^ 2 → BfErrAt (fun a b => bfC F.ct2 a b wh) w η

theorem fwdRef_errOK (A : Arith K) (u τ : K) (sm : FStd A u) (hτ : 0 ≤ τ) : FwdErrOK (fwdRef A) τ (eta u τ) :=
  ⟨fun wh w => butterfly_err_ref A u τ sm hτ wh w, fun wh w => butterfly_err_cit_ref A u τ sm hτ wh w,
   fun wh w => butterfly_err_ref A u τ sm hτ wh w, fun wh w => butterfly_err_cit_ref A u τ sm hτ wh w,
   fun wh w => butterfly_err_ref A u τ sm hτ wh w⟩

theorem fwdFma_errOK (A : Arith K) (u τ : K) (sm : FStd A u) (hτ : 0 ≤ τ) : FwdErrOK (fwdFma A) τ (eta u τ) :=
  ⟨fun wh w => butterfly_err_fma A u τ sm hτ wh w, fun wh w => butterfly_err_cit_fmaB A u τ sm hτ wh w,
   fun wh w => butterfly_err_fma A u τ sm hτ wh w, fun wh w => butterfly_err_cit_fmaN A u τ sm hτ wh w,
   fun wh w => butterfly_err_ref A u τ sm hτ wh w⟩

/-- the per-block butterflies on complex numbers -/
def gC (F : Flav K) (c s : ℕ → K) (k ℓ d b : ℕ) (x y : Cplx K) : Cplx K × Cplx K :=
  (toC (gNet F c s k ℓ d b (x.re, x.im) (y.re, y.im)).1, toC (gNet F c s k ℓ d b (x.re, x.im) (y.re, y.im)).2)

/-- `VH` (agent M's computed network) with the butterflies `gC` is the structural network `VN` -/
theorem VH_eq_VN (F : Flav K) (c s : ℕ → K) (k : ℕ) (a : ℕ → K × K) :
    ∀ ℓ d p, VH (gC F c s k) (fun p => toC (a p)) ℓ d p = toC (VN (gNet F c s k) a ℓ d p) := by
  intro ℓ
  induction ℓ with
  | zero => intro d p; rfl
  | succ ℓ ih =>
    intro d p
    rw [VH, VN, LvlH]
    split
    · rw [ih, ih]; rfl
    · rw [ih, ih]; rfl

theorem bfV_eq_bfC (f : Bf K) (wr wi : K) (x y : Cplx K) :
    (toC (bfV f wr wi (x.re, x.im) (y.re, y.im)).1, toC (bfV f wr wi (x.re, x.im) (y.re, y.im)).2) = bfC f x y ⟨wr, wi⟩ := rfl

variable (F : Flav K) (c s : ℕ → K) (k : ℕ) (ζ : Cplx K) (τ η : K)

/-- every block butterfly of the network has relative error `η` around the exact twiddle of its block -/
theorem gC_err (hF : FwdErrOK F τ η) (hζ : nsq ζ = 1) (hI : ζ ^ 2 ^ k = Ic)
    (hcs : ∀ ℓ d b, ℓ + d + 1 = k → b < 2 ^ ℓ →
      nsq ((⟨c (twE ℓ d b), s (twE ℓ d b)⟩ : Cplx K) - ζ ^ twE ℓ d b) ≤ τ ^ 2) (ℓ d b : ℕ) (hk : ℓ + d + 1 = k) (hb : b < 2 ^ ℓ) :
    BfErrAt (gC F c s k ℓ d b) (ζ ^ twE ℓ d b) η := by
  have hw : ∀ e, nsq (ζ ^ e) = 1 := fun e => by rw [nsq_pow, hζ, one_pow]
  have hct : ∀ wh w : Cplx K, nsq w = 1 → nsq (wh - w) ≤ τ ^ 2 → BfErrAt (fun a b => bfC (ctK F k) a b wh) w η := by
    unfold ctK; split <;> [exact hF.ct2; (split <;> [exact hF.ctS; exact hF.ct])]
  have hcit : ∀ wh w : Cplx K, nsq w = 1 → nsq (wh - w) ≤ τ ^ 2 →
      BfErrAt (fun a b => bfC (citK F k) a b wh) (Ic * w) η := by
    unfold citK; split <;> [exact hF.citS; exact hF.cit]
  by_cases hc : (clv (k - ℓ) && b % 2 == 1) = true
  · have hodd : b % 2 = 1 := by simp at hc; exact hc.2
    obtain ⟨b', rfl⟩ : ∃ b', b = 2 * b' + 1 := ⟨b / 2, by omega⟩
    obtain ⟨ℓ', rfl⟩ : ∃ ℓ', ℓ = ℓ' + 1 := by
      cases ℓ with
      | zero => simp at hb
      | succ n => exact ⟨n, rfl⟩
    have e : gC F c s k (ℓ' + 1) d (2 * b' + 1) = fun x y => bfC (citK F k) x y ⟨c (twE (ℓ' + 1) d (2 * b')), s (twE (ℓ' + 1) d (2 * b'))⟩ := by
      funext x y
      unfold gC gNet
      rw [if_pos hc, show 2 * b' + 1 - 1 = 2 * b' by omega]
      rfl
    rw [e, Tw.twE_odd ζ Ic k ℓ' d b' hI (by omega)]
    exact hcit _ _ (hw _) (hcs (ℓ' + 1) d (2 * b') hk (by omega))
  · have e : gC F c s k ℓ d b = fun x y => bfC (ctK F k) x y ⟨c (twE ℓ d b), s (twE ℓ d b)⟩ := by
      funext x y
      unfold gC gNet
      rw [if_neg hc]
      rfl
    rw [e]
    exact hct _ _ (hw _) (hcs ℓ d b hk hb)

/-- **network error**: the structural network of one forward transform against the exact level network -/
theorem netN_err (hF : FwdErrOK F τ η) (hη : 0 ≤ η) (hζ : nsq ζ = 1) (hI : ζ ^ 2 ^ k = Ic)
    (hcs : ∀ ℓ d b, ℓ + d + 1 = k → b < 2 ^ ℓ →
      nsq ((⟨c (twE ℓ d b), s (twE ℓ d b)⟩ : Cplx K) - ζ ^ twE ℓ d b) ≤ τ ^ 2) (a : ℕ → K × K) :
    ∑ p ∈ range (2 ^ k), nsq (toC (VN (gNet F c s k) a k 0 p) - V ζ (fun p => toC (a p)) k 0 p) ≤
      ((1 + η) ^ k - 1) ^ 2 * ∑ p ∈ range (2 ^ k), nsq (V ζ (fun p => toC (a p)) k 0 p) := by
  have := net_err ζ hζ (fun p => toC (a p)) η hη k (gC F c s k)
    (fun ℓ d b h1 h2 => gC_err F c s k ζ τ η hF hζ hI hcs ℓ d b h1 h2) k 0 (by omega)
  simp only [VH_eq_VN] at this
  exact this

end Spq.FftErr
