/-
  Loops of independent cell updates (`for (j = lo; j < hi; j += step) …`) used by the special cases of
  the in-place automorphism.
-/
import SpqProofs.Lemmas.CoeffsBasic
import Mathlib.Data.List.Nodup
namespace Spq.Rq
open Spq
variable {α : Type}

theorem mem_stepRange (lo hi step j : Nat) (hs : 0 < step) :
    j ∈ Coeffs.stepRange lo hi step ↔ ∃ t, j = lo + t * step ∧ j < hi := by
  unfold Coeffs.stepRange
  rw [if_neg (by omega)]
  simp only [List.mem_map, List.mem_range]
  have key : ∀ t, t < (hi - lo + step - 1) / step ↔ lo + t * step < hi := by
    intro t
    rw [show t < (hi - lo + step - 1) / step ↔ t + 1 ≤ (hi - lo + step - 1) / step from Iff.rfl,
      Nat.le_div_iff_mul_le hs, Nat.succ_mul]
    omega
  constructor
  · rintro ⟨t, ht, rfl⟩
    exact ⟨t, rfl, (key t).1 ht⟩
  · rintro ⟨t, rfl, h⟩
    exact ⟨t, (key t).2 h, rfl⟩

theorem nodup_stepRange (lo hi step : Nat) (hs : 0 < step) : (Coeffs.stepRange lo hi step).Nodup := by
  unfold Coeffs.stepRange
  rw [if_neg (by omega)]
  refine List.Nodup.map ?_ List.nodup_range
  intro a b h
  have h' : a * step = b * step := by simpa using h
  exact Nat.eq_of_mul_eq_mul_right hs h'

/-- a loop updating one cell per index -/
theorem fold_single (F : α → α) (z : α) (l : List Nat) (hnd : l.Nodup) :
    ∀ (r0 : Array α), (∀ j ∈ l, j < r0.size) →
      (l.foldl (fun r j => r.setIfInBounds j (F (r.getD j z))) r0).size = r0.size ∧
      (∀ j ∈ l, (l.foldl (fun r j => r.setIfInBounds j (F (r.getD j z))) r0).getD j z = F (r0.getD j z)) ∧
      (∀ x, x ∉ l → (l.foldl (fun r j => r.setIfInBounds j (F (r.getD j z))) r0).getD x z = r0.getD x z) := by
  induction l with
  | nil => intro r0 _; simp
  | cons a l ih =>
    intro r0 hb
    rw [List.nodup_cons] at hnd
    have hb' : ∀ j ∈ l, j < (r0.setIfInBounds a (F (r0.getD a z))).size := by
      intro j hj; simp; exact hb j (List.mem_cons_of_mem _ hj)
    obtain ⟨h1, h2, h3⟩ := ih hnd.2 (r0.setIfInBounds a (F (r0.getD a z))) hb'
    rw [List.foldl_cons]
    refine ⟨by rw [h1]; simp, ?_, ?_⟩
    · intro j hj
      rcases List.mem_cons.1 hj with rfl | hj
      · rw [h3 j hnd.1, getD_setIfInBounds, if_pos ⟨rfl, hb j (List.mem_cons_self)⟩]
      · rw [h2 j hj, getD_setIfInBounds]
        have : a ≠ j := fun h => hnd.1 (h ▸ hj)
        rw [if_neg (fun h => this h.1)]
    · intro x hx
      rw [List.mem_cons, not_or] at hx
      rw [h3 x hx.2, getD_setIfInBounds, if_neg (fun h => hx.1 h.1.symm)]

/-- a loop updating the two cells `j`, `κ j` per index from their old contents -/
theorem fold_pairs (κ : Nat → Nat) (F1 F2 : α → α → α) (z : α) (l : List Nat) (hnd : l.Nodup)
    (hcross : ∀ j ∈ l, ∀ j' ∈ l, κ j ≠ j')
    (hκ : ∀ j ∈ l, ∀ j' ∈ l, κ j = κ j' → j = j') :
    ∀ (r0 : Array α), (∀ j ∈ l, j < r0.size ∧ κ j < r0.size) →
      let step := fun (r : Array α) j =>
        (r.setIfInBounds j (F1 (r.getD j z) (r.getD (κ j) z))).setIfInBounds (κ j)
          (F2 (r.getD j z) (r.getD (κ j) z))
      (l.foldl step r0).size = r0.size ∧
      (∀ j ∈ l, (l.foldl step r0).getD j z = F1 (r0.getD j z) (r0.getD (κ j) z) ∧
                (l.foldl step r0).getD (κ j) z = F2 (r0.getD j z) (r0.getD (κ j) z)) ∧
      (∀ x, (∀ j ∈ l, x ≠ j ∧ x ≠ κ j) → (l.foldl step r0).getD x z = r0.getD x z) := by
  induction l with
  | nil => intro r0 _; simp
  | cons a l ih =>
    intro r0 hb step
    rw [List.nodup_cons] at hnd
    have ha := hb a List.mem_cons_self
    have hself : κ a ≠ a := hcross a List.mem_cons_self a List.mem_cons_self
    have hb' : ∀ j ∈ l, j < (step r0 a).size ∧ κ j < (step r0 a).size := by
      intro j hj; simp [step]; exact hb j (List.mem_cons_of_mem _ hj)
    obtain ⟨h1, h2, h3⟩ := ih hnd.2
      (fun j hj j' hj' => hcross j (List.mem_cons_of_mem _ hj) j' (List.mem_cons_of_mem _ hj'))
      (fun j hj j' hj' => hκ j (List.mem_cons_of_mem _ hj) j' (List.mem_cons_of_mem _ hj'))
      (step r0 a) hb'
    rw [List.foldl_cons]
    -- values of `step r0 a`
    have sa : (step r0 a).getD a z = F1 (r0.getD a z) (r0.getD (κ a) z) := by
      simp only [step]
      rw [getD_setIfInBounds, if_neg (fun h => hself h.1), getD_setIfInBounds, if_pos ⟨rfl, ha.1⟩]
    have sk : (step r0 a).getD (κ a) z = F2 (r0.getD a z) (r0.getD (κ a) z) := by
      simp only [step]
      rw [getD_setIfInBounds, if_pos ⟨rfl, by simpa using ha.2⟩]
    have so : ∀ x, x ≠ a → x ≠ κ a → (step r0 a).getD x z = r0.getD x z := by
      intro x hx1 hx2
      simp only [step]
      rw [getD_setIfInBounds, if_neg (fun h => hx2 h.1.symm), getD_setIfInBounds,
        if_neg (fun h => hx1 h.1.symm)]
    refine ⟨by rw [h1]; simp [step], ?_, ?_⟩
    · intro j hj
      rcases List.mem_cons.1 hj with rfl | hj
      · have n1 : ∀ j' ∈ l, j ≠ j' ∧ j ≠ κ j' := fun j' hj' =>
          ⟨fun h => hnd.1 (h ▸ hj'), fun h => hcross j' (List.mem_cons_of_mem _ hj') j List.mem_cons_self h.symm⟩
        have n2 : ∀ j' ∈ l, κ j ≠ j' ∧ κ j ≠ κ j' := fun j' hj' =>
          ⟨hcross j List.mem_cons_self j' (List.mem_cons_of_mem _ hj'),
           fun h => hnd.1 ((hκ j List.mem_cons_self j' (List.mem_cons_of_mem _ hj') h) ▸ hj')⟩
        rw [h3 j n1, h3 (κ j) n2, sa, sk]
        exact ⟨rfl, rfl⟩
      · have ja : j ≠ a := fun h => hnd.1 (h ▸ hj)
        have jk : j ≠ κ a := fun h => hcross a List.mem_cons_self j (List.mem_cons_of_mem _ hj) h.symm
        have kja : κ j ≠ a := hcross j (List.mem_cons_of_mem _ hj) a List.mem_cons_self
        have kjk : κ j ≠ κ a := fun h => ja (hκ j (List.mem_cons_of_mem _ hj) a List.mem_cons_self h)
        obtain ⟨v1, v2⟩ := h2 j hj
        rw [v1, v2, so j ja jk, so (κ j) kja kjk]
        exact ⟨rfl, rfl⟩
    · intro x hx
      have hxa := hx a List.mem_cons_self
      rw [h3 x (fun j hj => hx j (List.mem_cons_of_mem _ hj)), so x hxa.1 hxa.2]

end Spq.Rq
