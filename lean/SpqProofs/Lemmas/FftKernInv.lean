/-
  C06: the inverse kernels on arrays, with the conjugate twiddles at the table positions they read, take their
  block of the level network up by 1, 2, 4 levels (and multiply by 2, 4, 16).
-/
import SpqProofs.Lemmas.FftKern
import SpqProofs.Lemmas.FftLevelInv
set_option linter.unusedSectionVars false
namespace Spq.Fft.Kern
open Spq.Fft Spq.Fft.Alg Spq.Fft.View Spq.Fft.Level Spq.Fft.Sim Spq.Fft.Tab Spq.Fft.Tw

variable {R : Type} [CommRing R] [Inhabited R]

/-- every butterfly of an inverse implementation is exact -/
structure InvOK (I : R) (F : Flav R) : Prop where
  ct : ∀ wr wi, Realises I F.ct wr wi iφ (iψ (wr + I * wi))
  cit : ∀ wr wi, Realises I F.cit wr wi iφ (iψ (-I * (wr + I * wi)))
  ctS : ∀ wr wi, Realises I F.ctS wr wi iφ (iψ (wr + I * wi))
  citS : ∀ wr wi, Realises I F.citS wr wi iφ (iψ (-I * (wr + I * wi)))
  ct2 : ∀ wr wi, Realises I F.ct2 wr wi iφ (iψ (wr + I * wi))

theorem invRef_ok (I : R) (hI : I * I = -1) : InvOK I (invRef ringA) :=
  ⟨ictRef_real I hI, icitRef_real I hI, ictRef_real I hI, icitRef_real I hI, ictRef_real I hI⟩
theorem invFma_ok (I : R) (hI : I * I = -1) : InvOK I (invFma ringA) :=
  ⟨ictFma_real I hI, icitFmaB_real I hI, ictFma_real I hI, icitFmaN_real I hI, ictRef_real I hI⟩

/-- the extra data of the inverse transform: `ζi = ζ⁻¹`, and the table holds `(cos, −sin)` -/
structure ICtx (R : Type) [CommRing R] extends Ctx R where
  ζi : R
  hζi : ζ * ζi = 1
  hcsi : ∀ e, c e - I * s e = ζi ^ e

variable (Y : ICtx R)

theorem inv_pow (e : ℕ) : Y.ζ ^ e * Y.ζi ^ e = 1 := by rw [← mul_pow, Y.hζi, one_pow]

theorem inv_odd (ℓ d c : ℕ) (hk : Y.k = ℓ + 1 + d + 1) :
    Y.ζ ^ twE (ℓ + 1) d (2 * c + 1) * (-Y.I * Y.ζi ^ twE (ℓ + 1) d (2 * c)) = 1 := by
  rw [twE_odd Y.ζ Y.I Y.k ℓ d c Y.hI hk]
  have h1 := inv_pow Y (twE (ℓ + 1) d (2 * c))
  have h2 := Y.hI2
  linear_combination (-(Y.I * Y.I)) * h1 - h2

/-- inverse `twPass` -/
theorem itwPass_adv (f : Bf R) (hf : ∀ wr wi, Realises Y.I f wr wi iφ (iψ (wr + Y.I * wi)))
    (N ℓ d b off : ℕ) (cf wr wi : R) (s : RI R) (hs : Valid N s) (hoff : off = 2 * 2 ^ d * b)
    (hN : off + 2 * 2 ^ d ≤ N) (hw : wr + Y.I * wi = Y.ζi ^ twE ℓ d b) :
    IAdv Y.ζ Y.a (cxs Y.I s) (cxs Y.I (twPass f (2 ^ d) off wr wi s)) cf (2 * cf) (ℓ + 1) d ℓ (d + 1) off (2 * 2 ^ d) ∧
      Valid N (twPass f (2 ^ d) off wr wi s) := by
  have h1 := twPass_sim Y.I N f wr wi _ _ (hf wr wi) (2 ^ d) off s hs (by omega)
  rw [h1.1, hw]
  exact ⟨IAdv.tw Y.ζ Y.a _ cf ℓ d b off hoff _ (inv_pow Y _), h1.2⟩

/-- inverse radix-4 pass -/
theorem invbitwiddle_adv (F : Flav R) (hF : InvOK Y.I F) (T : Array R) (t N ℓ d b off h : ℕ) (cf : R) (s : RI R)
    (hs : Valid N s) (hh : h = 2 ^ d) (hoff : off = 4 * h * b) (hN : off + 4 * h ≤ N)
    (hk : Y.k = ℓ + 1 + d + 1)
    (hw0 : T[t]! + Y.I * T[t + 1]! = Y.ζi ^ twE (ℓ + 1) d (2 * b))
    (hw1 : T[t + 2]! + Y.I * T[t + 3]! = Y.ζi ^ twE ℓ (d + 1) b) :
    IAdv Y.ζ Y.a (cxs Y.I s) (cxs Y.I (invbitwiddle F T t h off s)) cf (4 * cf) (ℓ + 2) d ℓ (d + 2) off (4 * h) ∧
      Valid N (invbitwiddle F T t h off s) := by
  have h1 := invbitwiddle_sim Y.I N F T t h off _ _ _ _ _ _ (hF.ct _ _) (hF.cit _ _) (hF.ct _ _) s hs hN
  rw [h1.1]
  refine ⟨IAdv.bw Y.ζ Y.a _ cf ℓ d b off h hh hoff _ _ _ ?_ ?_ ?_, h1.2⟩
  · rw [hw0]; exact inv_pow Y _
  · rw [hw0]; exact inv_odd Y ℓ d b hk
  · rw [hw1]; exact inv_pow Y _

/-- exponents of the 8 twiddles of an inverse leaf pack (canonical order of `cplx_ifft16_precomp`) -/
def ileafE (e U : ℕ) : ℕ → ℕ
  | 0 => e / 16 | 1 => e / 16 + U / 8 | 2 => e / 16 + U / 16 | 3 => e / 16 + U / 8 + U / 16
  | 4 => e / 8 | 5 => e / 8 + U / 8 | 6 => e / 4 | _ => e / 2

/-- inverse 16-point leaf -/
theorem ifft16K_adv (F : Flav R) (hF : InvOK Y.I F) (w : ℕ → R × R) (N ℓ b off e : ℕ) (cf : R) (s : RI R)
    (hs : Valid N s) (hoff : off = 16 * b) (hN : off + 16 ≤ N) (hk : Y.k = ℓ + 4)
    (he : e = 16 * (1 + 4 * brev ℓ b))
    (hw : ∀ q, q < 8 → (w q).1 + Y.I * (w q).2 = Y.ζi ^ ileafE e (4 * 2 ^ Y.k) q) :
    IAdv Y.ζ Y.a (cxs Y.I s) (cxs Y.I (ifft16K F w off s)) cf (16 * cf) (ℓ + 4) 0 ℓ 4 off 16 ∧
      Valid N (ifft16K F w off s) := by
  have h1 := ifft16K_sim Y.I N F w
    (fun q => (iφ, iψ ((w q).1 + Y.I * (w q).2)))
    (fun q => (iφ, iψ (-Y.I * ((w q).1 + Y.I * (w q).2))))
    (fun q _ => hF.ct _ _) (fun q _ => hF.cit _ _) off s hs hN
  rw [h1.1]
  refine ⟨?_, h1.2⟩
  obtain ⟨x0, x1, x2, x3, x4, x5, x6, x7⟩ := leaf_exps ℓ b e (4 * 2 ^ Y.k) he (by rw [hk])
  have w0 := hw 0 (by omega); have w1 := hw 1 (by omega); have w2 := hw 2 (by omega)
  have w3 := hw 3 (by omega); have w4 := hw 4 (by omega); have w5 := hw 5 (by omega)
  have w6 := hw 6 (by omega); have w7 := hw 7 (by omega)
  simp only [ileafE] at w0 w1 w2 w3 w4 w5 w6 w7
  rw [x4] at w0; rw [x5] at w1; rw [x6] at w2; rw [x7] at w3; rw [x2] at w4; rw [x3] at w5; rw [x1] at w6
  rw [x0] at w7
  apply IAdv.leaf Y.ζ Y.a _ cf ℓ b off hoff (fun q => (w q).1 + Y.I * (w q).2)
    (fun q => -Y.I * ((w q).1 + Y.I * (w q).2))
  · intro q hq
    have : q = 0 ∨ q = 1 ∨ q = 2 ∨ q = 3 := by omega
    rcases this with rfl | rfl | rfl | rfl
    · show _ * ((w 0).1 + Y.I * (w 0).2) = 1; rw [w0]; exact inv_pow Y _
    · show _ * ((w 1).1 + Y.I * (w 1).2) = 1; rw [w1]; exact inv_pow Y _
    · show _ * ((w 2).1 + Y.I * (w 2).2) = 1; rw [w2]; exact inv_pow Y _
    · show _ * ((w 3).1 + Y.I * (w 3).2) = 1; rw [w3]; exact inv_pow Y _
  · intro q hq
    have hq' := inv_odd Y (ℓ + 2) 0 (4 * b + q) (by omega)
    rw [show 2 * (4 * b + q) + 1 = 8 * b + 2 * q + 1 by ring, show 2 * (4 * b + q) = 8 * b + 2 * q by ring] at hq'
    have : q = 0 ∨ q = 1 ∨ q = 2 ∨ q = 3 := by omega
    rcases this with rfl | rfl | rfl | rfl
    · show _ * (-Y.I * ((w 0).1 + Y.I * (w 0).2)) = 1; rw [w0]; exact hq'
    · show _ * (-Y.I * ((w 1).1 + Y.I * (w 1).2)) = 1; rw [w1]; exact hq'
    · show _ * (-Y.I * ((w 2).1 + Y.I * (w 2).2)) = 1; rw [w2]; exact hq'
    · show _ * (-Y.I * ((w 3).1 + Y.I * (w 3).2)) = 1; rw [w3]; exact hq'
  · show _ * ((w 4).1 + Y.I * (w 4).2) = 1; rw [w4]; exact inv_pow Y _
  · show _ * (-Y.I * ((w 4).1 + Y.I * (w 4).2)) = 1
    rw [w4, show 4 * b + 1 = 2 * (2 * b) + 1 by ring, show 4 * b = 2 * (2 * b) by ring]
    exact inv_odd Y (ℓ + 1) 1 (2 * b) (by omega)
  · show _ * ((w 5).1 + Y.I * (w 5).2) = 1; rw [w5]; exact inv_pow Y _
  · show _ * (-Y.I * ((w 5).1 + Y.I * (w 5).2)) = 1
    rw [w5, show 4 * b + 3 = 2 * (2 * b + 1) + 1 by ring, show 4 * b + 2 = 2 * (2 * b + 1) by ring]
    exact inv_odd Y (ℓ + 1) 1 (2 * b + 1) (by omega)
  · show _ * ((w 6).1 + Y.I * (w 6).2) = 1; rw [w6]; exact inv_pow Y _
  · show _ * (-Y.I * ((w 6).1 + Y.I * (w 6).2)) = 1; rw [w6]; exact inv_odd Y ℓ 2 b (by omega)
  · show _ * ((w 7).1 + Y.I * (w 7).2) = 1; rw [w7]; exact inv_pow Y _

end Spq.Fft.Kern
