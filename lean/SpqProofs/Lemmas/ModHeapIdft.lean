/-
  Heap-level refinement of `vec_znx_idft` (out of place and in place), `vec_znx_idft_tmp_a` and
  `znx_small_single_product`.
-/
import SpqProofs.Lemmas.ModHeapVec
namespace Spq.ModuleHeap
open Spq Heap Reim4
variable {γ α : Type}

theorem dlimb_rdD (cd : Cells γ α) (h : Heap γ) (p n i nn : Nat) (hb : i * nn + nn ≤ n) :
    Module.dlimb (rdD cd h p n) i nn = rdD cd h (p + i * nn) nn := by
  unfold Module.dlimb rdD
  rw [extract_map, readLimb_extract _ _ _ _ _ _ hb]

section
variable (c : Module.Parts α) (cd : Cells γ α) (hs : Sized c) (hr : RoundTrip cd)
include hs hr

/-- the loop and the zero fill of `fft64_vec_znx_idft`, from the state `g0` in which the first `smin` limbs of
    the result region hold the DFT-space input -/
theorem idftLoop_heap (g0 : Heap γ) (res rsz asz : Nat) (hres : res + rsz * c.nn ≤ g0.mem.size) :
    Fr (In res (rsz * c.nn)) g0
      (g0 |> loop (min rsz asz) (fun i h => h |> kIfft c cd (res + i * c.nn) |> kToZnx c cd (res + i * c.nn) (res + i * c.nn))
          |> kZeroI cd (res + min rsz asz * c.nn) ((rsz - min rsz asz) * c.nn)) ∧
    (g0 |> loop (min rsz asz) (fun i h => h |> kIfft c cd (res + i * c.nn) |> kToZnx c cd (res + i * c.nn) (res + i * c.nn))
        |> kZeroI cd (res + min rsz asz * c.nn) ((rsz - min rsz asz) * c.nn)).readLimb cd.dflt res (rsz * c.nn) =
      (Module.vecIdft c rsz (rdD cd g0 res (min rsz asz * c.nn)) asz).map cd.encI := by
  have hsm : min rsz asz ≤ rsz := Nat.min_le_left _ _
  have hsmul := mul_le' _ _ c.nn hsm
  have e2 := sub_mul_add rsz (min rsz asz) c.nn hsm
  obtain ⟨fl, vl⟩ := limbLoop c.nn res (min rsz asz)
    (fun i h => h |> kIfft c cd (res + i * c.nn) |> kToZnx c cd (res + i * c.nn) (res + i * c.nn)) g0 cd.dflt
    (fun i => (c.toZnx (c.ifft (rdD cd g0 (res + i * c.nn) c.nn))).map cd.encI) (fun _ _ => False)
    (fun _ _ _ _ _ q => q.elim)
    (by
      intro i g hi f
      have hm := mul_step i rsz c.nn (by omega)
      obtain ⟨f1, v1⟩ := kIfft_spec c cd g hs (res + i * c.nn) (by rw [f.size]; omega)
      obtain ⟨f2, v2⟩ := kToZnx_spec c cd (kIfft c cd (res + i * c.nn) g) hs (res + i * c.nn) (res + i * c.nn)
        (by rw [f1.size, f.size]; omega) (by rw [f1.size, f.size]; omega) (sameOrDisj_same _ _)
      refine ⟨(f1.trans' f2).mono (fun x q => Or.inl q), ?_⟩
      rw [v2, rdD_of_cells cd hr _ _ _ _ v1, rdD_of_fr f cd _ _ ?_]
      intro x hx hw
      rcases hw with hw | ⟨j, _, hw⟩
      · unfold In at *; omega
      · exact hw)
  have flm : Fr (In res (min rsz asz * c.nn)) g0 _ := fl.mono (fun x q => by
    rcases q with q | ⟨j, _, q⟩
    · exact q
    · exact q.elim)
  obtain ⟨fz, vz⟩ := kZeroI_spec cd _ (res + min rsz asz * c.nn) ((rsz - min rsz asz) * c.nn)
    (by rw [flm.size]; omega)
  refine ⟨(flm.trans fz).mono (fun x q => by unfold In at *; omega), ?_⟩
  have hdl : ∀ i, i < min rsz asz →
      Module.dlimb (rdD cd g0 res (min rsz asz * c.nn)) i c.nn = rdD cd g0 (res + i * c.nn) c.nn :=
    fun i hi => dlimb_rdD cd g0 res _ i c.nn (mul_step i _ c.nn hi)
  obtain ⟨xs, xl⟩ := Module.vecIdft_spec c rsz (rdD cd g0 res (min rsz asz * c.nn)) asz
    (fun i => if i < asz then c.toZnx (c.ifft (Module.dlimb (rdD cd g0 res (min rsz asz * c.nn)) i c.nn))
      else Array.replicate c.nn 0)
    (fun i _ => rfl)
    (fun i hi => by
      by_cases hia : i < asz
      · rw [if_pos hia, hdl i (by omega)]
        exact hs.toZnx _ (hs.ifft _ (by simp))
      · rw [if_neg hia]; simp)
  rw [map_replicate'] at vz
  refine region_assemble _ _ cd.dflt res rsz (min rsz asz) c.nn hsm _ (cd.encI 0) _ (by simp [xs]) vl fz vz ?_ ?_
  · intro i hi
    rw [extract_map]
    have := xl i (by omega)
    rw [Module.dlimb] at this
    rw [this, if_pos (by omega), hdl i hi]
  · intro i h1 h2
    rw [extract_map]
    have := xl i h2
    rw [Module.dlimb] at this
    rw [this, if_neg (by omega), map_replicate']

/-- `fft64_vec_znx_idft`: `res == a_dft` (in place, for EVERY pair of sizes) or `res` disjoint from the
    `min(res_size, a_size)` limbs of `a_dft` that are read; same formula in both cases -/
theorem vecIdft_heap (h : Heap γ) (res rsz adft asz : Nat) (hres : res + rsz * c.nn ≤ h.mem.size)
    (hsrc : adft + min rsz asz * c.nn ≤ h.mem.size)
    (hal : res = adft ∨ adft + min rsz asz * c.nn ≤ res ∨ res + rsz * c.nn ≤ adft) :
    Fr (In res (rsz * c.nn)) h (vecIdft c cd h res rsz adft asz) ∧
    (vecIdft c cd h res rsz adft asz).readLimb cd.dflt res (rsz * c.nn) =
      (Module.vecIdft c rsz (rdD cd h adft (min rsz asz * c.nn)) asz).map cd.encI := by
  by_cases e : res = adft
  · subst e
    unfold vecIdft
    simp only [bne_self_eq_false, Bool.false_eq_true, if_false]
    exact idftLoop_heap c cd hs hr h res rsz asz hres
  · have hd : adft + min rsz asz * c.nn ≤ res ∨ res + rsz * c.nn ≤ adft := hal.resolve_left e
    have hsmul := mul_le' _ _ c.nn (Nat.min_le_left rsz asz)
    obtain ⟨f0, v0⟩ := kCopy_spec cd h res adft (min rsz asz * c.nn) hsrc (by omega) (disj_of _ _ _ _ (by omega))
    obtain ⟨f1, v1⟩ := idftLoop_heap c cd hs hr (kCopy cd res adft (min rsz asz * c.nn) h) res rsz asz
      (by rw [f0.size]; exact hres)
    unfold vecIdft
    simp only [bne_iff_ne, ne_eq, e, not_false_eq_true, if_true]
    refine ⟨(f0.trans f1).mono (fun x q => by unfold In at *; omega), ?_⟩
    rw [v1]
    unfold rdD
    rw [v0]

/-- `fft64_vec_znx_idft_tmp_a`: the source limbs are transformed in place (the documented exception to
    "sources are read-only"); tolerated: `res == a_dft`, or `res` disjoint from the limbs of `a_dft` that are used -/
theorem vecIdftTmpA_heap (h : Heap γ) (res rsz adft asz : Nat) (hres : res + rsz * c.nn ≤ h.mem.size)
    (hsrc : adft + min rsz asz * c.nn ≤ h.mem.size)
    (hal : res = adft ∨ adft + min rsz asz * c.nn ≤ res ∨ res + rsz * c.nn ≤ adft) :
    Fr (fun x => In res (rsz * c.nn) x ∨ In adft (min rsz asz * c.nn) x) h (vecIdftTmpA c cd h res rsz adft asz) ∧
    (vecIdftTmpA c cd h res rsz adft asz).readLimb cd.dflt res (rsz * c.nn) =
      (Module.vecIdft c rsz (rdD cd h adft (min rsz asz * c.nn)) asz).map cd.encI := by
  have hsm : min rsz asz ≤ rsz := Nat.min_le_left _ _
  have hsmul := mul_le' _ _ c.nn hsm
  have e2 := sub_mul_add rsz (min rsz asz) c.nn hsm
  obtain ⟨fl, vl⟩ := limbLoop c.nn res (min rsz asz)
    (fun i h => h |> kIfft c cd (adft + i * c.nn) |> kToZnx c cd (res + i * c.nn) (adft + i * c.nn)) h cd.dflt
    (fun i => (c.toZnx (c.ifft (rdD cd h (adft + i * c.nn) c.nn))).map cd.encI)
    (fun i x => In (adft + i * c.nn) c.nn x)
    (by
      intro i j x hji hi hx hw
      have := mul_step j i c.nn hji
      have := mul_step i _ c.nn hi
      unfold In at *; omega)
    (by
      intro i g hi f
      have hm := mul_step i rsz c.nn (by omega)
      have hm' := mul_step i _ c.nn hi
      obtain ⟨f1, v1⟩ := kIfft_spec c cd g hs (adft + i * c.nn) (by rw [f.size]; omega)
      obtain ⟨f2, v2⟩ := kToZnx_spec c cd (kIfft c cd (adft + i * c.nn) g) hs (res + i * c.nn) (adft + i * c.nn)
        (by rw [f1.size, f.size]; omega) (by rw [f1.size, f.size]; omega)
        (by
          rcases hal with e | e
          · subst e; exact sameOrDisj_same _ _
          · exact sameOrDisj_of _ _ _ (by omega))
      refine ⟨(f1.trans f2).mono (fun x q => q.symm), ?_⟩
      rw [v2, rdD_of_cells cd hr _ _ _ _ v1, rdD_of_fr f cd _ _ ?_]
      intro x hx hw
      rcases hw with hw | ⟨j, hj, hw⟩
      · unfold In at *; omega
      · have := mul_step j i c.nn hj
        unfold In at *; omega)
  have flm : Fr (fun x => In res (min rsz asz * c.nn) x ∨ In adft (min rsz asz * c.nn) x) h _ := fl.mono (fun x q => by
    rcases q with q | ⟨j, hj, q⟩
    · exact Or.inl q
    · right
      have := mul_step j _ c.nn hj
      unfold In at *; omega)
  obtain ⟨fz, vz⟩ := kZeroI_spec cd _ (res + min rsz asz * c.nn) ((rsz - min rsz asz) * c.nn)
    (by rw [flm.size]; omega)
  refine ⟨(flm.trans fz).mono (fun x q => by unfold In at *; omega), ?_⟩
  have hdl : ∀ i, i < min rsz asz →
      Module.dlimb (rdD cd h adft (min rsz asz * c.nn)) i c.nn = rdD cd h (adft + i * c.nn) c.nn :=
    fun i hi => dlimb_rdD cd h adft _ i c.nn (mul_step i _ c.nn hi)
  obtain ⟨xs, xl⟩ := Module.vecIdft_spec c rsz (rdD cd h adft (min rsz asz * c.nn)) asz
    (fun i => if i < asz then c.toZnx (c.ifft (Module.dlimb (rdD cd h adft (min rsz asz * c.nn)) i c.nn))
      else Array.replicate c.nn 0)
    (fun i _ => rfl)
    (fun i hi => by
      by_cases hia : i < asz
      · rw [if_pos hia, hdl i (by omega)]
        exact hs.toZnx _ (hs.ifft _ (by simp))
      · rw [if_neg hia]; simp)
  rw [map_replicate'] at vz
  refine region_assemble _ _ cd.dflt res rsz (min rsz asz) c.nn hsm _ (cd.encI 0) _ (by simp [xs]) vl fz vz ?_ ?_
  · intro i hi
    rw [extract_map]
    have := xl i (by omega)
    rw [Module.dlimb] at this
    rw [this, if_pos (by omega), hdl i hi]
  · intro i h1 h2
    rw [extract_map]
    have := xl i h2
    rw [Module.dlimb] at this
    rw [this, if_neg (by omega), map_replicate']

end
end Spq.ModuleHeap
