/-
  C01 rounding budget, step 8: assembly.  The values of the computed inverse transform `stI` are within
  `E·m` of `m·(a ⊛ b)` (negacyclic product, reim packing), `E = eB ε μ (ε·m)·(‖a‖₁·nb + na·‖b‖₁)`.
-/
import SpqProofs.Lemmas.ProdErrPipe
set_option linter.unusedSectionVars false
namespace Spq.ProdErr
open Finset Spq Spq.Module Spq.Fft Spq.Fft.Alg Spq.Fft.SimP Spq.Fft.LevelN Spq.Fft.SchedN Spq.Fft.RelN Spq.FftErr Spq.F64
  Spq.Reim4 Spq.C06Err
variable {K : Type} [Field K] [LinearOrder K] [IsStrictOrderedRing K]

/-- relative 2-norm error of one transform of `2^k` points: `(1 + 8u)^k − 1`, `u = 2^-53` (C06Err) -/
def eps (K : Type) [Field K] (k : ℕ) : K := (1 + ((8 * u64 : ℚ) : K)) ^ k - 1
/-- the 1-norm of the first `N` coefficients -/
def n1 (K : Type) [Field K] [LinearOrder K] (x : Array Int) (N : ℕ) : K := ∑ t ∈ range N, |((x.getD t 0 : Int) : K)|
/-- the squared 2-norm -/
def n2sq (K : Type) [Field K] (x : Array Int) (N : ℕ) : K := ∑ t ∈ range N, ((x.getD t 0 : Int) : K) ^ 2

theorem eps_nonneg (k : ℕ) : (0 : K) ≤ eps K k := by
  unfold eps
  have h0 : (0 : K) ≤ ((8 * u64 : ℚ) : K) := by
    have : (0 : ℚ) ≤ 8 * u64 := by unfold u64; positivity
    exact_mod_cast this
  have : (1 : K) ≤ (1 + ((8 * u64 : ℚ) : K)) ^ k := one_le_pow₀ (by linarith)
  linarith

theorem mu_nonneg : (0 : K) ≤ ((mu64 : ℚ) : K) := by exact_mod_cast mu64_nonneg

theorem pow_mod_four' (k : ℕ) (hk : 2 ≤ k) : 2 ^ k % 4 = 0 := by
  obtain ⟨j, rfl⟩ : ∃ j, k = j + 2 := ⟨k - 2, by omega⟩
  rw [pow_add]; omega

/-- the budget of the whole pipeline, relative to `m` -/
def budget (K : Type) [Field K] [LinearOrder K] (k : ℕ) (a b : Array Int) (na nb : K) : K :=
  eB (eps K k) ((mu64 : ℚ) : K) (eps K k * 2 ^ k) * (n1 K a (2 * 2 ^ k) * nb + na * n1 K b (2 * 2 ^ k))

theorem budget_nonneg (k : ℕ) (a b : Array Int) (na nb : K) (hna : 0 ≤ na) (hnb : 0 ≤ nb) :
    0 ≤ budget K k a b na nb := by
  unfold budget
  have h1 := eB_nonneg (eps_nonneg (K := K) k) (mu_nonneg (K := K)) (mul_nonneg (eps_nonneg (K := K) k) (show (0 : K) ≤ 2 ^ k by positivity))
  have h2 : (0 : K) ≤ n1 K a (2 * 2 ^ k) := sum_nonneg (fun _ _ => abs_nonneg _)
  have h3 : (0 : K) ≤ n1 K b (2 * 2 ^ k) := sum_nonneg (fun _ _ => abs_nonneg _)
  exact mul_nonneg h1 (add_nonneg (mul_nonneg h2 hnb) (mul_nonneg hna h3))

/-- DFT-space part: the computed pointwise product against the exact DFT of the exact product -/
theorem dft_stage (c : Cfg) (k : ℕ) (cN sN cNi sNi : ℕ → ℕ) (h : CfgOk c k cN sN cNi sNi)
    (ζ : Cplx K) (hζ : nsq ζ = 1) (hI : ζ ^ 2 ^ k = Ic)
    (hcs : ∀ ℓ d b, ℓ + d + 1 = k → b < 2 ^ ℓ →
      nsq (toC (((val (cN (twE ℓ d b)) : ℚ) : K), ((val (sN (twE ℓ d b)) : ℚ) : K)) - ζ ^ twE ℓ d b) ≤
        (((7 / 2 * u64 : ℚ)) : K) ^ 2)
    (a b : Array Int)
    (ha : ∀ i, i < 2 * 2 ^ k → -1125899906842624 < a.getD i 0 ∧ a.getD i 0 < 1125899906842624)
    (hb : ∀ i, i < 2 * 2 ^ k → -1125899906842624 < b.getD i 0 ∧ b.getD i 0 < 1125899906842624)
    (hok : PipeOk c k cN sN cNi sNi a b)
    (na nb : K) (hna0 : 0 ≤ na) (hnb0 : 0 ≤ nb) (hna : n2sq K a (2 * 2 ^ k) ≤ na ^ 2) (hnb : n2sq K b (2 * 2 ^ k) ≤ nb ^ 2)
    (hnl : nb ≤ n1 K b (2 * 2 ^ k)) :
    (stM c k cN sN a b).size = 2 * 2 ^ k ∧
    ∑ j ∈ range (2 ^ k), nsq (V ζ (pkC (nmul (2 * 2 ^ k) a b) (2 ^ k)) k 0 j) ≤
      ((n1 K a (2 * 2 ^ k) * nb + na * n1 K b (2 * 2 ^ k)) / 2) ^ 2 * 2 ^ k ∧
    ∑ j ∈ range (2 ^ k), nsq (outC (stM c k cN sN a b) k j - V ζ (pkC (nmul (2 * 2 ^ k) a b) (2 ^ k)) k 0 j) ≤
      (fB (eps K k) ((mu64 : ℚ) : K) (eps K k * 2 ^ k) * (n1 K a (2 * 2 ^ k) * nb + na * n1 K b (2 * 2 ^ k))) ^ 2
        * 2 ^ k := by
  obtain ⟨hAsz, _⟩ := fromZnx_spec c k h.nn h.fromBnd50 a ha
  obtain ⟨hBsz, _⟩ := fromZnx_spec c k h.nn h.fromBnd50 b hb
  have FA := (reim_fft_err c.fftFma k ζ hζ hI cN sN hcs _ hAsz hok.okA).2
  have FB := (reim_fft_err c.fftFma k ζ hζ hI cN sN hcs _ hBsz hok.okB).2
  have eA : ∀ j ∈ range (2 ^ k), exactOut ζ k ((Cfg.parts c).fromZnx a) j = V ζ (pkC a (2 ^ k)) k 0 j :=
    fun j hj => exactOut_conv c k h.nn h.fromBnd50 ζ hI a ha j (mem_range.1 hj)
  have eBb : ∀ j ∈ range (2 ^ k), exactOut ζ k ((Cfg.parts c).fromZnx b) j = V ζ (pkC b (2 ^ k)) k 0 j :=
    fun j hj => exactOut_conv c k h.nn h.fromBnd50 ζ hI b hb j (mem_range.1 hj)
  have hA : ∑ j ∈ range (2 ^ k), nsq (outC (stF c k cN sN a) k j - V ζ (pkC a (2 ^ k)) k 0 j) ≤
      eps K k ^ 2 * ∑ j ∈ range (2 ^ k), nsq (V ζ (pkC a (2 ^ k)) k 0 j) := by
    have e1 : ∑ j ∈ range (2 ^ k), nsq (outC (stF c k cN sN a) k j - V ζ (pkC a (2 ^ k)) k 0 j) =
        ∑ j ∈ range (2 ^ k), nsq (outC (stF c k cN sN a) k j - exactOut ζ k ((Cfg.parts c).fromZnx a) j) :=
      sum_congr rfl (fun j hj => by rw [eA j hj])
    have e2 : ∑ j ∈ range (2 ^ k), nsq (V ζ (pkC a (2 ^ k)) k 0 j) =
        ∑ j ∈ range (2 ^ k), nsq (exactOut ζ k ((Cfg.parts c).fromZnx a) j) :=
      sum_congr rfl (fun j hj => by rw [eA j hj])
    rw [e1, e2]
    exact FA
  have hB : ∑ j ∈ range (2 ^ k), nsq (outC (stF c k cN sN b) k j - V ζ (pkC b (2 ^ k)) k 0 j) ≤
      eps K k ^ 2 * ∑ j ∈ range (2 ^ k), nsq (V ζ (pkC b (2 ^ k)) k 0 j) := by
    have e1 : ∑ j ∈ range (2 ^ k), nsq (outC (stF c k cN sN b) k j - V ζ (pkC b (2 ^ k)) k 0 j) =
        ∑ j ∈ range (2 ^ k), nsq (outC (stF c k cN sN b) k j - exactOut ζ k ((Cfg.parts c).fromZnx b) j) :=
      sum_congr rfl (fun j hj => by rw [eBb j hj])
    have e2 : ∑ j ∈ range (2 ^ k), nsq (V ζ (pkC b (2 ^ k)) k 0 j) =
        ∑ j ∈ range (2 ^ k), nsq (exactOut ζ k ((Cfg.parts c).fromZnx b) j) :=
      sum_congr rfl (fun j hj => by rw [eBb j hj])
    rw [e1, e2]
    exact FB
  have hM0 : (0 : K) ≤ 2 ^ k := by positivity
  have hM1 : (1 : K) ≤ 2 ^ k := one_le_pow₀ (by norm_num)
  have hAn : ∑ j ∈ range (2 ^ k), nsq (V ζ (pkC a (2 ^ k)) k 0 j) ≤ na ^ 2 * 2 ^ k := by
    rw [V_sum k ζ hζ a, mul_comm]
    exact mul_le_mul_of_nonneg_right hna hM0
  have hBn : ∑ j ∈ range (2 ^ k), nsq (V ζ (pkC b (2 ^ k)) k 0 j) ≤ nb ^ 2 * 2 ^ k := by
    rw [V_sum k ζ hζ b, mul_comm]
    exact mul_le_mul_of_nonneg_right hnb hM0
  have hAs : ∀ j ∈ range (2 ^ k), nsq (V ζ (pkC a (2 ^ k)) k 0 j) ≤ n1 K a (2 * 2 ^ k) ^ 2 :=
    fun j hj => V_sup k ζ hζ hI a j (mem_range.1 hj)
  have hBs : ∀ j ∈ range (2 ^ k), nsq (V ζ (pkC b (2 ^ k)) k 0 j) ≤ n1 K b (2 * 2 ^ k) ^ 2 :=
    fun j hj => V_sup k ζ hζ hI b j (mem_range.1 hj)
  have hm4 : c.mulFma = true → 2 ^ k % 4 = 0 := fun hf => pow_mod_four' k (h.mulFma hf)
  have hC : ∀ j ∈ range (2 ^ k),
      nsq (outC (stM c k cN sN a b) k j - outC (stF c k cN sN a) k j * outC (stF c k cN sN b) k j : Cplx K) ≤
        ((mu64 : ℚ) : K) ^ 2 * (nsq (outC (stF c k cN sN a) k j : Cplx K) * nsq (outC (stF c k cN sN b) k j : Cplx K)) := by
    intro j hj
    have hj' := mem_range.1 hj
    have := (mul_cell_err (K := K) c.mulFma (2 ^ k) hm4 (stF c k cN sN a) (stF c k cN sN b) j hj'
      (hok.okM j (by omega)) (hok.okM (j + 2 ^ k) (by omega))).2.2
    rw [outC_eq_cpl, outC_eq_cpl, outC_eq_cpl]
    exact this
  have hla : (0 : K) ≤ n1 K a (2 * 2 ^ k) := sum_nonneg (fun _ _ => abs_nonneg _)
  have hlb : (0 : K) ≤ n1 K b (2 * 2 ^ k) := sum_nonneg (fun _ _ => abs_nonneg _)
  obtain ⟨r1, r2⟩ := dft_prod_err (range (2 ^ k)) (fun j => V ζ (pkC a (2 ^ k)) k 0 j) (fun j => V ζ (pkC b (2 ^ k)) k 0 j)
    (fun j => outC (stF c k cN sN a) k j) (fun j => outC (stF c k cN sN b) k j) (fun j => outC (stM c k cN sN a b) k j)
    (eps K k) ((mu64 : ℚ) : K) na nb (n1 K a (2 * 2 ^ k)) (n1 K b (2 * 2 ^ k)) (2 ^ k) (2 ^ k)
    (eps_nonneg k) mu_nonneg hna0 hnb0 hla hlb hM0 hM0 (by nlinarith) hnl hA hAn hAs hB hBn hBs hC
  have eP : ∀ j ∈ range (2 ^ k), V ζ (pkC a (2 ^ k)) k 0 j * V ζ (pkC b (2 ^ k)) k 0 j =
      V ζ (pkC (nmul (2 * 2 ^ k) a b) (2 ^ k)) k 0 j := fun j hj => V_prod k ζ hI a b j (mem_range.1 hj)
  refine ⟨(mulA_cells F64.arith c.mulFma (2 ^ k) hm4 _ _).1, ?_, ?_⟩
  · have e3 : ∑ j ∈ range (2 ^ k), nsq (V ζ (pkC (nmul (2 * 2 ^ k) a b) (2 ^ k)) k 0 j) =
        ∑ j ∈ range (2 ^ k), nsq (V ζ (pkC a (2 ^ k)) k 0 j * V ζ (pkC b (2 ^ k)) k 0 j) :=
      sum_congr rfl (fun j hj => by rw [eP j hj])
    rw [e3]
    exact r1
  · have e4 : ∑ j ∈ range (2 ^ k), nsq (outC (stM c k cN sN a b) k j - V ζ (pkC (nmul (2 * 2 ^ k) a b) (2 ^ k)) k 0 j) =
        ∑ j ∈ range (2 ^ k), nsq (outC (stM c k cN sN a b) k j - V ζ (pkC a (2 ^ k)) k 0 j * V ζ (pkC b (2 ^ k)) k 0 j) :=
      sum_congr rfl (fun j hj => by rw [eP j hj])
    rw [e4]
    exact r2

end Spq.ProdErr
