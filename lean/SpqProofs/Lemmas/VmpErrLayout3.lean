/-
  C02 rounding budget, step 6 (`vmp_layout_f64`, part 3): the loops of `vmpApplyDftToDft` on the reim4 layout
  (`nn ≥ 8`) for an arbitrary arithmetic record: every cell of every computed column is the recurrence `colRe / colIm`
  of the accumulation order `colKind` (2-column kernel for paired columns, 1-column kernel for a lone last column).
-/
import SpqProofs.Lemmas.VmpErrLayout2
namespace Spq.VmpErr
open Spq Spq.Module Spq.Reim4
variable {α : Type}

/-- which accumulation order computes output column `col` (`nn ≥ 8`): the 1-column kernel only for the last column
    of an odd `ncols` that is not clipped by `rsz` -/
def colKind8 (c : Parts α) (ncols rsz col : ℕ) : DotK :=
  if col + 1 = min ncols rsz ∧ min ncols rsz % 2 = 1 ∧ ncols = min ncols rsz then kind1 c else kind2 c

/-- one iteration of the block loop of `vmp_apply_dft_to_dft` (`nn ≥ 8`) -/
def gBlkBody (c : Parts α) (rsz : ℕ) (adft : Array α) (asz : ℕ) (pmat : Array α) (nrows ncols : ℕ)
    (res : Array α) (blk : ℕ) : Array α :=
  let rowMax := min nrows asz
  let colMax := min ncols rsz
  let ext := gExt c adft rowMax blk
  let res := (List.range (colMax / 2)).foldl (fun res t =>
    let out := gProd2 c rowMax ext (gCol pmat nrows ncols blk (2 * t) 16)
    gSave c.m c.nn blk (gSave c.m c.nn blk res (2 * t) (out.extract 0 8)) (2 * t + 1) (out.extract 8 16)) res
  if colMax % 2 == 1 then
    let last := colMax - 1
    let out := if ncols == colMax then gProd1 c rowMax ext (gCol pmat nrows ncols blk last 8)
      else gProd2 c rowMax ext (gCol pmat nrows ncols blk last 16)
    gSave c.m c.nn blk res last (out.extract 0 8)
  else res

theorem vmpApply_eq_gblk (c : Parts α) (h8 : 8 ≤ c.nn) (rsz : ℕ) (adft : Array α) (asz : ℕ) (pmat : Array α)
    (nrows ncols : ℕ) :
    vmpApplyDftToDft c rsz adft asz pmat nrows ncols =
      (List.range (c.m / 4)).foldl (gBlkBody c rsz adft asz pmat nrows ncols) (Array.replicate (rsz * c.nn) c.ar.zero) := by
  unfold vmpApplyDftToDft
  simp only [ge_iff_le, h8, if_true]
  rfl

theorem getD_replicate_z (z : α) (n x : ℕ) : (Array.replicate n z).getD x z = z := by
  simp only [Array.getD_eq_getD_getElem?, Array.getElem?_replicate]
  split <;> rfl

theorem lo_get (z : α) (out : Array α) (k : ℕ) (hk : k < 4) :
    (out.extract 0 8).getD k z = out.getD k z ∧ (out.extract 0 8).getD (4 + k) z = out.getD (k + 4) z := by
  constructor
  · rw [getD_extract, if_pos (by omega), Nat.zero_add]
  · rw [getD_extract, if_pos (by omega), Nat.zero_add, Nat.add_comm]

theorem hi_get (z : α) (out : Array α) (k : ℕ) (hk : k < 4) :
    (out.extract 8 16).getD k z = out.getD (8 + k) z ∧ (out.extract 8 16).getD (4 + k) z = out.getD (8 + k + 4) z := by
  constructor
  · rw [getD_extract, if_pos (by omega)]
  · rw [getD_extract, if_pos (by omega)]; congr 1; omega

theorem gsize_lo (out : Array α) (h : out.size = 16 ∨ out.size = 8) : 8 ≤ (out.extract 0 8).size := by
  simp; omega
theorem gsize_hi (out : Array α) (h : out.size = 16) : 8 ≤ (out.extract 8 16).size := by
  simp; omega

theorem gBlkBody_inv (c : Parts α) (hnn : c.nn = 2 * c.m) (hm4 : c.m % 4 = 0) (h8 : 8 ≤ c.nn) (mat : Array Int)
    (nrows ncols rsz asz : ℕ) (adft : Array α) (B : ℕ) (hB : B < c.m / 4) (res : Array α)
    (h : GInv c.ar.zero (fun col t => colRe c (colKind8 c ncols rsz col) adft mat ncols (min nrows asz) col t)
      (fun col t => colIm c (colKind8 c ncols rsz col) adft mat ncols (min nrows asz) col t)
      c.m c.nn rsz (min ncols rsz) (fun _ blk => blk < B) res) :
    GInv c.ar.zero (fun col t => colRe c (colKind8 c ncols rsz col) adft mat ncols (min nrows asz) col t)
      (fun col t => colIm c (colKind8 c ncols rsz col) adft mat ncols (min nrows asz) col t)
      c.m c.nn rsz (min ncols rsz) (fun _ blk => blk < B + 1)
      (gBlkBody c rsz adft asz (vmpPrepare c mat nrows ncols) nrows ncols res B) := by
  have hrm : min nrows asz ≤ nrows := Nat.min_le_left _ _
  have hcm : min ncols rsz ≤ rsz := Nat.min_le_right _ _
  have hcn : min ncols rsz ≤ ncols := Nat.min_le_left _ _
  have k2 : ∀ col, ¬ (col + 1 = min ncols rsz ∧ min ncols rsz % 2 = 1 ∧ ncols = min ncols rsz) →
      colKind8 c ncols rsz col = kind2 c := fun col hcol => by unfold colKind8; rw [if_neg hcol]
  unfold gBlkBody
  dsimp only
  -- the column pairs
  have pairs := foldl_range_inv
    (P := fun t res => GInv c.ar.zero (fun col t => colRe c (colKind8 c ncols rsz col) adft mat ncols (min nrows asz) col t)
      (fun col t => colIm c (colKind8 c ncols rsz col) adft mat ncols (min nrows asz) col t)
      c.m c.nn rsz (min ncols rsz) (fun col blk => blk < B ∨ (blk = B ∧ col < 2 * t)) res)
    (fun res t =>
      gSave c.m c.nn B (gSave c.m c.nn B res (2 * t)
        ((gProd2 c (min nrows asz) (gExt c adft (min nrows asz) B)
          (gCol (vmpPrepare c mat nrows ncols) nrows ncols B (2 * t) 16)).extract 0 8)) (2 * t + 1)
        ((gProd2 c (min nrows asz) (gExt c adft (min nrows asz) B)
          (gCol (vmpPrepare c mat nrows ncols) nrows ncols B (2 * t) 16)).extract 8 16))
    (min ncols rsz / 2) res
    (h.mono (fun col blk _ _ d => by omega))
    (by
      intro t res ht hi
      have pv := fun k hk => prod2_val_g c mat nrows ncols h8 hnn hm4 adft (min nrows asz) hrm (2 * t) B k
        (by omega) (by omega) hB hk
      have hs := (pv 0 (by omega)).1
      have st1 := hi.save hnn hm4 hcm (2 * t) B _ (by omega) hB (gsize_lo _ (Or.inl hs))
        (fun k hk => by
          obtain ⟨l1, l2⟩ := lo_get c.ar.zero _ k hk
          rw [l1, l2, k2 (2 * t) (by omega)]
          exact ⟨(pv k hk).2.1, (pv k hk).2.2.1⟩)
      have st2 := st1.save hnn hm4 hcm (2 * t + 1) B _ (by omega) hB (gsize_hi _ hs)
        (fun k hk => by
          obtain ⟨l1, l2⟩ := hi_get c.ar.zero _ k hk
          rw [l1, l2, k2 (2 * t + 1) (by omega)]
          exact ⟨(pv k hk).2.2.2.1, (pv k hk).2.2.2.2⟩)
      exact st2.mono (fun col blk _ _ d => by omega))
  by_cases hodd : (min ncols rsz % 2 == 1) = true
  · rw [if_pos hodd]
    have hodd' : min ncols rsz % 2 = 1 := by simpa using hodd
    by_cases hl : (ncols == min ncols rsz) = true
    · rw [if_pos hl]
      have hl' : ncols = min ncols rsz := by simpa using hl
      have pv := fun k hk => prod1_val_g c mat nrows ncols h8 hnn hm4 adft (min nrows asz) hrm
        (min ncols rsz - 1) B k (by omega) hB hk
      have hs := (pv 0 (by omega)).1
      have kk : colKind8 c ncols rsz (min ncols rsz - 1) = kind1 c := by
        unfold colKind8; rw [if_pos ⟨by omega, hodd', hl'⟩]
      have st := pairs.save hnn hm4 hcm (min ncols rsz - 1) B _ (by omega) hB (gsize_lo _ (Or.inr hs))
        (fun k hk => by
          obtain ⟨l1, l2⟩ := lo_get c.ar.zero _ k hk
          rw [l1, l2, kk]
          exact ⟨(pv k hk).2.1, (pv k hk).2.2⟩)
      exact st.mono (fun col blk _ _ d => by omega)
    · rw [if_neg hl]
      have hl' : ncols ≠ min ncols rsz := by simpa using hl
      have pv := fun k hk => prod2_val_g c mat nrows ncols h8 hnn hm4 adft (min nrows asz) hrm
        (min ncols rsz - 1) B k (by omega) (by omega) hB hk
      have hs := (pv 0 (by omega)).1
      have st := pairs.save hnn hm4 hcm (min ncols rsz - 1) B _ (by omega) hB (gsize_lo _ (Or.inl hs))
        (fun k hk => by
          obtain ⟨l1, l2⟩ := lo_get c.ar.zero _ k hk
          rw [l1, l2, k2 (min ncols rsz - 1) (fun q => hl' q.2.2)]
          exact ⟨(pv k hk).2.1, (pv k hk).2.2.1⟩)
      exact st.mono (fun col blk _ _ d => by omega)
  · rw [if_neg hodd]
    have hodd' : ¬ (min ncols rsz % 2 = 1) := by simpa using hodd
    exact pairs.mono (fun col blk _ _ d => by omega)

/-- `vmp_apply_dft_to_dft ∘ vmp_prepare`, `nn ≥ 8`, any arithmetic record -/
theorem vmpApply_blk_inv_g (c : Parts α) (hnn : c.nn = 2 * c.m) (hm4 : c.m % 4 = 0) (h8 : 8 ≤ c.nn) (mat : Array Int)
    (nrows ncols rsz asz : ℕ) (adft : Array α) :
    GInv c.ar.zero (fun col t => colRe c (colKind8 c ncols rsz col) adft mat ncols (min nrows asz) col t)
      (fun col t => colIm c (colKind8 c ncols rsz col) adft mat ncols (min nrows asz) col t)
      c.m c.nn rsz (min ncols rsz) (fun _ _ => True)
      (vmpApplyDftToDft c rsz adft asz (vmpPrepare c mat nrows ncols) nrows ncols) := by
  rw [vmpApply_eq_gblk c h8]
  refine (foldl_range_inv (P := fun B res => GInv c.ar.zero
    (fun col t => colRe c (colKind8 c ncols rsz col) adft mat ncols (min nrows asz) col t)
    (fun col t => colIm c (colKind8 c ncols rsz col) adft mat ncols (min nrows asz) col t)
    c.m c.nn rsz (min ncols rsz) (fun _ blk => blk < B) res) _ _ _ ?_ ?_).mono (fun col blk _ hb _ => hb)
  · refine ⟨by simp, ?_, ?_⟩
    · intro col blk k _ _ _ d
      omega
    · intro x _
      exact getD_replicate_z _ _ _
  · intro B res hB hi
    exact gBlkBody_inv c hnn hm4 h8 mat nrows ncols rsz asz adft B hB res hi

end Spq.VmpErr
