/-
  Helper lemmas about the flat heap: `writeArr`, `readLimb` and the generic limb-loop theorem
  (values + frame) used by C08 / C13 / C18.
-/
import Spq.Heap
import Spq.VecZnx
namespace Spq.Heap
variable {α : Type}

/-! ### writeArr -/

/-- the first `n` stores of `writeArr` -/
def writeArrN (mem : Array α) (off : Nat) (l : Array α) : (n : Nat) → n ≤ l.size → Array α
  | 0, _ => mem
  | n + 1, h => (writeArrN mem off l n (Nat.le_of_succ_le h)).setIfInBounds (off + n) (l[n]'(h))

theorem writeArrN_eq_fold (mem : Array α) (off : Nat) (l : Array α) (n : Nat) (hn : n ≤ l.size) :
    writeArrN mem off l n hn = Nat.fold n (fun i h m => m.setIfInBounds (off + i) (l[i]'(Nat.lt_of_lt_of_le h hn))) mem := by
  induction n with
  | zero => rfl
  | succ n ih => rw [Nat.fold_succ, writeArrN, ih]

theorem writeArr_eq (mem : Array α) (off : Nat) (l : Array α) :
    writeArr mem off l = writeArrN mem off l l.size (Nat.le_refl _) := by
  rw [writeArrN_eq_fold]; rfl

theorem size_writeArrN (mem : Array α) (off : Nat) (l : Array α) (n : Nat) (hn : n ≤ l.size) :
    (writeArrN mem off l n hn).size = mem.size := by
  induction n with
  | zero => rfl
  | succ n ih => simp [writeArrN, ih]

theorem getElem?_writeArrN (mem : Array α) (off : Nat) (l : Array α) (n : Nat) (hn : n ≤ l.size) (x : Nat) :
    (writeArrN mem off l n hn)[x]? =
      if off ≤ x ∧ x < off + n ∧ x < mem.size then l[x - off]? else mem[x]? := by
  induction n with
  | zero =>
    simp only [writeArrN]
    have : ¬ (off ≤ x ∧ x < off + 0 ∧ x < mem.size) := by omega
    rw [if_neg this]
  | succ n ih =>
    simp only [writeArrN, Array.getElem?_setIfInBounds, size_writeArrN]
    rw [ih (Nat.le_of_succ_le hn)]
    by_cases hx : off + n = x
    · subst hx
      simp only [if_true]
      by_cases hs : off + n < mem.size
      · have h1 : off ≤ off + n ∧ off + n < off + (n + 1) ∧ off + n < mem.size := by omega
        have hlt : n < l.size := hn
        simp [hs, h1, hlt]
      · have h1 : ¬ (off ≤ off + n ∧ off + n < off + (n + 1) ∧ off + n < mem.size) := by omega
        have h2 : mem[off + n]? = none := by
          apply Array.getElem?_eq_none; omega
        rw [if_neg hs, if_neg h1, h2]
    · simp only [hx, if_false]
      by_cases h1 : off ≤ x ∧ x < off + n ∧ x < mem.size
      · have h2 : off ≤ x ∧ x < off + (n + 1) ∧ x < mem.size := by omega
        simp [h1, h2]
      · have h2 : ¬ (off ≤ x ∧ x < off + (n + 1) ∧ x < mem.size) := by omega
        simp [h1, h2]

@[simp] theorem size_writeArr (mem : Array α) (off : Nat) (l : Array α) :
    (writeArr mem off l).size = mem.size := by
  rw [writeArr_eq, size_writeArrN]

theorem getElem?_writeArr (mem : Array α) (off : Nat) (l : Array α) (x : Nat) :
    (writeArr mem off l)[x]? =
      if off ≤ x ∧ x < off + l.size ∧ x < mem.size then l[x - off]? else mem[x]? := by
  rw [writeArr_eq, getElem?_writeArrN]

/-- cells outside the written window are unchanged -/
theorem getElem?_writeArr_of_out (mem : Array α) (off : Nat) (l : Array α) (x : Nat)
    (h : x < off ∨ off + l.size ≤ x) : (writeArr mem off l)[x]? = mem[x]? := by
  rw [getElem?_writeArr]
  have : ¬ (off ≤ x ∧ x < off + l.size ∧ x < mem.size) := by omega
  simp [this]

/-- cells inside the written window (in bounds) hold the limb -/
theorem getElem?_writeArr_of_in (mem : Array α) (off : Nat) (l : Array α) (c : Nat)
    (hc : c < l.size) (hb : off + l.size ≤ mem.size) : (writeArr mem off l)[off + c]? = l[c]? := by
  rw [getElem?_writeArr]
  have : off ≤ off + c ∧ off + c < off + l.size ∧ off + c < mem.size := by omega
  simp [this]

/-! ### readLimb -/

@[simp] theorem size_readLimb (h : Heap α) (d : α) (off nn : Nat) : (h.readLimb d off nn).size = nn := by
  simp [readLimb]

theorem getElem?_readLimb (h : Heap α) (d : α) (off nn c : Nat) (hc : c < nn) :
    (h.readLimb d off nn)[c]? = some (h.mem.getD (off + c) d) := by
  simp [readLimb, hc]

theorem readLimb_congr (h h' : Heap α) (d : α) (off nn : Nat)
    (hm : ∀ x, off ≤ x → x < off + nn → h.mem[x]? = h'.mem[x]?) :
    h.readLimb d off nn = h'.readLimb d off nn := by
  apply Array.ext
  · simp
  · intro i h1 h2
    simp only [size_readLimb] at h1
    simp only [readLimb, Array.getElem_ofFn, Array.getD_eq_getD_getElem?]
    rw [hm (off + i) (by omega) (by omega)]

/-! ### the generic limb loop:  `for i in [lo, lo+n): mem := writeArr mem (r i) (G i mem)` -/

theorem limbLoop_spec (nn : Nat) (r : Nat → Nat) (G : Nat → Array α → Array α)
    (inS : Nat → Nat → Prop) (lo n : Nat) (m0 : Array α)
    (hsz : ∀ i m, (G i m).size = nn)
    (hloc : ∀ i, lo ≤ i → i < lo + n → ∀ m m' : Array α, m.size = m'.size →
        (∀ x, inS i x → m[x]? = m'[x]?) → G i m = G i m')
    (hdis : ∀ i j, lo ≤ j → j < i → i < lo + n → ∀ x, inS i x → x < r j ∨ r j + nn ≤ x)
    (hrr : ∀ i j, lo ≤ j → j < i → i < lo + n → r j + nn ≤ r i ∨ r i + nn ≤ r j)
    (hb : ∀ i, lo ≤ i → i < lo + n → r i + nn ≤ m0.size) :
    let m' := (List.range' lo n).foldl (fun m i => writeArr m (r i) (G i m)) m0
    m'.size = m0.size ∧
    (∀ i c, lo ≤ i → i < lo + n → c < nn → m'[r i + c]? = (G i m0)[c]?) ∧
    (∀ x, (∀ i, lo ≤ i → i < lo + n → x < r i ∨ r i + nn ≤ x) → m'[x]? = m0[x]?) := by
  induction n with
  | zero =>
    refine ⟨rfl, ?_, ?_⟩
    · intro i c h1 h2; omega
    · intro x _; rfl
  | succ n ih =>
    have ih' := ih
      (fun i h1 h2 => hloc i h1 (by omega))
      (fun i j h1 h2 h3 => hdis i j h1 h2 (by omega))
      (fun i j h1 h2 h3 => hrr i j h1 h2 (by omega))
      (fun i h1 h2 => hb i h1 (by omega))
    simp only [List.range'_concat, List.foldl_append, List.foldl_cons, List.foldl_nil, Nat.one_mul]
    generalize hm : (List.range' lo n).foldl (fun m i => writeArr m (r i) (G i m)) m0 = mn at ih'
    obtain ⟨ihs, ihv, ihf⟩ := ih'
    -- the limb computed at step lo+n only sees cells not yet written
    have hG : G (lo + n) mn = G (lo + n) m0 := by
      apply hloc (lo + n) (by omega) (by omega) mn m0 ihs
      intro x hx
      apply ihf
      intro i h1 h2
      exact hdis (lo + n) i h1 (by omega) (by omega) x hx
    refine ⟨by simp [ihs], ?_, ?_⟩
    · intro i c h1 h2 hc
      by_cases hi : i = lo + n
      · subst hi
        rw [getElem?_writeArr_of_in _ _ _ _ (by rw [hsz]; exact hc) (by rw [hsz, ihs]; exact hb _ h1 h2), hG]
      · have hlt : i < lo + n := by omega
        have := hrr (lo + n) i h1 hlt (by omega)
        rw [getElem?_writeArr_of_out _ _ _ _ (by rw [hsz]; omega)]
        exact ihv i c h1 hlt hc
    · intro x hx
      have h1 := hx (lo + n) (by omega) (by omega)
      rw [getElem?_writeArr_of_out _ _ _ _ (by rw [hsz]; omega)]
      apply ihf
      intro i h2 h3
      exact hx i h2 (by omega)

end Spq.Heap
