/-
  Exact-arithmetic description of `cplx_fftvec_bitwiddle_{fma,avx512}`.
-/
import SpqProofs.Lemmas.CoverTwiddle
namespace Spq
namespace Cover
open Reim4
variable {R : Type} [CommRing R]

/-- two butterfly levels on one column `(A, B, C, D)` of the four slices, with arbitrary "products":
    `(A,C) <- (A + T1 C, A - T1 C)`, `(B,D) <- (B + T1 D, B - T1 D)`, then
    `(A,B) <- (A + T2 B, A - T2 B)`, `(C,D) <- (C + T3 D, C - T3 D)` -/
def bitwGen (T1 T2 T3 : Cx R → Cx R) (A B C D : Cx R) : Cx R × Cx R × Cx R × Cx R :=
  let A1 := A + T1 C
  let B1 := B + T1 D
  let C1 := A - T1 C
  let D1 := B - T1 D
  (A1 + T2 B1, A1 - T2 B1, C1 + T3 D1, C1 - T3 D1)

/-- what the upper 256-bit half of the AVX-512 kernel computes instead of a product by a twiddle
    (`t` = real part of the twiddle of that parity): `(x.re·t − x.re·t, x.im·t + x.re·t)` -/
def hiT (t : R) (x : Cx R) : Cx R := ⟨x.re * t - x.re * t, x.im * t + x.re * t⟩

/-- complex `e` of a register -/
def pairOf (v : V4 R) (e : Nat) : Cx R := ⟨v.lane (2 * e), v.lane (2 * e + 1)⟩

/-- "lanes `(2e, 2e+1)` of the four output registers are the four complexes `Q`" -/
def LanesAre (q : V4 R × V4 R × V4 R × V4 R) (e : Nat) (Q : Cx R × Cx R × Cx R × Cx R) : Prop :=
  pairOf q.1 e = Q.1 ∧ pairOf q.2.1 e = Q.2.1 ∧ pairOf q.2.2.1 e = Q.2.2.1 ∧ pairOf q.2.2.2 e = Q.2.2.2

theorem bitwReg_fma_lanes (o a b c d : V4 R) (e : Nat) (he : e < 2) :
    LanesAre (bitwReg (RArith.ofRing R) (bitwCfgFma o) a b c d) e
      (bitwGen (fun x => x * ⟨o.lane (2 * e), o.lane (2 * e + 1)⟩) (fun x => x * ⟨o.lane (2 * e), o.lane (2 * e)⟩)
        (fun x => x * ⟨o.lane (2 * e + 1), o.lane (2 * e + 1)⟩) (pairOf a e) (pairOf b e) (pairOf c e) (pairOf d e)) := by
  rcases e with _ | _ | e
  · refine ⟨?_, ?_, ?_, ?_⟩ <;> ext <;>
      simp [pairOf, bitwReg, bitwCfgFma, bitwGen, V4.lane, V4.mul, V4.add, V4.sub, V4.fmaddsub, V4.map2, V4.shuf0,
        V4.shuf5, V4.shuf15] <;> ring
  · refine ⟨?_, ?_, ?_, ?_⟩ <;> ext <;>
      simp [pairOf, bitwReg, bitwCfgFma, bitwGen, V4.lane, V4.mul, V4.add, V4.sub, V4.fmaddsub, V4.map2, V4.shuf0,
        V4.shuf5, V4.shuf15] <;> ring
  · omega

theorem bitwReg_hi_lanes (o a b c d : V4 R) (e : Nat) (he : e < 2) :
    LanesAre (bitwReg (RArith.ofRing R) (bitwCfgAvx512Hi o) a b c d) e
      (bitwGen (hiT (o.lane (2 * e))) (hiT (o.lane (2 * e))) (hiT (o.lane (2 * e)))
        (pairOf a e) (pairOf b e) (pairOf c e) (pairOf d e)) := by
  rcases e with _ | _ | e
  · refine ⟨?_, ?_, ?_, ?_⟩ <;> ext <;>
      simp [pairOf, bitwReg, bitwCfgAvx512Hi, bitwGen, hiT, V4.lane, V4.mul, V4.add, V4.sub, V4.fmaddsub, V4.map2,
        V4.shuf0]
  · refine ⟨?_, ?_, ?_, ?_⟩ <;> ext <;>
      simp [pairOf, bitwReg, bitwCfgAvx512Hi, bitwGen, hiT, V4.lane, V4.mul, V4.add, V4.sub, V4.fmaddsub, V4.map2,
        V4.shuf0]
  · omega

theorem pairOf_load (x : Array R) (o e : Nat) (he : e < 2) : pairOf (V4.load 0 x o) e = cxAt x (o + 2 * e) := by
  unfold pairOf
  rw [V4.lane_load _ _ _ _ (by omega), V4.lane_load _ _ _ _ (by omega)]
  rfl

/-- the four-slice loop, given what its register function does on each complex -/
theorem bitwLoop_spec (n off : Nat) (F : Nat → V4 R → V4 R → V4 R → V4 R → V4 R × V4 R × V4 R × V4 R)
    (G : Nat → Cx R → Cx R → Cx R → Cx R → Cx R × Cx R × Cx R × Cx R) (a : Array R)
    (hoff : 4 * n ≤ off) (hb : 3 * off + 4 * n ≤ a.size)
    (hF : ∀ j e, e < 2 → ∀ va vb vc vd,
      LanesAre (F j va vb vc vd) e (G (2 * j + e) (pairOf va e) (pairOf vb e) (pairOf vc e) (pairOf vd e))) :
    (mapV4x4 0 n off F a).size = a.size ∧
    (∀ i, i < 2 * n →
      let Q := G i (cxAt a (2 * i)) (cxAt a (off + 2 * i)) (cxAt a (2 * off + 2 * i)) (cxAt a (3 * off + 2 * i))
      cxAt (mapV4x4 0 n off F a) (2 * i) = Q.1 ∧
      cxAt (mapV4x4 0 n off F a) (off + 2 * i) = Q.2.1 ∧
      cxAt (mapV4x4 0 n off F a) (2 * off + 2 * i) = Q.2.2.1 ∧
      cxAt (mapV4x4 0 n off F a) (3 * off + 2 * i) = Q.2.2.2) ∧
    (∀ x, (∀ s, s < 4 → x < s * off ∨ s * off + 4 * n ≤ x) → (mapV4x4 0 n off F a).getD x 0 = a.getD x 0) := by
  obtain ⟨s1, s2, s3⟩ := mapV4x4_spec (0 : R) n off F a hoff hb
  refine ⟨s1, ?_, ?_⟩
  · intro i hi Q
    have he : i % 2 < 2 := by omega
    have hj : i / 2 < n := by omega
    obtain ⟨u1, u2, u3, u4⟩ := s2 (i / 2) hj (2 * (i % 2)) (by omega)
    obtain ⟨v1, v2, v3, v4⟩ := s2 (i / 2) hj (2 * (i % 2) + 1) (by omega)
    obtain ⟨l1, l2, l3, l4⟩ := hF (i / 2) (i % 2) he (V4.load 0 a (4 * (i / 2))) (V4.load 0 a (off + 4 * (i / 2)))
      (V4.load 0 a (2 * off + 4 * (i / 2))) (V4.load 0 a (3 * off + 4 * (i / 2)))
    rw [pairOf_load _ _ _ he, pairOf_load _ _ _ he, pairOf_load _ _ _ he, pairOf_load _ _ _ he] at l1 l2 l3 l4
    have q0 : 4 * (i / 2) + 2 * (i % 2) = 2 * i := by omega
    have q1 : off + 4 * (i / 2) + 2 * (i % 2) = off + 2 * i := by omega
    have q2 : 2 * off + 4 * (i / 2) + 2 * (i % 2) = 2 * off + 2 * i := by omega
    have q3 : 3 * off + 4 * (i / 2) + 2 * (i % 2) = 3 * off + 2 * i := by omega
    have qi : 2 * (i / 2) + i % 2 = i := by omega
    rw [q0, q1, q2, q3, qi] at l1 l2 l3 l4
    have r0 : 4 * (i / 2) + (2 * (i % 2) + 1) = 2 * i + 1 := by omega
    have r1 : off + 4 * (i / 2) + (2 * (i % 2) + 1) = off + 2 * i + 1 := by omega
    have r2 : 2 * off + 4 * (i / 2) + (2 * (i % 2) + 1) = 2 * off + 2 * i + 1 := by omega
    have r3 : 3 * off + 4 * (i / 2) + (2 * (i % 2) + 1) = 3 * off + 2 * i + 1 := by omega
    rw [q0] at u1
    rw [q1] at u2
    rw [q2] at u3
    rw [q3] at u4
    rw [r0] at v1
    rw [r1] at v2
    rw [r2] at v3
    rw [r3] at v4
    refine ⟨?_, ?_, ?_, ?_⟩
    · rw [← l1]; ext
      · simp only [cxAt_re, pairOf]; exact u1
      · simp only [cxAt_im, pairOf]; exact v1
    · rw [← l2]; ext
      · simp only [cxAt_re, pairOf]; exact u2
      · simp only [cxAt_im, pairOf]; exact v2
    · rw [← l3]; ext
      · simp only [cxAt_re, pairOf]; exact u3
      · simp only [cxAt_im, pairOf]; exact v3
    · rw [← l4]; ext
      · simp only [cxAt_re, pairOf]; exact u4
      · simp only [cxAt_im, pairOf]; exact v4
  · intro x hx
    apply s3
    intro j hj s hs
    have := hx s hs
    omega

end Cover
end Spq
