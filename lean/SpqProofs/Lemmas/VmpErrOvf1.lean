/-
  No-overflow from a magnitude box, step 1: the arithmetics.
  * `arithU` / `aU`: flagged binary64 whose flag only records "no UNDERFLOW": every operation had flagged operands
    and an exact result that is 0 or at least `2^-1022` in magnitude (no upper limit);
  * `arithB` / `aB`: magnitude bounds `(B, p)`: `B` bounds the computed value, `p` says that every exact result so far
    was below `T = 2^1023`;
  * the product `arithUB` / `aUB` and the relation `RlO X (Y, B, p)`: same pattern, and
    "underflow-flag of `Y` and `p` ⇒ FULL flag of `X` (`arithOk`), `X` finite, `|val X| ≤ B`".
  The relation is preserved by every operation (`simO`, `asimO`), hence by every kernel / butterfly / network.
-/
import SpqProofs.Lemmas.FftErrSchedF64
set_option linter.unusedSectionVars false
namespace Spq.VmpErr
open Spq Spq.F64 Spq.Fft Spq.Fft.RelN Spq.FftErr

/-- no underflow: the exact result is 0 or at least the smallest normal number in magnitude -/
def NoUnd (q : ℚ) : Prop := q = 0 ∨ minNormal ≤ |q|

/-- the overflow guard used for the bounds: `2^1023` (below the overflow threshold `2^1024·(1 − 2^-54)`) -/
def Tov : ℚ := 2 ^ 1023

theorem Tov_le : Tov ≤ ovfThr := by
  unfold Tov
  rw [ovfThr_eq]
  have h1 : (2 : ℚ) ^ (1024 : ℤ) = 2 ^ 1023 * 2 := by
    rw [show (1024 : ℤ) = ((1024 : ℕ) : ℤ) from rfl, zpow_natCast, ← pow_succ]
  have h2 : (2 : ℚ) ^ (-54 : ℤ) ≤ 1 / 2 := by
    rw [show (-54 : ℤ) = -((54 : ℕ) : ℤ) from rfl, zpow_neg, zpow_natCast]; norm_num
  rw [h1]
  have hP : (0 : ℚ) < 2 ^ 1023 := by positivity
  generalize (2 : ℚ) ^ 1023 = P at hP ⊢
  generalize (2 : ℚ) ^ (-54 : ℤ) = z at h2 ⊢
  nlinarith [mul_nonneg (le_of_lt hP) (show (0 : ℚ) ≤ 1 - 2 * z by linarith)]

theorem normalRange_of {q : ℚ} (h1 : NoUnd q) (h2 : |q| < Tov) : NormalRange q := by
  rcases h1 with h | h
  · exact Or.inl h
  · exact Or.inr ⟨h, lt_of_lt_of_le h2 Tov_le⟩

/-- underflow-only flags -/
def arithU : RArith (ℕ × Prop) where
  zero := lift 0
  add := fun x y => (F64.add x.1 y.1, x.2 ∧ y.2 ∧ NoUnd (val x.1 + val y.1))
  sub := fun x y => (F64.sub x.1 y.1, x.2 ∧ y.2 ∧ NoUnd (val x.1 - val y.1))
  mul := fun x y => (F64.mul x.1 y.1, x.2 ∧ y.2 ∧ NoUnd (val x.1 * val y.1))
  fma := fun x y z => (F64.fma x.1 y.1 z.1, x.2 ∧ y.2 ∧ z.2 ∧ NoUnd (val x.1 * val y.1 + val z.1))
  fms := fun x y z => (F64.fms x.1 y.1 z.1, x.2 ∧ y.2 ∧ z.2 ∧ NoUnd (val x.1 * val y.1 - val z.1))

def aU : Arith (ℕ × Prop) :=
  ⟨arithU.add, arithU.sub, arithU.mul, fun x => (F64.neg x.1, x.2), arithU.fma, arithU.fms⟩

/-- magnitude bounds: `κ = 1 + 2^-53` per rounding -/
def kap : ℚ := 1 + u64

def arithB : RArith (ℚ × Prop) where
  zero := (0, True)
  add := fun x y => ((x.1 + y.1) * kap, x.2 ∧ y.2 ∧ x.1 + y.1 < Tov)
  sub := fun x y => ((x.1 + y.1) * kap, x.2 ∧ y.2 ∧ x.1 + y.1 < Tov)
  mul := fun x y => (x.1 * y.1 * kap, x.2 ∧ y.2 ∧ x.1 * y.1 < Tov)
  fma := fun x y z => ((x.1 * y.1 + z.1) * kap, x.2 ∧ y.2 ∧ z.2 ∧ x.1 * y.1 + z.1 < Tov)
  fms := fun x y z => ((x.1 * y.1 + z.1) * kap, x.2 ∧ y.2 ∧ z.2 ∧ x.1 * y.1 + z.1 < Tov)

def aB : Arith (ℚ × Prop) := ⟨arithB.add, arithB.sub, arithB.mul, fun x => x, arithB.fma, arithB.fms⟩

/-- componentwise product -/
def arithUB : RArith ((ℕ × Prop) × (ℚ × Prop)) where
  zero := (arithU.zero, arithB.zero)
  add := fun x y => (arithU.add x.1 y.1, arithB.add x.2 y.2)
  sub := fun x y => (arithU.sub x.1 y.1, arithB.sub x.2 y.2)
  mul := fun x y => (arithU.mul x.1 y.1, arithB.mul x.2 y.2)
  fma := fun x y z => (arithU.fma x.1 y.1 z.1, arithB.fma x.2 y.2 z.2)
  fms := fun x y z => (arithU.fms x.1 y.1 z.1, arithB.fms x.2 y.2 z.2)

def aUB : Arith ((ℕ × Prop) × (ℚ × Prop)) :=
  ⟨fun x y => (aU.add x.1 y.1, aB.add x.2 y.2), fun x y => (aU.sub x.1 y.1, aB.sub x.2 y.2),
    fun x y => (aU.mul x.1 y.1, aB.mul x.2 y.2), fun x => (aU.neg x.1, aB.neg x.2),
    fun x y z => (aU.fma x.1 y.1 z.1, aB.fma x.2 y.2 z.2), fun x y z => (aU.fms x.1 y.1 z.1, aB.fms x.2 y.2 z.2)⟩

/-- same pattern; bound nonnegative; underflow-flag and bound-flag ⇒ full flag, finite, magnitude bounded -/
def RlO (X : ℕ × Prop) (Z : (ℕ × Prop) × (ℚ × Prop)) : Prop :=
  X.1 = Z.1.1 ∧ 0 ≤ Z.2.1 ∧ (Z.1.2 → Z.2.2 → X.2 ∧ Fin64 X.1 ∧ |val X.1| ≤ Z.2.1)

theorem kap_pos : 0 < kap := by unfold kap; have := u64_pos; linarith
theorem kap_ge : 1 ≤ kap := by unfold kap; have := u64_pos; linarith

/-- `|computed| ≤ |exact|·κ` from the relative error -/
theorem abs_le_kap {r q : ℚ} (h : |r - q| ≤ u64 * |q|) : |r| ≤ |q| * kap := by
  have : r = (r - q) + q := by ring
  calc |r| = |(r - q) + q| := by rw [← this]
    _ ≤ |r - q| + |q| := abs_add_le _ _
    _ ≤ |q| * kap := by unfold kap; linarith

theorem abs_add_le' {a b A B : ℚ} (ha : |a| ≤ A) (hb : |b| ≤ B) : |a + b| ≤ A + B :=
  le_trans (abs_add_le _ _) (add_le_add ha hb)
theorem abs_sub_le' {a b A B : ℚ} (ha : |a| ≤ A) (hb : |b| ≤ B) : |a - b| ≤ A + B := by
  rw [sub_eq_add_neg]
  exact le_trans (abs_add_le _ _) (add_le_add ha (by rw [abs_neg]; exact hb))
theorem abs_mul_le' {a b A B : ℚ} (ha : |a| ≤ A) (hb : |b| ≤ B) : |a * b| ≤ A * B := by
  rw [abs_mul]
  exact mul_le_mul ha hb (abs_nonneg _) (le_trans (abs_nonneg _) ha)

/-- a result `r` that rounds the exact `q` with `|q| ≤ E < T`: full flag data -/
theorem rounds_bound {r : ℕ} {q E : ℚ} (hr : RoundsTo r q) (hn : NormalRange q) (hq : |q| ≤ E) :
    Fin64 r ∧ |val r| ≤ E * kap :=
  ⟨hr.1, le_trans (abs_le_kap (hr.2.1 hn)) (mul_le_mul_of_nonneg_right hq (le_of_lt kap_pos))⟩

theorem simO : RArith.Sim RlO arithOk arithUB where
  zero := ⟨rfl, le_refl _, fun _ _ => ⟨fin64_zero, fin64_zero, by show |val 0| ≤ (0 : ℚ); rw [val_zero, abs_zero]⟩⟩
  add := by
    intro a a' b b' h1 h2
    obtain ⟨e1, n1, r1⟩ := h1
    obtain ⟨e2, n2, r2⟩ := h2
    refine ⟨by show F64.add a.1 b.1 = F64.add a'.1.1 b'.1.1; rw [e1, e2], mul_nonneg (add_nonneg n1 n2) (le_of_lt kap_pos), ?_⟩
    intro hu hp
    obtain ⟨fa, fb, hnu⟩ := hu
    obtain ⟨pa, pb, hlt⟩ := hp
    obtain ⟨x1, x2, x3⟩ := r1 fa pa
    obtain ⟨y1, y2, y3⟩ := r2 fb pb
    rw [← e1, ← e2] at hnu
    have hq := abs_add_le' x3 y3
    have hn := normalRange_of hnu (lt_of_le_of_lt hq hlt)
    have hs := add_std a.1 b.1 hn.noOvf
    exact ⟨⟨x1, y1, hn⟩, hs.1, le_trans (abs_le_kap hs.2) (mul_le_mul_of_nonneg_right hq (le_of_lt kap_pos))⟩
  sub := by
    intro a a' b b' h1 h2
    obtain ⟨e1, n1, r1⟩ := h1
    obtain ⟨e2, n2, r2⟩ := h2
    refine ⟨by show F64.sub a.1 b.1 = F64.sub a'.1.1 b'.1.1; rw [e1, e2], mul_nonneg (add_nonneg n1 n2) (le_of_lt kap_pos), ?_⟩
    intro hu hp
    obtain ⟨fa, fb, hnu⟩ := hu
    obtain ⟨pa, pb, hlt⟩ := hp
    obtain ⟨x1, x2, x3⟩ := r1 fa pa
    obtain ⟨y1, y2, y3⟩ := r2 fb pb
    rw [← e1, ← e2] at hnu
    have hq := abs_sub_le' x3 y3
    have hn := normalRange_of hnu (lt_of_le_of_lt hq hlt)
    have hs := sub_std a.1 b.1 y2.1 hn.noOvf
    exact ⟨⟨x1, y1, hn⟩, hs.1, le_trans (abs_le_kap hs.2) (mul_le_mul_of_nonneg_right hq (le_of_lt kap_pos))⟩
  mul := by
    intro a a' b b' h1 h2
    obtain ⟨e1, n1, r1⟩ := h1
    obtain ⟨e2, n2, r2⟩ := h2
    refine ⟨by show F64.mul a.1 b.1 = F64.mul a'.1.1 b'.1.1; rw [e1, e2], mul_nonneg (mul_nonneg n1 n2) (le_of_lt kap_pos), ?_⟩
    intro hu hp
    obtain ⟨fa, fb, hnu⟩ := hu
    obtain ⟨pa, pb, hlt⟩ := hp
    obtain ⟨x1, x2, x3⟩ := r1 fa pa
    obtain ⟨y1, y2, y3⟩ := r2 fb pb
    rw [← e1, ← e2] at hnu
    have hq := abs_mul_le' x3 y3
    have hn := normalRange_of hnu (lt_of_le_of_lt hq hlt)
    obtain ⟨f, b⟩ := rounds_bound (mul_std a.1 b.1 hn.noOvf) hn hq
    exact ⟨⟨x1, y1, hn⟩, f, b⟩
  fma := by
    intro a a' b b' c c' h1 h2 h3
    obtain ⟨e1, n1, r1⟩ := h1
    obtain ⟨e2, n2, r2⟩ := h2
    obtain ⟨e3, n3, r3⟩ := h3
    refine ⟨by show F64.fma a.1 b.1 c.1 = F64.fma a'.1.1 b'.1.1 c'.1.1; rw [e1, e2, e3],
      mul_nonneg (add_nonneg (mul_nonneg n1 n2) n3) (le_of_lt kap_pos), ?_⟩
    intro hu hp
    obtain ⟨fa, fb, fc, hnu⟩ := hu
    obtain ⟨pa, pb, pc, hlt⟩ := hp
    obtain ⟨x1, x2, x3⟩ := r1 fa pa
    obtain ⟨y1, y2, y3⟩ := r2 fb pb
    obtain ⟨z1, z2, z3⟩ := r3 fc pc
    rw [← e1, ← e2, ← e3] at hnu
    have hq := abs_add_le' (abs_mul_le' x3 y3) z3
    have hn := normalRange_of hnu (lt_of_le_of_lt hq hlt)
    obtain ⟨f, b⟩ := rounds_bound (fma_std a.1 b.1 c.1 hn.noOvf) hn hq
    exact ⟨⟨x1, y1, z1, hn⟩, f, b⟩
  fms := by
    intro a a' b b' c c' h1 h2 h3
    obtain ⟨e1, n1, r1⟩ := h1
    obtain ⟨e2, n2, r2⟩ := h2
    obtain ⟨e3, n3, r3⟩ := h3
    refine ⟨by show F64.fms a.1 b.1 c.1 = F64.fms a'.1.1 b'.1.1 c'.1.1; rw [e1, e2, e3],
      mul_nonneg (add_nonneg (mul_nonneg n1 n2) n3) (le_of_lt kap_pos), ?_⟩
    intro hu hp
    obtain ⟨fa, fb, fc, hnu⟩ := hu
    obtain ⟨pa, pb, pc, hlt⟩ := hp
    obtain ⟨x1, x2, x3⟩ := r1 fa pa
    obtain ⟨y1, y2, y3⟩ := r2 fb pb
    obtain ⟨z1, z2, z3⟩ := r3 fc pc
    rw [← e1, ← e2, ← e3] at hnu
    have hq := abs_sub_le' (abs_mul_le' x3 y3) z3
    have hn := normalRange_of hnu (lt_of_le_of_lt hq hlt)
    obtain ⟨f, b⟩ := rounds_bound (fms_std a.1 b.1 c.1 z2.1 hn.noOvf) hn hq
    exact ⟨⟨x1, y1, z1, hn⟩, f, b⟩

theorem asimO : ASim RlO aOk aUB where
  add := fun h1 h2 => simO.add h1 h2
  sub := fun h1 h2 => simO.sub h1 h2
  mul := fun h1 h2 => simO.mul h1 h2
  neg := by
    intro a a' h1
    obtain ⟨e1, n1, r1⟩ := h1
    refine ⟨by show F64.neg a.1 = F64.neg a'.1.1; rw [e1], n1, ?_⟩
    intro hu hp
    obtain ⟨x1, x2, x3⟩ := r1 hu hp
    exact ⟨x1, fin64_neg x2, by show |val (F64.neg a.1)| ≤ _; rw [val_neg x2.1, abs_neg]; exact x3⟩
  fma := fun h1 h2 h3 => simO.fma h1 h2 h3
  fms := fun h1 h2 h3 => simO.fms h1 h2 h3

/-- the two projections of the product arithmetic -/
theorem asim_fst : ASim (fun (Z : (ℕ × Prop) × (ℚ × Prop)) (Y : ℕ × Prop) => Z.1 = Y) aUB aU where
  add := fun h1 h2 => by subst h1 h2; rfl
  sub := fun h1 h2 => by subst h1 h2; rfl
  mul := fun h1 h2 => by subst h1 h2; rfl
  neg := fun h1 => by subst h1; rfl
  fma := fun h1 h2 h3 => by subst h1 h2 h3; rfl
  fms := fun h1 h2 h3 => by subst h1 h2 h3; rfl

theorem asim_snd : ASim (fun (Z : (ℕ × Prop) × (ℚ × Prop)) (W : ℚ × Prop) => Z.2 = W) aUB aB where
  add := fun h1 h2 => by subst h1 h2; rfl
  sub := fun h1 h2 => by subst h1 h2; rfl
  mul := fun h1 h2 => by subst h1 h2; rfl
  neg := fun h1 => by subst h1; rfl
  fma := fun h1 h2 h3 => by subst h1 h2 h3; rfl
  fms := fun h1 h2 h3 => by subst h1 h2 h3; rfl

end Spq.VmpErr
