/-
  Hoare-style rules for the loops of the deep-embedded IR `Spq.CIR` (proved once, used by every
  `src_*_eq_model` theorem of `SpqProofs/Properties/Src.lean`), and the unfolding equations of the
  interpreter in the form used by the symbolic execution (`cir_simp`).
-/
import Spq.CIR
namespace Spq.CIR

/-- continuation of a sequence: run `k` after a normal completion.  The unfolding equation of `.seq` is stated
    with the continuation as a partial application (`exec Γ b f`), so that `simp` does not execute the second
    statement symbolically on an abstract intermediate state (it waits until the first one has been reduced to
    `.ok (.norm, σ')`). -/
def seqK (x : Out) (k : State → Out) : Out :=
  match x with
  | .ok (.norm, σ') => k σ'
  | r => r

theorem seqK_norm (σ : State) (k : State → Out) : seqK (.ok (.norm, σ)) k = k σ := rfl
theorem seqK_err (e : Err) (k : State → Out) : seqK (.err e) k = .err e := rfl
theorem seqK_ret (σ : State) (k : State → Out) : seqK (.ok (.ret, σ)) k = .ok (.ret, σ) := rfl
theorem seqK_cont (σ : State) (k : State → Out) : seqK (.ok (.cont, σ)) k = .ok (.cont, σ) := rfl

/-! ### unfolding equations of `exec` (all by `rfl`; straight-line statements do not look at the fuel) -/
section eqs
variable (Γ : List Ptr)

theorem exec_skip (f : Nat) (σ : State) : exec Γ .skip f σ = .ok (.norm, σ) := rfl
theorem exec_assign (x : Nat) (e : Expr) (f : Nat) (σ : State) :
    exec Γ (.assign x e) f σ = (eval Γ σ e).bind fun v => .ok (.norm, { σ with env := lset σ.env x v }) := rfl
theorem exec_store (p : Nat) (i e : Expr) (f : Nat) (σ : State) :
    exec Γ (.store p i e) f σ = (eval Γ σ i).bind fun iv => (eval Γ σ e).bind fun v =>
      (storeCell σ.mem (Γ.getD p none) iv v).bind fun m => .ok (.norm, { σ with mem := m }) := rfl
theorem exec_seq (a b : Stmt) (f : Nat) (σ : State) :
    exec Γ (.seq a b) f σ = seqK (exec Γ a f σ) (exec Γ b f) := rfl
theorem exec_ite (c : Expr) (t e : Stmt) (f : Nat) (σ : State) :
    exec Γ (.ite c t e) f σ = (evalB Γ c σ).bind fun b => if b then exec Γ t f σ else exec Γ e f σ := rfl
theorem exec_while (c : Expr) (b : Stmt) (f : Nat) (σ : State) :
    exec Γ (.while c b) f σ = loopN (evalB Γ c) (fun f σ => exec Γ b f σ) f σ := rfl
theorem exec_for_def (i : Stmt) (c : Expr) (inc b : Stmt) (f : Nat) (σ : State) :
    exec Γ (.for i c inc b) f σ = (match exec Γ i f σ with
      | .ok (.norm, σ1) =>
        loopN (evalB Γ c) (fun f σ => thenStep (exec Γ b f σ) fun σ' => exec Γ inc f σ') f σ1
      | r => r) := rfl
theorem exec_doWhile (b : Stmt) (c : Expr) (f : Nat) (σ : State) :
    exec Γ (.doWhile b c) f σ =
      thenStep (exec Γ b f σ) fun σ' => loopN (evalB Γ c) (fun f σ => exec Γ b f σ) f σ' := rfl
theorem exec_memcpy (d s : Nat) (n : Expr) (f : Nat) (σ : State) :
    exec Γ (.memcpy d s n) f σ = (eval Γ σ n).bind fun nv =>
      (memcpyCells σ.mem (Γ.getD d none) (Γ.getD s none) nv).bind fun m => .ok (.norm, { σ with mem := m }) := rfl
theorem exec_memset (d : Nat) (t : Ty) (v n : Expr) (f : Nat) (σ : State) :
    exec Γ (.memset d t v n) f σ = (eval Γ σ v).bind fun vv => (eval Γ σ n).bind fun nv =>
      (memsetCells σ.mem (Γ.getD d none) t vv nv).bind fun m => .ok (.norm, { σ with mem := m }) := rfl

/-- the loop part of a `for` statement, as an opaque constant for `simp` (so that the symbolic execution of the
    `init` part does not descend into the loop body under its binders); unfold it with `forLoop_def`. -/
def forLoop (Γ : List Ptr) (c : Expr) (inc b : Stmt) (f : Nat) (σ1 : State) : Out :=
  loopN (evalB Γ c) (fun f σ => thenStep (exec Γ b f σ) fun σ' => exec Γ inc f σ') f σ1

theorem forLoop_def (Γ : List Ptr) (c : Expr) (inc b : Stmt) (f : Nat) (σ1 : State) :
    forLoop Γ c inc b f σ1 =
      loopN (evalB Γ c) (fun f σ => thenStep (exec Γ b f σ) fun σ' => exec Γ inc f σ') f σ1 := rfl

theorem exec_for_eq (i : Stmt) (c : Expr) (inc b : Stmt) (f : Nat) (σ : State) :
    exec Γ (.for i c inc b) f σ = seqK (exec Γ i f σ) (forLoop Γ c inc b f) := rfl

/-- sequencing when the first statement completes normally -/
theorem exec_seq_of_norm {a b : Stmt} {f : Nat} {σ σ' : State} (h : exec Γ a f σ = .ok (.norm, σ')) :
    exec Γ (.seq a b) f σ = exec Γ b f σ' := by
  rw [exec_seq, h, seqK_norm]

theorem eval_lit (σ : State) (v : Int) : eval Γ σ (.lit v) = .ok v := rfl
theorem eval_var (σ : State) (x : Nat) : eval Γ σ (.var x) = .ok (lget σ.env x) := rfl
theorem eval_load (σ : State) (p : Nat) (i : Expr) :
    eval Γ σ (.load p i) = (eval Γ σ i).bind fun iv => loadCell σ.mem (Γ.getD p none) iv := rfl
theorem eval_cast (σ : State) (t : Ty) (e : Expr) :
    eval Γ σ (.cast t e) = (eval Γ σ e).bind fun v => .ok (t.wrap v) := rfl
theorem eval_un (σ : State) (op : UnOp) (t : Ty) (e : Expr) :
    eval Γ σ (.un op t e) = (eval Γ σ e).bind fun v => evalUn op t v := rfl
theorem eval_bin (σ : State) (op : BinOp) (t : Ty) (a b : Expr) :
    eval Γ σ (.bin op t a b) = (eval Γ σ a).bind fun x => (eval Γ σ b).bind fun y => evalBin op t x y := rfl
theorem eval_cond (σ : State) (c a b : Expr) :
    eval Γ σ (.cond c a b) = (eval Γ σ c).bind fun cv => if cv ≠ 0 then eval Γ σ a else eval Γ σ b := rfl
theorem eval_land (σ : State) (a b : Expr) :
    eval Γ σ (.land a b) = (eval Γ σ a).bind fun x =>
      if x = 0 then .ok 0 else (eval Γ σ b).bind fun y => .ok (if y = 0 then 0 else 1) := rfl
theorem eval_lor (σ : State) (a b : Expr) :
    eval Γ σ (.lor a b) = (eval Γ σ a).bind fun x =>
      if x ≠ 0 then .ok 1 else (eval Γ σ b).bind fun y => .ok (if y = 0 then 0 else 1) := rfl
theorem eval_isNull (σ : State) (p : Nat) :
    eval Γ σ (.isNull p) = .ok (if (Γ.getD p none).isNone then 1 else 0) := rfl

end eqs

/-! ### the counting-loop rule

`S k` is the state at the loop head after `k` iterations.  If the condition holds in `S k` for `k < n`,
fails in `S n`, and one step takes `S k` to `S (k+1)` whenever it is given at least `fb` units of fuel,
then the loop started in `S 0` with at least `n + fb` units of fuel ends normally in `S n`. -/
theorem loopN_count (c : State → R Bool) (step : Nat → State → Out) (S : Nat → State) (n fb : Nat)
    (hc : ∀ k, k < n → c (S k) = .ok true)
    (hs : ∀ k, k < n → ∀ f, fb ≤ f → step f (S k) = .ok (.norm, S (k + 1)))
    (hx : c (S n) = .ok false) :
    ∀ f, n + fb ≤ f → loopN c step f (S 0) = .ok (.norm, S n) := by
  suffices h : ∀ d j, j + d = n → ∀ f, d + fb ≤ f → loopN c step f (S j) = .ok (.norm, S n) by
    intro f hf
    exact h n 0 (by omega) f hf
  intro d
  induction d with
  | zero =>
    intro j hj f _
    have : j = n := by omega
    subst this
    cases f <;> simp [loopN, hx]
  | succ d ih =>
    intro j hj f hf
    obtain ⟨f', rfl⟩ : ∃ f', f = f' + 1 := ⟨f - 1, by omega⟩
    have hjn : j < n := by omega
    simp only [loopN, hc j hjn, hs j hjn f' (by omega)]
    exact ih (j + 1) (by omega) f' (by omega)

/-- the same rule for a loop that starts at index `lo` (`S` is indexed by the loop variable itself) -/
theorem loopN_range (c : State → R Bool) (step : Nat → State → Out) (S : Nat → State) (lo hi fb : Nat)
    (hlh : lo ≤ hi)
    (hc : ∀ k, lo ≤ k → k < hi → c (S k) = .ok true)
    (hs : ∀ k, lo ≤ k → k < hi → ∀ f, fb ≤ f → step f (S k) = .ok (.norm, S (k + 1)))
    (hx : c (S hi) = .ok false) :
    ∀ f, (hi - lo) + fb ≤ f → loopN c step f (S lo) = .ok (.norm, S hi) := by
  intro f hf
  have h := loopN_count c step (fun k => S (lo + k)) (hi - lo) fb
    (fun k hk => hc (lo + k) (by omega) (by omega))
    (fun k hk f hf => by
      have := hs (lo + k) (by omega) (by omega) f hf
      simpa [Nat.add_assoc] using this)
    (by simpa [Nat.add_sub_cancel' hlh] using hx) f hf
  simpa [Nat.add_sub_cancel' hlh] using h

/-- the `for` statement: `init` establishes `S lo`; `body; inc` takes `S k` to `S (k+1)`. -/
theorem exec_for_range (Γ : List Ptr) (init : Stmt) (c : Expr) (inc body : Stmt) (σ0 : State)
    (S : Nat → State) (lo hi fb : Nat) (hlh : lo ≤ hi)
    (hi0 : ∀ f, exec Γ init f σ0 = .ok (.norm, S lo))
    (hc : ∀ k, lo ≤ k → k < hi → evalB Γ c (S k) = .ok true)
    (hs : ∀ k, lo ≤ k → k < hi → ∀ f, fb ≤ f →
      thenStep (exec Γ body f (S k)) (fun σ' => exec Γ inc f σ') = .ok (.norm, S (k + 1)))
    (hx : evalB Γ c (S hi) = .ok false) :
    ∀ f, (hi - lo) + fb ≤ f → exec Γ (.for init c inc body) f σ0 = .ok (.norm, S hi) := by
  intro f hf
  rw [exec_for_def, hi0 f]
  exact loopN_range (evalB Γ c) _ S lo hi fb hlh hc hs hx f hf

/-- `while` loop with a counter-indexed family of states -/
theorem exec_while_range (Γ : List Ptr) (c : Expr) (body : Stmt)
    (S : Nat → State) (lo hi fb : Nat) (hlh : lo ≤ hi)
    (hc : ∀ k, lo ≤ k → k < hi → evalB Γ c (S k) = .ok true)
    (hs : ∀ k, lo ≤ k → k < hi → ∀ f, fb ≤ f → exec Γ body f (S k) = .ok (.norm, S (k + 1)))
    (hx : evalB Γ c (S hi) = .ok false) :
    ∀ f, (hi - lo) + fb ≤ f → exec Γ (.while c body) f (S lo) = .ok (.norm, S hi) := by
  intro f hf
  rw [exec_while]
  exact loopN_range (evalB Γ c) _ S lo hi fb hlh hc hs hx f hf

/-! ### general invariant/variant rule (relational form)

`Inv k σ`: σ is a possible state at the loop head with `k` iterations still to go (`k` is the variant).  -/
theorem loopN_inv (c : State → R Bool) (step : Nat → State → Out) (Inv : Nat → State → Prop) (fb : Nat)
    (hpos : ∀ k σ, Inv (k + 1) σ → c σ = .ok true ∧
      ∀ f, fb ≤ f → ∃ σ', step f σ = .ok (.norm, σ') ∧ Inv k σ')
    (hzero : ∀ σ, Inv 0 σ → c σ = .ok false) :
    ∀ n σ f, Inv n σ → n + fb ≤ f → ∃ σ', loopN c step f σ = .ok (.norm, σ') ∧ Inv 0 σ' := by
  intro n
  induction n with
  | zero =>
    intro σ f h _
    refine ⟨σ, ?_, h⟩
    cases f <;> simp [loopN, hzero σ h]
  | succ n ih =>
    intro σ f h hf
    obtain ⟨f', rfl⟩ : ∃ f', f = f' + 1 := ⟨f - 1, by omega⟩
    obtain ⟨hc, hs⟩ := hpos n σ h
    obtain ⟨σ1, h1, hI⟩ := hs f' (by omega)
    obtain ⟨σ2, h2, hI2⟩ := ih σ1 f' hI (by omega)
    exact ⟨σ2, by simp only [loopN, hc, h1, h2], hI2⟩

/-- out of fuel is the only way a counting loop can fail when given too little fuel: with `n` iterations to
    go and no fuel left the result is `Err.fuel` (shows the fuel bound of `loopN_count` is tight for `fb = 0`). -/
theorem loopN_fuel_tight (c : State → R Bool) (step : Nat → State → Out) (S : Nat → State) (n : Nat)
    (hc : ∀ k, k < n → c (S k) = .ok true)
    (hs : ∀ k, k < n → ∀ f, step f (S k) = .ok (.norm, S (k + 1))) :
    ∀ f, f < n → loopN c step f (S 0) = .err .fuel := by
  suffices h : ∀ f j, j + f < n → loopN c step f (S j) = .err .fuel by
    intro f hf
    exact h f 0 (by omega)
  intro f
  induction f with
  | zero => intro j hj; simp [loopN, hc j (by omega)]
  | succ f ih =>
    intro j hj
    simp only [loopN, hc j (by omega), hs j (by omega) f]
    exact ih (j + 1) (by omega)

/-! ### call / pointer expressions -/
theorem callRet_eq (σ : State) (x : Out) :
    callRet σ x = (memOf x).bind fun m => .ok (.norm, { σ with mem := m }) := by
  cases x with
  | err e => rfl
  | ok r => obtain ⟨fl, σ'⟩ := r; rfl

/-- a call of a translated function is `run` on the caller's memory -/
theorem exec_call_run (Γ : List Ptr) (fn : Fn) (sargs : List Expr) (pargs : List (PBase × Expr)) (f : Nat)
    (σ : State) :
    exec Γ (.call fn.body fn.nslots sargs pargs) f σ = (evalList Γ σ sargs).bind fun vs =>
      (evalPtrs Γ σ pargs).bind fun ps =>
        (run f fn vs ps σ.mem).bind fun m => .ok (.norm, { σ with mem := m }) := by
  show (evalList Γ σ sargs).bind (fun vs => (evalPtrs Γ σ pargs).bind fun ps =>
      callRet σ (exec ps fn.body f { env := vs ++ List.replicate (fn.nslots - vs.length) 0, mem := σ.mem })) = _
  simp only [callRet_eq]
  rfl

theorem evalList_nil (Γ : List Ptr) (σ : State) : evalList Γ σ [] = .ok [] := rfl
theorem evalList_cons (Γ : List Ptr) (σ : State) (e : Expr) (es : List Expr) :
    evalList Γ σ (e :: es) = (eval Γ σ e).bind fun v => (evalList Γ σ es).bind fun vs => .ok (v :: vs) := rfl
theorem evalPtrs_nil (Γ : List Ptr) (σ : State) : evalPtrs Γ σ [] = .ok [] := rfl
theorem evalPtrs_cons (Γ : List Ptr) (σ : State) (b : PBase) (o : Expr) (ps : List (PBase × Expr)) :
    evalPtrs Γ σ ((b, o) :: ps) = (eval Γ σ o).bind fun v => (ptrAt Γ σ.env b v).bind fun p =>
      (evalPtrs Γ σ ps).bind fun qs => .ok (p :: qs) := rfl
theorem exec_passign (Γ : List Ptr) (s : Nat) (b : PBase) (o : Expr) (f : Nat) (σ : State) :
    exec Γ (.passign s b o) f σ = (eval Γ σ o).bind fun v => (ptrAt Γ σ.env b v).bind fun p =>
      .ok (.norm, { σ with env := encPtr σ.env s p }) := rfl
theorem eval_ptrEq (Γ : List Ptr) (σ : State) (b1 b2 : PBase) (o1 o2 : Expr) :
    eval Γ σ (.ptrEq b1 o1 b2 o2) = (eval Γ σ o1).bind fun v1 => (eval Γ σ o2).bind fun v2 =>
      (ptrAt Γ σ.env b1 v1).bind fun p1 => (ptrAt Γ σ.env b2 v2).bind fun p2 => .ok (b2i (p1 = p2)) := rfl


end Spq.CIR
