/-
  Rounding is the identity on representable numbers: `rnd (val b) = val b` for every finite pattern `b`;
  consequences for `0 − x` and `0 + x` (the `addsub(0, ω)` trick of `cplx_fft_avx2_fma.c`).
-/
import SpqProofs.Lemmas.F64StdRnd
namespace Spq.F64

theorem sI_zero (s : Bool) : sI s 0 = 0 := by cases s <;> simp [sI]

theorem sI_neg_iff (s : Bool) (m : Nat) (hm : m ≠ 0) : decide (sI s m < 0) = s := by
  cases s <;> simp [sI] <;> omega

theorem sI_natAbs (s : Bool) (m : Nat) : (sI s m).natAbs = m := by
  cases s <;> simp [sI]

theorem decode_cases (b : Nat) (hfin : isFinite b = true) :
    ((decode b).m < 4503599627370496 ∧ (decode b).e = -1074) ∨
    (4503599627370496 ≤ (decode b).m ∧ (decode b).m < 9007199254740992 ∧ -1074 ≤ (decode b).e ∧ (decode b).e ≤ 971) := by
  unfold isFinite at hfin
  have hex : expField b < 2048 := by unfold expField; omega
  have hfr : fracField b < 4503599627370496 := by unfold fracField; omega
  have h47 : expField b ≠ 2047 := by simpa using hfin
  unfold decode
  by_cases h0 : expField b = 0
  · left; simp [h0, hfr]
  · right
    have : (expField b == 0) = false := by simpa using h0
    simp only [this, Bool.false_eq_true, if_false]
    refine ⟨by omega, by omega, by omega, by omega⟩

theorem shiftOf_decoded (m : Nat) (e : Int) (hm : m ≠ 0)
    (h : (m < 4503599627370496 ∧ e = -1074) ∨ (4503599627370496 ≤ m ∧ m < 9007199254740992 ∧ -1074 ≤ e ∧ e ≤ 971)) :
    shiftOf m e = 0 := by
  unfold shiftOf
  rcases h with ⟨h1, h2⟩ | ⟨h1, h2, h3, h4⟩
  · obtain ⟨b1, b2⟩ := log2_bounds hm
    have hL : m.log2 + 1 < 53 := by
      by_contra hc
      have : 2 ^ 53 ≤ 2 ^ (m.log2 + 1) := Nat.pow_le_pow_right (by omega) (by omega)
      omega
    subst h2
    split <;> omega
  · have hL : m.log2 + 1 = 53 := log2_succ_eq (by omega) (by omega)
    rw [hL]
    split <;> omega

/-- **rounding a representable number returns it** -/
theorem rnd_val (b : Nat) (hb : Fin64 b) : rnd (val b) = val b := by
  obtain ⟨hlt, hfin⟩ := hb
  have hc := decode_cases b hfin
  obtain ⟨s, m, e, hd⟩ : ∃ s m e, decode b = ⟨s, m, e⟩ := ⟨_, _, _, rfl⟩
  rw [hd] at hc
  simp only at hc
  have he : -1074 ≤ e := by rcases hc with ⟨_, h⟩ | ⟨_, _, h, _⟩ <;> omega
  rw [val_of_decode hd]
  show rnd ((sI s m : ℚ) * 2 ^ e) = sv s m e
  rw [rnd_scaled (sI s m) e (by omega) false]
  by_cases hm : m = 0
  · subst hm
    rw [sI_zero, packSigned_zero, val_sgn, sv_zero]
  have hv : sI s m ≠ 0 := by
    intro h0
    have := sI_natAbs s m
    rw [h0] at this
    simp at this
    omega
  rw [packSigned_ne_zero hv, sI_neg_iff s m hm, sI_natAbs, pack_eq s m e hm, shiftOf_decoded m e hm hc]
  have hr : rneI m 0 = m := by unfold rneI; simp
  rw [hr, add_zero]
  refine (encode_val s m e (by rcases hc with ⟨h, _⟩ | ⟨_, h, _, _⟩ <;> omega) ?_).2
  rcases hc with ⟨h1, h2⟩ | ⟨h1, h2, h3, h4⟩
  · exact Or.inl ⟨h1, h2⟩
  · exact Or.inr ⟨h1, h3, fun _ => h4, fun h => by omega⟩

end Spq.F64
