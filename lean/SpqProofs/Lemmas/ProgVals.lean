/-
  C16 helpers: under the abstraction relation `Prog.R`, the value clauses of the C08 / C09 / C05
  specifications (stated on heap cells, wrapping int64) are the abstract exact-integer values of
  `Prog.aval`, provided the exact result fits an int64 (resp. the `2^62` input bound of `normalize`).
-/
import SpqProofs.Lemmas.ProgSim
import SpqProofs.Lemmas.ProgOps
import SpqProofs.Properties.C08
import SpqProofs.Properties.C09
import SpqProofs.Properties.C05
namespace Spq.Prog
open Spq Heap Spq.C08 Rq

variable {nn hsz : Nat} {vars : List Var} {env : Env} {h : Heap Int}

theorem ext_of_lt (env : Env) (a : Var) (i c : Nat) (hi : i < a.size) : ext env a i c = (env a).coef i c := by
  simp [ext, hi]
theorem ext_of_ge (env : Env) (a : Var) (i : Nat) (hi : ¬ i < a.size) : ext env a i = fun _ => 0 := by
  funext c; simp [ext, hi]

/-! ### add / sub / negate / copy -/

theorem addVal_abs (hR : R nn hsz vars env h) (a b : Var) (ha : a ∈ vars) (hb : b ∈ vars) (i c : Nat)
    (hc : c < nn) (hfit : I64 (ext env a i c + ext env b i c)) :
    addVal i64Ops h.mem a.off a.size a.stride b.off b.size b.stride i c = ext env a i c + ext env b i c := by
  unfold addVal ext at *
  simp only [show i64Ops.zero = (0 : Int) from rfl]
  by_cases h1 : i < a.size <;> by_cases h2 : i < b.size
  · simp only [h1, h2, and_self, if_true] at hfit ⊢
    rw [getD_of_R hR a ha i c h1 hc, getD_of_R hR b hb i c h2 hc]; exact addS_exact _ _ hfit
  · simp only [h1, h2, and_false, if_true, if_false, Int.add_zero]
    exact getD_of_R hR a ha i c h1 hc
  · simp only [h1, h2, false_and, if_true, if_false, Int.zero_add]
    exact getD_of_R hR b hb i c h2 hc
  · simp [h1, h2]

theorem subVal_abs (hR : R nn hsz vars env h) (a b : Var) (ha : a ∈ vars) (hb : b ∈ vars) (i c : Nat)
    (hc : c < nn) (hfit : I64 (ext env a i c - ext env b i c)) :
    subVal i64Ops h.mem a.off a.size a.stride b.off b.size b.stride i c = ext env a i c - ext env b i c := by
  unfold subVal ext at *
  simp only [show i64Ops.zero = (0 : Int) from rfl]
  by_cases h1 : i < a.size <;> by_cases h2 : i < b.size
  · simp only [h1, h2, and_self, if_true] at hfit ⊢
    rw [getD_of_R hR a ha i c h1 hc, getD_of_R hR b hb i c h2 hc]; exact subS_exact _ _ hfit
  · simp only [h1, h2, and_false, if_true, if_false, Int.sub_zero]
    exact getD_of_R hR a ha i c h1 hc
  · simp only [h1, h2, false_and, if_true, if_false, Int.zero_sub] at hfit ⊢
    rw [getD_of_R hR b hb i c h2 hc]; exact negS_exact _ hfit
  · simp [h1, h2]

theorem negVal_abs (hR : R nn hsz vars env h) (a : Var) (ha : a ∈ vars) (i c : Nat)
    (hc : c < nn) (hfit : I64 (- ext env a i c)) :
    negVal i64Ops h.mem a.off a.size a.stride i c = - ext env a i c := by
  unfold negVal ext at *
  simp only [show i64Ops.zero = (0 : Int) from rfl]
  by_cases h1 : i < a.size
  · simp only [h1, if_true] at hfit ⊢
    rw [getD_of_R hR a ha i c h1 hc]; exact negS_exact _ hfit
  · simp [h1]

theorem copyVal_abs (hR : R nn hsz vars env h) (a : Var) (ha : a ∈ vars) (i c : Nat) (hc : c < nn) :
    copyVal i64Ops h.mem a.off a.size a.stride i c = ext env a i c := by
  unfold copyVal ext
  simp only [show i64Ops.zero = (0 : Int) from rfl]
  by_cases h1 : i < a.size
  · simp only [h1, if_true]; exact getD_of_R hR a ha i c h1 hc
  · simp [h1]

/-! ### limbs read from the heap -/

theorem readLimb_getD (hR : R nn hsz vars env h) (a : Var) (ha : a ∈ vars) (i : Nat) (hi : i < a.size)
    (j : Nat) (hj : j < nn) :
    (h.readLimb 0 (a.off + i * a.stride) nn).getD j 0 = ext env a i j := by
  rw [Array.getD_eq_getD_getElem?, getElem?_readLimb _ _ _ _ _ hj, Option.getD_some,
    getD_of_R hR a ha i j hi hj, ext_of_lt _ _ _ _ hi]

theorem polyRot_zero (nn : Nat) (p : Int) (k : Nat) : polyRot nn p (fun _ => 0) k = 0 := by
  simp [polyRot]

theorem polyAut_zero (nn : Nat) (p : Int) (k : Nat) : polyAut nn p (fun _ => 0) k = 0 := by
  unfold polyAut
  apply sumTo_zero
  intro j _
  simp [autTerm]

/-! ### rotate: both kernels (pointer-equality test of the C code) give `X^p · a` -/

theorem rotLimb_abs (hn : 0 < nn) (hR : R nn hsz vars env h) (p : Int) (d a : Var) (ha : a ∈ vars)
    (i c : Nat) (hc : c < nn) (hfit : I64 (polyRot nn p (ext env a i) c)) :
    (rotLimb i64Ops nn p h d.off d.stride a.off a.size a.stride i)[c]? =
      some (polyRot nn p (ext env a i) c) := by
  by_cases hi : i < a.size
  · have e : rotLimb i64Ops nn p h d.off d.stride a.off a.size a.stride i =
        Coeffs.rotate i64Ops nn p (h.readLimb 0 (a.off + i * a.stride) nn) := by
      unfold rotLimb
      rw [if_pos hi]
      split
      · exact C09.rotate_inplace_eq i64Ops nn p _ (size_readLimb _ _ _ _)
      · rfl
    rw [e, (C09.rotate_spec i64Ops nn p _).2 c hc]
    congr 1
    exact rotCoeff_eq_polyRot nn hn p _ _ (fun j hj => readLimb_getD hR a ha i hi j hj) c hfit
  · rw [rotLimb_zero_ext i64Ops nn p h d.off d.stride a.off a.size a.stride i c (by omega) hc,
      ext_of_ge env a i hi, polyRot_zero]; rfl

/-! ### automorphism: in place or out of place (whatever the prior content of the output limb) -/

theorem autLimb_abs (t : Nat) (hR : R (2 ^ t) hsz vars env h) (p : Int) (hp : p % 2 = 1) (d a : Var)
    (ha : a ∈ vars) (i c : Nat)
    (hfuel : i < a.size → d.off + i * d.stride = a.off + i * a.stride → t ≤ 64) (hc : c < 2 ^ t) (hfit : I64 (polyAut (2 ^ t) p (ext env a i) c)) :
    (autLimb i64Ops (2 ^ t) p h d.off d.stride a.off a.size a.stride i)[c]? =
      some (polyAut (2 ^ t) p (ext env a i) c) := by
  by_cases hi : i < a.size
  · obtain ⟨r0, hr0, e⟩ : ∃ r0 : Array Int, r0.size = 2 ^ t ∧
        autLimb i64Ops (2 ^ t) p h d.off d.stride a.off a.size a.stride i =
        Coeffs.automorphism i64Ops (2 ^ t) p (h.readLimb 0 (a.off + i * a.stride) (2 ^ t)) r0 := by
      unfold autLimb
      rw [if_pos hi]
      split
      · rename_i eq
        refine ⟨h.readLimb 0 (a.off + i * a.stride) (2 ^ t), size_readLimb _ _ _ _, ?_⟩
        exact C09.autom_inplace_eq i64Ops t (hfuel hi eq) p hp _ _ (size_readLimb _ _ _ _) (size_readLimb _ _ _ _)
      · exact ⟨_, size_readLimb _ _ _ _, rfl⟩
    obtain ⟨j, hj, ej⟩ := autPos_surj t p hp c hc
    obtain ⟨_, v, _⟩ := C09.autom_spec i64Ops t p hp (h.readLimb 0 (a.off + i * a.stride) (2 ^ t)) r0 hr0
    have v' := v j hj
    rw [ej] at v'
    rw [e, v']
    congr 1
    have pa := polyAut_at t p hp (ext env a i) j hj
    rw [ej] at pa
    rw [pa] at hfit ⊢
    exact autVal_eq (2 ^ t) p _ _ j (readLimb_getD hR a ha i hi j hj) hfit
  · rw [autLimb_zero_ext i64Ops (2 ^ t) p h d.off d.stride a.off a.size a.stride i c (by omega) hc,
      ext_of_ge env a i hi, polyAut_zero]; rfl

/-! ### normalize: the digit cells of C05 are the balanced digits of the abstract limbs -/

theorem coefLimbs_abs (hR : R nn hsz vars env h) (a : Var) (ha : a ∈ vars) (c : Nat) (hc : c < nn) :
    Norm.coefLimbs h.mem a.off a.size a.stride c = coefLimbs env a c := by
  unfold Norm.coefLimbs Norm.limbsFrom coefLimbs
  rw [List.range_eq_range']
  apply List.map_congr_left
  intro j hj
  simp only [List.mem_range'_1] at hj
  exact getD_of_R hR a ha j c (by omega) hc

theorem digitCell_abs (hR : R nn hsz vars env h) (k : Nat) (d a : Var) (ha : a ∈ vars) (i c : Nat)
    (hc : c < nn) :
    C05.digitCell k h.mem a.off a.size a.stride i c = aval nn env (.normalize k d a) i c := by
  show _ = (if i < a.size then (balancedDigits k (coefLimbs env a c)).1.getD i 0 else 0)
  unfold C05.digitCell
  rw [coefLimbs_abs hR a ha c hc, balancedDigits_eq]

end Spq.Prog
