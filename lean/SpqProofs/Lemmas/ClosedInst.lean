/-
  The hypotheses of the closed theorems (`RootData R k`) are satisfiable:
  * `realRoot k` — `R = ℝ`, EVERY `k`: `ζ = cos θ + i·sin θ`, `θ = π/(2m)` (`m = 2^k`), so the table entries are the
    real numbers `cos(2πe/4m)`, `sin(2πe/4m)`; `rd x = round(x / m)`.
  * `ratRoot` — `R = ℚ`, `k = 0` (`nn = 2`): `ζ = i`; everything computable.
  * `k4Root` — `R = ℚ(√2)(w)`, `w² = 2 + √2` (`w = 2cos(π/8)`), `k = 2` (`m = 4`, `nn = 8`, the smallest size with the
    reim4 layout and the FMA pointwise kernels): `ζ = cos(π/8) + i·sin(π/8) = w/2 + i·w(√2 − 1)/2`; characteristic 0,
    decidable equality, everything computable (the examples of `Properties/Closed.lean` evaluate the network).
-/
import SpqProofs.Lemmas.ClosedParts
import Mathlib.Analysis.SpecialFunctions.Trigonometric.Basic
import Mathlib.Algebra.Order.Round
import Mathlib.Algebra.QuadraticAlgebra.Defs
namespace Spq.Closed
open Spq

/-- de Moivre in `Cx ℝ` -/
theorem cis_pow (θ : ℝ) (e : ℕ) :
    (⟨Real.cos θ, Real.sin θ⟩ : Cx ℝ) ^ e = ⟨Real.cos (e * θ), Real.sin (e * θ)⟩ := by
  induction e with
  | zero => ext <;> simp
  | succ e ih =>
    rw [pow_succ, ih]
    have h : ((e + 1 : ℕ) : ℝ) * θ = e * θ + θ := by push_cast; ring
    ext
    · rw [Cx.mul_re, h, Real.cos_add]
    · rw [Cx.mul_im, h, Real.sin_add]; ring

/-- `R = ℝ`: the primitive 4m-th root of unity `exp(iπ/2m)`, every `m = 2^k` -/
noncomputable def realRoot (k : ℕ) : RootData ℝ k where
  ζ := ⟨Real.cos (Real.pi / (2 * 2 ^ k)), Real.sin (Real.pi / (2 * 2 ^ k))⟩
  hζ := by
    rw [cis_pow]
    have h : ((2 ^ k : ℕ) : ℝ) * (Real.pi / (2 * 2 ^ k)) = Real.pi / 2 := by
      push_cast; field_simp
    rw [h, Real.cos_pi_div_two, Real.sin_pi_div_two]
    rfl
  hnorm := by
    ext
    · simp only [conj, Cx.mul_re, Cx.one_re]
      have := Real.cos_sq_add_sin_sq (Real.pi / (2 * 2 ^ k))
      linarith [this]
    · simp only [conj, Cx.mul_im, Cx.one_im]; ring
  rd := fun x => round (x / ((2 ^ k : ℕ) : ℝ))
  hrd := by
    intro n
    have h : ((2 ^ k : ℕ) : ℝ) ≠ 0 := by positivity
    rw [mul_div_cancel_left₀ _ h]
    exact round_intCast n

/-- `R = ℚ`, `m = 1`: `ζ = i` -/
def ratRoot : RootData ℚ 0 where
  ζ := Cx.I
  hζ := by simp
  hnorm := by ext <;> simp [conj]
  rd := fun q => ⌊q⌋
  hrd := by intro n; simp

/-- `ℚ(√2)` -/
abbrev K2 := QuadraticAlgebra ℚ 2 0
/-- `ℚ(√2)(w)`, `w² = 2 + √2` -/
abbrev K4 := QuadraticAlgebra K2 ⟨2, 1⟩ 0

/-- `ζ₁₆ = cos(π/8) + i·sin(π/8)` with `2cos(π/8) = w`, `2sin(π/8) = w(√2 − 1)` -/
def z16 : Cx K4 :=
  let w : K4 := ⟨0, 1⟩
  let r2 : K4 := ⟨⟨0, 1⟩, 0⟩
  let half : K4 := ⟨⟨1 / 2, 0⟩, 0⟩
  ⟨w * half, w * (r2 - 1) * half⟩

/-- `R = ℚ(√2, w)`, `m = 4`: a primitive 16-th root of unity in characteristic 0, decidable -/
def k4Root : RootData K4 2 where
  ζ := z16
  hζ := by ext <;> decide +kernel
  hnorm := by ext <;> decide +kernel
  rd := fun x => ⌊x.re.re / 4⌋
  hrd := by
    intro n
    have e : (((2 ^ 2 : ℕ) : K4) * (n : K4)).re.re = 4 * (n : ℚ) := by
      simp [QuadraticAlgebra.re_intCast, QuadraticAlgebra.re_ofNat]
    show ⌊(((2 ^ 2 : ℕ) : K4) * (n : K4)).re.re / 4⌋ = n
    rw [e, mul_div_cancel_left₀ _ (by norm_num : (4 : ℚ) ≠ 0)]
    exact Int.floor_intCast n

end Spq.Closed
