/-
  C02 rounding budget, step 2: the cells of the four reim4 dot-product kernels, for ANY arithmetic record, are the
  scalar recurrences of `VmpErrDot.lean` applied to the lane data.
-/
import SpqProofs.Lemmas.VmpErrDot
namespace Spq.VmpErr
open Spq Spq.Reim4
variable {α : Type}

/-- lane `k` of row `i` of the vector block (`8` cells per row): real / imaginary part -/
def uRe (z : α) (u : Array α) (k : ℕ) : ℕ → α := fun i => u.getD (8 * i + k) z
def uIm (z : α) (u : Array α) (k : ℕ) : ℕ → α := fun i => u.getD (8 * i + k + 4) z
/-- lane `k` of row `i` of a matrix block with `w` cells per row (`w = 8`: one column, `w = 16`: a column pair),
    column offset `o` (`0` or `8`) -/
def vRe (z : α) (v : Array α) (w o k : ℕ) : ℕ → α := fun i => v.getD (w * i + o + k) z
def vIm (z : α) (v : Array α) (w o k : ℕ) : ℕ → α := fun i => v.getD (w * i + o + k + 4) z

/-- `reim4_vec_mat1col_product_ref` -/
theorem mat1colRef_cells (ar : RArith α) (n : ℕ) (dst u v : Array α) (hb : 8 ≤ dst.size) (k : ℕ) (hk : k < 4) :
    (vecMat1colProductRef ar n dst u v).size = dst.size ∧
    (vecMat1colProductRef ar n dst u v).getD k ar.zero =
      refRe ar (uRe ar.zero u k) (uIm ar.zero u k) (vRe ar.zero v 8 0 k) (vIm ar.zero v 8 0 k) n ∧
    (vecMat1colProductRef ar n dst u v).getD (k + 4) ar.zero =
      refIm ar (uRe ar.zero u k) (uIm ar.zero u k) (vRe ar.zero v 8 0 k) (vIm ar.zero v 8 0 k) n := by
  unfold vecMat1colProductRef
  simp only []
  induction n with
  | zero =>
    obtain ⟨z1, z2, _⟩ := zeroAt_spec ar dst 0 (by omega)
    have a := z2 k (by omega)
    have b := z2 (k + 4) (by omega)
    rw [Nat.zero_add] at a b
    simp only [Nat.fold_zero]
    exact ⟨z1, a, b⟩
  | succ n ih =>
    simp only [Nat.fold_succ]
    generalize Nat.fold n (fun i _ dst => addMulAt ar dst 0 u (8 * i) v (8 * i)) (zeroAt ar dst 0) = rn at ih
    obtain ⟨s1, i1, i2⟩ := ih
    obtain ⟨t1, t2, _⟩ := addMulAt_spec ar rn 0 u (8 * n) v (8 * n) (by omega)
    obtain ⟨a, b⟩ := t2 k hk
    rw [Nat.zero_add] at a b
    refine ⟨by rw [t1, s1], ?_, ?_⟩
    · rw [a, i1, refRe]
      simp only [uRe, uIm, vRe, vIm, Nat.add_zero]
    · rw [b, i2, refIm]
      simp only [uRe, uIm, vRe, vIm, Nat.add_zero]

/-- `reim4_vec_mat1col_product_avx2` -/
theorem mat1colAvx2_cells' (ar : RArith α) (n : ℕ) (dst u v : Array α) (hb : 8 ≤ dst.size) (k : ℕ) (hk : k < 4) :
    (vecMat1colProductAvx2 ar n dst u v).size = dst.size ∧
    (vecMat1colProductAvx2 ar n dst u v).getD k ar.zero =
      av1Re ar (uRe ar.zero u k) (uIm ar.zero u k) (vRe ar.zero v 8 0 k) (vIm ar.zero v 8 0 k) n ∧
    (vecMat1colProductAvx2 ar n dst u v).getD (k + 4) ar.zero =
      av1Im ar (uRe ar.zero u k) (uIm ar.zero u k) (vRe ar.zero v 8 0 k) (vIm ar.zero v 8 0 k) n := by
  obtain ⟨c1, c2⟩ := mat1colAvx2_cells ar n dst u v hb k hk
  have q : ∀ i, 8 * i + 4 + k = 8 * i + k + 4 := by intro i; omega
  refine ⟨by unfold vecMat1colProductAvx2; simp, ?_, ?_⟩
  · rw [c1]; simp only [q]; rfl
  · rw [c2]; simp only [q]; rfl

/-- `reim4_vec_mat2cols_product_ref`: the first column sits in cells `0..7`, the second in `8..15` -/
theorem mat2colsRef_cells (ar : RArith α) (n : ℕ) (dst u v : Array α) (hb : 16 ≤ dst.size) (k : ℕ) (hk : k < 4) :
    (vecMat2colsProductRef ar n dst u v).size = dst.size ∧
    (vecMat2colsProductRef ar n dst u v).getD k ar.zero =
      refRe ar (uRe ar.zero u k) (uIm ar.zero u k) (vRe ar.zero v 16 0 k) (vIm ar.zero v 16 0 k) n ∧
    (vecMat2colsProductRef ar n dst u v).getD (k + 4) ar.zero =
      refIm ar (uRe ar.zero u k) (uIm ar.zero u k) (vRe ar.zero v 16 0 k) (vIm ar.zero v 16 0 k) n ∧
    (vecMat2colsProductRef ar n dst u v).getD (8 + k) ar.zero =
      refRe ar (uRe ar.zero u k) (uIm ar.zero u k) (vRe ar.zero v 16 8 k) (vIm ar.zero v 16 8 k) n ∧
    (vecMat2colsProductRef ar n dst u v).getD (8 + k + 4) ar.zero =
      refIm ar (uRe ar.zero u k) (uIm ar.zero u k) (vRe ar.zero v 16 8 k) (vIm ar.zero v 16 8 k) n := by
  unfold vecMat2colsProductRef
  simp only []
  induction n with
  | zero =>
    obtain ⟨z1, z2, _⟩ := zeroAt_spec ar dst 0 (by omega)
    obtain ⟨y1, y2, y3⟩ := zeroAt_spec ar (zeroAt ar dst 0) 8 (by rw [z1]; omega)
    have a := z2 k (by omega)
    have b := z2 (k + 4) (by omega)
    rw [Nat.zero_add] at a b
    simp only [Nat.fold_zero]
    refine ⟨by rw [y1, z1], ?_, ?_, ?_, ?_⟩
    · rw [y3 k (by omega), a]; rfl
    · rw [y3 (k + 4) (by omega), b]; rfl
    · rw [y2 k (by omega)]; rfl
    · rw [Nat.add_assoc, y2 (k + 4) (by omega)]; rfl
  | succ n ih =>
    simp only [Nat.fold_succ]
    generalize Nat.fold n (fun i _ dst => vecMat2colsRefStep ar u v i dst) (zeroAt ar (zeroAt ar dst 0) 8) = rn at ih
    obtain ⟨s1, i1, i2, i3, i4⟩ := ih
    unfold vecMat2colsRefStep
    simp only []
    obtain ⟨t1, t2, t3⟩ := addMulAt_spec ar rn 0 u (8 * n) v (2 * (8 * n)) (by omega)
    obtain ⟨w1, w2, w3⟩ := addMulAt_spec ar (addMulAt ar rn 0 u (8 * n) v (2 * (8 * n))) 8 u (8 * n) v (2 * (8 * n) + 8)
      (by rw [t1]; omega)
    obtain ⟨a, b⟩ := t2 k hk
    obtain ⟨c, d⟩ := w2 k hk
    rw [Nat.zero_add] at a b
    have e16 : 2 * (8 * n) = 16 * n := by omega
    refine ⟨by rw [w1, t1, s1], ?_, ?_, ?_, ?_⟩
    · rw [w3 k (by omega), a, i1, refRe]
      simp only [uRe, uIm, vRe, vIm, Nat.add_zero, e16]
    · rw [w3 (k + 4) (by omega), b, i2, refIm]
      simp only [uRe, uIm, vRe, vIm, Nat.add_zero, e16]
    · rw [c, t3 (8 + k) (by omega), i3, refRe]
      simp only [uRe, uIm, vRe, vIm, e16]
    · rw [d, t3 (8 + k + 4) (by omega), i4, refIm]
      simp only [uRe, uIm, vRe, vIm, e16]

/-- lanes of the four accumulators of `reim4_vec_mat2cols_product_avx2` after `n` rows -/
theorem mat2colsAvx2_chain (ar : RArith α) (n : ℕ) (u v : Array α) (l : ℕ) (hl : l < 4) :
    let acc := Nat.fold n (fun i _ s => vecMat2colsAvx2Step ar u v i s)
      (V4.splat ar.zero, V4.splat ar.zero, V4.splat ar.zero, V4.splat ar.zero)
    acc.1.lane l = av2Re ar (uRe ar.zero u l) (uIm ar.zero u l) (vRe ar.zero v 16 0 l) (vIm ar.zero v 16 0 l) n ∧
    acc.2.1.lane l = av2Im ar (uRe ar.zero u l) (uIm ar.zero u l) (vRe ar.zero v 16 0 l) (vIm ar.zero v 16 0 l) n ∧
    acc.2.2.1.lane l = av2Re ar (uRe ar.zero u l) (uIm ar.zero u l) (vRe ar.zero v 16 8 l) (vIm ar.zero v 16 8 l) n ∧
    acc.2.2.2.lane l = av2Im ar (uRe ar.zero u l) (uIm ar.zero u l) (vRe ar.zero v 16 8 l) (vIm ar.zero v 16 8 l) n := by
  induction n with
  | zero => simp [Nat.fold_zero, V4.lane_splat, av2Re, av2Im]
  | succ n ih =>
    simp only [Nat.fold_succ]
    generalize Nat.fold n (fun i _ s => vecMat2colsAvx2Step ar u v i s)
      (V4.splat ar.zero, V4.splat ar.zero, V4.splat ar.zero, V4.splat ar.zero) = s at ih
    obtain ⟨re1, im1, re2, im2⟩ := s
    obtain ⟨h1, h2, h3, h4⟩ := ih
    simp only at h1 h2 h3 h4
    have q1 : 16 * n + 4 + l = 16 * n + 0 + l + 4 := by omega
    have q2 : 16 * n + 8 + l = 16 * n + 8 + l := rfl
    have q3 : 16 * n + 12 + l = 16 * n + 8 + l + 4 := by omega
    have q4 : 8 * n + 4 + l = 8 * n + l + 4 := by omega
    have q5 : 16 * n + l = 16 * n + 0 + l := by omega
    simp only [vecMat2colsAvx2Step, V4.fmadd, V4.fmsub, V4.lane_map3, V4.lane_load _ _ _ _ hl, av2Re, av2Im, h1, h2, h3, h4,
      uRe, uIm, vRe, vIm, q1, q3, q4, q5, and_self]

/-- `reim4_vec_mat2cols_product_avx2` -/
theorem mat2colsAvx2_cells (ar : RArith α) (n : ℕ) (dst u v : Array α) (hb : 16 ≤ dst.size) (k : ℕ) (hk : k < 4) :
    (vecMat2colsProductAvx2 ar n dst u v).size = dst.size ∧
    (vecMat2colsProductAvx2 ar n dst u v).getD k ar.zero =
      av2Re ar (uRe ar.zero u k) (uIm ar.zero u k) (vRe ar.zero v 16 0 k) (vIm ar.zero v 16 0 k) n ∧
    (vecMat2colsProductAvx2 ar n dst u v).getD (k + 4) ar.zero =
      av2Im ar (uRe ar.zero u k) (uIm ar.zero u k) (vRe ar.zero v 16 0 k) (vIm ar.zero v 16 0 k) n ∧
    (vecMat2colsProductAvx2 ar n dst u v).getD (8 + k) ar.zero =
      av2Re ar (uRe ar.zero u k) (uIm ar.zero u k) (vRe ar.zero v 16 8 k) (vIm ar.zero v 16 8 k) n ∧
    (vecMat2colsProductAvx2 ar n dst u v).getD (8 + k + 4) ar.zero =
      av2Im ar (uRe ar.zero u k) (uIm ar.zero u k) (vRe ar.zero v 16 8 k) (vIm ar.zero v 16 8 k) n := by
  generalize hacc : Nat.fold n (fun i _ s => vecMat2colsAvx2Step ar u v i s)
    (V4.splat ar.zero, V4.splat ar.zero, V4.splat ar.zero, V4.splat ar.zero) = acc
  have e : vecMat2colsProductAvx2 ar n dst u v =
      V4.store (V4.store (V4.store (V4.store dst 0 acc.1) 4 acc.2.1) 8 acc.2.2.1) 12 acc.2.2.2 := by
    rw [← hacc]; rfl
  obtain ⟨c1, c2, c3, c4⟩ := mat2colsAvx2_chain ar n u v k hk
  rw [hacc] at c1 c2 c3 c4
  have g0 := V4.getD_store_in dst 0 acc.1 k ar.zero hk (by omega)
  rw [Nat.zero_add] at g0
  have e4 : k + 4 = 4 + k := by omega
  have e12 : 8 + k + 4 = 12 + k := by omega
  refine ⟨by rw [e]; simp, ?_, ?_, ?_, ?_⟩
  · rw [e, V4.getD_store_out _ _ _ _ _ (by omega), V4.getD_store_out _ _ _ _ _ (by omega),
      V4.getD_store_out _ _ _ _ _ (by omega), g0, c1]
  · rw [e, e4, V4.getD_store_out _ _ _ _ _ (by omega), V4.getD_store_out _ _ _ _ _ (by omega),
      V4.getD_store_in _ _ _ _ _ hk (by rw [V4.size_store]; omega), c2]
  · rw [e, V4.getD_store_out _ _ _ _ _ (by omega),
      V4.getD_store_in _ _ _ _ _ hk (by rw [V4.size_store, V4.size_store]; omega), c3]
  · rw [e, e12, V4.getD_store_in _ _ _ _ _ hk (by rw [V4.size_store, V4.size_store, V4.size_store]; omega), c4]

end Spq.VmpErr
