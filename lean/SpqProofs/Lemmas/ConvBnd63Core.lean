/-
  Integer core of the repaired `reim_to_znx64_avx2_bnd63_fma` (offset = pred(d/2) = d·(1/2 − 2^-54)):
  with `X = |x|`, `D = d`, `Dh = d/2`, `δ = d·2^-54` in a common unit, the rounded sum `fl(X + Dh − δ)` never
  crosses a multiple of `D` in the wrong direction.  Pure `Nat` arithmetic on powers of two.
-/
import SpqProofs.Lemmas.F64Pack

namespace Spq.Conv
open Spq.F64

theorem pow2_lt_imp {a b : Nat} (h : 2 ^ a < 2 ^ b) : a < b := (Nat.pow_lt_pow_iff_right (a := 2) (by norm_num)).1 h
theorem pow2_le_of_le {a b : Nat} (h : a ≤ b) : 2 ^ a ≤ 2 ^ b := Nat.pow_le_pow_right (by norm_num) h

/-- `2^a·m < 2^b·n`-style comparisons reduced to exponents: from `2^52·2^k < 2^s·2^r` get `k + 52 < s + r` -/
theorem exp_lt_of_mul_lt {k s r : Nat} (h : 4503599627370496 * 2 ^ k < 2 ^ s * 2 ^ r) : k + 52 < s + r := by
  have h52 : (4503599627370496 : Nat) = 2 ^ 52 := by norm_num
  rw [h52, ← pow_add, ← pow_add] at h
  have := pow2_lt_imp h
  omega

/-- facts about the powers of two of the divisor: `D = 2·Dh`, `Dh = 2^53·δ` -/
theorem divisor_pows (dd : Nat) (hdd : 54 ≤ dd) :
    2 ^ dd = 2 * 2 ^ (dd - 1) ∧ 2 ^ (dd - 1) = 9007199254740992 * 2 ^ (dd - 54) := by
  constructor
  · rw [← pow_succ']; congr 1; omega
  · have : (9007199254740992 : Nat) = 2 ^ 53 := by norm_num
    rw [this, ← pow_add]; congr 1; omega

/-- the grid of the sum is at most the divisor: `k ≤ dd` on the domain `X < 2^52·D` -/
theorem grid_le_divisor (X dd k : Nat) (hdd : 54 ≤ dd) (hdom : X < 4503599627370496 * 2 ^ dd)
    (hlo : 4503599627370496 * 2 ^ k ≤ X + 9007199254740991 * 2 ^ (dd - 54)) : k ≤ dd := by
  obtain ⟨h1, h2⟩ := divisor_pows dd hdd
  have hV : X + 9007199254740991 * 2 ^ (dd - 54) < 2 ^ 53 * 2 ^ dd := by
    have : (2 : Nat) ^ 53 = 9007199254740992 := by norm_num
    rw [this]
    have hpos : 0 < 2 ^ (dd - 54) := by positivity
    omega
  have := exp_lt_of_mul_lt (lt_of_le_of_lt hlo hV)
  omega

/-- Upper side: if `N·D ≤ X + Dh < (N+1)·D` then `V = X + Dh − δ` is strictly below the midpoint between
    `(N+1)·D − G` and `(N+1)·D` on its rounding grid `G = 2^k`: `2V + G < 2(N+1)D`. -/
theorem core63_upper (mx k1 dd k N ρ : Nat) (hmx : mx < 9007199254740992) (hdd : 54 ≤ dd)
    (hdom : mx * 2 ^ k1 < 4503599627370496 * 2 ^ dd)
    (hlo : 4503599627370496 * 2 ^ k ≤ mx * 2 ^ k1 + 9007199254740991 * 2 ^ (dd - 54))
    (hN : N * 2 ^ dd + ρ = mx * 2 ^ k1 + 2 ^ (dd - 1)) (hρ : ρ < 2 ^ dd) :
    2 * (mx * 2 ^ k1 + 9007199254740991 * 2 ^ (dd - 54)) + 2 ^ k < 2 * ((N + 1) * 2 ^ dd) := by
  obtain ⟨hD, hDh⟩ := divisor_pows dd hdd
  have hkdd := grid_le_divisor _ dd k hdd hdom hlo
  have hGD : 2 ^ k ≤ 2 ^ dd := pow2_le_of_le hkdd
  have hδpos : 0 < 2 ^ (dd - 54) := by positivity
  rw [Nat.add_mul, Nat.one_mul]
  -- goal in terms of g = D − ρ : G < 2g + 2δ
  rcases Nat.lt_or_ge (mx * 2 ^ k1) (9007199254740991 * 2 ^ (dd - 54)) with hsmall | hbig
  · -- X < H' : V < D, so G ≤ 2δ
    have hV : 4503599627370496 * 2 ^ k < 2 ^ 54 * 2 ^ (dd - 54) := by
      have : (2 : Nat) ^ 54 = 18014398509481984 := by norm_num
      rw [this]; omega
    have hk := exp_lt_of_mul_lt hV
    have hG : 2 ^ k ≤ 2 ^ (dd - 53) := pow2_le_of_le (by omega)
    have h2δ : 2 ^ (dd - 53) = 2 * 2 ^ (dd - 54) := by rw [← pow_succ']; congr 1; omega
    omega
  · -- X ≥ H' : V ≤ 2X < 2^54·c, so G ≤ 2c
    have hV : 4503599627370496 * 2 ^ k < 2 ^ 54 * 2 ^ k1 := by
      have : (2 : Nat) ^ 54 = 18014398509481984 := by norm_num
      rw [this]
      have hc : 0 < 2 ^ k1 := by positivity
      nlinarith
    have hk := exp_lt_of_mul_lt hV
    have hG : 2 ^ k ≤ 2 ^ (k1 + 1) := pow2_le_of_le (by omega)
    rw [pow_succ] at hG
    rcases Nat.lt_or_ge k1 dd with hk1 | hk1
    · -- c divides D, Dh, X, hence g = D − ρ ≥ c
      have hcD : 2 ^ k1 ∣ 2 ^ dd := pow_dvd_pow 2 (by omega)
      have hcDh : 2 ^ k1 ∣ 2 ^ (dd - 1) := pow_dvd_pow 2 (by omega)
      have hcX : 2 ^ k1 ∣ mx * 2 ^ k1 := Dvd.intro_left _ rfl
      have hcρ : 2 ^ k1 ∣ ρ := by
        have h1 : 2 ^ k1 ∣ N * 2 ^ dd + ρ := by rw [hN]; exact Nat.dvd_add hcX hcDh
        exact (Nat.dvd_add_right (Dvd.dvd.mul_left hcD N)).1 h1
      have hcg : 2 ^ k1 ∣ 2 ^ dd - ρ := Nat.dvd_sub hcD hcρ
      have hg : 2 ^ k1 ≤ 2 ^ dd - ρ := Nat.le_of_dvd (by omega) hcg
      omega
    · -- X is a multiple of D : ρ = Dh
      have hDX : 2 ^ dd ∣ mx * 2 ^ k1 := Dvd.dvd.mul_left (pow_dvd_pow 2 hk1) mx
      obtain ⟨z, hz⟩ := hDX
      have hρeq : ρ = 2 ^ (dd - 1) := by
        have h1 : (N * 2 ^ dd + ρ) % 2 ^ dd = ρ := by
          rw [Nat.mul_comm, Nat.mul_add_mod, Nat.mod_eq_of_lt hρ]
        have h2 : (mx * 2 ^ k1 + 2 ^ (dd - 1)) % 2 ^ dd = 2 ^ (dd - 1) := by
          rw [hz, Nat.mul_add_mod, Nat.mod_eq_of_lt (by omega)]
        rw [hN, h2] at h1
        exact h1.symm
      omega

/-- Lower side: the smallest multiple `N'·D` of `D` with `X − Dh ≤ N'·D` is `≤ V = X + Dh − δ`
    (a representable `X` cannot sit within `δ = D·2^-54` above a half-integer multiple of `D`). -/
theorem core63_lower (mx k1 dd N' ρ' : Nat) (hmx : mx < 9007199254740992) (hdd : 54 ≤ dd)
    (hN : N' * 2 ^ dd + ρ' + 1 = mx * 2 ^ k1 + 2 ^ (dd - 1)) (hρ : ρ' < 2 ^ dd) :
    N' * 2 ^ dd ≤ mx * 2 ^ k1 + 9007199254740991 * 2 ^ (dd - 54) := by
  obtain ⟨hD, hDh⟩ := divisor_pows dd hdd
  have hδpos : 0 < 2 ^ (dd - 54) := by positivity
  by_contra hcon
  -- then ε = ρ' + 1 < δ
  have hε : ρ' + 1 < 2 ^ (dd - 54) := by omega
  rcases Nat.eq_zero_or_pos N' with h0 | hpos
  · subst h0; omega
  · -- X > Dh = 2^53·δ, hence c > δ
    have hND : 2 ^ dd ≤ N' * 2 ^ dd := Nat.le_mul_of_pos_left _ hpos
    have hX : 9007199254740992 * 2 ^ (dd - 54) < mx * 2 ^ k1 := by omega
    have hc : 2 ^ (dd - 54) < 2 ^ k1 := by
      have hcpos : 0 < 2 ^ k1 := by positivity
      by_contra hle
      have : mx * 2 ^ k1 ≤ mx * 2 ^ (dd - 54) := Nat.mul_le_mul_left _ (by omega)
      have : mx * 2 ^ (dd - 54) < 9007199254740992 * 2 ^ (dd - 54) := Nat.mul_lt_mul_of_pos_right hmx hδpos
      omega
    have hk1 := pow2_lt_imp hc
    have hc2 : 2 ^ (dd - 53) ≤ 2 ^ k1 := pow2_le_of_le (by omega)
    have h2δ : 2 ^ (dd - 53) = 2 * 2 ^ (dd - 54) := by rw [← pow_succ']; congr 1; omega
    rcases Nat.lt_or_ge k1 dd with hk | hk
    · have hcD : 2 ^ k1 ∣ 2 ^ dd := pow_dvd_pow 2 (by omega)
      have hcDh : 2 ^ k1 ∣ 2 ^ (dd - 1) := pow_dvd_pow 2 (by omega)
      have hcX : 2 ^ k1 ∣ mx * 2 ^ k1 := Dvd.intro_left _ rfl
      have hcε : 2 ^ k1 ∣ ρ' + 1 := by
        have h1 : 2 ^ k1 ∣ N' * 2 ^ dd + (ρ' + 1) := by rw [← Nat.add_assoc, hN]; exact Nat.dvd_add hcX hcDh
        exact (Nat.dvd_add_right (Dvd.dvd.mul_left hcD N')).1 h1
      have := Nat.le_of_dvd (by omega) hcε
      omega
    · have hDX : 2 ^ dd ∣ mx * 2 ^ k1 := Dvd.dvd.mul_left (pow_dvd_pow 2 hk) mx
      obtain ⟨z, hz⟩ := hDX
      have h1 : (N' * 2 ^ dd + (ρ' + 1)) % 2 ^ dd = ρ' + 1 := by
        rw [Nat.mul_comm, Nat.mul_add_mod, Nat.mod_eq_of_lt (by omega)]
      have h2 : (mx * 2 ^ k1 + 2 ^ (dd - 1)) % 2 ^ dd = 2 ^ (dd - 1) := by
        rw [hz, Nat.mul_add_mod, Nat.mod_eq_of_lt (by omega)]
      rw [← Nat.add_assoc, hN, h2] at h1
      omega

/-- The integer part of the rounded sum is a correct rounding of `X/D`:
    with `F = rne V k` (significand of `fl(X + Dh − δ)` on the grid `2^k`, `k ≤ dd`) and `R = ⌊F / 2^(dd−k)⌋`,
    `R·D ≤ X + Dh` and `X ≤ R·D + Dh`. -/
theorem core63 (mx k1 dd k : Nat) (hmx : mx < 9007199254740992) (hdd : 54 ≤ dd)
    (hdom : mx * 2 ^ k1 < 4503599627370496 * 2 ^ dd)
    (hlo : 4503599627370496 * 2 ^ k ≤ mx * 2 ^ k1 + 9007199254740991 * 2 ^ (dd - 54)) :
    k ≤ dd ∧
    rne (mx * 2 ^ k1 + 9007199254740991 * 2 ^ (dd - 54)) k / 2 ^ (dd - k) * 2 ^ dd ≤ mx * 2 ^ k1 + 2 ^ (dd - 1) ∧
    mx * 2 ^ k1 ≤ rne (mx * 2 ^ k1 + 9007199254740991 * 2 ^ (dd - 54)) k / 2 ^ (dd - k) * 2 ^ dd + 2 ^ (dd - 1) := by
  obtain ⟨hD, hDh⟩ := divisor_pows dd hdd
  have hkdd := grid_le_divisor _ dd k hdd hdom hlo
  refine ⟨hkdd, ?_⟩
  obtain ⟨X, hX⟩ : ∃ X, X = mx * 2 ^ k1 := ⟨_, rfl⟩
  obtain ⟨V, hV⟩ : ∃ V, V = mx * 2 ^ k1 + 9007199254740991 * 2 ^ (dd - 54) := ⟨_, rfl⟩
  have hT : 0 < 2 ^ (dd - k) := by positivity
  have hG : 0 < 2 ^ k := by positivity
  have hDpos : 0 < 2 ^ dd := by positivity
  have hTG : 2 ^ (dd - k) * 2 ^ k = 2 ^ dd := by rw [← pow_add]; congr 1; omega
  obtain ⟨e1, _⟩ := rne_err V k
  constructor
  · -- upper
    have hdm := Nat.div_add_mod (mx * 2 ^ k1 + 2 ^ (dd - 1)) (2 ^ dd)
    have hml := Nat.mod_lt (mx * 2 ^ k1 + 2 ^ (dd - 1)) hDpos
    obtain ⟨N, hN⟩ : ∃ N, N = (mx * 2 ^ k1 + 2 ^ (dd - 1)) / 2 ^ dd := ⟨_, rfl⟩
    rw [← hN, Nat.mul_comm] at hdm
    have hup := core63_upper mx k1 dd k N _ hmx hdd hdom hlo hdm hml
    rw [← hV] at hup ⊢
    have hF : rne V k * 2 ^ k < (N + 1) * 2 ^ dd := by omega
    rw [← hTG, ← Nat.mul_assoc] at hF
    have hF2 : rne V k < (N + 1) * 2 ^ (dd - k) := Nat.lt_of_mul_lt_mul_right hF
    have hR : rne V k / 2 ^ (dd - k) < N + 1 := (Nat.div_lt_iff_lt_mul hT).2 hF2
    have : rne V k / 2 ^ (dd - k) * 2 ^ dd ≤ N * 2 ^ dd := Nat.mul_le_mul_right _ (by omega)
    omega
  · -- lower
    have hDhpos : 0 < 2 ^ (dd - 1) := by positivity
    have hdm := Nat.div_add_mod (mx * 2 ^ k1 + 2 ^ (dd - 1) - 1) (2 ^ dd)
    have hml := Nat.mod_lt (mx * 2 ^ k1 + 2 ^ (dd - 1) - 1) hDpos
    obtain ⟨N', hN'⟩ : ∃ N', N' = (mx * 2 ^ k1 + 2 ^ (dd - 1) - 1) / 2 ^ dd := ⟨_, rfl⟩
    obtain ⟨ρ', hρ'⟩ : ∃ ρ', ρ' = (mx * 2 ^ k1 + 2 ^ (dd - 1) - 1) % 2 ^ dd := ⟨_, rfl⟩
    rw [← hN', ← hρ', Nat.mul_comm] at hdm
    rw [← hρ'] at hml
    have hN1 : N' * 2 ^ dd + ρ' + 1 = mx * 2 ^ k1 + 2 ^ (dd - 1) := by omega
    have hlow := core63_lower mx k1 dd N' ρ' hmx hdd hN1 hml
    rw [← hV] at hlow ⊢
    rw [← hTG, ← Nat.mul_assoc] at hlow
    have hF : N' * 2 ^ (dd - k) ≤ rne V k := le_rne hlow
    have hR : N' ≤ rne V k / 2 ^ (dd - k) := (Nat.le_div_iff_mul_le hT).2 hF
    have : N' * 2 ^ dd ≤ rne V k / 2 ^ (dd - k) * 2 ^ dd := Nat.mul_le_mul_right _ hR
    omega

end Spq.Conv
