/-
  No-overflow from a magnitude box, step 3: the level networks.  Level-indexed unary invariants for `VN` / `VNI`, the
  bound network (`8^ℓ·U₀` after `ℓ` levels), and the per-block butterfly on the bound arithmetic.
-/
import SpqProofs.Lemmas.VmpErrOvf2
import SpqProofs.Lemmas.FftErrSchedIXfer
set_option linter.unusedSectionVars false
namespace Spq.VmpErr
open Spq Spq.F64 Spq.Fft Spq.Fft.Alg Spq.Fft.RelN Spq.Fft.SimP Spq.Fft.LevelN Spq.Fft.SchedN Spq.Fft.Sim Spq.FftErr

/-- level-indexed invariant of the forward network (cells of one transform) -/
theorem VN_lvl_on {γ : Type} (P : ℕ → γ → Prop) (g : ℕ → ℕ → ℕ → γ → γ → γ × γ) (k : ℕ)
    (hg : ∀ ℓ d b u v, ℓ + d + 1 = k → P ℓ u → P ℓ v → P (ℓ + 1) (g ℓ d b u v).1 ∧ P (ℓ + 1) (g ℓ d b u v).2)
    (a : ℕ → γ) (ha : ∀ p, p < 2 ^ k → P 0 (a p)) :
    ∀ ℓ d p, ℓ + d = k → p < 2 ^ k → P ℓ (VN g a ℓ d p) := by
  intro ℓ
  induction ℓ with
  | zero => intro d p _ hp; exact ha p hp
  | succ ℓ ih =>
    intro d p hk hp
    have hk' : ℓ + (d + 1) = k := by omega
    obtain ⟨h, hh⟩ : ∃ h, h = 2 ^ d := ⟨_, rfl⟩
    have hpos : 0 < h := by rw [hh]; exact Nat.two_pow_pos d
    have hk2 : 2 ^ k = 2 * h * 2 ^ ℓ := by rw [← hk, hh, pow_add, pow_add]; ring
    rw [VN]
    simp only [← hh]
    split
    · rename_i hlt
      have hp2 : p + h < 2 ^ k := by
        have hb : p / (2 * h) < 2 ^ ℓ := by
          apply Nat.div_lt_of_lt_mul; rw [← hk2]; exact hp
        have hblk : 2 * h * (p / (2 * h) + 1) ≤ 2 ^ k := by rw [hk2]; exact Nat.mul_le_mul_left _ hb
        have := Nat.div_add_mod p (2 * h)
        rw [Nat.mul_add] at hblk
        omega
      exact (hg _ _ _ _ _ (by omega) (ih _ _ hk' hp) (ih _ _ hk' hp2)).1
    · exact (hg _ _ _ _ _ (by omega) (ih _ _ hk' (by omega)) (ih _ _ hk' hp)).2

/-- level-indexed invariant of the inverse network -/
theorem VNI_lvl_on {γ : Type} (P : ℕ → γ → Prop) (g : ℕ → ℕ → ℕ → γ → γ → γ × γ) (k : ℕ)
    (hg : ∀ n ℓ b u v, n < k → P n u → P n v → P (n + 1) (g ℓ n b u v).1 ∧ P (n + 1) (g ℓ n b u v).2)
    (y : ℕ → γ) (hy : ∀ p, p < 2 ^ k → P 0 (y p)) :
    ∀ n p, n ≤ k → p < 2 ^ k → P n (VNI k g y n p) := by
  intro n
  induction n with
  | zero => intro p _ hp; exact hy p hp
  | succ n ih =>
    intro p hk hp
    have hk' : n ≤ k := by omega
    obtain ⟨h, hh⟩ : ∃ h, h = 2 ^ n := ⟨_, rfl⟩
    have hpos : 0 < h := by rw [hh]; exact Nat.two_pow_pos n
    have hk2 : 2 ^ k = 2 * h * 2 ^ (k - 1 - n) := by
      rw [hh, show 2 * 2 ^ n = 2 ^ (n + 1) by rw [pow_succ]; ring, ← pow_add]; congr 1; omega
    rw [VNI]
    simp only [← hh]
    split
    · rename_i hlt
      have hp2 : p + h < 2 ^ k := by
        have hb : p / (2 * h) < 2 ^ (k - 1 - n) := by
          apply Nat.div_lt_of_lt_mul; rw [← hk2]; exact hp
        have hblk : 2 * h * (p / (2 * h) + 1) ≤ 2 ^ k := by rw [hk2]; exact Nat.mul_le_mul_left _ hb
        have := Nat.div_add_mod p (2 * h)
        rw [Nat.mul_add] at hblk
        omega
      exact (hg _ _ _ _ _ (by omega) (ih _ hk' hp) (ih _ hk' hp2)).1
    · exact (hg _ _ _ _ _ (by omega) (ih _ hk' (by omega)) (ih _ hk' hp)).2

/-- both components of a (re, im) pair bounded -/
def Bd2 (U : ℚ) (u : (ℚ × Prop) × (ℚ × Prop)) : Prop := Bd U u.1 ∧ Bd U u.2

theorem bfV_bd {f : Bf (ℚ × Prop)} (hf : BfBd f) {wr wi : ℚ × Prop} (h5 : Bd 1 wr) (h6 : Bd 1 wi) {U : ℚ} (hU : 0 ≤ U)
    (hT : 8 * U < Tov) {u v : (ℚ × Prop) × (ℚ × Prop)} (hu : Bd2 U u) (hv : Bd2 U v) :
    Bd2 (8 * U) (bfV f wr wi u v).1 ∧ Bd2 (8 * U) (bfV f wr wi u v).2 := by
  obtain ⟨a1, a2, a3, a4⟩ := hf U hU hT u.1 u.2 v.1 v.2 wr wi hu.1 hu.2 hv.1 hv.2 h5 h6
  exact ⟨⟨a1, a2⟩, ⟨a3, a4⟩⟩

/-- the per-block butterfly of the structural network on the bound arithmetic -/
theorem gNet_bd {F : Flav (ℚ × Prop)} (hF : FlavBd F) (c s : ℕ → ℚ × Prop) (hc : ∀ e, Bd 1 (c e)) (hs : ∀ e, Bd 1 (s e))
    (k ℓ d b : ℕ) {U : ℚ} (hU : 0 ≤ U) (hT : 8 * U < Tov) {u v : (ℚ × Prop) × (ℚ × Prop)} (hu : Bd2 U u) (hv : Bd2 U v) :
    Bd2 (8 * U) (gNet F c s k ℓ d b u v).1 ∧ Bd2 (8 * U) (gNet F c s k ℓ d b u v).2 := by
  unfold gNet
  have hct : BfBd (ctK F k) := by unfold ctK; split <;> [exact hF.ct2; (split <;> [exact hF.ctS; exact hF.ct])]
  have hcit : BfBd (citK F k) := by unfold citK; split <;> [exact hF.citS; exact hF.cit]
  split
  · exact bfV_bd hcit (hc _) (hs _) hU hT hu hv
  · exact bfV_bd hct (hc _) (hs _) hU hT hu hv

theorem pow8_mono {U0 : ℚ} (hU0 : 0 ≤ U0) {a b : ℕ} (h : a ≤ b) : (8 : ℚ) ^ a * U0 ≤ 8 ^ b * U0 :=
  mul_le_mul_of_nonneg_right (pow_le_pow_right₀ (by norm_num) h) hU0

/-- the forward bound network: after `ℓ` levels every cell is bounded by `8^ℓ·U₀` and all bound-flags hold -/
theorem VN_bd {F : Flav (ℚ × Prop)} (hF : FlavBd F) (k : ℕ) (U0 : ℚ) (hU0 : 0 ≤ U0) (hT : 8 ^ k * U0 < Tov) (p : ℕ)
    (hp : p < 2 ^ k) :
    Bd2 (8 ^ k * U0) (VN (gNet F (fun _ => (1, True)) (fun _ => (1, True)) k) (fun _ => ((U0, True), (U0, True))) k 0 p) := by
  have one : Bd 1 ((1, True) : ℚ × Prop) := ⟨trivial, by norm_num, le_refl _⟩
  have inp : Bd2 (8 ^ 0 * U0) (((U0, True), (U0, True)) : (ℚ × Prop) × (ℚ × Prop)) := by
    rw [pow_zero, one_mul]; exact ⟨⟨trivial, hU0, le_refl _⟩, ⟨trivial, hU0, le_refl _⟩⟩
  exact VN_lvl_on (fun ℓ u => Bd2 (8 ^ ℓ * U0) u) _ k
    (fun ℓ d b u v hk hu hv => by
      have h8 : (8 : ℚ) ^ (ℓ + 1) * U0 = 8 * (8 ^ ℓ * U0) := by rw [pow_succ]; ring
      have hlt : 8 * ((8 : ℚ) ^ ℓ * U0) < Tov := by
        rw [← h8]; exact lt_of_le_of_lt (pow8_mono hU0 (by omega)) hT
      rw [h8]
      exact gNet_bd hF _ _ (fun _ => one) (fun _ => one) k ℓ d b (by positivity) hlt hu hv)
    _ (fun _ _ => inp) k 0 p (by omega) hp

/-- the inverse bound network -/
theorem VNI_bd {F : Flav (ℚ × Prop)} (hF : FlavBd F) (k : ℕ) (U0 : ℚ) (hU0 : 0 ≤ U0) (hT : 8 ^ k * U0 < Tov) (p : ℕ)
    (hp : p < 2 ^ k) :
    Bd2 (8 ^ k * U0) (VNI k (gNet F (fun _ => (1, True)) (fun _ => (1, True)) k) (fun _ => ((U0, True), (U0, True))) k p) := by
  have one : Bd 1 ((1, True) : ℚ × Prop) := ⟨trivial, by norm_num, le_refl _⟩
  have inp : Bd2 (8 ^ 0 * U0) (((U0, True), (U0, True)) : (ℚ × Prop) × (ℚ × Prop)) := by
    rw [pow_zero, one_mul]; exact ⟨⟨trivial, hU0, le_refl _⟩, ⟨trivial, hU0, le_refl _⟩⟩
  exact VNI_lvl_on (fun n u => Bd2 (8 ^ n * U0) u) _ k
    (fun n ℓ b u v hk hu hv => by
      have h8 : (8 : ℚ) ^ (n + 1) * U0 = 8 * (8 ^ n * U0) := by rw [pow_succ]; ring
      have hlt : 8 * ((8 : ℚ) ^ n * U0) < Tov := by
        rw [← h8]; exact lt_of_le_of_lt (pow8_mono hU0 (by omega)) hT
      rw [h8]
      exact gNet_bd hF _ _ (fun _ => one) (fun _ => one) k ℓ n b (by positivity) hlt hu hv)
    _ (fun _ _ => inp) k p (le_refl k) hp

end Spq.VmpErr
