/-
  Evaluation lemmas for the operators of `Spq.CIR` at the types that occur in the coefficient kernels, the
  state-shaped load/store lemmas used inside loops, and the simp set `cir_simp` of the symbolic execution.
-/
import Spq.CIR
import SpqProofs.Lemmas.SrcLoop
import SpqProofs.Lemmas.SrcMem
namespace Spq.CIR

/-! ### operators -/
theorem evalBin_add_u64 (x y : Int) : evalBin .add .u64 x y = .ok ((x + y) % 18446744073709551616) := rfl
theorem evalBin_sub_u64 (x y : Int) : evalBin .sub .u64 x y = .ok ((x - y) % 18446744073709551616) := rfl
theorem evalBin_mul_u64 (x y : Int) : evalBin .mul .u64 x y = .ok ((x * y) % 18446744073709551616) := rfl
theorem evalBin_band_u64 (x y : Int) : evalBin .band .u64 x y = .ok ((x.toNat &&& y.toNat : Nat) : Int) := rfl
theorem evalBin_lt_u64 (x y : Int) : evalBin .lt .u64 x y = .ok (b2i (decide (x < y))) := rfl
theorem evalBin_le_u64 (x y : Int) : evalBin .le .u64 x y = .ok (b2i (decide (x ≤ y))) := rfl
theorem evalBin_ge_u64 (x y : Int) : evalBin .ge .u64 x y = .ok (b2i (decide (x ≥ y))) := rfl
theorem evalBin_gt_u64 (x y : Int) : evalBin .gt .u64 x y = .ok (b2i (decide (x > y))) := rfl
theorem evalBin_ge_i64 (x y : Int) : evalBin .ge .i64 x y = .ok (b2i (decide (x ≥ y))) := rfl
theorem evalBin_ne_u64 (x y : Int) : evalBin .ne .u64 x y = .ok (b2i (decide (x ≠ y))) := rfl
theorem evalBin_eq_u64 (x y : Int) : evalBin .eq .u64 x y = .ok (b2i (decide (x = y))) := rfl
theorem evalBin_add_i64 (x y : Int) : evalBin .add .i64 x y = .ok (addS x y) := rfl
theorem evalBin_sub_i64 (x y : Int) : evalBin .sub .i64 x y = .ok (subS x y) := rfl
theorem evalUn_neg_i64 (x : Int) : evalUn .neg .i64 x = .ok (negS x) := rfl
theorem evalBin_add_f64 (x y : Int) : evalBin .add .f64 x y = .ok (fadd x y) := rfl
theorem evalBin_sub_f64 (x y : Int) : evalBin .sub .f64 x y = .ok (fsub x y) := rfl
theorem evalUn_neg_f64 (x : Int) : evalUn .neg .f64 x = .ok (fneg x) := rfl
theorem evalUn_lnot (t : Ty) (x : Int) : evalUn .lnot t x = .ok (if x = 0 then 1 else 0) := rfl
theorem evalBin_shl_i64 (x : Int) (s : Nat) (h : s < 64) : evalBin .shl .i64 x (s : Int) = .ok (shlS x s) := by
  have h1 : (0 : Int) ≤ (s : Int) ∧ (s : Int) < ((Ty.bits .i64 : Nat) : Int) := by
    simp only [Ty.bits]; omega
  simp only [evalBin, h1, and_self, if_true, Int.toNat_natCast]
  rfl
theorem evalBin_shr_i64 (x : Int) (s : Nat) (h : s < 64) : evalBin .shr .i64 x (s : Int) = .ok (sarS x s) := by
  have h1 : (0 : Int) ≤ (s : Int) ∧ (s : Int) < ((Ty.bits .i64 : Nat) : Int) := by
    simp only [Ty.bits]; omega
  simp only [evalBin, h1, and_self, if_true, Int.toNat_natCast]
  rfl
theorem evalBin_mod_u64 (x y : Int) : evalBin .mod .u64 x y = if y = 0 then .err .ub else .ok (x % y) := rfl
theorem evalBin_shl_u64 (x y : Int) :
    evalBin .shl .u64 x y = if 0 ≤ y ∧ y < 64 then .ok ((x * (2:Int) ^ y.toNat) % 18446744073709551616) else .err .ub := rfl
theorem evalBin_shr_u64 (x y : Int) :
    evalBin .shr .u64 x y = if 0 ≤ y ∧ y < 64 then .ok (x / (2:Int) ^ y.toNat) else .err .ub := rfl
theorem wrap_u64 (x : Int) : Ty.wrap .u64 x = x % 18446744073709551616 := rfl
theorem wrap_i64 (x : Int) : Ty.wrap .i64 x = wrapS x := rfl

theorem evalB_def (Γ : List Ptr) (c : Expr) (σ : State) :
    evalB Γ c σ = (eval Γ σ c).bind fun v => .ok (decide (v ≠ 0)) := rfl

theorem decide_b2i_ne_zero (b : Bool) : decide (b2i b ≠ 0) = b := by
  cases b <;> simp [b2i]

/-- the test of `c ? a : b` / of a loop on a comparison result, for any `Decidable` instance -/
theorem ite_b2i_ne_zero {β : Type} (q : Prop) [inst : Decidable q] (x y : β) :
    (if b2i (@decide q inst) ≠ 0 then x else y) = if q then x else y := by
  by_cases h : q <;> simp [b2i, h]

theorem ok_decide_true {p : Prop} [Decidable p] (h : p) : (R.ok (decide p) : R Bool) = .ok true := by
  simp [h]
theorem ok_decide_false {p : Prop} [Decidable p] (h : ¬ p) : (R.ok (decide p) : R Bool) = .ok false := by
  simp [h]

theorem memOf_ok (fl : Flow) (σ : State) : memOf (.ok (fl, σ)) = .ok σ.mem := rfl
theorem thenStep_norm (σ : State) (k : State → Out) : thenStep (.ok (.norm, σ)) k = k σ := rfl
theorem thenStep_ret (σ : State) (k : State → Out) : thenStep (.ok (.ret, σ)) k = .ok (.ret, σ) := rfl
theorem thenStep_cont (σ : State) (k : State → Out) : thenStep (.ok (.cont, σ)) k = k σ := rfl
theorem exec_ret (Γ : List Ptr) (f : Nat) (σ : State) : exec Γ .ret f σ = .ok (.ret, σ) := rfl
theorem exec_cont (Γ : List Ptr) (f : Nat) (σ : State) : exec Γ .cont f σ = .ok (.cont, σ) := rfl
theorem thenStep_err (e : Err) (k : State → Out) : thenStep (.err e) k = .err e := rfl

theorem lget_zero (x : Int) (xs : List Int) : lget (x :: xs) 0 = x := rfl
theorem lget_succ (x : Int) (xs : List Int) (n : Nat) : lget (x :: xs) (n + 1) = lget xs n := rfl
theorem lset_zero (x v : Int) (xs : List Int) : lset (x :: xs) 0 v = v :: xs := rfl
theorem lset_succ (x v : Int) (xs : List Int) (n : Nat) : lset (x :: xs) (n + 1) v = x :: lset xs n v := rfl

/-! ### loads and stores at offset 0 in the loop states -/
theorem load0 (m : Mem) (b i : Nat) (h : i < (buf m b).size) :
    loadCell m (some (b, 0)) (i : Int) = .ok ((buf m b).getD i 0) := by
  have := loadCell_nat m b 0 i (by omega)
  simpa using this

theorem store0 (m : Mem) (b i : Nat) (v : Int) (h : i < (buf m b).size) :
    storeCell m (some (b, 0)) (i : Int) v = .ok (m.setIfInBounds b ((buf m b).setIfInBounds i v)) := by
  have := storeCell_nat m b 0 i v (by omega)
  simpa using this

/-- load of a not-yet-written cell (index `≥ k`) of any buffer, aliased with the result buffer or not -/
theorem load_fill (m : Mem) (r b : Nat) (g : Nat → Int) (k i : Nat) (h : i < (buf m b).size) (hk : k ≤ i) :
    loadCell (m.setIfInBounds r (fillTo (buf m r) g k)) (some (b, 0)) (i : Int) = .ok ((buf m b).getD i 0) := by
  rw [load0 _ _ _ (by rw [size_buf_set _ _ _ _ (size_fillTo _ _ _)]; exact h), getD_buf_fill_ge m r b g k i hk]

/-- load from a buffer different from the result buffer -/
theorem load_other (m : Mem) (r b : Nat) (x : Array Int) (i : Nat) (hb : b ≠ r) (h : i < (buf m b).size) :
    loadCell (m.setIfInBounds r x) (some (b, 0)) (i : Int) = .ok ((buf m b).getD i 0) := by
  rw [load0 _ _ _ (by rw [buf_set_ne m r b x hb]; exact h), buf_set_ne m r b x hb]

/-- the store of iteration `k` of a loop that fills the result buffer in index order -/
theorem store_fill (m : Mem) (r : Nat) (g : Nat → Int) (k : Nat) (v : Int) (h : k < (buf m r).size)
    (hv : v = g k) :
    storeCell (m.setIfInBounds r (fillTo (buf m r) g k)) (some (r, 0)) (k : Int) v
      = .ok (m.setIfInBounds r (fillTo (buf m r) g (k + 1))) := by
  have hr : r < m.size := lt_size_of_buf_size_pos m r (by omega)
  rw [store0 _ _ _ _ (by rw [size_buf_set _ _ _ _ (size_fillTo _ _ _)]; exact h), buf_set_self m r _ hr,
    fillTo_step _ _ _ _ hv, set_set]

/-- a completely filled result buffer -/
theorem fillTo_all (arr : Array Int) (g : Nat → Int) (n : Nat) (h : arr.size = n) :
    fillTo arr g n = Array.ofFn (n := n) fun i => g i.val := by
  subst h
  exact fillTo_full arr g _ (Nat.le_refl _)

theorem set_fill_zero (m : Mem) (r : Nat) (g : Nat → Int) : m.setIfInBounds r (fillTo (buf m r) g 0) = m := by
  rw [fillTo_zero, set_buf_self]

/-- the simp set of the symbolic execution: unfold one statement / expression constructor at a time -/
macro "cir_simp" : tactic =>
  `(tactic| simp only [exec_skip, exec_assign, exec_store, exec_seq, exec_ite, exec_memcpy, exec_memset,
      exec_call_run, exec_passign, eval_ptrEq, evalList_nil, evalList_cons, evalPtrs_nil, evalPtrs_cons,
      eval_lit, eval_var, eval_load, eval_cast, eval_un, eval_bin, eval_cond, eval_land, eval_lor, eval_isNull,
      evalB_def, evalUn_lnot,
      R.bind_ok, R.bind_err, thenStep_norm, thenStep_err, thenStep_ret, thenStep_cont, exec_ret, exec_cont, seqK_norm, seqK_err, seqK_ret, seqK_cont,
      evalBin_add_u64, evalBin_sub_u64, evalBin_mul_u64, evalBin_band_u64, evalBin_lt_u64, evalBin_le_u64, evalBin_ge_u64, evalBin_gt_u64, evalBin_ge_i64, evalBin_ne_u64,
      evalBin_eq_u64, evalBin_add_i64, evalBin_sub_i64, evalUn_neg_i64, evalBin_add_f64, evalBin_sub_f64,
      evalUn_neg_f64, wrap_u64, wrap_i64, decide_b2i_ne_zero, ite_b2i_ne_zero,
      lget_zero, lget_succ, lset_zero, lset_succ, List.getD_cons_zero, List.getD_cons_succ])

/-! ### `f64Ops` is `F64.ops` (the binary64 model of `Spq/F64.lean`) on patterns stored as `Int` -/
theorem f64Ops_neg_cast (x : Nat) : f64Ops.neg (x : Int) = ((F64.ops.neg x : Nat) : Int) := by
  simp [f64Ops, fneg, F64.ops]
theorem f64Ops_add_cast (x y : Nat) : f64Ops.add (x : Int) (y : Int) = ((F64.ops.add x y : Nat) : Int) := by
  simp [f64Ops, fadd, F64.ops]
theorem f64Ops_sub_cast (x y : Nat) : f64Ops.sub (x : Int) (y : Int) = ((F64.ops.sub x y : Nat) : Int) := by
  simp [f64Ops, fsub, F64.ops]
theorem f64Ops_zero_cast : f64Ops.zero = ((F64.ops.zero : Nat) : Int) := rfl

/-- unfold `run` on a generated function: exposes `exec Γ body fuel ⟨initial slots, mem⟩` -/
macro "cir_enter" fn:ident : tactic =>
  `(tactic| simp only [run, $fn:ident, List.length_cons, List.length_nil, List.replicate, List.cons_append,
      List.nil_append, Nat.reduceSub, Nat.reduceAdd])

end Spq.CIR
