/-
  C06: in exact arithmetic every butterfly shape of the library (reference C, FMA shapes of the AVX2 C code
  and of the assembly leaves, cplx variants) realises the same map on complex values.
-/
import SpqProofs.Lemmas.FftSim
namespace Spq.Fft.Sim
open Spq.Fft Spq.Fft.Level

variable {R : Type} [CommRing R]

/-- inverse butterfly on values: `(u, v) ↦ (u + v, (u − v)·W)` -/
def iφ (u v : R) : R := u + v
def iψ (W : R) (u v : R) : R := (u - v) * W

variable (I : R) (hI : I * I = -1)
include hI

theorem ctRef_real (wr wi : R) : Realises I (ctRef ringA) wr wi (fφ (wr + I * wi)) (fψ (wr + I * wi)) := by
  intro ra ia rb ib; simp only [ctRef, ringA, fφ, fψ]; constructor <;> grind
theorem ctFma_real (wr wi : R) : Realises I (ctFma ringA) wr wi (fφ (wr + I * wi)) (fψ (wr + I * wi)) := by
  intro ra ia rb ib; simp only [ctFma, ringA, fφ, fψ]; constructor <;> grind
theorem ctFmaC_real (wr wi : R) : Realises I (ctFmaC ringA 0) wr wi (fφ (wr + I * wi)) (fψ (wr + I * wi)) := by
  intro ra ia rb ib; simp only [ctFmaC, ringA, fφ, fψ]; constructor <;> grind
theorem citRef_real (wr wi : R) :
    Realises I (citRef ringA) wr wi (fφ (I * (wr + I * wi))) (fψ (I * (wr + I * wi))) := by
  intro ra ia rb ib; simp only [citRef, ringA, fφ, fψ]; constructor <;> grind
theorem citFmaB_real (wr wi : R) :
    Realises I (citFmaB ringA) wr wi (fφ (I * (wr + I * wi))) (fψ (I * (wr + I * wi))) := by
  intro ra ia rb ib; simp only [citFmaB, ringA, fφ, fψ]; constructor <;> grind
theorem citFmaN_real (wr wi : R) :
    Realises I (citFmaN ringA) wr wi (fφ (I * (wr + I * wi))) (fψ (I * (wr + I * wi))) := by
  intro ra ia rb ib; simp only [citFmaN, ctFma, ringA, fφ, fψ]; constructor <;> grind

theorem ictRef_real (wr wi : R) : Realises I (ictRef ringA) wr wi iφ (iψ (wr + I * wi)) := by
  intro ra ia rb ib; simp only [ictRef, ringA, iφ, iψ]; constructor <;> grind
theorem ictFma_real (wr wi : R) : Realises I (ictFma ringA) wr wi iφ (iψ (wr + I * wi)) := by
  intro ra ia rb ib; simp only [ictFma, ringA, iφ, iψ]; constructor <;> grind
theorem ictFmaC_real (wr wi : R) : Realises I (ictFmaC ringA 0) wr wi iφ (iψ (wr + I * wi)) := by
  intro ra ia rb ib; simp only [ictFmaC, ringA, iφ, iψ]; constructor <;> grind
theorem icitRef_real (wr wi : R) : Realises I (icitRef ringA) wr wi iφ (iψ (-I * (wr + I * wi))) := by
  intro ra ia rb ib; simp only [icitRef, ringA, iφ, iψ]; constructor <;> grind
theorem icitFmaB_real (wr wi : R) : Realises I (icitFmaB ringA) wr wi iφ (iψ (-I * (wr + I * wi))) := by
  intro ra ia rb ib; simp only [icitFmaB, ringA, iφ, iψ]; constructor <;> grind
theorem icitFmaN_real (wr wi : R) : Realises I (icitFmaN ringA) wr wi iφ (iψ (-I * (wr + I * wi))) := by
  intro ra ia rb ib; simp only [icitFmaN, ictFma, ringA, iφ, iψ]; constructor <;> grind

end Spq.Fft.Sim
