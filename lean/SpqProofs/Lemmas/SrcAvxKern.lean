/-
  The AVX kernels `znx_add/sub/negate_i64_avx` called on windows of an arena buffer, with the same conclusions as
  the lemmas `arena_add / arena_sub / arena_negate` of the reference kernels (`Lemmas/SrcVecKern.lean`), for the
  `nn` the AVX kernels accept.  The acceptance hypothesis comes LAST so that the scripts `vbody1 / vbody2`
  (`Lemmas/SrcVecTac.lean`) can be reused for the wrappers of `vec_znx_avx.c` (it becomes a side goal).
-/
import SpqProofs.Lemmas.SrcAvxWinTac
import Spq.Coeffs
namespace Spq.CIR
open Spq

theorem getD_ofFn_nat (n : Nat) (f : Nat → Int) (i : Nat) (hi : i < n) :
    (Array.ofFn (n := n) fun j => f j.val).getD i 0 = f i := by
  simp [Array.getD, hi]

section
variable (m0 : Mem) (B : Nat) (hB : B < m0.size) (X : Array Int) (nn : Nat)
include hB

theorem arena_add_avx (hnn : nn < 18446744073709551616) (ro ao bo : Nat) (hr : ro + nn ≤ X.size)
    (ha : ao + nn ≤ X.size) (hb : bo + nn ≤ X.size) (hda : SameOrDisj nn ro ao) (hdb : SameOrDisj nn ro bo)
    (hacc : nn = 1 ∨ nn = 2 ∨ (4 ≤ nn ∧ nn % 4 = 0)) :
    ∀ fuel, nn ≤ fuel →
      run fuel Gen.CSrc.znx_add_i64_avx [(nn : Int)] [some (B, ro), some (B, ao), some (B, bo)]
          (m0.setIfInBounds B X)
        = .ok (m0.setIfInBounds B (Heap.writeArr X ro (Coeffs.add i64Ops nn (win X ao nn) (win X bo nn)))) := by
  intro fuel hf
  have hda' : ao = ro ∨ ro + nn ≤ ao ∨ ao + nn ≤ ro := hda
  have hdb' : bo = ro ∨ ro + nn ≤ bo ∨ bo + nn ≤ ro := hdb
  let g : Nat → Int := fun i => addS (X.getD (ao + i) 0) (X.getD (bo + i) 0)
  have hfin : Heap.writeArr X ro (Coeffs.add i64Ops nn (win X ao nn) (win X bo nn)) = wfill X ro g nn := by
    refine (wfill_all X ro nn g _ (by simp [Coeffs.add]) (fun i hi => ?_)).symm
    rw [Coeffs.add, getD_ofFn_nat nn (fun i => i64Ops.add ((win X ao nn).getD i i64Ops.zero)
      ((win X bo nn).getD i i64Ops.zero)) i hi]
    show addS ((win X ao nn).getD i 0) ((win X bo nn).getD i 0) = _
    rw [getD_win _ _ _ _ hi, getD_win _ _ _ _ hi]
  rw [hfin]
  src_avx2w_proof Gen.CSrc.znx_add_i64_avx

theorem arena_sub_avx (hnn : nn < 18446744073709551616) (ro ao bo : Nat) (hr : ro + nn ≤ X.size)
    (ha : ao + nn ≤ X.size) (hb : bo + nn ≤ X.size) (hda : SameOrDisj nn ro ao) (hdb : SameOrDisj nn ro bo)
    (hacc : nn = 1 ∨ nn = 2 ∨ (4 ≤ nn ∧ nn % 4 = 0)) :
    ∀ fuel, nn ≤ fuel →
      run fuel Gen.CSrc.znx_sub_i64_avx [(nn : Int)] [some (B, ro), some (B, ao), some (B, bo)]
          (m0.setIfInBounds B X)
        = .ok (m0.setIfInBounds B (Heap.writeArr X ro (Coeffs.sub i64Ops nn (win X ao nn) (win X bo nn)))) := by
  intro fuel hf
  have hda' : ao = ro ∨ ro + nn ≤ ao ∨ ao + nn ≤ ro := hda
  have hdb' : bo = ro ∨ ro + nn ≤ bo ∨ bo + nn ≤ ro := hdb
  let g : Nat → Int := fun i => subS (X.getD (ao + i) 0) (X.getD (bo + i) 0)
  have hfin : Heap.writeArr X ro (Coeffs.sub i64Ops nn (win X ao nn) (win X bo nn)) = wfill X ro g nn := by
    refine (wfill_all X ro nn g _ (by simp [Coeffs.sub]) (fun i hi => ?_)).symm
    rw [Coeffs.sub, getD_ofFn_nat nn (fun i => i64Ops.sub ((win X ao nn).getD i i64Ops.zero)
      ((win X bo nn).getD i i64Ops.zero)) i hi]
    show subS ((win X ao nn).getD i 0) ((win X bo nn).getD i 0) = _
    rw [getD_win _ _ _ _ hi, getD_win _ _ _ _ hi]
  rw [hfin]
  src_avx2w_proof Gen.CSrc.znx_sub_i64_avx

theorem arena_negate_avx (hnn : nn < 18446744073709551616) (ro ao : Nat) (hr : ro + nn ≤ X.size)
    (ha : ao + nn ≤ X.size) (hda : SameOrDisj nn ro ao) (hacc : nn = 1 ∨ nn = 2 ∨ (4 ≤ nn ∧ nn % 4 = 0)) :
    ∀ fuel, nn ≤ fuel →
      run fuel Gen.CSrc.znx_negate_i64_avx [(nn : Int)] [some (B, ro), some (B, ao)] (m0.setIfInBounds B X)
        = .ok (m0.setIfInBounds B (Heap.writeArr X ro (Coeffs.negate i64Ops nn (win X ao nn)))) := by
  intro fuel hf
  have hda' : ao = ro ∨ ro + nn ≤ ao ∨ ao + nn ≤ ro := hda
  let g : Nat → Int := fun i => negS (X.getD (ao + i) 0)
  have hfin : Heap.writeArr X ro (Coeffs.negate i64Ops nn (win X ao nn)) = wfill X ro g nn := by
    refine (wfill_all X ro nn g _ (by simp [Coeffs.negate]) (fun i hi => ?_)).symm
    rw [Coeffs.negate, getD_ofFn_nat nn (fun i => i64Ops.neg ((win X ao nn).getD i i64Ops.zero)) i hi]
    show negS ((win X ao nn).getD i 0) = _
    rw [getD_win _ _ _ _ hi]
  rw [hfin]
  src_avx1w_proof Gen.CSrc.znx_negate_i64_avx

end
end Spq.CIR
