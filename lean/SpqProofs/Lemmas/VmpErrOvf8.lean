/-
  No-overflow from a magnitude box, step 8: the full flags imply the underflow-only flags (operation by operation),
  and a concrete instance of `PipeOkU` (the example of `ProdErrExample.lean`).
-/
import SpqProofs.Lemmas.VmpErrOvf7
import SpqProofs.Lemmas.ProdErrExample
set_option linter.unusedSectionVars false
namespace Spq.VmpErr
open Spq Spq.Module Spq.Fft Spq.Fft.Alg Spq.Fft.RelN Spq.Fft.SimP Spq.Fft.LevelN Spq.Fft.SchedN Spq.Fft.Sim Spq.FftErr Spq.F64
  Spq.Reim4 Spq.ProdErr

theorem noUnd_of_normal {q : ℚ} (h : NormalRange q) : NoUnd q := by
  rcases h with h | ⟨h, _⟩
  · exact Or.inl h
  · exact Or.inr h

/-- same pattern, and the full flag implies the underflow-only flag -/
def RlOU (X Y : ℕ × Prop) : Prop := X.1 = Y.1 ∧ (X.2 → Y.2)

theorem simOU : RArith.Sim RlOU arithOk arithU where
  zero := ⟨rfl, fun h => h⟩
  add := fun {a a' b b'} h1 h2 =>
    ⟨by show F64.add a.1 b.1 = F64.add a'.1 b'.1; rw [h1.1, h2.1],
      fun ⟨x, y, z⟩ => ⟨h1.2 x, h2.2 y, by rw [← h1.1, ← h2.1]; exact noUnd_of_normal z⟩⟩
  sub := fun {a a' b b'} h1 h2 =>
    ⟨by show F64.sub a.1 b.1 = F64.sub a'.1 b'.1; rw [h1.1, h2.1],
      fun ⟨x, y, z⟩ => ⟨h1.2 x, h2.2 y, by rw [← h1.1, ← h2.1]; exact noUnd_of_normal z⟩⟩
  mul := fun {a a' b b'} h1 h2 =>
    ⟨by show F64.mul a.1 b.1 = F64.mul a'.1 b'.1; rw [h1.1, h2.1],
      fun ⟨x, y, z⟩ => ⟨h1.2 x, h2.2 y, by rw [← h1.1, ← h2.1]; exact noUnd_of_normal z⟩⟩
  fma := fun {a a' b b' c c'} h1 h2 h3 =>
    ⟨by show F64.fma a.1 b.1 c.1 = F64.fma a'.1 b'.1 c'.1; rw [h1.1, h2.1, h3.1],
      fun ⟨x, y, w, z⟩ => ⟨h1.2 x, h2.2 y, h3.2 w, by rw [← h1.1, ← h2.1, ← h3.1]; exact noUnd_of_normal z⟩⟩
  fms := fun {a a' b b' c c'} h1 h2 h3 =>
    ⟨by show F64.fms a.1 b.1 c.1 = F64.fms a'.1 b'.1 c'.1; rw [h1.1, h2.1, h3.1],
      fun ⟨x, y, w, z⟩ => ⟨h1.2 x, h2.2 y, h3.2 w, by rw [← h1.1, ← h2.1, ← h3.1]; exact noUnd_of_normal z⟩⟩

theorem exU_okA : FwdOkU exC 0 z0 z0 #[1, 2] := by
  intro p hp
  rw [exA]
  have : p = 0 ∨ p = 1 := by omega
  rcases this with rfl | rfl <;> simp [reimFftA, fftRI, joinRI, splitRI, lift] <;> decide

theorem exU_okB : FwdOkU exC 0 z0 z0 #[3, 4] := by
  intro p hp
  rw [exB]
  have : p = 0 ∨ p = 1 := by omega
  rcases this with rfl | rfl <;> simp [reimFftA, fftRI, joinRI, splitRI, lift] <;> decide

theorem exU_okI : ∀ p, p < 2 * 2 ^ 0 →
    ((reimIfftA (ifamOf exC.ifftFma aU) (2 ^ 0) ((((reimIfftEnts (2 ^ 0)).map (valP z0 z0)).toArray).map lift)
      ((stM exC 0 z0 z0 #[1, 2] #[3, 4]).map lift))[p]!).2 := by
  intro p hp
  rw [exM]
  have : p = 0 ∨ p = 1 := by omega
  rcases this with rfl | rfl <;> simp [reimIfftA, ifftRI, joinRI, splitRI, lift] <;> decide

theorem exU_okM : ∀ p, p < 2 * 2 ^ 0 →
    ((mulA arithU exC.mulFma (2 ^ 0) ((stF exC 0 z0 z0 #[1, 2]).map lift) ((stF exC 0 z0 z0 #[3, 4]).map lift)).getD p
      arithU.zero).2 := by
  have e0 : exC.mulFma = false := rfl
  have e1 : 2 ^ 0 = 1 := rfl
  obtain ⟨c1, c2⟩ := (mulA_cells arithOk false 1 (by simp) ((stF exC 0 z0 z0 #[1, 2]).map lift)
    ((stF exC 0 z0 z0 #[3, 4]).map lift)).2 0 (by omega)
  obtain ⟨d1, d2⟩ := (mulA_cells arithU false 1 (by simp) ((stF exC 0 z0 z0 #[1, 2]).map lift)
    ((stF exC 0 z0 z0 #[3, 4]).map lift)).2 0 (by omega)
  have f1 := ex_okM 0 (by norm_num)
  have f2 := ex_okM 1 (by norm_num)
  rw [e0, e1] at f1 f2 ⊢
  rw [c1] at f1
  rw [show (1 : ℕ) = 0 + 1 from rfl, c2] at f2
  have r : ∀ (x : Array ℕ) i, RlOU ((x.map lift).getD i arithOk.zero) ((x.map lift).getD i arithU.zero) :=
    fun _ _ => ⟨rfl, fun h => h⟩
  intro p hp
  have hp' : p = 0 ∨ p = 0 + 1 := by omega
  rcases hp' with rfl | rfl
  · rw [d1]
    exact (cellRe_sim simOU false (r _ _) (r _ _) (r _ _) (r _ _)).2 f1
  · rw [d2]
    exact (cellIm_sim simOU false (r _ _) (r _ _) (r _ _) (r _ _)).2 f2

theorem exPipeOkU : PipeOkU exC 0 z0 z0 z0 z0 #[1, 2] #[3, 4] := ⟨exU_okA, exU_okB, exU_okM, exU_okI⟩

theorem exTabOk : TabOk z0 z0 := fun _ => by
  have : Fin64 0 ∧ |val 0| ≤ 1 := ⟨fin64_zero, by rw [val_zero, abs_zero]; norm_num⟩
  exact ⟨this, this⟩

end Spq.VmpErr
