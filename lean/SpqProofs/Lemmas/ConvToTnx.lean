/-
  double → torus double (`reim_to_tnx_ref` / `reim_to_tnx_avx`, same lane function) with the table built by
  `init_reim_to_tnx_precomp`, for every `log2overhead ≤ 48` and every divisor `2^j`.
-/
import SpqProofs.Lemmas.ConvToZnx

namespace Spq.Conv
open Spq.F64

/-! ### the table constants, for all 49 values of log2overhead (kernel evaluation) -/

/-- `0.5 + 6·2^L` has exponent field `L+1025` and fraction `2^51 + 2^(49-L)` -/
theorem ovh_eq : ∀ L, L ≤ 48 →
    tnxOvhCst L = (L + 1025) * 4503599627370496 + (2251799813685248 + 2 ^ (49 - L)) := by
  decide +kernel

/-- `mask_or = ovh.u & (-1 << nbits)`: sign, exponent and the leading fraction bit of `ovh` (value `6·2^L`) -/
theorem maskOr_eq : ∀ L, L ≤ 48 →
    tnxOvhCst L &&& ((18446744073709551615 * 2 ^ (50 - L)) % 18446744073709551616) =
      (L + 1025) * 4503599627370496 + 2251799813685248 := by
  decide +kernel

theorem pow_49_lt (L : Nat) : 2 ^ (49 - L) ≤ 562949953421312 := by
  have : (2 : Nat) ^ (49 - L) ≤ 2 ^ 49 := Nat.pow_le_pow_right (by norm_num) (by omega)
  norm_num at this; exact this

theorem two_mul_pow_49 (L : Nat) (hL : L ≤ 48) : 2 * 2 ^ (49 - L) = 2 ^ (50 - L) := by
  rw [← pow_succ']; congr 1; omega

theorem decode_ovh (L : Nat) (hL : L ≤ 48) :
    decode (tnxOvhCst L) = ⟨false, 6755399441055744 + 2 ^ (49 - L), (L : Int) - 50⟩ := by
  rw [ovh_eq L hL]
  have h49 := pow_49_lt L
  have := decode_pos_pattern (L + 1025) (2251799813685248 + 2 ^ (49 - L)) (by omega) (by omega) (by omega)
  rw [this]
  have e1 : 2251799813685248 + 2 ^ (49 - L) + 4503599627370496 = 6755399441055744 + 2 ^ (49 - L) := by omega
  have e2 : ((L + 1025 : Nat) : Int) - 1075 = (L : Int) - 50 := by push_cast; omega
  rw [e1, e2]

theorem isNotPow2Double_eq (d : Nat) : isNotPow2Double d = d &&& 2251799813685247 := rfl

theorem pow2_and_low (j : Int) : pow2 j &&& 2251799813685247 = 0 := by
  unfold pow2
  have h := Nat.and_two_pow_sub_one_eq_mod ((j + 1023).toNat * 4503599627370496) 51
  norm_num at h
  rw [h]; omega

/-- a power of two passes `is_not_pow2_double` -/
theorem isNotPow2Double_pow2 (j : Int) : (isNotPow2Double (pow2 j) != 0) = false := by
  rw [isNotPow2Double_eq, pow2_and_low]
  rfl

/-- the lane function of the table built by `init_reim_to_tnx_precomp` for a valid call -/
theorem toTnxLane_of_init (m : Nat) (j : Int) (L : Nat) (avx2 : Bool) (p : ToTnxPrecomp) (x : Nat)
    (hm : notPow2U32 m = false) (hL : L ≤ 48) (hinit : initToTnx m (pow2 j) L avx2 = some p) :
    toTnxLane p x = F64.sub (((add x (mul (tnxOvhCst L) (pow2 j))) &&& (2 ^ (50 - L) - 1)) |||
        (tnxOvhCst L &&& ((18446744073709551615 * 2 ^ (50 - L)) % 18446744073709551616))) (tnxOvhCst L) ∧ p.m = m
      ∧ p.useAvx = (avx2 && decide (m ≥ 8)) := by
  have hd := isNotPow2Double_pow2 j
  have hL52 : ¬ L > 52 := by omega
  have hnb : ((50 + 18446744073709551616 - L) % 18446744073709551616) % 64 = 50 - L := by omega
  have hp : 2 ^ (50 - L) ≤ 2 ^ 50 := Nat.pow_le_pow_right (by norm_num) (by omega)
  have hp0 : 0 < 2 ^ (50 - L) := by positivity
  have hma : (2 ^ (50 - L) + 18446744073709551616 - 1) % 18446744073709551616 = 2 ^ (50 - L) - 1 := by
    norm_num at hp
    omega
  unfold initToTnx at hinit
  simp only [hm, hd, hL52, Bool.false_eq_true, if_false, hnb, hma] at hinit
  injection hinit with hinit
  subst hinit
  unfold toTnxLane
  simp only []
  exact ⟨trivial, trivial, trivial⟩

/-- exact packing of a small signed significand at a moderate exponent -/
theorem toScaled_packSigned_exact (v : Int) (e : Int) (z : Bool) (hv : v.natAbs < 9007199254740992)
    (he0 : -1022 ≤ e) (he1 : e ≤ 971) :
    toScaled (packSigned v e z) = v * 2 ^ ((e + 1074).toNat) := by
  by_cases hv0 : v = 0
  · subst hv0
    rw [packSigned_zero, toScaled_of_decode' (decode_sgn z), zero_mul]
    cases z <;> simp [sI]
  obtain ⟨k, hk, hn1, hn2⟩ := exists_norm_shift (M := v.natAbs) (by omega) hv
  rw [packSigned_ne_zero hv0]
  have hd := decode_pack_small (decide (v < 0)) v.natAbs e k hn1 hn2 (by omega) (by omega)
  rw [toScaled_of_decode' hd, sI_decide_natAbs]
  have he : (e + 1074).toNat = k + (e - (k : Int) + 1074).toNat := by omega
  rw [he, pow_add, mul_assoc]

/-- Core of the to_tnx proof in integer terms (`T` is `x`, `2^k2` the unit of the constant, in a common unit). -/
theorem tnx_core (T : Int) (k2 L : Nat)
    (hT1 : -(1125899906842624 * 2 ^ k2 : Int) ≤ T) (hT2 : T ≤ 1125899906842624 * 2 ^ k2) :
    ∃ V : Nat, (V : Int) = T + ((6755399441055744 + 2 ^ (49 - L) : Nat) : Int) * 2 ^ k2 ∧
      4503599627370496 * 2 ^ k2 ≤ V ∧ V < 9007199254740992 * 2 ^ k2 ∧ rne V k2 < 9007199254740992 ∧
      2 * |(rne V k2 : Int) * 2 ^ k2 - V| ≤ 2 ^ k2 := by
  have hD : (0 : Int) < 2 ^ k2 := by positivity
  have h49 := pow_49_lt L
  have h49' : (0 : Int) < ((2 ^ (49 - L) : Nat) : Int) := by positivity
  have h49'' : ((2 ^ (49 - L) : Nat) : Int) ≤ 562949953421312 := by exact_mod_cast h49
  set c : Int := ((6755399441055744 + 2 ^ (49 - L) : Nat) : Int) with hc
  have hc1 : 6755399441055744 < c := by rw [hc]; push_cast; push_cast at h49'; linarith
  have hc2 : c ≤ 6755399441055744 + 562949953421312 := by rw [hc]; push_cast; push_cast at h49''; linarith
  have hpos : 0 ≤ T + c * 2 ^ k2 := by nlinarith
  obtain ⟨V, hV⟩ : ∃ V : Nat, (V : Int) = T + c * 2 ^ k2 := ⟨(T + c * 2 ^ k2).toNat, by rw [Int.toNat_of_nonneg hpos]⟩
  have hlo : 4503599627370496 * 2 ^ k2 ≤ V := by
    have : ((4503599627370496 * 2 ^ k2 : Nat) : Int) ≤ V := by push_cast; rw [hV]; nlinarith
    exact_mod_cast this
  have hhi : V < 9007199254740992 * 2 ^ k2 := by
    have : (V : Int) < ((9007199254740992 * 2 ^ k2 : Nat) : Int) := by push_cast; rw [hV]; nlinarith
    exact_mod_cast this
  refine ⟨V, hV, hlo, hhi, ?_, ?_⟩
  · have hle : V ≤ 8444249301319680 * 2 ^ k2 := by
      have : (V : Int) ≤ ((8444249301319680 * 2 ^ k2 : Nat) : Int) := by push_cast; rw [hV]; nlinarith
      exact_mod_cast this
    have := rne_le hle
    omega
  · obtain ⟨e1, e2⟩ := rne_err V k2
    have e1' : 2 * ((rne V k2 : Int) * 2 ^ k2) ≤ 2 * V + 2 ^ k2 := by exact_mod_cast e1
    have e2' : 2 * (V : Int) ≤ 2 * ((rne V k2 : Int) * 2 ^ k2) + 2 ^ k2 := by exact_mod_cast e2
    rcases abs_cases ((rne V k2 : Int) * 2 ^ k2 - V) with ⟨h, _⟩ | ⟨h, _⟩ <;> rw [h] <;> linarith

/-- masking the low `50-L` fraction bits of a pattern `A·2^52 + (q - 2^52)` -/
theorem low_bits (A q L : Nat) (hA : 1 ≤ A) (hq : 4503599627370496 ≤ q) (hL : L ≤ 48) :
    (A * 4503599627370496 + (q - 4503599627370496)) % 2 ^ (50 - L) = q % 2 ^ (50 - L) := by
  have hN : (4503599627370496 : Nat) = 2 ^ (2 + L) * 2 ^ (50 - L) := by
    rw [← pow_add]
    have : 2 + L + (50 - L) = 52 := by omega
    rw [this]; norm_num
  obtain ⟨A', rfl⟩ : ∃ A', A = A' + 1 := ⟨A - 1, by omega⟩
  have : (A' + 1) * 4503599627370496 + (q - 4503599627370496) = A' * 4503599627370496 + q := by omega
  rw [this, hN, ← mul_assoc, Nat.mul_comm _ (2 ^ (50 - L)), Nat.mul_add_mod]

theorem or_low51 (f a : Nat) (hf : f < 2251799813685248) :
    f ||| (a * 2251799813685248) = a * 2251799813685248 + f := by
  have h := Nat.two_pow_add_eq_or_of_lt (i := 51) (b := f) (by norm_num; exact hf) a
  rw [Nat.or_comm]
  norm_num at h
  rw [Nat.mul_comm a]; exact h.symm

theorem or_maskOr (f L : Nat) (hf : f < 2251799813685248) :
    f ||| ((L + 1025) * 4503599627370496 + 2251799813685248) = (L + 1025) * 4503599627370496 + (2251799813685248 + f) := by
  have e1 : (L + 1025) * 4503599627370496 + 2251799813685248 = (2 * (L + 1025) + 1) * 2251799813685248 := by omega
  rw [e1, or_low51 f _ hf]; ring

/-- `add_cst = ovh * divisor`, exactly -/
theorem decode_tnxAddCst (j : Int) (L : Nat) (hj1 : -1022 ≤ j) (hj2 : j ≤ 900) (hL : L ≤ 48) :
    decode (mul (tnxOvhCst L) (pow2 j)) = ⟨false, 6755399441055744 + 2 ^ (49 - L), (L : Int) - 50 + j⟩ := by
  rw [mul_of_decode (decode_ovh L hL) (decode_pow2 j hj1 (by omega))]
  have h49 := pow_49_lt L
  have h49p : 0 < 2 ^ (49 - L) := by positivity
  have hpw : (4503599627370496 : Nat) = 2 ^ 52 := by norm_num
  rw [hpw]
  have := decode_pack_exact (false != false) (6755399441055744 + 2 ^ (49 - L)) 52 ((L : Int) - 50 + (j - 52)) 0
    (by rw [pow_zero, Nat.mul_one]; omega) (by rw [pow_zero, Nat.mul_one]; omega) (by push_cast; omega) (by push_cast; omega)
  rw [this, pow_zero, Nat.mul_one]
  have e2 : (L : Int) - 50 + (j - 52) + ((52 : Nat) : Int) - ((0 : Nat) : Int) = (L : Int) - 50 + j := by push_cast; omega
  rw [e2]; rfl

/-- `reim_to_tnx_ref` / `reim_to_tnx_avx`, one lane, with the table of `init_reim_to_tnx_precomp(m, 2^j, L)`:
    for `|x/d| ≤ 2^L` the result `r` satisfies, for some integer `n`,
      `|r − (x/d − n)| ≤ 2^(L−51)`   and   `−1/2 ≤ r < 1/2`
    (stated on exact values scaled by 2^1074: `rs = r·2^1074`, `ds = d·2^1074`, `xs = x·2^1074`, so that
     `r − x/d + n = (rs·ds − xs·2^1074 + n·ds·2^1074) / (2^1074·ds)`). -/
theorem toTnxLane_spec (m : Nat) (j : Int) (L : Nat) (avx2 : Bool) (p : ToTnxPrecomp) (x : Nat)
    (hm : notPow2U32 m = false) (hj1 : -1022 ≤ j) (hj2 : j ≤ 900) (hL : L ≤ 48)
    (hinit : initToTnx m (pow2 j) L avx2 = some p)
    (hdom : |toScaled x| ≤ 2 ^ L * toScaled (pow2 j)) :
    ∃ n : Int,
      2 ^ 51 * |toScaled (toTnxLane p x) * toScaled (pow2 j) - toScaled x * 2 ^ 1074 + n * toScaled (pow2 j) * 2 ^ 1074|
        ≤ 2 ^ L * 2 ^ 1074 * toScaled (pow2 j) ∧
      -(2 ^ 1073) ≤ toScaled (toTnxLane p x) ∧ toScaled (toTnxLane p x) < 2 ^ 1073 := by
  obtain ⟨hlane, _, _⟩ := toTnxLane_of_init m j L avx2 p x hm hL hinit
  rw [hlane, maskOr_eq L hL]
  obtain ⟨sx, mx, ex, hx, hmx, he0, he1⟩ := exists_decode x
  have hc := decode_tnxAddCst j L hj1 hj2 hL
  have h49 := pow_49_lt L
  -- common unit
  obtain ⟨e, he⟩ : ∃ e, e = min ex ((L : Int) - 50 + j) := ⟨_, rfl⟩
  obtain ⟨k1, hk1⟩ : ∃ k1 : Nat, ex = e + k1 := ⟨(ex - e).toNat, by omega⟩
  obtain ⟨k2, hk2⟩ : ∃ k2 : Nat, (L : Int) - 50 + j = e + k2 := ⟨((L : Int) - 50 + j - e).toNat, by omega⟩
  have hxs : toScaled x = sI sx mx * 2 ^ k1 * 2 ^ ((e + 1074).toNat) := toScaled_split hx e k1 hk1 (by omega)
  have hds : toScaled (pow2 j) = 2 ^ k2 * 2 ^ (50 - L) * 2 ^ ((e + 1074).toNat) := by
    rw [toScaled_pow2 j hj1 (by omega), ← pow_add, ← pow_add]; congr 1; omega
  obtain ⟨W, hW⟩ : ∃ W : Int, W = 2 ^ ((e + 1074).toNat) := ⟨_, rfl⟩
  rw [← hW] at hxs hds
  have hWpos : 0 < W := by rw [hW]; positivity
  obtain ⟨T, hT⟩ : ∃ T : Int, T = sI sx mx * 2 ^ k1 := ⟨_, rfl⟩
  rw [← hT] at hxs
  have hD : (0 : Int) < 2 ^ k2 := by positivity
  have hLN : (2 : Int) ^ L * 2 ^ (50 - L) = 1125899906842624 := by
    rw [← pow_add]
    have : L + (50 - L) = 50 := by omega
    rw [this]; norm_num
  have hdom' : |T| ≤ 1125899906842624 * 2 ^ k2 := by
    rw [hxs, hds, abs_mul, abs_of_pos hWpos] at hdom
    have h2 : (2 : Int) ^ L * (2 ^ k2 * 2 ^ (50 - L) * W) = (1125899906842624 * 2 ^ k2) * W := by
      rw [← hLN]; ring
    rw [h2] at hdom
    exact le_of_mul_le_mul_right hdom hWpos
  obtain ⟨hT1, hT2⟩ := abs_le.1 hdom'
  obtain ⟨V, hV, hlo, hhi, hq, herr⟩ := tnx_core T k2 L hT1 hT2
  have hq1 := (rne_range hlo hhi).1
  obtain ⟨_, hpat⟩ := add_magic hx hc e k1 k2 he hk1 hk2 V (by rw [hV, hT]) hlo hhi hq (by omega) (by omega)
  obtain ⟨q, hqdef⟩ : ∃ q, q = rne V k2 := ⟨_, rfl⟩
  rw [← hqdef] at hq hq1 herr hpat
  -- the masks
  have hNpos : 0 < 2 ^ (50 - L) := by positivity
  obtain ⟨f, hfdef⟩ : ∃ f, f = q % 2 ^ (50 - L) := ⟨_, rfl⟩
  obtain ⟨n', hn'def⟩ : ∃ n', n' = q / 2 ^ (50 - L) := ⟨_, rfl⟩
  have hqdm : q = 2 ^ (50 - L) * n' + f := by rw [hfdef, hn'def]; exact (Nat.div_add_mod q _).symm
  have hf : f < 2 ^ (50 - L) := by rw [hfdef]; exact Nat.mod_lt _ hNpos
  have hand : (((L : Int) - 50 + j + 1075).toNat * 4503599627370496 + (q - 4503599627370496)) &&& (2 ^ (50 - L) - 1)
      = f := by
    rw [Nat.and_two_pow_sub_one_eq_mod, low_bits _ q L (by omega) hq1 hL, hfdef]
  rw [hpat, hand]
  -- abstract H = 2^(49-L), N = 2H
  obtain ⟨H, hH⟩ : ∃ H, H = 2 ^ (49 - L) := ⟨_, rfl⟩
  have hNH : 2 ^ (50 - L) = 2 * H := by rw [hH, two_mul_pow_49 L hL]
  have hHpos : 0 < H := by rw [hH]; positivity
  have hH49 : H ≤ 562949953421312 := by rw [hH]; exact h49
  rw [hNH] at hf hqdm
  rw [← hH] at hV
  rw [or_maskOr f L (by omega)]
  have hcur : decode ((L + 1025) * 4503599627370496 + (2251799813685248 + f)) =
      ⟨false, 6755399441055744 + f, (L : Int) - 50⟩ := by
    have := decode_pos_pattern (L + 1025) (2251799813685248 + f) (by omega) (by omega) (by omega)
    rw [this]
    have e1 : 2251799813685248 + f + 4503599627370496 = 6755399441055744 + f := by omega
    have e2 : ((L + 1025 : Nat) : Int) - 1075 = (L : Int) - 50 := by push_cast; omega
    rw [e1, e2]
  have hovhlt : tnxOvhCst L < 18446744073709551616 := by rw [ovh_eq L hL]; omega
  have hdovh := decode_ovh L hL
  rw [← hH] at hdovh
  rw [sub_of_decode hovhlt hcur hdovh]
  simp only [min_self, sub_self, Int.toNat_zero, pow_zero, mul_one, sI, Bool.false_eq_true, if_false,
    Bool.not_false, Bool.and_true]
  have hv : ((6755399441055744 + f : Nat) : Int) - ((6755399441055744 + H : Nat) : Int)
      = (f : Int) - (H : Int) := by push_cast; ring
  rw [hv]
  have hvabs : ((f : Int) - (H : Int)).natAbs < 9007199254740992 := by omega
  rw [toScaled_packSigned_exact _ _ _ hvabs (by omega) (by omega)]
  have hUe : ((L : Int) - 50 + 1074).toNat = 1024 + L := by omega
  rw [hUe]
  obtain ⟨U, hUdef⟩ : ∃ U : Int, U = 2 ^ (1024 + L) := ⟨_, rfl⟩
  rw [← hUdef]
  have hUpos : 0 < U := by rw [hUdef]; positivity
  have hHI : (H : Int) = 2 ^ (49 - L) := by rw [hH]; push_cast; rfl
  have keyHU : ∀ n, 49 - L + (1024 + L) = n → (H : Int) * U = 2 ^ n := fun n hn => by
    rw [hHI, hUdef, ← pow_add, hn]
  have hHU := keyHU 1073 (by omega)
  have keyNU : ∀ n, 49 - L + (1024 + L) + 1 = n → 2 * (H : Int) * U = 2 ^ n := fun n hn => by
    rw [mul_assoc, hHI, hUdef, ← pow_add, ← pow_succ', ← hn]
  have hNU := keyNU 1074 (by omega)
  -- casts
  have hfN : (f : Int) < 2 * (H : Int) := by exact_mod_cast hf
  have hf0 : (0 : Int) ≤ f := Int.natCast_nonneg f
  have hHposI : (0 : Int) < H := by exact_mod_cast hHpos
  have hqI : (q : Int) = 2 * (H : Int) * n' + f := by rw [hqdm]; push_cast; ring
  have hLNI : (2 : Int) ^ L * (2 * (H : Int)) = 1125899906842624 := by
    rw [← hLN]; congr 1
    have : ((2 ^ (50 - L) : Nat) : Int) = ((2 * H : Nat) : Int) := by rw [hNH]
    push_cast at this; exact this.symm
  have hds2 : ((2 : Int) ^ (50 - L)) = 2 * (H : Int) := by
    have : ((2 ^ (50 - L) : Nat) : Int) = ((2 * H : Nat) : Int) := by rw [hNH]
    push_cast at this; exact this
  have hmcN : ((6755399441055744 + H : Nat) : Int) = 6 * 2 ^ L * (2 * (H : Int)) + H := by
    push_cast
    have : (6 : Int) * 2 ^ L * (2 * (H : Int)) = 6755399441055744 := by rw [mul_assoc, hLNI]; norm_num
    rw [this]
  refine ⟨(n' : Int) - 6 * 2 ^ L, ?_, ?_, ?_⟩
  · rw [hxs, hds, ← hNU, hds2]
    have hexpr : ((f : Int) - H) * U * (2 ^ k2 * (2 * (H : Int)) * W) - T * W * (2 * (H : Int) * U)
        + ((n' : Int) - 6 * 2 ^ L) * (2 ^ k2 * (2 * (H : Int)) * W) * (2 * (H : Int) * U)
        = (U * W * (2 * (H : Int))) * ((q : Int) * 2 ^ k2 - V) := by
      rw [hV, hmcN, hqI]; ring
    rw [hexpr, abs_mul]
    have hpos3 : 0 < U * W * (2 * (H : Int)) := mul_pos (mul_pos hUpos hWpos) (by linarith)
    rw [abs_of_pos hpos3]
    have hrhs : (2 : Int) ^ L * (2 * (H : Int) * U) * (2 ^ k2 * (2 * (H : Int)) * W)
        = (U * W * (2 * (H : Int))) * (1125899906842624 * 2 ^ k2) := by
      rw [← hLNI]; ring
    rw [hrhs]
    have : (2 : Int) ^ 51 * (U * W * (2 * (H : Int)) * |(q : Int) * 2 ^ k2 - V|)
        = (U * W * (2 * (H : Int))) * (2 ^ 51 * |(q : Int) * 2 ^ k2 - V|) := by ring
    rw [this]
    apply mul_le_mul_of_nonneg_left _ (le_of_lt hpos3)
    have h51 : (2 : Int) ^ 51 = 1125899906842624 * 2 := by norm_num
    rw [h51]
    linarith [herr]
  · rw [← hHU]
    have : -((H : Int) * U) = (-(H : Int)) * U := by ring
    rw [this]
    apply mul_le_mul_of_nonneg_right _ (le_of_lt hUpos)
    linarith
  · rw [← hHU]
    apply mul_lt_mul_of_pos_right _ hUpos
    linarith

end Spq.Conv
