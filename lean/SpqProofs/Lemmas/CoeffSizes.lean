/-
  Size lemmas for the single-polynomial kernels of `Spq/Coeffs.lean`: the out-of-place kernels
  return `nn` coefficients; the in-place kernels (loops of `setIfInBounds`) preserve the size of
  their buffer, whatever the fuel and the control flow.
-/
import Spq.Coeffs
namespace Spq.Coeffs
variable {α : Type}

@[simp] theorem size_rotate (o : Ops α) (nn : Nat) (p : Int) (x : Array α) :
    (rotate o nn p x).size = nn := by simp [rotate]

@[simp] theorem size_mulXpMinusOne (o : Ops α) (nn : Nat) (p : Int) (x : Array α) :
    (mulXpMinusOne o nn p x).size = nn := by simp [mulXpMinusOne]

/-! ### out-of-place automorphism (scatter into the prior output content) -/

theorem size_automStep (o : Ops α) (nn : Nat) (p : Int) (inp : Array α) (st : Nat × Array α) (k : Nat) :
    (automStep o nn p inp st k).2.size = st.2.size := by
  unfold automStep
  simp only
  split <;> simp

theorem size_foldl_automStep (o : Ops α) (nn : Nat) (p : Int) (inp : Array α) (l : List Nat)
    (st : Nat × Array α) : (l.foldl (automStep o nn p inp) st).2.size = st.2.size := by
  induction l generalizing st with
  | nil => rfl
  | cons k ks ih => rw [List.foldl_cons, ih, size_automStep]

@[simp] theorem size_automorphism (o : Ops α) (nn : Nat) (p : Int) (inp res0 : Array α) :
    (automorphism o nn p inp res0).size = res0.size := by
  unfold automorphism
  rw [size_foldl_automStep]
  simp

/-! ### in-place rotation / (X^p - 1) -/

theorem size_walkCycle (o : Ops α) (nn : Nat) (p : Int) (sub : Bool) (jstart : Nat)
    (fuel j : Nat) (t : α) (res : Array α) (nb : Nat) :
    (walkCycle o nn p sub jstart fuel j t res nb).1.size = res.size := by
  induction fuel generalizing j t res nb with
  | zero => rfl
  | succ fuel ih =>
    unfold walkCycle
    simp only
    split
    · simp
    · rw [ih]; simp

theorem size_walkAll (o : Ops α) (nn : Nat) (p : Int) (sub : Bool)
    (fuel jstart nb : Nat) (res : Array α) :
    (walkAll o nn p sub fuel jstart nb res).size = res.size := by
  induction fuel generalizing jstart nb res with
  | zero => rfl
  | succ fuel ih =>
    unfold walkAll
    split
    · simp only
      rw [ih, size_walkCycle]
    · rfl

@[simp] theorem size_rotateInplace (o : Ops α) (nn : Nat) (p : Int) (x : Array α) :
    (rotateInplace o nn p x).size = x.size := size_walkAll ..

@[simp] theorem size_mulXpMinusOneInplace (o : Ops α) (nn : Nat) (p : Int) (x : Array α) :
    (mulXpMinusOneInplace o nn p x).size = x.size := size_walkAll ..

/-! ### in-place automorphism -/

theorem size_autWalkCycle (o : Ops α) (nn p jstart : Nat)
    (fuel j : Nat) (t1 t2 : α) (res : Array α) (nb : Nat) :
    (autWalkCycle o nn p jstart fuel j t1 t2 res nb).1.size = res.size := by
  induction fuel generalizing j t1 t2 res nb with
  | zero => rfl
  | succ fuel ih =>
    unfold autWalkCycle
    simp only
    split
    · split <;> simp
    · rw [ih]; split <;> simp

theorem size_autWalkAll (o : Ops α) (nn p orbSize : Nat)
    (fuel jstart nb : Nat) (res : Array α) :
    (autWalkAll o nn p orbSize fuel jstart nb res).size = res.size := by
  induction fuel generalizing jstart nb res with
  | zero => rfl
  | succ fuel ih =>
    unfold autWalkAll
    split
    · simp only
      rw [ih, size_autWalkCycle]
    · rfl

/-- a fold whose step preserves the size preserves the size -/
theorem size_foldl_of_step {β : Type} (f : Array α → β → Array α) (hf : ∀ r j, (f r j).size = r.size)
    (l : List β) (r : Array α) : (l.foldl f r).size = r.size := by
  induction l generalizing r with
  | nil => rfl
  | cons k ks ih => rw [List.foldl_cons, ih, hf]

theorem size_autLevels (o : Ops α) (nn p : Nat)
    (fuel binval vp orbSize : Nat) (res : Array α) :
    (autLevels o nn p fuel binval vp orbSize res).size = res.size := by
  induction fuel generalizing binval vp orbSize res with
  | zero => rfl
  | succ fuel ih =>
    unfold autLevels
    simp only
    split
    · split
      · rfl
      · split
        · rw [Array.size_setIfInBounds, size_foldl_of_step]
          intro r j; simp
        · split
          · rw [size_foldl_of_step]
            intro r j; simp
          · split
            · rw [ih, size_foldl_of_step]
              intro r j; simp
            · rw [ih, size_autWalkAll]
    · rfl

@[simp] theorem size_automorphismInplace (o : Ops α) (nn : Nat) (p : Int) (x : Array α) :
    (automorphismInplace o nn p x).size = x.size := size_autLevels ..

end Spq.Coeffs
