/-
  Instantiations of the generic loop lemmas for the four SIMD twiddle kernels (what each of them computes).
-/
import SpqProofs.Lemmas.CoverBitw
import SpqProofs.Lemmas.CoverRef
namespace Spq
namespace Cover
open Reim4
variable {R : Type} [CommRing R]

theorem Pointwise.congr {idx : Nat → Nat × Nat} {m : Nat} {r res : Array R} {val val' : Nat → Cx R}
    (h : Pointwise idx m r res val) (e : ∀ i, i < m → val i = val' i) : Pointwise idx m r res val' :=
  ⟨h.1, fun i hi => by rw [h.2.1 i hi, e i hi], h.2.2⟩

theorem omW_eq_lanes (om : Array R) (e : Nat) (he : e < 2) :
    omW om e = ⟨(V4.load 0 om 0).lane (2 * e), (V4.load 0 om 0).lane (2 * e + 1)⟩ := by
  rw [V4.lane_load _ _ _ _ (by omega), V4.lane_load _ _ _ _ (by omega)]
  simp only [Nat.zero_add]; rfl

/-! ### twiddle -/

theorem twiddleFma_spec (m : Nat) (hm : m % 8 = 0) (h0 : 0 < m) (a b om : Array R)
    (ha : 2 * m ≤ a.size) (hb : 2 * m ≤ b.size) :
    Pointwise idxCplx m a (cplxFftvecTwiddleFma (RArith.ofRing R) m a b om).1
      (fun i => ev idxCplx a i + ev idxCplx b i * omW om (i % 2)) ∧
    Pointwise idxCplx m b (cplxFftvecTwiddleFma (RArith.ofRing R) m a b om).2
      (fun i => ev idxCplx a i - ev idxCplx b i * omW om (i % 2)) := by
  unfold cplxFftvecTwiddleFma
  rw [ymmCount_fma m hm h0]
  have := twiddleSimd_spec (m / 2) V4.shuf5 a b om (fun _ x w => x * w) (by omega) (by omega)
    (fun v o e he => twP_shuf5_lane v o e he)
  have e2 : 2 * (m / 2) = m := by omega
  rw [e2] at this
  exact this

theorem twiddleAvx512Old_spec (m : Nat) (hm : m % 16 = 0) (h0 : 0 < m) (a b om : Array R)
    (ha : 2 * m ≤ a.size) (hb : 2 * m ≤ b.size) :
    Pointwise idxCplx m a (cplxFftvecTwiddleAvx512Old (RArith.ofRing R) m a b om).1
      (fun i => ev idxCplx a i + twMulAvx512 om (i % 2) (ev idxCplx b i)) ∧
    Pointwise idxCplx m b (cplxFftvecTwiddleAvx512Old (RArith.ofRing R) m a b om).2
      (fun i => ev idxCplx a i - twMulAvx512 om (i % 2) (ev idxCplx b i)) := by
  unfold cplxFftvecTwiddleAvx512Old
  rw [ymmCount_avx512 m hm h0]
  have := twiddleSimd_spec (m / 2) shuf9 a b om
    (fun e x w => match e with
      | 0 => x * w
      | _ => badMul x w) (by omega) (by omega)
    (by
      intro v o e he
      rcases e with _ | _ | e
      · exact twP_shuf9_lane0 v o
      · exact twP_shuf9_lane1 v o
      · omega)
  have e2 : 2 * (m / 2) = m := by omega
  rw [e2] at this
  obtain ⟨p1, p2⟩ := this
  have key : ∀ i, (match i % 2 with
      | 0 => ev idxCplx b i * omW om (i % 2)
      | _ => badMul (ev idxCplx b i) (omW om (i % 2))) = twMulAvx512 om (i % 2) (ev idxCplx b i) := by
    intro i
    unfold twMulAvx512
    rcases Nat.mod_two_eq_zero_or_one i with h | h <;> rw [h] <;> simp
  constructor
  · exact Pointwise.congr p1 (fun i _ => by rw [← key i])
  · exact Pointwise.congr p2 (fun i _ => by rw [← key i])

/-! ### bitwiddle -/

/-- per-column function of `cplx_fftvec_bitwiddle_fma`: first level `ω`, second level `(ω.re, ω.re)` for the
    pair `(A, B)` and `(ω.im, ω.im)` for the pair `(C, D)` (sic) -/
def bitwFmaCx (w A B C D : Cx R) : Cx R × Cx R × Cx R × Cx R :=
  bitwGen (fun x => x * w) (fun x => x * ⟨w.re, w.re⟩) (fun x => x * ⟨w.im, w.im⟩) A B C D

/-- per-column function of the upper half of a zmm in `cplx_fftvec_bitwiddle_avx512` before its repair (D9) -/
def bitwHiCx (w A B C D : Cx R) : Cx R × Cx R × Cx R × Cx R :=
  bitwGen (hiT w.re) (hiT w.re) (hiT w.re) A B C D

theorem bitwiddleFma_spec (m slicea : Nat) (hm : m % 2 = 0) (h0 : 0 < m) (a om : Array R)
    (hoff : 2 * m ≤ 4 * (slicea / 32)) (hb : 3 * (4 * (slicea / 32)) + 2 * m ≤ a.size) :
    (cplxFftvecBitwiddleFma (RArith.ofRing R) m slicea a om).size = a.size ∧
    (∀ i, i < m →
      let off := 4 * (slicea / 32)
      let Q := bitwFmaCx (omW om (i % 2)) (cxAt a (2 * i)) (cxAt a (off + 2 * i)) (cxAt a (2 * off + 2 * i))
        (cxAt a (3 * off + 2 * i))
      cxAt (cplxFftvecBitwiddleFma (RArith.ofRing R) m slicea a om) (2 * i) = Q.1 ∧
      cxAt (cplxFftvecBitwiddleFma (RArith.ofRing R) m slicea a om) (off + 2 * i) = Q.2.1 ∧
      cxAt (cplxFftvecBitwiddleFma (RArith.ofRing R) m slicea a om) (2 * off + 2 * i) = Q.2.2.1 ∧
      cxAt (cplxFftvecBitwiddleFma (RArith.ofRing R) m slicea a om) (3 * off + 2 * i) = Q.2.2.2) ∧
    (∀ x, (∀ s, s < 4 → x < s * (4 * (slicea / 32)) ∨ s * (4 * (slicea / 32)) + 2 * m ≤ x) →
      (cplxFftvecBitwiddleFma (RArith.ofRing R) m slicea a om).getD x 0 = a.getD x 0) := by
  unfold cplxFftvecBitwiddleFma
  rw [ymmCount_bitw_fma m hm h0]
  simp only [ofRing_zero]
  have L := bitwLoop_spec (m / 2) (4 * (slicea / 32))
    (fun _ => bitwReg (RArith.ofRing R) (bitwCfgFma (V4.load 0 om 0)))
    (fun i A B C D => bitwFmaCx (omW om (i % 2)) A B C D) a (by omega) (by omega)
    (by
      intro j e he va vb vc vd
      have h2 : (2 * j + e) % 2 = e := by omega
      simp only [h2]
      rw [omW_eq_lanes om e he]
      exact bitwReg_fma_lanes (V4.load 0 om 0) va vb vc vd e he)
  have e2 : 2 * (m / 2) = m := by omega
  have e4 : 4 * (m / 2) = 2 * m := by omega
  rw [e2, e4] at L
  exact L

theorem bitwiddleAvx512Old_spec (m slicea : Nat) (hm : m % 8 = 0) (h0 : 0 < m) (a om : Array R)
    (hoff : 2 * m ≤ 8 * (slicea / 64)) (hb : 3 * (8 * (slicea / 64)) + 2 * m ≤ a.size) :
    (cplxFftvecBitwiddleAvx512Old (RArith.ofRing R) m slicea a om).size = a.size ∧
    (∀ i, i < m →
      let off := 8 * (slicea / 64)
      let Q := (if i / 2 % 2 = 0 then bitwFmaCx (omW om (i % 2)) else bitwHiCx (omW om (i % 2)))
        (cxAt a (2 * i)) (cxAt a (off + 2 * i)) (cxAt a (2 * off + 2 * i)) (cxAt a (3 * off + 2 * i))
      cxAt (cplxFftvecBitwiddleAvx512Old (RArith.ofRing R) m slicea a om) (2 * i) = Q.1 ∧
      cxAt (cplxFftvecBitwiddleAvx512Old (RArith.ofRing R) m slicea a om) (off + 2 * i) = Q.2.1 ∧
      cxAt (cplxFftvecBitwiddleAvx512Old (RArith.ofRing R) m slicea a om) (2 * off + 2 * i) = Q.2.2.1 ∧
      cxAt (cplxFftvecBitwiddleAvx512Old (RArith.ofRing R) m slicea a om) (3 * off + 2 * i) = Q.2.2.2) ∧
    (∀ x, (∀ s, s < 4 → x < s * (8 * (slicea / 64)) ∨ s * (8 * (slicea / 64)) + 2 * m ≤ x) →
      (cplxFftvecBitwiddleAvx512Old (RArith.ofRing R) m slicea a om).getD x 0 = a.getD x 0) := by
  unfold cplxFftvecBitwiddleAvx512Old
  rw [ymmCount_bitw_avx512 m hm h0]
  simp only [ofRing_zero]
  have L := bitwLoop_spec (m / 2) (8 * (slicea / 64))
    (fun j => bitwReg (RArith.ofRing R) (if j % 2 == 0 then bitwCfgFma (V4.load 0 om 0) else bitwCfgAvx512Hi (V4.load 0 om 0)))
    (fun i A B C D => (if i / 2 % 2 = 0 then bitwFmaCx (omW om (i % 2)) else bitwHiCx (omW om (i % 2))) A B C D)
    a (by omega) (by omega)
    (by
      intro j e he va vb vc vd
      have h2 : (2 * j + e) % 2 = e := by omega
      have h3 : (2 * j + e) / 2 = j := by omega
      simp only [h2, h3]
      rw [omW_eq_lanes om e he]
      rcases Nat.mod_two_eq_zero_or_one j with hj | hj
      · simp only [hj, beq_self_eq_true, if_true]
        exact bitwReg_fma_lanes (V4.load 0 om 0) va vb vc vd e he
      · have hb1 : ((1 : Nat) == 0) = false := rfl
        have hn1 : ¬ ((1 : Nat) = 0) := by omega
        simp only [hj, hb1, hn1, Bool.false_eq_true, if_false]
        exact bitwReg_hi_lanes (V4.load 0 om 0) va vb vc vd e he)
  have e2 : 2 * (m / 2) = m := by omega
  have e4 : 4 * (m / 2) = 2 * m := by omega
  rw [e2, e4] at L
  exact L

/-! ### the repaired AVX-512 kernels are the AVX2 kernels, for every arithmetic (binary64 bit patterns included) -/

theorem twiddleAvx512_eq_fma {α : Type} (ar : RArith α) (m : Nat) (hm : m % 16 = 0) (h0 : 0 < m) (a b om : Array α) :
    cplxFftvecTwiddleAvx512 ar m a b om = cplxFftvecTwiddleFma ar m a b om := by
  unfold cplxFftvecTwiddleAvx512 cplxFftvecTwiddleFma
  rw [ymmCount_avx512 m hm h0, ymmCount_fma m (by omega) h0]

theorem bitwiddleAvx512_eq_fma {α : Type} (ar : RArith α) (m slicea : Nat) (hm : m % 8 = 0) (h0 : 0 < m)
    (hs : slicea % 64 < 32) (a om : Array α) :
    cplxFftvecBitwiddleAvx512 ar m slicea a om = cplxFftvecBitwiddleFma ar m slicea a om := by
  unfold cplxFftvecBitwiddleAvx512 cplxFftvecBitwiddleFma
  rw [ymmCount_bitw_avx512 m hm h0, ymmCount_bitw_fma m (by omega) h0]
  have : 8 * (slicea / 64) = 4 * (slicea / 32) := by omega
  rw [this]

end Cover
end Spq
