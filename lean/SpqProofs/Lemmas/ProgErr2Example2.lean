/-
  C16, binary64 side, products of products, the concrete instance continued: the joint run of `exProg2` (exact states,
  budget maps, binary64 states), the per-call budgets `PreM`, and `exGuardedM`.
  Budgets: `δ(D0) = 2^-40 ≥ μ/2·36`, `δ(D2) = 2^-30 ≥ rowF μ_1 2^-40 0 12 5 15 7 1`; consumer: `0·(56 + δ) + δ < 1/2`.
-/
import SpqProofs.Lemmas.ProgErr2Example
set_option linter.unusedSectionVars false
namespace Spq.ProgErr2
open Finset Spq Spq.Module Spq.FftErr Spq.F64 Spq.Conv Spq.ProdErr Spq.VmpErr Spq.Prog Spq.Closed Spq.ProgErr

/-- a program OUTSIDE `SingleProductDepth`: `vmp_apply_dft_to_dft` reads the output of `svp_apply_dft` -/
def exProg2 : List OpD :=
  [.svpPrepare 0 exY, .vmpPrepare exM0 exY, .svp exD0 0 exX, .vmpDD exD2 exD0 exM0, .idft exW exD2]

def exB0 : Bud ℚ := fun _ _ => 0
/-- budgets claimed for `D0` and `D2` -/
def exDl0 : ℕ → ℚ := fun _ => 1 / 2 ^ 40
def exDl1 : ℕ → ℚ := fun _ => 1 / 2 ^ 30

def exA1 : AState := astepD 2 (.svpPrepare 0 exY) ProgErr.exA
def exA2 : AState := astepD 2 (.vmpPrepare exM0 exY) exA1
def exA3 : AState := astepD 2 (.svp exD0 0 exX) exA2
def exA4 : AState := astepD 2 (.vmpDD exD2 exD0 exM0) exA3
def exS1 : CState ℕ := cstepD (Cfg.parts exC) 2 (.svpPrepare 0 exY) exS
def exS2 : CState ℕ := cstepD (Cfg.parts exC) 2 (.vmpPrepare exM0 exY) exS1
def exS3 : CState ℕ := cstepD (Cfg.parts exC) 2 (.svp exD0 0 exX) exS2
def exS4 : CState ℕ := cstepD (Cfg.parts exC) 2 (.vmpDD exD2 exD0 exM0) exS3
def exB3 : Bud ℚ := upd exB0 exD0 exDl0
def exB4 : Bud ℚ := upd exB3 exD2 exDl1

theorem ex2_f2 : exA2.ppol 0 = some #[3, 4] ∧ limbArr 2 exA2.env exX 0 = #[1, 2] ∧
    polyArr 2 (fun t => (#[3, 4] : Array Int).getD t 0) = #[3, 4] := by decide +kernel
theorem ex2_f3 : exA3.dvec exD0 = some #[#[-5, 10]] ∧ exA3.pmat exM0 = some #[#[3, 4]] ∧
    polyArr 2 (Val.coef #[#[-5, 10]] 0) = #[-5, 10] := by decide +kernel
theorem ex2_f4 : exA4.dvec exD2 = some #[#[-55, 10]] ∧ polyArr 2 (Val.coef #[#[-55, 10]] 0) = #[-55, 10] := by
  decide +kernel
theorem ex2_s3 : exS3.dvec exD0 = exAd := by decide +kernel
theorem ex2_s4 : dlimb (exS4.dvec exD2) 0 2 = exAd2 := by decide +kernel

theorem ex2_mu : mu64 = 3 / 2 * ((1 + 1 / 9007199254740992) ^ 2 - 1) := by
  unfold mu64 gam u64; norm_num
theorem ex2_muD : muD 1 = 3 / 2 * ((1 + 1 / 9007199254740992) ^ 4 - 1) := by
  unfold muD gamD u64; norm_num
theorem ex2_eps : eps ℚ 0 = 0 := by unfold eps; simp

theorem exPreM1 : PreM exMod exVars (.svpPrepare 0 exY) ProgErr.exA exB0 exS exDl0 := ⟨by decide, by decide, trivial⟩
theorem exPreM2 : PreM exMod exVars (.vmpPrepare exM0 exY) exA1 exB0 exS1 exDl0 := ⟨by decide, rfl, rfl, trivial⟩

/-- the budget of the product limb `(1 + 2X)·(3 + 4X)` in DFT space -/
theorem exSvpLimb : SvpLimbBudget exMod #[1, 2] #[3, 4] (1 / 2 ^ 40) := by
  refine ⟨box12, box34, MulOk.of_pipe exPipeOk, 3, 5, by norm_num, by norm_num, ?_, ?_, ?_, ?_⟩
  · show ∑ t ∈ range 2, _ ≤ _
    simp [sum_range_succ]; norm_num
  · show ∑ t ∈ range 2, _ ≤ _
    simp [sum_range_succ]; norm_num
  · show _ ≤ ∑ t ∈ range 2, _
    simp [sum_range_succ]; norm_num
  · show fB (eps ℚ 0) ((mu64 : ℚ) : ℚ) (eps ℚ 0 * 2 ^ 0) * ((∑ t ∈ range 2, _) * 5 + 3 * ∑ t ∈ range 2, _) ≤ _
    rw [ex2_eps, ex2_mu]
    unfold fB dB
    simp [sum_range_succ]; norm_num

theorem exPreM3 : PreM exMod exVars (.svp exD0 0 exX) exA2 exB0 exS2 exDl0 := by
  refine ⟨by decide, fun _ _ => by unfold exDl0; norm_num, #[3, 4], ex2_f2.1, ?_⟩
  intro i hi _
  have hi' : i < 1 := hi
  have : i = 0 := by omega
  subst this
  show SvpLimbBudget exMod (limbArr 2 exA2.env exX 0) (polyArr 2 fun t => (#[3, 4] : Array Int).getD t 0) (1 / 2 ^ 40)
  rw [ex2_f2.2.1, ex2_f2.2.2]; exact exSvpLimb

/-- the budget of the second-level product `(−5 + 10X)·(3 + 4X)` on the concrete operand `(−5.0, 10.0)` -/
theorem exVmpDD : VmpDDBudget exMod #[3, 4] 1 1 (fun _ => #[-5, 10]) exAd 1 1 exDl0 exDl1 := by
  refine ⟨?_, ?_⟩
  · intro i j hi hj
    have : i = 0 := by omega
    have : j = 0 := by omega
    subst_vars
    show Box 0 (matEntry #[3, 4] 1 (2 * 2 ^ 0) 0 0)
    rw [exEntry]; exact box34
  · intro j hj _
    have hj' : j < 1 := hj
    have : j = 0 := by omega
    subst this
    refine ⟨?_, ex2_okD, fun _ => 12, fun _ => 5, fun _ _ => by norm_num, fun _ _ => by norm_num, ?_, ?_, ?_⟩
    · intro i hi
      have hi' : i < 1 := hi
      have : i = 0 := by omega
      subst this
      show FwdOk exC 0 z0 z0 (matEntry #[3, 4] 1 (2 * 2 ^ 0) 0 0)
      rw [exEntry]; exact ex_okB
    · intro i _
      show ∑ t ∈ range 2, _ ≤ _
      simp [sum_range_succ]; norm_num
    · intro i hi
      have hi' : i < 1 := hi
      have : i = 0 := by omega
      subst this
      show n2sq ℚ (matEntry #[3, 4] 1 (2 * 2 ^ 0) 0 0) 2 ≤ _
      rw [exEntry]
      show ∑ t ∈ range 2, _ ≤ _
      simp [sum_range_succ]; norm_num
    · show ∑ i ∈ range 1, rowF ((muD 1 : ℚ) : ℚ) (exDl0 i) (eps ℚ 0 * 5) 12 5 (n1 ℚ #[-5, 10] 2)
        (n1 ℚ (matEntry #[3, 4] 1 (2 * 2 ^ 0) i 0) 2) (2 ^ 0) ≤ exDl1 0
      rw [sum_range_one, exEntry, ex2_eps, ex2_muD]
      unfold rowF rowD exDl0 exDl1 n1
      simp [sum_range_succ]; norm_num

theorem exPreM4 : PreM exMod exVars (.vmpDD exD2 exD0 exM0) exA3 exB3 exS3 exDl1 := by
  refine ⟨by decide, fun _ _ => by unfold exDl1; norm_num, #[#[-5, 10]], #[#[3, 4]], ex2_f3.1, ex2_f3.2.1, ?_⟩
  show VmpDDBudget exMod (flatOf 2 (1 * 1) (fun i t => Val.coef #[#[3, 4]] i t)) 1 1
    (fun i => polyArr 2 (Val.coef #[#[-5, 10]] i)) (exS3.dvec exD0) 1 1 (exB3 exD0) exDl1
  rw [ex_mat.1, ex2_s3]
  have e1 : exB3 exD0 = exDl0 := upd_same _ _ _
  rw [e1]
  obtain ⟨h1, h2⟩ := exVmpDD
  refine ⟨h1, fun j hj hpos => ?_⟩
  obtain ⟨b1, b2, na, nb, c1, c2, c3, c4, c5⟩ := h2 j hj hpos
  have eP : ∀ i, i < min 1 1 → polyArr 2 (Val.coef #[#[-5, 10]] i) = #[-5, 10] := by
    intro i hi
    have hi' : i < 1 := hi
    have : i = 0 := by omega
    subst this
    exact ex2_f3.2.2
  refine ⟨b1, b2, na, nb, c1, c2, fun i hi => by
    show n2sq ℚ (polyArr 2 (Val.coef #[#[-5, 10]] i)) _ ≤ _
    rw [eP i hi]; exact c3 i hi, c4, ?_⟩
  refine le_trans (le_of_eq ?_) c5
  unfold colDelta
  apply sum_congr rfl
  intro i hi
  show rowF _ _ _ _ _ (n1 ℚ (polyArr 2 (Val.coef #[#[-5, 10]] i)) _) _ _ = rowF _ _ _ _ _ (n1 ℚ #[-5, 10] _) _ _
  rw [eP i (mem_range.1 hi)]

/-- the consumer budget of the limb `(−55.0, 10.0)` representing `−55 + 10X` with `δ = 2^-30` -/
theorem exIdftLimb : IdftLimbBudget exMod exAd2 #[-55, 10] (1 / 2 ^ 30) := by
  have hS : n2sq ℚ #[-55, 10] exMod.N ≤ (56 : ℚ) ^ 2 := by
    show ∑ t ∈ range 2, _ ≤ _
    simp [sum_range_succ]; norm_num
  have hE : invBudget exMod 56 (1 / 2 ^ 30) < 1 / 2 := by
    show eps ℚ 0 * (56 + 1 / 2 ^ 30) + 1 / 2 ^ 30 < 1 / 2
    rw [ex2_eps]; norm_num
  exact ⟨ex2_okI, 56, by norm_num, hS, dom_of_box exMod _ _ 56 (by norm_num) hS (by norm_num) hE, hE⟩

theorem exPreM5 : PreM exMod exVars (.idft exW exD2) exA4 exB4 exS4 exDl1 := by
  refine ⟨by decide, #[#[-55, 10]], ex2_f4.1, ?_⟩
  intro i hi _
  have hi' : i < 1 := hi
  have : i = 0 := by omega
  subst this
  show IdftLimbBudget exMod (dlimb (exS4.dvec exD2) 0 2) (polyArr 2 (Val.coef #[#[-55, 10]] 0)) (exB4 exD2 0)
  rw [ex2_s4, ex2_f4.2]
  have e1 : exB4 exD2 0 = 1 / 2 ^ 30 := by
    show upd exB3 exD2 exDl1 exD2 0 = _
    rw [upd_same]; rfl
  rw [e1]; exact exIdftLimb

/-- every call of `exProg2` satisfies its budget along the joint run -/
theorem exGuardedM : GuardedM exMod exVars exProg2 ProgErr.exA exB0 exS :=
  ⟨exDl0, exPreM1, exDl0, exPreM2, exDl0, exPreM3, exDl1, exPreM4, exDl1, exPreM5, trivial⟩

end Spq.ProgErr2
