/-
  Exact-arithmetic characterisation of the whole-vector multiply / multiply-accumulate kernels on the
  three layouts (reim4 blocks, split reim, interleaved cplx), reference and SIMD variants.
-/
import SpqProofs.Lemmas.Reim4Arith
import SpqProofs.Lemmas.Reim4Layout
namespace Spq.Reim4
open Finset
variable {R : Type} [CommRing R]

/-- cells `(re, im)` of evaluation `i` in the reim4 layout: block `i/4`, lane `i%4` -/
def idxReim4 (i : Nat) : Nat × Nat := (8 * (i / 4) + i % 4, 8 * (i / 4) + i % 4 + 4)
/-- … in the split (reim) layout of `m` complexes -/
def idxReim (m i : Nat) : Nat × Nat := (i, i + m)
/-- … in the interleaved (cplx) layout -/
def idxCplx (i : Nat) : Nat × Nat := (2 * i, 2 * i + 1)

/-- evaluation `i` of a vector stored with layout `idx` -/
def ev (idx : Nat → Nat × Nat) (a : Array R) (i : Nat) : Cx R := cx a (idx i).1 (idx i).2

/-- `res` is `r` with evaluation `i < m` replaced by `val i`, nothing else changed (`2m` cells) -/
def Pointwise (idx : Nat → Nat × Nat) (m : Nat) (r res : Array R) (val : Nat → Cx R) : Prop :=
  res.size = r.size ∧ (∀ i, i < m → ev idx res i = val i) ∧ (∀ x, 2 * m ≤ x → res.getD x 0 = r.getD x 0)

/-- a layout covers the first `2m` cells -/
def Covers (idx : Nat → Nat × Nat) (m : Nat) : Prop :=
  ∀ x, x < 2 * m → ∃ i, i < m ∧ (x = (idx i).1 ∨ x = (idx i).2)

theorem covers_reim4 (m : Nat) (hm : m % 4 = 0) : Covers idxReim4 m := by
  intro x hx
  by_cases h : x % 8 < 4
  · exact ⟨4 * (x / 8) + x % 8, by omega, Or.inl (by simp only [idxReim4]; omega)⟩
  · exact ⟨4 * (x / 8) + (x % 8 - 4), by omega, Or.inr (by simp only [idxReim4]; omega)⟩

theorem covers_reim (m : Nat) : Covers (idxReim m) m := by
  intro x hx
  by_cases h : x < m
  · exact ⟨x, h, Or.inl rfl⟩
  · exact ⟨x - m, by omega, Or.inr (by simp only [idxReim]; omega)⟩

theorem covers_cplx (m : Nat) : Covers idxCplx m := by
  intro x hx
  by_cases h : x % 2 = 0
  · exact ⟨x / 2, by omega, Or.inl (by simp only [idxCplx]; omega)⟩
  · exact ⟨x / 2, by omega, Or.inr (by simp only [idxCplx]; omega)⟩

/-- two results with the same pointwise description are the same array -/
theorem Pointwise.unique {idx : Nat → Nat × Nat} {m : Nat} {r res res' : Array R} {val : Nat → Cx R}
    (hc : Covers idx m) (h : Pointwise idx m r res val) (h' : Pointwise idx m r res' val) : res = res' := by
  obtain ⟨s, v, f⟩ := h
  obtain ⟨s', v', f'⟩ := h'
  apply ext_getD 0 _ _ (by rw [s, s'])
  intro x
  by_cases hx : x < 2 * m
  · obtain ⟨i, hi, hxi⟩ := hc x hx
    have e : ev idx res i = ev idx res' i := by rw [v i hi, v' i hi]
    rcases hxi with hxi | hxi
    · have := congrArg Cx.re e
      simp only [ev, cx_re] at this
      rw [hxi]; exact this
    · have := congrArg Cx.im e
      simp only [ev, cx_im] at this
      rw [hxi]; exact this
  · rw [f x (by omega), f' x (by omega)]

/-! ### reim4 layout -/

theorem reim4FftvecMulRef_spec (m : Nat) (hm : m % 4 = 0) (r a b : Array R) (hr : 2 * m ≤ r.size) :
    Pointwise idxReim4 m r (reim4FftvecMulRef (RArith.ofRing R) m r a b) (fun i => ev idxReim4 a i * ev idxReim4 b i) := by
  unfold reim4FftvecMulRef
  obtain ⟨s1, s2, s3⟩ := blocks_lanes_spec (0 : R) (m / 4)
    (fun j i _ => reRef (RArith.ofRing R) (a.getD (8 * j + i) 0) (a.getD (8 * j + i + 4) 0) (b.getD (8 * j + i) 0) (b.getD (8 * j + i + 4) 0))
    (fun j i _ => imRef (RArith.ofRing R) (a.getD (8 * j + i) 0) (a.getD (8 * j + i + 4) 0) (b.getD (8 * j + i) 0) (b.getD (8 * j + i + 4) 0))
    r (by omega)
  refine ⟨s1, ?_, fun x hx => s3 x (by omega)⟩
  intro i hi
  obtain ⟨e1, e2⟩ := s2 (i / 4) (i % 4) (by omega) (by omega)
  ext
  · simp only [ev, idxReim4, cx_re, Cx.mul_re, cx_im]
    exact e1
  · simp only [ev, idxReim4, cx_re, Cx.mul_im, cx_im]
    exact e2

theorem reim4FftvecAddmulRef_spec (m : Nat) (hm : m % 4 = 0) (r a b : Array R) (hr : 2 * m ≤ r.size) :
    Pointwise idxReim4 m r (reim4FftvecAddmulRef (RArith.ofRing R) m r a b)
      (fun i => ev idxReim4 r i + ev idxReim4 a i * ev idxReim4 b i) := by
  unfold reim4FftvecAddmulRef
  obtain ⟨s1, s2, s3⟩ := blocks_lanes_spec (0 : R) (m / 4)
    (fun j i old => (RArith.ofRing R).add old (reRef (RArith.ofRing R) (a.getD (8 * j + i) 0) (a.getD (8 * j + i + 4) 0) (b.getD (8 * j + i) 0) (b.getD (8 * j + i + 4) 0)))
    (fun j i old => (RArith.ofRing R).add old (imRef (RArith.ofRing R) (a.getD (8 * j + i) 0) (a.getD (8 * j + i + 4) 0) (b.getD (8 * j + i) 0) (b.getD (8 * j + i + 4) 0)))
    r (by omega)
  refine ⟨s1, ?_, fun x hx => s3 x (by omega)⟩
  intro i hi
  obtain ⟨e1, e2⟩ := s2 (i / 4) (i % 4) (by omega) (by omega)
  ext
  · simp only [ev, idxReim4, cx_re, Cx.add_re, Cx.mul_re, cx_im]
    exact e1
  · simp only [ev, idxReim4, cx_re, Cx.add_im, Cx.mul_im, cx_im]
    exact e2

/-- lanes of the FMA multiply -/
theorem mulFmaV_lane (a_r a_i b_r b_i : V4 R) (l : Nat) :
    (mulFmaV (RArith.ofRing R) a_r a_i b_r b_i).1.lane l = a_r.lane l * b_r.lane l - a_i.lane l * b_i.lane l ∧
    (mulFmaV (RArith.ofRing R) a_r a_i b_r b_i).2.lane l = a_i.lane l * b_r.lane l + a_r.lane l * b_i.lane l := by
  simp only [mulFmaV, V4.fmsub, V4.fmadd, V4.mul, V4.lane_map3, V4.lane_map2, ofRing_fms, ofRing_fma, ofRing_mul, and_self]

/-- lanes of the FMA multiply-accumulate -/
theorem addmulFmaV_lane (rr ri a_r a_i b_r b_i : V4 R) (l : Nat) :
    (addmulFmaV (RArith.ofRing R) rr ri a_r a_i b_r b_i).1.lane l =
      a_r.lane l * b_r.lane l - (a_i.lane l * b_i.lane l - rr.lane l) ∧
    (addmulFmaV (RArith.ofRing R) rr ri a_r a_i b_r b_i).2.lane l =
      a_i.lane l * b_r.lane l + (a_r.lane l * b_i.lane l + ri.lane l) := by
  simp only [addmulFmaV, V4.fmsub, V4.fmadd, V4.lane_map3, ofRing_fms, ofRing_fma, and_self]

theorem reim4FftvecMulFma_spec (m : Nat) (hm : m % 4 = 0) (r a b : Array R) (hr : 2 * m ≤ r.size) :
    ∃ res, reim4FftvecMulFma (RArith.ofRing R) m r a b = some res ∧
      Pointwise idxReim4 m r res (fun i => ev idxReim4 a i * ev idxReim4 b i) := by
  unfold reim4FftvecMulFma
  simp only [hm, bne_self_eq_false, Bool.false_eq_true, if_false, ofRing_zero]
  refine ⟨_, rfl, ?_⟩
  obtain ⟨s1, s2, s3⟩ := mapV4x2_spec (0 : R) (m / 4) (fun j => 8 * j) (fun j => 8 * j + 4)
    (fun j _ _ => mulFmaV (RArith.ofRing R) (V4.load 0 a (8 * j)) (V4.load 0 a (8 * j + 4)) (V4.load 0 b (8 * j)) (V4.load 0 b (8 * j + 4)))
    r (by intro j j' _ _ _; omega) (by intro j j' _ _ _; omega) (by intro j j' _ _; omega) (by intro j hj; omega)
  refine ⟨s1, ?_, fun x hx => s3 x (by intro j hj; omega)⟩
  intro i hi
  have hl : i % 4 < 4 := by omega
  obtain ⟨e1, e2⟩ := s2 (i / 4) (by omega) (i % 4) hl
  obtain ⟨l1, l2⟩ := mulFmaV_lane (V4.load 0 a (8 * (i / 4))) (V4.load 0 a (8 * (i / 4) + 4)) (V4.load 0 b (8 * (i / 4)))
    (V4.load 0 b (8 * (i / 4) + 4)) (i % 4)
  simp only [V4.lane_load _ _ _ _ hl] at l1 l2
  have q1 : 8 * (i / 4) + 4 + i % 4 = 8 * (i / 4) + i % 4 + 4 := by omega
  ext
  · simp only [ev, idxReim4, cx_re, Cx.mul_re, cx_im]
    rw [e1, l1, q1]
  · simp only [ev, idxReim4, cx_re, Cx.mul_im, cx_im]
    rw [← q1, e2, l2, q1]; ring

theorem reim4FftvecAddmulFma_spec (m : Nat) (hm : m % 4 = 0) (r a b : Array R) (hr : 2 * m ≤ r.size) :
    ∃ res, reim4FftvecAddmulFma (RArith.ofRing R) m r a b = some res ∧
      Pointwise idxReim4 m r res (fun i => ev idxReim4 r i + ev idxReim4 a i * ev idxReim4 b i) := by
  unfold reim4FftvecAddmulFma
  simp only [hm, bne_self_eq_false, Bool.false_eq_true, if_false, ofRing_zero]
  refine ⟨_, rfl, ?_⟩
  obtain ⟨s1, s2, s3⟩ := mapV4x2_spec (0 : R) (m / 4) (fun j => 8 * j) (fun j => 8 * j + 4)
    (fun j rr ri => addmulFmaV (RArith.ofRing R) rr ri (V4.load 0 a (8 * j)) (V4.load 0 a (8 * j + 4)) (V4.load 0 b (8 * j)) (V4.load 0 b (8 * j + 4)))
    r (by intro j j' _ _ _; omega) (by intro j j' _ _ _; omega) (by intro j j' _ _; omega) (by intro j hj; omega)
  refine ⟨s1, ?_, fun x hx => s3 x (by intro j hj; omega)⟩
  intro i hi
  have hl : i % 4 < 4 := by omega
  obtain ⟨e1, e2⟩ := s2 (i / 4) (by omega) (i % 4) hl
  obtain ⟨l1, l2⟩ := addmulFmaV_lane (V4.load 0 r (8 * (i / 4))) (V4.load 0 r (8 * (i / 4) + 4))
    (V4.load 0 a (8 * (i / 4))) (V4.load 0 a (8 * (i / 4) + 4)) (V4.load 0 b (8 * (i / 4)))
    (V4.load 0 b (8 * (i / 4) + 4)) (i % 4)
  simp only [V4.lane_load _ _ _ _ hl] at l1 l2
  have q1 : 8 * (i / 4) + 4 + i % 4 = 8 * (i / 4) + i % 4 + 4 := by omega
  ext
  · simp only [ev, idxReim4, cx_re, Cx.add_re, Cx.mul_re, cx_im]
    rw [e1, l1, q1]; ring
  · simp only [ev, idxReim4, cx_re, Cx.add_im, Cx.mul_im, cx_im]
    rw [← q1, e2, l2, q1]; ring

/-! ### split (reim) layout -/

theorem reimFftvecMulRef_spec (m : Nat) (r a b : Array R) (hr : 2 * m ≤ r.size) :
    Pointwise (idxReim m) m r (reimFftvecMulRef (RArith.ofRing R) m r a b) (fun i => ev (idxReim m) a i * ev (idxReim m) b i) := by
  unfold reimFftvecMulRef
  obtain ⟨s1, s2, s3⟩ := lanes_spec (0 : R) m (fun i => i) (fun i => i + m)
    (fun i _ => reRef (RArith.ofRing R) (a.getD i 0) (a.getD (i + m) 0) (b.getD i 0) (b.getD (i + m) 0))
    (fun i _ => imRef (RArith.ofRing R) (a.getD i 0) (a.getD (i + m) 0) (b.getD i 0) (b.getD (i + m) 0))
    r (by intro k k' _ _ h; exact h) (by intro k k' _ _ _; omega) (by intro k k' _ _; omega) (by intro k hk; omega)
  refine ⟨s1, ?_, fun x hx => s3 x (by intro k hk; omega)⟩
  intro i hi
  obtain ⟨e1, e2⟩ := s2 i hi
  ext
  · simp only [ev, idxReim, cx_re, Cx.mul_re, cx_im]
    exact e1
  · simp only [ev, idxReim, cx_re, Cx.mul_im, cx_im]
    exact e2

theorem reimFftvecAddmulRef_spec (m : Nat) (r a b : Array R) (hr : 2 * m ≤ r.size) :
    Pointwise (idxReim m) m r (reimFftvecAddmulRef (RArith.ofRing R) m r a b)
      (fun i => ev (idxReim m) r i + ev (idxReim m) a i * ev (idxReim m) b i) := by
  unfold reimFftvecAddmulRef
  obtain ⟨s1, s2, s3⟩ := lanes_spec (0 : R) m (fun i => i) (fun i => i + m)
    (fun i old => (RArith.ofRing R).add old (reRef (RArith.ofRing R) (a.getD i 0) (a.getD (i + m) 0) (b.getD i 0) (b.getD (i + m) 0)))
    (fun i old => (RArith.ofRing R).add old (imRef (RArith.ofRing R) (a.getD i 0) (a.getD (i + m) 0) (b.getD i 0) (b.getD (i + m) 0)))
    r (by intro k k' _ _ h; exact h) (by intro k k' _ _ _; omega) (by intro k k' _ _; omega) (by intro k hk; omega)
  refine ⟨s1, ?_, fun x hx => s3 x (by intro k hk; omega)⟩
  intro i hi
  obtain ⟨e1, e2⟩ := s2 i hi
  ext
  · simp only [ev, idxReim, cx_re, Cx.add_re, Cx.mul_re, cx_im]
    exact e1
  · simp only [ev, idxReim, cx_re, Cx.add_im, Cx.mul_im, cx_im]
    exact e2

theorem reimFftvecMulFma_spec (m : Nat) (hm : m % 4 = 0) (r a b : Array R) (hr : 2 * m ≤ r.size) :
    ∃ res, reimFftvecMulFma (RArith.ofRing R) m r a b = some res ∧
      Pointwise (idxReim m) m r res (fun i => ev (idxReim m) a i * ev (idxReim m) b i) := by
  unfold reimFftvecMulFma
  simp only [hm, bne_self_eq_false, Bool.false_eq_true, if_false, ofRing_zero]
  refine ⟨_, rfl, ?_⟩
  obtain ⟨s1, s2, s3⟩ := mapV4x2_spec (0 : R) (m / 4) (fun j => 4 * j) (fun j => m + 4 * j)
    (fun j _ _ => mulFmaV (RArith.ofRing R) (V4.load 0 a (4 * j)) (V4.load 0 a (m + 4 * j)) (V4.load 0 b (4 * j)) (V4.load 0 b (m + 4 * j)))
    r (by intro j j' _ _ _; omega) (by intro j j' _ _ _; omega) (by intro j j' _ _; omega) (by intro j hj; omega)
  refine ⟨s1, ?_, fun x hx => s3 x (by intro j hj; omega)⟩
  intro i hi
  have hl : i % 4 < 4 := by omega
  obtain ⟨e1, e2⟩ := s2 (i / 4) (by omega) (i % 4) hl
  obtain ⟨l1, l2⟩ := mulFmaV_lane (V4.load 0 a (4 * (i / 4))) (V4.load 0 a (m + 4 * (i / 4))) (V4.load 0 b (4 * (i / 4)))
    (V4.load 0 b (m + 4 * (i / 4))) (i % 4)
  simp only [V4.lane_load _ _ _ _ hl] at l1 l2
  have q0 : 4 * (i / 4) + i % 4 = i := by omega
  have q1 : m + 4 * (i / 4) + i % 4 = i + m := by omega
  simp only [q0, q1] at l1 l2 e1 e2
  ext
  · simp only [ev, idxReim, cx_re, Cx.mul_re, cx_im]
    rw [e1, l1]
  · simp only [ev, idxReim, cx_re, Cx.mul_im, cx_im]
    rw [e2, l2]; ring

theorem reimFftvecAddmulFma_spec (m : Nat) (hm : m % 4 = 0) (r a b : Array R) (hr : 2 * m ≤ r.size) :
    ∃ res, reimFftvecAddmulFma (RArith.ofRing R) m r a b = some res ∧
      Pointwise (idxReim m) m r res (fun i => ev (idxReim m) r i + ev (idxReim m) a i * ev (idxReim m) b i) := by
  unfold reimFftvecAddmulFma
  simp only [hm, bne_self_eq_false, Bool.false_eq_true, if_false, ofRing_zero]
  refine ⟨_, rfl, ?_⟩
  obtain ⟨s1, s2, s3⟩ := mapV4x2_spec (0 : R) (m / 4) (fun j => 4 * j) (fun j => m + 4 * j)
    (fun j rr ri => addmulFmaV (RArith.ofRing R) rr ri (V4.load 0 a (4 * j)) (V4.load 0 a (m + 4 * j)) (V4.load 0 b (4 * j)) (V4.load 0 b (m + 4 * j)))
    r (by intro j j' _ _ _; omega) (by intro j j' _ _ _; omega) (by intro j j' _ _; omega) (by intro j hj; omega)
  refine ⟨s1, ?_, fun x hx => s3 x (by intro j hj; omega)⟩
  intro i hi
  have hl : i % 4 < 4 := by omega
  obtain ⟨e1, e2⟩ := s2 (i / 4) (by omega) (i % 4) hl
  obtain ⟨l1, l2⟩ := addmulFmaV_lane (V4.load 0 r (4 * (i / 4))) (V4.load 0 r (m + 4 * (i / 4)))
    (V4.load 0 a (4 * (i / 4))) (V4.load 0 a (m + 4 * (i / 4))) (V4.load 0 b (4 * (i / 4)))
    (V4.load 0 b (m + 4 * (i / 4))) (i % 4)
  simp only [V4.lane_load _ _ _ _ hl] at l1 l2
  have q0 : 4 * (i / 4) + i % 4 = i := by omega
  have q1 : m + 4 * (i / 4) + i % 4 = i + m := by omega
  simp only [q0, q1] at l1 l2 e1 e2
  ext
  · simp only [ev, idxReim, cx_re, Cx.add_re, Cx.mul_re, cx_im]
    rw [e1, l1]; ring
  · simp only [ev, idxReim, cx_re, Cx.add_im, Cx.mul_im, cx_im]
    rw [e2, l2]; ring

/-! ### interleaved (cplx) layout -/

theorem cplxFftvecMulRef_spec (m : Nat) (r a b : Array R) (hr : 2 * m ≤ r.size) :
    Pointwise idxCplx m r (cplxFftvecMulRef (RArith.ofRing R) m r a b) (fun i => ev idxCplx a i * ev idxCplx b i) := by
  unfold cplxFftvecMulRef
  obtain ⟨s1, s2, s3⟩ := lanes_spec (0 : R) m (fun i => 2 * i) (fun i => 2 * i + 1)
    (fun i _ => reRef (RArith.ofRing R) (a.getD (2 * i) 0) (a.getD (2 * i + 1) 0) (b.getD (2 * i) 0) (b.getD (2 * i + 1) 0))
    (fun i _ => imRef (RArith.ofRing R) (a.getD (2 * i) 0) (a.getD (2 * i + 1) 0) (b.getD (2 * i) 0) (b.getD (2 * i + 1) 0))
    r (by intro k k' _ _ _; omega) (by intro k k' _ _ _; omega) (by intro k k' _ _; omega) (by intro k hk; omega)
  refine ⟨s1, ?_, fun x hx => s3 x (by intro k hk; omega)⟩
  intro i hi
  obtain ⟨e1, e2⟩ := s2 i hi
  ext
  · simp only [ev, idxCplx, cx_re, Cx.mul_re, cx_im]
    exact e1
  · simp only [ev, idxCplx, cx_re, Cx.mul_im, cx_im]
    exact e2

theorem cplxFftvecAddmulRef_spec (m : Nat) (r a b : Array R) (hr : 2 * m ≤ r.size) :
    Pointwise idxCplx m r (cplxFftvecAddmulRef (RArith.ofRing R) m r a b)
      (fun i => ev idxCplx r i + ev idxCplx a i * ev idxCplx b i) := by
  unfold cplxFftvecAddmulRef
  obtain ⟨s1, s2, s3⟩ := lanes_spec (0 : R) m (fun i => 2 * i) (fun i => 2 * i + 1)
    (fun i old => (RArith.ofRing R).add old (reRef (RArith.ofRing R) (a.getD (2 * i) 0) (a.getD (2 * i + 1) 0) (b.getD (2 * i) 0) (b.getD (2 * i + 1) 0)))
    (fun i old => (RArith.ofRing R).add old (imRef (RArith.ofRing R) (a.getD (2 * i) 0) (a.getD (2 * i + 1) 0) (b.getD (2 * i) 0) (b.getD (2 * i + 1) 0)))
    r (by intro k k' _ _ _; omega) (by intro k k' _ _ _; omega) (by intro k k' _ _; omega) (by intro k hk; omega)
  refine ⟨s1, ?_, fun x hx => s3 x (by intro k hk; omega)⟩
  intro i hi
  obtain ⟨e1, e2⟩ := s2 i hi
  ext
  · simp only [ev, idxCplx, cx_re, Cx.add_re, Cx.mul_re, cx_im]
    exact e1
  · simp only [ev, idxCplx, cx_re, Cx.add_im, Cx.mul_im, cx_im]
    exact e2

/-- one register of the SIMD multiply: complex `e` of the register sits in lanes `2e`, `2e+1` -/
theorem cplxMulV_lane (x y : V4 R) (e : Nat) (he : e < 2) :
    (cplxMulV (RArith.ofRing R) x y).lane (2 * e) =
      x.lane (2 * e) * y.lane (2 * e) - x.lane (2 * e + 1) * y.lane (2 * e + 1) ∧
    (cplxMulV (RArith.ofRing R) x y).lane (2 * e + 1) =
      x.lane (2 * e) * y.lane (2 * e + 1) + x.lane (2 * e + 1) * y.lane (2 * e) := by
  rcases e with _ | _ | e
  · exact ⟨rfl, rfl⟩
  · exact ⟨rfl, rfl⟩
  · omega

/-- one register of the SIMD multiply-accumulate -/
theorem cplxAddmulV_lane (rri x y : V4 R) (e : Nat) (he : e < 2) :
    (cplxAddmulV (RArith.ofRing R) rri x y).lane (2 * e) =
      x.lane (2 * e) * y.lane (2 * e) - (x.lane (2 * e + 1) * y.lane (2 * e + 1) - rri.lane (2 * e)) ∧
    (cplxAddmulV (RArith.ofRing R) rri x y).lane (2 * e + 1) =
      x.lane (2 * e) * y.lane (2 * e + 1) + (x.lane (2 * e + 1) * y.lane (2 * e) + rri.lane (2 * e + 1)) := by
  rcases e with _ | _ | e
  · exact ⟨rfl, rfl⟩
  · exact ⟨rfl, rfl⟩
  · omega

/-- the SIMD multiply loop over `m/2` registers -/
theorem cplxMulSimd_spec (m : Nat) (hm : m % 2 = 0) (r a b : Array R) (hr : 2 * m ≤ r.size) :
    Pointwise idxCplx m r
      (mapV4 (0 : R) (m / 2) (fun j => 4 * j) (fun j _ => cplxMulV (RArith.ofRing R) (V4.load 0 a (4 * j)) (V4.load 0 b (4 * j))) r)
      (fun i => ev idxCplx a i * ev idxCplx b i) := by
  obtain ⟨s1, s2, s3⟩ := mapV4_spec (0 : R) (m / 2) (fun j => 4 * j)
    (fun j _ => cplxMulV (RArith.ofRing R) (V4.load 0 a (4 * j)) (V4.load 0 b (4 * j))) r
    (by intro j j' _ _ _; omega) (by intro j hj; omega)
  refine ⟨s1, ?_, fun x hx => s3 x (by intro j hj; omega)⟩
  intro i hi
  have he : i % 2 < 2 := by omega
  have e1 := s2 (i / 2) (by omega) (2 * (i % 2)) (by omega)
  have e2 := s2 (i / 2) (by omega) (2 * (i % 2) + 1) (by omega)
  obtain ⟨l1, l2⟩ := cplxMulV_lane (V4.load 0 a (4 * (i / 2))) (V4.load 0 b (4 * (i / 2))) (i % 2) he
  simp only [V4.lane_load (0 : R) _ _ (2 * (i % 2)) (by omega), V4.lane_load (0 : R) _ _ (2 * (i % 2) + 1) (by omega)] at l1 l2
  have q0 : 4 * (i / 2) + 2 * (i % 2) = 2 * i := by omega
  have q1 : 4 * (i / 2) + (2 * (i % 2) + 1) = 2 * i + 1 := by omega
  simp only [q0, q1] at l1 l2 e1 e2
  ext
  · simp only [ev, idxCplx, cx_re, Cx.mul_re, cx_im]
    rw [e1, l1]
  · simp only [ev, idxCplx, cx_re, Cx.mul_im, cx_im]
    rw [e2, l2]

/-- the SIMD multiply-accumulate loop over `m/2` registers -/
theorem cplxAddmulSimd_spec (m : Nat) (hm : m % 2 = 0) (r a b : Array R) (hr : 2 * m ≤ r.size) :
    Pointwise idxCplx m r
      (mapV4 (0 : R) (m / 2) (fun j => 4 * j) (fun j rri => cplxAddmulV (RArith.ofRing R) rri (V4.load 0 a (4 * j)) (V4.load 0 b (4 * j))) r)
      (fun i => ev idxCplx r i + ev idxCplx a i * ev idxCplx b i) := by
  obtain ⟨s1, s2, s3⟩ := mapV4_spec (0 : R) (m / 2) (fun j => 4 * j)
    (fun j rri => cplxAddmulV (RArith.ofRing R) rri (V4.load 0 a (4 * j)) (V4.load 0 b (4 * j))) r
    (by intro j j' _ _ _; omega) (by intro j hj; omega)
  refine ⟨s1, ?_, fun x hx => s3 x (by intro j hj; omega)⟩
  intro i hi
  have he : i % 2 < 2 := by omega
  have e1 := s2 (i / 2) (by omega) (2 * (i % 2)) (by omega)
  have e2 := s2 (i / 2) (by omega) (2 * (i % 2) + 1) (by omega)
  obtain ⟨l1, l2⟩ := cplxAddmulV_lane (V4.load 0 r (4 * (i / 2))) (V4.load 0 a (4 * (i / 2))) (V4.load 0 b (4 * (i / 2))) (i % 2) he
  simp only [V4.lane_load (0 : R) _ _ (2 * (i % 2)) (by omega), V4.lane_load (0 : R) _ _ (2 * (i % 2) + 1) (by omega)] at l1 l2
  have q0 : 4 * (i / 2) + 2 * (i % 2) = 2 * i := by omega
  have q1 : 4 * (i / 2) + (2 * (i % 2) + 1) = 2 * i + 1 := by omega
  simp only [q0, q1] at l1 l2 e1 e2
  ext
  · simp only [ev, idxCplx, cx_re, Cx.add_re, Cx.mul_re, cx_im]
    rw [e1, l1]; ring
  · simp only [ev, idxCplx, cx_re, Cx.add_im, Cx.mul_im, cx_im]
    rw [e2, l2]; ring

/-- in its domain a `do … while` kernel handles exactly `m/2` registers -/
theorem iters_mul_fma (m : Nat) (hm : m % 8 = 0) (h0 : 0 < m) : 4 * doWhileIters (m / 2) 4 = m / 2 := by
  unfold doWhileIters; rw [Nat.max_def]; split <;> omega
theorem iters_addmul_fma (m : Nat) (hm : m % 4 = 0) (h0 : 0 < m) : 2 * doWhileIters (m / 2) 2 = m / 2 := by
  unfold doWhileIters; rw [Nat.max_def]; split <;> omega
theorem iters_addmul_sse (m : Nat) (hm : m % 2 = 0) (h0 : 0 < m) : 1 * doWhileIters m 2 = m / 2 := by
  unfold doWhileIters; rw [Nat.max_def]; split <;> omega
theorem iters_addmul_avx512 (m : Nat) (hm : m % 8 = 0) (h0 : 0 < m) : 4 * doWhileIters (m / 4) 2 = m / 2 := by
  unfold doWhileIters; rw [Nat.max_def]; split <;> omega

end Spq.Reim4
