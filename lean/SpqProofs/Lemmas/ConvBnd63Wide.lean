/-
  The repaired bnd63 kernel on its extended range 2^52 ≤ |x/d| < 2^63: `x/d` is then an integer, the addition
  `x + sign(x)·pred(d/2)` returns `x` (pred(d/2) is below half an ulp of `x`), and the left-shift branch of the
  extraction returns exactly `x/d`.  (With the old offset `d/2` odd integers in [2^52, 2^53) were rounded to even.)
-/
import SpqProofs.Lemmas.ConvBnd63Fix

namespace Spq.Conv
open Spq.F64

/-- a remainder below half a grid step is rounded away -/
theorem rne_of_lt_half (a k ρ : Nat) (h : 2 * ρ < 2 ^ k) : rne (a * 2 ^ k + ρ) k = a := by
  have hG : 0 < 2 ^ k := by positivity
  have h1 : a ≤ rne (a * 2 ^ k + ρ) k := le_rne (Nat.le_add_right _ _)
  obtain ⟨e1, _⟩ := rne_err (a * 2 ^ k + ρ) k
  have h2 : rne (a * 2 ^ k + ρ) k * 2 ^ k < (a + 1) * 2 ^ k := by rw [Nat.add_mul, Nat.one_mul]; omega
  have := Nat.lt_of_mul_lt_mul_right h2
  omega

/-- extraction when the exponent of `a` is at least that of `divisor_bits` (left shift), result below 2^63 -/
theorem bnd63_extract_left (s : Bool) (Ea fa Ed : Nat) (hEa2 : Ea ≤ 2046) (hfa : fa < 4503599627370496)
    (hEd1 : 1 ≤ Ed) (hle : Ed ≤ Ea) (hfit : (4503599627370496 + fa) * 2 ^ (Ea - Ed) < 9223372036854775808) :
    let a := normPat s Ea fa
    let diviBits := Ed * 4503599627370496
    let signMask := sub64 0 (sgn s / 9223372036854775808)
    let a0exp := a &&& EXPO_MASK
    let lsh := sub64 a0exp diviBits / 4503599627370496
    let rsh := sub64 diviBits a0exp / 4503599627370496
    let a0pos := (a &&& MANT_MASK) ||| MANT_MSB
    let fin := (sllv64 a0pos lsh ||| srlv64 a0pos rsh) ^^^ signMask
    toS (sub64 fin signMask) = sI s ((4503599627370496 + fa) * 2 ^ (Ea - Ed)) := by
  intro a diviBits signMask a0exp lsh rsh a0pos fin
  have hs := sgn_lt s
  have ha_exp : a / 4503599627370496 % 2048 = Ea := by
    show (sgn s + Ea * 4503599627370496 + fa) / 4503599627370496 % 2048 = Ea
    rcases hs with h | h <;> rw [h] <;> omega
  have ha_fr : a % 4503599627370496 = fa := by
    show (sgn s + Ea * 4503599627370496 + fa) % 4503599627370496 = fa
    rcases hs with h | h <;> rw [h] <;> omega
  have h_a0exp : a0exp = Ea * 4503599627370496 := by
    show a &&& EXPO_MASK = _
    rw [and_expo_mask, ha_exp]; ring
  have h_a0pos : a0pos = 4503599627370496 + fa := by
    show (a &&& MANT_MASK) ||| MANT_MSB = _
    rw [and_mant_mask, ha_fr]
    have := or_high fa 1 hfa
    rw [Nat.one_mul] at this
    exact this
  have h_lsh : lsh = Ea - Ed := by
    show sub64 a0exp diviBits / 4503599627370496 = _
    rw [h_a0exp]; show sub64 (Ea * 4503599627370496) (Ed * 4503599627370496) / 4503599627370496 = _
    unfold sub64; omega
  have h_rsh : rsh = if Ea = Ed then 0 else 4096 - (Ea - Ed) := by
    show sub64 diviBits a0exp / 4503599627370496 = _
    rw [h_a0exp]; show sub64 (Ed * 4503599627370496) (Ea * 4503599627370496) / 4503599627370496 = _
    unfold sub64; split <;> omega
  -- the shift count is small because the result fits
  have ht : Ea - Ed ≤ 63 := by
    by_contra hc
    have : 2 ^ 64 ≤ 2 ^ (Ea - Ed) := Nat.pow_le_pow_right (by norm_num) (by omega)
    norm_num at this
    nlinarith
  have h_mag : sllv64 a0pos lsh ||| srlv64 a0pos rsh = (4503599627370496 + fa) * 2 ^ (Ea - Ed) := by
    rw [h_a0pos, h_rsh, h_lsh]
    have hl : sllv64 (4503599627370496 + fa) (Ea - Ed) = (4503599627370496 + fa) * 2 ^ (Ea - Ed) := by
      unfold sllv64
      have : ¬ (Ea - Ed > 63) := by omega
      simp only [this, if_false]
      exact Nat.mod_eq_of_lt (by omega)
    rw [hl]
    by_cases heq : Ea = Ed
    · subst heq
      simp only [if_true, Nat.sub_self, pow_zero, Nat.mul_one]
      unfold srlv64
      simp only [Nat.not_lt_zero, gt_iff_lt, if_false, pow_zero, Nat.div_one]
      exact Nat.or_self _
    · simp only [heq, if_false]
      have hr : srlv64 (4503599627370496 + fa) (4096 - (Ea - Ed)) = 0 := by
        unfold srlv64
        have : 4096 - (Ea - Ed) > 63 := by omega
        simp only [this, if_true]
      rw [hr, Nat.or_zero]
  have h_sm : signMask = if s then 18446744073709551615 else 0 := by
    show sub64 0 (sgn s / 9223372036854775808) = _
    cases s <;> simp [sgn, sub64]
  show toS (sub64 ((sllv64 a0pos lsh ||| srlv64 a0pos rsh) ^^^ signMask) signMask) = _
  rw [h_mag, h_sm, cond_negate _ (by omega) s]
  have hv0 : (0 : Int) ≤ (((4503599627370496 + fa) * 2 ^ (Ea - Ed) : Nat) : Int) := Int.natCast_nonneg _
  have hv1 : (((4503599627370496 + fa) * 2 ^ (Ea - Ed) : Nat) : Int) < 9223372036854775808 := by exact_mod_cast hfit
  unfold sI wrapS
  cases s
  · simp only [Bool.false_eq_true, if_false]; omega
  · simp only [if_true]; omega

/-- Repaired kernel on `2^52 ≤ |x/d| < 2^63`: the result is exactly the integer `x/d` (`r·d = x`). -/
theorem toZnx64Bnd63Lane_wide (j : Int) (hj1 : -1020 ≤ j) (hj2 : j ≤ 961) (x : Nat)
    (hx64 : x < 18446744073709551616)
    (hlo : 4503599627370496 * toScaled (pow2 j) ≤ |toScaled x|)
    (hhi : |toScaled x| < 9223372036854775808 * toScaled (pow2 j)) :
    toZnx64Bnd63Lane (bnd63Offset (pow2 j)) (bnd63DiviBits (pow2 j)) x * toScaled (pow2 j) = toScaled x := by
  obtain ⟨sx, mx, ex, hx, hmx, he0, he1⟩ := exists_decode x
  obtain ⟨a, ha⟩ : ∃ a : Nat, (a : Int) = ex + 1074 := ⟨(ex + 1074).toNat, by omega⟩
  obtain ⟨b, hb⟩ : ∃ b : Nat, (b : Int) = j + 1074 := ⟨(j + 1074).toNat, by omega⟩
  have hxs0 : toScaled x = sI sx mx * 2 ^ a := by rw [toScaled_of_decode' hx]; congr 2; omega
  have hds0 : toScaled (pow2 j) = 2 ^ b := by rw [toScaled_pow2 j (by omega) (by omega)]; congr 1; omega
  have hPa : (0 : Int) < 2 ^ a := by positivity
  rw [hxs0, hds0, abs_sI_mul _ _ _ (le_of_lt hPa)] at hlo hhi
  have hloN : 4503599627370496 * 2 ^ b ≤ mx * 2 ^ a := by exact_mod_cast hlo
  have hhiN : mx * 2 ^ a < 9223372036854775808 * 2 ^ b := by exact_mod_cast hhi
  -- ex ≥ j
  have hab : b ≤ a := by
    have h1 : mx * 2 ^ a < 2 ^ 53 * 2 ^ a := Nat.mul_lt_mul_of_pos_right (by norm_num; exact hmx) (by positivity)
    have := exp_lt_of_mul_lt (lt_of_le_of_lt hloN h1)
    omega
  have hexj : j ≤ ex := by omega
  -- x is normal
  have hmn : 4503599627370496 ≤ mx := by
    have := decode_m_ge_of_e x (by rw [hx]; show -1074 < ex; omega)
    rw [hx] at this; exact this
  -- ex - j ≤ 10
  have hab2 : a ≤ b + 10 := by
    have h1 : 4503599627370496 * 2 ^ a ≤ mx * 2 ^ a := Nat.mul_le_mul_right _ hmn
    have h2 : (9223372036854775808 : Nat) * 2 ^ b = 2 ^ 63 * 2 ^ b := by norm_num
    rw [h2] at hhiN
    have := exp_lt_of_mul_lt (lt_of_le_of_lt h1 hhiN)
    omega
  obtain ⟨e, k1, dd, hemin, hk1, hjd, hdd, hee, hasign, hadd, _, _⟩ := bnd63_sum j hj1 (by omega) x hx64 hx he0
  have hdd54 : dd = 54 := by omega
  subst hdd54
  have hk1v : k1 = a - b + 54 := by omega
  rw [Nat.sub_self, pow_zero, Nat.mul_one] at hadd
  -- the sum rounds back to x
  have h2k : (18014398509481984 : Nat) ≤ 2 ^ k1 := by
    have : (2 : Nat) ^ 54 ≤ 2 ^ k1 := Nat.pow_le_pow_right (by norm_num) (by omega)
    norm_num at this; exact this
  have hrne : rne (mx * 2 ^ k1 + 9007199254740991) k1 = mx := rne_of_lt_half mx k1 _ (by omega)
  have hlo' : 4503599627370496 * 2 ^ k1 ≤ mx * 2 ^ k1 + 9007199254740991 :=
    le_trans (Nat.mul_le_mul_right _ hmn) (Nat.le_add_right _ _)
  have hhi' : mx * 2 ^ k1 + 9007199254740991 < 9007199254740992 * 2 ^ k1 := by
    have : mx * 2 ^ k1 ≤ 9007199254740991 * 2 ^ k1 := Nat.mul_le_mul_right _ (by omega)
    omega
  have hapat : pack sx (mx * 2 ^ k1 + 9007199254740991) e = normPat sx (ex + 1075).toNat (mx - 4503599627370496) := by
    rw [pack_round sx _ e k1 hlo' hhi' (by omega), hrne, encode_normal sx mx _ hmn hmx (by omega)]
    unfold normPat
    have : e + (k1 : Int) + 1075 = ex + 1075 := by omega
    rw [this]
  have hdb : bnd63DiviBits (pow2 j) = (j + 1075).toNat * 4503599627370496 := by
    rw [bnd63DiviBits_pow2 j (by omega) (by omega)]; unfold pow2; congr 2; omega
  have hEdiff : (ex + 1075).toNat - (j + 1075).toNat = a - b := by omega
  have hfit : (4503599627370496 + (mx - 4503599627370496)) * 2 ^ ((ex + 1075).toNat - (j + 1075).toNat)
      < 9223372036854775808 := by
    have h0 : 4503599627370496 + (mx - 4503599627370496) = mx := by omega
    rw [h0, hEdiff]
    have hsum : a - b + b = a := by omega
    have hsplit : mx * 2 ^ a = mx * 2 ^ (a - b) * 2 ^ b := by
      rw [mul_assoc, ← pow_add, hsum]
    rw [hsplit] at hhiN
    exact Nat.lt_of_mul_lt_mul_right hhiN
  have hex := bnd63_extract_left sx (ex + 1075).toNat (mx - 4503599627370496) (j + 1075).toNat
    (by omega) (by omega) (by omega) (by omega) hfit
  simp only [] at hex
  have hlane : toZnx64Bnd63Lane (bnd63Offset (pow2 j)) (bnd63DiviBits (pow2 j)) x = sI sx (mx * 2 ^ (a - b)) := by
    unfold toZnx64Bnd63Lane
    simp only []
    rw [hadd, hapat, hasign, hdb, hex, hEdiff]
    have h0 : 4503599627370496 + (mx - 4503599627370496) = mx := by omega
    rw [h0]
  rw [hlane, hxs0, hds0]
  have h3 := sI_mul_nat sx mx (2 ^ (a - b))
  push_cast at h3
  rw [← h3, mul_assoc, ← pow_add]
  have : a - b + b = a := by omega
  rw [this]

end Spq.Conv
