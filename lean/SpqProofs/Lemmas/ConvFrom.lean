/-
  Integer → double conversions (C14, exactness part): `reim_from_znx64_{ref,bnd50_fma}`,
  `cplx_from_znx32_{ref,avx2_fma}`, `cplx_from_tnx32_{ref,avx2_fma}` at lane level.
-/
import Spq.Conv
import SpqProofs.Lemmas.F64Arith

namespace Spq.Conv
open Spq.F64

/-! ### the constants of the C sources, evaluated -/
theorem D_2P52_eq : D_2P52 = 4841369599423283200 := by decide +kernel
theorem D_3P51_eq : D_3P51 = 4843621399236968448 := by decide +kernel
theorem D_2M32_eq : D_2M32 = 4463067230724161536 := by decide +kernel
theorem ZNX32_R_eq : ZNX32_R = 4841369601570766848 := by decide +kernel
theorem TNX32_R_eq : TNX32_R = 4697254413494910976 := by decide +kernel

/-- pattern with sign 0, exponent field `ex`, fraction `fr` -/
theorem decode_pos_pattern (ex fr : Nat) (h1 : 1 ≤ ex) (h2 : ex ≤ 2046) (hfr : fr < 4503599627370496) :
    decode (ex * 4503599627370496 + fr) = ⟨false, fr + 4503599627370496, (ex : Int) - 1075⟩ := by
  have := decode_normal_pattern false ex fr h1 h2 hfr
  simpa [sgn] using this

theorem decode_D_2P52 : decode 4841369599423283200 = ⟨false, 4503599627370496, 0⟩ := by
  have := decode_pos_pattern 1075 0 (by norm_num) (by norm_num) (by norm_num)
  simpa using this
theorem decode_D_3P51 : decode 4843621399236968448 = ⟨false, 6755399441055744, 0⟩ := by
  have := decode_pos_pattern 1075 2251799813685248 (by norm_num) (by norm_num) (by norm_num)
  simpa using this
theorem decode_D_2M32 : decode 4463067230724161536 = ⟨false, 4503599627370496, -84⟩ := by
  have := decode_pos_pattern 991 0 (by norm_num) (by norm_num) (by norm_num)
  simpa using this
theorem decode_ZNX32_R : decode 4841369601570766848 = ⟨false, 4503601774854144, 0⟩ := by
  have := decode_pos_pattern 1075 2147483648 (by norm_num) (by norm_num) (by norm_num)
  simpa using this
theorem decode_TNX32_R : decode 4697254413494910976 = ⟨false, 4503601774854144, -32⟩ := by
  have := decode_pos_pattern 1043 2147483648 (by norm_num) (by norm_num) (by norm_num)
  simpa using this

/-- OR of a 52-bit value into a word whose low 52 bits are clear is an addition -/
theorem or_high (a ex : Nat) (ha : a < 4503599627370496) :
    a ||| (ex * 4503599627370496) = ex * 4503599627370496 + a := by
  have h := Nat.two_pow_add_eq_or_of_lt (i := 52) (b := a) (by norm_num; exact ha) ex
  rw [Nat.or_comm]
  norm_num at h
  rw [Nat.mul_comm ex]; exact h.symm

/-! ### reim_from_znx64 -/

/-- the add-2^51 / or-exponent / subtract-3·2^51 trick computes exactly the cast, on −2^51 ≤ x < 2^51 -/
theorem fromZnx64Bnd50Lane_eq_ofInt (x : Int) (h1 : -2251799813685248 ≤ x) (h2 : x < 2251799813685248) :
    fromZnx64Bnd50Lane x = ofInt x := by
  unfold fromZnx64Bnd50Lane
  have ha : add64 (toU x) 2251799813685248 = (x + 2251799813685248).toNat := by
    unfold add64 toU; omega
  have halt : (x + 2251799813685248).toNat < 4503599627370496 := by omega
  simp only [ha, D_2P52_eq, D_3P51_eq]
  have hor : (x + 2251799813685248).toNat ||| 4841369599423283200 = 1075 * 4503599627370496 + (x + 2251799813685248).toNat := by
    have := or_high (x + 2251799813685248).toNat 1075 halt
    norm_num at this ⊢
    exact this
  rw [hor]
  have hdec : decode (1075 * 4503599627370496 + (x + 2251799813685248).toNat) =
      ⟨false, (x + 2251799813685248).toNat + 4503599627370496, 0⟩ := by
    have := decode_pos_pattern 1075 (x + 2251799813685248).toNat (by norm_num) (by norm_num) halt
    simpa using this
  have hexp : (expField (1075 * 4503599627370496 + (x + 2251799813685248).toNat) == 2047) = false := by
    unfold expField
    have : (1075 * 4503599627370496 + (x + 2251799813685248).toNat) / 4503599627370496 % 2048 = 1075 := by omega
    rw [this]; rfl
  rw [hexp]
  simp only [Bool.false_eq_true, if_false]
  have hb : (4843621399236968448 : Nat) < 18446744073709551616 := by norm_num
  have hs := sub_of_decode hb hdec decode_D_3P51
  rw [hs]
  simp only [min_self, sub_self, Int.toNat_zero, pow_zero, mul_one, sI, Bool.false_eq_true, if_false,
    Bool.not_false, Bool.and_true]
  have hv : (((x + 2251799813685248).toNat + 4503599627370496 : Nat) : Int) - ((6755399441055744 : Nat) : Int) = x := by
    omega
  rw [hv]; rfl

theorem fromZnx64RefLane_exact (x : Int) (hx : x.natAbs < 9007199254740992) :
    toScaled (fromZnx64RefLane x) = x * 2 ^ 1074 := toScaled_ofInt hx

theorem fromZnx64Bnd50Lane_exact (x : Int) (h1 : -2251799813685248 ≤ x) (h2 : x < 2251799813685248) :
    toScaled (fromZnx64Bnd50Lane x) = x * 2 ^ 1074 := by
  rw [fromZnx64Bnd50Lane_eq_ofInt x h1 h2]; exact toScaled_ofInt (by omega)

/-! ### cplx_from_znx32 / cplx_from_tnx32 -/

theorem u32_add (x : Int) (h1 : -2147483648 ≤ x) (h2 : x < 2147483648) :
    (u32 x + 2147483648) % 4294967296 = (x + 2147483648).toNat := by
  unfold u32; omega

/-- the shuffled-in exponent word `0x43300000` and the subtraction of `2^52 + 2^31` give exactly `(double)x` -/
theorem cplxFromZnx32AvxLane_eq_ofInt (x : Int) (h1 : -2147483648 ≤ x) (h2 : x < 2147483648) :
    cplxFromAnyLane ZNX32_C ZNX32_R x = ofInt x := by
  unfold cplxFromAnyLane
  simp only [u32_add x h1 h2, ZNX32_R_eq]
  have halt : (x + 2147483648).toNat < 4503599627370496 := by omega
  have hpat : (x + 2147483648).toNat + 4294967296 * ZNX32_C = 1075 * 4503599627370496 + (x + 2147483648).toNat := by
    show (x + 2147483648).toNat + 4294967296 * 1127219200 = _
    omega
  rw [hpat]
  have hdec : decode (1075 * 4503599627370496 + (x + 2147483648).toNat) =
      ⟨false, (x + 2147483648).toNat + 4503599627370496, 0⟩ := by
    have := decode_pos_pattern 1075 (x + 2147483648).toNat (by norm_num) (by norm_num) halt
    simpa using this
  have hb : (4841369601570766848 : Nat) < 18446744073709551616 := by norm_num
  rw [sub_of_decode hb hdec decode_ZNX32_R]
  simp only [min_self, sub_self, Int.toNat_zero, pow_zero, mul_one, sI, Bool.false_eq_true, if_false,
    Bool.not_false, Bool.and_true]
  have hv : (((x + 2147483648).toNat + 4503599627370496 : Nat) : Int) - ((4503601774854144 : Nat) : Int) = x := by
    omega
  rw [hv]; rfl

/-- same trick with the exponent word `0x41300000` (unit 2^-32) and `R = 2^20 + 1/2` -/
theorem cplxFromTnx32AvxLane_eq (x : Int) (h1 : -2147483648 ≤ x) (h2 : x < 2147483648) :
    cplxFromAnyLane TNX32_C TNX32_R x = packSigned x (-32) false := by
  unfold cplxFromAnyLane
  simp only [u32_add x h1 h2, TNX32_R_eq]
  have halt : (x + 2147483648).toNat < 4503599627370496 := by omega
  have hpat : (x + 2147483648).toNat + 4294967296 * TNX32_C = 1043 * 4503599627370496 + (x + 2147483648).toNat := by
    show (x + 2147483648).toNat + 4294967296 * 1093664768 = _
    omega
  rw [hpat]
  have hdec : decode (1043 * 4503599627370496 + (x + 2147483648).toNat) =
      ⟨false, (x + 2147483648).toNat + 4503599627370496, -32⟩ := by
    have := decode_pos_pattern 1043 (x + 2147483648).toNat (by norm_num) (by norm_num) halt
    simpa using this
  have hb : (4697254413494910976 : Nat) < 18446744073709551616 := by norm_num
  rw [sub_of_decode hb hdec decode_TNX32_R]
  simp only [min_self, sub_self, Int.toNat_zero, pow_zero, mul_one, sI, Bool.false_eq_true, if_false,
    Bool.not_false, Bool.and_true]
  have hv : (((x + 2147483648).toNat + 4503599627370496 : Nat) : Int) - ((4503601774854144 : Nat) : Int) = x := by
    omega
  rw [hv]

theorem sI_decide_natAbs (x : Int) (k : Nat) : sI (decide (x < 0)) (x.natAbs * 2 ^ k) = x * 2 ^ k := by
  unfold sI
  by_cases hneg : x < 0
  · simp only [hneg, decide_true, if_true]
    rw [Nat.cast_mul, Nat.cast_pow, Nat.cast_ofNat]
    have : (x.natAbs : Int) = -x := by omega
    rw [this]; ring
  · simp only [hneg, decide_false, Bool.false_eq_true, if_false]
    rw [Nat.cast_mul, Nat.cast_pow, Nat.cast_ofNat]
    have : (x.natAbs : Int) = x := by omega
    rw [this]

theorem decode_zero : decode 0 = ⟨false, 0, -1074⟩ := by
  have := decode_subnormal_pattern false 0 (by norm_num)
  simpa [sgn] using this

theorem toScaled_zero : toScaled 0 = 0 := by
  rw [toScaled_of_decode' decode_zero]
  show (0 : Int) * _ = 0
  rw [zero_mul]

/-- value of `x·2^-32` packed directly: exact -/
theorem toScaled_packSigned_m32 (x : Int) (hx : x.natAbs < 9007199254740992) :
    toScaled (packSigned x (-32) false) = x * 2 ^ 1042 := by
  by_cases hx0 : x = 0
  · subst hx0; rw [packSigned_zero]; show toScaled 0 = _; rw [toScaled_zero, zero_mul]
  obtain ⟨k, hk, hn1, hn2⟩ := exists_norm_shift (M := x.natAbs) (by omega) hx
  rw [packSigned_ne_zero hx0]
  have hd := decode_pack_small (decide (x < 0)) x.natAbs (-32) k hn1 hn2 (by omega) (by omega)
  rw [toScaled_of_decode' hd, sI_decide_natAbs]
  have he : (-32 - (k : Int) + 1074).toNat = 1042 - k := by omega
  rw [he, mul_assoc, ← pow_add]
  congr 2; omega

/-- `((double)x) * 2^-32`: exact -/
theorem cplxFromTnx32RefLane_exact (x : Int) (hx : x.natAbs < 9007199254740992) :
    toScaled (cplxFromTnx32RefLane x) = x * 2 ^ 1042 := by
  unfold cplxFromTnx32RefLane
  rw [D_2M32_eq]
  by_cases hx0 : x = 0
  · subst hx0
    rw [ofInt_zero, mul_of_decode decode_zero decode_D_2M32, Nat.zero_mul, pack_zero]
    show toScaled 0 = _; rw [toScaled_zero, zero_mul]
  obtain ⟨k, hk, hn1, hn2, hd⟩ := decode_ofInt hx0 hx
  rw [mul_of_decode hd decode_D_2M32]
  have hpw : (4503599627370496 : Nat) = 2 ^ 52 := by norm_num
  rw [hpw]
  have hd2 := decode_pack_exact (decide (x < 0) != false) (x.natAbs * 2 ^ k) 52 (-(k : Int) + -84) 0
    (by simpa using hn1) (by simpa using hn2) (by omega) (by omega)
  rw [toScaled_of_decode' hd2]
  simp only [pow_zero, Nat.mul_one, Nat.cast_zero, sub_zero]
  have hbne : (decide (x < 0) != false) = decide (x < 0) := by cases decide (x < 0) <;> rfl
  rw [hbne, sI_decide_natAbs]
  have he : (-(k : Int) + -84 + ((52 : Nat) : Int) + 1074).toNat = 1042 - k := by omega
  rw [he, mul_assoc, ← pow_add]
  congr 2; omega

theorem cplxFromTnx32AvxLane_exact (x : Int) (h1 : -2147483648 ≤ x) (h2 : x < 2147483648) :
    toScaled (cplxFromAnyLane TNX32_C TNX32_R x) = x * 2 ^ 1042 := by
  rw [cplxFromTnx32AvxLane_eq x h1 h2]; exact toScaled_packSigned_m32 x (by omega)

theorem cplxFromZnx32AvxLane_exact (x : Int) (h1 : -2147483648 ≤ x) (h2 : x < 2147483648) :
    toScaled (cplxFromAnyLane ZNX32_C ZNX32_R x) = x * 2 ^ 1074 := by
  rw [cplxFromZnx32AvxLane_eq_ofInt x h1 h2]; exact toScaled_ofInt (by omega)

end Spq.Conv
