/-
  Verified theory of `F64.pack` / `F64.decode` (binary64 on Nat bit patterns) needed by the conversion
  proofs (C14): `pack` written as shift selection + round-to-nearest-even + encoding (`pack_eq`), error and
  exactness of the rounding (`rne_*`), and `decode ∘ encode` (`decode_encode_*`).
-/
import Spq.F64
import Mathlib.Tactic.Ring
import Mathlib.Tactic.Linarith
import Mathlib.Tactic.Positivity
import Mathlib.Tactic.NormNum

namespace Spq.F64

/-- round-to-nearest-even of `M / 2^k` (the inner expression of `pack` for a right shift by `k`) -/
def rne (M k : Nat) : Nat :=
  if M % 2 ^ k > 2 ^ (k - 1) || (M % 2 ^ k == 2 ^ (k - 1) && M / 2 ^ k % 2 == 1) then M / 2 ^ k + 1 else M / 2 ^ k

def sgn (neg : Bool) : Nat := if neg then 9223372036854775808 else 0

/-- the significand after the shift `sh` chosen by `pack` -/
def rneI (M : Nat) (sh : Int) : Nat := if sh ≤ 0 then M * 2 ^ sh.natAbs else rne M sh.toNat

/-- the shift chosen by `pack`: 53 significant bits, but never below the exponent -1074 -/
def shiftOf (M : Nat) (E : Int) : Int :=
  if E + (((M.log2 + 1 : Nat) : Int) - 53) < -1074 then (((M.log2 + 1 : Nat) : Int) - 53) + (-1074 - (E + (((M.log2 + 1 : Nat) : Int) - 53)))
  else (((M.log2 + 1 : Nat) : Int) - 53)

/-- the encoding step of `pack` for a significand `q ≤ 2^53` and exponent `e1` -/
def encode (neg : Bool) (q : Nat) (e1 : Int) : Nat :=
  let qe : Nat × Int := if q == 9007199254740992 then (4503599627370496, e1 + 1) else (q, e1)
  if qe.1 < 4503599627370496 then sgn neg + qe.1
  else if qe.2 + 1075 ≥ 2047 then sgn neg + 2047 * 4503599627370496
  else sgn neg + (qe.2 + 1075).toNat * 4503599627370496 + (qe.1 - 4503599627370496)

theorem pack_eq (neg : Bool) (M : Nat) (E : Int) (hM : M ≠ 0) :
    pack neg M E = encode neg (rneI M (shiftOf M E)) (E + shiftOf M E) := by
  have h0 : (M == 0) = false := by simpa using hM
  unfold pack encode rneI rne shiftOf sgn
  simp only [h0, Bool.false_eq_true, if_false]

theorem pack_zero (neg : Bool) (E : Int) : pack neg 0 E = sgn neg := by
  unfold pack sgn; simp

/-! ### the shift -/

theorem log2_succ_eq {M len : Nat} (h1 : 2 ^ len ≤ 2 * M) (h2 : M < 2 ^ len) : M.log2 + 1 = len := by
  have hM : M ≠ 0 := by
    rintro rfl
    have : 0 < 2 ^ len := by positivity
    omega
  cases len with
  | zero => simp at h2; omega
  | succ n =>
    have : M.log2 = n := (Nat.log2_eq_iff hM).2 ⟨by rw [pow_succ] at h1; omega, h2⟩
    omega

theorem shiftOf_normal {M : Nat} {E : Int} {len : Nat} (hlen : M.log2 + 1 = len) (h : -1074 ≤ E + (len : Int) - 53) :
    shiftOf M E = (len : Int) - 53 := by
  unfold shiftOf; rw [hlen]
  split <;> omega

theorem shiftOf_subnormal {M : Nat} {E : Int} {len : Nat} (hlen : M.log2 + 1 = len) (h : E + (len : Int) - 53 < -1074) :
    shiftOf M E = -1074 - E := by
  unfold shiftOf; rw [hlen]
  split <;> omega

/-! ### the rounding -/

theorem rne_zero (M : Nat) : rne M 0 = M := by
  unfold rne; simp [Nat.mod_one]

theorem rne_cases (M k : Nat) : rne M k = M / 2 ^ k ∨ rne M k = M / 2 ^ k + 1 := by
  unfold rne; split <;> simp

/-- the rounding error is at most half a unit: `|rne M k · 2^k − M| ≤ 2^k / 2`, without absolute values -/
theorem rne_err (M k : Nat) :
    2 * (rne M k * 2 ^ k) ≤ 2 * M + 2 ^ k ∧ 2 * M ≤ 2 * (rne M k * 2 ^ k) + 2 ^ k := by
  have hP : 0 < 2 ^ k := by positivity
  have hdm := Nat.div_add_mod M (2 ^ k)
  have hr := Nat.mod_lt M hP
  rw [Nat.mul_comm] at hdm
  rcases Nat.eq_zero_or_pos k with rfl | hk
  · rw [rne_zero]; simp
  have hhalf : 2 * 2 ^ (k - 1) = 2 ^ k := by
    rw [← pow_succ']; congr 1; omega
  unfold rne
  generalize hq0 : M / 2 ^ k = q0 at *
  generalize hrr : M % 2 ^ k = r at *
  generalize 2 ^ (k - 1) = half at *
  generalize hPP : 2 ^ k = P at *
  split
  · rename_i hc
    simp only [Bool.or_eq_true, decide_eq_true_eq, Bool.and_eq_true, beq_iff_eq] at hc
    rw [Nat.add_mul, Nat.one_mul]
    generalize q0 * P = t at *
    omega
  · rename_i hc
    simp only [Bool.or_eq_true, decide_eq_true_eq, Bool.and_eq_true, beq_iff_eq, not_or, not_and] at hc
    generalize q0 * P = t at *
    omega

theorem rne_exact (a k : Nat) : rne (a * 2 ^ k) k = a := by
  have hP : 0 < 2 ^ k := by positivity
  have hh : 0 < 2 ^ (k - 1) := by positivity
  unfold rne
  rw [Nat.mul_mod_left, Nat.mul_div_cancel _ hP]
  have : ¬ (0 > 2 ^ (k - 1)) := by omega
  have h2 : (0 == 2 ^ (k - 1)) = false := by
    simp only [beq_eq_false_iff_ne]; omega
  simp [h2]

/-- grid points are preserved: `a·2^k ≤ M → a ≤ rne M k` -/
theorem le_rne {M k a : Nat} (h : a * 2 ^ k ≤ M) : a ≤ rne M k := by
  have hP : 0 < 2 ^ k := by positivity
  have : a ≤ M / 2 ^ k := (Nat.le_div_iff_mul_le hP).2 h
  rcases rne_cases M k with h1 | h1 <;> omega

theorem rne_le {M k a : Nat} (h : M ≤ a * 2 ^ k) : rne M k ≤ a := by
  have hP : 0 < 2 ^ k := by positivity
  rcases Nat.lt_or_ge M (a * 2 ^ k) with hlt | hge
  · have : M / 2 ^ k < a := (Nat.div_lt_iff_lt_mul hP).2 hlt
    rcases rne_cases M k with h1 | h1 <;> omega
  · have : M = a * 2 ^ k := by omega
    rw [this, rne_exact]

/-! ### encoding and decoding -/

theorem sgn_cases (neg : Bool) : (neg = false ∧ sgn neg = 0) ∨ (neg = true ∧ sgn neg = 9223372036854775808) := by
  cases neg <;> simp [sgn]

theorem decode_normal_pattern (neg : Bool) (ex fr : Nat) (h1 : 1 ≤ ex) (h2 : ex ≤ 2046) (hfr : fr < 4503599627370496) :
    decode (sgn neg + ex * 4503599627370496 + fr) = ⟨neg, fr + 4503599627370496, (ex : Int) - 1075⟩ := by
  have hex : (sgn neg + ex * 4503599627370496 + fr) / 4503599627370496 % 2048 = ex := by
    rcases sgn_cases neg with ⟨_, h⟩ | ⟨_, h⟩ <;> rw [h] <;> omega
  have hfrac : (sgn neg + ex * 4503599627370496 + fr) % 4503599627370496 = fr := by
    rcases sgn_cases neg with ⟨_, h⟩ | ⟨_, h⟩ <;> rw [h] <;> omega
  have hs : ((sgn neg + ex * 4503599627370496 + fr) / 9223372036854775808 % 2 == 1) = neg := by
    rcases sgn_cases neg with ⟨hn, h⟩ | ⟨hn, h⟩ <;> rw [h, hn]
    · have : (0 + ex * 4503599627370496 + fr) / 9223372036854775808 % 2 = 0 := by omega
      rw [this]; rfl
    · have : (9223372036854775808 + ex * 4503599627370496 + fr) / 9223372036854775808 % 2 = 1 := by omega
      rw [this]; rfl
  have hne : (ex == 0) = false := by simp; omega
  simp only [decode, expField, fracField, signBit, hex, hfrac, hs, hne, Bool.false_eq_true, if_false]

theorem decode_subnormal_pattern (neg : Bool) (q : Nat) (hq : q < 4503599627370496) :
    decode (sgn neg + q) = ⟨neg, q, -1074⟩ := by
  have hex : (sgn neg + q) / 4503599627370496 % 2048 = 0 := by
    rcases sgn_cases neg with ⟨_, h⟩ | ⟨_, h⟩ <;> rw [h] <;> omega
  have hfrac : (sgn neg + q) % 4503599627370496 = q := by
    rcases sgn_cases neg with ⟨_, h⟩ | ⟨_, h⟩ <;> rw [h] <;> omega
  have hs : ((sgn neg + q) / 9223372036854775808 % 2 == 1) = neg := by
    rcases sgn_cases neg with ⟨hn, h⟩ | ⟨hn, h⟩ <;> rw [h, hn]
    · have : (0 + q) / 9223372036854775808 % 2 = 0 := by omega
      rw [this]; rfl
    · have : (9223372036854775808 + q) / 9223372036854775808 % 2 = 1 := by omega
      rw [this]; rfl
  simp only [decode, expField, fracField, signBit, hex, hfrac, hs, beq_self_eq_true, if_true]

theorem encode_normal (neg : Bool) (q : Nat) (e1 : Int) (hq1 : 4503599627370496 ≤ q) (hq2 : q < 9007199254740992)
    (he : e1 + 1075 < 2047) :
    encode neg q e1 = sgn neg + (e1 + 1075).toNat * 4503599627370496 + (q - 4503599627370496) := by
  have h1 : (q == 9007199254740992) = false := by simp; omega
  have h2 : ¬ q < 4503599627370496 := by omega
  have h3 : ¬ e1 + 1075 ≥ 2047 := by omega
  simp only [encode, h1, Bool.false_eq_true, if_false, h2, h3]

theorem encode_carry (neg : Bool) (e1 : Int) (he : e1 + 1 + 1075 < 2047) :
    encode neg 9007199254740992 e1 = sgn neg + (e1 + 1 + 1075).toNat * 4503599627370496 := by
  have h3 : ¬ e1 + 1 + 1075 ≥ 2047 := by omega
  simp [encode, h3]

theorem encode_subnormal (neg : Bool) (q : Nat) (e1 : Int) (hq : q < 4503599627370496) :
    encode neg q e1 = sgn neg + q := by
  have h1 : (q == 9007199254740992) = false := by simp; omega
  simp only [encode, h1, Bool.false_eq_true, if_false, hq, if_true]

/-- no carry, normal range: `decode ∘ encode` is the identity on `(neg, q, e1)` -/
theorem decode_encode_normal (neg : Bool) (q : Nat) (e1 : Int) (hq1 : 4503599627370496 ≤ q) (hq2 : q < 9007199254740992)
    (he0 : -1074 ≤ e1) (he : e1 ≤ 971) :
    decode (encode neg q e1) = ⟨neg, q, e1⟩ := by
  rw [encode_normal neg q e1 hq1 hq2 (by omega),
    decode_normal_pattern neg (e1 + 1075).toNat (q - 4503599627370496) (by omega) (by omega) (by omega)]
  congr 1
  · omega
  · omega

theorem decode_encode_carry (neg : Bool) (e1 : Int) (he0 : -1074 ≤ e1) (he : e1 + 1 ≤ 971) :
    decode (encode neg 9007199254740992 e1) = ⟨neg, 4503599627370496, e1 + 1⟩ := by
  rw [encode_carry neg e1 (by omega)]
  have := decode_normal_pattern neg (e1 + 1 + 1075).toNat 0 (by omega) (by omega) (by omega)
  rw [Nat.add_zero] at this
  rw [this]
  congr 1
  omega

theorem decode_encode_subnormal (neg : Bool) (q : Nat) (e1 : Int) (hq : q < 4503599627370496) :
    decode (encode neg q e1) = ⟨neg, q, -1074⟩ := by
  rw [encode_subnormal neg q e1 hq, decode_subnormal_pattern neg q hq]

/-! ### every finite pattern decodes to a bounded triple -/

theorem decode_m_lt (b : Nat) : (decode b).m < 9007199254740992 := by
  unfold decode expField fracField
  simp only []
  split <;> simp only [] <;> omega

theorem decode_e_ge (b : Nat) : -1074 ≤ (decode b).e := by
  unfold decode expField fracField
  simp only []
  split
  · simp
  · rename_i h
    simp only [beq_iff_eq] at h
    simp only []
    omega

theorem decode_e_le (b : Nat) : (decode b).e ≤ 972 := by
  unfold decode expField fracField
  simp only []
  split
  · simp
  · simp only []; omega

theorem decode_e_le_finite (b : Nat) (h : isFinite b = true) : (decode b).e ≤ 971 := by
  unfold isFinite expField at h
  simp only [bne_iff_ne, ne_eq] at h
  unfold decode expField fracField
  simp only []
  split
  · simp
  · simp only []; omega

/-- a normal (non-subnormal) finite number has its leading bit set -/
theorem decode_m_ge_of_e (b : Nat) (h : -1074 < (decode b).e) : 4503599627370496 ≤ (decode b).m := by
  unfold decode expField fracField at *
  simp only [] at *
  split
  · rename_i h0; simp only [h0, if_true] at h; omega
  · simp only []; omega

/-! ### `pack` on a significand with `53 + k` bits (right shift by `k ≥ 0`, normal range) -/

theorem pack_round (neg : Bool) (M : Nat) (E : Int) (k : Nat)
    (h1 : 4503599627370496 * 2 ^ k ≤ M) (h2 : M < 9007199254740992 * 2 ^ k) (hE : -1074 ≤ E + k) :
    pack neg M E = encode neg (rne M k) (E + k) := by
  have hP : 0 < 2 ^ k := by positivity
  have hM : M ≠ 0 := by omega
  have hlen : M.log2 + 1 = 53 + k := by
    apply log2_succ_eq
    · rw [pow_add]; norm_num; omega
    · rw [pow_add]; norm_num; omega
  have hsh : shiftOf M E = (k : Int) := by
    rw [shiftOf_normal hlen (by push_cast; omega)]; push_cast; omega
  rw [pack_eq neg M E hM, hsh]
  unfold rneI
  rcases Nat.eq_zero_or_pos k with rfl | hk
  · simp [rne_zero]
  · have : ¬ ((k : Int) ≤ 0) := by omega
    simp only [this, if_false, Int.toNat_natCast]

/-- the rounded significand of `pack_round` is again in `[2^52, 2^53]` -/
theorem rne_range {M k : Nat} (h1 : 4503599627370496 * 2 ^ k ≤ M) (h2 : M < 9007199254740992 * 2 ^ k) :
    4503599627370496 ≤ rne M k ∧ rne M k ≤ 9007199254740992 :=
  ⟨le_rne h1, rne_le (Nat.le_of_lt h2)⟩

theorem decode_pack_round (neg : Bool) (M : Nat) (E : Int) (k : Nat)
    (h1 : 4503599627370496 * 2 ^ k ≤ M) (h2 : M < 9007199254740992 * 2 ^ k) (hE : -1074 ≤ E + k)
    (hq : rne M k < 9007199254740992) (hov : E + k ≤ 971) :
    decode (pack neg M E) = ⟨neg, rne M k, E + k⟩ := by
  rw [pack_round neg M E k h1 h2 hE]
  exact decode_encode_normal neg _ _ (rne_range h1 h2).1 hq hE hov

theorem decode_pack_round_carry (neg : Bool) (M : Nat) (E : Int) (k : Nat)
    (h1 : 4503599627370496 * 2 ^ k ≤ M) (h2 : M < 9007199254740992 * 2 ^ k) (hE : -1074 ≤ E + k)
    (hq : rne M k = 9007199254740992) (hov : E + k + 1 ≤ 971) :
    decode (pack neg M E) = ⟨neg, 4503599627370496, E + k + 1⟩ := by
  rw [pack_round neg M E k h1 h2 hE, hq]
  exact decode_encode_carry neg _ hE hov

/-! ### `pack` on a significand with at most 53 bits: no rounding (left shift by `k`) -/

theorem pack_small (neg : Bool) (M : Nat) (E : Int) (k : Nat)
    (h1 : 4503599627370496 ≤ M * 2 ^ k) (h2 : M * 2 ^ k < 9007199254740992) (hE : -1074 ≤ E - k) :
    pack neg M E = encode neg (M * 2 ^ k) (E - k) := by
  have hP : 0 < 2 ^ k := by positivity
  have hM : M ≠ 0 := by rintro rfl; simp at h1
  obtain ⟨len, hlen⟩ : ∃ len, M.log2 + 1 = len := ⟨_, rfl⟩
  have hb1 : 2 ^ len ≤ 2 * M := by
    have := Nat.log2_self_le hM
    rw [← hlen, pow_succ]; omega
  have hb2 : M < 2 ^ len := by rw [← hlen]; exact Nat.lt_log2_self
  -- len + k = 53
  have hlk : len + k = 53 := by
    have a1 : 2 ^ (len + k) ≤ 2 * (M * 2 ^ k) := by
      rw [pow_add]; calc 2 ^ len * 2 ^ k ≤ (2 * M) * 2 ^ k := Nat.mul_le_mul_right _ hb1
        _ = 2 * (M * 2 ^ k) := by ring
    have a2 : M * 2 ^ k < 2 ^ (len + k) := by
      rw [pow_add]; exact Nat.mul_lt_mul_of_pos_right hb2 hP
    have c1 : 2 ^ (len + k) < 2 ^ 54 := by norm_num; omega
    have c2 : 2 ^ 52 < 2 ^ (len + k) := by norm_num; omega
    have d1 := (Nat.pow_lt_pow_iff_right (a := 2) (by norm_num)).1 c1
    have d2 := (Nat.pow_lt_pow_iff_right (a := 2) (by norm_num)).1 c2
    omega
  have hsh : shiftOf M E = -(k : Int) := by
    rw [shiftOf_normal hlen (by omega)]; omega
  rw [pack_eq neg M E hM, hsh]
  unfold rneI
  have : (-(k : Int)) ≤ 0 := by omega
  simp only [this, if_true, Int.natAbs_neg, Int.natAbs_natCast]
  congr 1

theorem decode_pack_small (neg : Bool) (M : Nat) (E : Int) (k : Nat)
    (h1 : 4503599627370496 ≤ M * 2 ^ k) (h2 : M * 2 ^ k < 9007199254740992) (hE : -1074 ≤ E - k) (hov : E - k ≤ 971) :
    decode (pack neg M E) = ⟨neg, M * 2 ^ k, E - k⟩ := by
  rw [pack_small neg M E k h1 h2 hE]
  exact decode_encode_normal neg _ _ h1 h2 hE hov

/-- every nonzero `M < 2^53` can be normalised by a left shift -/
theorem exists_norm_shift {M : Nat} (hM : M ≠ 0) (h : M < 9007199254740992) :
    ∃ k, k ≤ 52 ∧ 4503599627370496 ≤ M * 2 ^ k ∧ M * 2 ^ k < 9007199254740992 := by
  obtain ⟨len, hlen⟩ : ∃ len, M.log2 + 1 = len := ⟨_, rfl⟩
  have hb1 : 2 ^ len ≤ 2 * M := by
    have := Nat.log2_self_le hM
    rw [← hlen, pow_succ]; omega
  have hb2 : M < 2 ^ len := by rw [← hlen]; exact Nat.lt_log2_self
  have hlen53 : len ≤ 53 := by
    by_contra hc
    have : 2 ^ 54 ≤ 2 ^ len := Nat.pow_le_pow_right (by norm_num) (by omega)
    norm_num at this; omega
  have hlen1 : 1 ≤ len := by omega
  refine ⟨53 - len, by omega, ?_, ?_⟩
  · have : 2 ^ len * 2 ^ (53 - len) = 2 ^ 53 := by rw [← pow_add]; congr 1; omega
    have h3 : 2 ^ len * 2 ^ (53 - len) ≤ (2 * M) * 2 ^ (53 - len) := Nat.mul_le_mul_right _ hb1
    rw [this] at h3; norm_num at h3; linarith
  · have : 2 ^ len * 2 ^ (53 - len) = 2 ^ 53 := by rw [← pow_add]; congr 1; omega
    have hP : 0 < 2 ^ (53 - len) := by positivity
    have h3 : M * 2 ^ (53 - len) < 2 ^ len * 2 ^ (53 - len) := Nat.mul_lt_mul_of_pos_right hb2 hP
    rw [this] at h3; norm_num at h3; exact h3

/-! ### exact value scaled by 2^1074 -/

theorem toScaled_of_decode {b : Nat} {neg : Bool} {m : Nat} {e : Int} (h : decode b = ⟨neg, m, e⟩) :
    toScaled b = (if neg then -(m : Int) else (m : Int)) * (2 : Int) ^ ((e + 1074).toNat) := by
  unfold toScaled toIntM; rw [h]

end Spq.F64
