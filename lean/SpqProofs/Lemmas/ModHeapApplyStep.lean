/-
  Steps of the block loop of `fft64_vmp_apply_dft_to_dft` (`nn ≥ 8`) at heap level: one block save, one column
  pair (dot product + two saves), the odd last column.
-/
import SpqProofs.Lemmas.ModHeapApplySmallCore
import SpqProofs.Lemmas.ModHeapIdft
namespace Spq.ModuleHeap
open Spq Heap Reim4
variable {γ α : Type}

theorem extract_rdD (cd : Cells γ α) (h : Heap γ) (p n i k : Nat) (hk : i + k ≤ n) :
    (rdD cd h p n).extract i (i + k) = rdD cd h (p + i) k := by
  unfold rdD
  rw [extract_map, readLimb_extract _ _ _ _ _ _ hk]

theorem extract_full {β : Type} (O : Array β) (n : Nat) (hO : O.size = n) : O.extract 0 n = O := by
  subst hO; exact Array.extract_size

/-- the first / second half of a 16-cell window that holds `O` -/
theorem cells_lo (cd : Cells γ α) (g : Heap γ) (p : Nat) (O : Array α)
    (v : g.readLimb cd.dflt p 16 = O.map cd.enc) : g.readLimb cd.dflt p 8 = (O.extract 0 8).map cd.enc := by
  have := readLimb_extract g cd.dflt p 16 0 8 (by omega)
  rw [v, extract_map] at this
  simp only [Nat.zero_add, Nat.add_zero] at this
  rw [this]
theorem cells_hi (cd : Cells γ α) (g : Heap γ) (p : Nat) (O : Array α)
    (v : g.readLimb cd.dflt p 16 = O.map cd.enc) : g.readLimb cd.dflt (p + 8) 8 = (O.extract 8 16).map cd.enc := by
  have := readLimb_extract g cd.dflt p 16 8 8 (by omega)
  rw [v, extract_map] at this
  exact this.symm

/-- bounds of the matrix slices (`nn = 8 * (m/4)`) -/
theorem pm_bound2 (nn m nrows ncols blk col : Nat) (hnn : nn = 2 * m) (hm4 : m % 4 = 0) (hblk : blk < m / 4)
    (hcol : col + 2 ≤ ncols) :
    blk * (8 * nrows * ncols) + col * (8 * nrows) + 16 * nrows ≤ nn * nrows * ncols := by
  have e1 : col * (8 * nrows) + 16 * nrows = (col + 2) * (8 * nrows) := by ring
  have e2 : (col + 2) * (8 * nrows) ≤ ncols * (8 * nrows) := Nat.mul_le_mul_right _ hcol
  have e3 : ncols * (8 * nrows) = 8 * nrows * ncols := by ring
  have e4 := mul_step blk (m / 4) (8 * nrows * ncols) hblk
  have e5 : nn * nrows * ncols = m / 4 * (8 * nrows * ncols) := by
    have : nn = 8 * (m / 4) := by omega
    rw [this]; ring
  omega

theorem pm_bound1 (nn m nrows ncols blk : Nat) (hnn : nn = 2 * m) (hm4 : m % 4 = 0) (hblk : blk < m / 4)
    (hcol : 1 ≤ ncols) :
    blk * (8 * nrows * ncols) + (ncols - 1) * (8 * nrows) + 8 * nrows ≤ nn * nrows * ncols := by
  have e1 : (ncols - 1) * (8 * nrows) + 8 * nrows = (ncols - 1 + 1) * (8 * nrows) := by ring
  have e2 : ncols - 1 + 1 = ncols := by omega
  have e3 : ncols * (8 * nrows) = 8 * nrows * ncols := by ring
  have e4 := mul_step blk (m / 4) (8 * nrows * ncols) hblk
  have e5 : nn * nrows * ncols = m / 4 * (8 * nrows * ncols) := by
    have : nn = 8 * (m / 4) := by omega
    rw [this]; ring
  rw [e2] at e1
  omega

section
variable (c : Module.Parts α) (cd : Cells γ α) (hr : RoundTrip cd)
include hr

/-- one `reim4_save_1blk_to_reim` into limb `col` of the result region: the region's content changes by `saveG`,
    nothing outside the region changes -/
theorem saveStep (g : Heap γ) (res N blk col src : Nat) (R : Array γ) (O : Array α) (hO : O.size = 8)
    (v : g.readLimb cd.dflt res N = R) (vo : g.readLimb cd.dflt src 8 = O.map cd.enc)
    (hN : res + N ≤ g.mem.size) (hsrc : src + 8 ≤ g.mem.size)
    (hwin : col * c.nn + c.m + 4 * blk + 4 ≤ N) (hm : 4 * blk + 4 ≤ c.m)
    (hd : src + 8 ≤ res ∨ res + N ≤ src) :
    Fr (In res N) g (kSave c cd blk (res + col * c.nn) src g) ∧
    (kSave c cd blk (res + col * c.nn) src g).readLimb cd.dflt res N = saveG (Array.map cd.enc) c.m c.nn blk R col O := by
  obtain ⟨g1, f1, v1, f2, v2⟩ := kSave_spec c cd g blk (res + col * c.nn) src hsrc (by omega) (by omega) (by omega) (by omega)
  rw [rdD_of_cells cd hr _ _ _ _ vo] at v1 v2
  have e1 : res + col * c.nn + 4 * blk = res + (col * c.nn + 4 * blk) := by omega
  have e2 : res + col * c.nn + c.m + 4 * blk = res + (col * c.nn + c.m + 4 * blk) := by omega
  rw [e1] at f1 v1
  rw [e2] at f2 v2
  refine ⟨(f1.trans f2).mono (fun x q => by unfold In at *; omega), ?_⟩
  unfold saveG
  rw [region_step cd.dflt res N _ 4 _ f2 v2 (by omega) (by rw [f1.size]; omega),
      region_step cd.dflt res N _ 4 _ f1 v1 (by omega) hN, v]

end
end Spq.ModuleHeap
