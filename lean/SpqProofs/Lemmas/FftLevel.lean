/-
  C06, level layer: what the twiddle pass, the radix-4 pass and the 16-point leaf do to a region that holds the
  level-`ℓ` values `V ℓ` of the naive network: they advance it by 1, 2 and 4 levels.
-/
import SpqProofs.Lemmas.FftAlg
import SpqProofs.Lemmas.FftView
namespace Spq.Fft.Level
open Spq.Fft Spq.Fft.Alg Spq.Fft.View

variable {R : Type} [CommRing R]

/-- forward butterfly on values: `(u, v) ↦ (u + W v, u − W v)` -/
def fφ (W : R) (u v : R) : R := u + W * v
def fψ (W : R) (u v : R) : R := u - W * v
/-- forward twiddle pass -/
abbrev twF (W : R) (h off : ℕ) (x : ℕ → R) : ℕ → R := twG (fφ W) (fψ W) h off x

variable (ζ : R) (a : ℕ → R)

/-- cells `lo ≤ p < hi` of `x` hold the level-`ℓ` values (block size `2^d`) -/
def Lv (x : ℕ → R) (ℓ d lo hi : ℕ) : Prop := ∀ p, lo ≤ p → p < hi → x p = V ζ a ℓ d p

theorem Lv.mono {x : ℕ → R} {ℓ d lo hi lo' hi' : ℕ} (h : Lv ζ a x ℓ d lo hi) (h1 : lo ≤ lo') (h2 : hi' ≤ hi) :
    Lv ζ a x ℓ d lo' hi' := fun p hp hp' => h p (by omega) (by omega)

theorem Lv.append {x : ℕ → R} {ℓ d lo mid hi : ℕ} (h1 : Lv ζ a x ℓ d lo mid) (h2 : Lv ζ a x ℓ d mid hi) :
    Lv ζ a x ℓ d lo hi := fun p hp hp' => by
  by_cases h : p < mid
  · exact h1 p hp h
  · exact h2 p (by omega) hp'

theorem Lv.congr {x y : ℕ → R} {ℓ d lo hi : ℕ} (h : Lv ζ a x ℓ d lo hi) (hxy : ∀ p, lo ≤ p → p < hi → y p = x p) :
    Lv ζ a y ℓ d lo hi := fun p hp hp' => by rw [hxy p hp hp', h p hp hp']

/-- one twiddle pass on the block `b` (size `2·2^d`) advances it from level `ℓ` to level `ℓ+1` -/
theorem tw_level (x : ℕ → R) (ℓ d b off : ℕ) (hoff : off = 2 * 2 ^ d * b)
    (hx : Lv ζ a x ℓ (d + 1) off (off + 2 * 2 ^ d)) :
    Lv ζ a (twF (ζ ^ twE ℓ d b) (2 ^ d) off x) (ℓ + 1) d off (off + 2 * 2 ^ d) := by
  intro p hp hp'
  obtain ⟨h, hh⟩ : ∃ h, h = 2 ^ d := ⟨_, rfl⟩
  have hpos : 0 < h := by rw [hh]; exact Nat.two_pow_pos d
  rw [← hh] at hp' hoff hx ⊢
  have hb : p / (2 * h) = b := by
    rw [show p = 2 * h * b + (p - off) by omega]; exact mul_add_div' _ _ _ (by omega)
  have hr : p % (2 * h) = p - off := by
    rw [show p = 2 * h * b + (p - off) by omega]
    rw [show 2 * h * b + (p - off) - off = p - off by omega]
    exact mul_add_mod' _ _ _ (by omega)
  rw [V]
  unfold twF
  simp only [← hh, hb, hr]
  by_cases hlt : p - off < h
  · rw [if_pos hlt, twG_lo _ _ _ _ _ _ (by omega), fφ, hx p hp (by omega), hx (p + h) (by omega) (by omega)]
  · rw [if_neg hlt, twG_hi _ _ _ _ _ _ (by omega), fψ, hx p hp (by omega), hx (p - h) (by omega) (by omega)]

/-- a twiddle pass inside a region that is swept block by block, left to right: cells left of the block are
already at level `ℓ+1`, the block and the cells right of it are at level `ℓ`; nothing outside the region moves -/
theorem tw_region (x : ℕ → R) (ℓ d b off lo hi : ℕ) (hoff : off = 2 * 2 ^ d * b)
    (hlo : lo ≤ off) (hhi : off + 2 * 2 ^ d ≤ hi)
    (h1 : Lv ζ a x (ℓ + 1) d lo off) (h2 : Lv ζ a x ℓ (d + 1) off hi) :
    Lv ζ a (twF (ζ ^ twE ℓ d b) (2 ^ d) off x) (ℓ + 1) d lo (off + 2 * 2 ^ d) ∧
    Lv ζ a (twF (ζ ^ twE ℓ d b) (2 ^ d) off x) ℓ (d + 1) (off + 2 * 2 ^ d) hi ∧
    (∀ p, p < lo ∨ hi ≤ p → twF (ζ ^ twE ℓ d b) (2 ^ d) off x p = x p) := by
  refine ⟨?_, ?_, ?_⟩
  · apply Lv.append ζ a (mid := off)
    · exact h1.congr ζ a (fun p hp hp' => twG_out _ _ _ _ _ _ (by omega))
    · exact tw_level ζ a x ℓ d b off hoff (h2.mono ζ a (by omega) hhi)
  · exact (h2.mono ζ a (by omega) (by omega)).congr ζ a (fun p hp hp' => twG_out _ _ _ _ _ _ (by omega))
  · intro p hp
    exact twG_out _ _ _ _ _ _ (by omega)

/-- `y` is obtained from `x` by advancing the block `[off, off+sz)` from level `(ℓ, d)` to level `(ℓ', d')`,
leaving every other cell unchanged -/
def Adv (x y : ℕ → R) (ℓ d ℓ' d' off sz : ℕ) : Prop :=
  (Lv ζ a x ℓ d off (off + sz) → Lv ζ a y ℓ' d' off (off + sz)) ∧ (∀ p, p < off ∨ off + sz ≤ p → y p = x p)

theorem Adv.empty (x : ℕ → R) (ℓ d ℓ' d' off : ℕ) : Adv ζ a x x ℓ d ℓ' d' off 0 :=
  ⟨fun _ p hp hp' => by omega, fun _ _ => rfl⟩

theorem Adv.seq {x y z : ℕ → R} {ℓ d ℓ' d' ℓ'' d'' off sz : ℕ}
    (h1 : Adv ζ a x y ℓ d ℓ' d' off sz) (h2 : Adv ζ a y z ℓ' d' ℓ'' d'' off sz) :
    Adv ζ a x z ℓ d ℓ'' d'' off sz :=
  ⟨fun h => h2.1 (h1.1 h), fun p hp => by rw [h2.2 p hp, h1.2 p hp]⟩

/-- adjacent blocks -/
theorem Adv.par {x y z : ℕ → R} {ℓ d ℓ' d' off sz1 sz2 : ℕ}
    (h1 : Adv ζ a x y ℓ d ℓ' d' off sz1) (h2 : Adv ζ a y z ℓ d ℓ' d' (off + sz1) sz2) :
    Adv ζ a x z ℓ d ℓ' d' off (sz1 + sz2) := by
  constructor
  · intro h
    have ha := h1.1 (h.mono ζ a (Nat.le_refl _) (by omega))
    have hb : Lv ζ a y ℓ d (off + sz1) (off + sz1 + sz2) :=
      (h.mono ζ a (by omega) (by omega)).congr ζ a (fun p hp hp' => h1.2 p (by omega))
    have hc := h2.1 hb
    apply Lv.append ζ a (mid := off + sz1)
    · exact ha.congr ζ a (fun p hp hp' => h2.2 p (by omega))
    · exact hc.mono ζ a (Nat.le_refl _) (by omega)
  · intro p hp
    rw [h2.2 p (by omega), h1.2 p (by omega)]

theorem Adv.of_eq {x y : ℕ → R} {ℓ d ℓ' d' off sz off' sz' : ℕ} (h : Adv ζ a x y ℓ d ℓ' d' off sz)
    (e1 : off' = off) (e2 : sz' = sz) : Adv ζ a x y ℓ d ℓ' d' off' sz' := by subst e1 e2; exact h

theorem Adv.cast {x y : ℕ → R} {ℓ d ℓ' d' off sz : ℕ} (h : Adv ζ a x y ℓ d ℓ' d' off sz)
    (ℓ1 d1 ℓ1' d1' : ℕ) (e1 : ℓ1 = ℓ) (e2 : d1 = d) (e3 : ℓ1' = ℓ') (e4 : d1' = d') :
    Adv ζ a x y ℓ1 d1 ℓ1' d1' off sz := by subst e1 e2 e3 e4; exact h

/-- a loop that advances block after block -/
theorem Adv.iter (f : ℕ → (ℕ → R) → (ℕ → R)) (ℓ d ℓ' d' off sz n : ℕ)
    (h : ∀ b x, b < n → Adv ζ a x (f b x) ℓ d ℓ' d' (off + b * sz) sz) (x : ℕ → R) :
    Adv ζ a x (iterFrom f n 0 x) ℓ d ℓ' d' off (n * sz) := by
  induction n with
  | zero => simpa [iterFrom] using Adv.empty ζ a x ℓ d ℓ' d' off
  | succ n ih =>
    rw [iterFrom_succ_last, Nat.zero_add]
    have h1 := ih (fun b x hb => h b x (by omega))
    have h2 := h n (iterFrom f n 0 x) (by omega)
    exact (Adv.par ζ a h1 h2).of_eq ζ a rfl (by ring)

/-- the twiddle pass advances its block by one level -/
theorem Adv.tw (x : ℕ → R) (ℓ d b off : ℕ) (hoff : off = 2 * 2 ^ d * b) :
    Adv ζ a x (twF (ζ ^ twE ℓ d b) (2 ^ d) off x) ℓ (d + 1) (ℓ + 1) d off (2 * 2 ^ d) :=
  ⟨fun h => tw_level ζ a x ℓ d b off hoff h, fun p hp => twG_out _ _ _ _ _ _ (by omega)⟩

/-- the radix-4 pass (`bitwiddle`) advances its block (size `4h`, `h = 2^d`) by two levels -/
theorem Adv.bw (x : ℕ → R) (ℓ d b off h : ℕ) (hh : h = 2 ^ d) (hoff : off = 4 * h * b) (W0 W1 W1' : R)
    (hW0 : W0 = ζ ^ twE ℓ (d + 1) b) (hW1 : W1 = ζ ^ twE (ℓ + 1) d (2 * b))
    (hW1' : W1' = ζ ^ twE (ℓ + 1) d (2 * b + 1)) :
    Adv ζ a x (twF W1' h (off + 2 * h) (twF W1 h off (twF W0 (2 * h) off x))) ℓ (d + 2) (ℓ + 2) d off (4 * h) := by
  have e2 : 2 ^ (d + 1) = 2 * h := by rw [pow_succ, hh]; ring
  have s1 := Adv.tw ζ a x ℓ (d + 1) b off (by rw [e2, hoff]; ring)
  rw [← hW0, e2] at s1
  have s2 := Adv.tw ζ a (twF W0 (2 * h) off x) (ℓ + 1) d (2 * b) off (by rw [← hh, hoff]; ring)
  rw [← hW1, ← hh] at s2
  have s3 := Adv.tw ζ a (twF W1 h off (twF W0 (2 * h) off x)) (ℓ + 1) d (2 * b + 1) (off + 2 * h)
    (by rw [← hh, hoff]; ring)
  rw [← hW1', ← hh] at s3
  exact (s1.seq ζ a ((s2.par ζ a s3).of_eq ζ a rfl (by ring))).of_eq ζ a rfl (by ring)

/-- the 16-point leaf advances its block by four levels -/
theorem Adv.leaf (I : R) (x : ℕ → R) (ℓ b off : ℕ) (hoff : off = 16 * b) (W : ℕ → R)
    (hW0 : W 0 = ζ ^ twE ℓ 3 b)
    (hW1 : W 1 = ζ ^ twE (ℓ + 1) 2 (2 * b)) (hW1' : I * W 1 = ζ ^ twE (ℓ + 1) 2 (2 * b + 1))
    (hW2 : W 2 = ζ ^ twE (ℓ + 2) 1 (4 * b)) (hW2' : I * W 2 = ζ ^ twE (ℓ + 2) 1 (4 * b + 1))
    (hW3 : W 3 = ζ ^ twE (ℓ + 2) 1 (4 * b + 2)) (hW3' : I * W 3 = ζ ^ twE (ℓ + 2) 1 (4 * b + 3))
    (hW4 : ∀ q, q < 4 → W (4 + q) = ζ ^ twE (ℓ + 3) 0 (8 * b + 2 * q))
    (hW4' : ∀ q, q < 4 → I * W (4 + q) = ζ ^ twE (ℓ + 3) 0 (8 * b + 2 * q + 1)) :
    Adv ζ a x (fft16V (fun k => (fφ (W k), fψ (W k))) (fun k => (fφ (I * W k), fψ (I * W k))) off x)
      ℓ 4 (ℓ + 4) 0 off 16 := by
  show Adv ζ a x (iterFrom (fun q x => twF (I * W (4 + q)) 1 (off + 4 * q + 2) (twF (W (4 + q)) 1 (off + 4 * q) x)) 4 0
    (twF (I * W 3) 2 (off + 12) (twF (W 3) 2 (off + 8) (twF (I * W 2) 2 (off + 4) (twF (W 2) 2 off
    (twF (I * W 1) 4 (off + 8) (twF (W 1) 4 off (twF (W 0) 8 off x)))))))) ℓ 4 (ℓ + 4) 0 off 16
  -- level 1
  have s1 := Adv.tw ζ a x ℓ 3 b off (by omega)
  rw [← hW0] at s1
  -- level 2
  have s2a := Adv.tw ζ a (twF (W 0) 8 off x) (ℓ + 1) 2 (2 * b) off (by omega)
  rw [← hW1] at s2a
  have s2b := Adv.tw ζ a (twF (W 1) 4 off (twF (W 0) 8 off x)) (ℓ + 1) 2 (2 * b + 1) (off + 8) (by omega)
  rw [← hW1'] at s2b
  have s2 := (s2a.par ζ a s2b)
  -- level 3
  have s3a := Adv.tw ζ a (twF (I * W 1) 4 (off + 8) (twF (W 1) 4 off (twF (W 0) 8 off x)))
    (ℓ + 2) 1 (4 * b) off (by omega)
  rw [← hW2] at s3a
  have s3b := Adv.tw ζ a (twF (W 2) 2 off (twF (I * W 1) 4 (off + 8) (twF (W 1) 4 off (twF (W 0) 8 off x))))
    (ℓ + 2) 1 (4 * b + 1) (off + 4) (by omega)
  rw [← hW2'] at s3b
  have s3c := Adv.tw ζ a (twF (I * W 2) 2 (off + 4) (twF (W 2) 2 off (twF (I * W 1) 4 (off + 8)
    (twF (W 1) 4 off (twF (W 0) 8 off x))))) (ℓ + 2) 1 (4 * b + 2) (off + 8) (by omega)
  rw [← hW3] at s3c
  have s3d := Adv.tw ζ a (twF (W 3) 2 (off + 8) (twF (I * W 2) 2 (off + 4) (twF (W 2) 2 off
    (twF (I * W 1) 4 (off + 8) (twF (W 1) 4 off (twF (W 0) 8 off x)))))) (ℓ + 2) 1 (4 * b + 3) (off + 12) (by omega)
  rw [← hW3'] at s3d
  have s3 := ((s3a.par ζ a s3b).par ζ a (s3c.of_eq ζ a (by omega) rfl)).par ζ a (s3d.of_eq ζ a (by omega) rfl)
  -- level 4
  have s4 := Adv.iter ζ a
    (fun q x => twF (I * W (4 + q)) 1 (off + 4 * q + 2) (twF (W (4 + q)) 1 (off + 4 * q) x))
    (ℓ + 3) 1 (ℓ + 4) 0 off 4 4
    (fun q y hq => by
      have t1 := Adv.tw ζ a y (ℓ + 3) 0 (8 * b + 2 * q) (off + q * 4) (by omega)
      rw [← hW4 q hq] at t1
      have t2 := Adv.tw ζ a (twF (W (4 + q)) (2 ^ 0) (off + q * 4) y) (ℓ + 3) 0 (8 * b + 2 * q + 1)
        (off + q * 4 + 2 * 2 ^ 0) (by omega)
      rw [← hW4' q hq] at t2
      have := t1.par ζ a t2
      have e1 : off + q * 4 = off + 4 * q := by omega
      have e2 : off + q * 4 + 2 * 2 ^ 0 = off + 4 * q + 2 := by omega
      rw [e2, e1] at this
      exact this.of_eq ζ a (by omega) (by norm_num))
    (twF (I * W 3) 2 (off + 12) (twF (W 3) 2 (off + 8) (twF (I * W 2) 2 (off + 4) (twF (W 2) 2 off
      (twF (I * W 1) 4 (off + 8) (twF (W 1) 4 off (twF (W 0) 8 off x)))))))
  exact ((s1.seq ζ a s2).seq ζ a s3).seq ζ a s4

end Spq.Fft.Level
