/-
  C06.4, structural schedule theorem (inverse cplx), part 2: radix-4 levels in the cplx table layout, the odd-log
  pass, `cibfs16`.
-/
import SpqProofs.Lemmas.FftErrSchedCInv
set_option linter.unusedSectionVars false
set_option linter.unusedSimpArgs false
namespace Spq.Fft.SchedC
open Spq.Fft Spq.Fft.Alg Spq.Fft.View Spq.Fft.Sim Spq.Fft.SimP Spq.Fft.LevelN Spq.Fft.KernN Spq.Fft.Tw Spq.Fft.SchedN
open Spq.Fft.Tab (length_flatMap_const)
open Spq.Fft.Sched (iter_counter)
open Spq.Fft.CplxInv (frbN_double flatMap_congr_range)
open Spq.Fft.CplxFwd (tw_exps)

variable {R : Type} [Inhabited R]
variable (F : CFlav R) (c s : ℕ → R) (k : ℕ) (y : ℕ → R × R)

/-- one inverse radix-4 level, cplx table layout (`fracrevbits(2b)`) -/
theorem cir4_specN (T : Array R) (N ℓ0 j e2 b0 off m' h t : ℕ) (s0 : RI R)
    (hs : Valid N s0) (hk : k = ℓ0 + j + (e2 + 2)) (hm : m' = 2 ^ (j + (e2 + 2))) (hh : h = 2 ^ e2)
    (hpar : e2 % 2 = (min k 11) % 2) (he4 : 4 ≤ e2) (he11 : e2 + 2 ≤ 11)
    (hoff : off = m' * b0) (hN : off + m' ≤ N)
    (hT : SegP T t (((List.range (m' / (4 * h))).flatMap (fun b =>
      eM (h * (1 + 4 * brev ℓ0 b0) + frbN (4 * 2 ^ k) (2 * b) / 2) ++
      eM (2 * (h * (1 + 4 * brev ℓ0 b0)) + frbN (4 * 2 ^ k) (2 * b)))).map (valP c s))) :
    let r := iterFrom (fun b (st : RI R × ℕ) => (invbitwiddle F.big T st.2 h (off + b * (4 * h)) st.1, st.2 + 4))
      (m' / (4 * h)) 0 (s0, t)
    AdvI k (gNetCI F c s k) y (prs s0) (prs r.1) e2 (e2 + 2) off m' ∧ Valid N r.1 ∧
      r.2 = t + 4 * (m' / (4 * h)) := by
  have hnb : m' / (4 * h) = 2 ^ j := by
    rw [hm, hh, show 4 * 2 ^ e2 = 2 ^ (e2 + 2) by rw [pow_add]; ring, pow_add]
    exact Nat.mul_div_cancel _ (Nat.two_pow_pos _)
  have hlist : (List.range (m' / (4 * h))).flatMap (fun b =>
      eM (h * (1 + 4 * brev ℓ0 b0) + frbN (4 * 2 ^ k) (2 * b) / 2) ++
      eM (2 * (h * (1 + 4 * brev ℓ0 b0)) + frbN (4 * 2 ^ k) (2 * b)))
    = (List.range (m' / (4 * h))).flatMap (fun b =>
      eM (h * (1 + 4 * brev ℓ0 b0) + frbN (4 * 2 ^ k) b / 4) ++
      eM (2 * (h * (1 + 4 * brev ℓ0 b0) + frbN (4 * 2 ^ k) b / 4))) := by
    apply flatMap_congr_range
    intro b hb
    rw [hnb] at hb
    have hd := frbN_double j (4 * 2 ^ k) b ⟨2 * 2 ^ (ℓ0 + (e2 + 2)), by rw [hk, pow_add, pow_add, pow_succ]; ring⟩ hb
    have h4 : 4 ∣ frbN (4 * 2 ^ k) b := by
      have hE := block_entry ℓ0 j (e2 + 2) b0 b hb
      rw [← hk] at hE
      have e1 : 2 ^ (e2 + 2) * (1 + 4 * brev ℓ0 b0) = 4 * (2 ^ e2 * (1 + 4 * brev ℓ0 b0)) := by rw [pow_add]; ring
      have e2' : 2 ^ (e2 + 2) * (1 + 4 * brev (ℓ0 + j) (b0 * 2 ^ j + b))
          = 4 * (2 ^ e2 * (1 + 4 * brev (ℓ0 + j) (b0 * 2 ^ j + b))) := by rw [pow_add]; ring
      rw [e1, e2'] at hE
      omega
    obtain ⟨q, hq⟩ := h4
    have x1 : frbN (4 * 2 ^ k) (2 * b) / 2 = frbN (4 * 2 ^ k) b / 4 := by omega
    have x2 : 2 * (h * (1 + 4 * brev ℓ0 b0)) + frbN (4 * 2 ^ k) (2 * b)
        = 2 * (h * (1 + 4 * brev ℓ0 b0) + frbN (4 * 2 ^ k) b / 4) := by omega
    rw [x1, x2]
  rw [hlist] at hT
  rw [show 4 * h = h * 4 by ring]
  have := cir4_coreN F c s k y T N ℓ0 j e2 b0 off m' h t s0 hs hk hm hh hpar he4 he11 hoff hN hT
  exact this

/-- the `for (; h < m; h <<= 2)` loop of `cibfs16`: `i` inverse radix-4 levels up to the whole region -/
theorem cibfsLevels_specN (T : Array R) (N ℓ0 D b0 off m' : ℕ) (hD11 : D ≤ 11) (hreg : min k 11 = D)
    (hk : k = ℓ0 + D) (hm : m' = 2 ^ D) (hoff : off = m' * b0) (hN : off + m' ≤ N) :
    ∀ i fuel e h p (s0 : RI R) (t : ℕ), e + 2 * i = D → h = 2 ^ e → 4 ≤ e →
      p = h * (1 + 4 * brev ℓ0 b0) → i ≤ fuel → Valid N s0 →
      SegP T t ((ciBfs16Levels (4 * 2 ^ k) m' fuel h p).map (valP c s)) →
      AdvI k (gNetCI F c s k) y (prs s0) (prs (cibfsLevels F T m' off fuel h (s0, t)).1) e D off m' ∧
        Valid N (cibfsLevels F T m' off fuel h (s0, t)).1 ∧
        (cibfsLevels F T m' off fuel h (s0, t)).2 = t + (ciBfs16Levels (4 * 2 ^ k) m' fuel h p).length := by
  intro i
  induction i with
  | zero =>
    intro fuel e h p s0 t he hh he2 hp hfuel hs hT
    have hhm : h = m' := by rw [hh, hm, show e = D by omega]
    cases fuel with
    | zero =>
      rw [cibfsLevels, ciBfs16Levels]
      exact ⟨AdvI.cast _ _ _ (AdvG.id (VNI k (gNetCI F c s k) y e) (prs s0) off m') e D rfl (by omega), hs, by simp⟩
    | succ f =>
      rw [cibfsLevels, if_neg (by omega), ciBfs16Levels, if_neg (by omega)]
      exact ⟨AdvI.cast _ _ _ (AdvG.id (VNI k (gNetCI F c s k) y e) (prs s0) off m') e D rfl (by omega), hs, by simp⟩
  | succ i ih =>
    intro fuel e h p s0 t he hh he2 hp hfuel hs hT
    obtain ⟨f, rfl⟩ : ∃ f, fuel = f + 1 := ⟨fuel - 1, by omega⟩
    have hlt : h < m' := by rw [hh, hm]; exact Nat.pow_lt_pow_right (by omega) (by omega)
    rw [cibfsLevels, if_pos hlt]
    have hlenT : (ciBfs16Levels (4 * 2 ^ k) m' (f + 1) h p).length
        = 4 * (m' / (4 * h)) + (ciBfs16Levels (4 * 2 ^ k) m' f (h * 4) (p * 4)).length := by
      rw [ciBfs16Levels, if_pos hlt, List.length_append, length_flatMap_const _ 4 _ (fun b => by simp [eM])]; ring
    rw [ciBfs16Levels, if_pos hlt, List.map_append, hp] at hT
    have st := cir4_specN F c s k y T N ℓ0 (2 * i) e b0 off m' h t s0 hs (by omega) (by rw [hm]; congr 1; omega) hh
      (by omega) he2 (by omega) hoff hN hT.left
    simp only at st
    obtain ⟨sA, tA, hst⟩ : ∃ sA tA, iterFrom (fun b (st : RI R × ℕ) =>
      (invbitwiddle F.big T st.2 h (off + b * (4 * h)) st.1, st.2 + 4)) (m' / (4 * h)) 0 (s0, t) = (sA, tA) :=
      ⟨_, _, rfl⟩
    rw [hst] at st
    simp only [hst]
    obtain ⟨a1, v1, p1⟩ := st
    simp only at a1 v1 p1
    have hlen : (List.map (valP c s) ((List.range (m' / (4 * h))).flatMap (fun b =>
        eM (h * (1 + 4 * brev ℓ0 b0) + frbN (4 * 2 ^ k) (2 * b) / 2) ++
        eM (2 * (h * (1 + 4 * brev ℓ0 b0)) + frbN (4 * 2 ^ k) (2 * b))))).length = 4 * (m' / (4 * h)) := by
      rw [List.length_map, length_flatMap_const _ 4 _ (fun b => by simp [eM])]; ring
    have hT2 := hT.right
    rw [hlen, ← p1] at hT2
    have nx := ih f (e + 2) (h * 4) (h * (1 + 4 * brev ℓ0 b0) * 4) sA tA (by omega)
      (by rw [hh, pow_add]; norm_num) (by omega) (by ring) (by omega) v1 hT2
    obtain ⟨a2, v2, p2⟩ := nx
    refine ⟨a1.seq a2, v2, ?_⟩
    rw [p2, p1, hlenT, hp, Nat.add_assoc]

/-- the odd-log pass of `cibfs16`: blocks of 16 become blocks of 32, one twiddle per block -/
theorem ciodd_specN (hl : F.lanesOdd = false) (T : Array R) (N ℓ0 j b0 off m' t : ℕ) (s0 : RI R)
    (hreg : (min k 11) % 2 = 1) (hk4 : 4 ≤ k)
    (hs : Valid N s0) (hk : k = ℓ0 + j + 5) (hm : m' = 2 ^ (j + 5)) (hoff : off = m' * b0) (hN : off + m' ≤ N)
    (hT : SegP T t (((List.range (m' / 32)).flatMap (fun i =>
      eM (16 * (1 + 4 * brev ℓ0 b0) + frbN (4 * 2 ^ k) i / 2))).map (valP c s))) :
    let r := iterFrom (fun b (st : RI R × ℕ) =>
      (twPassL F.ctOdd F.lanesOdd T st.2 16 (off + b * 32) st.1, st.2 + 2)) (m' / 32) 0 (s0, t)
    AdvI k (gNetCI F c s k) y (prs s0) (prs r.1) 4 5 off m' ∧ Valid N r.1 ∧ r.2 = t + 2 * (m' / 32) := by
  intro r
  have hnb : m' / 32 = 2 ^ j := by rw [hm, pow_add]; norm_num
  have hm' : m' = 2 ^ j * 32 := by rw [hm, pow_add]; norm_num
  have hr : r = (iterFrom (fun b s => twPassL F.ctOdd F.lanesOdd T (t + 2 * b) 16 (off + b * 32) s) (m' / 32) 0 s0,
      t + 2 * (m' / 32)) :=
    iter_counter (fun b t s => twPassL F.ctOdd F.lanesOdd T t 16 (off + b * 32) s) 2 (m' / 32) s0 t
  rw [hr]
  simp only
  rw [List.map_flatMap] at hT
  have hseg := SegP.flatMap (T := T) (t := t) _ 2 (m' / 32) (fun b => by simp [eM]) hT
  have sw := sweepN (VNI k (gNetCI F c s k) y 4) (VNI k (gNetCI F c s k) y 5)
    (fun b s => twPassL F.ctOdd F.lanesOdd T (t + 2 * b) 16 (off + b * 32) s) N off 32 (m' / 32)
    (fun b s1 hb hs1 => by
      have hb' : b < 2 ^ j := by omega
      have hsb := hseg b hb
      rw [show t + b * 2 = t + 2 * b by ring] at hsb
      have e := tw_exps ℓ0 j 4 b0 b k hb' hk
      obtain ⟨w0, w0'⟩ := read_eMN c s T (t + 2 * b) _ hsb
      rw [show (2 : ℕ) ^ 4 = 16 by norm_num] at e
      rw [e] at w0 w0'
      have hg := gNetCI_odd F c s k (ℓ0 + j) 4 (b0 * 2 ^ j + b) hk4 (by omega) hreg
      have hbm' : b * 32 + 32 ≤ 2 ^ j * 32 := by
        have : (b + 1) * 32 ≤ 2 ^ j * 32 := Nat.mul_le_mul_right _ hb'
        rw [Nat.add_mul] at this; omega
      have := itwPassL_advN k y (gNetCI F c s k) F.ctOdd F.lanesOdd T (t + 2 * b) N (ℓ0 + j) 4 (b0 * 2 ^ j + b)
        (off + b * 32) s1 hs1 (by omega) (by rw [hoff, hm']; ring) (by omega) (by rw [hg, w0, w0'])
        (fun h => by rw [hl] at h; exact absurd h (by simp))
      exact this) s0 hs
  refine ⟨sw.1.of_eq rfl (by rw [hnb, hm']), sw.2, trivial⟩

end Spq.Fft.SchedC
