/-
  No-overflow from a magnitude box, step 5: the inverse reim transform (same statement as `fft_no_ovf`).
-/
import SpqProofs.Lemmas.VmpErrOvf4
set_option linter.unusedSectionVars false
namespace Spq.VmpErr
open Spq Spq.F64 Spq.Fft Spq.Fft.Alg Spq.Fft.RelN Spq.Fft.SimP Spq.Fft.LevelN Spq.Fft.SchedN Spq.Fft.Sim Spq.FftErr

theorem ifft_no_ovf (Fam : ∀ {α : Type}, Arith α → Flav α) (hFam : FamOK Fam) (hBd : FlavBd (Fam aB)) (k : ℕ)
    (cN sN : ℕ → ℕ) (htab : TabOk cN sN) (data : Array ℕ) (hdata : data.size = 2 * 2 ^ k) (U0 : ℚ) (hU0 : 0 ≤ U0)
    (hd : ∀ p, p < 2 * 2 ^ k → |val data[p]!| ≤ U0) (hT : 8 ^ k * U0 < Tov)
    (hokU : ∀ p, p < 2 * 2 ^ k →
      ((reimIfftA (Fam aU) (2 ^ k) ((((reimIfftEnts (2 ^ k)).map (valP cN sN)).toArray).map lift) (data.map lift))[p]!).2) :
    ∀ p, p < 2 * 2 ^ k →
      ((reimIfftA (Fam aOk) (2 ^ k) ((((reimIfftEnts (2 ^ k)).map (valP cN sN)).toArray).map lift) (data.map lift))[p]!).2 ∧
      Fin64 ((reimIfftA (Fam f64) (2 ^ k) ((reimIfftEnts (2 ^ k)).map (valP cN sN)).toArray data)[p]!) ∧
      |val ((reimIfftA (Fam f64) (2 ^ k) ((reimIfftEnts (2 ^ k)).map (valP cN sN)).toArray data)[p]!)| ≤ 8 ^ k * U0 := by
  have hd' : (data.map lift).size = 2 * 2 ^ k := by rw [Array.size_map]; exact hdata
  have hv := splitRI_validN (2 ^ k) data hdata
  have hv' := splitRI_validN (2 ^ k) (data.map lift) hd'
  rw [table_map lift cN sN] at hokU ⊢
  obtain ⟨st0, vo0⟩ := ifftRI_struct (Fam f64) cN sN k (splitRI (2 ^ k) data) hv
  obtain ⟨st1, vo1⟩ := ifftRI_struct (Fam aOk) (fun e => lift (cN e)) (fun e => lift (sN e)) k
    (splitRI (2 ^ k) (data.map lift)) hv'
  obtain ⟨st2, vo2⟩ := ifftRI_struct (Fam aU) (fun e => lift (cN e)) (fun e => lift (sN e)) k
    (splitRI (2 ^ k) (data.map lift)) hv'
  have in2 : ∀ p, p < 2 ^ k → prs (splitRI (2 ^ k) (data.map lift)) p = (lift data[p]!, lift data[2 ^ k + p]!) := by
    intro p hp
    show ((splitRI (2 ^ k) (data.map lift)).re[p]!, (splitRI (2 ^ k) (data.map lift)).im[p]!) = _
    rw [splitRI_reN _ _ hd' p hp, splitRI_imN _ _ hd' p hp, getElem!_map lift data p (by omega),
      getElem!_map lift data (2 ^ k + p) (by omega)]
  have in1 : ∀ p, p < 2 ^ k → prs (splitRI (2 ^ k) data) p = (data[p]!, data[2 ^ k + p]!) := by
    intro p hp
    show ((splitRI (2 ^ k) data).re[p]!, (splitRI (2 ^ k) data).im[p]!) = _
    rw [splitRI_reN _ _ hdata p hp, splitRI_imN _ _ hdata p hp]
  have key : ∀ j, j < 2 ^ k →
      ((prs (ifftRI (Fam aU) (2 ^ k) ((reimIfftEnts (2 ^ k)).map (valP (fun e => lift (cN e)) (fun e => lift (sN e)))).toArray
        (splitRI (2 ^ k) (data.map lift))) j).1.2 →
        (prs (ifftRI (Fam aOk) (2 ^ k) ((reimIfftEnts (2 ^ k)).map (valP (fun e => lift (cN e)) (fun e => lift (sN e)))).toArray
          (splitRI (2 ^ k) (data.map lift))) j).1.2 ∧
        Fin64 (prs (ifftRI (Fam f64) (2 ^ k) ((reimIfftEnts (2 ^ k)).map (valP cN sN)).toArray (splitRI (2 ^ k) data)) j).1 ∧
        |val (prs (ifftRI (Fam f64) (2 ^ k) ((reimIfftEnts (2 ^ k)).map (valP cN sN)).toArray (splitRI (2 ^ k) data)) j).1| ≤
          8 ^ k * U0) ∧
      ((prs (ifftRI (Fam aU) (2 ^ k) ((reimIfftEnts (2 ^ k)).map (valP (fun e => lift (cN e)) (fun e => lift (sN e)))).toArray
        (splitRI (2 ^ k) (data.map lift))) j).2.2 →
        (prs (ifftRI (Fam aOk) (2 ^ k) ((reimIfftEnts (2 ^ k)).map (valP (fun e => lift (cN e)) (fun e => lift (sN e)))).toArray
          (splitRI (2 ^ k) (data.map lift))) j).2.2 ∧
        Fin64 (prs (ifftRI (Fam f64) (2 ^ k) ((reimIfftEnts (2 ^ k)).map (valP cN sN)).toArray (splitRI (2 ^ k) data)) j).2 ∧
        |val (prs (ifftRI (Fam f64) (2 ^ k) ((reimIfftEnts (2 ^ k)).map (valP cN sN)).toArray (splitRI (2 ^ k) data)) j).2| ≤
          8 ^ k * U0) := by
    intro j hj
    have r0 := VNI_rel_on (R2 (fun (x : Nat × Prop) (b : Nat) => x.1 = b)) _ _
      (fun ℓ d b u u' v v' hu hv => gNet_sim (hFam.sim aOk_sim_f64) (fun e => lift (cN e)) (fun e => lift (sN e)) cN sN
        (fun _ => rfl) (fun _ => rfl) k ℓ d b hu hv) k (prs (splitRI (2 ^ k) (data.map lift))) (prs (splitRI (2 ^ k) data))
      (fun p hp => by rw [in2 p hp, in1 p hp]; exact ⟨rfl, rfl⟩) k j (le_refl k) hj
    have r1 := VNI_rel_on (R2 RlO) _ _
      (fun ℓ d b u u' v v' hu hv => gNet_sim (hFam.sim asimO) (fun e => lift (cN e)) (fun e => lift (sN e))
        (fun e => (lift (cN e), ((1 : ℚ), True))) (fun e => (lift (sN e), ((1 : ℚ), True)))
        (fun e => rlO_lift _ 1 zero_le_one (fun _ => (htab e).1.2)) (fun e => rlO_lift _ 1 zero_le_one (fun _ => (htab e).2.2))
        k ℓ d b hu hv) k (prs (splitRI (2 ^ k) (data.map lift)))
      (fun p => ((lift data[p]!, (U0, True)), (lift data[2 ^ k + p]!, (U0, True))))
      (fun p hp => by
        rw [in2 p hp]
        exact ⟨rlO_lift _ U0 hU0 (fun _ => hd p (by omega)), rlO_lift _ U0 hU0 (fun _ => hd (2 ^ k + p) (by omega))⟩)
      k j (le_refl k) hj
    have r2 := VNI_rel_on (R2 (fun (Z : (ℕ × Prop) × (ℚ × Prop)) (Y : ℕ × Prop) => Z.1 = Y)) _ _
      (fun ℓ d b u u' v v' hu hv => gNet_sim (hFam.sim asim_fst)
        (fun e => (lift (cN e), ((1 : ℚ), True))) (fun e => (lift (sN e), ((1 : ℚ), True)))
        (fun e => lift (cN e)) (fun e => lift (sN e)) (fun _ => rfl) (fun _ => rfl) k ℓ d b hu hv) k
      (fun p => ((lift data[p]!, (U0, True)), (lift data[2 ^ k + p]!, (U0, True))))
      (prs (splitRI (2 ^ k) (data.map lift)))
      (fun p hp => by rw [in2 p hp]; exact ⟨rfl, rfl⟩) k j (le_refl k) hj
    have r3 := VNI_rel_on (R2 (fun (Z : (ℕ × Prop) × (ℚ × Prop)) (W : ℚ × Prop) => Z.2 = W)) _ _
      (fun ℓ d b u u' v v' hu hv => gNet_sim (hFam.sim asim_snd)
        (fun e => (lift (cN e), ((1 : ℚ), True))) (fun e => (lift (sN e), ((1 : ℚ), True)))
        (fun _ => ((1 : ℚ), True)) (fun _ => ((1 : ℚ), True)) (fun _ => rfl) (fun _ => rfl) k ℓ d b hu hv) k
      (fun p => ((lift data[p]!, (U0, True)), (lift data[2 ^ k + p]!, (U0, True))))
      (fun _ => ((U0, True), (U0, True)))
      (fun p _ => ⟨rfl, rfl⟩) k j (le_refl k) hj
    have bd := VNI_bd hBd k U0 hU0 hT j hj
    rw [st0 j hj, st1 j hj, st2 j hj]
    obtain ⟨a1, a2⟩ := r0
    obtain ⟨q1, q2⟩ := r1
    obtain ⟨s1, s2⟩ := r2
    obtain ⟨t1, t2⟩ := r3
    constructor
    · intro hf
      rw [← s1] at hf
      have hb := bd.1
      rw [← t1] at hb
      obtain ⟨x1, x2, x3⟩ := q1.2.2 hf hb.1
      rw [← a1]
      exact ⟨x1, x2, le_trans x3 hb.2.2⟩
    · intro hf
      rw [← s2] at hf
      have hb := bd.2
      rw [← t2] at hb
      obtain ⟨x1, x2, x3⟩ := q2.2.2 hf hb.1
      rw [← a2]
      exact ⟨x1, x2, le_trans x3 hb.2.2⟩
  intro p hp
  unfold reimIfftA at hokU ⊢
  by_cases hlt : p < 2 ^ k
  · have f := hokU p hp
    rw [joinRI_reN _ _ vo2 p hlt] at f
    rw [joinRI_reN _ _ vo1 p hlt, joinRI_reN _ _ vo0 p hlt]
    exact (key p hlt).1 f
  · obtain ⟨j, rfl⟩ : ∃ j, p = 2 ^ k + j := ⟨p - 2 ^ k, by omega⟩
    have hj : j < 2 ^ k := by omega
    have f := hokU (2 ^ k + j) hp
    rw [joinRI_imN _ _ vo2 j hj] at f
    rw [joinRI_imN _ _ vo1 j hj, joinRI_imN _ _ vo0 j hj]
    exact (key j hj).2 f


end Spq.VmpErr
