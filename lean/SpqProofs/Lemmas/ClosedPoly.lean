/-
  Bridge between the two specifications of the negacyclic product: `Spq.nmulF` / `nmul` / `isum` (agent I, C01/C02:
  double `Finset` sum with the wrap-around sign) and `Spq.Prog.polyMul` / `vmpVal` (agent J, C16: single `sumTo`).
-/
import SpqProofs.Lemmas.ModuleSpec
import SpqProofs.Lemmas.ProgSim
namespace Spq.Closed
open Finset Spq

/-- the integer array of the `nn` coefficients `f 0 … f (nn-1)` -/
def polyArr (nn : ℕ) (f : ℕ → ℤ) : Array Int := Array.ofFn (n := nn) fun t => f t.val

@[simp] theorem size_polyArr (nn : ℕ) (f : ℕ → ℤ) : (polyArr nn f).size = nn := by simp [polyArr]

theorem getD_polyArr (nn : ℕ) (f : ℕ → ℤ) (t : ℕ) (ht : t < nn) : (polyArr nn f).getD t 0 = f t := by
  simp [polyArr, Array.getD_eq_getD_getElem?, ht]

theorem icoef_polyArr (nn : ℕ) (f : ℕ → ℤ) (t : ℕ) (ht : t < nn) : icoef (polyArr nn f) t = f t :=
  getD_polyArr nn f t ht

theorem progSumTo_eq_sum (n : ℕ) (f : ℕ → ℤ) : Prog.sumTo n f = ∑ i ∈ range n, f i := by
  induction n with
  | zero => simp [Prog.sumTo]
  | succ n ih => rw [Prog.sumTo, sum_range_succ, ih]

/-- the double sum of `nmulF` collapses to the single sum of `polyMul` -/
theorem nmulF_eq_polyMul (N : ℕ) (a b : ℕ → ℤ) (k : ℕ) (hk : k < N) : nmulF N a b k = Prog.polyMul N a b k := by
  unfold nmulF Prog.polyMul
  rw [progSumTo_eq_sum]
  apply sum_congr rfl
  intro i hi
  have hi := mem_range.1 hi
  by_cases h : i ≤ k
  · rw [if_pos h, sum_eq_single (k - i)]
    · have h1 : i + (k - i) = k := by omega
      have h2 : ¬ (i + (k - i) = k + N) := by omega
      rw [if_pos h1, if_neg h2, sub_zero]
    · intro j hj hne
      have hj := mem_range.1 hj
      have h1 : ¬ (i + j = k) := by omega
      have h2 : ¬ (i + j = k + N) := by omega
      rw [if_neg h1, if_neg h2, sub_zero]
    · intro hn; exact absurd (mem_range.2 (by omega)) hn
  · rw [if_neg h, sum_eq_single (k + N - i)]
    · have h1 : ¬ (i + (k + N - i) = k) := by omega
      have h2 : i + (k + N - i) = k + N := by omega
      rw [if_neg h1, if_pos h2, zero_sub]
    · intro j hj hne
      have hj := mem_range.1 hj
      have h1 : ¬ (i + j = k) := by omega
      have h2 : ¬ (i + j = k + N) := by omega
      rw [if_neg h1, if_neg h2, sub_zero]
    · intro hn; exact absurd (mem_range.2 (by omega)) hn

/-- `polyMul` reads only the coefficients below `N` -/
theorem polyMul_congr (N : ℕ) (a a' b b' : ℕ → ℤ) (ha : ∀ t, t < N → a t = a' t) (hb : ∀ t, t < N → b t = b' t)
    (k : ℕ) (hk : k < N) : Prog.polyMul N a b k = Prog.polyMul N a' b' k := by
  unfold Prog.polyMul
  rw [progSumTo_eq_sum, progSumTo_eq_sum]
  apply sum_congr rfl
  intro i hi
  have hi := mem_range.1 hi
  by_cases h : i ≤ k
  · rw [if_pos h, if_pos h, ha i hi, hb (k - i) (by omega)]
  · rw [if_neg h, if_neg h, ha i hi, hb (k + N - i) (by omega)]

theorem polyMul_zero_left (N : ℕ) (b : ℕ → ℤ) (k : ℕ) : Prog.polyMul N (fun _ => 0) b k = 0 := by
  unfold Prog.polyMul
  rw [progSumTo_eq_sum]
  apply sum_eq_zero
  intro i _
  split <;> simp

/-- coefficient `t` of `nmul` in the `polyMul` form, for any coefficient functions agreeing with the arrays -/
theorem getD_nmul (N : ℕ) (a b : Array Int) (fa fb : ℕ → ℤ) (ha : ∀ t, t < N → a.getD t 0 = fa t)
    (hb : ∀ t, t < N → b.getD t 0 = fb t) (t : ℕ) (ht : t < N) :
    (nmul N a b).getD t 0 = Prog.polyMul N fa fb t := by
  have := icoef_nmul N a b t ht
  unfold icoef at this
  rw [this, nmulF_eq_polyMul N _ _ t ht]
  exact polyMul_congr N _ _ _ _ ha hb t ht

theorem getD_isum (N n : ℕ) (f : ℕ → Array Int) (t : ℕ) (ht : t < N) :
    (isum N n f).getD t 0 = Prog.sumTo n (fun i => (f i).getD t 0) := by
  have := icoef_isum N n f t ht
  unfold icoef at this
  rw [this, progSumTo_eq_sum]

theorem progSumTo_congr (n : ℕ) (f g : ℕ → ℤ) (h : ∀ i, i < n → f i = g i) : Prog.sumTo n f = Prog.sumTo n g := by
  rw [progSumTo_eq_sum, progSumTo_eq_sum]
  exact sum_congr rfl (fun i hi => h i (mem_range.1 hi))

end Spq.Closed
