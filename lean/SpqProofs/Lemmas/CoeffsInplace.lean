/-
  In-place rotation / (X^p-1) product = out-of-place, for every `nn > 0` and every `p : Int`.
-/
import SpqProofs.Lemmas.CoeffsRotate
import SpqProofs.Lemmas.CoeffsWalk
import SpqProofs.Lemmas.CoeffsOrbit
namespace Spq.Rq
open Spq
variable {α : Type}

/-- the outer leader loop over the generic walk, for the map `j ↦ (j + pn) mod nn` -/
def walkAllG (nn pn : Nat) (G : Nat → α → α → α) (z : α) : Nat → Nat → Nat → Array α → Array α
  | 0, _, _, res => res
  | fuel + 1, jstart, nb, res =>
    if nb < nn then
      let r := walkG (addMod nn pn) G z jstart nn jstart (res.getD jstart z) res nb
      walkAllG nn pn G z fuel (jstart + 1) r.2 r.1
    else res

/-- state after the leaders `0 .. s-1` have been walked -/
def AllInv (nn pn : Nat) (G : Nat → α → α → α) (z : α) (orig : Array α) (s : Nat) (res : Array α) : Prop :=
  res.size = nn ∧
  (∀ y, y < nn → y % Nat.gcd pn nn < s →
      res.getD (addMod nn pn y) z = G y (orig.getD y z) (orig.getD (addMod nn pn y) z)) ∧
  (∀ x, x < nn → s ≤ x % Nat.gcd pn nn → res.getD x z = orig.getD x z)

theorem walkAllG_spec (nn pn : Nat) (hn : 0 < nn) (G : Nat → α → α → α) (z : α) (orig : Array α) :
    ∀ (r s fuel : Nat) (res : Array α) (nb : Nat), s + r = Nat.gcd pn nn → r ≤ fuel →
      nb = s * (nn / Nat.gcd pn nn) → AllInv nn pn G z orig s res →
      AllInv nn pn G z orig (Nat.gcd pn nn) (walkAllG nn pn G z fuel s nb res) := by
  have hd := gcd_pos' nn pn hn
  have hL := orbLen_pos nn pn hn
  have hLd := orbLen_mul nn pn hn
  intro r
  induction r with
  | zero =>
    intro s fuel res nb hs _ hnb hinv
    have : s = Nat.gcd pn nn := by omega
    have hnn : ¬ nb < nn := by rw [hnb, this, Nat.mul_comm, hLd]; omega
    cases fuel with
    | zero => rw [← this]; exact hinv
    | succ f => simp only [walkAllG, hnn, if_false]; rw [← this]; exact hinv
  | succ r ih =>
    intro s fuel res nb hs hfuel hnb hinv
    obtain ⟨fuel', rfl⟩ : ∃ k, fuel = k + 1 := ⟨fuel - 1, by omega⟩
    have hsd : s < Nat.gcd pn nn := by omega
    have hdle : Nat.gcd pn nn ≤ nn := Nat.le_of_dvd hn (Nat.gcd_dvd_right _ _)
    have hsn : s < nn := by omega
    have hlt : nb < nn := by
      have := Nat.mul_lt_mul_of_pos_right hsd hL
      rw [Nat.mul_comm (Nat.gcd pn nn), hLd] at this
      omega
    obtain ⟨hsz, hi1, hi2⟩ := hinv
    have hLn : nn / Nat.gcd pn nn ≤ nn := Nat.div_le_self _ _
    have hw := walkG_cycle (addMod nn pn) G z s (nn / Nat.gcd pn nn) res
      (fun i => by rw [hsz]; exact addMod_iter_lt nn pn s i hsn) hL
      (addMod_ret nn pn hn s hsn)
      (fun i j hi hj e => addMod_dist nn pn hn s hsn i j hi hj e) nn nb hLn
    simp only [walkAllG, hlt, if_true]
    obtain ⟨hw1, hw2, hw3, hw4⟩ := hw
    apply ih (s+1) fuel' _ _ (by omega) (by omega)
    · rw [hw1, hnb]; ring
    · have smod : s % Nat.gcd pn nn = s := Nat.mod_eq_of_lt hsd
      refine ⟨by rw [hw2, hsz], ?_, ?_⟩
      · intro y hy hys
        by_cases c : y % Nat.gcd pn nn = s
        · obtain ⟨i, hi, hyi⟩ := addMod_surj nn pn hn s y hy hsd c
          have e1 : addMod nn pn y = (addMod nn pn)^[i+1] s := by
            rw [Function.iterate_succ_apply', ← hyi]
          rw [e1, hw3 i hi, ← hyi, ← e1]
          have hay : addMod nn pn y < nn := Nat.mod_lt _ hn
          rw [hi2 y hy (by omega), hi2 (addMod nn pn y) hay (by rw [addMod_mod nn pn hn]; omega)]
        · have hne : ∀ i, i < nn / Nat.gcd pn nn → addMod nn pn y ≠ (addMod nn pn)^[i+1] s := by
            intro i _ e
            have := congrArg (· % Nat.gcd pn nn) e
            simp only [addMod_mod nn pn hn, addMod_iter_mod nn pn hn s _ hsn] at this
            omega
          rw [hw4 _ hne]
          exact hi1 y hy (by omega)
      · intro x hx hxs
        have hne : ∀ i, i < nn / Nat.gcd pn nn → x ≠ (addMod nn pn)^[i+1] s := by
          intro i _ e
          have := congrArg (· % Nat.gcd pn nn) e
          simp only [addMod_iter_mod nn pn hn s _ hsn] at this
          omega
        rw [hw4 _ hne]
        exact hi2 x hx (by omega)

/-! ### connection with the model -/

def rotG (o : Ops α) (nn : Nat) (p : Int) (sub : Bool) (j : Nat) (t t2 : α) : α :=
  let v := if posMask ((j : Int) + p) (2 * nn) < nn then t else o.neg t
  if sub then o.sub v t2 else v

theorem rotSigma_eq (nn : Nat) (hn : 0 < nn) (p : Int) (j : Nat) :
    posMask ((j : Int) + p) (2 * nn) % nn = addMod nn (posMask p nn) j := by
  unfold posMask addMod
  have hM : (0 : Int) < (nn : Int) := by omega
  have a0 := Int.emod_nonneg ((j : Int) + p) (show ((2 * nn : Nat) : Int) ≠ 0 by omega)
  have b0 := Int.emod_nonneg p (show (nn : Int) ≠ 0 by omega)
  have e1 : (((((j : Int) + p) % ((2 * nn : Nat) : Int)).toNat % nn : Nat) : Int) = ((j : Int) + p) % (nn : Int) := by
    rw [Int.natCast_mod, Int.toNat_of_nonneg a0]
    exact Int.emod_emod_of_dvd _ ⟨2, by push_cast; ring⟩
  have e2 : ((((j + (p % (nn : Int)).toNat) % nn : Nat)) : Int) = ((j : Int) + p) % (nn : Int) := by
    rw [Int.natCast_mod, Int.natCast_add, Int.toNat_of_nonneg b0, Int.add_emod_emod]
  omega

theorem walkCycle_eq (o : Ops α) (nn : Nat) (hn : 0 < nn) (p : Int) (sub : Bool) (jstart : Nat) :
    ∀ (fuel j : Nat) (t : α) (res : Array α) (nb : Nat),
      Coeffs.walkCycle o nn p sub jstart fuel j t res nb =
        walkG (addMod nn (posMask p nn)) (rotG o nn p sub) o.zero jstart fuel j t res nb := by
  intro fuel
  induction fuel with
  | zero => intro j t res nb; rfl
  | succ f ih =>
    intro j t res nb
    simp only [Coeffs.walkCycle, walkG, rotSigma_eq nn hn p j, ih]
    rfl

theorem walkAll_eq (o : Ops α) (nn : Nat) (hn : 0 < nn) (p : Int) (sub : Bool) :
    ∀ (fuel jstart nb : Nat) (res : Array α),
      Coeffs.walkAll o nn p sub fuel jstart nb res =
        walkAllG nn (posMask p nn) (rotG o nn p sub) o.zero fuel jstart nb res := by
  intro fuel
  induction fuel with
  | zero => intro j nb res; rfl
  | succ f ih =>
    intro j nb res
    simp only [Coeffs.walkAll, walkAllG, walkCycle_eq o nn hn, ih]

theorem rot_preimage_mask (nn : Nat) (hn : 0 < nn) (p : Int) (k : Nat) (hk : k < nn) :
    posMask (((rotSrc nn p k % nn : Nat) : Int) + p) (2 * nn) =
      if rotSrc nn p k < nn then k else k + nn := by
  have he := rotSrc_lt nn hn p k
  have hE0 := Int.emod_nonneg ((k : Int) - p) (show ((2 * nn : Nat) : Int) ≠ 0 by omega)
  have hc := Int.emod_add_mul_ediv ((k : Int) - p) ((2 * nn : Nat) : Int)
  have hE : ((rotSrc nn p k : Nat) : Int) = ((k : Int) - p) % ((2 * nn : Nat) : Int) := by
    unfold rotSrc; exact Int.toNat_of_nonneg hE0
  rw [← hE] at hc
  generalize ((k : Int) - p) / ((2 * nn : Nat) : Int) = c at hc
  generalize rotSrc nn p k = e at *
  unfold posMask
  by_cases c1 : e < nn
  · rw [if_pos c1, Nat.mod_eq_of_lt c1]
    have : ((e : Int) + p) % ((2 * nn : Nat) : Int) = (k : Int) :=
      emod_eq_of_dvd_sub (by omega) (by omega) ⟨-c, by linarith⟩
    rw [this]; rfl
  · rw [if_neg c1]
    have e1 : e % nn = e - nn := by
      rw [Nat.mod_eq_sub_mod (by omega)]; exact Nat.mod_eq_of_lt (by omega)
    rw [e1]
    have : (((e - nn : Nat) : Int) + p) % ((2 * nn : Nat) : Int) = ((k + nn : Nat) : Int) :=
      emod_eq_of_dvd_sub (by omega) (by omega) ⟨-c - 1, by push_cast [Nat.cast_sub (show nn ≤ e by omega)] at *; linarith⟩
    rw [this]; rfl

/-- the preimage of position `k` under the rotation walk, and the value it carries -/
theorem rot_preimage (o : Ops α) (nn : Nat) (hn : 0 < nn) (p : Int) (x : Array α) (k : Nat) (hk : k < nn) :
    addMod nn (posMask p nn) (rotSrc nn p k % nn) = k ∧
    (if posMask (((rotSrc nn p k % nn : Nat) : Int) + p) (2 * nn) < nn then x.getD (rotSrc nn p k % nn) o.zero
      else o.neg (x.getD (rotSrc nn p k % nn) o.zero)) = sget o nn x (rotSrc nn p k) := by
  have key := rot_preimage_mask nn hn p k hk
  have he := rotSrc_lt nn hn p k
  rw [← rotSigma_eq nn hn, key]
  unfold sget
  by_cases c : rotSrc nn p k < nn
  · simp only [c, if_true, hk, Nat.mod_eq_of_lt, and_self]
  · have e1 : rotSrc nn p k % nn = rotSrc nn p k - nn := by
      rw [Nat.mod_eq_sub_mod (by omega)]; exact Nat.mod_eq_of_lt (by omega)
    have e2 : (k + nn) % nn = k := by rw [Nat.add_mod_right]; exact Nat.mod_eq_of_lt hk
    have e3 : ¬ k + nn < nn := by omega
    simp only [c, if_false, e1, e2, e3, true_and]

theorem walkAll_result (o : Ops α) (nn : Nat) (hn : 0 < nn) (p : Int) (sub : Bool) (x : Array α)
    (hx : x.size = nn) :
    (Coeffs.walkAll o nn p sub nn 0 0 x).size = nn ∧
    ∀ k, k < nn → (Coeffs.walkAll o nn p sub nn 0 0 x).getD k o.zero =
      (if sub then o.sub (sget o nn x (rotSrc nn p k)) (x.getD k o.zero) else sget o nn x (rotSrc nn p k)) := by
  rw [walkAll_eq o nn hn]
  have hdle : Nat.gcd (posMask p nn) nn ≤ nn := Nat.le_of_dvd hn (Nat.gcd_dvd_right _ _)
  have h := walkAllG_spec nn (posMask p nn) hn (rotG o nn p sub) o.zero x
    (Nat.gcd (posMask p nn) nn) 0 nn x 0 (by omega) hdle (by simp)
    ⟨hx, fun y _ h => by omega, fun _ _ _ => rfl⟩
  obtain ⟨h1, h2, -⟩ := h
  refine ⟨h1, ?_⟩
  intro k hk
  obtain ⟨e1, e2⟩ := rot_preimage o nn hn p x k hk
  have hy : rotSrc nn p k % nn < nn := Nat.mod_lt _ hn
  have := h2 _ hy (Nat.mod_lt _ (gcd_pos' nn _ hn))
  rw [e1] at this
  rw [this]
  unfold rotG
  simp only [e2]

end Spq.Rq
