/-
  Simulation between two arithmetics (`RArith.Sim R ar br`: every operation maps `R`-related operands to
  `R`-related results) and the corresponding relational theorems for the one-column reim4 products
  (`reim4_vec_mat1col_product_ref` / `_avx2`): related inputs give related outputs.
-/
import SpqProofs.Lemmas.Reim4Err

namespace Spq
variable {α β : Type}

/-- `R` is preserved by every operation -/
structure RArith.Sim (R : α → β → Prop) (ar : RArith α) (br : RArith β) : Prop where
  zero : R ar.zero br.zero
  add : ∀ {a a' b b'}, R a a' → R b b' → R (ar.add a b) (br.add a' b')
  sub : ∀ {a a' b b'}, R a a' → R b b' → R (ar.sub a b) (br.sub a' b')
  mul : ∀ {a a' b b'}, R a a' → R b b' → R (ar.mul a b) (br.mul a' b')
  fma : ∀ {a a' b b' c c'}, R a a' → R b b' → R c c' → R (ar.fma a b c) (br.fma a' b' c')
  fms : ∀ {a a' b b' c c'}, R a a' → R b b' → R c c' → R (ar.fms a b c) (br.fms a' b' c')

namespace Reim4
variable {R : α → β → Prop} {ar : RArith α} {br : RArith β}

theorem reRef_sim (h : RArith.Sim R ar br) {a a' b b' c c' d d'} (ha : R a a') (hb : R b b') (hc : R c c') (hd : R d d') :
    R (reRef ar a b c d) (reRef br a' b' c' d') :=
  h.sub (h.mul ha hc) (h.mul hb hd)

theorem imRef_sim (h : RArith.Sim R ar br) {a a' b b' c c' d d'} (ha : R a a') (hb : R b b') (hc : R c c') (hd : R d d') :
    R (imRef ar a b c d) (imRef br a' b' c' d') :=
  h.add (h.mul ha hd) (h.mul hb hc)

/-- `reim4_vec_mat1col_product_ref`: the eight result cells of related inputs are related -/
theorem vecMat1colProductRef_sim (h : RArith.Sim R ar br) (n : Nat) (dst u v : Array α) (dst' u' v' : Array β)
    (hb : 8 ≤ dst.size) (hb' : 8 ≤ dst'.size)
    (hu : ∀ i, R (u.getD i ar.zero) (u'.getD i br.zero)) (hv : ∀ i, R (v.getD i ar.zero) (v'.getD i br.zero))
    (k : Nat) (hk : k < 8) :
    R ((vecMat1colProductRef ar n dst u v).getD k ar.zero) ((vecMat1colProductRef br n dst' u' v').getD k br.zero) := by
  unfold vecMat1colProductRef
  simp only []
  suffices H : (Nat.fold n (fun i _ dst => addMulAt ar dst 0 u (8 * i) v (8 * i)) (zeroAt ar dst 0)).size = dst.size ∧
      (Nat.fold n (fun i _ dst => addMulAt br dst 0 u' (8 * i) v' (8 * i)) (zeroAt br dst' 0)).size = dst'.size ∧
      ∀ k, k < 8 → R ((Nat.fold n (fun i _ dst => addMulAt ar dst 0 u (8 * i) v (8 * i)) (zeroAt ar dst 0)).getD k ar.zero)
        ((Nat.fold n (fun i _ dst => addMulAt br dst 0 u' (8 * i) v' (8 * i)) (zeroAt br dst' 0)).getD k br.zero) from
    H.2.2 k hk
  induction n with
  | zero =>
    obtain ⟨z1, z2, _⟩ := zeroAt_spec ar dst 0 (by omega)
    obtain ⟨z1', z2', _⟩ := zeroAt_spec br dst' 0 (by omega)
    refine ⟨z1, z1', fun k hk => ?_⟩
    have a := z2 k hk
    have b := z2' k hk
    rw [Nat.zero_add] at a b
    simp only [Nat.fold_zero]
    rw [a, b]; exact h.zero
  | succ n ih =>
    simp only [Nat.fold_succ]
    generalize Nat.fold n (fun i _ dst => addMulAt ar dst 0 u (8 * i) v (8 * i)) (zeroAt ar dst 0) = rn at ih
    generalize Nat.fold n (fun i _ dst => addMulAt br dst 0 u' (8 * i) v' (8 * i)) (zeroAt br dst' 0) = rn' at ih
    obtain ⟨s1, s1', ihk⟩ := ih
    obtain ⟨t1, t2, _⟩ := addMulAt_spec ar rn 0 u (8 * n) v (8 * n) (by omega)
    obtain ⟨t1', t2', _⟩ := addMulAt_spec br rn' 0 u' (8 * n) v' (8 * n) (by omega)
    refine ⟨by rw [t1, s1], by rw [t1', s1'], fun k hk => ?_⟩
    by_cases h4 : k < 4
    · have a := (t2 k h4).1
      have b := (t2' k h4).1
      rw [Nat.zero_add] at a b
      rw [a, b]
      exact h.add (ihk k hk) (reRef_sim h (hu _) (hu _) (hv _) (hv _))
    · obtain ⟨j, rfl⟩ : ∃ j, k = j + 4 := ⟨k - 4, by omega⟩
      have a := (t2 j (by omega)).2
      have b := (t2' j (by omega)).2
      rw [Nat.zero_add] at a b
      rw [a, b]
      exact h.add (ihk _ hk) (imRef_sim h (hu _) (hu _) (hv _) (hv _))

theorem fmaChain_sim (h : RArith.Sim R ar br) (p q : Nat → α) (p' q' : Nat → β)
    (hp : ∀ i, R (p i) (p' i)) (hq : ∀ i, R (q i) (q' i)) (n : Nat) :
    R (fmaChain ar p q n) (fmaChain br p' q' n) := by
  induction n with
  | zero => exact h.zero
  | succ n ih => exact h.fma (hp n) (hq n) ih

/-- the cells of `reim4_vec_mat1col_product_avx2` as two combined FMA chains, for any arithmetic -/
theorem mat1colAvx2_cells (ar : RArith α) (n : Nat) (dst u v : Array α) (hb : 8 ≤ dst.size) (k : Nat) (hk : k < 4) :
    (vecMat1colProductAvx2 ar n dst u v).getD k ar.zero =
      ar.sub (fmaChain ar (fun i => u.getD (8 * i + k) ar.zero) (fun i => v.getD (8 * i + k) ar.zero) n)
        (fmaChain ar (fun i => u.getD (8 * i + 4 + k) ar.zero) (fun i => v.getD (8 * i + 4 + k) ar.zero) n) ∧
    (vecMat1colProductAvx2 ar n dst u v).getD (k + 4) ar.zero =
      ar.add (fmaChain ar (fun i => u.getD (8 * i + k) ar.zero) (fun i => v.getD (8 * i + 4 + k) ar.zero) n)
        (fmaChain ar (fun i => u.getD (8 * i + 4 + k) ar.zero) (fun i => v.getD (8 * i + k) ar.zero) n) := by
  generalize hacc : Nat.fold n (fun i _ s => vecMat1colAvx2Step ar u v i s)
    (V4.splat ar.zero, V4.splat ar.zero, V4.splat ar.zero, V4.splat ar.zero) = acc
  have e : vecMat1colProductAvx2 ar n dst u v =
      V4.store (V4.store dst 0 (V4.sub ar acc.1 acc.2.1)) 4 (V4.add ar acc.2.2.1 acc.2.2.2) := by
    rw [← hacc]; rfl
  obtain ⟨c1, c2, c3, c4⟩ := mat1colAvx2_chain ar n u v k hk
  rw [hacc] at c1 c2 c3 c4
  have g0 := V4.getD_store_in dst 0 (V4.sub ar acc.1 acc.2.1) k ar.zero hk (by omega)
  rw [Nat.zero_add] at g0
  have e4 : k + 4 = 4 + k := by omega
  constructor
  · rw [e, V4.getD_store_out _ _ _ _ _ (by omega), g0, V4.sub, V4.lane_map2, c1, c2]
  · rw [e, e4, V4.getD_store_in _ _ _ _ _ hk (by rw [V4.size_store]; omega), V4.add, V4.lane_map2, c3, c4]

/-- `reim4_vec_mat1col_product_avx2`: the eight result cells of related inputs are related -/
theorem vecMat1colProductAvx2_sim (h : RArith.Sim R ar br) (n : Nat) (dst u v : Array α) (dst' u' v' : Array β)
    (hb : 8 ≤ dst.size) (hb' : 8 ≤ dst'.size)
    (hu : ∀ i, R (u.getD i ar.zero) (u'.getD i br.zero)) (hv : ∀ i, R (v.getD i ar.zero) (v'.getD i br.zero))
    (k : Nat) (hk : k < 8) :
    R ((vecMat1colProductAvx2 ar n dst u v).getD k ar.zero) ((vecMat1colProductAvx2 br n dst' u' v').getD k br.zero) := by
  by_cases h4 : k < 4
  · rw [(mat1colAvx2_cells ar n dst u v hb k h4).1, (mat1colAvx2_cells br n dst' u' v' hb' k h4).1]
    exact h.sub (fmaChain_sim h _ _ _ _ (fun _ => hu _) (fun _ => hv _) n)
      (fmaChain_sim h _ _ _ _ (fun _ => hu _) (fun _ => hv _) n)
  · obtain ⟨j, rfl⟩ : ∃ j, k = j + 4 := ⟨k - 4, by omega⟩
    rw [(mat1colAvx2_cells ar n dst u v hb j (by omega)).2, (mat1colAvx2_cells br n dst' u' v' hb' j (by omega)).2]
    exact h.add (fmaChain_sim h _ _ _ _ (fun _ => hu _) (fun _ => hv _) n)
      (fmaChain_sim h _ _ _ _ (fun _ => hu _) (fun _ => hv _) n)

end Reim4
end Spq
