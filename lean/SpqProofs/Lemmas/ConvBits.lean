/-
  Bit-level identities on 64-bit words used by `reim_to_znx64_avx2_bnd63_fma`: masks as div/mod, complement
  by xor with all-ones.
-/
import Spq.Conv
import Mathlib.Tactic.Ring
import Mathlib.Tactic.Linarith
import Mathlib.Tactic.NormNum

namespace Spq.Conv

/-- `a & (((1<<w)-1) << s)` selects the `w`-bit field at position `s` -/
theorem and_shifted_mask (a s w : Nat) : a &&& (2 ^ s * (2 ^ w - 1)) = 2 ^ s * (a / 2 ^ s % 2 ^ w) := by
  apply Nat.eq_of_testBit_eq
  intro i
  rw [Nat.testBit_and, Nat.testBit_two_pow_mul, Nat.testBit_two_pow_mul, Nat.testBit_two_pow_sub_one,
    Nat.testBit_mod_two_pow, Nat.testBit_div_two_pow]
  by_cases h : i ≥ s
  · have : i - s + s = i := by omega
    simp [h, this]
    exact Bool.and_comm _ _
  · simp [h]

theorem and_expo_mask (a : Nat) : a &&& EXPO_MASK = 4503599627370496 * (a / 4503599627370496 % 2048) := by
  have := and_shifted_mask a 52 11
  norm_num at this
  exact this

/-- the sign bit -/
theorem and_sign_mask (a : Nat) (ha : a < 18446744073709551616) :
    a &&& SIGN_MASK = 9223372036854775808 * (a / 9223372036854775808) := by
  have := and_shifted_mask a 63 1
  norm_num at this
  rw [this]
  have : a / 9223372036854775808 % 2 = a / 9223372036854775808 := by omega
  rw [this]

/-- xor with all-ones is the 64-bit complement -/
theorem xor_all_ones (v : Nat) (hv : v < 18446744073709551616) :
    v ^^^ 18446744073709551615 = 18446744073709551615 - v := by
  have h64 : (18446744073709551616 : Nat) = 2 ^ 64 := by norm_num
  have e1 : (18446744073709551615 : Nat) = 2 ^ 64 - 1 := by norm_num
  have e2 : 18446744073709551615 - v = 2 ^ 64 - (v + 1) := by omega
  rw [e2]
  apply Nat.eq_of_testBit_eq
  intro i
  rw [Nat.testBit_xor, e1, Nat.testBit_two_pow_sub_one, Nat.testBit_two_pow_sub_succ (by rw [← h64]; exact hv)]
  by_cases hi : i < 64
  · simp [hi]
  · have hvi : v.testBit i = false := by
      apply Nat.testBit_lt_two_pow
      have : 2 ^ 64 ≤ 2 ^ i := Nat.pow_le_pow_right (by norm_num) (by omega)
      omega
    simp [hi, hvi]

/-- `(v ^ mask) - mask` with `mask ∈ {0, -1}` is the conditional two's-complement negation -/
theorem cond_negate (v : Nat) (hv : v ≤ 9223372036854775808) (neg : Bool) :
    toS (sub64 (v ^^^ (if neg then 18446744073709551615 else 0)) (if neg then 18446744073709551615 else 0))
      = if neg then wrapS (-(v : Int)) else wrapS (v : Int) := by
  cases neg
  · simp only [Bool.false_eq_true, if_false, Nat.xor_zero]
    unfold toS sub64 wrapS; omega
  · simp only [if_true]
    rw [xor_all_ones v (by omega)]
    unfold toS sub64 wrapS; omega

end Spq.Conv
