/-
  `q120_b_from_znx64_simple`: one iteration of the loop, for OPAQUE slot contents (the masks of `x[j]`, the
  constants `OQ[k]`, the cell function `g`): the big-literal `% 2^63` terms of the model never appear inside an
  environment the kernel has to traverse.
-/
import Gen.CSrc
import SpqProofs.Lemmas.SrcQ120
namespace Spq.Src
open Spq Spq.CIR Spq.Q120

def qSnd : Stmt → Stmt | .seq _ b => b | s => s
def qForBody : Stmt → Stmt | .for _ _ _ b => b | s => s
def qForInc : Stmt → Stmt | .for _ _ i _ => i | s => s
/-- the loop of `q120_b_from_znx64_simple` -/
def znxLoop : Stmt := qSnd (qSnd (qSnd (qSnd Gen.CSrc.q120_b_from_znx64_simple.body)))

theorem znx_step (nn r x k : Nat) (mem : Mem) (g O : Nat → Int) (hnn : nn < 2305843009213693952)
    (hr : (buf mem r).size = 4 * nn) (hk : k < nn) (l h lp hp : Int)
    (h11 : ∀ env', lget env' 10 = (k : Int) → lget env' 2 = 9223372036854775807 →
      eval [some (r, 0), some (x, 0)] ⟨env', fillMem mem r g (4 * k)⟩
        (.cast .u64 (.bin .band .i64 (.load 1 (.var 10)) (.var 2))) = .ok l)
    (h12 : ∀ env', lget env' 10 = (k : Int) → lget env' 1 = -9223372036854775808 →
      eval [some (r, 0), some (x, 0)] ⟨env', fillMem mem r g (4 * k)⟩
        (.cast .u64 (.bin .band .i64 (.load 1 (.var 10)) (.var 1))) = .ok h)
    (hval : ∀ c, c < 4 → (l + (if h ≠ 0 then O c else 0 % 18446744073709551616)) % 18446744073709551616 = g (4 * k + c))
    (f : Nat) :
    thenStep (exec [some (r, 0), some (x, 0)] (qForBody znxLoop) f
        ⟨znxEnv nn r k (-9223372036854775808) 9223372036854775807 (O 0) (O 1) (O 2) (O 3) lp hp, fillMem mem r g (4 * k)⟩)
      (fun σ' => exec [some (r, 0), some (x, 0)] (qForInc znxLoop) f σ')
    = .ok (.norm, ⟨znxEnv nn r (k + 1) (-9223372036854775808) 9223372036854775807 (O 0) (O 1) (O 2) (O 3) l h,
        fillMem mem r g (4 * (k + 1))⟩) := by
  have l0 := znx_lane nn r x k mem g hnn hr hk (O 0) (O 1) (O 2) (O 3) l h 0 0 rfl (4 * k) (by omega) (O 0) (by decide) rfl
    (by rw [show 4 * k = 4 * k + 0 by omega]; exact hval 0 (by decide)) f
  have l1 := znx_lane nn r x k mem g hnn hr hk (O 0) (O 1) (O 2) (O 3) l h 1 1 rfl (4 * k + 1) (by omega) (O 1) (by decide) rfl
    (hval 1 (by decide)) f
  have l2 := znx_lane nn r x k mem g hnn hr hk (O 0) (O 1) (O 2) (O 3) l h 2 2 rfl (4 * k + 1 + 1) (by omega) (O 2) (by decide) rfl
    (by rw [show 4 * k + 1 + 1 = 4 * k + 2 by omega]; exact hval 2 (by decide)) f
  have l3 := znx_lane nn r x k mem g hnn hr hk (O 0) (O 1) (O 2) (O 3) l h 3 3 rfl (4 * k + 1 + 1 + 1) (by omega) (O 3) (by decide) rfl
    (by rw [show 4 * k + 1 + 1 + 1 = 4 * k + 3 by omega]; exact hval 3 (by decide)) f
  simp only [znxEnv] at l0 l1 l2 l3
  show thenStep (exec _ (.seq _ _) f _) _ = _
  simp only [znxEnv, exec_seq, exec_assign]
  rw [h11 _ (by simp only [lget_zero, lget_succ]) (by simp only [lget_zero, lget_succ])]
  simp only [R.bind_ok, seqK_norm, lset_zero, lset_succ, exec_seq, exec_assign]
  rw [h12 _ (by simp only [lget_zero, lget_succ]) (by simp only [lget_zero, lget_succ])]
  simp only [R.bind_ok, seqK_norm, lset_zero, lset_succ, exec_seq, l0, l1, l2, l3]
  show thenStep _ (fun σ' => exec _ (.seq _ _) f σ') = _
  cir_simp
  have e1 : (((4 * k : Nat) : Int) + 4 % 18446744073709551616) % 18446744073709551616 = ((4 * (k + 1) : Nat) : Int) := by
    omega
  have e2 : ((k : Int) + 1) % 18446744073709551616 = ((k + 1 : Nat) : Int) := by omega
  rw [e1, e2, show 4 * (k + 1) = 4 * k + 1 + 1 + 1 + 1 by omega]

end Spq.Src
