/-
  Number theory behind the in-place automorphism: modulo `2^(n+2)`, every odd residue is `± 5^e` for a
  unique `e` modulo `2^n` (i.e. (Z/2^(n+2))^× = ⟨-1⟩ × ⟨5⟩), from Mathlib's `ZMod.orderOf_five`.
  Stated as divisibility facts over `Int` so that later files need no group theory.
-/
import Mathlib.RingTheory.ZMod.UnitsCyclic
namespace Spq.Rq

theorem coprime_five_two_pow (k : Nat) : Nat.Coprime 5 (2 ^ k) :=
  Nat.Coprime.pow_right k (by decide)

/-- the unit `5` of `ZMod (2^(n+2))` -/
noncomputable def u5 (n : Nat) : (ZMod (2 ^ (n + 2)))ˣ := ZMod.unitOfCoprime 5 (coprime_five_two_pow (n + 2))

theorem u5_val (n : Nat) : ((u5 n : (ZMod (2 ^ (n + 2)))ˣ) : ZMod (2 ^ (n + 2))) = 5 := by
  simp [u5, ZMod.coe_unitOfCoprime]

theorem orderOf_u5 (n : Nat) : orderOf (u5 n) = 2 ^ n := by
  rw [← orderOf_units, u5_val]; exact ZMod.orderOf_five n

theorem int_dvd_iff_zmod (n : Nat) (x : Int) :
    (2 : Int) ^ (n + 2) ∣ x ↔ ((x : Int) : ZMod (2 ^ (n + 2))) = 0 := by
  rw [ZMod.intCast_zmod_eq_zero_iff_dvd]; push_cast; rfl

theorem five_pow_sub_dvd_iff (n e e' : Nat) :
    (2 : Int) ^ (n + 2) ∣ (5 : Int) ^ e - 5 ^ e' ↔ e ≡ e' [MOD 2 ^ n] := by
  rw [int_dvd_iff_zmod, ← orderOf_u5 n, ← pow_eq_pow_iff_modEq, Units.ext_iff]
  push_cast
  rw [u5_val, sub_eq_zero]

theorem five_pow_mod_four (e : Nat) : (5 : Int) ^ e % 4 = 1 := by
  induction e with
  | zero => rfl
  | succ e ih => rw [pow_succ, Int.mul_emod, ih]; rfl

theorem five_pow_add_not_dvd (n e e' : Nat) : ¬ (2 : Int) ^ (n + 2) ∣ (5 : Int) ^ e + 5 ^ e' := by
  intro h
  have h4 : (4 : Int) ∣ (5 : Int) ^ e + 5 ^ e' := Dvd.dvd.trans ⟨2 ^ n, by ring⟩ h
  have a := five_pow_mod_four e
  have b := five_pow_mod_four e'
  omega

theorem card_units_two_pow (n : Nat) : Fintype.card (ZMod (2 ^ (n + 2)))ˣ = 2 * 2 ^ n := by
  rw [ZMod.card_units_eq_totient, Nat.totient_prime_pow Nat.prime_two (by omega)]
  simp [pow_succ]; ring

/-- every odd number is `± 5^e` modulo `2^(n+2)` -/
theorem odd_dlog (n : Nat) (u : Nat) (hu : u % 2 = 1) :
    ∃ e, e < 2 ^ n ∧ ((2 : Int) ^ (n + 2) ∣ (u : Int) - 5 ^ e ∨ (2 : Int) ^ (n + 2) ∣ (u : Int) + 5 ^ e) := by
  let f : Bool × Fin (2 ^ n) → (ZMod (2 ^ (n + 2)))ˣ :=
    fun x => (if x.1 then -1 else 1) * u5 n ^ (x.2 : Nat)
  have hinj : Function.Injective f := by
    rintro ⟨ε, e⟩ ⟨ε', e'⟩ h
    have same : u5 n ^ (e : Nat) = u5 n ^ (e' : Nat) → e = e' := by
      intro h'
      rw [pow_eq_pow_iff_modEq, orderOf_u5] at h'
      exact Fin.ext (Nat.ModEq.eq_of_lt_of_lt h' e.isLt e'.isLt)
    have diff : ∀ a b : Nat, ¬ (-1 * u5 n ^ a = 1 * u5 n ^ b) := by
      intro a b h'
      have h2 := congrArg (fun (x : (ZMod (2 ^ (n + 2)))ˣ) => (x : ZMod (2 ^ (n + 2)))) h'
      simp only [Units.val_mul, Units.val_neg, Units.val_one, Units.val_pow_eq_pow_val, u5_val] at h2
      apply five_pow_add_not_dvd n a b
      rw [int_dvd_iff_zmod]; push_cast
      linear_combination (-1 : ZMod (2 ^ (n + 2))) * h2
    simp only [f] at h
    cases ε <;> cases ε'
    · simp only [Bool.false_eq_true, if_false, one_mul] at h
      rw [same h]
    · simp only [Bool.false_eq_true, if_false, if_true] at h
      exact absurd h.symm (diff _ _)
    · simp only [Bool.false_eq_true, if_false, if_true] at h
      exact absurd h (diff _ _)
    · simp only [if_true, neg_mul, one_mul, neg_inj] at h
      rw [same h]
  have hcard : Fintype.card (Bool × Fin (2 ^ n)) = Fintype.card (ZMod (2 ^ (n + 2)))ˣ := by
    rw [card_units_two_pow]; simp
  have hbij := (Fintype.bijective_iff_injective_and_card f).2 ⟨hinj, hcard⟩
  have hcop : Nat.Coprime u (2 ^ (n + 2)) := by
    apply Nat.Coprime.pow_right
    rw [Nat.coprime_two_right]; exact Nat.odd_iff.2 hu
  obtain ⟨⟨ε, e⟩, he⟩ := hbij.2 (ZMod.unitOfCoprime u hcop)
  have h2 := congrArg (fun (x : (ZMod (2 ^ (n + 2)))ˣ) => (x : ZMod (2 ^ (n + 2)))) he
  simp only [f, ZMod.coe_unitOfCoprime, Units.val_mul, Units.val_pow_eq_pow_val, u5_val] at h2
  refine ⟨e, e.isLt, ?_⟩
  cases ε
  · left
    rw [int_dvd_iff_zmod]; push_cast
    simp only [Bool.false_eq_true, if_false, Units.val_one, one_mul] at h2
    linear_combination (-1 : ZMod (2 ^ (n + 2))) * h2
  · right
    rw [int_dvd_iff_zmod]; push_cast
    simp only [if_true, Units.val_neg, Units.val_one] at h2
    linear_combination (-1 : ZMod (2 ^ (n + 2))) * h2

end Spq.Rq
