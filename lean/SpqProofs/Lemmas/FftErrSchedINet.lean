/-
  C06.4: rounding error of the INVERSE level network.  `WI w y n p`: cell `p` after `n` exact inverse levels
  `(x_p, x_{p+h}) ← (x_p + x_{p+h}, w_b·(x_p − x_{p+h}))`, `h = 2^n`; `WH g y n p`: the same with computed
  butterflies `g n b` of relative error `η` (`IBfErrAt`):  Σ‖WH n − WI n‖² ≤ ((1+η)^n − 1)²·Σ‖WI n‖².
-/
import SpqProofs.Lemmas.FftErrSchedIBf
import SpqProofs.Lemmas.FftErrNet
set_option linter.unusedSectionVars false
namespace Spq.FftErr
open Finset Spq.Fft.Alg
variable {K : Type} [Field K] [LinearOrder K] [IsStrictOrderedRing K]

/-- one exact inverse level on blocks of size `2h` -/
def ILvl (w : ℕ → Cplx K) (h : ℕ) (x : ℕ → Cplx K) (p : ℕ) : Cplx K :=
  if p % (2 * h) < h then x p + x (p + h) else w (p / (2 * h)) * (x (p - h) - x p)

/-- the exact inverse network; `w n b`: twiddle of block `b` at step `n` -/
def WI (w : ℕ → ℕ → Cplx K) (y : ℕ → Cplx K) : ℕ → ℕ → Cplx K
  | 0, p => y p
  | n + 1, p => ILvl (w n) (2 ^ n) (WI w y n) p

/-- the computed inverse network -/
def WH (g : ℕ → ℕ → Cplx K → Cplx K → Cplx K × Cplx K) (y : ℕ → Cplx K) : ℕ → ℕ → Cplx K
  | 0, p => y p
  | n + 1, p => LvlH (g n) (2 ^ n) (WH g y n) p

theorem ILvl_lo (w : ℕ → Cplx K) (h : ℕ) (x : ℕ → Cplx K) (b r : ℕ) (hr : r < h) :
    ILvl w h x (2 * h * b + r) = x (2 * h * b + r) + x (2 * h * b + r + h) := by
  obtain ⟨e1, e2⟩ := pos_lo h b r hr
  unfold ILvl; rw [e1, if_pos hr]

theorem ILvl_hi (w : ℕ → Cplx K) (h : ℕ) (x : ℕ → Cplx K) (b r : ℕ) (hr : r < h) :
    ILvl w h x (2 * h * b + r + h) = w b * (x (2 * h * b + r) - x (2 * h * b + r + h)) := by
  obtain ⟨e1, e2⟩ := pos_hi h b r hr
  unfold ILvl; rw [e1, e2, if_neg (by omega), Nat.add_sub_cancel]

theorem ibfly_norm (a b w : Cplx K) (hw : nsq w = 1) : nsq (a + b) + nsq (w * (a - b)) = 2 * nsq a + 2 * nsq b := by
  rw [nsq_mul, hw, one_mul]
  simp only [nsq, QuadraticAlgebra.re_add, QuadraticAlgebra.im_add, QuadraticAlgebra.re_sub, QuadraticAlgebra.im_sub]
  ring

theorem ilvl_norm (w : ℕ → Cplx K) (hw : ∀ b, nsq (w b) = 1) (h nb : ℕ) (x : ℕ → Cplx K) :
    ∑ p ∈ range (nb * (2 * h)), nsq (ILvl w h x p) = 2 * ∑ p ∈ range (nb * (2 * h)), nsq (x p) := by
  rw [sum_pairs h nb (fun p => nsq (ILvl w h x p)), sum_pairs h nb (fun p => nsq (x p)), mul_sum]
  apply sum_congr rfl; intro b _
  rw [mul_sum]
  apply sum_congr rfl; intro r hr
  have hr' : r < h := mem_range.1 hr
  rw [ILvl_lo w h x b r hr', ILvl_hi w h x b r hr', ibfly_norm _ _ _ (hw b)]
  ring

theorem ilvl_sub (w : ℕ → Cplx K) (h : ℕ) (x y : ℕ → Cplx K) (p : ℕ) :
    ILvl w h x p - ILvl w h y p = ILvl w h (fun q => x q - y q) p := by
  unfold ILvl
  split <;> ring

theorem ilvl_err (w : ℕ → Cplx K) (g : ℕ → Cplx K → Cplx K → Cplx K × Cplx K) (η : K) (h nb : ℕ)
    (hg : ∀ b, b < nb → IBfErrAt (g b) (w b) η) (x : ℕ → Cplx K) :
    ∑ p ∈ range (nb * (2 * h)), nsq (LvlH g h x p - ILvl w h x p) ≤
      η ^ 2 * ∑ p ∈ range (nb * (2 * h)), nsq (ILvl w h x p) := by
  rw [sum_pairs h nb (fun p => nsq (LvlH g h x p - ILvl w h x p)), sum_pairs h nb (fun p => nsq (ILvl w h x p)), mul_sum]
  apply sum_le_sum; intro b hb
  rw [mul_sum]
  apply sum_le_sum; intro r hr
  have hr' : r < h := mem_range.1 hr
  rw [ILvl_lo w h x b r hr', ILvl_hi w h x b r hr', LvlH_lo g h x b r hr', LvlH_hi g h x b r hr']
  exact hg b (mem_range.1 hb) _ _

/-- **inverse network error** -/
theorem inet_err (k : ℕ) (w : ℕ → ℕ → Cplx K) (hw : ∀ n b, nsq (w n b) = 1) (y : ℕ → Cplx K) (η : K) (hη : 0 ≤ η)
    (g : ℕ → ℕ → Cplx K → Cplx K → Cplx K × Cplx K)
    (hg : ∀ n b, n < k → b < 2 ^ (k - 1 - n) → IBfErrAt (g n b) (w n b) η) :
    ∀ n, n ≤ k →
      ∑ p ∈ range (2 ^ k), nsq (WH g y n p - WI w y n p) ≤
        ((1 + η) ^ n - 1) ^ 2 * ∑ p ∈ range (2 ^ k), nsq (WI w y n p) := by
  intro n
  induction n with
  | zero => intro _; simp [WH, WI]
  | succ n ih =>
    intro hk
    have ih' := ih (by omega)
    have hn : 2 ^ k = 2 ^ (k - 1 - n) * (2 * 2 ^ n) := by
      rw [show 2 * 2 ^ n = 2 ^ (n + 1) by rw [pow_succ]; ring, ← pow_add]; congr 1; omega
    obtain ⟨G, hG⟩ : ∃ G, G = (1 + η) ^ n - 1 := ⟨_, rfl⟩
    have hG0 : 0 ≤ G := by
      rw [hG]; have : (1 : K) ≤ (1 + η) ^ n := one_le_pow₀ (by linarith); linarith
    rw [← hG] at ih'
    obtain ⟨x, hx⟩ : ∃ x, x = WI w y n := ⟨_, rfl⟩
    obtain ⟨xh, hxh⟩ : ∃ xh, xh = WH g y n := ⟨_, rfl⟩
    have e1 : ∀ p, WI w y (n + 1) p = ILvl (w n) (2 ^ n) x p := fun p => by rw [hx]; rfl
    have e2 : ∀ p, WH g y (n + 1) p = LvlH (g n) (2 ^ n) xh p := fun p => by rw [hxh]; rfl
    simp only [e1, e2]
    rw [← hx, ← hxh] at ih'
    rw [hn] at ih' ⊢
    obtain ⟨X, hX⟩ : ∃ X, X = ∑ p ∈ range (2 ^ (k - 1 - n) * (2 * 2 ^ n)), nsq (x p) := ⟨_, rfl⟩
    rw [← hX] at ih'
    have hY : ∑ p ∈ range (2 ^ (k - 1 - n) * (2 * 2 ^ n)), nsq (ILvl (w n) (2 ^ n) x p) = 2 * X := by
      rw [hX]; exact ilvl_norm (w n) (hw n) _ _ x
    rw [hY]
    have p1 : ∑ p ∈ range (2 ^ (k - 1 - n) * (2 * 2 ^ n)), nsq (ILvl (w n) (2 ^ n) xh p - ILvl (w n) (2 ^ n) x p)
        ≤ G ^ 2 * (2 * X) := by
      simp only [ilvl_sub]
      rw [ilvl_norm (w n) (hw n)]
      linarith
    have p2 : ∑ p ∈ range (2 ^ (k - 1 - n) * (2 * 2 ^ n)), nsq (xh p) ≤ (1 + G) ^ 2 * X := by
      have := sum_tri (range (2 ^ (k - 1 - n) * (2 * 2 ^ n))) x (fun p => xh p - x p) 1 G X (by norm_num) hG0
        (by rw [← hX]; linarith) ih'
      simp only [add_sub_cancel] at this
      exact this
    have p3 : ∑ p ∈ range (2 ^ (k - 1 - n) * (2 * 2 ^ n)), nsq (LvlH (g n) (2 ^ n) xh p - ILvl (w n) (2 ^ n) xh p) ≤
        (η * (1 + G)) ^ 2 * (2 * X) := by
      have h1 := ilvl_err (w n) (g n) η (2 ^ n) (2 ^ (k - 1 - n)) (fun b hb => hg n b (by omega) hb) xh
      rw [ilvl_norm (w n) (hw n)] at h1
      have hη2 : 0 ≤ η ^ 2 := by positivity
      have := mul_le_mul_of_nonneg_left p2 hη2
      rw [mul_pow]
      linarith
    have := sum_tri (range (2 ^ (k - 1 - n) * (2 * 2 ^ n)))
      (fun p => LvlH (g n) (2 ^ n) xh p - ILvl (w n) (2 ^ n) xh p)
      (fun p => ILvl (w n) (2 ^ n) xh p - ILvl (w n) (2 ^ n) x p) (η * (1 + G)) G (2 * X) (by positivity) hG0 p3 p1
    simp only [sub_add_sub_cancel] at this
    have e : (1 + η) ^ (n + 1) - 1 = η * (1 + G) + G := by rw [hG, pow_succ]; ring
    rw [e]
    exact this

end Spq.FftErr
