/-
  C16, binary64 side, the concrete instance continued: the budget of the `1 × 1` vector-matrix product, the exact
  states along `exProg`, and the budget `PreF` of every call (`exGuarded`).
-/
import SpqProofs.Lemmas.ProgErrExample
import SpqProofs.Lemmas.ProgCheck
set_option linter.unusedSectionVars false
namespace Spq.ProgErr
open Finset Spq Spq.Module Spq.Fft Spq.Fft.Alg Spq.FftErr Spq.F64 Spq.Reim4 Spq.Conv Spq.ProdErr Spq.VmpErr Spq.Prog
  Spq.Closed

/-- the budget of the vector-matrix product `(1 + 2X)·(3 + 4X)` (`1 × 1` matrix, one result limb) -/
theorem exVmpBudget : VmpBudget exMod #[3, 4] 1 1 #[1, 2] 1 1 := by
  refine ⟨by decide, ?_, ?_, ?_⟩
  · intro i hi
    have : i = 0 := by omega
    subst this
    show Box 0 (limbOf #[1, 2] 0 2 (2 * 2 ^ 0))
    rw [exLimb]; exact box12
  · intro i j hi hj
    have : i = 0 := by omega
    have : j = 0 := by omega
    subst_vars
    show Box 0 (matEntry #[3, 4] 1 (2 * 2 ^ 0) 0 0)
    rw [exEntry]; exact box34
  · intro j hj _
    have : j = 0 := by omega
    subst this
    refine ⟨exVmpOk, fun _ => 3, fun _ => 5, fun _ _ => by norm_num, fun _ _ => by norm_num, ?_, ?_, ?_, ?_⟩
    · intro i hi
      have : i = 0 := by omega
      subst this
      show n2sq ℚ (limbOf #[1, 2] 0 2 (2 * 2 ^ 0)) 2 ≤ _
      rw [exLimb]
      show ∑ t ∈ range 2, _ ≤ _
      simp [sum_range_succ]; norm_num
    · intro i hi
      have : i = 0 := by omega
      subst this
      show n2sq ℚ (matEntry #[3, 4] 1 (2 * 2 ^ 0) 0 0) 2 ≤ _
      rw [exEntry]
      show ∑ t ∈ range 2, _ ≤ _
      simp [sum_range_succ]; norm_num
    · intro i hi
      have : i = 0 := by omega
      subst this
      show _ ≤ n1 ℚ (matEntry #[3, 4] 1 (2 * 2 ^ 0) 0 0) 2
      rw [exEntry]
      show _ ≤ ∑ t ∈ range 2, _
      simp [sum_range_succ]; norm_num
    · show Esum ℚ 0 #[3, 4] 1 1 #[1, 2] 1 (2 * 2 ^ 0) 0 (fun _ => 3) (fun _ => 5) < 1 / 2
      unfold Esum sumS rowS
      have eL : limbOf #[1, 2] 0 (2 * 2 ^ 0) (2 * 2 ^ 0) = #[1, 2] := exLimb
      rw [show min 1 1 = 1 from rfl, sum_range_one, eL, exEntry]
      show _ * ((∑ t ∈ range 2, _) * _ + _ * ∑ t ∈ range 2, _) < _
      unfold u64; simp [sum_range_succ]; norm_num

/-! ### the exact states along the program -/

def exSt1 : AState := astepD 2 (.svpPrepare 0 exY) exA
def exSt2 : AState := astepD 2 (.svp exD0 0 exX) exSt1
def exSt3 : AState := astepD 2 (.idft exZ exD0) exSt2
def exSt4 : AState := astepD 2 (.vmpPrepare exM0 exY) exSt3
def exSt5 : AState := astepD 2 (.dft exD1 exX) exSt4
def exSt6 : AState := astepD 2 (.vmpDD exD2 exD1 exM0) exSt5
def exSt7 : AState := astepD 2 (.idft exW exD2) exSt6
def exSt8 : AState := astepD 2 (.vmp exD3 exX exM0) exSt7
def exSt9 : AState := astepD 2 (.idft exW exD3) exSt8
def exSt10 : AState := astepD 2 (.idft exW exD1) exSt9

theorem ex_f1 : exSt1.ppol 0 = some #[3, 4] ∧ limbArr 2 exSt1.env exX 0 = #[1, 2] ∧
    polyArr 2 (fun t => (#[3, 4] : Array Int).getD t 0) = #[3, 4] := by decide +kernel
theorem ex_f4 : limbArr 2 exSt4.env exX 0 = #[1, 2] := by decide +kernel
theorem ex_f5 : exSt5.dvec exD1 = some #[#[1, 2]] ∧ exSt5.pmat exM0 = some #[#[3, 4]] := by decide +kernel
theorem ex_f7 : exSt7.pmat exM0 = some #[#[3, 4]] ∧ vecArr 2 exSt7.env exX = #[1, 2] := by decide +kernel
theorem ex_mat : flatOf 2 (1 * 1) (fun i t => Val.coef #[#[3, 4]] i t) = #[3, 4] ∧
    flatOf 2 1 (fun i t => Val.coef #[#[1, 2]] i t) = #[1, 2] := by decide +kernel

theorem exPre1 : PreF exMod exVars (.svpPrepare 0 exY) exA := ⟨by decide, by decide, trivial⟩

theorem exPre2 : PreF exMod exVars (.svp exD0 0 exX) exSt1 := by
  refine ⟨by decide, #[3, 4], ex_f1.1, ?_⟩
  intro i hi _
  have hi' : i < 1 := hi
  have : i = 0 := by omega
  subst this
  show ProdBudget exMod (limbArr 2 exSt1.env exX 0) (polyArr 2 fun t => (#[3, 4] : Array Int).getD t 0)
  rw [ex_f1.2.1, ex_f1.2.2]; exact exProdBudget

theorem exPre3 : PreF exMod exVars (.idft exZ exD0) exSt2 := ⟨by decide, _, rfl, trivial⟩
theorem exPre4 : PreF exMod exVars (.vmpPrepare exM0 exY) exSt3 := ⟨by decide, rfl, rfl, trivial⟩

theorem exPre5 : PreF exMod exVars (.dft exD1 exX) exSt4 := by
  refine ⟨by decide, ?_⟩
  intro i hi _
  have hi' : i < 1 := hi
  have : i = 0 := by omega
  subst this
  show RtBudget exMod (limbArr 2 exSt4.env exX 0)
  rw [ex_f4]; exact exRtBudget

theorem exPre6 : PreF exMod exVars (.vmpDD exD2 exD1 exM0) exSt5 := by
  refine ⟨by decide, #[#[1, 2]], #[#[3, 4]], ex_f5.1, ex_f5.2, ?_⟩
  show VmpBudget exMod (flatOf 2 (1 * 1) (fun i t => Val.coef #[#[3, 4]] i t)) 1 1
    (flatOf 2 1 (fun i t => Val.coef #[#[1, 2]] i t)) 1 1
  rw [ex_mat.1, ex_mat.2]; exact exVmpBudget

theorem exPre7 : PreF exMod exVars (.idft exW exD2) exSt6 := ⟨by decide, _, rfl, trivial⟩

theorem exPre8 : PreF exMod exVars (.vmp exD3 exX exM0) exSt7 := by
  refine ⟨by decide, #[#[3, 4]], ex_f7.1, ?_⟩
  show VmpBudget exMod (flatOf 2 (1 * 1) (fun i t => Val.coef #[#[3, 4]] i t)) 1 1 (vecArr 2 exSt7.env exX) 1 1
  rw [ex_mat.1, ex_f7.2]; exact exVmpBudget

theorem exPre9 : PreF exMod exVars (.idft exW exD3) exSt8 := ⟨by decide, _, rfl, trivial⟩
theorem exPre10 : PreF exMod exVars (.idft exW exD1) exSt9 := ⟨by decide, _, rfl, trivial⟩
theorem exPre11 : PreF exMod exVars (.coeff (.add exZ exZ exX)) exSt10 :=
  ⟨OpOKb_sound _ _ _ (by decide), OpBudgetb_sound _ _ _ (by decide +kernel)⟩

/-- every call of `exProg` satisfies its numeric budget along the exact run -/
theorem exGuarded : Guarded (PreF exMod exVars) (astepD 2) exProg exA :=
  ⟨exPre1, exPre2, exPre3, exPre4, exPre5, exPre6, exPre7, exPre8, exPre9, exPre10, exPre11, trivial⟩

/-- … and (with the dataflow condition, decided) the precondition of the binary64 instance of `DftOpsSound` -/
theorem exGuardedD : Guarded (PreD (dftOpsSound_f64 exMod) exVars) (astepD 2) exProg exA :=
  guarded_preD exMod exProg exA exGuarded (by decide)

end Spq.ProgErr
