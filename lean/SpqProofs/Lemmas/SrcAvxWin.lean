/-
  The AVX kernels called on windows of one arena buffer (as `vec_znx_add_avx` … call them): the result window
  `[ro, ro+nn)` of the arena `X` is filled in index order (`wfill`), sources are windows of the same arena that
  are identical to the result window or disjoint from it (`SameOrDisj`), so a lane that is read has not been
  written yet.  Lane loads / stores on these states, and the final state as `Heap.writeArr`.
-/
import SpqProofs.Lemmas.SrcAvx
import SpqProofs.Lemmas.SrcArena
namespace Spq.CIR
open Spq

/-- `X` with the cells `[ro, ro+k)` replaced by `g 0 … g (k-1)` -/
def wfill (X : Array Int) (ro : Nat) (g : Nat → Int) (k : Nat) : Array Int :=
  Array.ofFn (n := X.size) fun i => if ro ≤ i.val ∧ i.val < ro + k then g (i.val - ro) else X[i]

@[simp] theorem size_wfill (X : Array Int) (ro : Nat) (g : Nat → Int) (k : Nat) : (wfill X ro g k).size = X.size := by
  simp [wfill]

theorem getD_wfill (X : Array Int) (ro : Nat) (g : Nat → Int) (k x : Nat) :
    (wfill X ro g k).getD x 0 = if ro ≤ x ∧ x < ro + k ∧ x < X.size then g (x - ro) else X.getD x 0 := by
  by_cases hx : x < X.size
  · by_cases h1 : ro ≤ x ∧ x < ro + k
    · have h2 : ro ≤ x ∧ x < ro + k ∧ x < X.size := ⟨h1.1, h1.2, hx⟩
      simp [wfill, Array.getD, hx, h1, h2]
    · have h2 : ¬ (ro ≤ x ∧ x < ro + k ∧ x < X.size) := fun h => h1 ⟨h.1, h.2.1⟩
      simp [wfill, Array.getD, hx, h1, h2]
  · have h2 : ¬ (ro ≤ x ∧ x < ro + k ∧ x < X.size) := fun h => hx h.2.2
    simp [wfill, Array.getD, hx, h2]

theorem arr_ext_getD (a b : Array Int) (hs : a.size = b.size) (h : ∀ i, i < a.size → a.getD i 0 = b.getD i 0) :
    a = b := by
  apply Array.ext hs
  intro i h1 h2
  have := h i h1
  simpa [Array.getD, h1, h2] using this

theorem wfill_zero (X : Array Int) (ro : Nat) (g : Nat → Int) : wfill X ro g 0 = X := by
  apply arr_ext_getD _ _ (by simp)
  intro i _
  rw [getD_wfill, if_neg (by omega)]

theorem wfill_step (X : Array Int) (ro : Nat) (g : Nat → Int) (k : Nat) (v : Int) (hv : v = g k) :
    (wfill X ro g k).setIfInBounds (ro + k) v = wfill X ro g (k + 1) := by
  subst hv
  apply arr_ext_getD _ _ (by simp)
  intro i hi
  simp only [Array.size_setIfInBounds, size_wfill] at hi
  rw [getD_setIfInBounds, getD_wfill, getD_wfill, size_wfill]
  by_cases h : ro + k = i
  · subst h
    rw [if_pos ⟨rfl, hi⟩, if_pos ⟨by omega, by omega, hi⟩]
    congr 1; omega
  · rw [if_neg (fun hh => h hh.1)]
    by_cases h2 : ro ≤ i ∧ i < ro + k ∧ i < X.size
    · rw [if_pos h2, if_pos ⟨h2.1, by omega, h2.2.2⟩]
    · rw [if_neg h2, if_neg (by omega)]

section
variable (m0 : Mem) (B : Nat) (hB : B < m0.size) (X : Array Int) (ro : Nat) (g : Nat → Int)
include hB

/-- load of an arena cell outside the part of the result window written so far -/
theorem load_wfill (k x : Nat) (hx : x < X.size) (hout : x < ro ∨ ro + k ≤ x) :
    loadCell (m0.setIfInBounds B (wfill X ro g k)) (some (B, 0)) (x : Int) = .ok (X.getD x 0) := by
  rw [load0 _ _ _ (by rw [buf_set_self m0 B _ hB, size_wfill]; exact hx), buf_set_self m0 B _ hB, getD_wfill,
    if_neg (by omega)]

theorem store_wfill (k : Nat) (v : Int) (h : ro + k < X.size) (hv : v = g k) :
    storeCell (m0.setIfInBounds B (wfill X ro g k)) (some (B, 0)) ((ro + k : Nat) : Int) v
      = .ok (m0.setIfInBounds B (wfill X ro g (k + 1))) := by
  rw [store0 _ _ _ _ (by rw [buf_set_self m0 B _ hB, size_wfill]; exact h), buf_set_self m0 B _ hB,
    wfill_step _ _ _ _ _ hv, set_set]

theorem loadLanes_wfill (k : Nat) : ∀ (n x : Nat), x + n ≤ X.size → (x + n ≤ ro ∨ ro + k ≤ x) →
    loadLanes (m0.setIfInBounds B (wfill X ro g k)) (some (B, 0)) x n
      = .ok ((List.range n).map fun j => X.getD (x + j) 0) := by
  intro n
  induction n with
  | zero => intro x _ _; rfl
  | succ n ih =>
    intro x hb ho
    rw [loadLanes_succ, load_wfill m0 B hB X ro g k x (by omega) (by omega), R.bind_ok,
      ih (x + 1) (by omega) (by omega), R.bind_ok]
    congr 1
    rw [List.range_succ_eq_map, List.map_cons, List.map_map]
    congr 1
    apply List.map_congr_left
    intro j _
    simp only [Function.comp, Nat.succ_eq_add_one]
    congr 1
    omega

theorem storeLanes_wfill : ∀ (vs : List Int) (k : Nat), ro + k + vs.length ≤ X.size →
    (∀ j, j < vs.length → vs.getD j 0 = g (k + j)) →
    storeLanes (m0.setIfInBounds B (wfill X ro g k)) (some (B, 0)) (ro + k) vs
      = .ok (m0.setIfInBounds B (wfill X ro g (k + vs.length))) := by
  intro vs
  induction vs with
  | nil => intro k _ _; rfl
  | cons v vs ih =>
    intro k hb hv
    have h0 : v = g k := by simpa using hv 0 (by simp)
    simp only [List.length_cons] at hb
    rw [storeLanes_cons, store_wfill m0 B hB X ro g k v (by omega) h0, R.bind_ok,
      show ro + k + 1 = ro + (k + 1) by omega,
      ih (k + 1) (by omega) (fun j hj => by
        have := hv (j + 1) (by simp; omega)
        simp only [List.getD_cons_succ] at this
        rw [this]; congr 1; omega)]
    congr 3
    simp; omega
end

/-- the completely filled window is the model's `writeArr` -/
theorem wfill_all (X : Array Int) (ro nn : Nat) (g : Nat → Int) (Y : Array Int) (hY : Y.size = nn)
    (hg : ∀ i, i < nn → Y.getD i 0 = g i) : wfill X ro g nn = Heap.writeArr X ro Y := by
  apply arr_ext_getD _ _ (by rw [Heap.size_writeArr]; simp)
  intro i _
  rw [getD_wfill, getD_writeArr, hY]
  by_cases h : ro ≤ i ∧ i < ro + nn ∧ i < X.size
  · rw [if_pos h, if_pos h, hg _ (by omega)]
  · rw [if_neg h, if_neg h]

end Spq.CIR
