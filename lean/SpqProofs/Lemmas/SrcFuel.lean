/-
  Fuel monotonicity of the `Spq.CIR` interpreter: giving more fuel never changes a result other than
  `Err.fuel`.  Consequence (`run_no_other_error`): once a call is known to succeed with enough fuel, no amount
  of fuel makes it return `Err.oob` (or any error other than `Err.fuel`).
-/
import SpqProofs.Lemmas.SrcLoop
namespace Spq.CIR

/-- more fuel does not change any outcome except "out of fuel" -/
def Mono (step : Nat → State → Out) : Prop :=
  ∀ f f' σ, f ≤ f' → step f σ ≠ .err .fuel → step f' σ = step f σ

theorem mono_const (g : State → Out) : Mono (fun _ σ => g σ) := fun _ _ _ _ _ => rfl

theorem loopN_mono (c : State → R Bool) (step : Nat → State → Out) (h : Mono step) : Mono (loopN c step) := by
  intro f
  induction f with
  | zero =>
    intro f' σ _ hne
    cases f' with
    | zero => rfl
    | succ f' =>
      simp only [loopN] at hne ⊢
      cases hc : c σ with
      | err e => rfl
      | ok b =>
        cases b with
        | false => rfl
        | true => simp [hc] at hne
  | succ f ih =>
    intro f' σ hle hne
    obtain ⟨f'', rfl⟩ : ∃ f'', f' = f'' + 1 := ⟨f' - 1, by omega⟩
    simp only [loopN] at hne ⊢
    cases hc : c σ with
    | err e => rfl
    | ok b =>
      cases b with
      | false => rfl
      | true =>
        simp only [hc] at hne
        cases hs : step f σ with
        | err e =>
          have hef : step f σ ≠ .err .fuel := by
            intro h'; rw [hs] at h'; rw [hs] at hne; cases h'; exact hne rfl
          rw [h f f'' σ (by omega) hef, hs]
        | ok r =>
          obtain ⟨fl, σ'⟩ := r
          have hef : step f σ ≠ .err .fuel := by rw [hs]; intro h'; cases h'
          rw [h f f'' σ (by omega) hef, hs]
          rw [hs] at hne
          cases fl with
          | ret => rfl
          | norm => exact ih f'' σ' (by omega) hne
          | cont => exact ih f'' σ' (by omega) hne

theorem mono_thenStep (A B : Nat → State → Out) (hA : Mono A) (hB : Mono B) :
    Mono (fun f σ => thenStep (A f σ) fun σ' => B f σ') := by
  intro f f' σ hle hne
  simp only at hne ⊢
  cases ha : A f σ with
  | err e =>
    have hef : A f σ ≠ .err .fuel := by
      intro h'; rw [ha] at h'; rw [ha] at hne; cases h'; exact hne rfl
    rw [hA f f' σ hle hef, ha]
    rfl
  | ok r =>
    obtain ⟨fl, σ'⟩ := r
    have hef : A f σ ≠ .err .fuel := by rw [ha]; intro h'; cases h'
    rw [hA f f' σ hle hef, ha]
    rw [ha] at hne
    cases fl with
    | ret => rfl
    | norm => exact hB f f' σ' hle hne
    | cont => exact hB f f' σ' hle hne

/-- sequencing continues only after a normal completion -/
theorem mono_seq (A B : Nat → State → Out) (hA : Mono A) (hB : Mono B) :
    Mono (fun f σ => match A f σ with
      | .ok (.norm, σ') => B f σ'
      | r => r) := by
  intro f f' σ hle hne
  simp only at hne ⊢
  cases ha : A f σ with
  | err e =>
    have hef : A f σ ≠ .err .fuel := by
      intro h'; rw [ha] at h'; rw [ha] at hne; cases h'; exact hne rfl
    rw [hA f f' σ hle hef, ha]
  | ok r =>
    obtain ⟨fl, σ'⟩ := r
    have hef : A f σ ≠ .err .fuel := by rw [ha]; intro h'; cases h'
    rw [hA f f' σ hle hef, ha]
    rw [ha] at hne
    cases fl with
    | ret => rfl
    | cont => rfl
    | norm => exact hB f f' σ' hle hne

theorem exec_call_def (Γ : List Ptr) (body : Stmt) (nslots : Nat) (sargs : List Expr)
    (pargs : List (PBase × Expr)) (f : Nat) (σ : State) :
    exec Γ (.call body nslots sargs pargs) f σ = (evalList Γ σ sargs).bind fun vs =>
      (evalPtrs Γ σ pargs).bind fun ps =>
        callRet σ (exec ps body f { env := vs ++ List.replicate (nslots - vs.length) 0, mem := σ.mem }) := rfl

theorem execK_call_def (K : ExtSem) (Γ : List Ptr) (body : Stmt) (nslots : Nat) (sargs : List Expr)
    (pargs : List (PBase × Expr)) (f : Nat) (σ : State) :
    execK K Γ (.call body nslots sargs pargs) f σ = (evalList Γ σ sargs).bind fun vs =>
      (evalPtrs Γ σ pargs).bind fun ps =>
        callRet σ (execK K ps body f { env := vs ++ List.replicate (nslots - vs.length) 0, mem := σ.mem }) := rfl
theorem execK_ite_def (K : ExtSem) (Γ : List Ptr) (c : Expr) (t e : Stmt) (f : Nat) (σ : State) :
    execK K Γ (.ite c t e) f σ = (evalB Γ c σ).bind fun b => if b then execK K Γ t f σ else execK K Γ e f σ := rfl

/-- fuel monotonicity for any semantics of the opaque calls (they consume no fuel) -/
theorem execK_mono (K : ExtSem) : ∀ (s : Stmt) (Γ : List Ptr), Mono (execK K Γ s)
  | .skip, _ => mono_const _
  | .assign _ _, _ => mono_const _
  | .store _ _ _, _ => mono_const _
  | .memcpy _ _ _, _ => mono_const _
  | .memset _ _ _ _, _ => mono_const _
  | .passign _ _ _, _ => mono_const _
  | .vstore _ _ _ _, _ => mono_const _
  | .ret, _ => mono_const _
  | .cont, _ => mono_const _
  | .pstore _ _ _, _ => mono_const _
  | .pstore32 _ _ _, _ => mono_const _
  | .aset _ _ _ _, _ => mono_const _
  | .extcall _ _ _, _ => mono_const _
  | .seq a b, Γ => mono_seq _ _ (execK_mono K a Γ) (execK_mono K b Γ)
  | .ite c t e, Γ => by
    intro f f' σ hle hne
    simp only [execK_ite_def] at hne ⊢
    cases hc : evalB Γ c σ with
    | err e => rfl
    | ok b =>
      rw [hc] at hne
      cases b with
      | true => exact execK_mono K t Γ f f' σ hle hne
      | false => exact execK_mono K e Γ f f' σ hle hne
  | .while c b, Γ => loopN_mono _ _ (execK_mono K b Γ)
  | .for i c inc b, Γ =>
    mono_seq _ (fun f σ1 => loopN (evalB Γ c) (fun f σ => thenStep (execK K Γ b f σ) fun σ' => execK K Γ inc f σ') f σ1)
      (execK_mono K i Γ) (loopN_mono _ _ (mono_thenStep _ _ (execK_mono K b Γ) (execK_mono K inc Γ)))
  | .doWhile b c, Γ =>
    mono_thenStep _ (fun f σ' => loopN (evalB Γ c) (fun f σ => execK K Γ b f σ) f σ')
      (execK_mono K b Γ) (loopN_mono _ _ (execK_mono K b Γ))
  | .call body nslots sargs pargs, Γ => by
    intro f f' σ hle hne
    simp only [execK_call_def] at hne ⊢
    cases hv : evalList Γ σ sargs with
    | err e => rfl
    | ok vs =>
      rw [hv] at hne
      simp only [R.bind_ok] at hne ⊢
      cases hp : evalPtrs Γ σ pargs with
      | err e => rfl
      | ok ps =>
        rw [hp] at hne
        simp only [R.bind_ok] at hne ⊢
        have hb : execK K ps body f { env := vs ++ List.replicate (nslots - vs.length) 0, mem := σ.mem } ≠ .err .fuel := by
          intro h'; rw [h'] at hne; exact hne rfl
        rw [execK_mono K body ps f f' _ hle hb]

theorem exec_mono (s : Stmt) (Γ : List Ptr) : Mono (exec Γ s) := execK_mono ExtSem.none s Γ

theorem runK_mono (K : ExtSem) (fn : Fn) (args : List Int) (Γ : List Ptr) (m : Mem) (f f' : Nat) (hle : f ≤ f')
    (hne : runK K f fn args Γ m ≠ .err .fuel) : runK K f' fn args Γ m = runK K f fn args Γ m := by
  unfold runK at hne ⊢
  have hex : execK K Γ fn.body f ⟨args ++ List.replicate (fn.nslots - args.length) 0, m⟩ ≠ .err .fuel := by
    intro h'; rw [h'] at hne; exact hne rfl
  rw [execK_mono K fn.body Γ f f' _ hle hex]

theorem runK_ok_or_fuel (K : ExtSem) (fn : Fn) (args : List Int) (Γ : List Ptr) (m m' : Mem) (F : Nat)
    (h : ∀ fuel, F ≤ fuel → runK K fuel fn args Γ m = .ok m') :
    ∀ fuel, runK K fuel fn args Γ m = .ok m' ∨ runK K fuel fn args Γ m = .err .fuel := by
  intro fuel
  by_cases hf : runK K fuel fn args Γ m = .err .fuel
  · exact Or.inr hf
  · left
    have := runK_mono K fn args Γ m fuel (max fuel F) (Nat.le_max_left _ _) hf
    rw [← this]
    exact h _ (Nat.le_max_right _ _)

theorem runK_no_other_error (K : ExtSem) (fn : Fn) (args : List Int) (Γ : List Ptr) (m m' : Mem) (F : Nat)
    (h : ∀ fuel, F ≤ fuel → runK K fuel fn args Γ m = .ok m') :
    ∀ fuel e, e ≠ .fuel → runK K fuel fn args Γ m ≠ .err e := by
  intro fuel e he
  rcases runK_ok_or_fuel K fn args Γ m m' F h fuel with h1 | h1 <;> rw [h1] <;> intro h2 <;> cases h2
  exact he rfl

theorem run_mono (fn : Fn) (args : List Int) (Γ : List Ptr) (m : Mem) (f f' : Nat) (hle : f ≤ f')
    (hne : run f fn args Γ m ≠ .err .fuel) : run f' fn args Γ m = run f fn args Γ m :=
  runK_mono ExtSem.none fn args Γ m f f' hle hne

/-- if the call succeeds for every fuel `≥ F`, then for every fuel it either succeeds with the same result or
    runs out of fuel; in particular it never reports an out-of-bounds access. -/
theorem run_ok_or_fuel (fn : Fn) (args : List Int) (Γ : List Ptr) (m m' : Mem) (F : Nat)
    (h : ∀ fuel, F ≤ fuel → run fuel fn args Γ m = .ok m') :
    ∀ fuel, run fuel fn args Γ m = .ok m' ∨ run fuel fn args Γ m = .err .fuel :=
  runK_ok_or_fuel ExtSem.none fn args Γ m m' F h

theorem run_no_other_error (fn : Fn) (args : List Int) (Γ : List Ptr) (m m' : Mem) (F : Nat)
    (h : ∀ fuel, F ≤ fuel → run fuel fn args Γ m = .ok m') :
    ∀ fuel e, e ≠ .fuel → run fuel fn args Γ m ≠ .err e :=
  runK_no_other_error ExtSem.none fn args Γ m m' F h

end Spq.CIR
