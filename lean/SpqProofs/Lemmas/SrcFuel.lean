/-
  Fuel monotonicity of the `Spq.CIR` interpreter: giving more fuel never changes a result other than
  `Err.fuel`.  Consequence (`run_no_other_error`): once a call is known to succeed with enough fuel, no amount
  of fuel makes it return `Err.oob` (or any error other than `Err.fuel`).
-/
import SpqProofs.Lemmas.SrcLoop
namespace Spq.CIR

/-- more fuel does not change any outcome except "out of fuel" -/
def Mono (step : Nat → State → Out) : Prop :=
  ∀ f f' σ, f ≤ f' → step f σ ≠ .err .fuel → step f' σ = step f σ

theorem mono_const (g : State → Out) : Mono (fun _ σ => g σ) := fun _ _ _ _ _ => rfl

theorem loopN_mono (c : State → R Bool) (step : Nat → State → Out) (h : Mono step) : Mono (loopN c step) := by
  intro f
  induction f with
  | zero =>
    intro f' σ _ hne
    cases f' with
    | zero => rfl
    | succ f' =>
      simp only [loopN] at hne ⊢
      cases hc : c σ with
      | err e => rfl
      | ok b =>
        cases b with
        | false => rfl
        | true => simp [hc] at hne
  | succ f ih =>
    intro f' σ hle hne
    obtain ⟨f'', rfl⟩ : ∃ f'', f' = f'' + 1 := ⟨f' - 1, by omega⟩
    simp only [loopN] at hne ⊢
    cases hc : c σ with
    | err e => rfl
    | ok b =>
      cases b with
      | false => rfl
      | true =>
        simp only [hc] at hne
        cases hs : step f σ with
        | err e =>
          have hef : step f σ ≠ .err .fuel := by
            intro h'; rw [hs] at h'; rw [hs] at hne; cases h'; exact hne rfl
          rw [h f f'' σ (by omega) hef, hs]
        | ok r =>
          obtain ⟨fl, σ'⟩ := r
          have hef : step f σ ≠ .err .fuel := by rw [hs]; intro h'; cases h'
          rw [h f f'' σ (by omega) hef, hs]
          rw [hs] at hne
          cases fl with
          | ret => rfl
          | norm => exact ih f'' σ' (by omega) hne
          | cont => exact ih f'' σ' (by omega) hne

theorem mono_thenStep (A B : Nat → State → Out) (hA : Mono A) (hB : Mono B) :
    Mono (fun f σ => thenStep (A f σ) fun σ' => B f σ') := by
  intro f f' σ hle hne
  simp only at hne ⊢
  cases ha : A f σ with
  | err e =>
    have hef : A f σ ≠ .err .fuel := by
      intro h'; rw [ha] at h'; rw [ha] at hne; cases h'; exact hne rfl
    rw [hA f f' σ hle hef, ha]
    rfl
  | ok r =>
    obtain ⟨fl, σ'⟩ := r
    have hef : A f σ ≠ .err .fuel := by rw [ha]; intro h'; cases h'
    rw [hA f f' σ hle hef, ha]
    rw [ha] at hne
    cases fl with
    | ret => rfl
    | norm => exact hB f f' σ' hle hne
    | cont => exact hB f f' σ' hle hne

/-- sequencing continues only after a normal completion -/
theorem mono_seq (A B : Nat → State → Out) (hA : Mono A) (hB : Mono B) :
    Mono (fun f σ => match A f σ with
      | .ok (.norm, σ') => B f σ'
      | r => r) := by
  intro f f' σ hle hne
  simp only at hne ⊢
  cases ha : A f σ with
  | err e =>
    have hef : A f σ ≠ .err .fuel := by
      intro h'; rw [ha] at h'; rw [ha] at hne; cases h'; exact hne rfl
    rw [hA f f' σ hle hef, ha]
  | ok r =>
    obtain ⟨fl, σ'⟩ := r
    have hef : A f σ ≠ .err .fuel := by rw [ha]; intro h'; cases h'
    rw [hA f f' σ hle hef, ha]
    rw [ha] at hne
    cases fl with
    | ret => rfl
    | cont => rfl
    | norm => exact hB f f' σ' hle hne

theorem exec_mono (Γ : List Ptr) : ∀ s : Stmt, Mono (exec Γ s)
  | .skip => mono_const _
  | .assign _ _ => mono_const _
  | .store _ _ _ => mono_const _
  | .memcpy _ _ _ => mono_const _
  | .memset _ _ _ _ => mono_const _
  | .ret => mono_const _
  | .cont => mono_const _
  | .seq a b => mono_seq _ _ (exec_mono Γ a) (exec_mono Γ b)
  | .ite c t e => by
    intro f f' σ hle hne
    simp only [exec_ite] at hne ⊢
    cases hc : evalB Γ c σ with
    | err e => rfl
    | ok b =>
      rw [hc] at hne
      cases b with
      | true => exact exec_mono Γ t f f' σ hle hne
      | false => exact exec_mono Γ e f f' σ hle hne
  | .while c b => loopN_mono _ _ (exec_mono Γ b)
  | .for i c inc b =>
    mono_seq _ (fun f σ1 => loopN (evalB Γ c) (fun f σ => thenStep (exec Γ b f σ) fun σ' => exec Γ inc f σ') f σ1)
      (exec_mono Γ i) (loopN_mono _ _ (mono_thenStep _ _ (exec_mono Γ b) (exec_mono Γ inc)))
  | .doWhile b c =>
    mono_thenStep _ (fun f σ' => loopN (evalB Γ c) (fun f σ => exec Γ b f σ) f σ')
      (exec_mono Γ b) (loopN_mono _ _ (exec_mono Γ b))

theorem run_mono (fn : Fn) (args : List Int) (Γ : List Ptr) (m : Mem) (f f' : Nat) (hle : f ≤ f')
    (hne : run f fn args Γ m ≠ .err .fuel) : run f' fn args Γ m = run f fn args Γ m := by
  unfold run at hne ⊢
  have hex : exec Γ fn.body f ⟨args ++ List.replicate (fn.nslots - args.length) 0, m⟩ ≠ .err .fuel := by
    intro h'; rw [h'] at hne; exact hne rfl
  rw [exec_mono Γ fn.body f f' _ hle hex]

/-- if the call succeeds for every fuel `≥ F`, then for every fuel it either succeeds with the same result or
    runs out of fuel; in particular it never reports an out-of-bounds access. -/
theorem run_ok_or_fuel (fn : Fn) (args : List Int) (Γ : List Ptr) (m m' : Mem) (F : Nat)
    (h : ∀ fuel, F ≤ fuel → run fuel fn args Γ m = .ok m') :
    ∀ fuel, run fuel fn args Γ m = .ok m' ∨ run fuel fn args Γ m = .err .fuel := by
  intro fuel
  by_cases hf : run fuel fn args Γ m = .err .fuel
  · exact Or.inr hf
  · left
    have := run_mono fn args Γ m fuel (max fuel F) (Nat.le_max_left _ _) hf
    rw [← this]
    exact h _ (Nat.le_max_right _ _)

theorem run_no_other_error (fn : Fn) (args : List Int) (Γ : List Ptr) (m m' : Mem) (F : Nat)
    (h : ∀ fuel, F ≤ fuel → run fuel fn args Γ m = .ok m') :
    ∀ fuel e, e ≠ .fuel → run fuel fn args Γ m ≠ .err e := by
  intro fuel e he
  rcases run_ok_or_fuel fn args Γ m m' F h fuel with h1 | h1 <;> rw [h1] <;> intro h2 <;> cases h2
  exact he rfl

end Spq.CIR
