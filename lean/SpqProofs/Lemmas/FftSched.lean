/-
  C06: generic pieces of the schedule proofs: loops that thread the table pointer, block sweeps, reading
  twiddles out of a table segment.
-/
import SpqProofs.Lemmas.FftKern
set_option linter.unusedSectionVars false
namespace Spq.Fft.Sched
open Spq.Fft Spq.Fft.Alg Spq.Fft.View Spq.Fft.Level Spq.Fft.Sim Spq.Fft.Tab Spq.Fft.Tw Spq.Fft.Kern

variable {R : Type} [CommRing R] [Inhabited R]

/-- a loop that advances a pointer by `c` per iteration -/
theorem iter_counter {σ : Type} (f : ℕ → ℕ → σ → σ) (c n : ℕ) (s : σ) (t : ℕ) :
    iterFrom (fun b (st : σ × ℕ) => (f b st.2 st.1, st.2 + c)) n 0 (s, t)
      = (iterFrom (fun b s => f b (t + c * b) s) n 0 s, t + c * n) := by
  induction n with
  | zero => simp [iterFrom]
  | succ n ih =>
    rw [iterFrom_succ_last, iterFrom_succ_last, ih]
    simp only [Nat.zero_add]
    congr 1
    ring

variable (X : Ctx R)

/-- a loop whose step `b` advances block `b` advances the whole region -/
theorem sweep (step : ℕ → RI R → RI R) (N ℓ d ℓ' d' off sz n : ℕ)
    (h : ∀ b s, b < n → Valid N s →
      Adv X.ζ X.a (cxs X.I s) (cxs X.I (step b s)) ℓ d ℓ' d' (off + b * sz) sz ∧ Valid N (step b s))
    (s : RI R) (hs : Valid N s) :
    Adv X.ζ X.a (cxs X.I s) (cxs X.I (iterFrom step n 0 s)) ℓ d ℓ' d' off (n * sz) ∧
      Valid N (iterFrom step n 0 s) := by
  induction n with
  | zero => exact ⟨by simpa [iterFrom] using Adv.empty X.ζ X.a _ ℓ d ℓ' d' off, hs⟩
  | succ n ih =>
    rw [iterFrom_succ_last, Nat.zero_add]
    have h1 := ih (fun b s hb hs => h b s (by omega) hs)
    have h2 := h n (iterFrom step n 0 s) (by omega) h1.2
    exact ⟨(Adv.par X.ζ X.a h1.1 h2.1).of_eq X.ζ X.a rfl (by ring), h2.2⟩

/-- reading `exp(2iπx)` stored as `(cos, sin)` -/
theorem read_eP (T : Array R) (t x : ℕ) (h : Seg T t ((eP x).map (val X.c X.s))) :
    T[t]! + X.I * T[t + 1]! = X.ζ ^ x := by
  have h0 := h 0 (by simp [eP])
  have h1 := h 1 (by simp [eP])
  simp only [Nat.add_zero] at h0
  rw [h0, h1]
  simp [eP, val, X.hcs]

end Spq.Fft.Sched
