/-
  Infrastructure for the limb-vector wrappers (`vec_znx_*_ref`): the unfolding equations of `call`, pointer
  arithmetic and pointer locals; the counting `for` loop over an arbitrary memory sequence; and the facts about the
  heap model (`Spq/Heap.lean`: `forLimbs`, `limb0/1/2`, the `ok` flag) needed to step through it limb by limb.
-/
import Spq.VecZnx
import SpqProofs.Lemmas.SrcArena
import SpqProofs.Lemmas.SrcFill
namespace Spq.CIR
open Spq

/-! ### pointer expressions -/
/-- `param + k` for a natural number of cells -/
theorem ptrAt_param (Γ : List Ptr) (env : List Int) (i bf o k : Nat) (h : Γ.getD i none = some (bf, o)) :
    ptrAt Γ env (.param i) (k : Int) = .ok (some (bf, o + k)) := by
  have h1 : (0 : Int) ≤ (o : Int) + (k : Int) := by omega
  have h2 : ((o : Int) + (k : Int)).toNat = o + k := by omega
  simp only [ptrAt, h, h1, if_true, h2]

theorem ptrAt_null (Γ : List Ptr) (env : List Int) (v : Int) : ptrAt Γ env .null v = .ok none := rfl

/-! ### counting loop over an arbitrary sequence of memories -/
theorem count_for (Γ : List Ptr) (js : Nat) (e0 hiE : Expr) (body : Stmt) (env : List Int) (m00 : Mem)
    (M : Nat → Mem) (lo hi fb : Nat) (hm0 : m00 = M lo) (hlh : lo ≤ hi) (h64 : hi < 18446744073709551616) (hjs : js < env.length)
    (he0 : eval Γ ⟨env, M lo⟩ e0 = .ok (lo : Int))
    (hhiE : ∀ k, lo ≤ k → k ≤ hi → eval Γ ⟨lset env js (k : Int), M k⟩ hiE = .ok (hi : Int))
    (hbody : ∀ k, lo ≤ k → k < hi → ∀ f, fb ≤ f →
      exec Γ body f ⟨lset env js (k : Int), M k⟩ = .ok (.norm, ⟨lset env js (k : Int), M (k + 1)⟩)) :
    ∀ f, (hi - lo) + fb ≤ f →
      exec Γ (.for (.assign js e0) (.bin .lt .u64 (.var js) hiE)
          (.assign js (.bin .add .u64 (.var js) (.lit 1))) body) f ⟨env, m00⟩
        = .ok (.norm, ⟨lset env js (hi : Int), M hi⟩) := by
  subst hm0
  intro f hf
  have h := exec_for_range Γ (.assign js e0) (.bin .lt .u64 (.var js) hiE)
    (.assign js (.bin .add .u64 (.var js) (.lit 1))) body ⟨env, M lo⟩
    (fun k => ⟨lset env js (k : Int), M k⟩) lo hi fb hlh ?hi0 ?hc ?hs ?hx f hf
  · exact h
  case hi0 =>
    intro f
    rw [exec_assign, he0]
    rfl
  case hc =>
    intro k h1 h2
    cir_simp
    rw [hhiE k h1 (by omega)]
    cir_simp
    rw [lget_lset_self env js _ hjs]
    exact ok_decide_true (by omega)
  case hs =>
    intro k h1 h2 f hf'
    rw [hbody k h1 h2 f hf']
    cir_simp
    rw [lget_lset_self env js _ hjs, lset_lset]
    have e : ((k : Int) + 1) % 18446744073709551616 = ((k + 1 : Nat) : Int) := by omega
    rw [e]
  case hx =>
    cir_simp
    rw [hhiE hi hlh (Nat.le_refl _)]
    cir_simp
    rw [lget_lset_self env js _ hjs]
    exact ok_decide_false (by omega)

/-! ### the heap model, limb by limb -/
open Heap

theorem size_kzero (nn : Nat) : (Coeffs.zero i64Ops nn).size = nn := by simp [Coeffs.zero]
theorem size_kcopy (nn : Nat) (x : Array Int) : (Coeffs.copy i64Ops nn x).size = nn := by simp [Coeffs.copy]
theorem size_kneg (nn : Nat) (x : Array Int) : (Coeffs.negate i64Ops nn x).size = nn := by simp [Coeffs.negate]
theorem size_kadd (nn : Nat) (x y : Array Int) : (Coeffs.add i64Ops nn x y).size = nn := by simp [Coeffs.add]
theorem size_ksub (nn : Nat) (x y : Array Int) : (Coeffs.sub i64Ops nn x y).size = nn := by simp [Coeffs.sub]
theorem size_krot (nn : Nat) (p : Int) (x : Array Int) : (Coeffs.rotate i64Ops nn p x).size = nn := by
  simp [Coeffs.rotate]

theorem forLimbs_nil (lo : Nat) (f : Nat → Heap Int → Heap Int) (h : Heap Int) : forLimbs lo lo f h = h := by
  simp [forLimbs]

theorem forLimbs_succ (lo k : Nat) (hk : lo ≤ k) (f : Nat → Heap Int → Heap Int) (h : Heap Int) :
    forLimbs lo (k + 1) f h = f k (forLimbs lo k f h) := by
  unfold forLimbs
  have e : k + 1 - lo = (k - lo) + 1 := by omega
  rw [e, List.range'_concat, List.foldl_append]
  have e2 : lo + (k - lo) = k := by omega
  simp [e2]

/-- the limb operations only ever clear the `ok` flag -/
def OkMono (f : Nat → Heap Int → Heap Int) : Prop := ∀ i h, (f i h).ok = true → h.ok = true

theorem forLimbs_ok_prefix (f : Nat → Heap Int → Heap Int) (hf : OkMono f) (lo : Nat) (h : Heap Int) :
    ∀ hi, lo ≤ hi → (forLimbs lo hi f h).ok = true → ∀ k, lo ≤ k → k ≤ hi → (forLimbs lo k f h).ok = true := by
  intro hi hle
  obtain ⟨d, rfl⟩ : ∃ d, hi = lo + d := ⟨hi - lo, by omega⟩
  clear hle
  induction d with
  | zero =>
    intro hok k h1 h2
    have : k = lo := by omega
    subst this; exact hok
  | succ d ih =>
    intro hok k h1 h2
    have e : lo + (d + 1) = (lo + d) + 1 := by omega
    rw [e, forLimbs_succ lo (lo + d) (by omega)] at hok
    by_cases hk : k = lo + d + 1
    · subst hk; rw [forLimbs_succ lo (lo + d) (by omega)]; exact hok
    · exact ih (hf (lo + d) _ hok) k h1 (by omega)

theorem limb0_ok (K : Array Int) (r : Nat) (h : Heap Int) :
    (limb0 K r h).ok = (h.ok && decide (r + K.size ≤ h.mem.size)) := rfl
theorem limb0_mem (K : Array Int) (r : Nat) (h : Heap Int) : (limb0 K r h).mem = writeArr h.mem r K := rfl

theorem readLimb_eq_win (h : Heap Int) (o nn : Nat) : h.readLimb 0 o nn = win h.mem o nn := rfl

theorem limb1_mem (nn : Nat) (K : Array Int → Array Int) (r a : Nat) (h : Heap Int) :
    (limb1 0 nn K r a h).mem = writeArr h.mem r (K (win h.mem a nn)) := rfl
theorem limb1_ok (nn : Nat) (K : Array Int → Array Int) (r a : Nat) (h : Heap Int) :
    (limb1 0 nn K r a h).ok
      = ((h.ok && decide (a + nn ≤ h.mem.size)) && decide (r + (K (win h.mem a nn)).size ≤ h.mem.size)) := rfl

theorem limb2_mem (nn : Nat) (K : Array Int → Array Int → Array Int) (r a b : Nat) (h : Heap Int) :
    (limb2 0 nn K r a b h).mem = writeArr h.mem r (K (win h.mem a nn) (win h.mem b nn)) := rfl
theorem limb2_ok (nn : Nat) (K : Array Int → Array Int → Array Int) (r a b : Nat) (h : Heap Int) :
    (limb2 0 nn K r a b h).ok
      = (((h.ok && decide (a + nn ≤ h.mem.size)) && decide (b + nn ≤ h.mem.size)) &&
          decide (r + (K (win h.mem a nn) (win h.mem b nn)).size ≤ h.mem.size)) := rfl

theorem okMono_limb0 (K : Nat → Array Int) (r : Nat → Nat) : OkMono (fun i => limb0 (K i) (r i)) := by
  intro i h hok
  rw [limb0_ok] at hok
  simp only [Bool.and_eq_true] at hok
  exact hok.1

theorem okMono_limb1 (nn : Nat) (K : Nat → Array Int → Array Int) (r a : Nat → Nat) :
    OkMono (fun i => limb1 0 nn (K i) (r i) (a i)) := by
  intro i h hok
  rw [limb1_ok] at hok
  simp only [Bool.and_eq_true] at hok
  exact hok.1.1

theorem okMono_limb2 (nn : Nat) (K : Nat → Array Int → Array Int → Array Int) (r a b : Nat → Nat) :
    OkMono (fun i => limb2 0 nn (K i) (r i) (a i) (b i)) := by
  intro i h hok
  rw [limb2_ok] at hok
  simp only [Bool.and_eq_true] at hok
  exact hok.1.1.1

@[simp] theorem size_forLimbs_mem0 (K : Nat → Array Int) (r : Nat → Nat) (lo : Nat) (h : Heap Int) :
    ∀ hi, (forLimbs lo hi (fun i => limb0 (K i) (r i)) h).mem.size = h.mem.size := by
  intro hi
  by_cases hle : lo ≤ hi
  · obtain ⟨d, rfl⟩ : ∃ d, hi = lo + d := ⟨hi - lo, by omega⟩
    clear hle
    induction d with
    | zero => rw [Nat.add_zero, forLimbs_nil]
    | succ d ih =>
      have e : lo + (d + 1) = (lo + d) + 1 := by omega
      rw [e, forLimbs_succ lo (lo + d) (by omega), limb0_mem, Heap.size_writeArr, ih]
  · have : hi - lo = 0 := by omega
    simp [forLimbs, this]

theorem mul_wrap (a b : Nat) (h : a * b < 18446744073709551616) :
    ((a : Int) * (b : Int)) % 18446744073709551616 = ((a * b : Nat) : Int) := by
  have : ((a : Int) * (b : Int)) = ((a * b : Nat) : Int) := by push_cast; rfl
  rw [this]; omega

/-- a wrapper loop `for (i = lo; i < hi; ++i) body` whose body performs the model's limb operation `F i` on the
    arena buffer `B`.  The body obligation gets that the heap before and after limb `k` has its `ok` flag set
    (which carries the bounds of that limb). -/
theorem limb_for (Γ : List Ptr) (js : Nat) (e0 hiE : Expr) (body : Stmt) (env : List Int) (m0 : Mem) (B : Nat)
    (F : Nat → Heap Int → Heap Int) (hF : OkMono F) (h0 : Heap Int) (lo hi fb : Nat) (hlh : lo ≤ hi)
    (h64 : hi < 18446744073709551616) (hjs : js < env.length)
    (hok : (forLimbs lo hi F h0).ok = true)
    (he0 : eval Γ ⟨env, m0.setIfInBounds B h0.mem⟩ e0 = .ok (lo : Int))
    (hhiE : ∀ k m, eval Γ ⟨lset env js (k : Int), m⟩ hiE = .ok (hi : Int))
    (hbody : ∀ k, lo ≤ k → k < hi → (forLimbs lo k F h0).ok = true → (F k (forLimbs lo k F h0)).ok = true →
      ∀ f, fb ≤ f →
        exec Γ body f ⟨lset env js (k : Int), m0.setIfInBounds B (forLimbs lo k F h0).mem⟩
          = .ok (.norm, ⟨lset env js (k : Int), m0.setIfInBounds B (F k (forLimbs lo k F h0)).mem⟩)) :
    ∀ f, (hi - lo) + fb ≤ f →
      exec Γ (.for (.assign js e0) (.bin .lt .u64 (.var js) hiE)
          (.assign js (.bin .add .u64 (.var js) (.lit 1))) body) f ⟨env, m0.setIfInBounds B h0.mem⟩
        = .ok (.norm, ⟨lset env js (hi : Int), m0.setIfInBounds B (forLimbs lo hi F h0).mem⟩) := by
  have hpre := forLimbs_ok_prefix F hF lo h0 hi hlh hok
  intro f hf
  exact count_for Γ js e0 hiE body env _ (fun k => m0.setIfInBounds B (forLimbs lo k F h0).mem) lo hi fb
    (by simp only [forLimbs_nil]) hlh h64 hjs (by simp only [forLimbs_nil]; exact he0)
    (fun k _ _ => hhiE k _)
    (fun k h1 h2 f hf' => by
      have a1 := hpre k h1 (by omega)
      have a2 := hpre (k + 1) (by omega) (by omega)
      rw [forLimbs_succ lo k h1] at a2
      have := hbody k h1 h2 a1 a2 f hf'
      simp only [forLimbs_succ lo k h1]
      exact this) f hf

end Spq.CIR

namespace Spq.CIR
open Spq Heap
/-- `x < y ? x : y` on uint64 values -/
theorem min_cond (a b : Nat) :
    (if (a : Int) < (b : Int) then (R.ok (a : Int) : R Int) else R.ok (b : Int)) = R.ok ((min a b : Nat) : Int) := by
  by_cases h : a < b
  · have : (a : Int) < (b : Int) := by omega
    rw [if_pos this, Nat.min_eq_left (by omega)]
  · have : ¬ (a : Int) < (b : Int) := by omega
    rw [if_neg this, Nat.min_eq_right (by omega)]

theorem size_forLimbs_mem1 (nn : Nat) (K : Nat → Array Int → Array Int) (r a : Nat → Nat) (lo : Nat) (h : Heap Int) :
    ∀ hi, (forLimbs lo hi (fun i => limb1 0 nn (K i) (r i) (a i)) h).mem.size = h.mem.size := by
  intro hi
  by_cases hle : lo ≤ hi
  · obtain ⟨d, rfl⟩ : ∃ d, hi = lo + d := ⟨hi - lo, by omega⟩
    clear hle
    induction d with
    | zero => rw [Nat.add_zero, forLimbs_nil]
    | succ d ih =>
      have e : lo + (d + 1) = (lo + d) + 1 := by omega
      rw [e, forLimbs_succ lo (lo + d) (by omega), limb1_mem, Heap.size_writeArr, ih]
  · have : hi - lo = 0 := by omega
    simp [forLimbs, this]

theorem size_forLimbs_mem2 (nn : Nat) (K : Nat → Array Int → Array Int → Array Int) (r a b : Nat → Nat) (lo : Nat)
    (h : Heap Int) :
    ∀ hi, (forLimbs lo hi (fun i => limb2 0 nn (K i) (r i) (a i) (b i)) h).mem.size = h.mem.size := by
  intro hi
  by_cases hle : lo ≤ hi
  · obtain ⟨d, rfl⟩ : ∃ d, hi = lo + d := ⟨hi - lo, by omega⟩
    clear hle
    induction d with
    | zero => rw [Nat.add_zero, forLimbs_nil]
    | succ d ih =>
      have e : lo + (d + 1) = (lo + d) + 1 := by omega
      rw [e, forLimbs_succ lo (lo + d) (by omega), limb2_mem, Heap.size_writeArr, ih]
  · have : hi - lo = 0 := by omega
    simp [forLimbs, this]
end Spq.CIR

namespace Spq.CIR
theorem lt_min_of_le {k r a b : Nat} (h : k < min r a) (hab : a ≤ b) : k < min r b := by
  have := Nat.lt_min.mp h
  exact Nat.lt_min.mpr ⟨this.1, by omega⟩
theorem lt_min_of_ge_lt {k r a b : Nat} (h1 : min r a ≤ k) (h : k < min r b) : k < min r b := h
theorem min_le_min_of_le {r a b : Nat} (hab : a ≤ b) : min r a ≤ min r b := by
  by_cases h : r ≤ a
  · rw [Nat.min_eq_left h, Nat.min_eq_left (by omega)]; exact Nat.le_refl _
  · rw [Nat.min_eq_right (by omega)]
    exact Nat.le_min.mpr ⟨by omega, hab⟩
end Spq.CIR

namespace Spq.CIR
theorem encPtr_some (env : List Int) (s b o : Nat) :
    encPtr env s (some (b, o)) = lset (lset env s (b : Int)) (s + 1) (o : Int) := rfl
theorem encPtr_none (env : List Int) (s : Nat) : encPtr env s none = lset (lset env s (-1)) (s + 1) 0 := rfl

/-- read of a pointer local holding `(b, o)` -/
theorem ptrAt_pvar (Γ : List Ptr) (env : List Int) (s b o : Nat) (h1 : lget env s = (b : Int))
    (h2 : lget env (s + 1) = (o : Int)) : ptrAt Γ env (.pvar s) 0 = .ok (some (b, o)) := by
  have h3 : ¬ ((b : Int) < 0) := by omega
  simp only [ptrAt, decPtr, h1, h2, h3, if_false, Int.toNat_natCast]
  have h4 : (0 : Int) ≤ (o : Int) + 0 := by omega
  simp only [h4, if_true]
  have h5 : ((o : Int) + 0).toNat = o := by omega
  rw [h5]

/-- value of a slot in the previous iteration (0 before the first one) -/
def prevI (F : Nat → Int) (k : Nat) : Int := if k = 0 then 0 else F (k - 1)
theorem prevI_zero (F : Nat → Int) : prevI F 0 = 0 := rfl
theorem prevI_succ (F : Nat → Int) (k : Nat) : prevI F (k + 1) = F k := by simp [prevI]
end Spq.CIR
