/-
  The in-place inverse DFT (`res == a_dft`) of the NTT120 module: one buffer of 64-bit cells.
  Step `i` reads cells `[4N·i, 4N·(i+1))` and writes cells `[2N·i, 2N·(i+1))`; since `2N·(i+1) ≤ 4N·(i+1)` every step
  reads cells no earlier step has written, so the loop computes what the disjoint call computes (`runG_inv`).
-/
import SpqProofs.Lemmas.NttModLimb
import Mathlib.Tactic.Ring

namespace Spq.ModuleNtt
open Spq Spq.Q120 Spq.Q120Ntt

/-! ### 128-bit values as two cells -/

theorem readBig_of_cells (buf : Array Nat) (c : Nat) (z : Int)
    (h0 : buf.getD (2 * c) 0 = lo128 z) (h1 : buf.getD (2 * c + 1) 0 = hi128 z)
    (hz1 : -170141183460469231731687303715884105728 ≤ z) (hz2 : z < 170141183460469231731687303715884105728) :
    readBig buf c = z := by
  unfold readBig
  rw [h0, h1]
  unfold lo128 hi128 wrapS128
  omega

@[simp] theorem size_writeBig (buf : Array Nat) (off : Nat) (r : Array Int) : (writeBig buf off r).size = buf.size := by
  simp [writeBig]

theorem getD_writeBig_in (buf : Array Nat) (off : Nat) (r : Array Int) (c : Nat) (hc : c < 2 * r.size)
    (hsz : off + c < buf.size) :
    (writeBig buf off r).getD (off + c) 0 = if c % 2 = 0 then lo128 (r.getD (c / 2) 0) else hi128 (r.getD (c / 2) 0) := by
  unfold writeBig
  rw [getD_ofFn' _ _ _ hsz]
  simp only [Nat.add_sub_cancel_left]
  rw [if_pos ⟨Nat.le_add_right _ _, by omega⟩]

theorem getD_writeBig_out (buf : Array Nat) (off : Nat) (r : Array Int) (c : Nat)
    (hc : c < off ∨ off + 2 * r.size ≤ c) : (writeBig buf off r).getD c 0 = buf.getD c 0 := by
  by_cases hsz : c < buf.size
  · unfold writeBig
    rw [getD_ofFn' _ _ _ hsz]
    simp only []
    rw [if_neg (by omega)]
  · rw [getD_of_size_le _ _ _ (by rw [size_writeBig]; omega), getD_of_size_le _ _ _ (by omega)]

@[simp] theorem size_zeroCells (buf : Array Nat) (off len : Nat) : (zeroCells buf off len).size = buf.size := by
  simp [zeroCells]

theorem getD_zeroCells (buf : Array Nat) (off len c : Nat) :
    (zeroCells buf off len).getD c 0 = if off ≤ c ∧ c < off + len then 0 else buf.getD c 0 := by
  by_cases hsz : c < buf.size
  · unfold zeroCells
    rw [getD_ofFn' _ _ _ hsz]
  · rw [getD_of_size_le _ _ _ (by rw [size_zeroCells]; omega), getD_of_size_le _ _ _ (by omega)]
    split <;> rfl

theorem getD_cellsOfBig (r : Array Int) (c : Nat) (hc : c < 2 * r.size) :
    (cellsOfBig r).getD c 0 = if c % 2 = 0 then lo128 (r.getD (c / 2) 0) else hi128 (r.getD (c / 2) 0) := by
  unfold cellsOfBig
  rw [getD_ofFn' _ _ _ hc]

/-! ### the loop, for any limb function `f` producing `N` values from `4N` cells -/

/-- loop body: read cells `[4N·i, 4N·i + 4N)`, write cells `[2N·i, 2N·i + 2N)` -/
def stepG (N : Nat) (f : Array Nat → Array Int) (buf : Array Nat) (i : Nat) : Array Nat :=
  writeBig buf (2 * N * i) (f (cellsAt buf (2 * N * i + 2 * N * i) (2 * N + 2 * N)))

def runG (N : Nat) (f : Array Nat → Array Int) (buf : Array Nat) (i : Nat) : Array Nat :=
  (List.range i).foldl (stepG N f) buf

theorem runG_succ (N : Nat) (f : Array Nat → Array Int) (buf : Array Nat) (i : Nat) :
    runG N f buf (i + 1) = stepG N f (runG N f buf i) i := by
  simp [runG, List.range_succ]

/-- after `i` steps: cells `≥ 2N·i` are untouched (in particular all unread DFT limbs), and the `i` results are in
    place -/
theorem runG_inv (N : Nat) (f : Array Nat → Array Int) (hf : ∀ c, (f c).size = N) (buf : Array Nat) (i : Nat)
    (hi : 2 * N * i ≤ buf.size) :
    (runG N f buf i).size = buf.size ∧
    (∀ c, 2 * N * i ≤ c → (runG N f buf i).getD c 0 = buf.getD c 0) ∧
    (∀ i' < i, ∀ c < 2 * N, (runG N f buf i).getD (2 * N * i' + c) 0
        = (cellsOfBig (f (cellsAt buf (2 * N * i' + 2 * N * i') (2 * N + 2 * N)))).getD c 0) := by
  induction i with
  | zero => exact ⟨rfl, fun _ _ => rfl, fun _ h => absurd h (Nat.not_lt_zero _)⟩
  | succ i ih =>
    have hs : 2 * N * (i + 1) = 2 * N * i + 2 * N := Nat.mul_succ _ _
    obtain ⟨h1, h2, h3⟩ := ih (by omega)
    have hR : cellsAt (runG N f buf i) (2 * N * i + 2 * N * i) (2 * N + 2 * N)
        = cellsAt buf (2 * N * i + 2 * N * i) (2 * N + 2 * N) :=
      cellsAt_congr _ _ _ _ (fun t _ => h2 _ (by omega))
    rw [runG_succ]
    unfold stepG
    rw [hR]
    refine ⟨by rw [size_writeBig, h1], ?_, ?_⟩
    · intro c hc
      rw [getD_writeBig_out _ _ _ _ (Or.inr (by rw [hf]; omega))]
      exact h2 c (by omega)
    · intro i' hi' c hc
      rcases Nat.lt_succ_iff_lt_or_eq.1 hi' with hlt | rfl
      · have : 2 * N * i' + c < 2 * N * i := idx_lt hlt hc
        rw [getD_writeBig_out _ _ _ _ (Or.inl this)]
        exact h3 i' hlt c hc
      · rw [getD_writeBig_in _ _ _ _ (by rw [hf]; exact hc) (by rw [h1]; omega),
          getD_cellsOfBig _ _ (by rw [hf]; exact hc)]

/-! ### `vecIdftInplace` -/

theorem idftInplaceStep_eq (M : ModPre) : idftInplaceStep M = stepG M.nn (idftLimb M) := by
  funext buf i
  unfold idftInplaceStep stepG
  have e1 : 4 * M.nn * i = 2 * M.nn * i + 2 * M.nn * i := by ring
  have e2 : 4 * M.nn = 2 * M.nn + 2 * M.nn := by ring
  rw [e1, e2]

/-- an inverse-transformed coefficient fits an `__int128_t` -/
theorem idftLimb_i128 (M : ModPre) (ok : crtOK M.P = true) (c : Array Nat) (t : Nat) (ht : t < 2 ^ M.k) :
    -170141183460469231731687303715884105728 ≤ (idftLimb M c).getD t 0
    ∧ (idftLimb M c).getD t 0 < 170141183460469231731687303715884105728 := by
  obtain ⟨h1, h2⟩ := idftLimb_centered M ok c t ht
  obtain ⟨_, hQ⟩ := crtOK_Q M.P ok
  generalize bigQN M.P = Q at *
  omega

/-- **in place = out of place**: after `vec_znx_idft(module, buf, res_size, buf, a_size, tmp)` on a buffer holding at
    least the `res_size` result limbs, the buffer read as 128-bit integers holds exactly what the disjoint call returns
    for the original content of the buffer -/
theorem readBig_vecIdftInplace (M : ModPre) (ok : crtOK M.P = true) (r s : Nat) (buf : Array Nat)
    (hsz : 2 * 2 ^ M.k * r ≤ buf.size) (i t : Nat) (hi : i < r) (ht : t < 2 ^ M.k) :
    readBig (vecIdftInplace M r s buf) (2 ^ M.k * i + t) = (vecIdft M r buf s).getD (2 ^ M.k * i + t) 0 := by
  have hN : M.nn = 2 ^ M.k := rfl
  rw [getD_vecIdft M r buf s i t hi ht]
  unfold vecIdftInplace
  simp only []
  rw [idftInplaceStep_eq, show (List.range (min r s)).foldl (stepG M.nn (idftLimb M)) buf
    = runG M.nn (idftLimb M) buf (min r s) from rfl, hN]
  have hle : 2 * 2 ^ M.k * min r s ≤ 2 * 2 ^ M.k * r := Nat.mul_le_mul_left _ (Nat.min_le_left _ _)
  obtain ⟨h1, h2, h3⟩ := runG_inv (2 ^ M.k) (idftLimb M) (fun c => size_idftLimb M c) buf (min r s) (by omega)
  have e0 : 2 * (2 ^ M.k * i + t) = 2 * 2 ^ M.k * i + 2 * t := by ring
  have e1 : 2 * (2 ^ M.k * i + t) + 1 = 2 * 2 ^ M.k * i + (2 * t + 1) := by ring
  have hidx : 2 * 2 ^ M.k * i + (2 * t + 1) < 2 * 2 ^ M.k * r := idx_lt hi (by omega)
  by_cases him : i < min r s
  · rw [if_pos him]
    have hlt : 2 * 2 ^ M.k * i + (2 * t + 1) < 2 * 2 ^ M.k * min r s := idx_lt him (by omega)
    have e4 : 4 * 2 ^ M.k * i = 2 * 2 ^ M.k * i + 2 * 2 ^ M.k * i := by ring
    have e5 : 4 * 2 ^ M.k = 2 * 2 ^ M.k + 2 * 2 ^ M.k := by ring
    rw [e4, e5]
    obtain ⟨z1, z2⟩ := idftLimb_i128 M ok (cellsAt buf (2 * 2 ^ M.k * i + 2 * 2 ^ M.k * i) (2 * 2 ^ M.k + 2 * 2 ^ M.k)) t ht
    apply readBig_of_cells _ _ _ _ _ z1 z2
    · rw [e0, getD_zeroCells, if_neg (by omega), h3 i him (2 * t) (by omega),
        getD_cellsOfBig _ _ (by rw [size_idftLimb]; omega)]
      have : 2 * t % 2 = 0 := by omega
      have d : 2 * t / 2 = t := by omega
      rw [if_pos this, d]
    · rw [e1, getD_zeroCells, if_neg (by omega), h3 i him (2 * t + 1) (by omega),
        getD_cellsOfBig _ _ (by rw [size_idftLimb]; omega)]
      have : ¬ (2 * t + 1) % 2 = 0 := by omega
      have d : (2 * t + 1) / 2 = t := by omega
      rw [if_neg this, d]
  · rw [if_neg him]
    have hge : 2 * 2 ^ M.k * min r s ≤ 2 * 2 ^ M.k * i := Nat.mul_le_mul_left _ (by omega)
    have hsum : 2 * 2 ^ M.k * min r s + 2 * 2 ^ M.k * (r - min r s) = 2 * 2 ^ M.k * r := by
      rw [← Nat.mul_add]; congr 1; have := Nat.min_le_left r s; omega
    apply readBig_of_cells _ _ 0
    · rw [e0, getD_zeroCells, if_pos ⟨by omega, by omega⟩]; rfl
    · rw [e1, getD_zeroCells, if_pos ⟨by omega, by omega⟩]; rfl
    · decide
    · decide

/-- frame: the in-place call does not touch the cells behind the `res_size` result limbs (leftover DFT limbs) -/
theorem vecIdftInplace_frame (M : ModPre) (r s : Nat) (buf : Array Nat) (hsz : 2 * 2 ^ M.k * r ≤ buf.size)
    (c : Nat) (hc : 2 * 2 ^ M.k * r ≤ c) :
    (vecIdftInplace M r s buf).size = buf.size ∧ (vecIdftInplace M r s buf).getD c 0 = buf.getD c 0 := by
  have hN : M.nn = 2 ^ M.k := rfl
  unfold vecIdftInplace
  simp only []
  rw [idftInplaceStep_eq, show (List.range (min r s)).foldl (stepG M.nn (idftLimb M)) buf
    = runG M.nn (idftLimb M) buf (min r s) from rfl, hN]
  have hle : 2 * 2 ^ M.k * min r s ≤ 2 * 2 ^ M.k * r := Nat.mul_le_mul_left _ (Nat.min_le_left _ _)
  obtain ⟨h1, h2, _⟩ := runG_inv (2 ^ M.k) (idftLimb M) (fun c => size_idftLimb M c) buf (min r s) (by omega)
  have hsum : 2 * 2 ^ M.k * min r s + 2 * 2 ^ M.k * (r - min r s) = 2 * 2 ^ M.k * r := by
    rw [← Nat.mul_add]; congr 1; have := Nat.min_le_left r s; omega
  refine ⟨by rw [size_zeroCells, h1], ?_⟩
  rw [getD_zeroCells, if_neg (by omega)]
  exact h2 c (by omega)

end Spq.ModuleNtt
