/-
  C01 rounding budget: the domain side condition of the final conversion follows from the property's own
  precondition `min(‖a‖₁·‖b‖∞, ‖a‖∞·‖b‖₁) < 2^52` (for the kernels the module installs: `ref`, `bnd63`), `k ≤ 16`:
  `|c_i| < 2^52` and `E' ≤ 12·17·2^-53·2·N·2^52 < 2^25`.
-/
import SpqProofs.Lemmas.ProdErrFinal
import SpqProofs.Lemmas.ProdErrBound
set_option linter.unusedSectionVars false
namespace Spq.ProdErr
open Finset Spq Spq.Module Spq.F64 Spq.Conv
variable {K : Type} [Field K] [LinearOrder K] [IsStrictOrderedRing K]

theorem Bv_63 (v : ToZnx64Variant) (hv : v ≠ .bnd50) : Bv v = 9223372036854775808 := by
  cases v
  · rfl
  · exact absurd rfl hv
  · rfl

theorem hdom_of_budget52 (c : Cfg) (k : ℕ) (hk : k ≤ 16) (hvar : c.toVariant ≠ .bnd50) (a b : Array Int)
    (na nb ba bb : K) (hna0 : 0 ≤ na) (hnb0 : 0 ≤ nb)
    (hnla : na ≤ n1 K a (2 * 2 ^ k)) (hnlb : nb ≤ n1 K b (2 * 2 ^ k))
    (ha : ∀ t, t < 2 * 2 ^ k → |((a.getD t 0 : Int) : K)| ≤ ba)
    (hb : ∀ t, t < 2 * 2 ^ k → |((b.getD t 0 : Int) : K)| ≤ bb)
    (hbud : min (n1 K a (2 * 2 ^ k) * bb) (ba * n1 K b (2 * 2 ^ k)) < 4503599627370496) :
    ∀ i, i < 2 * 2 ^ k →
      |(((nmul (2 * 2 ^ k) a b).getD i 0 : Int) : K)| +
        ((12 * (k + 1 : ℚ) * u64 : ℚ) : K) * (n1 K a (2 * 2 ^ k) * nb + na * n1 K b (2 * 2 ^ k))
        < ((Bv c.toVariant : ℚ) : K) := by
  intro i hi
  rw [Bv_63 _ hvar]
  obtain ⟨la, hla⟩ : ∃ la, la = n1 K a (2 * 2 ^ k) := ⟨_, rfl⟩
  obtain ⟨lb, hlb⟩ : ∃ lb, lb = n1 K b (2 * 2 ^ k) := ⟨_, rfl⟩
  have hla0 : 0 ≤ la := by rw [hla]; exact sum_nonneg (fun _ _ => abs_nonneg _)
  have hlb0 : 0 ≤ lb := by rw [hlb]; exact sum_nonneg (fun _ _ => abs_nonneg _)
  have hc := nmul_coef_le (K := K) (2 * 2 ^ k) i hi a b ba bb ha hb
  have h1a := n1_le (K := K) (2 * 2 ^ k) a ba ha
  have h1b := n1_le (K := K) (2 * 2 ^ k) b bb hb
  rw [show ∑ t ∈ range (2 * 2 ^ k), |((a.getD t 0 : Int) : K)| = la from hla.symm] at hc h1a
  rw [show ∑ t ∈ range (2 * 2 ^ k), |((b.getD t 0 : Int) : K)| = lb from hlb.symm] at hc h1b
  rw [← hla] at hbud hnla ⊢
  rw [← hlb] at hbud hnlb ⊢
  obtain ⟨mn, hmn⟩ : ∃ mn, mn = min (la * bb) (ba * lb) := ⟨_, rfl⟩
  rw [← hmn] at hbud hc
  have hN : ((2 * 2 ^ k : ℕ) : K) ≤ 131072 := by
    have : 2 * 2 ^ k ≤ 131072 := by
      calc 2 * 2 ^ k ≤ 2 * 2 ^ 16 := Nat.mul_le_mul_left _ (Nat.pow_le_pow_right (by norm_num) hk)
        _ = 131072 := by norm_num
    exact_mod_cast this
  have hN0 : (0 : K) ≤ ((2 * 2 ^ k : ℕ) : K) := by positivity
  -- la * lb ≤ N * mn
  have hprod : la * lb ≤ ((2 * 2 ^ k : ℕ) : K) * mn := by
    rw [hmn, mul_min_of_nonneg _ _ hN0]
    apply le_min
    · calc la * lb ≤ la * (((2 * 2 ^ k : ℕ) : K) * bb) := mul_le_mul_of_nonneg_left h1b hla0
        _ = _ := by ring
    · calc la * lb ≤ (((2 * 2 ^ k : ℕ) : K) * ba) * lb := mul_le_mul_of_nonneg_right h1a hlb0
        _ = _ := by ring
  have hmn0 : 0 ≤ mn := le_trans (abs_nonneg _) hc
  have hS : la * nb + na * lb ≤ 2 * (131072 * 4503599627370496) := by
    have e1 : la * nb ≤ la * lb := mul_le_mul_of_nonneg_left hnlb hla0
    have e2 : na * lb ≤ la * lb := mul_le_mul_of_nonneg_right hnla hlb0
    have e3 : ((2 * 2 ^ k : ℕ) : K) * mn ≤ 131072 * 4503599627370496 :=
      mul_le_mul hN (le_of_lt hbud) hmn0 (by norm_num)
    linarith
  have hcoef : ((12 * (k + 1 : ℚ) * u64 : ℚ) : K) ≤ 204 / 9007199254740992 := by
    have : (12 * (k + 1 : ℚ) * u64 : ℚ) ≤ 204 / 9007199254740992 := by
      have hkq : (k : ℚ) ≤ 16 := by exact_mod_cast hk
      unfold u64
      rw [show (2 : ℚ) ^ (-53 : ℤ) = 1 / 9007199254740992 by norm_num]
      linarith
    have := (Rat.cast_le (K := K)).2 this
    refine le_trans this (le_of_eq ?_)
    push_cast; rfl
  have hcoef0 : (0 : K) ≤ ((12 * (k + 1 : ℚ) * u64 : ℚ) : K) := by
    have : (0 : ℚ) ≤ 12 * (k + 1 : ℚ) * u64 := by unfold u64; positivity
    exact_mod_cast this
  have hS0 : 0 ≤ la * nb + na * lb := by positivity
  have hE : ((12 * (k + 1 : ℚ) * u64 : ℚ) : K) * (la * nb + na * lb) ≤
      204 / 9007199254740992 * (2 * (131072 * 4503599627370496)) := mul_le_mul hcoef hS hS0 (by norm_num)
  have h63 : ((9223372036854775808 : ℚ) : K) = 9223372036854775808 := by push_cast; rfl
  rw [h63]
  have : (204 : K) / 9007199254740992 * (2 * (131072 * 4503599627370496)) = 26738688 := by norm_num
  rw [this] at hE
  linarith

end Spq.ProdErr
