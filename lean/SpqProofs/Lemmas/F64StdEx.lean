/-
  A concrete instance for the binary64 dot-product theorems: one row, `u = 3 + i`, `v = 2 + i` in every lane
  (`u·v = 5 + 5i`); all partial results are small integers, hence in the normal range.
-/
import SpqProofs.Lemmas.F64StdDot
import SpqProofs.Lemmas.F64StdInt
namespace Spq.F64
open Spq.Reim4

/-- `u = (3 + i, 3 + i, 3 + i, 3 + i)`, one row -/
def exU : Array Nat := #[4613937818241073152, 4613937818241073152, 4613937818241073152, 4613937818241073152,
         4607182418800017408, 4607182418800017408, 4607182418800017408, 4607182418800017408]
/-- `v = (2 + i, …)` -/
def exV : Array Nat := #[4611686018427387904, 4611686018427387904, 4611686018427387904, 4611686018427387904,
         4607182418800017408, 4607182418800017408, 4607182418800017408, 4607182418800017408]

theorem ex_ref_ok : Ok ((vecMat1colProductRef arithOk 1 ((Array.replicate 8 0).map lift) (exU.map lift) (exV.map lift)).getD 0 (lift 0)) := by
  unfold vecMat1colProductRef
  simp only [Nat.fold_succ, Nat.fold_zero]
  obtain ⟨z1, z2, _⟩ := zeroAt_spec arithOk ((Array.replicate 8 0).map lift) 0 (by simp)
  generalize zeroAt arithOk ((Array.replicate 8 0).map lift) 0 = Z at *
  obtain ⟨_, t2, _⟩ := addMulAt_spec arithOk Z 0 (exU.map lift) (8 * 0) (exV.map lift) (8 * 0) (by rw [z1]; simp)
  have a := (t2 0 (by omega)).1
  have b := z2 0 (by omega)
  simp only [Nat.add_zero, Nat.zero_add, Nat.mul_zero] at a b
  change Ok (Array.getD _ 0 arithOk.zero)
  rw [a, b]
  clear a b t2 z2 z1
  have g0 : (exU.map lift).getD 0 arithOk.zero = lift 4613937818241073152 := getD_map lift exU 0 0
  have g1 : (exU.map lift).getD 4 arithOk.zero = lift 4607182418800017408 := getD_map lift exU 4 0
  have g2 : (exV.map lift).getD 0 arithOk.zero = lift 4611686018427387904 := getD_map lift exV 0 0
  have g3 : (exV.map lift).getD 4 arithOk.zero = lift 4607182418800017408 := getD_map lift exV 4 0
  rw [g0, g1, g2, g3]
  constructor
  have p1 : (4607182418800017408 : Nat) = ofInt 1 := by decide +kernel
  have p2 : (4611686018427387904 : Nat) = ofInt 2 := by decide +kernel
  have p3 : (4613937818241073152 : Nat) = ofInt 3 := by decide +kernel
  have m1 : F64.mul 4613937818241073152 4611686018427387904 = ofInt 6 := by decide +kernel
  have m2 : F64.mul 4607182418800017408 4607182418800017408 = ofInt 1 := by decide +kernel
  have s1 : F64.sub (ofInt 6) (ofInt 1) = ofInt 5 := by decide +kernel
  have v1 : val (ofInt 1) = ((1 : ℤ) : ℚ) := val_ofInt (by decide)
  have v2 : val (ofInt 2) = ((2 : ℤ) : ℚ) := val_ofInt (by decide)
  have v3 : val (ofInt 3) = ((3 : ℤ) : ℚ) := val_ofInt (by decide)
  have v5 : val (ofInt 5) = ((5 : ℤ) : ℚ) := val_ofInt (by decide)
  have v6 : val (ofInt 6) = ((6 : ℤ) : ℚ) := val_ofInt (by decide)
  simp only [reRef, arithOk_add_snd, arithOk_sub_snd, arithOk_mul_snd, arithOk_sub_fst, arithOk_mul_fst,
    arithOk_zero, lift_fst, lift_snd]
  rw [m1, m2, s1, p1, p2, p3, v1, v2, v3, v5, v6, val_zero]
  refine ⟨by decide, ⟨⟨by decide, by decide, ?_⟩, ⟨by decide, by decide, ?_⟩, ?_⟩, ?_⟩
  · rw [← Int.cast_mul]; exact normalRange_int _ (by decide)
  · rw [← Int.cast_mul]; exact normalRange_int _ (by decide)
  · rw [← Int.cast_sub]; exact normalRange_int _ (by decide)
  · rw [zero_add]; exact normalRange_int _ (by decide)
theorem ex_avx2_ok : Ok ((vecMat1colProductAvx2 arithOk 1 ((Array.replicate 8 0).map lift) (exU.map lift) (exV.map lift)).getD 0 (lift 0)) := by
  have c := (mat1colAvx2_cells arithOk 1 ((Array.replicate 8 0).map lift) (exU.map lift) (exV.map lift) (by simp) 0 (by omega)).1
  change Ok (Array.getD _ 0 arithOk.zero)
  rw [c]
  simp only [fmaChain, Nat.mul_zero, Nat.add_zero, Nat.zero_add]
  have g0 : (exU.map lift).getD 0 arithOk.zero = lift 4613937818241073152 := getD_map lift exU 0 0
  have g1 : (exU.map lift).getD 4 arithOk.zero = lift 4607182418800017408 := getD_map lift exU 4 0
  have g2 : (exV.map lift).getD 0 arithOk.zero = lift 4611686018427387904 := getD_map lift exV 0 0
  have g3 : (exV.map lift).getD 4 arithOk.zero = lift 4607182418800017408 := getD_map lift exV 4 0
  rw [g0, g1, g2, g3]
  constructor
  have p1 : (4607182418800017408 : Nat) = ofInt 1 := by decide +kernel
  have p2 : (4611686018427387904 : Nat) = ofInt 2 := by decide +kernel
  have p3 : (4613937818241073152 : Nat) = ofInt 3 := by decide +kernel
  have m1 : F64.fma 4613937818241073152 4611686018427387904 0 = ofInt 6 := by decide +kernel
  have m2 : F64.fma 4607182418800017408 4607182418800017408 0 = ofInt 1 := by decide +kernel
  have v1 : val (ofInt 1) = ((1 : ℤ) : ℚ) := val_ofInt (by decide)
  have v2 : val (ofInt 2) = ((2 : ℤ) : ℚ) := val_ofInt (by decide)
  have v3 : val (ofInt 3) = ((3 : ℤ) : ℚ) := val_ofInt (by decide)
  have v6 : val (ofInt 6) = ((6 : ℤ) : ℚ) := val_ofInt (by decide)
  simp only [arithOk_sub_snd, arithOk_fma_snd, arithOk_fma_fst, arithOk_zero, lift_fst, lift_snd]
  rw [m1, m2, p1, p2, p3, v1, v2, v3, v6, val_zero]
  refine ⟨⟨by decide, by decide, by decide, ?_⟩, ⟨by decide, by decide, by decide, ?_⟩, ?_⟩
  · rw [add_zero, ← Int.cast_mul]; exact normalRange_int _ (by decide)
  · rw [add_zero, ← Int.cast_mul]; exact normalRange_int _ (by decide)
  · rw [← Int.cast_sub]; exact normalRange_int _ (by decide)

end Spq.F64
