/-
  Non-vacuity witness, part 5: the concrete instance `N = 8` (`k = 2`, `m = 4`), `K = ℝ`.

  * `libC8`: the configuration that `new_module_info(8, FFT64)` installs on an AVX2/FMA machine (read from the running
    library): `reim_fft_avx2_fma`, `reim_ifft_avx2_fma`, plain conversions (`ref`), FMA `mul`/`addmul`, AVX vmp; tables =
    the stored patterns of `ErrWitnessTable`.  `libCfgOk`: it satisfies `CfgOk` (and `VCfgOk`) with `cN sN cNi sNi`.
  * `exA8 = 3 − X + 4X² + X³ − 5X⁴ + 9X⁵ + 2X⁶ − 6X⁷`, `exB8 = 2 + 7X − X² + 8X³ + 2X⁴ − 8X⁵ + X⁶ + 8X⁷`;
    the library returns `exA8 ⊛ exB8 = [0, −94, 111, 114, −131, −22, 147, −54]` (`fft64_znx_small_single_product`).
  * `libPipeOk`: all flags of the four flagged stage runs, by `decide +kernel` on the Boolean-flag run.
-/
import SpqProofs.Lemmas.ErrWitnessXfer
import SpqProofs.Lemmas.ErrWitnessTable
import SpqProofs.Lemmas.VmpErrCol
set_option linter.unusedSectionVars false
namespace Spq.ErrWitness
open Finset Spq Spq.Module Spq.Fft Spq.Fft.Alg Spq.Fft.SchedN Spq.FftErr Spq.F64 Spq.ProdErr Spq.Conv Spq.VmpErr

/-- what the library installs for `N = 8` -/
def libC8 : Cfg where
  nn := 8
  fftFma := true
  ifftFma := true
  fromBnd50 := false
  toVariant := ToZnx64Variant.ref
  mulFma := true
  addmulFma := true
  vmpAvx := true
  fftT := #[4604544271217802189, 4604544271217802188, 4606496786581982534, 4600565431771507043]
  ifftT := #[4606496786581982534, 13823937468626282851, 4604544271217802189, 13827916308072577996]

theorem libCfgOk : CfgOk libC8 2 cN sN cNi sNi :=
  ⟨rfl, by unfold tabF; exact tabF_lib.symm, by unfold tabI; exact tabI_lib.symm, fun _ => le_refl 2, by decide, by decide⟩

theorem libVCfgOk : VCfgOk libC8 2 cN sN cNi sNi := ⟨libCfgOk, fun _ => le_refl 2⟩

def exA8 : Array Int := #[3, -1, 4, 1, -5, 9, 2, -6]
def exB8 : Array Int := #[2, 7, -1, 8, 2, -8, 1, 8]

/-- the doubles `3, −1, 4, 1, −5, 9, 2, −6` (reim layout: `3 − 5i, −1 + 9i, 4 + 2i, 1 − 6i`) -/
def exD8 : Array ℕ := #[4613937818241073152, 13830554455654793216, 4616189618054758400, 4607182418800017408,
  13840687554816376832, 4621256167635550208, 4611686018427387904, 13841813454723219456]

theorem exD8_size : exD8.size = 2 * 2 ^ 2 := rfl

theorem exD8_eq : (Cfg.parts libC8).fromZnx exA8 = exD8 := by decide +kernel

/-! ### flags of single transforms (both implementations) -/

theorem fwd_ok (fma : Bool) : ∀ p, p < 2 * 2 ^ 2 →
    ((reimFftA (famOf fma aOk) (2 ^ 2) ((((reimFftEnts (2 ^ 2)).map (valP cN sN)).toArray).map lift)
      (exD8.map lift))[p]!).2 := by
  cases fma
  · exact fft_flags_of_all (famOf false) (famOf_ok false) 2 cN sN exD8 rfl (by decide +kernel)
  · exact fft_flags_of_all (famOf true) (famOf_ok true) 2 cN sN exD8 rfl (by decide +kernel)

/-- input of the inverse-transform witness: the DFT-space product of the pipeline -/
def exI8 : Array ℕ := stM libC8 2 cN sN exA8 exB8

theorem exI8_size : exI8.size = 2 * 2 ^ 2 := by decide +kernel

theorem inv_ok (fma : Bool) : ∀ p, p < 2 * 2 ^ 2 →
    ((reimIfftA (ifamOf fma aOk) (2 ^ 2) ((((reimIfftEnts (2 ^ 2)).map (valP cNi sNi)).toArray).map lift)
      (exI8.map lift))[p]!).2 := by
  cases fma
  · exact ifft_flags_of_all (ifamOf false) (ifamOf_ok false) 2 cNi sNi exI8 exI8_size (by decide +kernel)
  · exact ifft_flags_of_all (ifamOf true) (ifamOf_ok true) 2 cNi sNi exI8 exI8_size (by decide +kernel)

/-! ### `PipeOk` -/

theorem lib_okA : ∀ p, p < 2 * 2 ^ 2 →
    ((reimFftA (famOf libC8.fftFma aOk) (2 ^ 2) ((((reimFftEnts (2 ^ 2)).map (valP cN sN)).toArray).map lift)
      (((Cfg.parts libC8).fromZnx exA8).map lift))[p]!).2 := by
  rw [exD8_eq]; exact fwd_ok true

theorem lib_okB : ∀ p, p < 2 * 2 ^ 2 →
    ((reimFftA (famOf libC8.fftFma aOk) (2 ^ 2) ((((reimFftEnts (2 ^ 2)).map (valP cN sN)).toArray).map lift)
      (((Cfg.parts libC8).fromZnx exB8).map lift))[p]!).2 :=
  fft_flags_of_all (famOf libC8.fftFma) (famOf_ok _) 2 cN sN ((Cfg.parts libC8).fromZnx exB8) (by decide +kernel)
    (by decide +kernel)

theorem lib_okM : ∀ p, p < 2 * 2 ^ 2 →
    ((mulA arithOk libC8.mulFma (2 ^ 2) ((stF libC8 2 cN sN exA8).map lift) ((stF libC8 2 cN sN exB8).map lift)).getD p
      arithOk.zero).2 :=
  mul_flags_of_all libC8.mulFma (2 ^ 2) (fun _ => rfl) (stF libC8 2 cN sN exA8) (stF libC8 2 cN sN exB8) (by decide +kernel)

theorem lib_okI : ∀ p, p < 2 * 2 ^ 2 →
    ((reimIfftA (ifamOf libC8.ifftFma aOk) (2 ^ 2) ((((reimIfftEnts (2 ^ 2)).map (valP cNi sNi)).toArray).map lift)
      ((stM libC8 2 cN sN exA8 exB8).map lift))[p]!).2 := inv_ok true

/-- **all flags of the four stages hold for this input** -/
theorem libPipeOk : PipeOk libC8 2 cN sN cNi sNi exA8 exB8 := ⟨lib_okA, lib_okB, lib_okM, lib_okI⟩

/-! ### the box and the norms: `‖a‖₁ = 31`, `‖a‖₂² = 173 ≤ 14²`, `‖b‖₁ = 37`, `‖b‖₂² = 251 ≤ 16²`, `16 ≤ 37` -/

theorem exA8_box : ∀ i, i < 2 * 2 ^ 2 → -1125899906842624 < exA8.getD i 0 ∧ exA8.getD i 0 < 1125899906842624 := by
  intro i hi
  have hi' : i < 8 := hi
  interval_cases i <;> decide

theorem exB8_box : ∀ i, i < 2 * 2 ^ 2 → -1125899906842624 < exB8.getD i 0 ∧ exB8.getD i 0 < 1125899906842624 := by
  intro i hi
  have hi' : i < 8 := hi
  interval_cases i <;> decide

theorem exA8_n2 : ∑ t ∈ range (2 * 2 ^ 2), ((exA8.getD t 0 : Int) : ℝ) ^ 2 ≤ 14 ^ 2 := by
  show ∑ t ∈ range 8, _ ≤ _
  simp [sum_range_succ, exA8]; norm_num

theorem exB8_n2 : ∑ t ∈ range (2 * 2 ^ 2), ((exB8.getD t 0 : Int) : ℝ) ^ 2 ≤ 16 ^ 2 := by
  show ∑ t ∈ range 8, _ ≤ _
  simp [sum_range_succ, exB8]; norm_num

theorem exA8_n1 : ∑ t ∈ range (2 * 2 ^ 2), |((exA8.getD t 0 : Int) : ℝ)| = 31 := by
  show ∑ t ∈ range 8, _ = _
  simp [sum_range_succ, exA8]; norm_num

theorem exB8_n1 : ∑ t ∈ range (2 * 2 ^ 2), |((exB8.getD t 0 : Int) : ℝ)| = 37 := by
  show ∑ t ∈ range 8, _ = _
  simp [sum_range_succ, exB8]; norm_num

/-- the budget: `12·3·2^-53·(31·16 + 14·37) = 36504·2^-53 < 1/2` -/
theorem ex_budget : ((12 * ((2 : ℕ) + 1 : ℚ) * u64 : ℚ) : ℝ) *
    ((∑ t ∈ range (2 * 2 ^ 2), |((exA8.getD t 0 : Int) : ℝ)|) * 16 + 14 * ∑ t ∈ range (2 * 2 ^ 2), |((exB8.getD t 0 : Int) : ℝ)|)
      < 1 / 2 := by
  rw [exA8_n1, exB8_n1]
  unfold u64; push_cast; norm_num

theorem ex_nmul : nmul (2 * 2 ^ 2) exA8 exB8 = #[0, -94, 111, 114, -131, -22, 147, -54] := by decide +kernel

/-- the domain of the final conversion (`Bv ref = 2^63`) -/
theorem ex_outdom : ∀ i, i < 2 * 2 ^ 2 →
    |(((nmul (2 * 2 ^ 2) exA8 exB8).getD i 0 : Int) : ℝ)| +
      ((12 * ((2 : ℕ) + 1 : ℚ) * u64 : ℚ) : ℝ) *
        ((∑ t ∈ range (2 * 2 ^ 2), |((exA8.getD t 0 : Int) : ℝ)|) * 16 + 14 * ∑ t ∈ range (2 * 2 ^ 2), |((exB8.getD t 0 : Int) : ℝ)|)
      < ((Bv libC8.toVariant : ℚ) : ℝ) := by
  intro i hi
  have hb : ((12 * ((2 : ℕ) + 1 : ℚ) * u64 : ℚ) : ℝ) *
        ((∑ t ∈ range (2 * 2 ^ 2), |((exA8.getD t 0 : Int) : ℝ)|) * 16 + 14 * ∑ t ∈ range (2 * 2 ^ 2), |((exB8.getD t 0 : Int) : ℝ)|)
      < 1 / 2 := ex_budget
  have hv : ((Bv libC8.toVariant : ℚ) : ℝ) = 9223372036854775808 := by
    show ((Bv ToZnx64Variant.ref : ℚ) : ℝ) = _
    unfold Bv; norm_num
  have hc : |(((nmul (2 * 2 ^ 2) exA8 exB8).getD i 0 : Int) : ℝ)| ≤ 147 := by
    rw [ex_nmul]
    have hi' : i < 8 := hi
    interval_cases i <;> simp <;> norm_num
  rw [hv]
  exact lt_trans (add_lt_add_of_le_of_lt hc hb) (by norm_num)

end Spq.ErrWitness
