/-
  C06.4: the `addsub(0, ω)` trick is exact on binary64: under the flags, `0 − ω` and `0 + ω` computed on bit patterns
  have the values `−ω`, `ω`; so the flagged `cfwdFma` / `cinvFma` are related to the `…Z` forms on guarded rationals.
-/
import SpqProofs.Lemmas.FftErrSchedCXfer
set_option linter.unusedSectionVars false
namespace Spq.FftErr
open Spq.Fft Spq.Fft.RelN Spq.F64

theorem relQ_zero : RelQ (lift 0) 0 := fun _ => ⟨fin64_zero, val_zero⟩

theorem arG_sub_zero (b : ℕ) (hb : Fin64 b) : arG.sub 0 (val b) = -val b := by
  have h : rnd (0 - val b) = 0 - val b := by
    rw [zero_sub, ← val_neg hb.1, rnd_val _ (fin64_neg hb)]
  show gd (GoodQ (0 - val b)) (rnd (0 - val b)) (0 - val b) = -val b
  unfold gd
  split
  · rw [h, zero_sub]
  · rw [zero_sub]

theorem arG_add_zero (b : ℕ) (hb : Fin64 b) : arG.add 0 (val b) = val b := by
  have h : rnd (0 + val b) = 0 + val b := by rw [zero_add, rnd_val _ hb]
  show gd (GoodQ (0 + val b)) (rnd (0 + val b)) (0 + val b) = val b
  unfold gd
  split
  · rw [h, zero_add]
  · rw [zero_add]

/-- `0 − ω` on flagged patterns has the value `−ω` -/
theorem zsub_rel {w : ℕ × Prop} {q : ℚ} (hw : RelQ w q) : RelQ (aOk.sub (lift 0) w) (aG.neg q) := by
  intro hf
  have hs := arithOk_sim_arG.sub relQ_zero hw hf
  have hw2 : w.2 := by
    have : (arithOk.sub (lift 0) w).2 = ((lift 0).2 ∧ w.2 ∧ NormalRange (val (lift 0).1 - val w.1)) :=
      arithOk_sub_snd _ _
    have hf' : (arithOk.sub (lift 0) w).2 := hf
    rw [this] at hf'
    exact hf'.2.1
  obtain ⟨fw, rfl⟩ := hw hw2
  exact ⟨hs.1, hs.2.trans (arG_sub_zero w.1 fw)⟩

/-- `0 + ω` on flagged patterns has the value `ω` -/
theorem zadd_rel {w : ℕ × Prop} {q : ℚ} (hw : RelQ w q) : RelQ (aOk.add (lift 0) w) q := by
  intro hf
  have hs := arithOk_sim_arG.add relQ_zero hw hf
  have hw2 : w.2 := by
    have : (arithOk.add (lift 0) w).2 = ((lift 0).2 ∧ w.2 ∧ NormalRange (val (lift 0).1 + val w.1)) :=
      arithOk_add_snd _ _
    have hf' : (arithOk.add (lift 0) w).2 := hf
    rw [this] at hf'
    exact hf'.2.1
  obtain ⟨fw, rfl⟩ := hw hw2
  exact ⟨hs.1, hs.2.trans (arG_add_zero w.1 fw)⟩

theorem ctFmaC_simZ : BfSim RelQ (ctFmaC aOk (lift 0)) (ctFmaZ aG) := by
  intro ra ra' ia ia' rb rb' ib ib' wr wr' wi wi' h1 h2 h3 h4 h5 h6
  have h := aOk_sim_aG
  have nr := h.fma h4 (zsub_rel h6) (h.mul h3 h5)
  have ni := h.fma h3 (zadd_rel h6) (h.mul h4 h5)
  exact ⟨h.add h1 nr, h.add h2 ni, h.sub h1 nr, h.sub h2 ni⟩

theorem ictFmaC_simZ : BfSim RelQ (ictFmaC aOk (lift 0)) (ictFmaZ aG) := by
  intro ra ra' ia ia' rb rb' ib ib' wr wr' wi wi' h1 h2 h3 h4 h5 h6
  have h := aOk_sim_aG
  have rd := h.sub h1 h3
  have id := h.sub h2 h4
  exact ⟨h.add h1 h3, h.add h2 h4, h.fma id (zsub_rel h6) (h.mul rd h5), h.fma rd (zadd_rel h6) (h.mul id h5)⟩

theorem cfwdFma_simZ : CFlavSim RelQ (cfwdFma aOk (lift 0)) (cfwdFmaZ aG) :=
  ⟨ctFmaC_simZ, ctFma_sim aOk_sim_aG, lastFma_sim aOk_sim_aG, fwdFma_sim aOk_sim_aG⟩

theorem cinvFma_simZ : CFlavSim RelQ (cinvFma aOk (lift 0)) (cinvFmaZ aG) :=
  ⟨ictFmaC_simZ, ictFmaC_simZ, ofBf_sim (ictFma_sim aOk_sim_aG), invFma_sim aOk_sim_aG⟩

end Spq.FftErr
