/-
  C06.4: binary64 instances for the FFT arithmetic record: the bit-level `f64`, the flagged arithmetic `aOk`
  (flag = "every operation so far had finite operands and an exact result in the normal range"), the guarded
  rational arithmetic `aG`; and law-free versions of the flat-vector API lemmas.
-/
import SpqProofs.Lemmas.FftErrSchedNet
import SpqProofs.Lemmas.F64StdDot
set_option linter.unusedSectionVars false
namespace Spq.FftErr
open Spq.Fft Spq.Fft.RelN Spq.F64

/-- flagged binary64 for the FFT record (negation is exact and keeps the flag) -/
def aOk : Arith (Nat × Prop) :=
  ⟨arithOk.add, arithOk.sub, arithOk.mul, fun x => (F64.neg x.1, x.2), arithOk.fma, arithOk.fms⟩

/-- guarded rational binary64 for the FFT record -/
noncomputable def aG : Arith ℚ := ofRArith arG

theorem aG_fstd : FStd aG u64 := fstd_of_stdModel arG_stdModel

/-- forgetting the flag gives the bit-level arithmetic -/
theorem aOk_sim_f64 : ASim (fun (x : Nat × Prop) (b : Nat) => x.1 = b) aOk f64 where
  add := fun h1 h2 => by subst h1 h2; rfl
  sub := fun h1 h2 => by subst h1 h2; rfl
  mul := fun h1 h2 => by subst h1 h2; rfl
  neg := fun h1 => by subst h1; rfl
  fma := fun h1 h2 h3 => by subst h1 h2 h3; rfl
  fms := fun h1 h2 h3 => by subst h1 h2 h3; rfl

/-- under the flag: finite, and the value is the one computed by the guarded rational arithmetic -/
theorem aOk_sim_aG : ASim RelQ aOk aG where
  add := fun h1 h2 => arithOk_sim_arG.add h1 h2
  sub := fun h1 h2 => arithOk_sim_arG.sub h1 h2
  mul := fun h1 h2 => arithOk_sim_arG.mul h1 h2
  neg := by
    intro a a' h1 hf
    obtain ⟨fa, rfl⟩ := h1 hf
    exact ⟨fin64_neg fa, val_neg fa.1⟩
  fma := fun h1 h2 h3 => arithOk_sim_arG.fma h1 h2 h3
  fms := fun h1 h2 h3 => arithOk_sim_arG.fms h1 h2 h3

theorem aG_neg (q : ℚ) : aG.neg q = -q := rfl

/-! ### flat reim vector, law-free -/
section api
variable {R : Type} [Inhabited R]
open Spq.Fft.Sim

theorem splitRI_validN (m : ℕ) (data : Array R) (h : data.size = 2 * m) : Valid m (splitRI m data) := by
  constructor <;> simp [splitRI, h] <;> omega

theorem splitRI_reN (m : ℕ) (data : Array R) (h : data.size = 2 * m) (p : ℕ) (hp : p < m) :
    (splitRI m data).re[p]! = data[p]! := by
  simp only [splitRI, getElem!_def]
  rw [Array.getElem?_extract]
  simp [hp, h]; rw [if_pos (by omega)]

theorem splitRI_imN (m : ℕ) (data : Array R) (h : data.size = 2 * m) (p : ℕ) (hp : p < m) :
    (splitRI m data).im[p]! = data[m + p]! := by
  simp only [splitRI, getElem!_def]
  rw [Array.getElem?_extract]
  simp [h]; rw [if_pos (by omega)]

theorem joinRI_reN (m : ℕ) (s : RI R) (hs : Valid m s) (p : ℕ) (hp : p < m) : (joinRI s)[p]! = s.re[p]! := by
  simp only [joinRI, getElem!_def]
  rw [Array.getElem?_append_left (by rw [hs.1]; exact hp)]

theorem joinRI_imN (m : ℕ) (s : RI R) (hs : Valid m s) (p : ℕ) (_hp : p < m) : (joinRI s)[m + p]! = s.im[p]! := by
  simp only [joinRI, getElem!_def]
  rw [Array.getElem?_append_right (by rw [hs.1]; omega), hs.1]
  simp

theorem getElem!_map {S : Type} [Inhabited S] (f : R → S) (a : Array R) (p : ℕ) (hp : p < a.size) :
    (a.map f)[p]! = f a[p]! := by
  simp [hp]

end api
end Spq.FftErr
