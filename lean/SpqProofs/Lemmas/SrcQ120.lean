/-
  Source tie of the q120 reference arithmetic (`Properties/SrcQ120.lean`): unfolding equations of the IR constructs
  the q120 sources need (loads / stores through any pointer base, uint32 views of 64-bit cells, local arrays held
  in slots, `%`), buffers of uint64 lanes as casts of `Array Nat` (`natBuf`), casts of the wrapping uint64
  operations of `Spq/Q120.lean`.
-/
import SpqProofs.Lemmas.SrcAvx
import SpqProofs.Lemmas.SrcFuel
import Gen.Q120Consts
import Spq.Q120
namespace Spq.CIR
open Spq Spq.Q120

/-! ### unfolding equations -/
theorem eval_pload (Γ : List Ptr) (σ : State) (b : PBase) (o : Expr) :
    eval Γ σ (.pload b o) = (eval Γ σ o).bind fun v => (ptrAt Γ σ.env b v).bind fun p => loadCell σ.mem p 0 := rfl
theorem eval_pload32 (Γ : List Ptr) (σ : State) (b : PBase) (o : Expr) :
    eval Γ σ (.pload32 b o) = (eval Γ σ o).bind fun v =>
      if v < 0 then .err .oob
      else (ptrAt Γ σ.env b (v / 2)).bind fun p => (loadCell σ.mem p 0).bind fun c => .ok (half32 c (v % 2)) := rfl
theorem eval_avar (Γ : List Ptr) (σ : State) (base len : Nat) (idx : Expr) :
    eval Γ σ (.avar base len idx) = (eval Γ σ idx).bind fun v =>
      if 0 ≤ v ∧ v < (len : Int) then .ok (lget σ.env (base + v.toNat)) else .err .oob := rfl
theorem exec_pstore (Γ : List Ptr) (b : PBase) (o e : Expr) (f : Nat) (σ : State) :
    exec Γ (.pstore b o e) f σ = (eval Γ σ o).bind fun ov => (eval Γ σ e).bind fun v =>
      (ptrAt Γ σ.env b ov).bind fun p => (storeCell σ.mem p 0 v).bind fun m => .ok (.norm, { σ with mem := m }) := rfl
theorem exec_pstore32 (Γ : List Ptr) (b : PBase) (o e : Expr) (f : Nat) (σ : State) :
    exec Γ (.pstore32 b o e) f σ = (eval Γ σ o).bind fun ov => (eval Γ σ e).bind fun v =>
      if ov < 0 then .err .oob
      else (ptrAt Γ σ.env b (ov / 2)).bind fun p => (loadCell σ.mem p 0).bind fun c =>
        (storeCell σ.mem p 0 (setHalf32 c (ov % 2) v)).bind fun m => .ok (.norm, { σ with mem := m }) := rfl
theorem exec_aset (Γ : List Ptr) (base len : Nat) (idx e : Expr) (f : Nat) (σ : State) :
    exec Γ (.aset base len idx e) f σ = (eval Γ σ idx).bind fun iv => (eval Γ σ e).bind fun v =>
      if 0 ≤ iv ∧ iv < (len : Int) then .ok (.norm, { σ with env := lset σ.env (base + iv.toNat) v })
      else .err .oob := rfl

/-- the symbolic-execution simp set, with the constructs of the q120 sources -/
macro "cirq_simp" : tactic =>
  `(tactic| simp only [exec_skip, exec_assign, exec_store, exec_seq, exec_ite, exec_passign,
      eval_lit, eval_var, eval_load, eval_cast, eval_un, eval_bin, eval_cond, eval_pload, eval_pload32, eval_avar,
      exec_pstore, exec_pstore32, exec_aset, evalB_def,
      R.bind_ok, R.bind_err, thenStep_norm, thenStep_err, seqK_norm, seqK_err,
      evalBin_add_u64, evalBin_sub_u64, evalBin_mul_u64, evalBin_band_u64, evalBin_lt_u64, evalBin_mod_u64,
      evalBin_shl_u64, evalBin_shr_u64, wrap_u64, decide_b2i_ne_zero, ite_b2i_ne_zero,
      lget_zero, lget_succ, lset_zero, lset_succ, List.getD_cons_zero, List.getD_cons_succ])

/-! ### buffers of uint64 lanes -/
def natBuf (a : Array Nat) : Array Int := a.map fun (x : Nat) => (x : Int)

@[simp] theorem size_natBuf (a : Array Nat) : (natBuf a).size = a.size := by simp [natBuf]
theorem getD_natBuf (a : Array Nat) (i : Nat) : (natBuf a).getD i 0 = ((a.getD i 0 : Nat) : Int) := by
  by_cases h : i < a.size <;> simp [natBuf, Array.getD, h]

theorem natBuf_ofFn (n : Nat) (f : Nat → Nat) :
    natBuf (Array.ofFn (n := n) fun i => f i.val) = Array.ofFn (n := n) fun i => ((f i.val : Nat) : Int) := by
  apply Array.ext
  · simp
  · intro i h1 h2; simp [natBuf]

/-! ### accesses through a pointer `(b, o)` with cell index 0 on the `fillMem` states -/
theorem pload_fill (m : Mem) (r b : Nat) (g : Nat → Int) (k o : Nat) (h : o < (buf m b).size) (hk : k ≤ o) :
    loadCell (fillMem m r g k) (some (b, o)) 0 = .ok ((buf m b).getD o 0) := by
  have := loadCell_shift (fillMem m r g k) b o 0
  simp only [Nat.add_zero] at this
  rw [show (0 : Int) = ((0 : Nat) : Int) from rfl, this]
  exact load_fill m r b g k o h hk

theorem pstore_fill (m : Mem) (r : Nat) (g : Nat → Int) (k : Nat) (v : Int) (h : k < (buf m r).size) (hv : v = g k) :
    storeCell (fillMem m r g k) (some (r, k)) 0 v = .ok (fillMem m r g (k + 1)) := by
  have := storeCell_shift (fillMem m r g k) r k 0 v
  simp only [Nat.add_zero] at this
  rw [show (0 : Int) = ((0 : Nat) : Int) from rfl, this]
  exact store_fill m r g k v h hv

/-- pointer local holding `(b, o)`, offset a natural number given as any `Int` expression value -/
theorem ptrAt_pvar_nat (Γ : List Ptr) (env : List Int) (s b o k : Nat) (v : Int) (hv : v = (k : Int))
    (h1 : lget env s = (b : Int)) (h2 : lget env (s + 1) = (o : Int)) :
    ptrAt Γ env (.pvar s) v = .ok (some (b, o + k)) := ptrAt_pvar_off Γ env s b o k v hv h1 h2

/-! ### casts of the wrapping uint64 operations -/
theorem cast_mul64 (a b : Nat) : ((a : Int) * (b : Int)) % 18446744073709551616 = ((mul64 a b : Nat) : Int) := by
  have e : (a : Int) * (b : Int) = ((a * b : Nat) : Int) := by push_cast; rfl
  rw [e]; simp only [mul64]; omega
theorem cast_add64 (a b : Nat) : ((a : Int) + (b : Int)) % 18446744073709551616 = ((add64 a b : Nat) : Int) := by
  simp only [add64]; omega

end Spq.CIR

namespace Spq.CIR
open Spq Spq.Q120
theorem natBuf_eq_ofFn (a : Array Nat) (n : Nat) (g : Nat → Int) (hsz : a.size = n)
    (h : ∀ i, i < n → ((a.getD i 0 : Nat) : Int) = g i) : natBuf a = Array.ofFn (n := n) fun i => g i.val := by
  apply Array.ext
  · simp [hsz]
  · intro i h1 h2
    simp only [size_natBuf] at h1
    have := h i (by omega)
    have e : a.getD i 0 = a[i] := by simp [Array.getD, h1]
    rw [e] at this
    simp [natBuf, this]
end Spq.CIR

namespace Spq.CIR
open Spq Spq.Q120

theorem natBuf_set (a : Array Nat) (i v : Nat) : (natBuf a).setIfInBounds i (v : Int) = natBuf (a.setIfInBounds i v) := by
  simp [natBuf, Array.map_setIfInBounds]

/-- store of a uint64 lane into a buffer that holds `natBuf A` -/
theorem pstore_natBuf (m : Mem) (r : Nat) (A : Array Nat) (o v : Nat) (hr : r < m.size) (h : o < A.size) :
    storeCell (m.setIfInBounds r (natBuf A)) (some (r, o)) 0 (v : Int)
      = .ok (m.setIfInBounds r (natBuf (A.setIfInBounds o v))) := by
  have := storeCell_nat (m.setIfInBounds r (natBuf A)) r o 0 (v : Int)
    (by rw [buf_set_self m r _ hr, size_natBuf]; omega)
  rw [show (0 : Int) = ((0 : Nat) : Int) from rfl, this, buf_set_self m r _ hr, set_set, Nat.add_zero, natBuf_set]

/-- load from a buffer other than the one being rewritten -/
theorem pload_other (m : Mem) (r b : Nat) (x : Array Int) (o : Nat) (hb : b ≠ r) (h : o < (buf m b).size) :
    loadCell (m.setIfInBounds r x) (some (b, o)) 0 = .ok ((buf m b).getD o 0) := by
  have := loadCell_nat (m.setIfInBounds r x) b o 0 (by rw [buf_set_ne m r b x hb]; omega)
  have e : loadCell (m.setIfInBounds r x) (some (b, o)) 0 = loadCell (m.setIfInBounds r x) (some (b, o)) ((0 : Nat) : Int) := rfl
  rw [e, this, buf_set_ne m r b x hb, Nat.add_zero]

end Spq.CIR

namespace Spq.CIR
open Spq Spq.Q120

/-- the macro `Qk = ((1u << 30) - c * (1u << 17) + 1)` of q120_common.h as the translator emits it (type
    `unsigned int`): its value, for the small coefficients `c` of the 30-bit primes -/
theorem eval_qExpr (Γ : List Ptr) (σ : State) (c : Int) (h0 : 0 ≤ c) (h1 : c < 8192) :
    eval Γ σ (.bin .add .u32 (.bin .sub .u32 (.bin .shl .u32 (.lit 1) (.lit 30))
      (.bin .mul .u32 (.cast .u32 (.lit c)) (.bin .shl .u32 (.lit 1) (.lit 17)))) (.cast .u32 (.lit 1)))
      = .ok (1073741825 - c * 131072) := by
  simp only [eval_bin, eval_lit, eval_cast, R.bind_ok, evalBin, Ty.wrap, Ty.bits]
  have e30 : (1 : Int) * 2 ^ (30 : Int).toNat % 4294967296 = 1073741824 := by decide
  have e17 : (1 : Int) * 2 ^ (17 : Int).toNat % 4294967296 = 131072 := by decide
  simp (config := { decide := true }) only [e30, e17, if_true, if_false, R.bind_ok]
  congr 1
  omega

end Spq.CIR

namespace Spq.CIR
open Spq Spq.Q120

/-- `(uint64_t)Qk << 33` -/
theorem eval_qShl33 (Γ : List Ptr) (σ : State) (c : Int) (h0 : 0 ≤ c) (h1 : c < 8192) :
    eval Γ σ (.bin .shl .u64 (.cast .u64 (.bin .add .u32 (.bin .sub .u32 (.bin .shl .u32 (.lit 1) (.lit 30))
      (.bin .mul .u32 (.cast .u32 (.lit c)) (.bin .shl .u32 (.lit 1) (.lit 17)))) (.cast .u32 (.lit 1)))) (.lit 33))
      = .ok ((1073741825 - c * 131072) * 8589934592) := by
  rw [eval_bin, eval_cast, eval_qExpr Γ σ c h0 h1]
  simp only [R.bind_ok, eval_lit, wrap_u64, evalBin_shl_u64]
  have e33 : (2 : Int) ^ (33 : Int).toNat = 8589934592 := by decide
  rw [if_pos (by decide), e33]
  congr 1
  omega

/-- `(uint64_t)Qk` -/
theorem eval_qCast64 (Γ : List Ptr) (σ : State) (c : Int) (h0 : 0 ≤ c) (h1 : c < 8192) :
    eval Γ σ (.cast .u64 (.bin .add .u32 (.bin .sub .u32 (.bin .shl .u32 (.lit 1) (.lit 30))
      (.bin .mul .u32 (.cast .u32 (.lit c)) (.bin .shl .u32 (.lit 1) (.lit 17)))) (.cast .u32 (.lit 1))))
      = .ok (1073741825 - c * 131072) := by
  rw [eval_cast, eval_qExpr Γ σ c h0 h1]
  simp only [R.bind_ok, wrap_u64]
  congr 1
  omega

end Spq.CIR

namespace Spq.CIR
open Spq Spq.Q120

/-! ### product kernels: lane folds, masks and shifts -/
theorem laneTerms_succ (n : Nat) (x y : Array Nat) (sx ox sy oy : Nat) :
    laneTerms (n + 1) x y sx ox sy oy
      = laneTerms n x y sx ox sy oy ++ [(x.getD (sx * n + ox) 0, y.getD (sy * n + oy) 0)] := by
  simp [laneTerms, List.range_succ]

theorem laneTerms_zero (x y : Array Nat) (sx ox sy oy : Nat) : laneTerms 0 x y sx ox sy oy = [] := rfl

/-- `(1 << h) - 1` on uint64 -/
theorem mask_cast (h : Nat) (hh : h < 64) :
    ((1 * (2 : Int) ^ ((h : Int)).toNat) % 18446744073709551616 - 1 % 18446744073709551616) % 18446744073709551616
      = ((2 ^ h - 1 : Nat) : Int) := by
  have h1 : ((h : Int)).toNat = h := by omega
  have h2 : (2 : Nat) ^ h < 18446744073709551616 := by
    calc (2 : Nat) ^ h < 2 ^ 64 := Nat.pow_lt_pow_right (by decide) hh
      _ = 18446744073709551616 := by decide
  have h3 : 1 ≤ (2 : Nat) ^ h := Nat.one_le_two_pow
  have h4 : ((2 : Int) ^ h) = (((2 : Nat) ^ h : Nat) : Int) := by push_cast; rfl
  rw [h1, h4]
  omega

/-- `t & MASK` -/
theorem band_mask_cast (p h : Nat) :
    ((((p : Int)).toNat &&& (((2 ^ h - 1 : Nat) : Int)).toNat : Nat) : Int) = ((p % 2 ^ h : Nat) : Int) := by
  rw [Int.toNat_natCast, Int.toNat_natCast, Nat.and_two_pow_sub_one_eq_mod]

/-- `t >> H` -/
theorem shr_cast (p h : Nat) : (p : Int) / (2 : Int) ^ ((h : Int)).toNat = ((p / 2 ^ h : Nat) : Int) := by
  have h1 : ((h : Int)).toNat = h := by omega
  rw [h1]; push_cast; rfl

end Spq.CIR

namespace Spq.CIR
open Spq Spq.Q120

/-- load of a uint64 lane from a buffer holding `natBuf A` -/
theorem pload_natBuf (m : Mem) (b : Nat) (A : Array Nat) (o : Nat) (hb : buf m b = natBuf A) (h : o < A.size) :
    loadCell m (some (b, o)) 0 = .ok ((A.getD o 0 : Nat) : Int) := by
  have := loadCell_nat m b o 0 (by rw [hb, size_natBuf]; omega)
  have e : loadCell m (some (b, o)) 0 = loadCell m (some (b, o)) ((0 : Nat) : Int) := rfl
  rw [e, this, hb, Nat.add_zero, getD_natBuf]

end Spq.CIR

namespace Spq.CIR
theorem shr_cast2 (p h : Nat) : (p : Int) / (2 : Int) ^ h = ((p / 2 ^ h : Nat) : Int) := by push_cast; rfl
theorem inc_cast0 : (((0 : Nat) : Int) + 1) % 18446744073709551616 = ((1 : Nat) : Int) := by decide
theorem inc_cast1 : (((1 : Nat) : Int) + 1) % 18446744073709551616 = ((2 : Nat) : Int) := by decide
theorem inc_cast2 : (((2 : Nat) : Int) + 1) % 18446744073709551616 = ((3 : Nat) : Int) := by decide
theorem inc_cast3 : (((3 : Nat) : Int) + 1) % 18446744073709551616 = ((4 : Nat) : Int) := by decide
end Spq.CIR

namespace Spq.Src
open Spq Spq.CIR Spq.Q120

/-- slots of `q120_vec_mat1col_product_baa_ref` -/
def baaEnv (ell h : Nat) (a1 a2 : Nat → Nat) (x y : Nat) (i j t rb ro j2 : Int) : List Int :=
  [(ell : Int), (h : Int), ((2 ^ h - 1 : Nat) : Int), (a1 0 : Nat), (a1 1 : Nat), (a1 2 : Nat), (a1 3 : Nat),
    (a2 0 : Nat), (a2 1 : Nat), (a2 2 : Nat), (a2 3 : Nat), (x : Int), ((0 : Nat) : Int), (y : Int), ((0 : Nat) : Int),
    i, j, t, rb, ro, j2]


end Spq.Src

namespace Spq.CIR
/-- `x & 0xFFFFFFFF` / `x >> 32` with `H1 = 32`, `MASK1 = (1 << 32) - 1` as the interpreter computes them -/
theorem mask32_val : ((1 * (2 : Int) ^ (32 : Int).toNat) % 18446744073709551616 - 1 % 18446744073709551616)
    % 18446744073709551616 = 4294967295 := by decide
theorem band_mask32 (p : Nat) : ((((p : Int)).toNat &&& (4294967295 : Int).toNat : Nat) : Int)
    = ((p % 4294967296 : Nat) : Int) := by
  have : (4294967295 : Int).toNat = 2 ^ 32 - 1 := by decide
  rw [Int.toNat_natCast, this, Nat.and_two_pow_sub_one_eq_mod]
theorem shr32_cast (p : Nat) : (p : Int) / (2 : Int) ^ (32 : Int).toNat = ((p / 4294967296 : Nat) : Int) := by
  have h1 : (32 : Int).toNat = 32 := by decide
  have h2 : (2 : Int) ^ (32 : Nat) = 4294967296 := by decide
  rw [h1, h2]; omega
end Spq.CIR

namespace Spq.Src
open Spq Spq.CIR Spq.Q120

/-- the 16 temporaries `xl xh yl yh a al ah b bl bh c cl ch d dl dh` of one term of the b·b product -/
def bbbTemps (xv yv : Nat) : List Int :=
  let xl := xv % 4294967296
  let xh := xv / 4294967296
  let yl := yv % 4294967296
  let yh := yv / 4294967296
  let a := mul64 xl yl
  let b := mul64 xl yh
  let c := mul64 xh yl
  let d := mul64 xh yh
  [(xl : Int), (xh : Int), (yl : Int), (yh : Int), (a : Int), ((a % 4294967296 : Nat) : Int), ((a / 4294967296 : Nat) : Int),
    (b : Int), ((b % 4294967296 : Nat) : Int), ((b / 4294967296 : Nat) : Int), (c : Int), ((c % 4294967296 : Nat) : Int),
    ((c / 4294967296 : Nat) : Int), (d : Int), ((d % 4294967296 : Nat) : Int), ((d / 4294967296 : Nat) : Int)]

/-- slots of `q120_vec_mat1col_product_bbb_ref`: `T` = the 16 temporaries (slots 25..40), `tl` = slots 41..54 -/
def bbbEnv (ell : Nat) (s1 s2 s3 s4 : Nat → Nat) (x y : Nat) (i j : Int) (T tl : List Int) : List Int :=
  [(ell : Int), 32, 4294967295, (s1 0 : Nat), (s1 1 : Nat), (s1 2 : Nat), (s1 3 : Nat), (s2 0 : Nat), (s2 1 : Nat),
    (s2 2 : Nat), (s2 3 : Nat), (s3 0 : Nat), (s3 1 : Nat), (s3 2 : Nat), (s3 3 : Nat), (s4 0 : Nat), (s4 1 : Nat),
    (s4 2 : Nat), (s4 3 : Nat), (x : Int), ((0 : Nat) : Int), (y : Int), ((0 : Nat) : Int), i, j] ++ T ++ tl

def zeros16 : List Int := [0, 0, 0, 0, 0, 0, 0, 0, 0, 0, 0, 0, 0, 0, 0, 0]

end Spq.Src

namespace Spq.Src
open Spq Spq.CIR Spq.Q120

/-- the 9 locals `s1l s1h s2l s2h s3l s3h s4l s4h t` of the recombination of lane `j` of the b·b product -/
def bbbFin (P : BbbPrecomp) (j : Nat) (s : S4) : List Int :=
  let m := 2 ^ P.h
  [((s.s1 % m : Nat) : Int), ((s.s1 / m : Nat) : Int), ((s.s2 % m : Nat) : Int), ((s.s2 / m : Nat) : Int),
    ((s.s3 % m : Nat) : Int), ((s.s3 / m : Nat) : Int), ((s.s4 % m : Nat) : Int), ((s.s4 / m : Nat) : Int),
    ((bbbRefFinal P j s : Nat) : Int)]

def zeros9 : List Int := [0, 0, 0, 0, 0, 0, 0, 0, 0]

/-- the precomputation struct `q120_mat1col_product_bbb_precomp` as cells -/
def bbbCells (P : BbbPrecomp) : Array Nat :=
  #[P.h, P.s1h 0, P.s1h 1, P.s1h 2, P.s1h 3, P.s2l 0, P.s2l 1, P.s2l 2, P.s2l 3, P.s2h 0, P.s2h 1, P.s2h 2, P.s2h 3,
    P.s3l 0, P.s3l 1, P.s3l 2, P.s3l 3, P.s3h 0, P.s3h 1, P.s3h 2, P.s3h 3, P.s4l 0, P.s4l 1, P.s4l 2, P.s4l 3,
    P.s4h 0, P.s4h 1, P.s4h 2, P.s4h 3]
def baaCells (P : BaaPrecomp) : Array Nat := #[P.h, P.hpow 0, P.hpow 1, P.hpow 2, P.hpow 3]
def bbcCells (P : BbcPrecomp) : Array Nat :=
  #[P.h, P.s2l 0, P.s2l 1, P.s2l 2, P.s2l 3, P.s2h 0, P.s2h 1, P.s2h 2, P.s2h 3]

end Spq.Src

namespace Spq.CIR
/-- `cirq_simp` with decidable side conditions decided, literal arithmetic on slots reduced, the casts of the
    wrapping uint64 operations, and extra rewrite rules -/
syntax "cirqx" "[" Lean.Parser.Tactic.simpLemma,* "]" : tactic
macro_rules
  | `(tactic| cirqx [$ts,*]) =>
    `(tactic| simp (config := { decide := true }) only [exec_skip, exec_assign, exec_store, exec_seq, exec_ite, exec_passign,
      eval_lit, eval_var, eval_load, eval_cast, eval_un, eval_bin, eval_cond, eval_pload, eval_pload32, eval_avar,
      exec_pstore, exec_pstore32, exec_aset, evalB_def,
      R.bind_ok, R.bind_err, thenStep_norm, thenStep_err, seqK_norm, seqK_err,
      evalBin_add_u64, evalBin_sub_u64, evalBin_mul_u64, evalBin_band_u64, evalBin_lt_u64, evalBin_mod_u64,
      evalBin_shl_u64, evalBin_shr_u64, wrap_u64, decide_b2i_ne_zero, ite_b2i_ne_zero,
      lget_zero, lget_succ, lset_zero, lset_succ, List.getD_cons_zero, List.getD_cons_succ,
      if_true, if_false, Int.toNat_natCast, Nat.reduceAdd, Nat.zero_add,
      cast_mul64, cast_add64, band_mask32, shr32_cast, $ts,*])
end Spq.CIR

namespace Spq.CIR
theorem and_mask32 (p : Nat) : p &&& Int.toNat 4294967295 = p % 4294967296 := by
  have : (4294967295 : Int).toNat = 2 ^ 32 - 1 := by decide
  rw [this, Nat.and_two_pow_sub_one_eq_mod]
end Spq.CIR

namespace Spq.CIR
theorem mask_cast2 (h : Nat) (hh : h < 64) :
    ((1 * (2 : Int) ^ h) % 18446744073709551616 - 1 % 18446744073709551616) % 18446744073709551616
      = ((2 ^ h - 1 : Nat) : Int) := by
  have := mask_cast h hh
  rwa [Int.toNat_natCast] at this
end Spq.CIR

namespace Spq.CIR
/-! ### uint32 views -/
theorem half32_lo (c : Nat) : half32 (c : Int) 0 = ((c % 4294967296 : Nat) : Int) := by
  simp only [half32, if_true]; omega
theorem half32_hi (c : Nat) (h : c < 18446744073709551616) : half32 (c : Int) 1 = ((c / 4294967296 : Nat) : Int) := by
  have : ((1 : Int) = 0) = False := by decide
  simp only [half32, this, if_false]; omega
theorem even_div2 (m : Nat) : ((2 * m : Nat) : Int) / 2 = (m : Int) := by omega
theorem even_mod2 (m : Nat) : ((2 * m : Nat) : Int) % 2 = 0 := by omega
theorem odd_div2 (m : Nat) : ((2 * m + 1 : Nat) : Int) / 2 = (m : Int) := by omega
theorem odd_mod2 (m : Nat) : ((2 * m + 1 : Nat) : Int) % 2 = 1 := by omega
theorem natCast_not_neg (m : Nat) : ((m : Int) < 0) = False := by
  apply propext; constructor
  · intro h; omega
  · intro h; exact h.elim
end Spq.CIR

namespace Spq.Src
open Spq Spq.CIR Spq.Q120
/-- the 7 locals `MASK32 x_lo x_hi y_lo y_hi xy_lo xy_hi` of `accum_mul_q120_bc` for one prime -/
def bbcTemps (xv yv : Nat) : List Int :=
  let xlo := xv % 4294967296
  let xhi := xv / 4294967296
  let ylo := yv % 4294967296
  let yhi := yv / 4294967296
  [4294967295, (xlo : Int), (xhi : Int), (ylo : Int), (yhi : Int), ((mul64 xlo ylo : Nat) : Int),
    ((mul64 xhi yhi : Nat) : Int)]
def zeros7 : List Int := [0, 0, 0, 0, 0, 0, 0]
/-- the 3 locals `s2l s2h t` of `accum_to_q120b` for prime `j` -/
def bbcFin (P : BbcPrecomp) (j : Nat) (s : Nat × Nat) : List Int :=
  [((s.2 % 2 ^ P.h : Nat) : Int), ((s.2 / 2 ^ P.h : Nat) : Int), ((bbcRefFinal P j s : Nat) : Int)]
end Spq.Src

namespace Spq.CIR
theorem wrap_lo32 (x : Nat) : ((x % 4294967296 : Nat) : Int) % 18446744073709551616 = ((x % 4294967296 : Nat) : Int) := by
  omega
theorem wrap_hi32 (x : Nat) (h : x < 18446744073709551616) :
    ((x / 4294967296 : Nat) : Int) % 18446744073709551616 = ((x / 4294967296 : Nat) : Int) := by omega
end Spq.CIR

namespace Spq.CIR
open Spq Spq.Q120
/-! ### signed `&` with the sign-bit masks (`q120_b_from_znx64_simple`) -/
theorem evalBin_band_i64 (x y : Int) :
    evalBin .band .i64 x y = .ok (wrapS ((((x % 18446744073709551616).toNat &&& (y % 18446744073709551616).toNat : Nat)) : Int)) := rfl
theorem evalUn_bnot_i64 (x : Int) : evalUn .bnot .i64 x = .ok (wrapS (-x - 1)) := rfl
theorem maskhi_val : wrapS 9223372036854775808 = -9223372036854775808 := by decide
theorem masklo_val : wrapS (-(-9223372036854775808) - 1) = 9223372036854775807 := by decide

theorem and_signbit (n : Nat) (h : n < 18446744073709551616) :
    n &&& 9223372036854775808 = (n / 9223372036854775808) * 9223372036854775808 := by
  have e : (9223372036854775808 : Nat) = 2 ^ 63 := by decide
  rw [e, ← Nat.shiftLeft_eq]
  apply Nat.eq_of_testBit_eq
  intro i
  rw [Nat.testBit_and, Nat.testBit_two_pow, Nat.testBit_shiftLeft, Nat.testBit_div_two_pow]
  by_cases h1 : i = 63
  · subst h1; simp
  · by_cases h2 : i < 63
    · have : ¬ (i ≥ 63) := by omega
      simp [this, Ne.symm h1]
    · have h3 : 64 ≤ i := by omega
      have hlt : n < 2 ^ i := by
        calc n < 2 ^ 64 := by rw [show (2 : Nat) ^ 64 = 18446744073709551616 by decide]; exact h
          _ ≤ 2 ^ i := Nat.pow_le_pow_right (by decide) h3
      have hb : n.testBit i = false := Nat.testBit_lt_two_pow hlt
      have e2 : i - 63 + 63 = i := by omega
      simp [Ne.symm h1, e2, hb]

/-- `(uint64_t)(x & MASK_LO)` -/
theorem znx_lo (x : Int) :
    (wrapS ((((x % 18446744073709551616).toNat &&& ((9223372036854775807 : Int) % 18446744073709551616).toNat : Nat)) : Int))
      % 18446744073709551616 = ((toU x % 9223372036854775808 : Nat) : Int) := by
  have e : ((9223372036854775807 : Int) % 18446744073709551616).toNat = 2 ^ 63 - 1 := by decide
  rw [e, Nat.and_two_pow_sub_one_eq_mod]
  have e2 : (2 : Nat) ^ 63 = 9223372036854775808 := by decide
  rw [e2]
  simp only [toU, wrapS]
  omega

/-- `(uint64_t)(x & MASK_HI)` -/
theorem znx_hi (x : Int) :
    (wrapS ((((x % 18446744073709551616).toNat &&& ((-9223372036854775808 : Int) % 18446744073709551616).toNat : Nat)) : Int))
      % 18446744073709551616 = (((toU x / 9223372036854775808) * 9223372036854775808 : Nat) : Int) := by
  have e : ((-9223372036854775808 : Int) % 18446744073709551616).toNat = 9223372036854775808 := by decide
  have hb : (x % 18446744073709551616).toNat < 18446744073709551616 := by omega
  rw [e, and_signbit _ hb]
  simp only [toU, wrapS]
  omega
end Spq.CIR

namespace Spq.CIR
/-- `xj_lo + (xj_hi ? OQ : 0)` on uint64 -/
theorem znx_lane_val (u oqv : Nat) :
    (((u % 9223372036854775808 : Nat) : Int) + (if (((u / 9223372036854775808) * 9223372036854775808 : Nat) : Int) ≠ 0
        then (oqv : Int) else 0 % 18446744073709551616)) % 18446744073709551616
     = (((u % 9223372036854775808 + if (u / 9223372036854775808 != 0) = true then oqv else 0) % 18446744073709551616 : Nat) : Int) := by
  by_cases hz : u / 9223372036854775808 = 0
  · have e1 : ((u / 9223372036854775808) * 9223372036854775808 : Nat) = 0 := by rw [hz]
    have h2 : (u / 9223372036854775808 != 0) = false := by rw [hz]; rfl
    rw [e1, h2]
    simp only [Int.natCast_zero, ne_eq, not_true_eq_false, if_false, Bool.false_eq_true]
    omega
  · have h1 : (((u / 9223372036854775808) * 9223372036854775808 : Nat) : Int) ≠ 0 := by omega
    have h2 : (u / 9223372036854775808 != 0) = true := by
      rw [bne_iff_ne]; exact hz
    rw [if_pos h1, h2]
    simp only [if_true]
    omega
end Spq.CIR

namespace Spq.Src
open Spq Spq.CIR Spq.Q120
/-- `x & MASK_LO`, `x & MASK_HI` as uint64 -/
def znxLo (v : Int) : Int := ((toU v % 9223372036854775808 : Nat) : Int)
def znxHi (v : Int) : Int := (((toU v / 9223372036854775808) * 9223372036854775808 : Nat) : Int)
/-- slots of `q120_b_from_znx64_simple` -/
def znxEnv (nn r k : Nat) (mh ml o0 o1 o2 o3 l h : Int) : List Int :=
  [(nn : Int), mh, ml, o0, o1, o2, o3, (r : Int), ((0 : Nat) : Int), ((4 * k : Nat) : Int), (k : Int), l, h]
end Spq.Src

namespace Spq.CIR
theorem ite_ok {α : Type} (c : Prop) [Decidable c] (a b : α) :
    (if c then (R.ok a : R α) else R.ok b) = R.ok (if c then a else b) := by
  split <;> rfl
end Spq.CIR

namespace Spq.Src
open Spq Spq.CIR Spq.Q120

/-- one lane store of `q120_b_from_znx64_simple`, the slot contents kept opaque -/
theorem znx_lane (nn r x k : Nat) (mem : Mem) (g : Nat → Int) (hnn : nn < 2305843009213693952) (hr : (buf mem r).size = 4 * nn) (hk : k < nn)
    (o0 o1 o2 o3 l h : Int) (c : Nat) (ci : Int) (hci : ci = (c : Int)) (j : Nat) (hj : j = 4 * k + c) (oc : Int)
    (hc : c < 4) (hoc : lget [o0, o1, o2, o3] c = oc)
    (hg : (l + (if h ≠ 0 then oc else 0 % 18446744073709551616)) % 18446744073709551616 = g j) (f : Nat) :
    exec [some (r, 0), some (x, 0)]
      (.pstore (.pvar 7) (.bin .add .u64 (.var 9) (.cast .u64 (.lit ci)))
        (.bin .add .u64 (.var 11) (.cond (.var 12) (.avar 3 4 (.lit ci)) (.cast .u64 (.lit 0))))) f
      ⟨znxEnv nn r k (-9223372036854775808) 9223372036854775807 o0 o1 o2 o3 l h, fillMem mem r g j⟩
    = .ok (.norm, ⟨znxEnv nn r k (-9223372036854775808) 9223372036854775807 o0 o1 o2 o3 l h, fillMem mem r g (j + 1)⟩) := by
  subst hci
  have hidx : (((4 * k : Nat) : Int) + (c : Int) % 18446744073709551616) % 18446744073709551616
      = ((j : Nat) : Int) := by omega
  have hcc : c = 0 ∨ c = 1 ∨ c = 2 ∨ c = 3 := by omega
  have hguard : (0 : Int) ≤ (c : Int) ∧ (c : Int) < ((4 : Nat) : Int) := by omega
  have hjs : j < (buf mem r).size := by omega
  clear hj
  rcases hcc with rfl | rfl | rfl | rfl
  all_goals (
    simp only [znxEnv]
    simp only [exec_pstore, if_pos hguard, eval_bin, eval_var, eval_cast, eval_lit, eval_cond, eval_avar,
      R.bind_ok, lget_zero, lget_succ, evalBin_add_u64, wrap_u64, hidx, Int.toNat_natCast, Nat.reduceAdd,
      Nat.zero_add, Nat.add_zero]
    simp only [lget_zero, lget_succ] at hoc
    rw [ptrAt_pvar_nat _ _ 7 r 0 _ _ rfl rfl rfl]
    subst hoc
    simp only [R.bind_ok, Nat.zero_add, ite_ok]
    rw [pstore_fill mem r g _ _ hjs hg]
    simp only [R.bind_ok])
end Spq.Src

namespace Spq.CIR
open Spq Spq.Q120
/-! ### uint32 stores: a cell written as two halves (`res_u32[2j] = …; res_u32[2j+1] = …;`) -/
theorem setHalf32_pair (c v0 v1 : Int) :
    setHalf32 (setHalf32 c 0 v0) 1 v1 = v0 % 4294967296 + (v1 % 4294967296) * 4294967296 := by
  have h1 : ((1 : Int) = 0) = False := by decide
  simp only [setHalf32, if_true, h1, if_false]
  omega
theorem half32_setHalf32_lo (c v0 : Int) : half32 (setHalf32 c 0 v0) 0 = v0 % 4294967296 := by
  simp only [setHalf32, half32, if_true]
  omega

/-- load / store of cell `j` of the buffer being rewritten -/
theorem pload_self (m : Mem) (r : Nat) (A : Array Int) (j : Nat) (hr : r < m.size) (hj : j < A.size) :
    loadCell (m.setIfInBounds r A) (some (r, j)) 0 = .ok (A.getD j 0) := by
  have := loadCell_nat (m.setIfInBounds r A) r j 0 (by rw [buf_set_self m r A hr]; omega)
  have e : loadCell (m.setIfInBounds r A) (some (r, j)) 0 = loadCell (m.setIfInBounds r A) (some (r, j)) ((0 : Nat) : Int) := rfl
  rw [e, this, buf_set_self m r A hr, Nat.add_zero]
theorem pstore_self (m : Mem) (r : Nat) (A : Array Int) (j : Nat) (v : Int) (hr : r < m.size) (hj : j < A.size) :
    storeCell (m.setIfInBounds r A) (some (r, j)) 0 v = .ok (m.setIfInBounds r (A.setIfInBounds j v)) := by
  have := storeCell_nat (m.setIfInBounds r A) r j 0 v (by rw [buf_set_self m r A hr]; omega)
  have e : storeCell (m.setIfInBounds r A) (some (r, j)) 0 v = storeCell (m.setIfInBounds r A) (some (r, j)) ((0 : Nat) : Int) v := rfl
  rw [e, this, buf_set_self m r A hr, set_set, Nat.add_zero]

theorem exec_pstore32_pair (Γ : List Ptr) (env : List Int) (s r : Nat) (mem : Mem) (A : Array Int) (j : Nat)
    (i0 e0 i1 e1 : Expr) (v0 v1 : Int) (f : Nat) (hr : r < mem.size) (hj : j < A.size)
    (hp1 : lget env s = (r : Int)) (hp2 : lget env (s + 1) = ((0 : Nat) : Int))
    (hi0 : eval Γ ⟨env, mem.setIfInBounds r A⟩ i0 = .ok ((2 * j : Nat) : Int))
    (he0 : eval Γ ⟨env, mem.setIfInBounds r A⟩ e0 = .ok v0)
    (hi1 : eval Γ ⟨env, mem.setIfInBounds r (A.setIfInBounds j (setHalf32 (A.getD j 0) 0 v0))⟩ i1
      = .ok ((2 * j + 1 : Nat) : Int))
    (he1 : eval Γ ⟨env, mem.setIfInBounds r (A.setIfInBounds j (setHalf32 (A.getD j 0) 0 v0))⟩ e1 = .ok v1) :
    exec Γ (.seq (.pstore32 (.pvar s) i0 e0) (.pstore32 (.pvar s) i1 e1)) f ⟨env, mem.setIfInBounds r A⟩
      = .ok (.norm, ⟨env, mem.setIfInBounds r
          (A.setIfInBounds j (v0 % 4294967296 + (v1 % 4294967296) * 4294967296))⟩) := by
  have hsz : j < (A.setIfInBounds j (setHalf32 (A.getD j 0) 0 v0)).size := by simp; exact hj
  rw [exec_seq, exec_pstore32, hi0, he0]
  simp only [R.bind_ok, natCast_not_neg, if_false, even_div2, even_mod2]
  rw [ptrAt_pvar_nat Γ env s r 0 j _ rfl hp1 hp2]
  simp only [R.bind_ok, Nat.zero_add]
  rw [pload_self mem r A j hr hj]
  simp only [R.bind_ok]
  rw [pstore_self mem r A j _ hr hj]
  simp only [R.bind_ok, seqK_norm]
  rw [exec_pstore32, hi1, he1]
  simp only [R.bind_ok, natCast_not_neg, if_false, odd_div2, odd_mod2]
  rw [ptrAt_pvar_nat Γ env s r 0 j _ rfl hp1 hp2]
  simp only [R.bind_ok, Nat.zero_add]
  rw [pload_self mem r _ j hr hsz]
  simp only [R.bind_ok]
  rw [pstore_self mem r _ j _ hr hsz]
  simp only [R.bind_ok]
  congr 4
  have hg : (A.setIfInBounds j (setHalf32 (A.getD j 0) 0 v0)).getD j 0 = setHalf32 (A.getD j 0) 0 v0 := by
    simp [Array.getD, hj]
  rw [hg, setHalf32_pair]
  simp
end Spq.CIR

namespace Spq.CIR
open Spq Spq.Q120
theorem seqK_assoc (x : Out) (k1 k2 : State → Out) :
    seqK (seqK x k1) k2 = seqK x (fun σ => seqK (k1 σ) k2) := by
  cases x with
  | err e => rfl
  | ok p => obtain ⟨fl, σ⟩ := p; cases fl <;> rfl
theorem exec_seq_assoc (Γ : List Ptr) (a b c : Stmt) (f : Nat) (σ : State) :
    exec Γ (.seq a (.seq b c)) f σ = exec Γ (.seq (.seq a b) c) f σ := by
  simp only [exec_seq, seqK_assoc]
  rfl

/-- the memory between the two half stores into cell `j` of the result buffer -/
def midMem (m : Mem) (r : Nat) (g : Nat → Int) (j : Nat) (v0 : Int) : Mem :=
  m.setIfInBounds r ((fillTo (buf m r) g j).setIfInBounds j (setHalf32 ((buf m r).getD j 0) 0 v0))

theorem size_pos_lt (m : Mem) (r j : Nat) (hj : j < (buf m r).size) : r < m.size := by
  by_cases h : r < m.size
  · exact h
  · simp [buf, Array.getD, h] at hj

theorem pair32_fill (Γ : List Ptr) (env : List Int) (s r : Nat) (mem : Mem) (g : Nat → Int) (j : Nat)
    (i0 e0 i1 e1 : Expr) (v0 v1 : Int) (f : Nat) (hj : j < (buf mem r).size)
    (hp1 : lget env s = (r : Int)) (hp2 : lget env (s + 1) = ((0 : Nat) : Int))
    (hi0 : eval Γ ⟨env, fillMem mem r g j⟩ i0 = .ok ((2 * j : Nat) : Int))
    (he0 : eval Γ ⟨env, fillMem mem r g j⟩ e0 = .ok v0)
    (hi1 : eval Γ ⟨env, midMem mem r g j v0⟩ i1 = .ok ((2 * j + 1 : Nat) : Int))
    (he1 : eval Γ ⟨env, midMem mem r g j v0⟩ e1 = .ok v1)
    (hg : v0 % 4294967296 + (v1 % 4294967296) * 4294967296 = g j) :
    exec Γ (.seq (.pstore32 (.pvar s) i0 e0) (.pstore32 (.pvar s) i1 e1)) f ⟨env, fillMem mem r g j⟩
      = .ok (.norm, ⟨env, fillMem mem r g (j + 1)⟩) := by
  have hr := size_pos_lt mem r j hj
  have hA : (fillTo (buf mem r) g j).getD j 0 = (buf mem r).getD j 0 := by
    rw [getD_fillTo]; simp
  have := exec_pstore32_pair Γ env s r mem (fillTo (buf mem r) g j) j i0 e0 i1 e1 v0 v1 f hr
    (by simpa using hj) hp1 hp2 hi0 he0 (by rw [hA]; exact hi1) (by rw [hA]; exact he1)
  rw [this, hg, fillTo_step _ _ _ _ rfl]

/-- reading cell `j` of any buffer between the two half stores -/
theorem pload_mid (m : Mem) (r b : Nat) (g : Nat → Int) (j : Nat) (v0 : Int)
    (hb : j < (buf m b).size) (hj : j < (buf m r).size) :
    loadCell (midMem m r g j v0) (some (b, j)) 0
      = .ok (if b = r then setHalf32 ((buf m r).getD j 0) 0 v0 else (buf m b).getD j 0) := by
  have hr := size_pos_lt m r j hj
  by_cases h : b = r
  · subst h
    simp only [if_true, midMem]
    rw [pload_self m b _ j hr (by simpa using hj)]
    simp [Array.getD, hj]
  · simp only [h, if_false, midMem]
    exact pload_other m r b _ j h hb

theorem half32_mid_hi (c v : Int) : half32 (setHalf32 c 0 v) 1 = half32 c 1 := by
  have h1 : ((1 : Int) = 0) = False := by decide
  simp only [setHalf32, half32, if_true, h1, if_false]
  omega
theorem half32_mid_hi_ite (p : Prop) [Decidable p] (c c' v : Int) (h : p → c = c') :
    half32 (if p then setHalf32 c 0 v else c') 1 = half32 c' 1 := by
  by_cases hp : p
  · simp only [hp, if_true, half32_mid_hi, h hp]
  · simp only [hp, if_false]
theorem half32_mid_lo_ite (c c' v : Int) : half32 (if True then setHalf32 c 0 v else c') 0 = v % 4294967296 := by
  simp only [if_true, half32_setHalf32_lo]

/-- the two uint32 words of a packed cell -/
theorem half32_pack_lo (a b : Nat) (ha : a < 4294967296) :
    half32 ((a + 4294967296 * b : Nat) : Int) 0 = (a : Int) := by
  rw [half32_lo]; congr 1; omega
theorem half32_pack_hi (a b : Nat) (ha : a < 4294967296) (hb : b < 4294967296) :
    half32 ((a + 4294967296 * b : Nat) : Int) 1 = (b : Int) := by
  rw [half32_hi _ (by omega)]; congr 1; omega
end Spq.CIR

namespace Spq.Src
/-- a uint32 array (layout c) as 64-bit cells, little endian: cell `c` = word `2c` + 2^32 · word `2c+1` -/
def packW (W : Array Nat) : Array Nat :=
  Array.ofFn (n := W.size / 2) fun c => W.getD (2 * c.val) 0 + 4294967296 * W.getD (2 * c.val + 1) 0
theorem size_packW (W : Array Nat) : (packW W).size = W.size / 2 := by simp [packW]
theorem getD_packW (W : Array Nat) (c : Nat) (h : c < W.size / 2) :
    (packW W).getD c 0 = W.getD (2 * c) 0 + 4294967296 * W.getD (2 * c + 1) 0 := by
  simp [packW, Array.getD, h]
end Spq.Src
