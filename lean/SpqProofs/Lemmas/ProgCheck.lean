/-
  C16 helpers: the executable checkers of `Spq/Prog.lean` are sound for the hypotheses of the refinement
  theorem, so a concrete instance is discharged by evaluation (`decide`).
-/
import Spq.Prog
namespace Spq.Prog

theorem allLt_iff (n : Nat) (p : Nat → Bool) : allLt n p = true ↔ ∀ i, i < n → p i = true := by
  simp [allLt, List.all_eq_true, List.mem_range]

theorem WFb_sound (nn hsz : Nat) (vars : List Var) (h : WFb nn hsz vars = true) : WF nn hsz vars := by
  unfold WFb at h
  simp only [Bool.and_eq_true, List.all_eq_true, Bool.or_eq_true, decide_eq_true_eq, allLt_iff,
    beq_iff_eq] at h
  obtain ⟨⟨h1, h2⟩, h3⟩ := h
  refine ⟨⟨_, h1⟩, fun v hv => (h2 v hv).1, fun v hv => (h2 v hv).2, ?_⟩
  intro v hv w hw hne i j hi hj
  rcases h3 v hv w hw with e | e
  · exact absurd e hne
  · exact e i hi j hj

theorem OpOKb_sound (nn : Nat) (vars : List Var) (op : Op) (h : OpOKb nn vars op = true) :
    OpOK nn vars op := by
  unfold OpOKb at h
  simp only [Bool.and_eq_true, List.all_eq_true, decide_eq_true_eq] at h
  obtain ⟨⟨h1, h2⟩, h3⟩ := h
  refine ⟨h1, h2, ?_⟩
  cases op with
  | automorphism p d a =>
    simp only [Bool.and_eq_true, Bool.or_eq_true, decide_eq_true_eq] at h3
    exact ⟨h3.1, fun e => h3.2.resolve_left (fun ne => ne e)⟩
  | normalize k d a =>
    simp only [Bool.and_eq_true, decide_eq_true_eq] at h3
    exact h3
  | _ => trivial

theorem OpBudgetb_sound (nn : Nat) (op : Op) (env : Env) (h : OpBudgetb nn op env = true) :
    OpBudget nn op env := by
  unfold OpBudgetb at h
  simp only [Bool.and_eq_true, allLt_iff, decide_eq_true_eq] at h
  obtain ⟨h1, h2⟩ := h
  refine ⟨fun i c hi hc => h1 i hi c hc, ?_⟩
  cases op with
  | normalize k d a =>
    simp only [allLt_iff, decide_eq_true_eq] at h2
    exact fun i c hi hc => h2 i hi c hc
  | _ => trivial

theorem InBudgetb_sound (nn : Nat) (vars : List Var) (ops : List Op) (env : Env)
    (h : InBudgetb nn vars ops env = true) : InBudget nn vars ops env := by
  induction ops generalizing env with
  | nil => trivial
  | cons op ops ih =>
    unfold InBudgetb at h
    simp only [Bool.and_eq_true] at h
    exact ⟨⟨OpOKb_sound nn vars op h.1.1, OpBudgetb_sound nn op env h.1.2⟩, ih _ h.2⟩

theorem Rb_sound (nn hsz : Nat) (vars : List Var) (env : Env) (h : Heap Int)
    (hb : Rb nn hsz vars env h = true) : R nn hsz vars env h := by
  unfold Rb at hb
  simp only [Bool.and_eq_true, List.all_eq_true, allLt_iff, beq_iff_eq] at hb
  exact ⟨hb.1.1, hb.1.2, fun v hv i c hi hc => hb.2 v hv i hi c hc⟩

end Spq.Prog
