/-
  The "fill" loop: `for (j = e0; j < hiE; j++) res[j] = e;` writes cell `j` of the result buffer at iteration
  `j`.  Proved once for an arbitrary environment, bound expressions and right-hand side; the kernels
  add / sub / negate / rotate / mul_xp_minus_one (int64 and double) are instances.
-/
import SpqProofs.Lemmas.SrcEval
namespace Spq.CIR

theorem lget_lset_self : ∀ (env : List Int) (x : Nat) (v : Int), x < env.length → lget (lset env x v) x = v
  | [], _, _, h => by simp at h
  | _ :: _, 0, _, _ => rfl
  | _ :: xs, n + 1, v, h => by
    simp only [lset, lget]
    exact lget_lset_self xs n v (by simpa using h)

theorem lset_lset : ∀ (env : List Int) (x : Nat) (v w : Int), lset (lset env x v) x w = lset env x w
  | [], _, _, _ => rfl
  | _ :: _, 0, _, _ => rfl
  | _ :: xs, n + 1, v, w => by
    simp only [lset]
    rw [lset_lset xs n v w]

theorem length_lset : ∀ (env : List Int) (x : Nat) (v : Int), (lset env x v).length = env.length
  | [], _, _ => rfl
  | _ :: _, 0, _ => rfl
  | _ :: xs, n + 1, v => by simp only [lset, List.length_cons, length_lset xs n v]

/-- memory while the loop is at index `k`: cells `[0,k)` of buffer `r` hold `g` -/
abbrev fillMem (m : Mem) (r : Nat) (g : Nat → Int) (k : Nat) : Mem :=
  m.setIfInBounds r (fillTo (buf m r) g k)

theorem fillMem_all (m : Mem) (r : Nat) (g : Nat → Int) (n : Nat) (h : (buf m r).size = n) :
    fillMem m r g n = m.setIfInBounds r (Array.ofFn (n := n) fun i => g i.val) := by
  unfold fillMem
  rw [fillTo_all _ _ _ h]

theorem fill_for (Γ : List Ptr) (rp js : Nat) (e0 hiE e : Expr) (env : List Int) (m0 m : Mem) (r : Nat)
    (g : Nat → Int) (lo hi : Nat) (hm0 : m0 = fillMem m r g lo)
    (hΓ : Γ.getD rp none = some (r, 0))
    (hlh : lo ≤ hi) (hsz : hi ≤ (buf m r).size) (h64 : hi < 18446744073709551616)
    (hjs : js < env.length)
    (he0 : eval Γ ⟨env, fillMem m r g lo⟩ e0 = .ok (lo : Int))
    (hhiE : ∀ k, lo ≤ k → k ≤ hi → eval Γ ⟨lset env js (k : Int), fillMem m r g k⟩ hiE = .ok (hi : Int))
    (he : ∀ k, lo ≤ k → k < hi → eval Γ ⟨lset env js (k : Int), fillMem m r g k⟩ e = .ok (g k)) :
    ∀ f, hi - lo ≤ f →
      exec Γ (.for (.assign js e0) (.bin .lt .u64 (.var js) hiE)
          (.assign js (.bin .add .u64 (.var js) (.lit 1))) (.store rp (.var js) e)) f ⟨env, m0⟩
        = .ok (.norm, ⟨lset env js (hi : Int), fillMem m r g hi⟩) := by
  subst hm0
  intro f hf
  have h := exec_for_range Γ (.assign js e0) (.bin .lt .u64 (.var js) hiE)
    (.assign js (.bin .add .u64 (.var js) (.lit 1))) (.store rp (.var js) e) ⟨env, fillMem m r g lo⟩
    (fun k => ⟨lset env js (k : Int), fillMem m r g k⟩) lo hi 0 hlh ?hi0 ?hc ?hs ?hx f (by omega)
  · exact h
  case hi0 =>
    intro f
    rw [exec_assign, he0]
    rfl
  case hc =>
    intro k h1 h2
    cir_simp
    rw [hhiE k h1 (by omega)]
    cir_simp
    rw [lget_lset_self env js _ hjs]
    exact ok_decide_true (by omega)
  case hs =>
    intro k h1 h2 f _
    cir_simp
    rw [lget_lset_self env js _ hjs, he k h1 h2, hΓ]
    cir_simp
    rw [store_fill m r g k _ (by omega) rfl]
    cir_simp
    rw [lget_lset_self env js _ hjs, lset_lset]
    have e : ((k : Int) + 1) % 18446744073709551616 = ((k + 1 : Nat) : Int) := by omega
    rw [e]
  case hx =>
    cir_simp
    rw [hhiE hi hlh (Nat.le_refl _)]
    cir_simp
    rw [lget_lset_self env js _ hjs]
    exact ok_decide_false (by omega)

end Spq.CIR
