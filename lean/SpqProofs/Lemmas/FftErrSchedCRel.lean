/-
  C06.4: relational transfer for the cplx butterflies and the per-block butterflies `gNetC`.
-/
import SpqProofs.Lemmas.FftErrSchedIRel
import SpqProofs.Lemmas.FftErrSchedCFwd3
import SpqProofs.Lemmas.FftErrSchedCBf
set_option linter.unusedSectionVars false
namespace Spq.Fft.RelN
open Spq.Fft Spq.Fft.Alg Spq.Fft.SimP Spq.Fft.LevelN Spq.Fft.SchedN Spq.Fft.SchedC Spq.FftErr

variable {α β : Type} {Rl : α → β → Prop} {A : Arith α} {B : Arith β}

/-- two four-entry butterflies are related -/
def Bf4Sim (Rl : α → β → Prop) (f : Bf4 α) (f' : Bf4 β) : Prop :=
  ∀ {nwr nwr' nwi nwi'}, Rl nwr nwr' → Rl nwi nwi' →
    BfSim Rl (fun ra ia rb ib w1 w2 => f ra ia rb ib w1 w2 nwr nwi) (fun ra ia rb ib w1 w2 => f' ra ia rb ib w1 w2 nwr' nwi')

/-- all butterflies of two cplx implementations are related -/
structure CFlavSim (Rl : α → β → Prop) (F : CFlav α) (F' : CFlav β) : Prop where
  ctTop : BfSim Rl F.ctTop F'.ctTop
  ctOdd : BfSim Rl F.ctOdd F'.ctOdd
  last : Bf4Sim Rl F.last F'.last
  big : FlavSim Rl F.big F'.big

theorem ofBf_sim {f : Bf α} {f' : Bf β} (h : BfSim Rl f f') : Bf4Sim Rl (ofBf f) (ofBf f') := by
  intro nwr nwr' nwi nwi' _ _ ra ra' ia ia' rb rb' ib ib' wr wr' wi wi' h1 h2 h3 h4 h5 h6
  exact h h1 h2 h3 h4 h5 h6

theorem ctFmaC_sim (h : ASim Rl A B) {z : α} {z' : β} (hz : Rl z z') : BfSim Rl (ctFmaC A z) (ctFmaC B z') := by
  intro ra ra' ia ia' rb rb' ib ib' wr wr' wi wi' h1 h2 h3 h4 h5 h6
  have nr := h.fma h4 (h.sub hz h6) (h.mul h3 h5)
  have ni := h.fma h3 (h.add hz h6) (h.mul h4 h5)
  exact ⟨h.add h1 nr, h.add h2 ni, h.sub h1 nr, h.sub h2 ni⟩

theorem ctFmaZ_sim (h : ASim Rl A B) : BfSim Rl (ctFmaZ A) (ctFmaZ B) := by
  intro ra ra' ia ia' rb rb' ib ib' wr wr' wi wi' h1 h2 h3 h4 h5 h6
  have nr := h.fma h4 (h.neg h6) (h.mul h3 h5)
  have ni := h.fma h3 h6 (h.mul h4 h5)
  exact ⟨h.add h1 nr, h.add h2 ni, h.sub h1 nr, h.sub h2 ni⟩

theorem ictFmaC_sim (h : ASim Rl A B) {z : α} {z' : β} (hz : Rl z z') : BfSim Rl (ictFmaC A z) (ictFmaC B z') := by
  intro ra ra' ia ia' rb rb' ib ib' wr wr' wi wi' h1 h2 h3 h4 h5 h6
  have rd := h.sub h1 h3
  have id := h.sub h2 h4
  exact ⟨h.add h1 h3, h.add h2 h4, h.fma id (h.sub hz h6) (h.mul rd h5), h.fma rd (h.add hz h6) (h.mul id h5)⟩

theorem ictFmaZ_sim (h : ASim Rl A B) : BfSim Rl (ictFmaZ A) (ictFmaZ B) := by
  intro ra ra' ia ia' rb rb' ib ib' wr wr' wi wi' h1 h2 h3 h4 h5 h6
  have rd := h.sub h1 h3
  have id := h.sub h2 h4
  exact ⟨h.add h1 h3, h.add h2 h4, h.fma id (h.neg h6) (h.mul rd h5), h.fma rd h6 (h.mul id h5)⟩

theorem lastFma_sim (h : ASim Rl A B) : Bf4Sim Rl (lastFma A) (lastFma B) := by
  intro nwr nwr' nwi nwi' h7 h8 ra ra' ia ia' rb rb' ib ib' wr wr' wi wi' h1 h2 h3 h4 h5 h6
  exact ⟨h.add h1 (h.fms h3 h5 (h.mul h4 h6)), h.add h2 (h.fma h4 h5 (h.mul h3 h6)),
    h.add h1 (h.fms h3 h7 (h.mul h4 h8)), h.add h2 (h.fma h4 h7 (h.mul h3 h8))⟩

/-- `cfwdFma` / `cinvFma` with the exact negation explicit -/
def cfwdFmaZ (A : Arith α) : CFlav α := ⟨ctFmaZ A, true, ctFma A, true, lastFma A, fwdFma A⟩
def cinvFmaZ (A : Arith α) : CFlav α := ⟨ictFmaZ A, true, ictFmaZ A, false, ofBf (ictFma A), invFma A⟩

theorem cfwdRef_sim (h : ASim Rl A B) : CFlavSim Rl (cfwdRef A) (cfwdRef B) :=
  ⟨ctRef_sim h, ctRef_sim h, ofBf_sim (ctRef_sim h), fwdRef_sim h⟩
theorem cfwdFma_sim (h : ASim Rl A B) {z : α} {z' : β} (hz : Rl z z') : CFlavSim Rl (cfwdFma A z) (cfwdFma B z') :=
  ⟨ctFmaC_sim h hz, ctFma_sim h, lastFma_sim h, fwdFma_sim h⟩
theorem cfwdFmaZ_sim (h : ASim Rl A B) : CFlavSim Rl (cfwdFmaZ A) (cfwdFmaZ B) :=
  ⟨ctFmaZ_sim h, ctFma_sim h, lastFma_sim h, fwdFma_sim h⟩
theorem cinvRef_sim (h : ASim Rl A B) : CFlavSim Rl (cinvRef A) (cinvRef B) :=
  ⟨ictRef_sim h, ictRef_sim h, ofBf_sim (ictRef_sim h), invRef_sim h⟩
theorem cinvFma_sim (h : ASim Rl A B) {z : α} {z' : β} (hz : Rl z z') : CFlavSim Rl (cinvFma A z) (cinvFma B z') :=
  ⟨ictFmaC_sim h hz, ictFmaC_sim h hz, ofBf_sim (ictFma_sim h), invFma_sim h⟩
theorem cinvFmaZ_sim (h : ASim Rl A B) : CFlavSim Rl (cinvFmaZ A) (cinvFmaZ B) :=
  ⟨ictFmaZ_sim h, ictFmaZ_sim h, ofBf_sim (ictFma_sim h), invFma_sim h⟩

theorem lastV_sim {f : Bf4 α} {f' : Bf4 β} (hf : Bf4Sim Rl f f') {wr wi nwr nwi : α} {wr' wi' nwr' nwi' : β}
    (h5 : Rl wr wr') (h6 : Rl wi wi') (h7 : Rl nwr nwr') (h8 : Rl nwi nwi')
    {u v : α × α} {u' v' : β × β} (hu : R2 Rl u u') (hv : R2 Rl v v') :
    R2 Rl (lastV f wr wi nwr nwi u v).1 (lastV f' wr' wi' nwr' nwi' u' v').1 ∧
    R2 Rl (lastV f wr wi nwr nwi u v).2 (lastV f' wr' wi' nwr' nwi' u' v').2 :=
  bfV_sim (hf h7 h8) h5 h6 hu hv

theorem gNetC_sim {F : CFlav α} {F' : CFlav β} (hF : CFlavSim Rl F F') (c s ns nc : ℕ → α) (c' s' ns' nc' : ℕ → β)
    (hc : ∀ e, Rl (c e) (c' e)) (hs : ∀ e, Rl (s e) (s' e)) (hns : ∀ e, Rl (ns e) (ns' e))
    (hnc : ∀ e, Rl (nc e) (nc' e)) (k ℓ d b : ℕ)
    {u v : α × α} {u' v' : β × β} (hu : R2 Rl u u') (hv : R2 Rl v v') :
    R2 Rl (gNetC F c s ns nc k ℓ d b u v).1 (gNetC F' c' s' ns' nc' k ℓ d b u' v').1 ∧
    R2 Rl (gNetC F c s ns nc k ℓ d b u v).2 (gNetC F' c' s' ns' nc' k ℓ d b u' v').2 := by
  unfold gNetC
  split
  · split
    · exact lastV_sim hF.last (hc _) (hs _) (hnc _) (hns _) hu hv
    · exact bfV_sim hF.ctTop (hc _) (hs _) hu hv
  · split
    · exact bfV_sim hF.ctTop (hc _) (hs _) hu hv
    · split
      · exact bfV_sim hF.ctOdd (hc _) (hs _) hu hv
      · exact gNet_sim hF.big c s c' s' hc hs k ℓ d b hu hv

end Spq.Fft.RelN
