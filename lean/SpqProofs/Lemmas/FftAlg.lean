/-
  C06, algebra layer: the radix-2 level network `V` (the "naive halving recursion", breadth first) over a
  commutative ring, and its closed form: after `ℓ` levels cell `p` holds the residue of the input polynomial
  modulo `X^(2^d) − ζ^(2^d (1 + 4·brev ℓ b))` (`b` = block index); after all `k` levels cell `j` holds the
  evaluation at `ζ^(1 + 4·brev k j)`.
-/
import Mathlib.Tactic.Ring
import Mathlib.Tactic.LinearCombination
namespace Spq.Fft.Alg

/-- bit reversal of the `ℓ` low bits -/
def brev : ℕ → ℕ → ℕ
  | 0, _ => 0
  | ℓ + 1, b => brev ℓ (b / 2) + 2 ^ ℓ * (b % 2)

theorem brev_zero_right (ℓ : ℕ) : brev ℓ 0 = 0 := by
  induction ℓ with
  | zero => rfl
  | succ ℓ ih => simp [brev, ih]

theorem brev_even (ℓ b : ℕ) : brev (ℓ + 1) (2 * b) = brev ℓ b := by
  simp [brev]

theorem brev_odd (ℓ b : ℕ) : brev (ℓ + 1) (2 * b + 1) = brev ℓ b + 2 ^ ℓ := by
  have h1 : (2 * b + 1) / 2 = b := by omega
  have h2 : (2 * b + 1) % 2 = 1 := by omega
  simp [brev, h1, h2]

theorem brev_lt (ℓ b : ℕ) : brev ℓ b < 2 ^ ℓ := by
  induction ℓ generalizing b with
  | zero => simp [brev]
  | succ ℓ ih =>
    have := ih (b / 2)
    have h2 : b % 2 < 2 := Nat.mod_lt _ (by omega)
    have : 2 ^ ℓ * (b % 2) ≤ 2 ^ ℓ * 1 := Nat.mul_le_mul_left _ (by omega)
    simp only [brev, pow_succ]
    omega

/-- reversing `ℓ0 + d` bits of `b0·2^d + b` -/
theorem brev_add (ℓ0 d b0 b : ℕ) (hb : b < 2 ^ d) :
    brev (ℓ0 + d) (b0 * 2 ^ d + b) = brev ℓ0 b0 + 2 ^ ℓ0 * brev d b := by
  induction d generalizing b with
  | zero =>
    have : b = 0 := by simpa using hb
    subst this
    simp [brev]
  | succ d ih =>
    have e0 : b0 * 2 ^ (d + 1) = 2 * (b0 * 2 ^ d) := by rw [pow_succ]; ring
    have e1 : (b0 * 2 ^ (d + 1) + b) / 2 = b0 * 2 ^ d + b / 2 := by
      rw [e0]; omega
    have e2 : (b0 * 2 ^ (d + 1) + b) % 2 = b % 2 := by
      rw [e0]; omega
    have hb2 : b / 2 < 2 ^ d := by rw [pow_succ] at hb; omega
    show brev (ℓ0 + d + 1) _ = _
    rw [brev, e1, e2, ih _ hb2, brev, pow_add]
    ring

section sums
variable {R : Type} [CommRing R]

/-- `Σ_{q<n} f q` -/
def sumTo : ℕ → (ℕ → R) → R
  | 0, _ => 0
  | n + 1, f => sumTo n f + f n

theorem sumTo_congr {n : ℕ} {f g : ℕ → R} (h : ∀ q, q < n → f q = g q) : sumTo n f = sumTo n g := by
  induction n with
  | zero => rfl
  | succ n ih =>
    simp only [sumTo]
    rw [ih (fun q hq => h q (by omega)), h n (by omega)]

theorem sumTo_add (n : ℕ) (f g : ℕ → R) : sumTo n (fun q => f q + g q) = sumTo n f + sumTo n g := by
  induction n with
  | zero => simp [sumTo]
  | succ n ih => simp only [sumTo, ih]; ring

theorem sumTo_sub (n : ℕ) (f g : ℕ → R) : sumTo n (fun q => f q - g q) = sumTo n f - sumTo n g := by
  induction n with
  | zero => simp [sumTo]
  | succ n ih => simp only [sumTo, ih]; ring

theorem sumTo_mul_left (n : ℕ) (c : R) (f : ℕ → R) : sumTo n (fun q => c * f q) = c * sumTo n f := by
  induction n with
  | zero => simp [sumTo]
  | succ n ih => simp only [sumTo, ih]; ring

/-- split into even and odd indices -/
theorem sumTo_double (n : ℕ) (f : ℕ → R) :
    sumTo (2 * n) f = sumTo n (fun q => f (2 * q)) + sumTo n (fun q => f (2 * q + 1)) := by
  induction n with
  | zero => simp [sumTo]
  | succ n ih =>
    have : 2 * (n + 1) = 2 * n + 1 + 1 := by ring
    rw [this]
    simp only [sumTo, ih]
    ring

end sums
section levels
variable {R : Type} [CommRing R] (ζ : R) (a : ℕ → R)

/-- twiddle exponent of block `b` when `ℓ` levels are done and the next half-size is `2^d` -/
def twE (ℓ d b : ℕ) : ℕ := 2 ^ d * (1 + 4 * brev ℓ b)

/-- The level network: `V ℓ d p` is the content of cell `p` after `ℓ` radix-2 levels, when the blocks
then have size `2^d` (so the transform size is `2^(ℓ+d)`).  One level: in every block of size `2^(d+1)`,
`(x_p, x_{p+h}) ← (x_p + w·x_{p+h}, x_p − w·x_{p+h})`, `h = 2^d`, `w = ζ^(twE ℓ d b)`. -/
def V : ℕ → ℕ → ℕ → R
  | 0, _, p => a p
  | ℓ + 1, d, p =>
    if p % (2 * 2 ^ d) < 2 ^ d then
      V ℓ (d + 1) p + ζ ^ twE ℓ d (p / (2 * 2 ^ d)) * V ℓ (d + 1) (p + 2 ^ d)
    else
      V ℓ (d + 1) (p - 2 ^ d) - ζ ^ twE ℓ d (p / (2 * 2 ^ d)) * V ℓ (d + 1) p

/-- closed form: residue modulo `X^(2^d) − ζ^(2·twE …)`, coefficient `p % 2^d`, of block `p / 2^d` -/
def C (ℓ d p : ℕ) : R :=
  sumTo (2 ^ ℓ) (fun q => a (p % 2 ^ d + q * 2 ^ d) * ζ ^ (2 ^ d * (1 + 4 * brev ℓ (p / 2 ^ d)) * q))

theorem mul_add_mod' (h c r : ℕ) (hr : r < h) : (h * c + r) % h = r := by
  rw [Nat.mul_add_mod]; exact Nat.mod_eq_of_lt hr
theorem mul_add_div' (h c r : ℕ) (hr : r < h) : (h * c + r) / h = c := by
  have hh : 0 < h := by omega
  rw [Nat.mul_add_div hh, Nat.div_eq_of_lt hr]; simp

theorem split_hi (h b r : ℕ) (hge : h ≤ r) : 2 * h * b + r = h * (2 * b + 1) + (r - h) := by
  have : h * (2 * b + 1) = 2 * h * b + h := by ring
  omega

theorem V_eq_C (k : ℕ) (hζ : ζ ^ (2 * 2 ^ k) = -1) :
    ∀ ℓ d p, ℓ + d = k → p < 2 ^ k → V ζ a ℓ d p = C ζ a ℓ d p := by
  intro ℓ
  induction ℓ with
  | zero =>
    intro d p hd hp
    have hd' : d = k := by omega
    subst hd'
    simp [V, C, sumTo, Nat.mod_eq_of_lt hp]
  | succ ℓ ih =>
    intro d p hk hpk
    have hk' : ℓ + (d + 1) = k := by omega
    have hpos : 0 < 2 ^ d := Nat.two_pow_pos d
    obtain ⟨h, hh⟩ : ∃ h, h = 2 ^ d := ⟨_, rfl⟩
    have hs : 2 ^ (d + 1) = 2 * h := by rw [pow_succ, hh]; ring
    have hM : 2 * 2 ^ k = 4 * h * 2 ^ ℓ := by rw [← hk, hh, pow_add, pow_add]; ring
    have hneg : ζ ^ (4 * h * 2 ^ ℓ) = -1 := by rw [← hM]; exact hζ
    obtain ⟨b, hb⟩ : ∃ b, b = p / (2 * h) := ⟨_, rfl⟩
    obtain ⟨r, hr⟩ : ∃ r, r = p % (2 * h) := ⟨_, rfl⟩
    have hp : p = 2 * h * b + r := by rw [hb, hr]; exact (Nat.div_add_mod p (2 * h)).symm
    have hr2 : r < 2 * h := by rw [hr]; exact Nat.mod_lt _ (by omega)
    obtain ⟨e, he⟩ : ∃ e, e = h * (1 + 4 * brev ℓ b) := ⟨_, rfl⟩
    have hpow2 : 2 ^ (ℓ + 1) = 2 * 2 ^ ℓ := by rw [pow_succ]; ring
    have hk2 : 2 ^ k = 2 * h * 2 ^ ℓ := by rw [← hk, hh, pow_add, pow_add]; ring
    have hbl : b < 2 ^ ℓ := by
      rw [hb]; apply Nat.div_lt_of_lt_mul; rw [← hk2]; exact hpk
    have hblk : 2 * h * (b + 1) ≤ 2 ^ k := by rw [hk2]; exact Nat.mul_le_mul_left _ hbl
    rw [V]
    simp only [← hh, ← hb, ← hr, twE, ← he]
    by_cases hlt : r < h
    · -- lower half: new block 2b
      rw [if_pos hlt, ih _ p hk' hpk, ih _ (p + h) hk' (by rw [Nat.mul_add] at hblk; omega)]
      unfold C
      simp only [hs, ← hh, hpow2]
      have q1 : p % h = r := by rw [hp, show 2 * h * b + r = h * (2 * b) + r by ring]; exact mul_add_mod' _ _ _ hlt
      have q2 : p / h = 2 * b := by rw [hp, show 2 * h * b + r = h * (2 * b) + r by ring]; exact mul_add_div' _ _ _ hlt
      have q3 : p % (2 * h) = r := hr.symm
      have q4 : p / (2 * h) = b := hb.symm
      have q5 : (p + h) % (2 * h) = r + h := by
        rw [hp, show 2 * h * b + r + h = 2 * h * b + (r + h) by ring]; exact mul_add_mod' _ _ _ (by omega)
      have q6 : (p + h) / (2 * h) = b := by
        rw [hp, show 2 * h * b + r + h = 2 * h * b + (r + h) by ring]; exact mul_add_div' _ _ _ (by omega)
      rw [q1, q2, q3, q4, q5, q6, brev_even, sumTo_double, ← he, ← sumTo_mul_left]
      congr 1
      · apply sumTo_congr; intro q _
        rw [show r + 2 * q * h = r + q * (2 * h) by ring, show e * (2 * q) = 2 * e * q by ring,
          show 2 * h * (1 + 4 * brev ℓ b) = 2 * e by rw [he]; ring]
      · apply sumTo_congr; intro q _
        rw [show r + (2 * q + 1) * h = r + h + q * (2 * h) by ring, show e * (2 * q + 1) = e + 2 * e * q by ring,
          show 2 * h * (1 + 4 * brev ℓ b) = 2 * e by rw [he]; ring, pow_add]
        ring
    · -- upper half: new block 2b+1
      rw [if_neg hlt, ih _ p hk' hpk, ih _ (p - h) hk' (by omega)]
      unfold C
      simp only [hs, ← hh, hpow2]
      have hge : h ≤ r := by omega
      have q1 : p % h = r - h := by
        rw [hp, split_hi h b r hge]
        exact mul_add_mod' _ _ _ (by omega)
      have q2 : p / h = 2 * b + 1 := by
        rw [hp, split_hi h b r hge]
        exact mul_add_div' _ _ _ (by omega)
      have q3 : p % (2 * h) = r := hr.symm
      have q4 : p / (2 * h) = b := hb.symm
      have q5 : (p - h) % (2 * h) = r - h := by
        rw [hp, show 2 * h * b + r - h = 2 * h * b + (r - h) by omega]; exact mul_add_mod' _ _ _ (by omega)
      have q6 : (p - h) / (2 * h) = b := by
        rw [hp, show 2 * h * b + r - h = 2 * h * b + (r - h) by omega]; exact mul_add_div' _ _ _ (by omega)
      rw [q1, q2, q3, q4, q5, q6, brev_odd, sumTo_double, ← sumTo_mul_left, ← sumTo_sub]
      have hexp : h * (1 + 4 * (brev ℓ b + 2 ^ ℓ)) = e + 4 * h * 2 ^ ℓ := by rw [he]; ring
      rw [hexp, ← sumTo_add]
      apply sumTo_congr; intro q _
      rw [show r - h + 2 * q * h = r - h + q * (2 * h) by ring,
        show r - h + (2 * q + 1) * h = r + q * (2 * h) by
          rw [show (2 * q + 1) * h = q * (2 * h) + h by ring]; omega,
        show (e + 4 * h * 2 ^ ℓ) * (2 * q) = 2 * e * q + (4 * h * 2 ^ ℓ) * (2 * q) by ring,
        show (e + 4 * h * 2 ^ ℓ) * (2 * q + 1) = e + 2 * e * q + (4 * h * 2 ^ ℓ) * (2 * q + 1) by ring,
        show 2 * h * (1 + 4 * brev ℓ b) = 2 * e by rw [he]; ring,
        pow_add, pow_add, pow_add]
      have e1 : ((-1 : R)) ^ (2 * q) = 1 := by rw [pow_mul]; simp
      have e2 : ((-1 : R)) ^ (2 * q + 1) = -1 := by rw [pow_succ, e1]; simp
      have z1 : ζ ^ (4 * h * 2 ^ ℓ * (2 * q)) = 1 := by rw [pow_mul, hneg, e1]
      have z2 : ζ ^ (4 * h * 2 ^ ℓ * (2 * q + 1)) = -1 := by rw [pow_mul, hneg, e2]
      rw [z1, z2]
      ring

/-- after all `k` levels, cell `j` holds the evaluation at `ζ^(1 + 4·brev k j)` -/
theorem V_top (k : ℕ) (hζ : ζ ^ (2 * 2 ^ k) = -1) (j : ℕ) (hj : j < 2 ^ k) :
    V ζ a k 0 j = sumTo (2 ^ k) (fun i => a i * ζ ^ ((1 + 4 * brev k j) * i)) := by
  rw [V_eq_C ζ a k hζ k 0 j (by omega) hj]
  unfold C
  apply sumTo_congr; intro q _
  simp [Nat.mod_one]

end levels
end Spq.Fft.Alg
