/-
  Specification side of C01 / C02 (module-level FFT64 pipelines in exact arithmetic):
  * `Cx R` is a commutative ring (the instance extends the additive structure of `Reim4Cx`), with the
    embedding `Cx.ofRe : R →+* Cx R` and the unit `Cx.I`;
  * `eval`, the negacyclic product `nmulF` (coefficient formula) and its array form `nmul`;
  * `eval_nmulF` (evaluation at a point with `z^N = -1` is multiplicative) and `reim_evalF`
    (`N = 2m` real coefficients at a point with `z^m = i` = the `m` complex numbers `a_j + i·a_{j+m}`).
-/
import Spq.Module
import SpqProofs.Lemmas.Reim4Cx
import Mathlib.Algebra.BigOperators.Ring.Finset
import Mathlib.Algebra.BigOperators.Intervals
import Mathlib.Tactic.Ring
import Mathlib.Tactic.LinearCombination
namespace Spq
open Finset

namespace Cx
variable {R : Type} [CommRing R]

instance : One (Cx R) := ⟨⟨1, 0⟩⟩
instance : Neg (Cx R) := ⟨fun x => ⟨-x.re, -x.im⟩⟩
@[simp] theorem one_re : (1 : Cx R).re = 1 := rfl
@[simp] theorem one_im : (1 : Cx R).im = 0 := rfl
@[simp] theorem neg_re (x : Cx R) : (-x).re = -x.re := rfl
@[simp] theorem neg_im (x : Cx R) : (-x).im = -x.im := rfl

/-- `Cx R` is a commutative ring; `+`, `*`, `0` and `nsmul` are those of `Reim4Cx` -/
instance instCommRing : CommRing (Cx R) :=
  { (inferInstance : AddCommMonoid (Cx R)) with
    mul := (· * ·)
    one := 1
    neg := Neg.neg
    zsmul := zsmulRec
    left_distrib := by intro a b c; ext <;> simp <;> ring
    right_distrib := by intro a b c; ext <;> simp <;> ring
    zero_mul := by intro a; ext <;> simp
    mul_zero := by intro a; ext <;> simp
    mul_assoc := by intro a b c; ext <;> simp <;> ring
    one_mul := by intro a; ext <;> simp
    mul_one := by intro a; ext <;> simp
    neg_add_cancel := by intro a; ext <;> simp
    mul_comm := by intro a b; ext <;> simp <;> ring }

/-- the embedding of the "real" ring -/
def ofRe : R →+* Cx R where
  toFun r := ⟨r, 0⟩
  map_one' := rfl
  map_mul' := by intro a b; ext <;> simp
  map_zero' := rfl
  map_add' := by intro a b; ext <;> simp

/-- the imaginary unit -/
def I : Cx R := ⟨0, 1⟩

@[simp] theorem ofRe_re (r : R) : (ofRe r).re = r := rfl
@[simp] theorem ofRe_im (r : R) : (ofRe r).im = 0 := rfl
@[simp] theorem I_re : (I : Cx R).re = 0 := rfl
@[simp] theorem I_im : (I : Cx R).im = 1 := rfl

theorem I_mul_I : (I : Cx R) * I = -1 := by ext <;> simp

/-- `⟨a, b⟩ = a + i·b` -/
theorem eq_ofRe_add (x : Cx R) : x = ofRe x.re + I * ofRe x.im := by ext <;> simp

end Cx

theorem cx_eq {R : Type} [CommRing R] (a : Array R) (i j : Nat) :
    cx a i j = Cx.ofRe (a.getD i 0) + Cx.I * Cx.ofRe (a.getD j 0) := Cx.eq_ofRe_add _

/-! ### evaluation and the negacyclic product -/

section spec
variable {K : Type} [CommRing K]

/-- `Σ_{k<N} a_k z^k` -/
def evalF (N : Nat) (a : Nat → K) (z : K) : K := ∑ k ∈ range N, a k * z ^ k

/-- coefficient `k` of `a·b mod X^N + 1`: `Σ_{i+j=k} a_i b_j − Σ_{i+j=k+N} a_i b_j` (`i, j < N`) -/
def nmulF (N : Nat) (a b : Nat → K) (k : Nat) : K :=
  ∑ i ∈ range N, ∑ j ∈ range N,
    ((if i + j = k then a i * b j else 0) - (if i + j = k + N then a i * b j else 0))

theorem eval_term (N i j : Nat) (hi : i < N) (hj : j < N) (x z : K) (hz : z ^ N = -1) :
    ∑ k ∈ range N, ((if i + j = k then x else 0) - (if i + j = k + N then x else 0)) * z ^ k = x * z ^ (i + j) := by
  by_cases h : i + j < N
  · rw [sum_eq_single (i + j)]
    · have : ¬ (i + j = i + j + N) := by omega
      rw [if_pos rfl, if_neg this]; ring
    · intro k _ hk
      have h1 : ¬ (i + j = k) := fun e => hk e.symm
      have h2 : ¬ (i + j = k + N) := by omega
      simp [h1, h2]
    · intro h'; exact absurd (mem_range.2 h) h'
  · rw [sum_eq_single (i + j - N)]
    · have h1 : ¬ (i + j = i + j - N) := by omega
      have h2 : i + j = i + j - N + N := by omega
      have h3 : z ^ (i + j) = z ^ (i + j - N) * z ^ N := by rw [← pow_add, ← h2]
      rw [if_neg h1, if_pos h2, h3, hz]; ring
    · intro k hk hk'
      have := mem_range.1 hk
      have h1 : ¬ (i + j = k) := by omega
      have h2 : ¬ (i + j = k + N) := by omega
      simp [h1, h2]
    · intro h'; exact absurd (mem_range.2 (by omega)) h'

/-- evaluation at a point with `z^N = -1` is multiplicative for the negacyclic product (every `N`) -/
theorem eval_nmulF (N : Nat) (a b : Nat → K) (z : K) (hz : z ^ N = -1) :
    evalF N (nmulF N a b) z = evalF N a z * evalF N b z := by
  unfold evalF nmulF
  rw [sum_mul_sum]
  simp only [sum_mul]
  rw [sum_comm]
  apply sum_congr rfl
  intro i hi
  rw [sum_comm]
  apply sum_congr rfl
  intro j hj
  have e := eval_term N i j (mem_range.1 hi) (mem_range.1 hj) (a i * b j) z hz
  rw [e, pow_add]; ring

/-- `N = 2m` coefficients at a point with `z^m = i`: the `m` numbers `a_k + i·a_{k+m}` at the same point -/
theorem reim_evalF (m : Nat) (a : Nat → K) (z i : K) (hz : z ^ m = i) :
    evalF (2 * m) a z = ∑ k ∈ range m, (a k + i * a (k + m)) * z ^ k := by
  unfold evalF
  have e : 2 * m = m + m := by omega
  rw [e, sum_range_add, ← sum_add_distrib]
  apply sum_congr rfl
  intro k _
  rw [Nat.add_comm m k, pow_add, hz]; ring

/-- a ring homomorphism commutes with the coefficient formula -/
theorem map_nmulF {L : Type} [CommRing L] (f : K →+* L) (N : Nat) (a b : Nat → K) (k : Nat) :
    f (nmulF N a b k) = nmulF N (fun i => f (a i)) (fun i => f (b i)) k := by
  unfold nmulF
  rw [map_sum]
  apply sum_congr rfl; intro i _
  rw [map_sum]
  apply sum_congr rfl; intro j _
  rw [map_sub]
  congr 1
  · split <;> simp
  · split <;> simp

end spec

/-! ### integer arrays -/

/-- coefficient `k` of an integer array (0 outside) -/
def icoef (a : Array Int) (k : Nat) : Int := a.getD k 0

/-- the negacyclic product of two integer arrays of `N` coefficients, as an array of `N` integers -/
def nmul (N : Nat) (a b : Array Int) : Array Int :=
  Array.ofFn (n := N) (fun k => nmulF N (icoef a) (icoef b) k.val)

/-- sum of integer arrays of `N` coefficients (`Σ_{i<n} f i`) -/
def isum (N n : Nat) (f : Nat → Array Int) : Array Int :=
  Array.ofFn (n := N) (fun k => ∑ i ∈ range n, icoef (f i) k.val)

@[simp] theorem size_nmul (N : Nat) (a b : Array Int) : (nmul N a b).size = N := by simp [nmul]
@[simp] theorem size_isum (N n : Nat) (f : Nat → Array Int) : (isum N n f).size = N := by simp [isum]

theorem icoef_nmul (N : Nat) (a b : Array Int) (k : Nat) (hk : k < N) :
    icoef (nmul N a b) k = nmulF N (icoef a) (icoef b) k := by
  simp [icoef, nmul, Array.getD_eq_getD_getElem?, hk]

theorem icoef_isum (N n : Nat) (f : Nat → Array Int) (k : Nat) (hk : k < N) :
    icoef (isum N n f) k = ∑ i ∈ range n, icoef (f i) k := by
  simp [icoef, isum, Array.getD_eq_getD_getElem?, hk]

/-! ### the hypotheses of the exact-arithmetic theorems -/

namespace Module
variable {R : Type} [CommRing R]

/-- the module computes in the exact arithmetic of the commutative ring `R`; `nn = 2m ≥ 2`; the
    dispatch invariants of the library: the reim4 layout is used only when `4 ∣ m`, the FMA pointwise
    kernels are installed only when `m ≥ 4` is a power of two (`reim_fftvec_{mul,addmul}_fma` loop by 4) -/
structure ExactArith (c : Parts R) : Prop where
  har : c.ar = RArith.ofRing R
  hnn : c.nn = 2 * c.m
  hm : 0 < c.m
  hblk : 8 ≤ c.nn → c.m % 4 = 0
  hmul : c.mulFma = true → c.m % 4 = 0
  haddmul : c.addmulFma = true → c.m % 4 = 0

/-- H1–H4: what the conversions (C14) and the FFT (C06) contribute, with abstract evaluation points `z` -/
structure ExactDft (c : Parts R) (z : Nat → Cx R) : Prop where
  /-- H1: `fromZnx` is the exact embedding, cell by cell (so complex `j` is `x_j + i·x_{j+m}`) -/
  fromZnx_size : ∀ x : Array Int, x.size = c.nn → (c.fromZnx x).size = c.nn
  fromZnx_get : ∀ x : Array Int, x.size = c.nn → ∀ k, k < c.nn → (c.fromZnx x).getD k 0 = ((icoef x k : Int) : R)
  /-- H2: `fft` evaluates the `m` complex coefficients at the points `z_j`, `z_j^m = i` -/
  hz : ∀ j, j < c.m → z j ^ c.m = Cx.I
  fft_size : ∀ d : Array R, d.size = c.nn → (c.fft d).size = c.nn
  fft_eval : ∀ d : Array R, d.size = c.nn → ∀ j, j < c.m →
    cx (c.fft d) j (j + c.m) = ∑ k ∈ range c.m, cx d k (k + c.m) * z j ^ k
  /-- H3: `ifft` is a left inverse of `fft` up to the factor `m` -/
  ifft_size : ∀ d : Array R, d.size = c.nn → (c.ifft (c.fft d)).size = c.nn
  ifft_fft : ∀ d : Array R, d.size = c.nn → ∀ t, t < c.nn → (c.ifft (c.fft d)).getD t 0 = (c.m : R) * d.getD t 0
  /-- H4: `toZnx` divides exact multiples of `m` and returns the integers -/
  toZnx_round : ∀ (d : Array R) (cs : Array Int), d.size = c.nn → cs.size = c.nn →
    (∀ t, t < c.nn → d.getD t 0 = (c.m : R) * ((icoef cs t : Int) : R)) → c.toZnx d = cs

end Module

end Spq
