/-
  C16, binary64 side, step 2: the round trip through the final conversion.
  `rt_exact`: `toZnx (ifft (fft (fromZnx a))) = (a_0 … a_{N-1})` when `(2ε+ε²)·na < 1/2` (box `|a_i| < 2^50`, flags
  `RtOk`, twiddle accuracy).  `rtRel_le16`: `2ε+ε² ≤ 17·(k+1)·2^-53` for `k ≤ 16`.
-/
import SpqProofs.Lemmas.ProgErrRt
set_option linter.unusedSectionVars false
namespace Spq.ProgErr
open Finset Spq Spq.Module Spq.Fft Spq.Fft.Alg Spq.Fft.SimP Spq.Fft.LevelN Spq.Fft.SchedN Spq.Fft.RelN Spq.FftErr Spq.F64
  Spq.Reim4 Spq.C06Err Spq.ProdErr Spq.VmpErr Spq.Conv
variable {K : Type} [Field K] [LinearOrder K] [IsStrictOrderedRing K]

/-- the `N` coefficients of `a` as an array of exactly `N` cells -/
def firstN (N : ℕ) (a : Array Int) : Array Int := Array.ofFn (n := N) fun t => a.getD t.val 0

@[simp] theorem size_firstN (N : ℕ) (a : Array Int) : (firstN N a).size = N := by simp [firstN]

theorem getD_firstN (N : ℕ) (a : Array Int) (t : ℕ) (ht : t < N) : (firstN N a).getD t 0 = a.getD t 0 := by
  simp [firstN, Array.getD_eq_getD_getElem?, ht]

theorem firstN_of_size (N : ℕ) (a : Array Int) (h : a.size = N) : firstN N a = a := by
  apply Array.ext
  · simp [h]
  · intro i h1 h2
    simp [firstN, Array.getD_eq_getD_getElem?, h2]

theorem rtRel_le16 (k : ℕ) (hk : k ≤ 16) : rtRel K k ≤ ((17 * (k + 1 : ℚ) * u64 : ℚ) : K) := by
  have hb := bound16 k hk
  have h1 : (1 : ℚ) ≤ (1 + 8 * u64) ^ k := one_le_pow₀ (by unfold u64; norm_num)
  have hq : 2 * ((1 + 8 * u64) ^ k - 1) + ((1 + 8 * u64) ^ k - 1) ^ 2 ≤ 17 * (k + 1 : ℚ) * u64 := by
    have he0 : (0 : ℚ) ≤ (1 + 8 * u64) ^ k - 1 := by linarith
    have hk' : (k : ℚ) ≤ 16 := by exact_mod_cast hk
    have hu : u64 = 1 / 9007199254740992 := by unfold u64; norm_num
    have he8 : (1 + 8 * u64) ^ k - 1 ≤ 1 / 8 := by
      refine le_trans hb ?_
      rw [hu]; nlinarith
    have hk0 : (0 : ℚ) ≤ (k : ℚ) := by positivity
    have hu0 : (0 : ℚ) < u64 := u64_pos
    nlinarith
  have := (Rat.cast_le (K := K)).2 hq
  unfold rtRel
  rw [eps_cast]
  refine le_trans (le_of_eq ?_) this
  push_cast; ring

/-- every output coefficient of the round trip is an integer within `(2ε+ε²)·na + 1/2` of the input coefficient -/
theorem rt_out (c : Cfg) (k : ℕ) (hk : k ≤ 961) (cN sN cNi sNi : ℕ → ℕ) (h : CfgOk c k cN sN cNi sNi)
    (ζ ζi : Cplx K) (hζ : nsq ζ = 1) (hI : ζ ^ 2 ^ k = Ic) (hinv : ζ * ζi = 1)
    (hcs : ∀ ℓ d b, ℓ + d + 1 = k → b < 2 ^ ℓ →
      nsq (toC (((val (cN (twE ℓ d b)) : ℚ) : K), ((val (sN (twE ℓ d b)) : ℚ) : K)) - ζ ^ twE ℓ d b) ≤
        (((7 / 2 * u64 : ℚ)) : K) ^ 2)
    (hcsi : ∀ ℓ d b, ℓ + d + 1 = k → b < 2 ^ ℓ →
      nsq (toC (((val (cNi (twE ℓ d b)) : ℚ) : K), ((val (sNi (twE ℓ d b)) : ℚ) : K)) - ζi ^ twE ℓ d b) ≤
        (((7 / 2 * u64 : ℚ)) : K) ^ 2)
    (a : Array Int)
    (ha : ∀ i, i < 2 * 2 ^ k → -1125899906842624 < a.getD i 0 ∧ a.getD i 0 < 1125899906842624)
    (hok : RtOk c k cN sN cNi sNi a) (na : K) (hna0 : 0 ≤ na) (hna : n2sq K a (2 * 2 ^ k) ≤ na ^ 2)
    (hdom : ∀ i, i < 2 * 2 ^ k → |((a.getD i 0 : Int) : K)| + rtRel K k * na < ((Bv c.toVariant : ℚ) : K)) :
    ∀ i, i < 2 * 2 ^ k → ∃ r : ℤ, ((Cfg.parts c).toZnx (rtI c k cN sN cNi sNi a))[i]? = some r ∧
      |(r : K) - ((a.getD i 0 : Int) : K)| ≤ rtRel K k * na + 1 / 2 := by
  obtain ⟨hfin, herr⟩ := rt_stage c k cN sN cNi sNi h ζ ζi hζ hI hinv hcs hcsi a ha hok na hna0 hna
  intro i hi
  have hP : (0 : K) < 2 ^ k := by positivity
  have he := herr i hi
  have hf := hfin i hi
  rw [getElem!_nat] at he hf
  obtain ⟨x, hx⟩ : ∃ x, x = (rtI c k cN sN cNi sNi a).getD i 0 := ⟨_, rfl⟩
  obtain ⟨ci, hci⟩ : ∃ ci : K, ci = ((a.getD i 0 : Int) : K) := ⟨_, rfl⟩
  have hd := hdom i hi
  rw [← hx] at he hf
  rw [← hci] at he hd ⊢
  have hdomQ : |val x| < Bv c.toVariant * 2 ^ k := by
    have h1 : |((val x : ℚ) : K)| ≤ 2 ^ k * |ci| + rtRel K k * na * 2 ^ k := by
      have : ((val x : ℚ) : K) = (((val x : ℚ) : K) - 2 ^ k * ci) + 2 ^ k * ci := by ring
      rw [this]
      refine le_trans (abs_add_le _ _) ?_
      rw [abs_mul, abs_of_pos hP]
      linarith
    have h2 : |((val x : ℚ) : K)| < ((Bv c.toVariant : ℚ) : K) * 2 ^ k := by
      have := mul_lt_mul_of_pos_right hd hP
      nlinarith
    have h3 : ((|val x| : ℚ) : K) < ((Bv c.toVariant * 2 ^ k : ℚ) : K) := by
      push_cast; exact h2
    exact (Rat.cast_lt (K := K)).1 h3
  obtain ⟨r, hr1, hr2⟩ := toZnx_spec c k hk h.nn h.toVar (rtI c k cN sN cNi sNi a) i hi (by rw [← hx]; exact hf.1)
    (by rw [← hx]; exact hdomQ)
  rw [← hx] at hr2
  refine ⟨r, hr1, ?_⟩
  have hr3 : |(r : K) * 2 ^ k - ((val x : ℚ) : K)| ≤ 2 ^ k / 2 := by
    have := (Rat.cast_le (K := K)).2 hr2
    push_cast at this
    exact this
  have h4 : |(r : K) - ci| * 2 ^ k ≤ (rtRel K k * na + 1 / 2) * 2 ^ k := by
    have e : ((r : K) - ci) * 2 ^ k = ((r : K) * 2 ^ k - ((val x : ℚ) : K)) + (((val x : ℚ) : K) - 2 ^ k * ci) := by ring
    rw [← abs_of_pos hP, ← abs_mul, e, abs_of_pos hP]
    refine le_trans (abs_add_le _ _) ?_
    linarith
  exact le_of_mul_le_mul_right h4 hP

/-- **round trip, exact**: `(2ε+ε²)·na < 1/2` ⇒ `toZnx (ifft (fft (fromZnx a)))` is the array of the `N`
    coefficients of `a` -/
theorem rt_exact (c : Cfg) (k : ℕ) (hk : k ≤ 961) (cN sN cNi sNi : ℕ → ℕ) (h : CfgOk c k cN sN cNi sNi)
    (ζ ζi : Cplx K) (hζ : nsq ζ = 1) (hI : ζ ^ 2 ^ k = Ic) (hinv : ζ * ζi = 1)
    (hcs : ∀ ℓ d b, ℓ + d + 1 = k → b < 2 ^ ℓ →
      nsq (toC (((val (cN (twE ℓ d b)) : ℚ) : K), ((val (sN (twE ℓ d b)) : ℚ) : K)) - ζ ^ twE ℓ d b) ≤
        (((7 / 2 * u64 : ℚ)) : K) ^ 2)
    (hcsi : ∀ ℓ d b, ℓ + d + 1 = k → b < 2 ^ ℓ →
      nsq (toC (((val (cNi (twE ℓ d b)) : ℚ) : K), ((val (sNi (twE ℓ d b)) : ℚ) : K)) - ζi ^ twE ℓ d b) ≤
        (((7 / 2 * u64 : ℚ)) : K) ^ 2)
    (a : Array Int)
    (ha : ∀ i, i < 2 * 2 ^ k → -1125899906842624 < a.getD i 0 ∧ a.getD i 0 < 1125899906842624)
    (hok : RtOk c k cN sN cNi sNi a) (na : K) (hna0 : 0 ≤ na) (hna : n2sq K a (2 * 2 ^ k) ≤ na ^ 2)
    (hE : rtRel K k * na < 1 / 2) :
    (Cfg.parts c).toZnx ((Cfg.parts c).ifft ((Cfg.parts c).fft ((Cfg.parts c).fromZnx a))) = firstN (2 * 2 ^ k) a := by
  rw [parts_fft c k cN sN cNi sNi h, parts_ifft c k cN sN cNi sNi h]
  have hdom : ∀ i, i < 2 * 2 ^ k → |((a.getD i 0 : Int) : K)| + rtRel K k * na < ((Bv c.toVariant : ℚ) : K) := by
    intro i hi
    obtain ⟨h1, h2⟩ := ha i hi
    have hBv : ((1125899906842624 : ℚ) : K) ≤ ((Bv c.toVariant : ℚ) : K) := (Rat.cast_le (K := K)).2 (Bv_ge _)
    have hBv' : (1125899906842624 : K) ≤ ((Bv c.toVariant : ℚ) : K) := by
      refine le_trans (le_of_eq ?_) hBv; push_cast; rfl
    have h3 : |a.getD i 0| ≤ 1125899906842623 := by
      rw [abs_le]; constructor <;> omega
    have h4 : ((|a.getD i 0| : ℤ) : K) ≤ ((1125899906842623 : ℤ) : K) := Int.cast_le.2 h3
    rw [Int.cast_abs] at h4
    have h5 : ((1125899906842623 : ℤ) : K) = 1125899906842623 := by norm_cast
    rw [h5] at h4
    linarith
  apply array_eq_of_cells (2 * 2 ^ k)
  · exact toZnx_size c k h.nn h.toVar _
  · exact size_firstN _ _
  · intro i hi
    obtain ⟨r, h1, h2⟩ := rt_out c k hk cN sN cNi sNi h ζ ζi hζ hI hinv hcs hcsi a ha hok na hna0 hna hdom i hi
    refine ⟨r, h1, ?_⟩
    rw [getD_firstN _ _ _ hi]
    exact int_eq_of_lt_one (K := K) r _ (by linarith)

/-- **metric form of a raw transform**: the computed `vec_znx_dft` limb of an integer polynomial in the box is finite
    and within `ε·na·√m` (2-norm over the `m` complex points) of the exact transform `V ζ (pkC a)` -/
theorem fwd_metric (c : Cfg) (k : ℕ) (cN sN cNi sNi : ℕ → ℕ) (h : CfgOk c k cN sN cNi sNi)
    (ζ : Cplx K) (hζ : nsq ζ = 1) (hI : ζ ^ 2 ^ k = Ic)
    (hcs : ∀ ℓ d b, ℓ + d + 1 = k → b < 2 ^ ℓ →
      nsq (toC (((val (cN (twE ℓ d b)) : ℚ) : K), ((val (sN (twE ℓ d b)) : ℚ) : K)) - ζ ^ twE ℓ d b) ≤
        (((7 / 2 * u64 : ℚ)) : K) ^ 2)
    (a : Array Int)
    (ha : ∀ i, i < 2 * 2 ^ k → -1125899906842624 < a.getD i 0 ∧ a.getD i 0 < 1125899906842624)
    (hok : FwdOk c k cN sN a) (na : K) (hna : n2sq K a (2 * 2 ^ k) ≤ na ^ 2) :
    (∀ p, p < 2 * 2 ^ k → Fin64 ((stF c k cN sN a)[p]!)) ∧
    ∑ j ∈ range (2 ^ k), nsq (outC (stF c k cN sN a) k j - V ζ (pkC a (2 ^ k)) k 0 j) ≤ (eps K k * na) ^ 2 * 2 ^ k := by
  obtain ⟨hAsz, _⟩ := fromZnx_spec c k h.nn h.fromBnd50 a ha
  have FA := reim_fft_err c.fftFma k ζ hζ hI cN sN hcs _ hAsz hok
  refine ⟨FA.1, ?_⟩
  have eA : ∀ j ∈ range (2 ^ k), exactOut ζ k ((Cfg.parts c).fromZnx a) j = V ζ (pkC a (2 ^ k)) k 0 j :=
    fun j hj => exactOut_conv c k h.nn h.fromBnd50 ζ hI a ha j (mem_range.1 hj)
  have hA : ∑ j ∈ range (2 ^ k), nsq (outC (stF c k cN sN a) k j - V ζ (pkC a (2 ^ k)) k 0 j) ≤
      eps K k ^ 2 * ∑ j ∈ range (2 ^ k), nsq (V ζ (pkC a (2 ^ k)) k 0 j) := by
    have e1 : ∑ j ∈ range (2 ^ k), nsq (outC (stF c k cN sN a) k j - V ζ (pkC a (2 ^ k)) k 0 j) =
        ∑ j ∈ range (2 ^ k), nsq (outC (stF c k cN sN a) k j - exactOut ζ k ((Cfg.parts c).fromZnx a) j) :=
      sum_congr rfl (fun j hj => by rw [eA j hj])
    have e2 : ∑ j ∈ range (2 ^ k), nsq (V ζ (pkC a (2 ^ k)) k 0 j) =
        ∑ j ∈ range (2 ^ k), nsq (exactOut ζ k ((Cfg.parts c).fromZnx a) j) :=
      sum_congr rfl (fun j hj => by rw [eA j hj])
    rw [e1, e2]
    exact FA.2
  have hM0 : (0 : K) ≤ 2 ^ k := by positivity
  have hAn : ∑ j ∈ range (2 ^ k), nsq (V ζ (pkC a (2 ^ k)) k 0 j) ≤ na ^ 2 * 2 ^ k := by
    rw [V_sum k ζ hζ a, mul_comm]
    exact mul_le_mul_of_nonneg_right hna hM0
  refine le_trans hA ?_
  have := mul_le_mul_of_nonneg_left hAn (show (0 : K) ≤ eps K k ^ 2 by positivity)
  rw [show (eps K k * na) ^ 2 * 2 ^ k = eps K k ^ 2 * (na ^ 2 * 2 ^ k) by ring]
  exact this

end Spq.ProgErr
