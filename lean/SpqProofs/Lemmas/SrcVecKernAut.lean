/-
  Arena forms of the automorphism kernels (out of place and in place), for `vec_znx_automorphism_ref`.
-/
import SpqProofs.Lemmas.SrcVecKern
import SpqProofs.Properties.SrcAutIn
namespace Spq.CIR
open Spq Spq.Src

section
variable (m0 : Mem) (B : Nat) (hB : B < m0.size) (X : Array Int) (nn : Nat)
include hB

theorem arena_automorphism (t : Nat) (ht : t ≤ 63) (hnn : nn = 2 ^ t) (p : Int) (ro ao : Nat)
    (hr : ro + nn ≤ X.size) (ha : ao + nn ≤ X.size) (hd : ro + nn ≤ ao ∨ ao + nn ≤ ro) :
    ∀ fuel, nn ≤ fuel →
      run fuel Gen.CSrc.znx_automorphism_i64 [(nn : Int), p] [some (B, ro), some (B, ao)] (m0.setIfInBounds B X)
        = .ok (m0.setIfInBounds B
            (Heap.writeArr X ro (Coeffs.automorphism i64Ops nn p (win X ao nn) (win X ro nn)))) := by
  intro fuel hf
  have hn1 : 1 ≤ nn := hnn ▸ one_le_pow2 t
  have hne : ao ≠ ro := by omega
  have hk1 : kOf ao ro 1 = 1 := by simp [kOf, hne]
  have hk := src_znx_automorphism_i64_eq_model t ht nn hnn p #[win X ro nn, win X ao nn] 0 1 (by decide)
    (by simp [buf]) (by simp [buf]) fuel hf
  have hW := win2 B nn ro ao (Or.inr hd)
  have hM := mr2 B nn ro ao X hr ha
  rw [hk1] at hW hM
  have := run_window B nn _ _ 0 0 ro m0 X hB hW Gen.CSrc.znx_automorphism_i64 (by decide) (by decide)
    _ _ hM rfl rfl _ fuel hk
  rw [this]
  simp [buf]

theorem arena_automorphism_inplace (t : Nat) (ht : t ≤ 62) (hnn : nn = 2 ^ t) (p : Int) (hp : p % 2 = 1)
    (ro : Nat) (hr : ro + nn ≤ X.size) :
    ∀ fuel, 3 * nn + 64 ≤ fuel →
      run fuel Gen.CSrc.znx_automorphism_inplace_i64 [(nn : Int), p] [some (B, ro)] (m0.setIfInBounds B X)
        = .ok (m0.setIfInBounds B
            (Heap.writeArr X ro (Coeffs.automorphismInplace i64Ops nn p (win X ro nn)))) := by
  intro fuel hf
  have hk := src_znx_automorphism_inplace_i64_eq_model t ht nn hnn p hp #[win X ro nn] 0 (by simp [buf]) fuel hf
  have := run_window B nn _ _ 0 0 ro m0 X hB (win1 B nn ro) Gen.CSrc.znx_automorphism_inplace_i64 (by decide)
    (by decide) _ _ (mr1 B nn ro X hr) rfl rfl _ fuel hk
  rw [this]
  simp [buf]

end
end Spq.CIR
