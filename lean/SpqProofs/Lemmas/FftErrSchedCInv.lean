/-
  C06.4, structural schedule theorem (inverse cplx), part 1: the per-block butterflies `gNetCI` (the odd-log pass of
  `cibfs16` comes right after the leaves, so the `−i·ω̄` levels depend on the parity of the `bfs16` region),
  table readers, twiddle pass, leaves and radix-4 levels.
-/
import SpqProofs.Lemmas.FftErrSchedCFwd3
import SpqProofs.Lemmas.FftErrSchedInvTop
import SpqProofs.Lemmas.FftCplxInv
set_option linter.unusedSectionVars false
set_option linter.unusedSimpArgs false
namespace Spq.Fft.SchedC
open Spq.Fft Spq.Fft.Alg Spq.Fft.View Spq.Fft.Sim Spq.Fft.SimP Spq.Fft.LevelN Spq.Fft.KernN Spq.Fft.Tw Spq.Fft.SchedN
open Spq.Fft.Kern (ileafE)
open Spq.Fft.Tab (length_flatMap_const)
open Spq.Fft.Sched (iter_counter)

variable {R : Type} [Inhabited R]

/-- levels (`r = k − ℓ`) whose odd blocks run the `−i·ω̄` butterfly in the inverse cplx transform of size `2^k` -/
def clvI (k r : ℕ) : Bool := r ≤ 3 || (5 ≤ r && r ≤ 10 && (r % 2 != (min k 11) % 2))

/-- the butterfly of block `b` at level `(ℓ, d)` of the inverse cplx transform of size `2^k`;
`c e`, `s e`: the stored cos / −sin of exponent `e` -/
def gNetCI (F : CFlav R) (c s : ℕ → R) (k ℓ d b : ℕ) : R × R → R × R → (R × R) × (R × R) :=
  if k ≤ 3 then
    (if d = 0 then lastV F.last (c (twE ℓ d b)) (s (twE ℓ d b)) (c (twE ℓ d b)) (s (twE ℓ d b))
     else bfV F.ctTop (c (twE ℓ d b)) (s (twE ℓ d b)))
  else if 12 ≤ k - ℓ then bfV F.ctTop (c (twE ℓ d b)) (s (twE ℓ d b))
  else if k - ℓ = 5 ∧ (min k 11) % 2 = 1 then bfV F.ctOdd (c (twE ℓ d b)) (s (twE ℓ d b))
  else if clvI k (k - ℓ) && b % 2 == 1 then bfV F.big.cit (c (twE ℓ d (b - 1))) (s (twE ℓ d (b - 1)))
  else bfV F.big.ct (c (twE ℓ d b)) (s (twE ℓ d b))

variable (F : CFlav R) (c s : ℕ → R) (k : ℕ) (y : ℕ → R × R)

theorem gNetCI_ct (ℓ d b : ℕ) (hk : 4 ≤ k) (hr : k - ℓ ≤ 11) (h5 : ¬ (k - ℓ = 5 ∧ (min k 11) % 2 = 1))
    (h : clvI k (k - ℓ) = false ∨ b % 2 = 0) :
    gNetCI F c s k ℓ d b = bfV F.big.ct (c (twE ℓ d b)) (s (twE ℓ d b)) := by
  unfold gNetCI
  rw [if_neg (by omega), if_neg (by omega), if_neg h5]
  rcases h with h | h
  · rw [h]; simp
  · rw [h]; simp

theorem gNetCI_cit (ℓ d b : ℕ) (hk : 4 ≤ k) (hr : k - ℓ ≤ 11) (h5 : ¬ (k - ℓ = 5 ∧ (min k 11) % 2 = 1))
    (h : clvI k (k - ℓ) = true) :
    gNetCI F c s k ℓ d (2 * b + 1) = bfV F.big.cit (c (twE ℓ d (2 * b))) (s (twE ℓ d (2 * b))) := by
  unfold gNetCI
  rw [if_neg (by omega), if_neg (by omega), if_neg h5, h, show (2 * b + 1) % 2 = 1 by omega,
    show 2 * b + 1 - 1 = 2 * b by omega]
  simp

theorem gNetCI_odd (ℓ d b : ℕ) (hk : 4 ≤ k) (hr : k - ℓ = 5) (ho : (min k 11) % 2 = 1) :
    gNetCI F c s k ℓ d b = bfV F.ctOdd (c (twE ℓ d b)) (s (twE ℓ d b)) := by
  unfold gNetCI
  rw [if_neg (by omega), if_neg (by omega), if_pos ⟨hr, ho⟩]

theorem gNetCI_top (ℓ d b : ℕ) (hk : 4 ≤ k) (hr : 12 ≤ k - ℓ) :
    gNetCI F c s k ℓ d b = bfV F.ctTop (c (twE ℓ d b)) (s (twE ℓ d b)) := by
  unfold gNetCI
  rw [if_neg (by omega), if_pos hr]

theorem gNetCI_small (ℓ d b : ℕ) (hk : k ≤ 3) (hd : d ≠ 0) :
    gNetCI F c s k ℓ d b = bfV F.ctTop (c (twE ℓ d b)) (s (twE ℓ d b)) := by
  unfold gNetCI
  rw [if_pos hk, if_neg hd]

theorem gNetCI_last (ℓ b : ℕ) (hk : k ≤ 3) :
    gNetCI F c s k ℓ 0 b = lastV F.last (c (twE ℓ 0 b)) (s (twE ℓ 0 b)) (c (twE ℓ 0 b)) (s (twE ℓ 0 b)) := by
  unfold gNetCI
  rw [if_pos hk, if_pos rfl]

variable (g : ℕ → ℕ → ℕ → R × R → R × R → (R × R) × (R × R))

/-- inverse `twPassL` (the second copy of the twiddle matters only when `lanes`) -/
theorem itwPassL_advN (f : Bf R) (lanes : Bool) (T : Array R) (t N ℓ d b off : ℕ) (s0 : RI R) (hs : Valid N s0)
    (hℓ : ℓ = k - 1 - d) (hoff : off = 2 * 2 ^ d * b) (hN : off + 2 * 2 ^ d ≤ N)
    (hq0 : bfV f T[t]! T[t + 1]! = g ℓ d b) (hq1 : lanes = true → bfV f T[t + 2]! T[t + 3]! = g ℓ d b) :
    AdvI k g y (prs s0) (prs (twPassL f lanes T t (2 ^ d) off s0)) d (d + 1) off (2 * 2 ^ d) ∧
      Valid N (twPassL f lanes T t (2 ^ d) off s0) := by
  unfold twPassL
  have l := SimP.loop_sim N
    (fun i s => bf f s (off + i) (off + 2 ^ d + i) T[if (lanes && i % 2 == 1) = true then t + 2 else t]!
      T[(if (lanes && i % 2 == 1) = true then t + 2 else t) + 1]!)
    (fun i x => G (fun u v => (g ℓ d b u v).1) (fun u v => (g ℓ d b u v).2) (off + i) (off + 2 ^ d + i) x) (2 ^ d)
    (fun j s hj hs => by
      by_cases hc : (lanes && j % 2 == 1) = true
      · have hl : lanes = true := by cases lanes <;> simp_all
        rw [if_pos hc, show t + 2 + 1 = t + 3 by ring]
        exact SimP.bf_sim N f _ _ _ _ (real_of_eq f _ _ _ (hq1 hl)) s _ _ hs (by omega) (by omega) (by omega)
      · rw [if_neg hc]
        exact SimP.bf_sim N f _ _ _ _ (real_of_eq f _ _ _ hq0) s _ _ hs (by omega) (by omega) (by omega)) s0 hs
  rw [loop1] at l
  rw [l.1]
  exact ⟨AdvI.tw k g y _ ℓ d b off hℓ hoff _ _ (fun _ _ => ⟨rfl, rfl⟩), l.2⟩

theorem ipair1_advG (f : Bf R) (wr wi : R) (N ℓ b p : ℕ) (s0 : RI R) (hs : Valid N s0) (hℓ : ℓ = k - 1 - 0)
    (hp : p = 2 * b) (hN : p + 2 ≤ N) (hq : bfV f wr wi = g ℓ 0 b) :
    AdvI k g y (prs s0) (prs (bf f s0 p (p + 1) wr wi)) 0 1 p 2 ∧ Valid N (bf f s0 p (p + 1) wr wi) := by
  have h1 := SimP.bf_sim N f wr wi _ _ (realP f wr wi) s0 p (p + 1) hs (by omega) (by omega) (by omega)
  rw [h1.1, G_eq_twG1]
  exact ⟨AdvI.tw k g y _ ℓ 0 b p hℓ (by omega) _ _ (bq_of_eq f wr wi _ hq), h1.2⟩

/-- the cplx inverse leaf pack read through `cplxW16` -/
theorem icleaf_readN (T : Array R) (t e U : ℕ) (h : SegP T t ((ciFill16 U e).map (valP c s))) :
    ∀ q, q < 8 → cplxW16 T t q = (c (ileafE e U q), s (ileafE e U q)) := by
  have hl : ((ciFill16 U e).map (valP c s)).length = 16 := by simp [ciFill16, eM, gam]
  have g : ∀ j, j < 16 → T[t + j]! = ((ciFill16 U e).map (valP c s))[j]! := fun j hj => h j (by omega)
  intro q hq
  have : q = 0 ∨ q = 1 ∨ q = 2 ∨ q = 3 ∨ q = 4 ∨ q = 5 ∨ q = 6 ∨ q = 7 := by omega
  rcases this with rfl | rfl | rfl | rfl | rfl | rfl | rfl | rfl
  · have a := g 0 (by omega); have b := g 1 (by omega)
    simp only [Nat.add_zero] at a
    simp only [cplxW16, ileafE, Nat.reduceMul, Nat.reduceAdd, Nat.add_zero, Nat.add_assoc]
    rw [a, b]; simp [ciFill16, eM, gam, valP, Nat.add_assoc]
  · have a := g 2 (by omega); have b := g 3 (by omega)
    simp only [cplxW16, ileafE, Nat.reduceMul, Nat.reduceAdd, Nat.add_zero, Nat.add_assoc]
    rw [a, b]; simp [ciFill16, eM, gam, valP, Nat.add_assoc]
  · have a := g 4 (by omega); have b := g 5 (by omega)
    simp only [cplxW16, ileafE, Nat.reduceMul, Nat.reduceAdd, Nat.add_zero, Nat.add_assoc]
    rw [a, b]; simp [ciFill16, eM, gam, valP, Nat.add_assoc]
  · have a := g 6 (by omega); have b := g 7 (by omega)
    simp only [cplxW16, ileafE, Nat.reduceMul, Nat.reduceAdd, Nat.add_zero, Nat.add_assoc]
    rw [a, b]; simp [ciFill16, eM, gam, valP, Nat.add_assoc]
  · have a := g 8 (by omega); have b := g 9 (by omega)
    simp only [cplxW16, ileafE, Nat.reduceMul, Nat.reduceAdd, Nat.add_zero, Nat.add_assoc]
    rw [a, b]; simp [ciFill16, eM, gam, valP, Nat.add_assoc]
  · have a := g 10 (by omega); have b := g 11 (by omega)
    simp only [cplxW16, ileafE, Nat.reduceMul, Nat.reduceAdd, Nat.add_zero, Nat.add_assoc]
    rw [a, b]; simp [ciFill16, eM, gam, valP, Nat.add_assoc]
  · have a := g 12 (by omega); have b := g 13 (by omega)
    simp only [cplxW16, ileafE, Nat.reduceMul, Nat.reduceAdd, Nat.add_zero, Nat.add_assoc]
    rw [a, b]; simp [ciFill16, eM, gam, valP, Nat.add_assoc]
  · have a := g 14 (by omega); have b := g 15 (by omega)
    simp only [cplxW16, ileafE, Nat.reduceMul, Nat.reduceAdd, Nat.add_zero, Nat.add_assoc]
    rw [a, b]; simp [ciFill16, eM, gam, valP, Nat.add_assoc]

/-- one inverse 16-point leaf on block `B` of level `k − 4` -/
theorem icleaf_stepN (T : Array R) (t N ℓ B off e : ℕ) (s0 : RI R) (hs : Valid N s0) (hoff : off = 16 * B)
    (hN : off + 16 ≤ N) (hk : k = ℓ + 4) (he : e = 16 * (1 + 4 * brev ℓ B))
    (hT : SegP T t ((ciFill16 (4 * 2 ^ k) e).map (valP c s))) :
    AdvI k (gNetCI F c s k) y (prs s0) (prs (ifft16K F.big (cplxW16 T t) off s0)) 0 4 off 16 ∧ Valid N (ifft16K F.big (cplxW16 T t) off s0) := by
  have hw := icleaf_readN c s T t e (4 * 2 ^ k) hT
  obtain ⟨x0, x1, x2, x3, x4, x5, x6, x7⟩ := leaf_exps ℓ B e (4 * 2 ^ k) he (by rw [hk])
  have w0 := hw 0 (by omega); have w1 := hw 1 (by omega); have w2 := hw 2 (by omega)
  have w3 := hw 3 (by omega); have w4 := hw 4 (by omega); have w5 := hw 5 (by omega)
  have w6 := hw 6 (by omega); have w7 := hw 7 (by omega)
  simp only [ileafE] at w0 w1 w2 w3 w4 w5 w6 w7
  rw [x4] at w0; rw [x5] at w1; rw [x6] at w2; rw [x7] at w3; rw [x2] at w4; rw [x3] at w5; rw [x1] at w6
  rw [x0] at w7
  have c4 : clvI k (k - ℓ) = false := by rw [show k - ℓ = 4 by omega]; simp [clvI]
  have c3 : clvI k (k - (ℓ + 1)) = true := by rw [show k - (ℓ + 1) = 3 by omega]; simp [clvI]
  have c2 : clvI k (k - (ℓ + 2)) = true := by rw [show k - (ℓ + 2) = 2 by omega]; simp [clvI]
  have c1 : clvI k (k - (ℓ + 3)) = true := by rw [show k - (ℓ + 3) = 1 by omega]; simp [clvI]
  apply ifft16K_advN k (gNetCI F c s k) y F.big (cplxW16 T t) N ℓ B off s0 hs (by omega) hoff hN
  · intro q hq
    rw [gNetCI_ct F c s k (ℓ + 3) 0 (8 * B + 2 * q) (by omega) (by omega) (by omega) (Or.inr (by omega))]
    have : q = 0 ∨ q = 1 ∨ q = 2 ∨ q = 3 := by omega
    rcases this with rfl | rfl | rfl | rfl
    · rw [w0]; rfl
    · rw [w1]
    · rw [w2]
    · rw [w3]
  · intro q hq
    rw [show 8 * B + 2 * q + 1 = 2 * (4 * B + q) + 1 by ring, gNetCI_cit F c s k (ℓ + 3) 0 (4 * B + q) (by omega) (by omega) (by omega) c1,
      show 2 * (4 * B + q) = 8 * B + 2 * q by ring]
    have : q = 0 ∨ q = 1 ∨ q = 2 ∨ q = 3 := by omega
    rcases this with rfl | rfl | rfl | rfl
    · rw [w0]; rfl
    · rw [w1]
    · rw [w2]
    · rw [w3]
  · rw [gNetCI_ct F c s k (ℓ + 2) 1 (4 * B) (by omega) (by omega) (by omega) (Or.inr (by omega)), w4]
  · rw [show 4 * B + 1 = 2 * (2 * B) + 1 by ring, gNetCI_cit F c s k (ℓ + 2) 1 (2 * B) (by omega) (by omega) (by omega) c2, w4,
      show 2 * (2 * B) = 4 * B by ring]
  · rw [gNetCI_ct F c s k (ℓ + 2) 1 (4 * B + 2) (by omega) (by omega) (by omega) (Or.inr (by omega)), w5]
  · rw [show 4 * B + 3 = 2 * (2 * B + 1) + 1 by ring, gNetCI_cit F c s k (ℓ + 2) 1 (2 * B + 1) (by omega) (by omega) (by omega) c2, w5,
      show 2 * (2 * B + 1) = 4 * B + 2 by ring]
  · rw [gNetCI_ct F c s k (ℓ + 1) 2 (2 * B) (by omega) (by omega) (by omega) (Or.inr (by omega)), w6]
  · rw [gNetCI_cit F c s k (ℓ + 1) 2 B (by omega) (by omega) (by omega) c3, w6]
  · rw [gNetCI_ct F c s k ℓ 3 B (by omega) (by omega) (by omega) (Or.inl c4), w7]

/-- the loop over the inverse 16-point leaves -/
theorem icleaves_specN (T : Array R) (N ℓ0 j b0 off m' t : ℕ) (s0 : RI R)
    (hs : Valid N s0) (hk : k = ℓ0 + j + 4) (hm : m' = 2 ^ (j + 4)) (hoff : off = m' * b0) (hN : off + m' ≤ N)
    (hT : SegP T t (((List.range (m' / 16)).flatMap
      (fun b => ciFill16 (4 * 2 ^ k) (16 * (1 + 4 * brev ℓ0 b0) + frbN (4 * 2 ^ k) b))).map (valP c s))) :
    let r := iterFrom (fun b (st : RI R × ℕ) => (ifft16K F.big (cplxW16 T st.2) (off + 16 * b) st.1, st.2 + 16)) (m' / 16) 0 (s0, t)
    AdvI k (gNetCI F c s k) y (prs s0) (prs r.1) 0 4 off m' ∧ Valid N r.1 ∧ r.2 = t + m' := by
  intro r
  have hnb : m' / 16 = 2 ^ j := by rw [hm, pow_add]; norm_num
  have hm16 : m' = 2 ^ j * 16 := by rw [hm, pow_add]; norm_num
  have hr : r = (iterFrom (fun b s => ifft16K F.big (cplxW16 T (t + 16 * b)) (off + 16 * b) s) (m' / 16) 0 s0, t + 16 * (m' / 16)) :=
    iter_counter (fun b t s => ifft16K F.big (cplxW16 T t) (off + 16 * b) s) 16 (m' / 16) s0 t
  rw [hr]
  simp only
  rw [List.map_flatMap] at hT
  have hseg := SegP.flatMap (T := T) (t := t) _ 16 (m' / 16) (fun b => by simp [ciFill16, eM, gam]) hT
  have sw := sweepN (VNI k (gNetCI F c s k) y 0) (VNI k (gNetCI F c s k) y 4)
    (fun b s => ifft16K F.big (cplxW16 T (t + 16 * b)) (off + 16 * b) s) N off 16 (m' / 16)
    (fun b s1 hb hs1 => by
      have hb' : b < 2 ^ j := by omega
      have := icleaf_stepN F c s k y T (t + 16 * b) N (ℓ0 + j) (b0 * 2 ^ j + b) (off + 16 * b)
        (16 * (1 + 4 * brev ℓ0 b0) + frbN (4 * 2 ^ k) b) s1 hs1
        (by rw [hoff, hm16]; ring) (by omega) hk
        (by
          have := block_entry ℓ0 j 4 b0 b hb'
          rw [← hk] at this
          simpa using this)
        (by
          have := hseg b hb
          rwa [show t + b * 16 = t + 16 * b by ring] at this)
      exact ⟨this.1.of_eq (by ring) rfl, this.2⟩) s0 hs
  refine ⟨sw.1.of_eq rfl (by omega), sw.2, by omega⟩

/-- one inverse radix-4 level over the whole region: blocks of size `h = 2^e2` become blocks of size `4h` -/
theorem cir4_coreN (T : Array R) (N ℓ0 j e2 b0 off m' h t : ℕ) (s0 : RI R)
    (hs : Valid N s0) (hk : k = ℓ0 + j + (e2 + 2)) (hm : m' = 2 ^ (j + (e2 + 2))) (hh : h = 2 ^ e2)
    (hpar : e2 % 2 = (min k 11) % 2) (he4 : 4 ≤ e2) (he11 : e2 + 2 ≤ 11)
    (hoff : off = m' * b0) (hN : off + m' ≤ N)
    (hT : SegP T t (((List.range (m' / (4 * h))).flatMap (fun b =>
      eM (h * (1 + 4 * brev ℓ0 b0) + frbN (4 * 2 ^ k) b / 4) ++
      eM (2 * (h * (1 + 4 * brev ℓ0 b0) + frbN (4 * 2 ^ k) b / 4)))).map (valP c s))) :
    let r := iterFrom (fun b (st : RI R × ℕ) => (invbitwiddle F.big T st.2 h (off + b * (h * 4)) st.1, st.2 + 4))
      (m' / (h * 4)) 0 (s0, t)
    AdvI k (gNetCI F c s k) y (prs s0) (prs r.1) e2 (e2 + 2) off m' ∧ Valid N r.1 ∧
      r.2 = t + 4 * (m' / (h * 4)) := by
  intro r
  have hmm : h * 4 = 2 ^ (e2 + 2) := by rw [hh, pow_add]; norm_num
  have h44 : 4 * h = h * 4 := by ring
  rw [h44] at hT
  have hnb : m' / (h * 4) = 2 ^ j := by
    rw [hm, hmm, pow_add]; exact Nat.mul_div_cancel _ (Nat.two_pow_pos _)
  have hm' : m' = 2 ^ j * (h * 4) := by rw [hm, hmm, pow_add]
  have hr : r = (iterFrom (fun b s => invbitwiddle F.big T (t + 4 * b) h (off + b * (h * 4)) s) (m' / (h * 4)) 0 s0,
      t + 4 * (m' / (h * 4))) :=
    iter_counter (fun b t s => invbitwiddle F.big T t h (off + b * (h * 4)) s) 4 (m' / (h * 4)) s0 t
  rw [hr]
  simp only
  rw [List.map_flatMap] at hT
  have hseg := SegP.flatMap (T := T) (t := t) _ 4 (m' / (h * 4)) (fun b => by simp [eM]) hT
  have cA : clvI k (k - (ℓ0 + j)) = false := by
    rw [show k - (ℓ0 + j) = e2 + 2 by omega]; unfold clvI
    have h1 : (e2 + 2) % 2 = min k 11 % 2 := by omega
    have h2 : ¬ e2 + 2 ≤ 3 := by omega
    simp [h1, h2]
  have cB : clvI k (k - (ℓ0 + j + 1)) = true := by
    rw [show k - (ℓ0 + j + 1) = e2 + 1 by omega]; unfold clvI
    have h1 : ¬ (e2 + 1) % 2 = min k 11 % 2 := by omega
    have h2 : 5 ≤ e2 + 1 := by omega
    have h3 : e2 + 1 ≤ 10 := by omega
    simp [h1, h2, h3]
  have sw := sweepN (VNI k (gNetCI F c s k) y e2) (VNI k (gNetCI F c s k) y (e2 + 2))
    (fun b s => invbitwiddle F.big T (t + 4 * b) h (off + b * (h * 4)) s) N off (h * 4) (m' / (h * 4))
    (fun b s1 hb hs1 => by
      have hb' : b < 2 ^ j := by omega
      have hsb := hseg b hb
      rw [List.map_append, show t + b * 4 = t + 4 * b by ring] at hsb
      have e := ReimFwd.r4_exps ℓ0 j e2 b0 b k (h * 4) hb' hk hmm
      rw [show h * 4 * (1 + 4 * brev ℓ0 b0) / 4 = h * (1 + 4 * brev ℓ0 b0) by
        rw [show h * 4 * (1 + 4 * brev ℓ0 b0) = 4 * (h * (1 + 4 * brev ℓ0 b0)) by ring]
        exact Nat.mul_div_cancel_left _ (by omega)] at e
      obtain ⟨r0, r1⟩ := read_eMN c s T (t + 4 * b) _ hsb.left
      obtain ⟨r2, r3⟩ := read_eMN c s T (t + 4 * b + 2) _ (by simpa [eM] using hsb.right)
      rw [e.2] at r0 r1
      rw [e.1] at r2 r3
      rw [show t + 4 * b + 2 + 1 = t + 4 * b + 3 by ring] at r3
      have hbm' : b * (h * 4) + h * 4 ≤ 2 ^ j * (h * 4) := by
        have : (b + 1) * (h * 4) ≤ 2 ^ j * (h * 4) := Nat.mul_le_mul_right _ hb'
        rw [Nat.add_mul] at this; omega
      have := invbitwiddle_advN k (gNetCI F c s k) y F.big T (t + 4 * b) N (ℓ0 + j) e2 (b0 * 2 ^ j + b) (off + b * (h * 4)) h
        s1 hs1 (by omega) hh (by rw [hoff, hm']; ring) (by omega)
        (by rw [gNetCI_ct F c s k (ℓ0 + j + 1) e2 _ (by omega) (by omega) (by omega) (Or.inr (by omega)), r0, r1])
        (by rw [gNetCI_cit F c s k (ℓ0 + j + 1) e2 _ (by omega) (by omega) (by omega) cB, r0, r1])
        (by rw [gNetCI_ct F c s k (ℓ0 + j) (e2 + 1) _ (by omega) (by omega) (by omega) (Or.inl cA), r2, r3])
      rw [h44] at this
      exact this) s0 hs
  refine ⟨sw.1.of_eq rfl (by rw [hnb, hm']), sw.2, trivial⟩


end Spq.Fft.SchedC
