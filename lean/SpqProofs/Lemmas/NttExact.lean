/-
  Exact (commutative-ring) counterparts of the q120 NTT passes, as functions of the index, and their
  algebra: each inverse level undoes the corresponding forward level up to the factor 2, passes are linear,
  a pass only reads its own block.  Nothing here mentions the machine model.
-/
import Mathlib.Tactic.Ring
import Mathlib.Tactic.LinearCombination
import Mathlib.Algebra.Ring.Basic

namespace Spq.Q120Ntt

/-- kind of one pass of the schedule: pointwise multiplication by the twist words (with or without a modular
    folding of the input), forward (DIF) butterfly level, inverse (DIT) butterfly level -/
inductive Kind where
  | twist (red : Bool)
  | fwd
  | inv
deriving DecidableEq, Repr

variable {K : Type} [CommRing K]

/-- `x_i ↦ x_i * τ_i` -/
def exTwist (τ : Nat → K) (g : Nat → K) (i : Nat) : K := g i * τ i

/-- DIF level on blocks of `nn`: `(a, b) ↦ (a + b, (a - b) * τ_{j-1})`, factor `1` at `j = 0` -/
def exFwd (nn : Nat) (τ : Nat → K) (g : Nat → K) (i : Nat) : K :=
  if i % nn < nn / 2 then g i + g (i + nn / 2)
  else (g (i - nn / 2) - g i) * (if i % nn = nn / 2 then 1 else τ (i % nn - nn / 2 - 1))

/-- DIT level on blocks of `nn`: `(a, b) ↦ (a + b * τ_{j-1}, a - b * τ_{j-1})`, factor `1` at `j = 0` -/
def exInv (nn : Nat) (τ : Nat → K) (g : Nat → K) (i : Nat) : K :=
  if i % nn < nn / 2 then g i + g (i + nn / 2) * (if i % nn = 0 then 1 else τ (i % nn - 1))
  else g (i - nn / 2) - g i * (if i % nn = nn / 2 then 1 else τ (i % nn - nn / 2 - 1))

def exL (k : Kind) (nn : Nat) (τ : Nat → K) (g : Nat → K) : Nat → K :=
  match k with
  | .twist _ => exTwist τ g
  | .fwd => exFwd nn τ g
  | .inv => exInv nn τ g

/-! ### index arithmetic -/

theorem idx_add_half {n nn i : Nat} (hdiv : nn ∣ n) (hi : i < n) (hj : i % nn < nn / 2) : i + nn / 2 < n := by
  obtain ⟨d, rfl⟩ := hdiv
  have hnn : 0 < nn := by
    rcases Nat.eq_zero_or_pos nn with h | h
    · subst h; simp at hi
    · exact h
  have h1 : i / nn < d := Nat.div_lt_of_lt_mul hi
  have h2 : nn * (i / nn) + i % nn = i := Nat.div_add_mod i nn
  have h3 : nn * (i / nn + 1) ≤ nn * d := Nat.mul_le_mul_left _ h1
  have h4 : nn / 2 + nn / 2 ≤ nn := by omega
  rw [Nat.mul_add, Nat.mul_one] at h3
  omega

theorem mod_add_half {nn i : Nat} (hj : i % nn < nn / 2) : (i + nn / 2) % nn = i % nn + nn / 2 := by
  have h4 : nn / 2 + nn / 2 ≤ nn := by omega
  rw [Nat.add_mod, Nat.mod_eq_of_lt (a := nn / 2) (by omega), Nat.mod_eq_of_lt (by omega)]

theorem mod_sub_half {nn i : Nat} (hj : nn / 2 ≤ i % nn) : (i - nn / 2) % nn = i % nn - nn / 2 := by
  have hle : i % nn ≤ i := Nat.mod_le _ _
  have h2 : nn * (i / nn) + i % nn = i := Nat.div_add_mod i nn
  have : i - nn / 2 = (i % nn - nn / 2) + nn * (i / nn) := by omega
  rw [this, Nat.add_mul_mod_self_left]
  rcases Nat.eq_zero_or_pos nn with h | h
  · subst h; simp
  · exact Nat.mod_eq_of_lt (by have := Nat.mod_lt i h; omega)

/-! ### a pass reads only cells `< n` to produce cells `< n` -/

theorem exL_congr (k : Kind) {n nn : Nat} (hdiv : nn ∣ n) (τ : Nat → K) (g g' : Nat → K)
    (h : ∀ i < n, g i = g' i) : ∀ i < n, exL k nn τ g i = exL k nn τ g' i := by
  intro i hi
  cases k with
  | twist r => simp only [exL, exTwist, h i hi]
  | fwd =>
    simp only [exL, exFwd]
    split
    · rename_i hj; rw [h i hi, h _ (idx_add_half hdiv hi hj)]
    · rw [h i hi, h (i - nn / 2) (by omega)]
  | inv =>
    simp only [exL, exInv]
    split
    · rename_i hj; rw [h i hi, h _ (idx_add_half hdiv hi hj)]
    · rw [h i hi, h (i - nn / 2) (by omega)]

/-! ### linearity -/

theorem exL_add (k : Kind) (nn : Nat) (τ : Nat → K) (g g' : Nat → K) (i : Nat) :
    exL k nn τ (fun j => g j + g' j) i = exL k nn τ g i + exL k nn τ g' i := by
  cases k <;> simp only [exL, exTwist, exFwd, exInv] <;> (try split) <;> ring

theorem exL_smul (k : Kind) (nn : Nat) (τ : Nat → K) (c : K) (g : Nat → K) (i : Nat) :
    exL k nn τ (fun j => c * g j) i = c * exL k nn τ g i := by
  cases k <;> simp only [exL, exTwist, exFwd, exInv] <;> (try split) <;> ring

/-! ### an inverse level undoes the forward level of the same size, up to the factor 2 -/

theorem exInv_exFwd (nn : Nat) (hnn : nn = 2 * (nn / 2)) (hnnpos : 0 < nn) (τ τ' : Nat → K) (hτ : ∀ t, τ t * τ' t = 1)
    (g : Nat → K) (i : Nat) : exInv nn τ' (exFwd nn τ g) i = 2 * g i := by
  by_cases hj : i % nn < nn / 2
  · have hm := mod_add_half hj
    have e1 : exFwd nn τ g i = g i + g (i + nn / 2) := by simp only [exFwd, if_pos hj]
    have e2 : exFwd nn τ g (i + nn / 2)
        = (g i - g (i + nn / 2)) * (if i % nn = 0 then 1 else τ (i % nn - 1)) := by
      simp only [exFwd, hm]
      rw [if_neg (by omega)]
      have : i + nn / 2 - nn / 2 = i := by omega
      rw [this]
      by_cases h0 : i % nn = 0
      · simp [h0]
      · rw [if_neg (by omega), if_neg h0]
        congr 2; omega
    simp only [exInv, if_pos hj, e1, e2]
    by_cases h0 : i % nn = 0
    · simp only [if_pos h0]; ring
    · simp only [if_neg h0]
      linear_combination (g i - g (i + nn / 2)) * hτ (i % nn - 1)
  · have hj' : nn / 2 ≤ i % nn := by omega
    have hi : nn / 2 ≤ i := le_trans hj' (Nat.mod_le _ _)
    have hm := mod_sub_half hj'
    have hlt : i % nn < nn := Nat.mod_lt _ hnnpos
    have e1 : exFwd nn τ g (i - nn / 2) = g (i - nn / 2) + g i := by
      simp only [exFwd, hm]
      rw [if_pos (by omega)]
      have : i - nn / 2 + nn / 2 = i := by omega
      rw [this]
    have e2 : exFwd nn τ g i
        = (g (i - nn / 2) - g i) * (if i % nn = nn / 2 then 1 else τ (i % nn - nn / 2 - 1)) := by
      simp only [exFwd, if_neg hj]
    simp only [exInv, if_neg hj, e1, e2]
    by_cases h0 : i % nn = nn / 2
    · simp only [if_pos h0]; ring
    · simp only [if_neg h0]
      linear_combination (-(g (i - nn / 2) - g i)) * hτ (i % nn - nn / 2 - 1)

/-! ### whole transforms: a list of levels `(nn, τ)` -/

/-- forward levels, first element applied first -/
def exFwdAll : List (Nat × (Nat → K)) → (Nat → K) → (Nat → K)
  | [], g => g
  | s :: ls, g => exFwdAll ls (exFwd s.1 s.2 g)

/-- inverse levels, LAST element applied first (so that the list is in the forward order) -/
def exInvAll : List (Nat × (Nat → K)) → (Nat → K) → (Nat → K)
  | [], g => g
  | s :: ls, g => exInv s.1 s.2 (exInvAll ls g)

theorem exInv_smul_fun (nn : Nat) (τ : Nat → K) (c : K) (g : Nat → K) :
    exInv nn τ (fun j => c * g j) = fun i => c * exInv nn τ g i :=
  funext fun i => exL_smul .inv nn τ c g i

/-- level-wise inversion: `inverse levels ∘ forward levels = 2^(number of levels)` -/
theorem exInvAll_exFwdAll (ls ls' : List (Nat × (Nat → K)))
    (h : List.Forall₂ (fun s s' => s.1 = s'.1 ∧ s.1 = 2 * (s.1 / 2) ∧ 0 < s.1 ∧ ∀ t, s.2 t * s'.2 t = 1) ls ls')
    (g : Nat → K) : exInvAll ls' (exFwdAll ls g) = fun i => (2 : K) ^ ls.length * g i := by
  induction h generalizing g with
  | nil => funext i; simp [exInvAll, exFwdAll]
  | @cons s s' ls ls' hs _ ih =>
    obtain ⟨h1, h2, h2', h3⟩ := hs
    simp only [exInvAll, exFwdAll]
    rw [ih, exInv_smul_fun]
    funext i
    rw [← h1, exInv_exFwd s.1 h2 h2' s.2 s'.2 h3, List.length_cons, pow_succ]
    ring

end Spq.Q120Ntt
