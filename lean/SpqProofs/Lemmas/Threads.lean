/-
  Sequentially-consistent interleavings of read-only threads (helper lemmas for C12).
-/
import Spq.Globals
namespace Spq.Globals

def ReadOnly (progs : Nat → Prog) : Prop := ∀ t h l v, progs t h ≠ Act.write l v

theorem stepThread_shared (progs : Nat → Prog) (hro : ReadOnly progs) (c : Conf) (t : Nat) :
    (stepThread progs c t).shared = c.shared := by
  unfold stepThread
  split
  · rfl
  · rename_i l v h; exact absurd h (hro t _ l v)
  · rfl

theorem stepThread_hist_other (progs : Nat → Prog) (c : Conf) (t u : Nat) (h : u ≠ t) :
    (stepThread progs c t).hist u = c.hist u := by
  unfold stepThread
  split <;> simp [h]

/-- a step of thread `t` depends only on the shared memory and on `t`'s own history -/
theorem stepThread_congr (progs : Nat → Prog) (c c' : Conf) (t : Nat)
    (hs : c.shared = c'.shared) (hh : c.hist t = c'.hist t) :
    (stepThread progs c t).shared = (stepThread progs c' t).shared ∧
    (stepThread progs c t).hist t = (stepThread progs c' t).hist t := by
  unfold stepThread
  rw [hh]
  split <;> simp [hs, hh]

theorem runSolo_congr (progs : Nat → Prog) (t n : Nat) : ∀ (c c' : Conf),
    c.shared = c'.shared → c.hist t = c'.hist t →
    (runSolo progs c t n).shared = (runSolo progs c' t n).shared ∧
    (runSolo progs c t n).hist t = (runSolo progs c' t n).hist t := by
  induction n with
  | zero => intro c c' hs hh; exact ⟨hs, hh⟩
  | succ n ih =>
    intro c c' hs hh
    have := stepThread_congr progs c c' t hs hh
    simp only [runSolo, runSched, List.replicate_succ, List.foldl_cons] at *
    exact ih _ _ this.1 this.2

theorem runSched_shared (progs : Nat → Prog) (hro : ReadOnly progs) (sched : List Nat) : ∀ c : Conf,
    (runSched progs c sched).shared = c.shared := by
  induction sched with
  | nil => intro c; rfl
  | cons t s ih =>
    intro c
    simp only [runSched, List.foldl_cons] at *
    rw [ih, stepThread_shared progs hro]

theorem runSched_hist (progs : Nat → Prog) (hro : ReadOnly progs) (sched : List Nat) : ∀ (c : Conf) (u : Nat),
    (runSched progs c sched).hist u = (runSolo progs c u (sched.count u)).hist u := by
  induction sched with
  | nil => intro c u; rfl
  | cons t s ih =>
    intro c u
    have e : runSched progs c (t :: s) = runSched progs (stepThread progs c t) s := by
      simp [runSched]
    rw [e, ih]
    by_cases h : u = t
    · subst h
      simp only [List.count_cons_self]
      simp [runSolo, runSched, List.replicate_succ]
    · have hc : (t :: s).count u = s.count u := by
        rw [List.count_cons]; simp [Ne.symm h]
      rw [hc]
      exact (runSolo_congr progs u _ _ _ (stepThread_shared progs hro c t)
        (stepThread_hist_other progs c t u h)).2

end Spq.Globals
