/-
  "Blind writers": a function on arrays that only stores values which do not depend on the array.
  The functional models of `vmp_prepare` / `vmp_apply_dft_to_dft` fill a zero-initialised array; the C code fills
  whatever the result region holds.  `Agree S F Fe` relates the functional filler `F` (on `Array α`) and the raw
  filler `Fe` (on the cells `Array γ`, storing encoded values): on the cells in `S` the outcome of `Fe` is the
  encoded outcome of `F` whatever the two arrays held before, outside `S` nothing changes.
-/
import SpqProofs.Lemmas.ModHeapKern2
namespace Spq.ModuleHeap
open Spq Heap Module Reim4
variable {γ α : Type}

structure Agree (enc : α → γ) (S : Nat → Prop) (F : Array α → Array α) (Fe : Array γ → Array γ) : Prop where
  sizeF : ∀ R, (F R).size = R.size
  sizeE : ∀ G, (Fe G).size = G.size
  inS : ∀ (R : Array α) (G : Array γ), R.size = G.size → ∀ x, S x → (Fe G)[x]? = ((F R).map enc)[x]?
  outE : ∀ G x, ¬ S x → (Fe G)[x]? = G[x]?
  outF : ∀ R x, ¬ S x → (F R)[x]? = R[x]?

theorem Agree.id (enc : α → γ) : Agree enc (fun _ => False) (fun R => R) (fun G => G) :=
  ⟨fun _ => rfl, fun _ => rfl, fun _ _ _ _ q => q.elim, fun _ _ _ => rfl, fun _ _ _ => rfl⟩

theorem Agree.congr {enc : α → γ} {S S' : Nat → Prop} {F : Array α → Array α} {Fe : Array γ → Array γ}
    (a : Agree enc S F Fe) (h : ∀ x, S x ↔ S' x) : Agree enc S' F Fe :=
  ⟨a.sizeF, a.sizeE, fun R G e x q => a.inS R G e x ((h x).2 q), fun G x q => a.outE G x (fun p => q ((h x).1 p)),
   fun R x q => a.outF R x (fun p => q ((h x).1 p))⟩

/-- one store of `v` at `off` -/
theorem Agree.write (enc : α → γ) (off : Nat) (v : Array α) :
    Agree enc (fun x => off ≤ x ∧ x < off + v.size) (fun R => writeAt R off v) (fun G => writeAt G off (v.map enc)) := by
  refine ⟨fun R => size_writeAt _ _ _, fun G => size_writeAt _ _ _, ?_, ?_, ?_⟩
  · intro R G e x hx
    rw [Array.getElem?_map, writeAt_eq_writeArr, writeAt_eq_writeArr, getElem?_writeArr, getElem?_writeArr]
    simp only [Array.size_map]
    by_cases hb : x < G.size
    · rw [if_pos (by omega), if_pos (by omega), Array.getElem?_map]
    · rw [if_neg (by omega), if_neg (by omega), Array.getElem?_eq_none (by omega), Array.getElem?_eq_none (by omega)]
      rfl
  · intro G x hx
    rw [writeAt_eq_writeArr, getElem?_writeArr_of_out _ _ _ _ (by simp only [Array.size_map]; omega)]
  · intro R x hx
    rw [writeAt_eq_writeArr, getElem?_writeArr_of_out _ _ _ _ (by omega)]

/-- one store, in the form in which the generic fillers contain it -/
theorem Agree.write' (enc : α → γ) (off : Nat) (v : Array α) (n : Nat) (hv : v.size = n) :
    Agree enc (fun x => In off n x) (fun R => writeAt R off (_root_.id v)) (fun G => writeAt G off (Array.map enc v)) := by
  have a := Agree.write enc off v
  rw [hv] at a
  exact a.congr (fun x => by simp [In])

/-- first `F`, then `F'` -/
theorem Agree.comp {enc : α → γ} {S T : Nat → Prop} {F F' : Array α → Array α} {Fe Fe' : Array γ → Array γ}
    (a : Agree enc S F Fe) (b : Agree enc T F' Fe') :
    Agree enc (fun x => S x ∨ T x) (fun R => F' (F R)) (fun G => Fe' (Fe G)) := by
  refine ⟨fun R => by rw [b.sizeF, a.sizeF], fun G => by rw [b.sizeE, a.sizeE], ?_, ?_, ?_⟩
  · intro R G e x hx
    by_cases ht : T x
    · exact b.inS (F R) (Fe G) (by rw [a.sizeF, a.sizeE, e]) x ht
    · have hs : S x := hx.resolve_right ht
      rw [b.outE _ x ht, a.inS R G e x hs, Array.getElem?_map, Array.getElem?_map, b.outF _ x ht]
  · intro G x hx
    rw [b.outE _ x (fun q => hx (Or.inr q)), a.outE _ x (fun q => hx (Or.inl q))]
  · intro R x hx
    rw [b.outF _ x (fun q => hx (Or.inr q)), a.outF _ x (fun q => hx (Or.inl q))]

/-- a range fold of blind writers -/
theorem Agree.fold {enc : α → γ} (n : Nat) (S : Nat → Nat → Prop) (F : Array α → Nat → Array α) (Fe : Array γ → Nat → Array γ)
    (h : ∀ i, i < n → Agree enc (S i) (fun R => F R i) (fun G => Fe G i)) :
    Agree enc (fun x => ∃ i, i < n ∧ S i x) (fun R => (List.range n).foldl F R) (fun G => (List.range n).foldl Fe G) := by
  induction n with
  | zero =>
    exact (Agree.id enc).congr (fun x => ⟨fun q => q.elim, fun ⟨i, hi, _⟩ => by omega⟩)
  | succ n ih =>
    have a := ih (fun i hi => h i (by omega))
    have b := h n (by omega)
    have ab := a.comp b
    simp only [List.range_succ, List.foldl_append, List.foldl_cons, List.foldl_nil]
    apply ab.congr
    intro x
    constructor
    · rintro (⟨i, hi, q⟩ | q)
      · exact ⟨i, by omega, q⟩
      · exact ⟨n, by omega, q⟩
    · rintro ⟨i, hi, q⟩
      by_cases e : i = n
      · subst e; exact Or.inr q
      · exact Or.inl ⟨i, by omega, q⟩

/-- a conditional blind writer -/
theorem Agree.ite {enc : α → γ} (p : Prop) [Decidable p] {S : Nat → Prop} {F : Array α → Array α} {Fe : Array γ → Array γ}
    (a : Agree enc S F Fe) :
    Agree enc (fun x => p ∧ S x) (fun R => if p then F R else R) (fun G => if p then Fe G else G) := by
  by_cases hp : p
  · simp only [hp, if_true]
    exact a.congr (fun x => ⟨fun q => ⟨trivial, q⟩, fun q => q.2⟩)
  · simp only [hp, if_false]
    exact (Agree.id enc).congr (fun x => ⟨fun q => q.elim, fun q => q.1.elim⟩)

/-- what the calculus is for: the raw filler run on arbitrary cells `G` against the functional filler run on the
    zero-initialised array -/
theorem Agree.final {enc : α → γ} {S : Nat → Prop} {F : Array α → Array α} {Fe : Array γ → Array γ}
    (a : Agree enc S F Fe) (N : Nat) (z : α) (G : Array γ) (hG : G.size = N) (x : Nat) :
    (S x → (Fe G)[x]? = ((F (Array.replicate N z)).map enc)[x]?) ∧
    (¬ S x → (Fe G)[x]? = G[x]? ∧ (F (Array.replicate N z))[x]? = (Array.replicate N z)[x]?) :=
  ⟨fun q => a.inS _ G (by simp [hG]) x q, fun q => ⟨a.outE G x q, a.outF _ x q⟩⟩

/-! ### index decomposition (for the coverage arguments) -/

theorem lt_mul_iff (x a b : Nat) : x < a * b ↔ ∃ i j, i < a ∧ j < b ∧ x = i * b + j := by
  constructor
  · intro h
    have hb : 0 < b := by
      rcases Nat.eq_zero_or_pos b with e | e
      · subst e; simp at h
      · exact e
    refine ⟨x / b, x % b, (Nat.div_lt_iff_lt_mul hb).2 h, Nat.mod_lt _ hb, ?_⟩
    rw [Nat.mul_comm]; exact (Nat.div_add_mod x b).symm
  · rintro ⟨i, j, hi, hj, e⟩
    have := mul_step i a b hi
    omega

end Spq.ModuleHeap
