/-
  C16 helpers: the generic simulation theorem for straight-line programs, and the frame rule for the
  abstraction relation `Prog.R` (a call that writes only its destination region preserves every other
  declared variable).
-/
import Spq.Prog
import SpqProofs.Lemmas.VecOps
namespace Spq.Prog
open Spq Heap Spq.C08

/-! ### generic simulation -/

/-- if every step preserves `Rel` under its precondition (stated on the abstract side), every program whose
    abstract run satisfies the preconditions preserves `Rel` -/
theorem sim_run {σ τ ω : Type} (astp : ω → σ → σ) (cstp : ω → τ → τ) (Rel : σ → τ → Prop)
    (pre : ω → σ → Prop)
    (hstep : ∀ o a s, pre o a → Rel a s → Rel (astp o a) (cstp o s)) :
    ∀ (ops : List ω) (a : σ) (s : τ), Guarded pre astp ops a → Rel a s →
      Rel (run astp ops a) (run cstp ops s) := by
  intro ops
  induction ops with
  | nil => intro a s _ h; exact h
  | cons o ops ih =>
    intro a s hg h
    exact ih (astp o a) (cstp o s) hg.2 (hstep o a s hg.1 h)

theorem run_nil {σ ω : Type} (step : ω → σ → σ) (s : σ) : run step [] s = s := rfl
theorem run_cons {σ ω : Type} (step : ω → σ → σ) (o : ω) (ops : List ω) (s : σ) :
    run step (o :: ops) s = run step ops (step o s) := rfl
theorem run_append {σ ω : Type} (step : ω → σ → σ) (p q : List ω) (s : σ) :
    run step (p ++ q) s = run step q (run step p s) := by
  simp [run, List.foldl_append]

theorem guarded_append {σ ω : Type} (pre : ω → σ → Prop) (step : ω → σ → σ) (p q : List ω) (s : σ) :
    Guarded pre step (p ++ q) s ↔ Guarded pre step p s ∧ Guarded pre step q (run step p s) := by
  induction p generalizing s with
  | nil => simp [Guarded, run]
  | cons o p ih => simp [Guarded, run_cons, ih, and_assoc]

/-! ### abstract values -/

theorem coef_mk (nn sz : Nat) (f : Nat → Nat → Int) (i c : Nat) (hi : i < sz) (hc : c < nn) :
    (Val.mk nn sz f).coef i c = f i c := by
  simp [Val.mk, Val.coef, Array.getD, hi, hc]

theorem coef_mk_out (nn sz : Nat) (f : Nat → Nat → Int) (i c : Nat) (h : ¬ (i < sz ∧ c < nn)) :
    (Val.mk nn sz f).coef i c = 0 := by
  unfold Val.mk Val.coef
  by_cases hi : i < sz
  · have hc : ¬ c < nn := fun hc => h ⟨hi, hc⟩
    simp [Array.getD, hi, hc]
  · simp [Array.getD, hi]

theorem size_mk (nn sz : Nat) (f : Nat → Nat → Int) : (Val.mk nn sz f).size = sz := by simp [Val.mk]

theorem set_same (env : Env) (d : Var) (x : Val) : env.set d x d = x := by simp [Env.set]
theorem set_other (env : Env) (d v : Var) (x : Val) (h : v ≠ d) : env.set d x v = env v := by
  simp [Env.set, h]

/-! ### the frame rule -/

/-- `SrcOK` of a declared source against a declared destination: the same variable, or disjoint -/
theorem srcOK_of_wf {nn hsz : Nat} {vars : List Var} (wf : WF nn hsz vars) (d a : Var)
    (hd : d ∈ vars) (ha : a ∈ vars) :
    SrcOK nn d.off d.size d.stride a.off a.size a.stride := by
  by_cases e : a = d
  · subst e; exact Or.inl ⟨rfl, rfl⟩
  · exact Or.inr (fun i j hi hj => wf.disj a ha d hd e i j hi hj)

theorem inBounds_of_wf {nn hsz : Nat} {vars : List Var} (wf : WF nn hsz vars) (v : Var) (hv : v ∈ vars)
    (n : Nat) (hn : n ≤ v.size) : InBounds nn hsz v.off n v.stride :=
  fun i hi => wf.inb v hv i (by omega)

/-- a call with post-condition "size kept, output cell `(i,c)` = `f i c`, frame, no fault" preserves the
    abstraction relation, the destination now holding `f` -/
theorem R_step {nn hsz : Nat} {vars : List Var} (wf : WF nn hsz vars) (env : Env) (h h' : Heap Int)
    (d : Var) (hd : d ∈ vars) (f : Nat → Nat → Int) (hR : R nn hsz vars env h)
    (hsize : h'.mem.size = h.mem.size) (hok : h'.ok = h.ok)
    (hval : ∀ i c, i < d.size → c < nn → h'.mem[d.off + i * d.stride + c]? = some (f i c))
    (hframe : Frame nn d.off d.size d.stride h.mem h'.mem) :
    R nn hsz vars (env.set d (Val.mk nn d.size f)) h' := by
  obtain ⟨r1, r2, r3⟩ := hR
  refine ⟨by rw [hsize, r1], by rw [hok, r2], ?_⟩
  intro v hv i c hi hc
  by_cases e : v = d
  · subst e
    rw [set_same, coef_mk _ _ _ _ _ hi hc]
    exact hval i c hi hc
  · rw [set_other _ _ _ _ e, ← r3 v hv i c hi hc]
    apply hframe
    intro j hj
    have := wf.disj v hv d hd e i j hi hj
    omega

/-- reading a declared cell through `getD` -/
theorem getD_of_R {nn hsz : Nat} {vars : List Var} {env : Env} {h : Heap Int} (hR : R nn hsz vars env h)
    (v : Var) (hv : v ∈ vars) (i c : Nat) (hi : i < v.size) (hc : c < nn) :
    h.mem.getD (v.off + i * v.stride + c) 0 = (env v).coef i c := by
  have := hR.2.2 v hv i c hi hc
  rw [Array.getD_eq_getD_getElem?, this]; rfl

end Spq.Prog
