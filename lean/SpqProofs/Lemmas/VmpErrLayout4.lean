/-
  C02 rounding budget, step 6 (`vmp_layout_f64`, part 4): the plain column-major layout (`nn < 8`: `reim_fftvec_mul`
  of row 0, then `reim_fftvec_addmul` of the other rows; reference kernels — the library installs the FMA kernels for
  `m ≥ 4` only), and both layouts together: `vmp_layout_g`, for an arbitrary arithmetic record.
-/
import SpqProofs.Lemmas.VmpErrLayout3
import SpqProofs.Lemmas.ProdErrMul
namespace Spq.VmpErr
open Spq Spq.Module Spq.Reim4 Spq.ProdErr
variable {α : Type}

theorem mul_cells_g (c : Parts α) (hnn : c.nn = 2 * c.m) (hf : c.mulFma = false) (a b : Array α) :
    (Module.mul c a b).size = c.nn ∧
    ∀ p, p < c.m →
      (Module.mul c a b).getD p c.ar.zero =
        reRef c.ar (a.getD p c.ar.zero) (a.getD (p + c.m) c.ar.zero) (b.getD p c.ar.zero) (b.getD (p + c.m) c.ar.zero) ∧
      (Module.mul c a b).getD (p + c.m) c.ar.zero =
        imRef c.ar (a.getD p c.ar.zero) (a.getD (p + c.m) c.ar.zero) (b.getD p c.ar.zero) (b.getD (p + c.m) c.ar.zero) := by
  have e : Module.mul c a b = mulA c.ar false c.m a b := by
    unfold Module.mul mulA
    simp only [hf, Bool.false_eq_true, if_false, hnn]
  rw [e]
  obtain ⟨s, r⟩ := mulA_cells c.ar false c.m (fun h => by cases h) a b
  refine ⟨by rw [s, hnn], fun p hp => ?_⟩
  have := r p hp
  simp only [cellRe, cellIm, Bool.false_eq_true, if_false] at this
  exact this

theorem addmul_cells_g (c : Parts α) (hnn : c.nn = 2 * c.m) (hf : c.addmulFma = false) (r a b : Array α)
    (hr : r.size = c.nn) :
    (Module.addmul c r a b).size = c.nn ∧
    ∀ p, p < c.m →
      (Module.addmul c r a b).getD p c.ar.zero = c.ar.add (r.getD p c.ar.zero)
        (reRef c.ar (a.getD p c.ar.zero) (a.getD (p + c.m) c.ar.zero) (b.getD p c.ar.zero) (b.getD (p + c.m) c.ar.zero)) ∧
      (Module.addmul c r a b).getD (p + c.m) c.ar.zero = c.ar.add (r.getD (p + c.m) c.ar.zero)
        (imRef c.ar (a.getD p c.ar.zero) (a.getD (p + c.m) c.ar.zero) (b.getD p c.ar.zero) (b.getD (p + c.m) c.ar.zero)) := by
  unfold Module.addmul
  simp only [hf, Bool.false_eq_true, if_false]
  unfold reimFftvecAddmulRef
  obtain ⟨s1, s2, _⟩ := lanes_spec c.ar.zero c.m (fun i => i) (fun i => i + c.m)
    (fun i old => c.ar.add old (reRef c.ar (a.getD i c.ar.zero) (a.getD (i + c.m) c.ar.zero) (b.getD i c.ar.zero)
      (b.getD (i + c.m) c.ar.zero)))
    (fun i old => c.ar.add old (imRef c.ar (a.getD i c.ar.zero) (a.getD (i + c.m) c.ar.zero) (b.getD i c.ar.zero)
      (b.getD (i + c.m) c.ar.zero)))
    r (by intro k k' _ _ h; exact h) (by intro k k' _ _ _; omega) (by intro k k' _ _; omega)
    (by intro k hk; rw [hr, hnn]; omega)
  exact ⟨by rw [s1, hr], fun p hp => s2 p hp⟩

theorem dlimb_get (z : α) (adft : Array α) (i nn x : ℕ) (h : x < nn) : (dlimb adft i nn).getD x z = adft.getD (i * nn + x) z := by
  unfold dlimb
  rw [getD_extract, if_pos (by omega)]

theorem dlimb_get2 (z : α) (adft : Array α) (i nn t m : ℕ) (h : t + m < nn) :
    (dlimb adft i nn).getD (t + m) z = adft.getD (i * nn + t + m) z := by
  rw [dlimb_get z adft i nn (t + m) h, Nat.add_assoc]

/-- entry (row, col) of the prepared matrix, `nn < 8` -/
theorem pcol_get (c : Parts α) (mat : Array Int) (nrows ncols : ℕ) (h8 : c.nn < 8)
    (hT : ∀ row col, row < nrows → col < ncols → (matDft c mat ncols row col).size = c.nn)
    (row col x : ℕ) (hr : row < nrows) (hc : col < ncols) (h : x < c.nn) :
    ((vmpPrepare c mat nrows ncols).extract ((col * nrows + row) * c.nn) ((col * nrows + row) * c.nn + c.nn)).getD x c.ar.zero
      = (matDft c mat ncols row col).getD x c.ar.zero := by
  obtain ⟨_, h2⟩ := vmpPrepare_small c mat nrows ncols h8 hT
  have a1 := h2 (row, col) ⟨hr, hc⟩ trivial x h
  simp only [sSlot] at a1
  rw [Nat.mul_comm c.nn] at a1
  rw [getD_extract, if_pos (by omega), a1]

/-- one output column of the `nn < 8` branch (`row_max > 0`) -/
theorem small_col_g (c : Parts α) (hnn : c.nn = 2 * c.m) (hmf : c.mulFma = false) (haf : c.addmulFma = false)
    (h8 : c.nn < 8) (mat : Array Int) (nrows ncols : ℕ)
    (hT : ∀ row col, row < nrows → col < ncols → (matDft c mat ncols row col).size = c.nn)
    (adft : Array α) (rowMax : ℕ) (hrm : rowMax ≤ nrows) (h0 : 0 < rowMax) (col : ℕ) (hc : col < ncols) :
    ((List.range (rowMax - 1)).foldl (fun r k => addmul c r (dlimb adft (k + 1) c.nn)
        ((vmpPrepare c mat nrows ncols).extract ((col * nrows + (k + 1)) * c.nn) ((col * nrows + (k + 1)) * c.nn + c.nn)))
      (mul c (dlimb adft 0 c.nn)
        ((vmpPrepare c mat nrows ncols).extract ((col * nrows + 0) * c.nn) ((col * nrows + 0) * c.nn + c.nn)))).size = c.nn ∧
    ∀ t, t < c.m →
      ((List.range (rowMax - 1)).foldl (fun r k => addmul c r (dlimb adft (k + 1) c.nn)
        ((vmpPrepare c mat nrows ncols).extract ((col * nrows + (k + 1)) * c.nn) ((col * nrows + (k + 1)) * c.nn + c.nn)))
      (mul c (dlimb adft 0 c.nn)
        ((vmpPrepare c mat nrows ncols).extract ((col * nrows + 0) * c.nn) ((col * nrows + 0) * c.nn + c.nn)))).getD t c.ar.zero
        = colRe c .sm adft mat ncols rowMax col t ∧
      ((List.range (rowMax - 1)).foldl (fun r k => addmul c r (dlimb adft (k + 1) c.nn)
        ((vmpPrepare c mat nrows ncols).extract ((col * nrows + (k + 1)) * c.nn) ((col * nrows + (k + 1)) * c.nn + c.nn)))
      (mul c (dlimb adft 0 c.nn)
        ((vmpPrepare c mat nrows ncols).extract ((col * nrows + 0) * c.nn) ((col * nrows + 0) * c.nn + c.nn)))).getD (t + c.m) c.ar.zero
        = colIm c .sm adft mat ncols rowMax col t := by
  have key := foldl_range_inv
    (P := fun k r => r.size = c.nn ∧ ∀ t, t < c.m →
      r.getD t c.ar.zero = smRe c.ar (aRe c.ar.zero adft c.nn t) (aIm c.ar.zero adft c.nn c.m t) (bRe c mat ncols col t)
        (bIm c mat ncols col t) k ∧
      r.getD (t + c.m) c.ar.zero = smIm c.ar (aRe c.ar.zero adft c.nn t) (aIm c.ar.zero adft c.nn c.m t)
        (bRe c mat ncols col t) (bIm c mat ncols col t) k)
    (fun r k => addmul c r (dlimb adft (k + 1) c.nn)
        ((vmpPrepare c mat nrows ncols).extract ((col * nrows + (k + 1)) * c.nn) ((col * nrows + (k + 1)) * c.nn + c.nn)))
    (rowMax - 1)
    (mul c (dlimb adft 0 c.nn)
        ((vmpPrepare c mat nrows ncols).extract ((col * nrows + 0) * c.nn) ((col * nrows + 0) * c.nn + c.nn)))
    (by
      obtain ⟨m1, m2⟩ := mul_cells_g c hnn hmf (dlimb adft 0 c.nn)
        ((vmpPrepare c mat nrows ncols).extract ((col * nrows + 0) * c.nn) ((col * nrows + 0) * c.nn + c.nn))
      refine ⟨m1, fun t ht => ?_⟩
      obtain ⟨v1, v2⟩ := m2 t ht
      rw [v1, v2, dlimb_get _ adft 0 c.nn t (by omega), dlimb_get2 _ adft 0 c.nn t c.m (by omega),
        pcol_get c mat nrows ncols h8 hT 0 col t (by omega) hc (by omega),
        pcol_get c mat nrows ncols h8 hT 0 col (t + c.m) (by omega) hc (by omega)]
      exact ⟨rfl, rfl⟩)
    (by
      intro k r hk ⟨i1, i2⟩
      obtain ⟨m1, m2⟩ := addmul_cells_g c hnn haf r (dlimb adft (k + 1) c.nn)
        ((vmpPrepare c mat nrows ncols).extract ((col * nrows + (k + 1)) * c.nn) ((col * nrows + (k + 1)) * c.nn + c.nn)) i1
      refine ⟨m1, fun t ht => ?_⟩
      obtain ⟨v1, v2⟩ := m2 t ht
      obtain ⟨j1, j2⟩ := i2 t ht
      rw [v1, v2, j1, j2, dlimb_get _ adft (k + 1) c.nn t (by omega), dlimb_get2 _ adft (k + 1) c.nn t c.m (by omega),
        pcol_get c mat nrows ncols h8 hT (k + 1) col t (by omega) hc (by omega),
        pcol_get c mat nrows ncols h8 hT (k + 1) col (t + c.m) (by omega) hc (by omega)]
      exact ⟨rfl, rfl⟩)
  exact ⟨key.1, fun t ht => key.2 t ht⟩

/-- invariant of the column loop of the `nn < 8` branch -/
def SInvG (z : α) (vre vim : ℕ → ℕ → α) (m nn rsz C : ℕ) (res : Array α) : Prop :=
  res.size = rsz * nn ∧
  (∀ col t, col < C → t < m → res.getD (col * nn + t) z = vre col t ∧ res.getD (col * nn + t + m) z = vim col t) ∧
  (∀ x, C * nn ≤ x → res.getD x z = z)

/-- `nn < 8`, at least one usable row -/
theorem vmpApply_small_inv_g (c : Parts α) (hnn : c.nn = 2 * c.m) (hmf : c.mulFma = false) (haf : c.addmulFma = false)
    (h8 : c.nn < 8) (mat : Array Int) (nrows ncols rsz asz : ℕ)
    (hT : ∀ row col, row < nrows → col < ncols → (matDft c mat ncols row col).size = c.nn) (adft : Array α)
    (h0 : 0 < min nrows asz) :
    SInvG c.ar.zero (fun col t => colRe c .sm adft mat ncols (min nrows asz) col t)
      (fun col t => colIm c .sm adft mat ncols (min nrows asz) col t) c.m c.nn rsz (min ncols rsz)
      (vmpApplyDftToDft c rsz adft asz (vmpPrepare c mat nrows ncols) nrows ncols) := by
  have h8' : ¬ (8 ≤ c.nn) := by omega
  have hrm : min nrows asz ≤ nrows := Nat.min_le_left _ _
  have hcm : min ncols rsz ≤ rsz := Nat.min_le_right _ _
  have hcn : min ncols rsz ≤ ncols := Nat.min_le_left _ _
  have hz : (min nrows asz == 0) = false := by
    have : ¬ (min nrows asz = 0) := by omega
    simpa using this
  unfold vmpApplyDftToDft
  simp only [ge_iff_le, h8', if_false, hz, Bool.false_eq_true]
  apply foldl_range_inv (P := fun C res => SInvG c.ar.zero (fun col t => colRe c .sm adft mat ncols (min nrows asz) col t)
      (fun col t => colIm c .sm adft mat ncols (min nrows asz) col t) c.m c.nn rsz C res)
  · refine ⟨by simp, ?_, fun x _ => getD_replicate_z _ _ _⟩
    intro col t hc _
    omega
  · intro C res hC ⟨i1, i2, i3⟩
    have hstep : (C + 1) * c.nn = C * c.nn + c.nn := by ring
    have hb := mul_step C rsz c.nn (by omega)
    obtain ⟨r1, r2⟩ := small_col_g c hnn hmf haf h8 mat nrows ncols hT adft (min nrows asz) hrm h0 C (by omega)
    refine ⟨by rw [size_writeAt, i1], ?_, ?_⟩
    · intro col t hc ht
      by_cases e : col = C
      · subst e
        obtain ⟨q1, q2⟩ := r2 t ht
        constructor
        · exact (getD_writeAt_in _ _ _ _ t (by omega) (by omega)).trans q1
        · rw [Nat.add_assoc]
          exact (getD_writeAt_in _ _ _ _ (t + c.m) (by omega) (by omega)).trans q2
      · have := mul_step col C c.nn (by omega)
        obtain ⟨g1, g2⟩ := i2 col t (by omega) ht
        exact ⟨(getD_writeAt_out _ _ _ _ _ (by omega)).trans g1, (getD_writeAt_out _ _ _ _ _ (by omega)).trans g2⟩
    · intro x hx
      rw [getD_writeAt_out _ _ _ _ _ (by omega)]
      exact i3 x (by omega)

/-- `nn < 8`, no usable row: the `row_max == 0` guard leaves the zero-initialised output -/
theorem vmpApply_small_zero_g (c : Parts α) (h8 : c.nn < 8) (rsz asz : ℕ) (adft pmat : Array α) (nrows ncols : ℕ)
    (h0 : min nrows asz = 0) :
    vmpApplyDftToDft c rsz adft asz pmat nrows ncols = Array.replicate (rsz * c.nn) c.ar.zero := by
  have h8' : ¬ (8 ≤ c.nn) := by omega
  unfold vmpApplyDftToDft
  simp only [ge_iff_le, h8', if_false, h0, beq_self_eq_true, if_true]
  generalize min ncols rsz = C
  induction C with
  | zero => rfl
  | succ C ih => rw [List.range_succ, List.foldl_append, ih]; rfl

end Spq.VmpErr
