/-
  C06.4, structural schedule theorem (inverse cplx), part 5: `cirec16` and the top-level theorem `cifftRI_struct`.
-/
import SpqProofs.Lemmas.FftErrSchedCInv4
set_option linter.unusedSectionVars false
set_option linter.unusedSimpArgs false
namespace Spq.Fft.SchedC
open Spq.Fft Spq.Fft.Alg Spq.Fft.View Spq.Fft.Sim Spq.Fft.SimP Spq.Fft.LevelN Spq.Fft.KernN Spq.Fft.Tw Spq.Fft.SchedN
open Spq.Fft.Tab (length_flatMap_const)
open Spq.Fft.Sched (iter_counter)

variable {R : Type} [Inhabited R]
variable (F : CFlav R) (c s : ℕ → R) (k : ℕ) (y : ℕ → R × R)

/-- `cirec16` (only entered for m > 2048: every region it sees has size ≥ 2048) -/
theorem cirec16_specN (hl : F.lanesOdd = false) (T : Array R) (N : ℕ) :
    ∀ fuel D ℓ0 b0 off m' t (s0 : RI R), k = ℓ0 + D → m' = 2 ^ D → 11 ≤ D → m' ≤ fuel → off = m' * b0 →
      off + m' ≤ N → Valid N s0 →
      SegP T t ((ciRec (4 * 2 ^ k) fuel m' (m' * (1 + 4 * brev ℓ0 b0))).map (valP c s)) →
      AdvI k (gNetCI F c s k) y (prs s0) (prs (cirec16 F T fuel m' off (s0, t)).1) 0 D off m' ∧
        Valid N (cirec16 F T fuel m' off (s0, t)).1 ∧
        (cirec16 F T fuel m' off (s0, t)).2 = t + (ciRec (4 * 2 ^ k) fuel m' (m' * (1 + 4 * brev ℓ0 b0))).length := by
  intro fuel
  induction fuel with
  | zero =>
    intro D ℓ0 b0 off m' t s0 hk hm hD hfuel
    have : 0 < m' := by rw [hm]; exact Nat.two_pow_pos _
    omega
  | succ f ih =>
    intro D ℓ0 b0 off m' t s0 hk hm hD hfuel hoff hN hs hT
    have h2048 : 2048 ≤ m' := by
      have : 2 ^ 11 ≤ 2 ^ D := Nat.pow_le_pow_right (by omega) hD
      rw [hm]; simpa using this
    rw [cirec16]
    rw [ciRec] at hT ⊢
    have hn1 : ¬ m' ≤ 1 := by omega
    have hn8 : ¬ m' ≤ 8 := by omega
    rw [if_neg hn1, if_neg hn8] at hT ⊢
    rw [if_neg hn1, if_neg hn8]
    by_cases hle : m' ≤ 2048
    · rw [if_pos hle] at hT ⊢
      rw [if_pos hle]
      have hD11 : D ≤ 11 := by
        by_contra hc
        have : 2 ^ 12 ≤ 2 ^ D := Nat.pow_le_pow_right (by omega) (by omega)
        rw [← hm] at this; omega
      exact cibfs16_specN F c s k y hl T N ℓ0 D b0 off m' t s0 hk hm (by omega) hD11 (by omega) hoff hN hs hT
    · rw [if_neg hle] at hT ⊢
      rw [if_neg hle]
      have hD12 : 12 ≤ D := by
        by_contra hc
        have : 2 ^ D ≤ 2 ^ 11 := Nat.pow_le_pow_right (by omega) (by omega)
        rw [← hm] at this; omega
      obtain ⟨D1, rfl⟩ : ∃ D1, D = D1 + 1 := ⟨D - 1, by omega⟩
      have hD1 : 11 ≤ D1 := by omega
      have hmm : m' = 2 * 2 ^ D1 := by rw [hm, pow_succ]; ring
      have hh : m' / 2 = 2 ^ D1 := by omega
      have hpw : m' * (1 + 4 * brev ℓ0 b0) / 2 = m' / 2 * (1 + 4 * brev ℓ0 b0) := by
        rw [hmm, Nat.mul_assoc, Nat.mul_div_cancel_left _ (by omega : 0 < 2),
          Nat.mul_div_cancel_left _ (by omega : 0 < 2)]
      have hpL : m' * (1 + 4 * brev ℓ0 b0) / 2 = m' / 2 * (1 + 4 * brev (ℓ0 + 1) (2 * b0)) := by
        rw [hpw, brev_even]
      have hpR : m' * (1 + 4 * brev ℓ0 b0) / 2 + 4 * 2 ^ k / 2 = m' / 2 * (1 + 4 * brev (ℓ0 + 1) (2 * b0 + 1)) := by
        rw [hpw, brev_odd, hk, hh, pow_add, pow_succ]
        have : 4 * (2 ^ ℓ0 * (2 ^ D1 * 2)) / 2 = 4 * (2 ^ ℓ0 * 2 ^ D1) := by
          rw [show 4 * (2 ^ ℓ0 * (2 ^ D1 * 2)) = 2 * (4 * (2 ^ ℓ0 * 2 ^ D1)) by ring]
          exact Nat.mul_div_cancel_left _ (by omega)
        rw [this]; ring
      have hl2 : ∀ x, (List.map (valP c s) (eM x)).length = 2 := fun x => by simp [eM]
      rw [List.map_append, List.map_append, List.map_append, hpR] at hT
      rw [hpR]
      -- left half
      have hTL := hT.left.left.left
      rw [hpL] at hTL
      have s1 := ih D1 (ℓ0 + 1) (2 * b0) off (m' / 2) t s0 (by omega) hh hD1 (by omega)
        (by rw [hoff, hh, hmm]; ring) (by omega) hs hTL
      obtain ⟨sA, tA, hst⟩ : ∃ sA tA, cirec16 F T f (m' / 2) off (s0, t) = (sA, tA) := ⟨_, _, rfl⟩
      rw [hst] at s1
      simp only [hst]
      obtain ⟨a1, v1, p1⟩ := s1
      simp only at a1 v1 p1
      -- right half
      have hTR := hT.left.left.right
      rw [List.length_map, hpL, ← p1] at hTR
      have s2 := ih D1 (ℓ0 + 1) (2 * b0 + 1) (off + m' / 2) (m' / 2) tA sA (by omega) hh hD1 (by omega)
        (by rw [hoff, hh, hmm]; ring) (by omega) v1 hTR
      obtain ⟨sB, tB, hst2⟩ : ∃ sB tB, cirec16 F T f (m' / 2) (off + m' / 2) (sA, tA) = (sB, tB) := ⟨_, _, rfl⟩
      rw [hst2] at s2
      simp only [hst2]
      obtain ⟨a2, v2, p2⟩ := s2
      simp only at a2 v2 p2
      -- twiddle (stored twice)
      have hTW0 := hT.left.right
      rw [List.length_append, List.length_map, List.length_map, hpL, ← Nat.add_assoc, ← p1, ← p2] at hTW0
      have hTW1 := hT.right
      rw [List.length_append, List.length_append, List.length_map, List.length_map, hl2, hpL,
        show t + ((ciRec (4 * 2 ^ k) f (m' / 2) (m' / 2 * (1 + 4 * brev (ℓ0 + 1) (2 * b0)))).length +
          (ciRec (4 * 2 ^ k) f (m' / 2) (m' / 2 * (1 + 4 * brev (ℓ0 + 1) (2 * b0 + 1)))).length + 2)
          = t + (ciRec (4 * 2 ^ k) f (m' / 2) (m' / 2 * (1 + 4 * brev (ℓ0 + 1) (2 * b0)))).length +
          (ciRec (4 * 2 ^ k) f (m' / 2) (m' / 2 * (1 + 4 * brev (ℓ0 + 1) (2 * b0 + 1)))).length + 2 by ring,
        ← p1, ← p2] at hTW1
      obtain ⟨w0, w0'⟩ := read_eMN c s T _ _ hTW0
      obtain ⟨w1, w1'⟩ := read_eMN c s T _ _ hTW1
      rw [show tB + 2 + 1 = tB + 3 by ring] at w1'
      have hgt := gNetCI_top F c s k ℓ0 D1 b0 (by omega) (by omega)
      have s3 := itwPassL_advN k y (gNetCI F c s k) F.ctTop F.lanesTop T tB N ℓ0 D1 b0 off sB v2 (by omega)
        (by rw [hoff, hmm]) (by omega) (by rw [hgt, w0, w0', brev_even, hh, twE])
        (fun _ => by rw [hgt, w1, w1', brev_even, hh, twE])
      rw [← hh] at s3
      refine ⟨?_, s3.2, ?_⟩
      · have b12 := (a1.par a2).of_eq rfl (show m' = m' / 2 + m' / 2 by omega)
        have b3 := s3.1.of_eq rfl (show m' = 2 * (m' / 2) by omega)
        exact b12.seq b3
      · simp only [List.length_append, eM, List.length_cons, List.length_nil, hpL]
        omega

/-- **structural schedule theorem, inverse cplx** (on split storage) -/
theorem cifftRI_struct (hl : F.lanesOdd = false) (s0 : RI R) (hs : Valid (2 ^ k) s0) :
    (∀ p, p < 2 ^ k → prs (cifftRI F (2 ^ k) (((cplxIfftEnts (2 ^ k)).map (valP c s)).toArray) s0) p
      = VNI k (gNetCI F c s k) (prs s0) k p) ∧
    Valid (2 ^ k) (cifftRI F (2 ^ k) (((cplxIfftEnts (2 ^ k)).map (valP c s)).toArray) s0) := by
  have key : AdvI k (gNetCI F c s k) (prs s0) (prs s0)
        (prs (cifftRI F (2 ^ k) (((cplxIfftEnts (2 ^ k)).map (valP c s)).toArray) s0)) 0 k 0 (2 ^ k) ∧
      Valid (2 ^ k) (cifftRI F (2 ^ k) (((cplxIfftEnts (2 ^ k)).map (valP c s)).toArray) s0) := by
    have hb0 : 2 ^ k * (1 + 4 * brev 0 0) = 2 ^ k := by simp [brev]
    by_cases hk0 : k = 0
    · subst hk0
      simp only [cifftRI, pow_zero, Nat.le_refl, ↓reduceIte]
      exact ⟨AdvG.id _ _ _ _, hs⟩
    have h2 : 2 ≤ 2 ^ k := by
      have : 2 ^ 1 ≤ 2 ^ k := Nat.pow_le_pow_right (by omega) (by omega)
      simpa using this
    have hpos : 0 < 2 ^ k := by omega
    obtain ⟨f, hf⟩ : ∃ f, 2 ^ k = f + 1 := ⟨2 ^ k - 1, by omega⟩
    have hE : cplxIfftEnts (2 ^ k) = if 2 ^ k ≤ 8 then ciBfs2 (4 * 2 ^ k) (2 ^ k) (2 ^ k)
        else if 2 ^ k ≤ 2048 then ciBfs16 (4 * 2 ^ k) (2 ^ k) (2 ^ k)
        else ciRec (4 * 2 ^ k) (2 ^ k) (2 ^ k) (2 ^ k) := by
      unfold cplxIfftEnts
      by_cases h8 : 2 ^ k ≤ 8
      · rw [if_pos h8]; conv_lhs => rw [hf, ciRec, ← hf, if_neg (show ¬ 2 ^ k ≤ 1 by omega), if_pos h8]
      · rw [if_neg h8]
        by_cases hle : 2 ^ k ≤ 2048
        · rw [if_pos hle]
          conv_lhs => rw [hf, ciRec, ← hf, if_neg (show ¬ 2 ^ k ≤ 1 by omega), if_neg h8, if_pos hle]
        · rw [if_neg hle]
    unfold cifftRI
    rw [if_neg (show ¬ 2 ^ k ≤ 1 by omega), hE]
    by_cases h8 : 2 ^ k ≤ 8
    · rw [if_pos h8, if_pos h8]
      have hk3 : k ≤ 3 := by
        by_contra hc
        have : 2 ^ 4 ≤ 2 ^ k := Nat.pow_le_pow_right (by omega) (by omega)
        omega
      have hseg := SegP.of_toArray ((ciBfs2 (4 * 2 ^ k) (2 ^ k) (2 ^ k)).map (valP c s))
      have := cibfs2_specN F c s k (prs s0) hk3 _ (2 ^ k) 0 k 0 0 (2 ^ k) 0 s0 (by omega) rfl (by omega) (by ring)
        (by omega) hs (by rw [hb0]; exact hseg)
      exact ⟨this.1, this.2.1⟩
    rw [if_neg h8, if_neg h8]
    have hD4 : 4 ≤ k := by
      by_contra hc
      have : k ≤ 3 := by omega
      have : 2 ^ k ≤ 2 ^ 3 := Nat.pow_le_pow_right (by omega) this
      omega
    by_cases hle : 2 ^ k ≤ 2048
    · rw [if_pos hle, if_pos hle]
      have hk11 : k ≤ 11 := by
        by_contra hc
        have : 2 ^ 12 ≤ 2 ^ k := Nat.pow_le_pow_right (by omega) (by omega)
        omega
      have hseg := SegP.of_toArray ((ciBfs16 (4 * 2 ^ k) (2 ^ k) (2 ^ k)).map (valP c s))
      have := cibfs16_specN F c s k (prs s0) hl _ (2 ^ k) 0 k 0 0 (2 ^ k) 0 s0 (by omega) rfl hD4 hk11 (by omega)
        (by ring) (by omega) hs (by rw [hb0]; exact hseg)
      exact ⟨this.1, this.2.1⟩
    · rw [if_neg hle, if_neg hle]
      have hk12 : 12 ≤ k := by
        by_contra hc
        have : 2 ^ k ≤ 2 ^ 11 := Nat.pow_le_pow_right (by omega) (by omega)
        omega
      have hseg := SegP.of_toArray ((ciRec (4 * 2 ^ k) (2 ^ k) (2 ^ k) (2 ^ k)).map (valP c s))
      have := cirec16_specN F c s k (prs s0) hl _ (2 ^ k) (2 ^ k) k 0 0 0 (2 ^ k) 0 s0 (by omega) rfl (by omega)
        (Nat.le_refl _) (by ring) (by omega) hs (by rw [hb0]; exact hseg)
      exact ⟨this.1, this.2.1⟩
  refine ⟨fun p hp => ?_, key.2⟩
  exact key.1.1 (fun q _ _ => rfl) p (Nat.zero_le _) (by omega)

end Spq.Fft.SchedC
