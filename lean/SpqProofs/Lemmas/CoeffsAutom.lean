/-
  Out-of-place automorphism `X ↦ X^p` (odd `p`, `nn = 2^t`): the scatter loop writes every cell exactly
  once, with `res[(i·p mod 2nn) mod nn] = ± inp[i]`.
-/
import SpqProofs.Lemmas.CoeffsRotate
import Mathlib.Data.Fintype.Card
import Mathlib.Data.Fintype.EquivFin
import Mathlib.Algebra.Order.Group.Unbundled.Int
namespace Spq.Rq
open Spq
variable {α : Type}

/-! ### arithmetic of `i ↦ i·p mod 2nn` -/

theorem two_pow_dvd_of_mul_odd (t : Nat) : ∀ (x p : Int), p % 2 = 1 → (2 : Int) ^ t ∣ x * p → (2 : Int) ^ t ∣ x := by
  induction t with
  | zero => intro x p _ _; simp
  | succ t ih =>
    intro x p hp h
    have h2 : (2 : Int) ∣ x * p := Dvd.dvd.trans ⟨2 ^ t, by ring⟩ h
    have hx : x % 2 = 0 := by
      have := Int.emod_eq_zero_of_dvd h2
      rw [Int.mul_emod, hp] at this
      omega
    obtain ⟨y, hy⟩ := Int.dvd_of_emod_eq_zero hx
    subst hy
    have h3 : (2 : Int) * 2 ^ t ∣ 2 * (y * p) := by
      have e : (2 : Int) ^ (t + 1) = 2 * 2 ^ t := by ring
      rw [← e, ← Int.mul_assoc]; exact h
    have h4 := ih y p hp (Int.dvd_of_mul_dvd_mul_left (by norm_num) h3)
    have e : (2 : Int) ^ (t + 1) = 2 * 2 ^ t := by ring
    rw [e]; exact Int.mul_dvd_mul_left 2 h4

theorem autExp_lt (nn : Nat) (hn : 0 < nn) (p : Int) (i : Nat) : autExp nn p i < 2 * nn := by
  unfold autExp
  have := Int.emod_lt_of_pos ((i : Int) * p) (show (0 : Int) < (2 * nn : Nat) by omega)
  have := Int.emod_nonneg ((i : Int) * p) (show ((2 * nn : Nat) : Int) ≠ 0 by omega)
  omega

theorem autExp_cast (nn : Nat) (hn : 0 < nn) (p : Int) (i : Nat) :
    ((autExp nn p i : Nat) : Int) = ((i : Int) * p) % ((2 * nn : Nat) : Int) := by
  unfold autExp
  exact Int.toNat_of_nonneg (Int.emod_nonneg _ (by omega))

theorem autExp_zero (nn : Nat) (p : Int) : autExp nn p 0 = 0 := by simp [autExp]

theorem autExp_succ (nn : Nat) (hn : 0 < nn) (p : Int) (k : Nat) :
    autExp nn p (k + 1) = posMask ((autExp nn p k : Int) + p) (2 * nn) := by
  unfold posMask
  rw [autExp_cast nn hn, Int.emod_add_emod]
  unfold autExp
  congr 2; push_cast; ring

theorem autPos_cast (nn : Nat) (hn : 0 < nn) (p : Int) (i : Nat) :
    ((autExp nn p i % nn : Nat) : Int) = ((i : Int) * p) % (nn : Int) := by
  rw [Int.natCast_mod, autExp_cast nn hn]
  exact Int.emod_emod_of_dvd _ ⟨2, by push_cast; ring⟩

theorem autPos_inj (t : Nat) (p : Int) (hp : p % 2 = 1) (i i' : Nat) (hi : i < 2 ^ t) (hi' : i' < 2 ^ t)
    (e : autExp (2 ^ t) p i % 2 ^ t = autExp (2 ^ t) p i' % 2 ^ t) : i = i' := by
  have hn : 0 < 2 ^ t := Nat.pow_pos (by norm_num)
  have e' := congrArg (fun (x : Nat) => (x : Int)) e
  simp only [autPos_cast (2 ^ t) hn] at e'
  rw [Int.emod_eq_emod_iff_emod_sub_eq_zero] at e'
  have d := Int.dvd_of_emod_eq_zero e'
  rw [← Int.sub_mul] at d
  have c : ((2 ^ t : Nat) : Int) = (2 : Int) ^ t := by push_cast; rfl
  rw [c] at d
  have d2 := two_pow_dvd_of_mul_odd t _ p hp d
  have : (i : Int) - (i' : Int) = 0 := by
    apply Int.eq_zero_of_abs_lt_dvd d2
    rw [← c, abs_lt]
    constructor <;> omega
  omega

theorem autPos_surj (t : Nat) (p : Int) (hp : p % 2 = 1) (k : Nat) (hk : k < 2 ^ t) :
    ∃ i, i < 2 ^ t ∧ autExp (2 ^ t) p i % 2 ^ t = k := by
  have hn : 0 < 2 ^ t := Nat.pow_pos (by norm_num)
  let f : Fin (2 ^ t) → Fin (2 ^ t) := fun i => ⟨autExp (2 ^ t) p i % 2 ^ t, Nat.mod_lt _ hn⟩
  have finj : Function.Injective f := by
    intro a b hab
    have := congrArg Fin.val hab
    exact Fin.ext (autPos_inj t p hp a b a.isLt b.isLt this)
  obtain ⟨i, hi⟩ := (Finite.injective_iff_surjective.1 finj) ⟨k, hk⟩
  exact ⟨i, i.isLt, congrArg Fin.val hi⟩

/-! ### the scatter loop -/

def AutInv (o : Ops α) (nn : Nat) (p : Int) (inp : Array α) (k : Nat) (st : Nat × Array α) : Prop :=
  st.1 = autExp nn p k ∧ st.2.size = nn ∧
  ∀ i, i ≤ k → st.2.getD (autExp nn p i % nn) o.zero = autVal o nn p inp i

theorem autom_fold (o : Ops α) (t : Nat) (p : Int) (hp : p % 2 = 1) (inp res0 : Array α)
    (hr : res0.size = 2 ^ t) :
    ∀ k, k < 2 ^ t → AutInv o (2 ^ t) p inp k
      ((List.range k).foldl (Coeffs.automStep o (2 ^ t) p inp)
        (0, res0.setIfInBounds 0 (inp.getD 0 o.zero))) := by
  have hn : 0 < 2 ^ t := Nat.pow_pos (by norm_num)
  intro k
  induction k with
  | zero =>
    intro _
    refine ⟨by simp [autExp_zero], by simp [hr], ?_⟩
    intro i hi
    have : i = 0 := by omega
    subst this
    simp only [List.range_zero, List.foldl_nil, autExp_zero, Nat.zero_mod, getD_setIfInBounds, autVal]
    simp [hr, hn]
  | succ k ih =>
    intro hk
    obtain ⟨h1, h2, h3⟩ := ih (by omega)
    rw [List.range_succ, List.foldl_append]
    generalize (List.range k).foldl (Coeffs.automStep o (2 ^ t) p inp)
        (0, res0.setIfInBounds 0 (inp.getD 0 o.zero)) = st at h1 h2 h3
    simp only [List.foldl_cons, List.foldl_nil, Coeffs.automStep]
    rw [h1, ← autExp_succ _ hn]
    have ha := autExp_lt (2 ^ t) hn p (k + 1)
    set a := autExp (2 ^ t) p (k + 1) with ha_def
    have key : (if a < 2 ^ t then st.2.setIfInBounds a (inp.getD (k + 1) o.zero)
        else st.2.setIfInBounds (a - 2 ^ t) (o.neg (inp.getD (k + 1) o.zero))) =
        st.2.setIfInBounds (a % 2 ^ t) (autVal o (2 ^ t) p inp (k + 1)) := by
      unfold autVal
      rw [← ha_def]
      by_cases c : a < 2 ^ t
      · simp only [c, if_true, Nat.mod_eq_of_lt c]
      · have e1 : a % 2 ^ t = a - 2 ^ t := by
          rw [Nat.mod_eq_sub_mod (by omega)]; exact Nat.mod_eq_of_lt (by omega)
        simp only [c, if_false, e1]
    rw [key]
    refine ⟨rfl, by simp [h2], ?_⟩
    intro i hi
    rw [getD_setIfInBounds]
    by_cases c : i = k + 1
    · subst c
      rw [if_pos ⟨rfl, by rw [h2]; exact Nat.mod_lt _ hn⟩]
    · have : ¬ (a % 2 ^ t = autExp (2 ^ t) p i % 2 ^ t ∧ a % 2 ^ t < st.2.size) := by
        intro h
        have := autPos_inj t p hp (k + 1) i hk (by omega) h.1
        omega
      rw [if_neg this]
      exact h3 i (by omega)

theorem autom_size (o : Ops α) (nn : Nat) (p : Int) (inp res0 : Array α) :
    (Coeffs.automorphism o nn p inp res0).size = res0.size := by
  unfold Coeffs.automorphism
  generalize hs : (0, res0.setIfInBounds 0 (inp.getD 0 o.zero)) = st0
  have h0 : st0.2.size = res0.size := by rw [← hs]; simp
  clear hs
  induction (List.range (nn - 1)) generalizing st0 with
  | nil => simpa using h0
  | cons x xs ih =>
    rw [List.foldl_cons]
    apply ih
    unfold Coeffs.automStep
    simp only []
    split <;> simp [h0]

/-- scatter form: position `(i·p mod 2nn) mod nn` holds `± inp[i]` -/
theorem autom_scatter (o : Ops α) (t : Nat) (p : Int) (hp : p % 2 = 1) (inp res0 : Array α)
    (hr : res0.size = 2 ^ t) (i : Nat) (hi : i < 2 ^ t) :
    (Coeffs.automorphism o (2 ^ t) p inp res0).getD (autExp (2 ^ t) p i % 2 ^ t) o.zero =
      autVal o (2 ^ t) p inp i := by
  have hn : 0 < 2 ^ t := Nat.pow_pos (by norm_num)
  have := autom_fold o t p hp inp res0 hr (2 ^ t - 1) (by omega)
  exact this.2.2 i (by omega)

end Spq.Rq
