/-
  Proof scripts shared by the int64 and double twins of the rotation-shaped kernels
  (`znx_rotate_i64` / `rnx_rotate_f64`, `znx_mul_xp_minus_one` / `rnx_mul_xp_minus_one`): the generated terms
  differ only in the element type of loads, stores and negations, so the same symbolic execution applies.

  The macro expects in the context:  `t ht nn hnn p mem r a hra hr ha`  as in the statements of
  `SpqProofs/Properties/Src.lean`, and takes the generated function and the cell function `g` (a term that
  may mention `A = negMask p (2*nn)`, `inp = buf mem a`, `nn`), written with the same `if` structure as the
  model so that the final step is `rfl`.
-/
import Gen.CSrc
import Spq.Coeffs
import SpqProofs.Lemmas.SrcFill
import SpqProofs.Lemmas.SrcFuel
import SpqProofs.Lemmas.SrcMask
import SpqProofs.Lemmas.SrcAut
import SpqProofs.Lemmas.SrcWalk
namespace Spq.CIR

set_option hygiene false in
macro "src_rot_proof" fn:ident gg:term : tactic =>
  `(tactic| (
  intro fuel hf
  have hn1 : 1 ≤ nn := hnn ▸ one_le_pow2 t
  have hn2 : nn ≤ 9223372036854775808 := hnn ▸ pow_le_p63 t ht
  cir_enter $fn
  cir_simp
  rw [negmask_src' t ht nn hnn p]
  generalize hA : negMask p (2 * nn) = A
  have hA2 : A < 2 * nn := hA ▸ negMask_lt' p (2 * nn) (by omega)
  let inp := buf mem a
  let g : Nat → Int := $gg
  by_cases hlt : A < nn
  · have hd : decide ((A : Int) < (nn : Int)) = true := decide_eq_true (by omega)
    have e1 : ((nn : Int) - (A : Int)) % 18446744073709551616 = ((nn - A : Nat) : Int) := by omega
    simp only [hd, if_true, e1]
    rw [fill_for _ _ _ _ _ _ _ mem mem r g 0 (nn - A)
      (set_fill_zero _ _ _).symm rfl (Nat.zero_le _) (by omega) (by omega) (by simp) ?he0 ?hhi ?he fuel (by omega)]
    case he0 => rfl
    case hhi => intro k _ _; rfl
    case he =>
      intro k _ hk
      cir_simp
      have e2 : ((k : Int) + (A : Int)) % 18446744073709551616 = ((k + A : Nat) : Int) := by omega
      rw [e2, load_other _ _ _ _ _ hra (by omega)]
      try cir_simp
      try (rw [load_other _ _ _ _ _ hra (by omega)]; cir_simp)
      simp only [g, if_pos hlt, if_pos hk]; rfl
    cir_simp
    rw [fill_for _ _ _ _ _ _ _ _ mem r g (nn - A) nn rfl rfl (by omega) (by omega) (by omega) (by simp)
      ?he0 ?hhi ?he fuel (by omega)]
    case he0 => rfl
    case hhi => intro k _ _; rfl
    case he =>
      intro k hk1 hk
      cir_simp
      have e2 : ((k : Int) - ((nn - A : Nat) : Int)) % 18446744073709551616 = ((k - (nn - A) : Nat) : Int) := by
        omega
      rw [e2, load_other _ _ _ _ _ hra (by omega)]
      try cir_simp
      try (rw [load_other _ _ _ _ _ hra (by omega)]; cir_simp)
      simp only [g, if_pos hlt, if_neg (show ¬ k < nn - A by omega)]; rfl
    simp only [memOf_ok]
    rw [fillMem_all _ _ _ _ hr]
    subst hA
    rfl
  · have hd : decide ((A : Int) < (nn : Int)) = false := decide_eq_false (by omega)
    have e0 : ((A : Int) - (nn : Int)) % 18446744073709551616 = ((A - nn : Nat) : Int) := by omega
    have e1 : ((nn : Int) - ((A - nn : Nat) : Int)) % 18446744073709551616 = ((nn - (A - nn) : Nat) : Int) := by
      omega
    simp only [hd, Bool.false_eq_true, if_false, e0, e1]
    rw [fill_for _ _ _ _ _ _ _ mem mem r g 0 (nn - (A - nn))
      (set_fill_zero _ _ _).symm rfl (Nat.zero_le _) (by omega) (by omega) (by simp) ?he0 ?hhi ?he fuel (by omega)]
    case he0 => rfl
    case hhi => intro k _ _; rfl
    case he =>
      intro k _ hk
      cir_simp
      have e2 : ((k : Int) + ((A - nn : Nat) : Int)) % 18446744073709551616 = ((k + (A - nn) : Nat) : Int) := by
        omega
      rw [e2, load_other _ _ _ _ _ hra (by omega)]
      try cir_simp
      try (rw [load_other _ _ _ _ _ hra (by omega)]; cir_simp)
      simp only [g, if_neg hlt, if_pos hk]; rfl
    cir_simp
    rw [fill_for _ _ _ _ _ _ _ _ mem r g (nn - (A - nn)) nn rfl rfl (by omega) (by omega) (by omega) (by simp)
      ?he0 ?hhi ?he fuel (by omega)]
    case he0 => rfl
    case hhi => intro k _ _; rfl
    case he =>
      intro k hk1 hk
      cir_simp
      have e2 : ((k : Int) - ((nn - (A - nn) : Nat) : Int)) % 18446744073709551616
          = ((k - (nn - (A - nn)) : Nat) : Int) := by omega
      rw [e2, load_other _ _ _ _ _ hra (by omega)]
      try cir_simp
      try (rw [load_other _ _ _ _ _ hra (by omega)]; cir_simp)
      simp only [g, if_neg hlt, if_neg (show ¬ k < nn - (A - nn) by omega)]; rfl
    simp only [memOf_ok]
    rw [fillMem_all _ _ _ _ hr]
    subst hA
    rfl))

end Spq.CIR

namespace Spq.CIR
/- proof script of the out-of-place automorphism kernels (`znx_automorphism_i64` / `rnx_automorphism_f64`);
    expects `t ht nn hnn p mem r a hra hr ha` in the context, takes the generated function and the `Ops Int`
    instance of the element type. -/
set_option hygiene false in
macro "src_aut_proof" fn:ident o:term : tactic =>
  `(tactic| (
    intro fuel hf
    have hn1 : 1 ≤ nn := hnn ▸ one_le_pow2 t
    have hn2 : nn ≤ 9223372036854775808 := hnn ▸ pow_le_p63 t ht
    have hrm : r < mem.size := lt_size_of_buf_size_pos mem r (by omega)
    cir_enter $fn
    cir_simp
    rw [load0_zero _ _ (by omega)]; cir_simp
    rw [store0_zero _ _ _ (by omega)]; cir_simp
    have em : ((2 % 18446744073709551616 * (nn : Int) % 18446744073709551616 - 1 % 18446744073709551616)
        % 18446744073709551616) = ((2 * nn - 1 : Nat) : Int) := by omega
    have ez : (0 : Int) % 18446744073709551616 = ((0 : Nat) : Int) := by decide
    rw [em, ez]
    let st : Nat → Nat × Array Int := autSt $o nn p (buf mem a) (buf mem r)
    let S : Nat → State := fun i =>
      ⟨[(nn : Int), p, ((st (i - 1)).1 : Int), ((2 * nn - 1 : Nat) : Int), (i : Int)], mem.setIfInBounds r (st (i - 1)).2⟩
    rw [exec_for_range _ _ _ _ _ _ S 1 nn 0 hn1 ?hi0 ?hc ?hs ?hx fuel (by omega)]
    case hi0 =>
      intro f
      cir_simp
      rfl
    case hc =>
      intro k _ hk
      simp only [S]; cir_simp
      exact ok_decide_true (by omega)
    case hx =>
      simp only [S]; cir_simp
      exact ok_decide_false (by omega)
    case hs =>
      intro k hk1 hk f _
      simp only [S]; cir_simp
      rw [Int.toNat_natCast, posmask_src2 t ht nn hnn]
      have hst : st (k + 1 - 1) = Coeffs.automStep $o nn p (buf mem a) (st (k - 1)) (k - 1) := by
        have e : k + 1 - 1 = (k - 1) + 1 := by omega
        simp only [st]; rw [e, autSt_succ]
      rw [hst]
      simp only [Coeffs.automStep, Nat.sub_add_cancel hk1]
      have ha1 : posMask (((st (k - 1)).1 : Int) + p) (2 * nn) < 2 * nn := posMask_lt' _ _ (by omega)
      generalize posMask (((st (k - 1)).1 : Int) + p) (2 * nn) = a1 at ha1 ⊢
      have hsz : (st (k - 1)).2.size = nn := by simp only [st]; rw [autSt_size]; exact hr
      have e1 : ((k : Int) + 1) % 18446744073709551616 = ((k + 1 : Nat) : Int) := by omega
      by_cases hlt : a1 < nn
      · have hd : decide ((a1 : Int) < (nn : Int)) = true := decide_eq_true (by omega)
        simp only [hd, if_true, if_pos hlt]
        rw [load_other _ _ _ _ _ hra (by omega)]; cir_simp
        rw [store_set _ _ _ _ _ hrm (by omega)]; cir_simp
        rw [e1]; rfl
      · have hd : decide ((a1 : Int) < (nn : Int)) = false := decide_eq_false (by omega)
        have e2 : ((a1 : Int) - (nn : Int)) % 18446744073709551616 = ((a1 - nn : Nat) : Int) := by omega
        simp only [hd, Bool.false_eq_true, if_false, if_neg hlt, e2]
        rw [load_other _ _ _ _ _ hra (by omega)]; cir_simp
        rw [store_set _ _ _ _ _ hrm (by omega)]; cir_simp
        rw [e1]; rfl
    simp only [S, st]
    rw [automorphism_eq_autSt]
    rfl))
end Spq.CIR

namespace Spq.CIR
/- proof script of the in-place rotation kernels (`znx_rotate_inplace_i64`, `rnx_rotate_inplace_f64`,
   `rnx_mul_xp_minus_one_inplace`); expects `t ht nn hnn p mem r hr` in the context; takes the generated function,
   the `Ops Int` instance of the element type and the model's `sub` flag. -/
set_option hygiene false in
macro "src_walk_proof" fn:ident o:term:max sb:term:max : tactic =>
  `(tactic| (
    intro fuel hf
    have hn1 : 1 ≤ nn := hnn ▸ one_le_pow2 t
    have hn2 : nn ≤ 9223372036854775808 := hnn ▸ pow_le_p63 t ht
    have hrm : r < mem.size := lt_size_of_buf_size_pos mem r (by omega)
    cir_enter $fn
    cir_simp
    have em : ((2 % 18446744073709551616 * (nn : Int) % 18446744073709551616 - 1 % 18446744073709551616)
        % 18446744073709551616) = ((2 * nn - 1 : Nat) : Int) := by omega
    have em1 : (((nn : Int) - 1 % 18446744073709551616) % 18446744073709551616) = ((nn - 1 : Nat) : Int) := by omega
    have ez : (0 : Int) % 18446744073709551616 = ((0 : Nat) : Int) := by decide
    rw [em, em1, ez]
    let b0 : WB := ⟨0, ⟨0, 0, buf mem r, 0, 0, 0, 0⟩⟩
    have e0 : ∀ env, (⟨env, mem⟩ : State) = ⟨env, mem.setIfInBounds r (buf mem r)⟩ := fun env => by
      rw [set_buf_self]
    rw [e0]
    change memOf (exec _ _ _ (bS nn p mem r b0)) = _
    rw [while_sim _ _ _ (bS nn p mem r) (bTst nn) (bStp $o nn p $sb) (BG nn) nn ?hG ?hzero ?hcond ?hbody
      nn b0 fuel ?hG0 (by omega)]
    · rw [memOf_ok]
      have := walkAll_eq $o nn p $sb nn b0
      simp only [bS, wS]
      rw [← this]
      rfl
    case hG0 => exact ⟨hr, Nat.le_refl _, by simp [b0], by simp [b0]; omega⟩
    case hG => intro m b h ht; exact BG_step $o nn (by omega) p $sb m b h ht
    case hzero =>
      intro b ⟨_, _, h3, _⟩
      simp only [bTst]
      exact decide_eq_false (by omega)
    case hcond =>
      intro m b _
      simp only [bS, wS]; cir_simp
      simp only [bTst, Nat.cast_lt]
    case hbody =>
      intro m b f hG htst hf
      obtain ⟨h1, h2, h3, h4⟩ := hG
      have hlt : b.a.nb < nn := by simpa [bTst] using htst
      simp only [bS, wS]; cir_simp
      rw [load_set_self _ _ _ _ hrm (by omega)]; cir_simp
      erw [doWhile_sim _ _ _ (wS nn p mem r b.jstart) (wStp $o nn p $sb) (wEx b.jstart) (AG nn)
        ?hG ?hbody ?hcond nn (bEnter $o b) f ?hG0 ?hT (by omega)]
      · simp only [wS]; cir_simp
        have e : ((b.jstart : Int) + 1) % 18446744073709551616 = ((b.jstart + 1 : Nat) : Int) := by omega
        rw [e]
        rfl
      case hG => intro m a h _; exact AG_step $o nn p $sb m a h
      case hG0 => exact ⟨h1, by show b.a.nb + nn < _; omega⟩
      case hT =>
        apply termA_of_closes $o nn (by omega) p $sb b.jstart nn
        exact closes_self nn (by omega) p b.jstart (by omega)
      case hcond =>
        intro a
        simp only [wS]; cir_simp
        simp only [wEx]
        by_cases h : a.j = b.jstart <;> simp [h]
      case hbody =>
        intro m a f hA
        obtain ⟨hs, hb⟩ := hA
        simp only [wS]; cir_simp
        simp only [Int.toNat_natCast]
        rw [posmask_src2 t ht nn hnn, and_mn t nn hnn]
        have hmod : posMask ((a.j : Int) + p) (2 * nn) % nn < nn := Nat.mod_lt _ (by omega)
        have enb : ((a.nb : Int) + 1) % 18446744073709551616 = ((a.nb + 1 : Nat) : Int) := by omega
        rw [load_set_self _ _ _ _ hrm (by omega)]; cir_simp
        by_cases hlt2 : posMask ((a.j : Int) + p) (2 * nn) < nn
        · rw [if_pos (show ((posMask ((a.j : Int) + p) (2 * nn) : Nat) : Int) < (nn : Int) by omega)]; cir_simp
          try (rw [load_set_self _ _ _ _ hrm (by omega)]; cir_simp)
          rw [store_set _ _ _ _ _ hrm (by omega)]; cir_simp
          rw [enb]
          simp only [wStp, if_pos hlt2, Bool.false_eq_true, if_false, if_true]
          rfl
        · rw [if_neg (show ¬ ((posMask ((a.j : Int) + p) (2 * nn) : Nat) : Int) < (nn : Int) by omega)]; cir_simp
          try (rw [load_set_self _ _ _ _ hrm (by omega)]; cir_simp)
          rw [store_set _ _ _ _ _ hrm (by omega)]; cir_simp
          rw [enb]
          simp only [wStp, if_neg hlt2, Bool.false_eq_true, if_false, if_true]
          rfl))
end Spq.CIR
