/-
  No-overflow from a magnitude box, step 10: the accumulation stage of the vector-matrix product.
  `pU c` / `pUB c Ua Ub`: the module with underflow-only flags / with flags and bounds; `cell_no_ovf`: for every cell
  of a computed column, underflow-only flag ⇒ full flag (`vmpFlag`), finite, bounded by `32·Ua·Ub·(n+1)`.
-/
import SpqProofs.Lemmas.VmpErrOvf9
import SpqProofs.Lemmas.VmpErrOvf7
import SpqProofs.Lemmas.VmpErrCol
set_option linter.unusedSectionVars false
namespace Spq.VmpErr
open Spq Spq.Module Spq.F64 Spq.Reim4 Spq.ProdErr

/-- simulation of the accumulation recurrences when the row data are related for the rows `i < n` only -/
theorem dot_sim_on {α β : Type} {R : α → β → Prop} {ar : RArith α} {br : RArith β} (h : RArith.Sim R ar br) (K : DotK)
    (a b c d : ℕ → α) (a' b' c' d' : ℕ → β) (n : ℕ) (hn : K = .sm → 1 ≤ n)
    (ha : ∀ i, i < n → R (a i) (a' i)) (hb : ∀ i, i < n → R (b i) (b' i)) (hc : ∀ i, i < n → R (c i) (c' i))
    (hd : ∀ i, i < n → R (d i) (d' i)) :
    R (dotRe ar K a b c d n) (dotRe br K a' b' c' d' n) ∧ R (dotIm ar K a b c d n) (dotIm br K a' b' c' d' n) := by
  -- cut the data off beyond the rows: related everywhere
  have key : ∀ (z : α) (z' : β), R z z' →
      R (dotRe ar K (fun i => if i < n then a i else z) (fun i => if i < n then b i else z) (fun i => if i < n then c i else z)
          (fun i => if i < n then d i else z) n)
        (dotRe br K (fun i => if i < n then a' i else z') (fun i => if i < n then b' i else z')
          (fun i => if i < n then c' i else z') (fun i => if i < n then d' i else z') n) ∧
      R (dotIm ar K (fun i => if i < n then a i else z) (fun i => if i < n then b i else z) (fun i => if i < n then c i else z)
          (fun i => if i < n then d i else z) n)
        (dotIm br K (fun i => if i < n then a' i else z') (fun i => if i < n then b' i else z')
          (fun i => if i < n then c' i else z') (fun i => if i < n then d' i else z') n) := by
    intro z z' hz
    apply dot_sim h K
    all_goals (intro i; by_cases hi : i < n)
    all_goals simp only [hi, if_true, if_false]
    all_goals first | exact ha i hi | exact hb i hi | exact hc i hi | exact hd i hi | exact hz
  obtain ⟨k1, k2⟩ := key ar.zero br.zero h.zero
  obtain ⟨e1, e2⟩ := dotRe_congr ar K a b c d (fun i => if i < n then a i else ar.zero) (fun i => if i < n then b i else ar.zero)
    (fun i => if i < n then c i else ar.zero) (fun i => if i < n then d i else ar.zero) n hn
    (fun i hi => by simp only [hi, if_true]) (fun i hi => by simp only [hi, if_true]) (fun i hi => by simp only [hi, if_true])
    (fun i hi => by simp only [hi, if_true])
  obtain ⟨f1, f2⟩ := dotRe_congr br K a' b' c' d' (fun i => if i < n then a' i else br.zero)
    (fun i => if i < n then b' i else br.zero) (fun i => if i < n then c' i else br.zero)
    (fun i => if i < n then d' i else br.zero) n hn
    (fun i hi => by simp only [hi, if_true]) (fun i hi => by simp only [hi, if_true]) (fun i hi => by simp only [hi, if_true])
    (fun i hi => by simp only [hi, if_true])
  rw [e1, e2, f1, f2]
  exact ⟨k1, k2⟩

theorem getD_map_lt {γ δ : Type} (f : γ → δ) (x : Array γ) (i : ℕ) (z : γ) (dflt : δ) (h : i < x.size) :
    (x.map f).getD i dflt = f (x.getD i z) := by
  simp only [Array.getD_eq_getD_getElem?, Array.getElem?_map, Array.getElem?_eq_getElem h]
  rfl

/-- the module with UNDERFLOW-only flags (prepared matrix = lifted bit-level DFTs of the entries) -/
def pU (c : Cfg) : Parts (ℕ × Prop) :=
  mkParts arithU c.nn c.mulFma c.addmulFma c.vmpAvx (fun x => ((Cfg.parts c).fft ((Cfg.parts c).fromZnx x)).map lift)

/-- the module with underflow-only flags and magnitude bounds (`Ub` for the cells of the prepared matrix) -/
def pUB (c : Cfg) (Ub : ℚ) : Parts ((ℕ × Prop) × (ℚ × Prop)) :=
  mkParts arithUB c.nn c.mulFma c.addmulFma c.vmpAvx
    (fun x => ((Cfg.parts c).fft ((Cfg.parts c).fromZnx x)).map (fun b => (lift b, (Ub, True))))

/-- **underflow-only flag of output cell `p` of the vector-matrix product** (`vmpFlag` with `NoUnd`) -/
def vmpFlagU (c : Cfg) (mat : Array Int) (nrows ncols : ℕ) (a : Array Int) (asz asl rsz p : ℕ) : Prop :=
  ((vmpApplyDftToDft (pU c) rsz ((vecDft (Cfg.parts c) (min nrows asz) a asz asl).map lift) asz
    (vmpPrepare (pU c) mat nrows ncols) nrows ncols).getD p arithU.zero).2

theorem cell_no_ovf (c : Cfg) (k : ℕ) (cN sN cNi sNi : ℕ → ℕ) (h : VCfgOk c k cN sN cNi sNi)
    (mat : Array Int) (nrows ncols : ℕ) (a : Array Int) (asz asl rsz : ℕ)
    (hA : ∀ i, i < min nrows asz → Box k (limbOf a i asl (2 * 2 ^ k)))
    (hM : ∀ i j, i < nrows → j < ncols → Box k (matEntry mat ncols (2 * 2 ^ k) i j))
    (Ua Ub : ℚ) (hUa : 0 ≤ Ua) (hUb : 0 ≤ Ub)
    (bA : ∀ i, i < min nrows asz → ∀ x, x < 2 * 2 ^ k → |val ((stF c k cN sN (limbOf a i asl (2 * 2 ^ k))).getD x 0)| ≤ Ua)
    (hκ : kap ^ (2 * min nrows asz) ≤ 4) (hT : 32 * (Ua * Ub) * (((min nrows asz : ℕ) : ℚ) + 1) < Tov)
    (j t : ℕ) (hj : j < min ncols rsz) (ht : t < 2 ^ k) (hpos : k < 2 → 0 < min nrows asz)
    (bM : ∀ i, i < min nrows asz → ∀ x, x < 2 * 2 ^ k →
      |val ((stF c k cN sN (matEntry mat ncols (2 * 2 ^ k) i j)).getD x 0)| ≤ Ub) :
    (vmpFlagU c mat nrows ncols a asz asl rsz (j * (2 * 2 ^ k) + t) →
      vmpFlag c mat nrows ncols a asz asl rsz (j * (2 * 2 ^ k) + t) ∧
      |val ((vmpRes c mat nrows ncols a asz asl rsz).getD (j * (2 * 2 ^ k) + t) 0)| ≤
        32 * (Ua * Ub) * (((min nrows asz : ℕ) : ℚ) + 1)) ∧
    (vmpFlagU c mat nrows ncols a asz asl rsz (j * (2 * 2 ^ k) + t + 2 ^ k) →
      vmpFlag c mat nrows ncols a asz asl rsz (j * (2 * 2 ^ k) + t + 2 ^ k) ∧
      |val ((vmpRes c mat nrows ncols a asz asl rsz).getD (j * (2 * 2 ^ k) + t + 2 ^ k) 0)| ≤
        32 * (Ua * Ub) * (((min nrows asz : ℕ) : ℚ) + 1)) := by
  have hnn := p_nn c k cN sN cNi sNi h
  have hm := parts_m c k h.cfg.nn
  have hjc : j < ncols := lt_of_lt_of_le hj (Nat.min_le_left _ _)
  obtain ⟨adft, hadft⟩ : ∃ adft, adft = vecDft (Cfg.parts c) (min nrows asz) a asz asl := ⟨_, rfl⟩
  have hT0 : ∀ row col, row < nrows → col < ncols → (matDft (Cfg.parts c) mat ncols row col).size = (Cfg.parts c).nn := by
    intro row col hr hc
    rw [matDft_stF c k cN sN cNi sNi h, hnn]
    exact stF_size c k cN sN cNi sNi h.cfg _ (hM row col hr hc)
  have hadsz : adft.size = min nrows asz * (2 * 2 ^ k) := by
    obtain ⟨s, _⟩ := vecDft_spec (Cfg.parts c) (min nrows asz) a asz asl (fun i => stF c k cN sN (limbOf a i asl (2 * 2 ^ k)))
      (fun i hi => by rw [if_pos (lt_of_lt_of_le hi (Nat.min_le_right _ _)), parts_fft c k cN sN cNi sNi h.cfg, hnn])
      (fun i hi => by rw [hnn]; exact stF_size c k cN sN cNi sNi h.cfg _ (hA i hi))
    rw [hadft, s, hnn]
  have hpos' : (Cfg.parts c).nn < 8 → 0 < min nrows asz := fun h8 => hpos (nn_lt8 c k cN sN cNi sNi h h8)
  -- the three flagged / bounded layouts and the bit level
  obtain ⟨_, L0, _, _⟩ := vmp_layout_g (Cfg.parts c) (p_hnn c k cN sN cNi sNi h) (p_hblk c k cN sN cNi sNi h)
    (p_hsm c k cN sN cNi sNi h) mat nrows ncols rsz asz adft (fun _ => hT0)
  obtain ⟨_, L1, _, _⟩ := vmp_layout_g (pOk c) (p_hnn c k cN sN cNi sNi h) (p_hblk c k cN sN cNi sNi h)
    (p_hsm c k cN sN cNi sNi h) mat nrows ncols rsz asz (adft.map lift)
    (fun _ row col hr hc => by rw [matDft_pOk, Array.size_map]; exact hT0 row col hr hc)
  obtain ⟨_, L2, _, _⟩ := vmp_layout_g (pU c) (p_hnn c k cN sN cNi sNi h) (p_hblk c k cN sN cNi sNi h)
    (p_hsm c k cN sN cNi sNi h) mat nrows ncols rsz asz (adft.map lift)
    (fun _ row col hr hc => by
      show ((matDft (Cfg.parts c) mat ncols row col).map lift).size = _
      rw [Array.size_map]; exact hT0 row col hr hc)
  have ht' : t < (Cfg.parts c).m := by rw [hm]; exact ht
  obtain ⟨c0re, c0im⟩ := L0 j t hj ht' hpos'
  obtain ⟨c1re, c1im⟩ := L1 j t hj ht' hpos'
  obtain ⟨c2re, c2im⟩ := L2 j t hj ht' hpos'
  have hsm : colKind (Cfg.parts c) ncols rsz j = .sm → 1 ≤ min nrows asz := by
    intro hk
    unfold colKind at hk
    by_cases h8 : 8 ≤ (Cfg.parts c).nn
    · rw [if_pos h8] at hk
      unfold colKind8 at hk
      split at hk
      · have := kind1_ne _ hk; omega
      · have := kind2_ne _ hk; omega
    · exact hpos' (by omega)
  -- lane data: lifted, and lifted with bounds
  have inA : ∀ i, i < min nrows asz → ∀ x, x < 2 * 2 ^ k →
      adft.getD (i * (2 * 2 ^ k) + x) 0 = (stF c k cN sN (limbOf a i asl (2 * 2 ^ k))).getD x 0 := by
    intro i hi x hx
    rw [hadft]
    exact vecDft_cell c k cN sN cNi sNi h a asz asl _ (Nat.min_le_right _ _) hA i x hi hx
  have szA : ∀ i, i < min nrows asz → ∀ x, x < 2 * 2 ^ k → i * (2 * 2 ^ k) + x < adft.size := by
    intro i hi x hx
    rw [hadsz]
    have := mul_step i (min nrows asz) (2 * 2 ^ k) hi
    omega
  have szM : ∀ i, i < min nrows asz → (matDft (Cfg.parts c) mat ncols i j).size = 2 * 2 ^ k := by
    intro i hi
    rw [← hnn]
    exact hT0 i j (lt_of_lt_of_le hi (Nat.min_le_left _ _)) hjc
  -- relations for the rows i < n
  have rA : ∀ i, i < min nrows asz → ∀ x, x < 2 * 2 ^ k →
      RlO ((adft.map lift).getD (i * (2 * 2 ^ k) + x) arithOk.zero)
        ((adft.map lift).getD (i * (2 * 2 ^ k) + x) arithU.zero, (Ua, True)) := by
    intro i hi x hx
    rw [getD_map_lt lift adft _ 0 arithOk.zero (szA i hi x hx), getD_map_lt lift adft _ 0 arithU.zero (szA i hi x hx)]
    exact rlO_lift _ Ua hUa (fun _ => by rw [inA i hi x hx]; exact bA i hi x hx)
  have rM : ∀ i, i < min nrows asz → ∀ x, x < 2 * 2 ^ k →
      RlO (((matDft (Cfg.parts c) mat ncols i j).map lift).getD x arithOk.zero)
        (((matDft (Cfg.parts c) mat ncols i j).map lift).getD x arithU.zero, (Ub, True)) := by
    intro i hi x hx
    have hs : x < (matDft (Cfg.parts c) mat ncols i j).size := by rw [szM i hi]; exact hx
    rw [getD_map_lt lift _ _ 0 arithOk.zero hs, getD_map_lt lift _ _ 0 arithU.zero hs]
    exact rlO_lift _ Ub hUb (fun _ => by rw [matDft_stF c k cN sN cNi sNi h]; exact bM i hi x hx)
  -- the simulation on the accumulation recurrences (lane functions written with `(Cfg.parts c).nn`, `.m`)
  have htm : t + 2 ^ k < 2 * 2 ^ k := by omega
  obtain ⟨NN, hNN⟩ : ∃ NN, NN = (Cfg.parts c).nn := ⟨_, rfl⟩
  obtain ⟨MM, hMM⟩ : ∃ MM, MM = (Cfg.parts c).m := ⟨_, rfl⟩
  have eNN : NN = 2 * 2 ^ k := by rw [hNN]; exact hnn
  have eMM : MM = 2 ^ k := by rw [hMM]; exact hm
  have Q := dot_sim_on simO (colKind (Cfg.parts c) ncols rsz j)
    (aRe arithOk.zero (adft.map lift) NN t) (aIm arithOk.zero (adft.map lift) NN MM t)
    (fun i => ((matDft (Cfg.parts c) mat ncols i j).map lift).getD t arithOk.zero)
    (fun i => ((matDft (Cfg.parts c) mat ncols i j).map lift).getD (t + MM) arithOk.zero)
    (fun i => (aRe arithU.zero (adft.map lift) NN t i, (Ua, True)))
    (fun i => (aIm arithU.zero (adft.map lift) NN MM t i, (Ua, True)))
    (fun i => (((matDft (Cfg.parts c) mat ncols i j).map lift).getD t arithU.zero, (Ub, True)))
    (fun i => (((matDft (Cfg.parts c) mat ncols i j).map lift).getD (t + MM) arithU.zero, (Ub, True)))
    (min nrows asz) hsm
    (fun i hi => by unfold aRe; rw [eNN]; exact rA i hi t (by omega))
    (fun i hi => by
      unfold aIm; rw [eNN, eMM]
      have := rA i hi (t + 2 ^ k) htm
      rw [← Nat.add_assoc] at this
      exact this)
    (fun i hi => rM i hi t (by omega)) (fun i hi => by rw [eMM]; exact rM i hi (t + 2 ^ k) htm)
  have P1 := dot_sim sim_fst (colKind (Cfg.parts c) ncols rsz j)
    (fun i => (aRe arithU.zero (adft.map lift) NN t i, ((Ua, True) : ℚ × Prop)))
    (fun i => (aIm arithU.zero (adft.map lift) NN MM t i, ((Ua, True) : ℚ × Prop)))
    (fun i => (((matDft (Cfg.parts c) mat ncols i j).map lift).getD t arithU.zero, ((Ub, True) : ℚ × Prop)))
    (fun i => (((matDft (Cfg.parts c) mat ncols i j).map lift).getD (t + MM) arithU.zero, ((Ub, True) : ℚ × Prop)))
    (aRe arithU.zero (adft.map lift) NN t) (aIm arithU.zero (adft.map lift) NN MM t)
    (fun i => ((matDft (Cfg.parts c) mat ncols i j).map lift).getD t arithU.zero)
    (fun i => ((matDft (Cfg.parts c) mat ncols i j).map lift).getD (t + MM) arithU.zero)
    (fun _ => rfl) (fun _ => rfl) (fun _ => rfl) (fun _ => rfl) (min nrows asz)
  have P2 := dot_sim sim_snd (colKind (Cfg.parts c) ncols rsz j)
    (fun i => (aRe arithU.zero (adft.map lift) NN t i, ((Ua, True) : ℚ × Prop)))
    (fun i => (aIm arithU.zero (adft.map lift) NN MM t i, ((Ua, True) : ℚ × Prop)))
    (fun i => (((matDft (Cfg.parts c) mat ncols i j).map lift).getD t arithU.zero, ((Ub, True) : ℚ × Prop)))
    (fun i => (((matDft (Cfg.parts c) mat ncols i j).map lift).getD (t + MM) arithU.zero, ((Ub, True) : ℚ × Prop)))
    (fun _ => ((Ua, True) : ℚ × Prop)) (fun _ => ((Ua, True) : ℚ × Prop)) (fun _ => ((Ub, True) : ℚ × Prop))
    (fun _ => ((Ub, True) : ℚ × Prop))
    (fun _ => rfl) (fun _ => rfl) (fun _ => rfl) (fun _ => rfl) (min nrows asz)
  have bdA : Bd Ua ((Ua, True) : ℚ × Prop) := ⟨trivial, hUa, le_refl _⟩
  have bdB : Bd Ub ((Ub, True) : ℚ × Prop) := ⟨trivial, hUb, le_refl _⟩
  obtain ⟨B1, B2⟩ := dot_bd (fun _ => ((Ua, True) : ℚ × Prop)) (fun _ => ((Ua, True) : ℚ × Prop))
    (fun _ => ((Ub, True) : ℚ × Prop)) (fun _ => ((Ub, True) : ℚ × Prop)) Ua Ub hUa hUb (fun _ => bdA) (fun _ => bdA)
    (fun _ => bdB) (fun _ => bdB) (colKind (Cfg.parts c) ncols rsz j) (min nrows asz) hsm hκ hT
  -- bit level
  obtain ⟨p0re, p0im⟩ := dot_sim arithOk_sim_arith (colKind (Cfg.parts c) ncols rsz j)
    (aRe arithOk.zero (adft.map lift) NN t) (aIm arithOk.zero (adft.map lift) NN MM t)
    (fun i => ((matDft (Cfg.parts c) mat ncols i j).map lift).getD t arithOk.zero)
    (fun i => ((matDft (Cfg.parts c) mat ncols i j).map lift).getD (t + MM) arithOk.zero)
    (aRe 0 adft NN t) (aIm 0 adft NN MM t)
    (fun i => (matDft (Cfg.parts c) mat ncols i j).getD t 0) (fun i => (matDft (Cfg.parts c) mat ncols i j).getD (t + MM) 0)
    (fun i => rel1_lift adft _) (fun i => rel1_lift adft _)
    (fun i => rel1_lift (matDft (Cfg.parts c) mat ncols i j) _) (fun i => rel1_lift (matDft (Cfg.parts c) mat ncols i j) _)
    (min nrows asz)
  have eres : vmpRes c mat nrows ncols a asz asl rsz =
      vmpApplyDftToDft (Cfg.parts c) rsz adft asz (vmpPrepare (Cfg.parts c) mat nrows ncols) nrows ncols := by
    rw [hadft]; rfl
  -- the cells as the recurrences (definitional unfolding of `colRe` / `colIm`)
  subst hNN hMM
  have u0re : colRe (Cfg.parts c) (colKind (Cfg.parts c) ncols rsz j) adft mat ncols (min nrows asz) j t =
      dotRe F64.arith (colKind (Cfg.parts c) ncols rsz j) (aRe 0 adft (Cfg.parts c).nn t)
        (aIm 0 adft (Cfg.parts c).nn (Cfg.parts c).m t) (fun i => (matDft (Cfg.parts c) mat ncols i j).getD t 0)
        (fun i => (matDft (Cfg.parts c) mat ncols i j).getD (t + (Cfg.parts c).m) 0) (min nrows asz) := rfl
  have u0im : colIm (Cfg.parts c) (colKind (Cfg.parts c) ncols rsz j) adft mat ncols (min nrows asz) j t =
      dotIm F64.arith (colKind (Cfg.parts c) ncols rsz j) (aRe 0 adft (Cfg.parts c).nn t)
        (aIm 0 adft (Cfg.parts c).nn (Cfg.parts c).m t) (fun i => (matDft (Cfg.parts c) mat ncols i j).getD t 0)
        (fun i => (matDft (Cfg.parts c) mat ncols i j).getD (t + (Cfg.parts c).m) 0) (min nrows asz) := rfl
  have u1re : colRe (pOk c) (colKind (pOk c) ncols rsz j) (adft.map lift) mat ncols (min nrows asz) j t =
      dotRe arithOk (colKind (Cfg.parts c) ncols rsz j) (aRe arithOk.zero (adft.map lift) (Cfg.parts c).nn t)
        (aIm arithOk.zero (adft.map lift) (Cfg.parts c).nn (Cfg.parts c).m t)
        (fun i => ((matDft (Cfg.parts c) mat ncols i j).map lift).getD t arithOk.zero)
        (fun i => ((matDft (Cfg.parts c) mat ncols i j).map lift).getD (t + (Cfg.parts c).m) arithOk.zero) (min nrows asz) := rfl
  have u1im : colIm (pOk c) (colKind (pOk c) ncols rsz j) (adft.map lift) mat ncols (min nrows asz) j t =
      dotIm arithOk (colKind (Cfg.parts c) ncols rsz j) (aRe arithOk.zero (adft.map lift) (Cfg.parts c).nn t)
        (aIm arithOk.zero (adft.map lift) (Cfg.parts c).nn (Cfg.parts c).m t)
        (fun i => ((matDft (Cfg.parts c) mat ncols i j).map lift).getD t arithOk.zero)
        (fun i => ((matDft (Cfg.parts c) mat ncols i j).map lift).getD (t + (Cfg.parts c).m) arithOk.zero) (min nrows asz) := rfl
  have u2re : colRe (pU c) (colKind (pU c) ncols rsz j) (adft.map lift) mat ncols (min nrows asz) j t =
      dotRe arithU (colKind (Cfg.parts c) ncols rsz j) (aRe arithU.zero (adft.map lift) (Cfg.parts c).nn t)
        (aIm arithU.zero (adft.map lift) (Cfg.parts c).nn (Cfg.parts c).m t)
        (fun i => ((matDft (Cfg.parts c) mat ncols i j).map lift).getD t arithU.zero)
        (fun i => ((matDft (Cfg.parts c) mat ncols i j).map lift).getD (t + (Cfg.parts c).m) arithU.zero) (min nrows asz) := rfl
  have u2im : colIm (pU c) (colKind (pU c) ncols rsz j) (adft.map lift) mat ncols (min nrows asz) j t =
      dotIm arithU (colKind (Cfg.parts c) ncols rsz j) (aRe arithU.zero (adft.map lift) (Cfg.parts c).nn t)
        (aIm arithU.zero (adft.map lift) (Cfg.parts c).nn (Cfg.parts c).m t)
        (fun i => ((matDft (Cfg.parts c) mat ncols i j).map lift).getD t arithU.zero)
        (fun i => ((matDft (Cfg.parts c) mat ncols i j).map lift).getD (t + (Cfg.parts c).m) arithU.zero) (min nrows asz) := rfl
  have hnn1 : (pOk c).nn = 2 * 2 ^ k := hnn
  have hnn2 : (pU c).nn = 2 * 2 ^ k := hnn
  have hm1 : (pOk c).m = 2 ^ k := hm
  have hm2 : (pU c).m = 2 ^ k := hm
  rw [hnn] at c0re c0im
  rw [hm] at c0im
  rw [hnn1] at c1re c1im
  rw [hm1] at c1im
  rw [hnn2] at c2re c2im
  rw [hm2] at c2im
  rw [u0re] at c0re
  rw [u0im] at c0im
  rw [u1re] at c1re
  rw [u1im] at c1im
  rw [u2re] at c2re
  rw [u2im] at c2im
  constructor
  · intro hf
    unfold vmpFlagU at hf
    rw [← hadft] at hf
    have hf1 : ((vmpApplyDftToDft (pU c) rsz (adft.map lift) asz (vmpPrepare (pU c) mat nrows ncols) nrows ncols).getD
        (j * (2 * 2 ^ k) + t) (pU c).ar.zero).2 := hf
    rw [c2re, ← P1.1] at hf1
    have hb := B1
    rw [← P2.1] at hb
    obtain ⟨x1, x2, x3⟩ := Q.1.2.2 hf1 hb.1
    constructor
    · unfold vmpFlag
      rw [← hadft]
      show ((vmpApplyDftToDft (pOk c) rsz (adft.map lift) asz (vmpPrepare (pOk c) mat nrows ncols) nrows ncols).getD
        (j * (2 * 2 ^ k) + t) (pOk c).ar.zero).2
      rw [c1re]
      exact x1
    · rw [eres]
      show |val ((vmpApplyDftToDft (Cfg.parts c) rsz adft asz (vmpPrepare (Cfg.parts c) mat nrows ncols) nrows ncols).getD
        (j * (2 * 2 ^ k) + t) (Cfg.parts c).ar.zero)| ≤ _
      rw [c0re, ← p0re]
      exact le_trans x3 hb.2.2
  · intro hf
    unfold vmpFlagU at hf
    rw [← hadft] at hf
    have hf1 : ((vmpApplyDftToDft (pU c) rsz (adft.map lift) asz (vmpPrepare (pU c) mat nrows ncols) nrows ncols).getD
        (j * (2 * 2 ^ k) + t + 2 ^ k) (pU c).ar.zero).2 := hf
    rw [c2im, ← P1.2] at hf1
    have hb := B2
    rw [← P2.2] at hb
    obtain ⟨x1, x2, x3⟩ := Q.2.2.2 hf1 hb.1
    constructor
    · unfold vmpFlag
      rw [← hadft]
      show ((vmpApplyDftToDft (pOk c) rsz (adft.map lift) asz (vmpPrepare (pOk c) mat nrows ncols) nrows ncols).getD
        (j * (2 * 2 ^ k) + t + 2 ^ k) (pOk c).ar.zero).2
      rw [c1im]
      exact x1
    · rw [eres]
      show |val ((vmpApplyDftToDft (Cfg.parts c) rsz adft asz (vmpPrepare (Cfg.parts c) mat nrows ncols) nrows ncols).getD
        (j * (2 * 2 ^ k) + t + 2 ^ k) (Cfg.parts c).ar.zero)| ≤ _
      rw [c0im, ← p0im]
      exact le_trans x3 hb.2.2

end Spq.VmpErr
