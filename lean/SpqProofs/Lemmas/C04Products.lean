/-
  C04 (products part) / C10: the q120 vector-matrix product kernels never wrap and are exact modulo
  each prime, for the reference (64×64→64 multiply) and the AVX2 (`_mm256_mul_epu32`) variants.

  Everything is proved for SYMBOLIC parameters (split point `h`, reduced powers, prime `q`, maximal
  length `N`) under decidable predicates `…OK : Bool` that state the numeric inequalities and
  congruences the proof needs; `C04ProductsGen.lean` discharges the predicates on the constants
  extracted from the code (`decide +kernel`).

  Per lane, with `l` the list of terms `(x_i, y_i)` of that lane (`l.length ≤ N`):
   * every accumulator holds the exact sum (no 64-bit wrap in the loop),
   * every `mul_epu32` operand of the AVX2 variant is `< 2^32` (no silent truncation),
   * the final recombination does not wrap,
   * result ≡ Σ x_i·y_i (mod q),   and   ref = avx2 (bit for bit, hence also mod q).
-/
import SpqProofs.Lemmas.Q120Basic
namespace Spq.Q120

/-! ## a·a -/

/-- bound of the high part of a product of two 32-bit values split at `2^h` -/
def baaC2 (h : Nat) : Nat := (4294967295 * 4294967295) / 2 ^ h

/-- numeric facts the reference kernel needs for lane constants `(h, hpow)`, prime `q`, length ≤ `N` -/
def baaLaneOK (N h hpow q : Nat) : Bool :=
  decide (h < 64) && decide (hpow % q = 2 ^ h % q)
  && decide (N * baaC2 h < 18446744073709551616)
  && decide (N * (2 ^ h - 1) + N * baaC2 h * hpow < 18446744073709551616)

/-- additional facts for the AVX2 kernel: both operands of the final `mul_epu32` fit 32 bits -/
def baaLaneAvxOK (N h hpow q : Nat) : Bool :=
  baaLaneOK N h hpow q && decide (N * baaC2 h < 4294967296) && decide (hpow < 4294967296)

def baaOK (N : Nat) (pc : BaaPrecomp) (q : Nat → Nat) : Bool :=
  (List.range 4).all fun j => baaLaneOK N pc.h (pc.hpow j) (q j)
def baaAvxOK (N : Nat) (pc : BaaPrecomp) (q : Nat → Nat) : Bool :=
  (List.range 4).all fun j => baaLaneAvxOK N pc.h (pc.hpow j) (q j)

/-- low / high part of a term's product -/
def baaF1 (h : Nat) (t : Nat × Nat) : Nat := (t.1 * t.2) % 2 ^ h
def baaF2 (h : Nat) (t : Nat × Nat) : Nat := (t.1 * t.2) / 2 ^ h

/-- operands of layout a -/
def InA (l : List (Nat × Nat)) : Prop := ∀ t ∈ l, t.1 < 4294967296 ∧ t.2 < 4294967296

theorem baaF_bounds (h : Nat) (t : Nat × Nat) (ht : t.1 < 4294967296 ∧ t.2 < 4294967296) :
    baaF1 h t ≤ 2 ^ h - 1 ∧ baaF2 h t ≤ baaC2 h := by
  have hp : 0 < 2 ^ h := Nat.two_pow_pos h
  constructor
  · have := Nat.mod_lt (t.1 * t.2) hp
    unfold baaF1; omega
  · exact Nat.div_le_div_right (mul_lt_P64 _ _ ht.1 ht.2)

theorem baa_split (h : Nat) (l : List (Nat × Nat)) :
    dot l = wsum (baaF1 h) l + 2 ^ h * wsum (baaF2 h) l := by
  rw [← wsum_mul, ← wsum_add]
  apply wsum_congr
  intro t _
  exact (Nat.mod_add_div _ _).symm

/-- accumulators of the reference loop -/
theorem baaRef_acc (N h : Nat) (l : List (Nat × Nat)) (hl : l.length ≤ N) (hr : InA l)
    (h1 : N * (2 ^ h - 1) < 18446744073709551616) (h2 : N * baaC2 h < 18446744073709551616) :
    l.foldl (baaRefStep (2 ^ h)) (0, 0) = (wsum (baaF1 h) l, wsum (baaF2 h) l)
    ∧ wsum (baaF1 h) l ≤ N * (2 ^ h - 1) ∧ wsum (baaF2 h) l ≤ N * baaC2 h := by
  have e : ∀ t ∈ l, mul64 t.1 t.2 = t.1 * t.2 := fun t ht => by
    have := mul_lt_P64 _ _ (hr t ht).1 (hr t ht).2
    exact mul64_eq _ _ (by omega)
  have a1 := acc_exact (baaRefStep (2 ^ h)) Prod.fst (fun t => mul64 t.1 t.2 % 2 ^ h) (2 ^ h - 1) N
    (fun s t => rfl) l (0, 0) rfl
    (fun t ht => by simp only [e t ht]; exact (baaF_bounds h t (hr t ht)).1) hl h1
  have a2 := acc_exact (baaRefStep (2 ^ h)) Prod.snd (fun t => mul64 t.1 t.2 / 2 ^ h) (baaC2 h) N
    (fun s t => rfl) l (0, 0) rfl
    (fun t ht => by simp only [e t ht]; exact (baaF_bounds h t (hr t ht)).2) hl h2
  have c1 : wsum (fun t => mul64 t.1 t.2 % 2 ^ h) l = wsum (baaF1 h) l :=
    wsum_congr _ _ l (fun t ht => by simp only [e t ht, baaF1])
  have c2 : wsum (fun t => mul64 t.1 t.2 / 2 ^ h) l = wsum (baaF2 h) l :=
    wsum_congr _ _ l (fun t ht => by simp only [e t ht, baaF2])
  rw [c1] at a1; rw [c2] at a2
  exact ⟨Prod.ext a1.1 a2.1, a1.2, a2.2⟩

/-- accumulators of the AVX2 loop: `mul_epu32` sees operands `< 2^32`, so it is the exact product -/
theorem baaAvx_acc (N h : Nat) (l : List (Nat × Nat)) (hl : l.length ≤ N) (hr : InA l)
    (h1 : N * (2 ^ h - 1) < 18446744073709551616) (h2 : N * baaC2 h < 18446744073709551616) :
    l.foldl (baaAvxStep (2 ^ h)) (0, 0) = (wsum (baaF1 h) l, wsum (baaF2 h) l) := by
  have e : ∀ t ∈ l, mulEpu32 t.1 t.2 = t.1 * t.2 := fun t ht => mulEpu32_eq _ _ (hr t ht).1 (hr t ht).2
  have a1 := acc_exact (baaAvxStep (2 ^ h)) Prod.fst (fun t => mulEpu32 t.1 t.2 % 2 ^ h) (2 ^ h - 1) N
    (fun s t => rfl) l (0, 0) rfl
    (fun t ht => by simp only [e t ht]; exact (baaF_bounds h t (hr t ht)).1) hl h1
  have a2 := acc_exact (baaAvxStep (2 ^ h)) Prod.snd (fun t => mulEpu32 t.1 t.2 / 2 ^ h) (baaC2 h) N
    (fun s t => rfl) l (0, 0) rfl
    (fun t ht => by simp only [e t ht]; exact (baaF_bounds h t (hr t ht)).2) hl h2
  have c1 : wsum (fun t => mulEpu32 t.1 t.2 % 2 ^ h) l = wsum (baaF1 h) l :=
    wsum_congr _ _ l (fun t ht => by simp only [e t ht, baaF1])
  have c2 : wsum (fun t => mulEpu32 t.1 t.2 / 2 ^ h) l = wsum (baaF2 h) l :=
    wsum_congr _ _ l (fun t ht => by simp only [e t ht, baaF2])
  rw [c1] at a1; rw [c2] at a2
  exact Prod.ext a1.1 a2.1

/-- **baa, reference, one lane**: no accumulator wraps, the recombination does not wrap, and the
  result is congruent to the exact dot product. -/
theorem baaRefLane_exact (N h hpow q : Nat) (ok : baaLaneOK N h hpow q = true)
    (l : List (Nat × Nat)) (hl : l.length ≤ N) (hr : InA l) :
    baaRefLane h hpow l = wsum (baaF1 h) l + wsum (baaF2 h) l * hpow
    ∧ wsum (baaF1 h) l + wsum (baaF2 h) l * hpow < 18446744073709551616
    ∧ baaRefLane h hpow l % q = dot l % q := by
  simp only [baaLaneOK, Bool.and_eq_true, decide_eq_true_eq] at ok
  obtain ⟨⟨⟨_, hq⟩, o2⟩, o3⟩ := ok
  have hp : 0 < 2 ^ h := Nat.two_pow_pos h
  obtain ⟨acc, b1, b2⟩ := baaRef_acc N h l hl hr (by omega) o2
  have m2 : wsum (baaF2 h) l * hpow ≤ N * baaC2 h * hpow := Nat.mul_le_mul_right _ b2
  have r : baaRefLane h hpow l = wsum (baaF1 h) l + wsum (baaF2 h) l * hpow := by
    unfold baaRefLane
    simp only [acc]
    rw [mul64_eq _ _ (by omega), add64_eq _ _ (by omega)]
  refine ⟨r, by omega, ?_⟩
  rw [r, baa_split h l, add_mul_mod_congr q _ _ _ _ hq, Nat.mul_comm]

/-- **baa, AVX2, one lane**: in addition the operands of every `mul_epu32` are `< 2^32` (so the
  instruction computes the exact products); the result is the same 64-bit word as the reference. -/
theorem baaAvxLane_exact (N h hpow q : Nat) (ok : baaLaneAvxOK N h hpow q = true)
    (l : List (Nat × Nat)) (hl : l.length ≤ N) (hr : InA l) :
    baaAvxLane h hpow l = wsum (baaF1 h) l + wsum (baaF2 h) l * hpow
    ∧ wsum (baaF2 h) l < 4294967296 ∧ hpow < 4294967296
    ∧ baaAvxLane h hpow l = baaRefLane h hpow l
    ∧ baaAvxLane h hpow l % q = dot l % q := by
  simp only [baaLaneAvxOK, Bool.and_eq_true, decide_eq_true_eq] at ok
  obtain ⟨⟨ok, a1⟩, a2⟩ := ok
  obtain ⟨r1, r2, r3⟩ := baaRefLane_exact N h hpow q ok l hl hr
  simp only [baaLaneOK, Bool.and_eq_true, decide_eq_true_eq] at ok
  obtain ⟨⟨⟨_, hq⟩, o2⟩, o3⟩ := ok
  obtain ⟨_, b1, b2⟩ := baaRef_acc N h l hl hr (by omega) o2
  have acc := baaAvx_acc N h l hl hr (by omega) o2
  have r : baaAvxLane h hpow l = wsum (baaF1 h) l + wsum (baaF2 h) l * hpow := by
    unfold baaAvxLane
    simp only [acc]
    rw [mulEpu32_eq _ _ (by omega) a2, add64_eq _ _ r2]
  exact ⟨r, by omega, a2, by rw [r, r1], by rw [r, ← r1]; exact r3⟩


/-! ## b·c  (also the two q120x2 block forms, which run the same lane kernels) -/

/-- `xl·y0` and `xh·y1` -/
def bbcA (t : Nat × Nat) : Nat := (t.1 % 4294967296) * (t.2 % 4294967296)
def bbcB (t : Nat × Nat) : Nat := (t.1 / 4294967296) * (t.2 / 4294967296)
def bbcF1 (t : Nat × Nat) : Nat := bbcA t % 4294967296 + bbcB t % 4294967296
def bbcF2 (t : Nat × Nat) : Nat := bbcA t / 4294967296 + bbcB t / 4294967296
/-- the value a b·c product computes: `Σ xl·y0 + xh·y1` (≡ `Σ x·y0` for a valid layout-c operand) -/
def bbcVal (l : List (Nat × Nat)) : Nat := wsum (fun t => bbcA t + bbcB t) l

/-- operands are 64-bit lanes (any value) -/
def InB (l : List (Nat × Nat)) : Prop := ∀ t ∈ l, t.1 < 18446744073709551616 ∧ t.2 < 18446744073709551616

def bbcLaneOK (N h p2l p2h q : Nat) : Bool :=
  decide (h < 64) && decide (p2l % q = 4294967296 % q) && decide (p2h % q = (4294967296 * 2 ^ h) % q)
  && decide (N * 8589934590 < 18446744073709551616)
  && decide (N * 8589934590 + (2 ^ h - 1) * p2l + (N * 8589934590 / 2 ^ h) * p2h < 18446744073709551616)

def bbcLaneAvxOK (N h p2l p2h q : Nat) : Bool :=
  bbcLaneOK N h p2l p2h q && decide (2 ^ h ≤ 4294967296) && decide (p2l < 4294967296)
  && decide (p2h < 4294967296) && decide (N * 8589934590 / 2 ^ h < 4294967296)

def bbcOK (N : Nat) (pc : BbcPrecomp) (q : Nat → Nat) : Bool :=
  (List.range 4).all fun j => bbcLaneOK N pc.h (pc.s2l j) (pc.s2h j) (q j)
def bbcAvxOK (N : Nat) (pc : BbcPrecomp) (q : Nat → Nat) : Bool :=
  (List.range 4).all fun j => bbcLaneAvxOK N pc.h (pc.s2l j) (pc.s2h j) (q j)

theorem bbcAB_bounds (t : Nat × Nat) (ht : t.1 < 18446744073709551616 ∧ t.2 < 18446744073709551616) :
    bbcA t ≤ 4294967295 * 4294967295 ∧ bbcB t ≤ 4294967295 * 4294967295 := by
  constructor
  · exact mul_lt_P64 _ _ (Nat.mod_lt _ (by omega)) (Nat.mod_lt _ (by omega))
  · exact mul_lt_P64 _ _ (div_pow_lt _ ht.1) (div_pow_lt _ ht.2)

theorem bbcF_bounds (t : Nat × Nat) (ht : t.1 < 18446744073709551616 ∧ t.2 < 18446744073709551616) :
    bbcF1 t ≤ 8589934590 ∧ bbcF2 t ≤ 8589934590 := by
  obtain ⟨a, b⟩ := bbcAB_bounds t ht
  unfold bbcF1 bbcF2
  omega

theorem bbc_split (l : List (Nat × Nat)) :
    bbcVal l = wsum bbcF1 l + 4294967296 * wsum bbcF2 l := by
  unfold bbcVal
  rw [← wsum_mul, ← wsum_add]
  apply wsum_congr
  intro t _
  have a := Nat.mod_add_div (bbcA t) 4294967296
  have b := Nat.mod_add_div (bbcB t) 4294967296
  simp only [bbcF1, bbcF2]
  omega

theorem bbcRef_acc (N : Nat) (l : List (Nat × Nat)) (hl : l.length ≤ N) (hr : InB l)
    (h1 : N * 8589934590 < 18446744073709551616) :
    l.foldl bbcRefStep (0, 0) = (wsum bbcF1 l, wsum bbcF2 l)
    ∧ wsum bbcF1 l ≤ N * 8589934590 ∧ wsum bbcF2 l ≤ N * 8589934590 := by
  -- what the code computes per term, and why it is the exact value
  let g1 : Nat × Nat → Nat := fun t =>
    add64 (mul64 (t.1 % 4294967296) (t.2 % 4294967296) % 4294967296)
          (mul64 (t.1 / 4294967296) (t.2 / 4294967296) % 4294967296)
  let g2 : Nat × Nat → Nat := fun t =>
    add64 (mul64 (t.1 % 4294967296) (t.2 % 4294967296) / 4294967296)
          (mul64 (t.1 / 4294967296) (t.2 / 4294967296) / 4294967296)
  have e : ∀ t ∈ l, g1 t = bbcF1 t ∧ g2 t = bbcF2 t := fun t ht => by
    obtain ⟨a, b⟩ := bbcAB_bounds t (hr t ht)
    have ea : mul64 (t.1 % 4294967296) (t.2 % 4294967296) = bbcA t := mul64_eq _ _ (by unfold bbcA at a; omega)
    have eb : mul64 (t.1 / 4294967296) (t.2 / 4294967296) = bbcB t := mul64_eq _ _ (by unfold bbcB at b; omega)
    simp only [g1, g2, ea, eb, bbcF1, bbcF2, add64]
    omega
  have a1 := acc_exact bbcRefStep Prod.fst g1 8589934590 N (fun s t => rfl) l (0, 0) rfl
    (fun t ht => by rw [(e t ht).1]; exact (bbcF_bounds t (hr t ht)).1) hl h1
  have a2 := acc_exact bbcRefStep Prod.snd g2 8589934590 N (fun s t => rfl) l (0, 0) rfl
    (fun t ht => by rw [(e t ht).2]; exact (bbcF_bounds t (hr t ht)).2) hl h1
  rw [wsum_congr g1 bbcF1 l (fun t ht => (e t ht).1)] at a1
  rw [wsum_congr g2 bbcF2 l (fun t ht => (e t ht).2)] at a2
  exact ⟨Prod.ext a1.1 a2.1, a1.2, a2.2⟩

/-- the q120x2 AVX2 kernels do not mask the low halves before `mul_epu32`: same function -/
theorem bbcAvxX2Step_eq : bbcAvxX2Step = bbcAvxStep := by
  funext s t
  simp only [bbcAvxX2Step, bbcAvxStep, mulEpu32, Nat.mod_mod]

theorem bbcAvx_acc (N : Nat) (l : List (Nat × Nat)) (hl : l.length ≤ N) (hr : InB l)
    (h1 : N * 8589934590 < 18446744073709551616) :
    l.foldl bbcAvxStep (0, 0) = (wsum bbcF1 l, wsum bbcF2 l) := by
  let g1 : Nat × Nat → Nat := fun t =>
    mulEpu32 (t.1 % 4294967296) (t.2 % 4294967296) % 4294967296
      + mulEpu32 (t.1 / 4294967296) (t.2 / 4294967296) % 4294967296
  let g2 : Nat × Nat → Nat := fun t =>
    mulEpu32 (t.1 % 4294967296) (t.2 % 4294967296) / 4294967296
      + mulEpu32 (t.1 / 4294967296) (t.2 / 4294967296) / 4294967296
  have e : ∀ t ∈ l, g1 t = bbcF1 t ∧ g2 t = bbcF2 t := fun t ht => by
    have ea : mulEpu32 (t.1 % 4294967296) (t.2 % 4294967296) = bbcA t :=
      mulEpu32_eq _ _ (Nat.mod_lt _ (by omega)) (Nat.mod_lt _ (by omega))
    have eb : mulEpu32 (t.1 / 4294967296) (t.2 / 4294967296) = bbcB t :=
      mulEpu32_eq _ _ (div_pow_lt _ (hr t ht).1) (div_pow_lt _ (hr t ht).2)
    simp only [g1, g2, ea, eb, bbcF1, bbcF2, and_self]
  have a1 := acc_exact bbcAvxStep Prod.fst g1 8589934590 N
    (fun s t => by simp only [bbcAvxStep, add64, g1]; omega) l (0, 0) rfl
    (fun t ht => by rw [(e t ht).1]; exact (bbcF_bounds t (hr t ht)).1) hl h1
  have a2 := acc_exact bbcAvxStep Prod.snd g2 8589934590 N
    (fun s t => by simp only [bbcAvxStep, add64, g2]; omega) l (0, 0) rfl
    (fun t ht => by rw [(e t ht).2]; exact (bbcF_bounds t (hr t ht)).2) hl h1
  rw [wsum_congr g1 bbcF1 l (fun t ht => (e t ht).1)] at a1
  rw [wsum_congr g2 bbcF2 l (fun t ht => (e t ht).2)] at a2
  exact Prod.ext a1.1 a2.1

/-- exact (unwrapped) recombination of the b·c kernels -/
def bbcRes (h p2l p2h S1 S2 : Nat) : Nat := S1 + (S2 % 2 ^ h) * p2l + (S2 / 2 ^ h) * p2h

theorem bbcRes_bound (N h p2l p2h S1 S2 : Nat) (_b1 : S1 ≤ N * 8589934590) (b2 : S2 ≤ N * 8589934590) :
    (S2 % 2 ^ h) * p2l ≤ (2 ^ h - 1) * p2l ∧ (S2 / 2 ^ h) * p2h ≤ (N * 8589934590 / 2 ^ h) * p2h := by
  have hp : 0 < 2 ^ h := Nat.two_pow_pos h
  have := Nat.mod_lt S2 hp
  exact ⟨Nat.mul_le_mul_right _ (by omega), Nat.mul_le_mul_right _ (Nat.div_le_div_right b2)⟩

theorem bbcRes_congr (h p2l p2h q S1 S2 : Nat) (hq1 : p2l % q = 4294967296 % q)
    (hq2 : p2h % q = (4294967296 * 2 ^ h) % q) :
    bbcRes h p2l p2h S1 S2 % q = (S1 + 4294967296 * S2) % q := by
  unfold bbcRes
  rw [add_mul_mod_congr q _ _ _ _ hq2, Nat.add_right_comm, add_mul_mod_congr q _ _ _ _ hq1]
  congr 1
  have hs := Nat.mod_add_div S2 (2 ^ h)
  conv_rhs => rw [← hs]
  ring

/-- **b·c, reference, one lane** (lane constants `j` of the precomputation) -/
theorem bbcRefLane_exact (N : Nat) (pc : BbcPrecomp) (j q : Nat)
    (ok : bbcLaneOK N pc.h (pc.s2l j) (pc.s2h j) q = true)
    (l : List (Nat × Nat)) (hl : l.length ≤ N) (hr : InB l) :
    bbcRefLane pc j l = bbcRes pc.h (pc.s2l j) (pc.s2h j) (wsum bbcF1 l) (wsum bbcF2 l)
    ∧ bbcRes pc.h (pc.s2l j) (pc.s2h j) (wsum bbcF1 l) (wsum bbcF2 l) < 18446744073709551616
    ∧ bbcRefLane pc j l % q = bbcVal l % q := by
  simp only [bbcLaneOK, Bool.and_eq_true, decide_eq_true_eq] at ok
  obtain ⟨⟨⟨⟨_, hq1⟩, hq2⟩, o1⟩, o2⟩ := ok
  obtain ⟨acc, b1, b2⟩ := bbcRef_acc N l hl hr o1
  obtain ⟨c1, c2⟩ := bbcRes_bound N pc.h (pc.s2l j) (pc.s2h j) _ _ b1 b2
  have r : bbcRefLane pc j l = bbcRes pc.h (pc.s2l j) (pc.s2h j) (wsum bbcF1 l) (wsum bbcF2 l) := by
    unfold bbcRefLane bbcRefFinal bbcRes
    simp only [acc]
    rw [mul64_eq _ _ (by omega), mul64_eq _ _ (by omega), add64_eq (wsum bbcF1 l) _ (by omega), add64_eq _ _ (by omega)]
  refine ⟨r, by unfold bbcRes; omega, ?_⟩
  rw [r, bbcRes_congr _ _ _ _ _ _ hq1 hq2, bbc_split]

/-- **b·c, AVX2, one lane**: all four `mul_epu32` of the loop body and the two of the recombination
  see operands `< 2^32`; same 64-bit result as the reference -/
theorem bbcAvxLane_exact (N : Nat) (pc : BbcPrecomp) (j q : Nat)
    (ok : bbcLaneAvxOK N pc.h (pc.s2l j) (pc.s2h j) q = true)
    (l : List (Nat × Nat)) (hl : l.length ≤ N) (hr : InB l) :
    bbcAvxLane pc j l = bbcRes pc.h (pc.s2l j) (pc.s2h j) (wsum bbcF1 l) (wsum bbcF2 l)
    ∧ wsum bbcF2 l % 2 ^ pc.h < 4294967296 ∧ wsum bbcF2 l / 2 ^ pc.h < 4294967296
    ∧ pc.s2l j < 4294967296 ∧ pc.s2h j < 4294967296
    ∧ bbcAvxLane pc j l = bbcRefLane pc j l
    ∧ bbcAvxLane pc j l % q = bbcVal l % q := by
  simp only [bbcLaneAvxOK, Bool.and_eq_true, decide_eq_true_eq] at ok
  obtain ⟨⟨⟨⟨ok, a0⟩, a1⟩, a2⟩, a3⟩ := ok
  obtain ⟨r1, r2, r3⟩ := bbcRefLane_exact N pc j q ok l hl hr
  simp only [bbcLaneOK, Bool.and_eq_true, decide_eq_true_eq] at ok
  obtain ⟨⟨⟨⟨_, hq1⟩, hq2⟩, o1⟩, o2⟩ := ok
  obtain ⟨_, _, b2⟩ := bbcRef_acc N l hl hr o1
  have acc := bbcAvx_acc N l hl hr o1
  have hp : 0 < 2 ^ pc.h := Nat.two_pow_pos _
  have m1 : wsum bbcF2 l % 2 ^ pc.h < 4294967296 := by have := Nat.mod_lt (wsum bbcF2 l) hp; omega
  have m2 : wsum bbcF2 l / 2 ^ pc.h < 4294967296 :=
    Nat.lt_of_le_of_lt (Nat.div_le_div_right b2) a3
  have r : bbcAvxLane pc j l = bbcRes pc.h (pc.s2l j) (pc.s2h j) (wsum bbcF1 l) (wsum bbcF2 l) := by
    unfold bbcAvxLane bbcAvxFinal
    simp only [acc]
    unfold bbcRes at r2 ⊢
    rw [mulEpu32_eq _ _ m1 a1, mulEpu32_eq _ _ m2 a2, add64_eq (wsum bbcF1 l) _ (by omega), add64_eq _ _ (by omega)]
  exact ⟨r, m1, m2, a1, a2, by rw [r, r1], by rw [r, ← r1]; exact r3⟩

/-- the x2 AVX2 lane kernel is the same function as the 1-column AVX2 lane kernel -/
theorem bbcAvxX2Lane_eq (pc : BbcPrecomp) (j : Nat) (l : List (Nat × Nat)) :
    bbcAvxX2Lane pc j l = bbcAvxLane pc j l := by
  unfold bbcAvxX2Lane bbcAvxLane
  rw [bbcAvxX2Step_eq]

theorem wsum_mod_congr {α : Type} (q : Nat) (f g : α → Nat) (l : List α)
    (h : ∀ t ∈ l, f t % q = g t % q) : wsum f l % q = wsum g l % q := by
  induction l with
  | nil => rfl
  | cons t l ih =>
    simp only [wsum_cons]
    rw [Nat.add_mod, h t (by simp), ih (fun u hu => h u (by simp [hu])), ← Nat.add_mod]

/-- for a VALID layout-c operand (`y1 ≡ y0·2^32 mod q`; `y0`, `y1` any 32-bit representatives) the
  value of a b·c product is `Σ x_i · y0_i` -/
theorem bbcVal_valid (q : Nat) (l : List (Nat × Nat))
    (hc : ∀ t ∈ l, (t.2 / 4294967296) % q = ((t.2 % 4294967296) * 4294967296) % q) :
    bbcVal l % q = wsum (fun t => t.1 * (t.2 % 4294967296)) l % q := by
  unfold bbcVal
  apply wsum_mod_congr
  intro t ht
  unfold bbcA bbcB
  rw [add_mul_mod_congr q _ _ _ _ (hc t ht)]
  congr 1
  have hx := Nat.mod_add_div t.1 4294967296
  conv_rhs => rw [← hx]
  ring


/-! ## b·b -/

def bbbA (t : Nat × Nat) : Nat := (t.1 % 4294967296) * (t.2 % 4294967296)
def bbbB (t : Nat × Nat) : Nat := (t.1 % 4294967296) * (t.2 / 4294967296)
def bbbC (t : Nat × Nat) : Nat := (t.1 / 4294967296) * (t.2 % 4294967296)
def bbbD (t : Nat × Nat) : Nat := (t.1 / 4294967296) * (t.2 / 4294967296)
def bbbF1 (t : Nat × Nat) : Nat := bbbA t % 4294967296
def bbbF2 (t : Nat × Nat) : Nat := bbbA t / 4294967296 + bbbB t % 4294967296 + bbbC t % 4294967296
def bbbF3 (t : Nat × Nat) : Nat := bbbB t / 4294967296 + bbbC t / 4294967296 + bbbD t % 4294967296
def bbbF4 (t : Nat × Nat) : Nat := bbbD t / 4294967296

/-- `N·(2^32−1)/2^h` and `N·3·(2^32−1)/2^h`: bounds of the high parts of the four sums -/
def bbbK1 (N h : Nat) : Nat := N * 4294967295 / 2 ^ h
def bbbK3 (N h : Nat) : Nat := N * 12884901885 / 2 ^ h

/-- numeric facts for one lane of the b·b kernels (reference) -/
def bbbLaneOK (N h p1h p2l p2h p3l p3h p4l p4h q : Nat) : Bool :=
  decide (h < 64)
  && decide (p1h % q = 2 ^ h % q)
  && decide (p2l % q = 4294967296 % q) && decide (p2h % q = (4294967296 * 2 ^ h) % q)
  && decide (p3l % q = 18446744073709551616 % q) && decide (p3h % q = (18446744073709551616 * 2 ^ h) % q)
  && decide (p4l % q = 79228162514264337593543950336 % q)
  && decide (p4h % q = (79228162514264337593543950336 * 2 ^ h) % q)
  && decide (N * 12884901885 < 18446744073709551616)
  && decide ((2 ^ h - 1) + bbbK1 N h * p1h + (2 ^ h - 1) * p2l + bbbK3 N h * p2h + (2 ^ h - 1) * p3l
             + bbbK3 N h * p3h + (2 ^ h - 1) * p4l + bbbK1 N h * p4h < 18446744073709551616)

def bbbLaneAvxOK (N h p1h p2l p2h p3l p3h p4l p4h q : Nat) : Bool :=
  bbbLaneOK N h p1h p2l p2h p3l p3h p4l p4h q
  && decide (2 ^ h ≤ 4294967296) && decide (bbbK3 N h < 4294967296)
  && decide (p1h < 4294967296) && decide (p2l < 4294967296) && decide (p2h < 4294967296)
  && decide (p3l < 4294967296) && decide (p3h < 4294967296) && decide (p4l < 4294967296)
  && decide (p4h < 4294967296)

def bbbOK (N : Nat) (pc : BbbPrecomp) (q : Nat → Nat) : Bool :=
  (List.range 4).all fun j =>
    bbbLaneOK N pc.h (pc.s1h j) (pc.s2l j) (pc.s2h j) (pc.s3l j) (pc.s3h j) (pc.s4l j) (pc.s4h j) (q j)
def bbbAvxOK (N : Nat) (pc : BbbPrecomp) (q : Nat → Nat) : Bool :=
  (List.range 4).all fun j =>
    bbbLaneAvxOK N pc.h (pc.s1h j) (pc.s2l j) (pc.s2h j) (pc.s3l j) (pc.s3h j) (pc.s4l j) (pc.s4h j) (q j)

theorem bbbABCD_bounds (t : Nat × Nat) (ht : t.1 < 18446744073709551616 ∧ t.2 < 18446744073709551616) :
    bbbA t ≤ 4294967295 * 4294967295 ∧ bbbB t ≤ 4294967295 * 4294967295
    ∧ bbbC t ≤ 4294967295 * 4294967295 ∧ bbbD t ≤ 4294967295 * 4294967295 := by
  have l1 := Nat.mod_lt t.1 (show 0 < 4294967296 by omega)
  have l2 := Nat.mod_lt t.2 (show 0 < 4294967296 by omega)
  have h1 := div_pow_lt _ ht.1
  have h2 := div_pow_lt _ ht.2
  exact ⟨mul_lt_P64 _ _ l1 l2, mul_lt_P64 _ _ l1 h2, mul_lt_P64 _ _ h1 l2, mul_lt_P64 _ _ h1 h2⟩

theorem bbbF_bounds (t : Nat × Nat) (ht : t.1 < 18446744073709551616 ∧ t.2 < 18446744073709551616) :
    bbbF1 t ≤ 4294967295 ∧ bbbF2 t ≤ 12884901885 ∧ bbbF3 t ≤ 12884901885 ∧ bbbF4 t ≤ 4294967295 := by
  obtain ⟨a, b, c, d⟩ := bbbABCD_bounds t ht
  unfold bbbF1 bbbF2 bbbF3 bbbF4
  omega

/-- `x·y = F1 + 2^32·F2 + 2^64·F3 + 2^96·F4` -/
theorem bbb_term (t : Nat × Nat) :
    t.1 * t.2 = bbbF1 t + 4294967296 * bbbF2 t + 18446744073709551616 * bbbF3 t
                + 79228162514264337593543950336 * bbbF4 t := by
  have hx := Nat.mod_add_div t.1 4294967296
  have hy := Nat.mod_add_div t.2 4294967296
  have hA := Nat.mod_add_div (bbbA t) 4294967296
  have hB := Nat.mod_add_div (bbbB t) 4294967296
  have hC := Nat.mod_add_div (bbbC t) 4294967296
  have hD := Nat.mod_add_div (bbbD t) 4294967296
  calc t.1 * t.2
      = (t.1 % 4294967296 + 4294967296 * (t.1 / 4294967296))
        * (t.2 % 4294967296 + 4294967296 * (t.2 / 4294967296)) := by rw [hx, hy]
    _ = bbbA t + 4294967296 * bbbB t + 4294967296 * bbbC t + 18446744073709551616 * bbbD t := by
        unfold bbbA bbbB bbbC bbbD; ring
    _ = (bbbA t % 4294967296 + 4294967296 * (bbbA t / 4294967296))
        + 4294967296 * (bbbB t % 4294967296 + 4294967296 * (bbbB t / 4294967296))
        + 4294967296 * (bbbC t % 4294967296 + 4294967296 * (bbbC t / 4294967296))
        + 18446744073709551616 * (bbbD t % 4294967296 + 4294967296 * (bbbD t / 4294967296)) := by
        rw [hA, hB, hC, hD]
    _ = _ := by unfold bbbF1 bbbF2 bbbF3 bbbF4; ring

theorem bbb_split (l : List (Nat × Nat)) :
    dot l = wsum bbbF1 l + 4294967296 * wsum bbbF2 l + 18446744073709551616 * wsum bbbF3 l
            + 79228162514264337593543950336 * wsum bbbF4 l := by
  unfold dot
  rw [← wsum_mul, ← wsum_mul, ← wsum_mul, ← wsum_add, ← wsum_add, ← wsum_add]
  exact wsum_congr _ _ l (fun t _ => bbb_term t)

/-- what the S4 state holds after the loop -/
def bbbSums (l : List (Nat × Nat)) : S4 := ⟨wsum bbbF1 l, wsum bbbF2 l, wsum bbbF3 l, wsum bbbF4 l⟩

theorem S4.ext' (a b : S4) (h1 : a.s1 = b.s1) (h2 : a.s2 = b.s2) (h3 : a.s3 = b.s3) (h4 : a.s4 = b.s4) :
    a = b := by
  cases a; cases b; simp_all

theorem bbb_sums_bounds (N : Nat) (l : List (Nat × Nat)) (hl : l.length ≤ N) (hr : InB l) :
    wsum bbbF1 l ≤ N * 4294967295 ∧ wsum bbbF2 l ≤ N * 12884901885
    ∧ wsum bbbF3 l ≤ N * 12884901885 ∧ wsum bbbF4 l ≤ N * 4294967295 := by
  have k : ∀ (f : Nat × Nat → Nat) (B : Nat), (∀ t ∈ l, f t ≤ B) → wsum f l ≤ N * B := fun f B hB =>
    Nat.le_trans (wsum_le f B l hB) (Nat.mul_le_mul_right _ hl)
  exact ⟨k _ _ (fun t ht => (bbbF_bounds t (hr t ht)).1), k _ _ (fun t ht => (bbbF_bounds t (hr t ht)).2.1),
         k _ _ (fun t ht => (bbbF_bounds t (hr t ht)).2.2.1), k _ _ (fun t ht => (bbbF_bounds t (hr t ht)).2.2.2)⟩

/-- the loop body with the exact per-term values (what both variants compute on in-range operands) -/
def bbbExactStep (s : S4) (t : Nat × Nat) : S4 :=
  ⟨(s.s1 + bbbF1 t) % 18446744073709551616, (s.s2 + bbbF2 t) % 18446744073709551616,
   (s.s3 + bbbF3 t) % 18446744073709551616, (s.s4 + bbbF4 t) % 18446744073709551616⟩

theorem bbbRefStep_eq (s : S4) (t : Nat × Nat)
    (ht : t.1 < 18446744073709551616 ∧ t.2 < 18446744073709551616) :
    bbbRefStep s t = bbbExactStep s t := by
  obtain ⟨a, b, c, d⟩ := bbbABCD_bounds t ht
  have ea : mul64 (t.1 % 4294967296) (t.2 % 4294967296) = bbbA t := mul64_eq _ _ (by unfold bbbA at a; omega)
  have eb : mul64 (t.1 % 4294967296) (t.2 / 4294967296) = bbbB t := mul64_eq _ _ (by unfold bbbB at b; omega)
  have ec : mul64 (t.1 / 4294967296) (t.2 % 4294967296) = bbbC t := mul64_eq _ _ (by unfold bbbC at c; omega)
  have ed : mul64 (t.1 / 4294967296) (t.2 / 4294967296) = bbbD t := mul64_eq _ _ (by unfold bbbD at d; omega)
  simp only [bbbRefStep, ea, eb, ec, ed, bbbExactStep, bbbF1, bbbF2, bbbF3, bbbF4, add64, S4.mk.injEq, true_and, and_true]
  constructor <;> omega

theorem bbbAvxStep_eq (s : S4) (t : Nat × Nat)
    (ht : t.1 < 18446744073709551616 ∧ t.2 < 18446744073709551616) :
    bbbAvxStep s t = bbbExactStep s t := by
  have l1 := Nat.mod_lt t.1 (show 0 < 4294967296 by omega)
  have l2 := Nat.mod_lt t.2 (show 0 < 4294967296 by omega)
  have h1 := div_pow_lt _ ht.1
  have h2 := div_pow_lt _ ht.2
  have ea : mulEpu32 (t.1 % 4294967296) (t.2 % 4294967296) = bbbA t := mulEpu32_eq _ _ l1 l2
  have eb : mulEpu32 (t.1 % 4294967296) (t.2 / 4294967296) = bbbB t := mulEpu32_eq _ _ l1 h2
  have ec : mulEpu32 (t.1 / 4294967296) (t.2 % 4294967296) = bbbC t := mulEpu32_eq _ _ h1 l2
  have ed : mulEpu32 (t.1 / 4294967296) (t.2 / 4294967296) = bbbD t := mulEpu32_eq _ _ h1 h2
  simp only [bbbAvxStep, ea, eb, ec, ed, bbbExactStep, bbbF1, bbbF2, bbbF3, bbbF4, add64, S4.mk.injEq, true_and, and_true]
  constructor <;> omega

theorem bbbExact_acc (N : Nat) (l : List (Nat × Nat)) (hl : l.length ≤ N) (hr : InB l)
    (h1 : N * 12884901885 < 18446744073709551616) :
    l.foldl bbbExactStep ⟨0, 0, 0, 0⟩ = bbbSums l := by
  have h0 : N * 4294967295 < 18446744073709551616 :=
    Nat.lt_of_le_of_lt (Nat.mul_le_mul_left N (by omega)) h1
  have a1 := acc_exact bbbExactStep S4.s1 bbbF1 4294967295 N (fun s t => rfl) l ⟨0, 0, 0, 0⟩ rfl
    (fun t ht => (bbbF_bounds t (hr t ht)).1) hl h0
  have a2 := acc_exact bbbExactStep S4.s2 bbbF2 12884901885 N (fun s t => rfl) l ⟨0, 0, 0, 0⟩ rfl
    (fun t ht => (bbbF_bounds t (hr t ht)).2.1) hl h1
  have a3 := acc_exact bbbExactStep S4.s3 bbbF3 12884901885 N (fun s t => rfl) l ⟨0, 0, 0, 0⟩ rfl
    (fun t ht => (bbbF_bounds t (hr t ht)).2.2.1) hl h1
  have a4 := acc_exact bbbExactStep S4.s4 bbbF4 4294967295 N (fun s t => rfl) l ⟨0, 0, 0, 0⟩ rfl
    (fun t ht => (bbbF_bounds t (hr t ht)).2.2.2) hl h0
  exact S4.ext' _ _ a1.1 a2.1 a3.1 a4.1

theorem bbbRef_acc (N : Nat) (l : List (Nat × Nat)) (hl : l.length ≤ N) (hr : InB l)
    (h1 : N * 12884901885 < 18446744073709551616) :
    l.foldl bbbRefStep ⟨0, 0, 0, 0⟩ = bbbSums l := by
  rw [foldl_congr_on bbbRefStep bbbExactStep l _ (fun t ht s => bbbRefStep_eq s t (hr t ht))]
  exact bbbExact_acc N l hl hr h1

theorem bbbAvx_acc (N : Nat) (l : List (Nat × Nat)) (hl : l.length ≤ N) (hr : InB l)
    (h1 : N * 12884901885 < 18446744073709551616) :
    l.foldl bbbAvxStep ⟨0, 0, 0, 0⟩ = bbbSums l := by
  rw [foldl_congr_on bbbAvxStep bbbExactStep l _ (fun t ht s => bbbAvxStep_eq s t (hr t ht))]
  exact bbbExact_acc N l hl hr h1

/-- exact (unwrapped) recombination of the b·b kernels -/
def bbbRes (pc : BbbPrecomp) (j : Nat) (s : S4) : Nat :=
  s.s1 % 2 ^ pc.h + (s.s1 / 2 ^ pc.h) * pc.s1h j
  + (s.s2 % 2 ^ pc.h) * pc.s2l j + (s.s2 / 2 ^ pc.h) * pc.s2h j
  + (s.s3 % 2 ^ pc.h) * pc.s3l j + (s.s3 / 2 ^ pc.h) * pc.s3h j
  + (s.s4 % 2 ^ pc.h) * pc.s4l j + (s.s4 / 2 ^ pc.h) * pc.s4h j

theorem bbbRes_congr (pc : BbbPrecomp) (j q : Nat) (s : S4)
    (h1 : pc.s1h j % q = 2 ^ pc.h % q)
    (h2 : pc.s2l j % q = 4294967296 % q) (h3 : pc.s2h j % q = (4294967296 * 2 ^ pc.h) % q)
    (h4 : pc.s3l j % q = 18446744073709551616 % q) (h5 : pc.s3h j % q = (18446744073709551616 * 2 ^ pc.h) % q)
    (h6 : pc.s4l j % q = 79228162514264337593543950336 % q)
    (h7 : pc.s4h j % q = (79228162514264337593543950336 * 2 ^ pc.h) % q) :
    bbbRes pc j s % q = (s.s1 + 4294967296 * s.s2 + 18446744073709551616 * s.s3
                         + 79228162514264337593543950336 * s.s4) % q := by
  unfold bbbRes
  rw [lin8_congr q _ _ _ _ _ _ _ _ _ _ _ _ _ _ _ _ _ _ _ _ _ _ h1 h2 h3 h4 h5 h6 h7]
  congr 1
  have e1 := Nat.mod_add_div s.s1 (2 ^ pc.h)
  have e2 := Nat.mod_add_div s.s2 (2 ^ pc.h)
  have e3 := Nat.mod_add_div s.s3 (2 ^ pc.h)
  have e4 := Nat.mod_add_div s.s4 (2 ^ pc.h)
  conv_rhs => rw [← e1, ← e2, ← e3, ← e4]
  ring

theorem bbbRes_bound (N : Nat) (pc : BbbPrecomp) (j : Nat) (s : S4)
    (b1 : s.s1 ≤ N * 4294967295) (b2 : s.s2 ≤ N * 12884901885)
    (b3 : s.s3 ≤ N * 12884901885) (b4 : s.s4 ≤ N * 4294967295) :
    bbbRes pc j s ≤ (2 ^ pc.h - 1) + bbbK1 N pc.h * pc.s1h j + (2 ^ pc.h - 1) * pc.s2l j
      + bbbK3 N pc.h * pc.s2h j + (2 ^ pc.h - 1) * pc.s3l j + bbbK3 N pc.h * pc.s3h j
      + (2 ^ pc.h - 1) * pc.s4l j + bbbK1 N pc.h * pc.s4h j := by
  have hp : 0 < 2 ^ pc.h := Nat.two_pow_pos _
  have m1 := Nat.mod_lt s.s1 hp
  have m2 := Nat.mod_lt s.s2 hp
  have m3 := Nat.mod_lt s.s3 hp
  have m4 := Nat.mod_lt s.s4 hp
  have d1 : s.s1 / 2 ^ pc.h ≤ bbbK1 N pc.h := Nat.div_le_div_right b1
  have d2 : s.s2 / 2 ^ pc.h ≤ bbbK3 N pc.h := Nat.div_le_div_right b2
  have d3 : s.s3 / 2 ^ pc.h ≤ bbbK3 N pc.h := Nat.div_le_div_right b3
  have d4 : s.s4 / 2 ^ pc.h ≤ bbbK1 N pc.h := Nat.div_le_div_right b4
  unfold bbbRes
  have t1 := Nat.mul_le_mul_right (pc.s1h j) d1
  have t2 := Nat.mul_le_mul_right (pc.s2l j) (show s.s2 % 2 ^ pc.h ≤ 2 ^ pc.h - 1 by omega)
  have t3 := Nat.mul_le_mul_right (pc.s2h j) d2
  have t4 := Nat.mul_le_mul_right (pc.s3l j) (show s.s3 % 2 ^ pc.h ≤ 2 ^ pc.h - 1 by omega)
  have t5 := Nat.mul_le_mul_right (pc.s3h j) d3
  have t6 := Nat.mul_le_mul_right (pc.s4l j) (show s.s4 % 2 ^ pc.h ≤ 2 ^ pc.h - 1 by omega)
  have t7 := Nat.mul_le_mul_right (pc.s4h j) d4
  omega

/-- the reference recombination is `bbbRes mod 2^64` -/
theorem bbbRefFinal_mod (pc : BbbPrecomp) (j : Nat) (s : S4) :
    bbbRefFinal pc j s = bbbRes pc j s % 18446744073709551616 := by
  simp only [bbbRefFinal, bbbRes, add64, mul64]
  omega

/-- the AVX2 recombination is the same once every `mul_epu32` operand fits 32 bits -/
theorem bbbAvxFinal_mod (pc : BbbPrecomp) (j : Nat) (s : S4)
    (hm : 2 ^ pc.h ≤ 4294967296)
    (k1 : s.s1 / 2 ^ pc.h < 4294967296) (k2 : s.s2 / 2 ^ pc.h < 4294967296)
    (k3 : s.s3 / 2 ^ pc.h < 4294967296) (k4 : s.s4 / 2 ^ pc.h < 4294967296)
    (p1 : pc.s1h j < 4294967296) (p2 : pc.s2l j < 4294967296) (p3 : pc.s2h j < 4294967296)
    (p4 : pc.s3l j < 4294967296) (p5 : pc.s3h j < 4294967296) (p6 : pc.s4l j < 4294967296)
    (p7 : pc.s4h j < 4294967296) :
    bbbAvxFinal pc j s = bbbRes pc j s % 18446744073709551616 := by
  have hp : 0 < 2 ^ pc.h := Nat.two_pow_pos _
  have m2 : s.s2 % 2 ^ pc.h < 4294967296 := by have := Nat.mod_lt s.s2 hp; omega
  have m3 : s.s3 % 2 ^ pc.h < 4294967296 := by have := Nat.mod_lt s.s3 hp; omega
  have m4 : s.s4 % 2 ^ pc.h < 4294967296 := by have := Nat.mod_lt s.s4 hp; omega
  simp only [bbbAvxFinal, mulEpu32_eq _ _ k1 p1, mulEpu32_eq _ _ m2 p2, mulEpu32_eq _ _ k2 p3,
    mulEpu32_eq _ _ m3 p4, mulEpu32_eq _ _ k3 p5, mulEpu32_eq _ _ m4 p6, mulEpu32_eq _ _ k4 p7, bbbRes, add64]
  omega

/-- **b·b, reference, one lane** -/
theorem bbbRefLane_exact (N : Nat) (pc : BbbPrecomp) (j q : Nat)
    (ok : bbbLaneOK N pc.h (pc.s1h j) (pc.s2l j) (pc.s2h j) (pc.s3l j) (pc.s3h j) (pc.s4l j) (pc.s4h j) q = true)
    (l : List (Nat × Nat)) (hl : l.length ≤ N) (hr : InB l) :
    bbbRefLane pc j l = bbbRes pc j (bbbSums l)
    ∧ bbbRes pc j (bbbSums l) < 18446744073709551616
    ∧ bbbRefLane pc j l % q = dot l % q := by
  simp only [bbbLaneOK, Bool.and_eq_true, decide_eq_true_eq] at ok
  obtain ⟨⟨⟨⟨⟨⟨⟨⟨⟨_, h1⟩, h2⟩, h3⟩, h4⟩, h5⟩, h6⟩, h7⟩, o1⟩, o2⟩ := ok
  obtain ⟨b1, b2, b3, b4⟩ := bbb_sums_bounds N l hl hr
  have bd := bbbRes_bound N pc j (bbbSums l) b1 b2 b3 b4
  have lt : bbbRes pc j (bbbSums l) < 18446744073709551616 := Nat.lt_of_le_of_lt bd o2
  have r : bbbRefLane pc j l = bbbRes pc j (bbbSums l) := by
    unfold bbbRefLane
    rw [bbbRef_acc N l hl hr o1, bbbRefFinal_mod, Nat.mod_eq_of_lt lt]
  refine ⟨r, lt, ?_⟩
  rw [r, bbbRes_congr pc j q _ h1 h2 h3 h4 h5 h6 h7, bbb_split]
  rfl

/-- **b·b, AVX2, one lane**: the 4 `mul_epu32` of the loop body see 32-bit halves, the 7 of the
  recombination see operands `< 2^32`; same 64-bit result as the reference -/
theorem bbbAvxLane_exact (N : Nat) (pc : BbbPrecomp) (j q : Nat)
    (ok : bbbLaneAvxOK N pc.h (pc.s1h j) (pc.s2l j) (pc.s2h j) (pc.s3l j) (pc.s3h j) (pc.s4l j) (pc.s4h j) q = true)
    (l : List (Nat × Nat)) (hl : l.length ≤ N) (hr : InB l) :
    bbbAvxLane pc j l = bbbRes pc j (bbbSums l)
    ∧ bbbAvxLane pc j l = bbbRefLane pc j l
    ∧ bbbAvxLane pc j l % q = dot l % q := by
  simp only [bbbLaneAvxOK, Bool.and_eq_true, decide_eq_true_eq] at ok
  obtain ⟨⟨⟨⟨⟨⟨⟨⟨⟨ok, hm⟩, k3⟩, p1⟩, p2⟩, p3⟩, p4⟩, p5⟩, p6⟩, p7⟩ := ok
  obtain ⟨r1, lt, r3⟩ := bbbRefLane_exact N pc j q ok l hl hr
  simp only [bbbLaneOK, Bool.and_eq_true, decide_eq_true_eq] at ok
  obtain ⟨⟨_, o1⟩, _⟩ := ok
  obtain ⟨b1, b2, b3, b4⟩ := bbb_sums_bounds N l hl hr
  have d1 : (bbbSums l).s1 / 2 ^ pc.h ≤ bbbK3 N pc.h :=
    Nat.div_le_div_right (Nat.le_trans b1 (Nat.mul_le_mul_left N (by omega)))
  have d2 : (bbbSums l).s2 / 2 ^ pc.h ≤ bbbK3 N pc.h := Nat.div_le_div_right b2
  have d3 : (bbbSums l).s3 / 2 ^ pc.h ≤ bbbK3 N pc.h := Nat.div_le_div_right b3
  have d4 : (bbbSums l).s4 / 2 ^ pc.h ≤ bbbK3 N pc.h :=
    Nat.div_le_div_right (Nat.le_trans b4 (Nat.mul_le_mul_left N (by omega)))
  have r : bbbAvxLane pc j l = bbbRes pc j (bbbSums l) := by
    unfold bbbAvxLane
    rw [bbbAvx_acc N l hl hr o1,
      bbbAvxFinal_mod pc j _ hm (by omega) (by omega) (by omega) (by omega) p1 p2 p3 p4 p5 p6 p7,
      Nat.mod_eq_of_lt lt]
  exact ⟨r, by rw [r, r1], by rw [r, ← r1]; exact r3⟩


/-- b·b, AVX2: every operand of the seven `mul_epu32` of the recombination fits 32 bits (the four of
  the loop body see the 32-bit halves `x % 2^32`, `x / 2^32` of 64-bit lanes) -/
theorem bbbAvx_operands (N : Nat) (pc : BbbPrecomp) (j q : Nat)
    (ok : bbbLaneAvxOK N pc.h (pc.s1h j) (pc.s2l j) (pc.s2h j) (pc.s3l j) (pc.s3h j) (pc.s4l j) (pc.s4h j) q = true)
    (l : List (Nat × Nat)) (hl : l.length ≤ N) (hr : InB l) :
    2 ^ pc.h ≤ 4294967296
    ∧ (bbbSums l).s1 / 2 ^ pc.h < 4294967296 ∧ (bbbSums l).s2 / 2 ^ pc.h < 4294967296
    ∧ (bbbSums l).s3 / 2 ^ pc.h < 4294967296 ∧ (bbbSums l).s4 / 2 ^ pc.h < 4294967296
    ∧ pc.s1h j < 4294967296 ∧ pc.s2l j < 4294967296 ∧ pc.s2h j < 4294967296 ∧ pc.s3l j < 4294967296
    ∧ pc.s3h j < 4294967296 ∧ pc.s4l j < 4294967296 ∧ pc.s4h j < 4294967296 := by
  simp only [bbbLaneAvxOK, Bool.and_eq_true, decide_eq_true_eq] at ok
  obtain ⟨⟨⟨⟨⟨⟨⟨⟨⟨_, hm⟩, k3⟩, p1⟩, p2⟩, p3⟩, p4⟩, p5⟩, p6⟩, p7⟩ := ok
  obtain ⟨b1, b2, b3, b4⟩ := bbb_sums_bounds N l hl hr
  have d1 : (bbbSums l).s1 / 2 ^ pc.h ≤ bbbK3 N pc.h :=
    Nat.div_le_div_right (Nat.le_trans b1 (Nat.mul_le_mul_left N (by omega)))
  have d2 : (bbbSums l).s2 / 2 ^ pc.h ≤ bbbK3 N pc.h := Nat.div_le_div_right b2
  have d3 : (bbbSums l).s3 / 2 ^ pc.h ≤ bbbK3 N pc.h := Nat.div_le_div_right b3
  have d4 : (bbbSums l).s4 / 2 ^ pc.h ≤ bbbK3 N pc.h :=
    Nat.div_le_div_right (Nat.le_trans b4 (Nat.mul_le_mul_left N (by omega)))
  exact ⟨hm, by omega, by omega, by omega, by omega, p1, p2, p3, p4, p5, p6, p7⟩

/-! ## vector level: the functions the driver runs (4 / 8 / 16 output lanes) -/

theorem getD_ofFn {n : Nat} (f : Fin n → Nat) (j : Nat) (h : j < n) :
    (Array.ofFn f).getD j 0 = f ⟨j, h⟩ := by
  simp [Array.getD, h]

theorem all_range4 (f : Nat → Bool) (h : (List.range 4).all f = true) (j : Nat) (hj : j < 4) : f j = true := by
  rw [List.all_eq_true] at h
  exact h j (List.mem_range.mpr hj)

/-- the exact dot product of a lane, written with explicit indices -/
theorem dot_laneTerms (ell : Nat) (x y : Array Nat) (sx ox sy oy : Nat) :
    dot (laneTerms ell x y sx ox sy oy)
    = ((List.range ell).map fun i => x.getD (sx * i + ox) 0 * y.getD (sy * i + oy) 0).sum := by
  simp [dot, wsum, laneTerms, List.map_map, Function.comp_def]

/-- layout a operand arrays: every lane `< 2^32` -/
def ArrA (x : Array Nat) : Prop := ∀ i, x.getD i 0 < 4294967296
/-- layout b (or c seen as 64-bit lanes) operand arrays: every lane `< 2^64`, any value -/
def ArrB (x : Array Nat) : Prop := ∀ i, x.getD i 0 < 18446744073709551616

theorem laneTerms_InA (ell : Nat) (x y : Array Nat) (sx ox sy oy : Nat) (hx : ArrA x) (hy : ArrA y) :
    InA (laneTerms ell x y sx ox sy oy) :=
  laneTerms_forall (fun t => t.1 < 4294967296 ∧ t.2 < 4294967296) ell x y sx ox sy oy (fun i k => ⟨hx i, hy k⟩)
theorem laneTerms_InB (ell : Nat) (x y : Array Nat) (sx ox sy oy : Nat) (hx : ArrB x) (hy : ArrB y) :
    InB (laneTerms ell x y sx ox sy oy) :=
  laneTerms_forall (fun t => t.1 < 18446744073709551616 ∧ t.2 < 18446744073709551616) ell x y sx ox sy oy
    (fun i k => ⟨hx i, hy k⟩)

/-- **a·a → b, reference**: for every `ell ≤ N` and all layout-a operands, lane `j` of the result is
  congruent to `Σ_i x[4i+j]·y[4i+j]` modulo `q j` (and nothing wrapped, see `baaRefLane_exact`). -/
theorem baa_ref_exact (N : Nat) (pc : BaaPrecomp) (q : Nat → Nat) (ok : baaOK N pc q = true)
    (ell : Nat) (hell : ell ≤ N) (x y : Array Nat) (hx : ArrA x) (hy : ArrA y) (j : Nat) (hj : j < 4) :
    (baaRef pc ell x y).getD j 0 % q j = dot (laneTerms ell x y 4 j 4 j) % q j := by
  unfold baaRef
  rw [getD_ofFn _ j hj]
  exact (baaRefLane_exact N pc.h (pc.hpow j) (q j) (all_range4 _ ok j hj) _
    (by rw [laneTerms_length]; exact hell) (laneTerms_InA _ _ _ _ _ _ _ hx hy)).2.2

/-- **a·a → b, AVX2**: same statement, and the result lane is the same 64-bit word as the reference -/
theorem baa_avx2_exact (N : Nat) (pc : BaaPrecomp) (q : Nat → Nat) (ok : baaAvxOK N pc q = true)
    (ell : Nat) (hell : ell ≤ N) (x y : Array Nat) (hx : ArrA x) (hy : ArrA y) (j : Nat) (hj : j < 4) :
    (baaAvx pc ell x y).getD j 0 % q j = dot (laneTerms ell x y 4 j 4 j) % q j
    ∧ (baaAvx pc ell x y).getD j 0 = (baaRef pc ell x y).getD j 0 := by
  unfold baaAvx baaRef
  rw [getD_ofFn _ j hj, getD_ofFn _ j hj]
  have := baaAvxLane_exact N pc.h (pc.hpow j) (q j) (all_range4 _ ok j hj) _
    (by rw [laneTerms_length]; exact hell) (laneTerms_InA ell x y 4 j 4 j hx hy)
  exact ⟨this.2.2.2.2, this.2.2.2.1⟩

/-- **b·b → b, reference** (operands: any 64-bit lanes) -/
theorem bbb_ref_exact (N : Nat) (pc : BbbPrecomp) (q : Nat → Nat) (ok : bbbOK N pc q = true)
    (ell : Nat) (hell : ell ≤ N) (x y : Array Nat) (hx : ArrB x) (hy : ArrB y) (j : Nat) (hj : j < 4) :
    (bbbRef pc ell x y).getD j 0 % q j = dot (laneTerms ell x y 4 j 4 j) % q j := by
  unfold bbbRef
  rw [getD_ofFn _ j hj]
  exact (bbbRefLane_exact N pc j (q j) (all_range4 _ ok j hj) _
    (by rw [laneTerms_length]; exact hell) (laneTerms_InB _ _ _ _ _ _ _ hx hy)).2.2

/-- **b·b → b, AVX2** -/
theorem bbb_avx2_exact (N : Nat) (pc : BbbPrecomp) (q : Nat → Nat) (ok : bbbAvxOK N pc q = true)
    (ell : Nat) (hell : ell ≤ N) (x y : Array Nat) (hx : ArrB x) (hy : ArrB y) (j : Nat) (hj : j < 4) :
    (bbbAvx pc ell x y).getD j 0 % q j = dot (laneTerms ell x y 4 j 4 j) % q j
    ∧ (bbbAvx pc ell x y).getD j 0 = (bbbRef pc ell x y).getD j 0 := by
  unfold bbbAvx bbbRef
  rw [getD_ofFn _ j hj, getD_ofFn _ j hj]
  have := bbbAvxLane_exact N pc j (q j) (all_range4 _ ok j hj) _
    (by rw [laneTerms_length]; exact hell) (laneTerms_InB ell x y 4 j 4 j hx hy)
  exact ⟨this.2.2, this.2.1⟩

/-- **b·c → b, reference**: the value is `Σ xl·y0 + xh·y1` (`bbcVal`), which is `Σ x·y0` for valid
  layout-c operands (`bbcVal_valid`) -/
theorem bbc_ref_exact (N : Nat) (pc : BbcPrecomp) (q : Nat → Nat) (ok : bbcOK N pc q = true)
    (ell : Nat) (hell : ell ≤ N) (x y : Array Nat) (hx : ArrB x) (hy : ArrB y) (j : Nat) (hj : j < 4) :
    (bbcRef pc ell x y).getD j 0 % q j = bbcVal (laneTerms ell x y 4 j 4 j) % q j := by
  unfold bbcRef
  rw [getD_ofFn _ j hj]
  exact (bbcRefLane_exact N pc j (q j) (all_range4 _ ok j hj) _
    (by rw [laneTerms_length]; exact hell) (laneTerms_InB _ _ _ _ _ _ _ hx hy)).2.2

/-- **b·c → b, AVX2** -/
theorem bbc_avx2_exact (N : Nat) (pc : BbcPrecomp) (q : Nat → Nat) (ok : bbcAvxOK N pc q = true)
    (ell : Nat) (hell : ell ≤ N) (x y : Array Nat) (hx : ArrB x) (hy : ArrB y) (j : Nat) (hj : j < 4) :
    (bbcAvx pc ell x y).getD j 0 % q j = bbcVal (laneTerms ell x y 4 j 4 j) % q j
    ∧ (bbcAvx pc ell x y).getD j 0 = (bbcRef pc ell x y).getD j 0 := by
  unfold bbcAvx bbcRef
  rw [getD_ofFn _ j hj, getD_ofFn _ j hj]
  have := bbcAvxLane_exact N pc j (q j) (all_range4 _ ok j hj) _
    (by rw [laneTerms_length]; exact hell) (laneTerms_InB ell x y 4 j 4 j hx hy)
  exact ⟨this.2.2.2.2.2.2, this.2.2.2.2.2.1⟩

/-- **q120x2, one column, reference**: output lane `r < 8` (block `r/4`, prime `r%4`) -/
theorem x2_col1_ref_exact (N : Nat) (pc : BbcPrecomp) (q : Nat → Nat) (ok : bbcOK N pc q = true)
    (ell : Nat) (hell : ell ≤ N) (x y : Array Nat) (hx : ArrB x) (hy : ArrB y) (r : Nat) (hr : r < 8) :
    (x2Col1Ref pc ell x y).getD r 0 % q (r % 4) = bbcVal (x2Col1Terms ell x y r) % q (r % 4) := by
  unfold x2Col1Ref
  rw [getD_ofFn _ r hr]
  exact (bbcRefLane_exact N pc (r % 4) (q (r % 4)) (all_range4 _ ok (r % 4) (Nat.mod_lt _ (by omega))) _
    (by simp only [laneTerms_length]; exact hell) (laneTerms_InB _ _ _ _ _ _ _ hx hy)).2.2

/-- **q120x2, one column, AVX2** -/
theorem x2_col1_avx2_exact (N : Nat) (pc : BbcPrecomp) (q : Nat → Nat) (ok : bbcAvxOK N pc q = true)
    (ell : Nat) (hell : ell ≤ N) (x y : Array Nat) (hx : ArrB x) (hy : ArrB y) (r : Nat) (hr : r < 8) :
    (x2Col1Avx pc ell x y).getD r 0 % q (r % 4) = bbcVal (x2Col1Terms ell x y r) % q (r % 4)
    ∧ (x2Col1Avx pc ell x y).getD r 0 = (x2Col1Ref pc ell x y).getD r 0 := by
  unfold x2Col1Avx x2Col1Ref
  rw [getD_ofFn _ r hr, getD_ofFn _ r hr]
  simp only [bbcAvxX2Lane_eq]
  have := bbcAvxLane_exact N pc (r % 4) (q (r % 4)) (all_range4 _ ok (r % 4) (Nat.mod_lt _ (by omega)))
    (x2Col1Terms ell x y r) (by simp only [x2Col1Terms, laneTerms_length]; exact hell)
    (laneTerms_InB _ _ _ _ _ _ _ hx hy)
  exact ⟨this.2.2.2.2.2.2, this.2.2.2.2.2.1⟩

/-- **q120x2, two columns, reference**: output lane `r < 16` (result `r/4`, prime `r%4`) -/
theorem x2_col2_ref_exact (N : Nat) (pc : BbcPrecomp) (q : Nat → Nat) (ok : bbcOK N pc q = true)
    (ell : Nat) (hell : ell ≤ N) (x y : Array Nat) (hx : ArrB x) (hy : ArrB y) (r : Nat) (hr : r < 16) :
    (x2Col2Ref pc ell x y).getD r 0 % q (r % 4) = bbcVal (x2Col2Terms ell x y r) % q (r % 4) := by
  unfold x2Col2Ref
  rw [getD_ofFn _ r hr]
  exact (bbcRefLane_exact N pc (r % 4) (q (r % 4)) (all_range4 _ ok (r % 4) (Nat.mod_lt _ (by omega))) _
    (by simp only [laneTerms_length]; exact hell) (laneTerms_InB _ _ _ _ _ _ _ hx hy)).2.2

/-- **q120x2, two columns, AVX2** -/
theorem x2_col2_avx2_exact (N : Nat) (pc : BbcPrecomp) (q : Nat → Nat) (ok : bbcAvxOK N pc q = true)
    (ell : Nat) (hell : ell ≤ N) (x y : Array Nat) (hx : ArrB x) (hy : ArrB y) (r : Nat) (hr : r < 16) :
    (x2Col2Avx pc ell x y).getD r 0 % q (r % 4) = bbcVal (x2Col2Terms ell x y r) % q (r % 4)
    ∧ (x2Col2Avx pc ell x y).getD r 0 = (x2Col2Ref pc ell x y).getD r 0 := by
  unfold x2Col2Avx x2Col2Ref
  rw [getD_ofFn _ r hr, getD_ofFn _ r hr]
  simp only [bbcAvxX2Lane_eq]
  have := bbcAvxLane_exact N pc (r % 4) (q (r % 4)) (all_range4 _ ok (r % 4) (Nat.mod_lt _ (by omega)))
    (x2Col2Terms ell x y r) (by simp only [x2Col2Terms, laneTerms_length]; exact hell)
    (laneTerms_InB _ _ _ _ _ _ _ hx hy)
  exact ⟨this.2.2.2.2.2.2, this.2.2.2.2.2.1⟩

/-- `ell = 0`: every product kernel returns 0 (no hypothesis at all) -/
theorem products_ell0 (pa : BaaPrecomp) (pb : BbbPrecomp) (pc : BbcPrecomp) (x y : Array Nat) :
    baaRef pa 0 x y = #[0, 0, 0, 0] ∧ baaAvx pa 0 x y = #[0, 0, 0, 0]
    ∧ bbbRef pb 0 x y = #[0, 0, 0, 0] ∧ bbbAvx pb 0 x y = #[0, 0, 0, 0]
    ∧ bbcRef pc 0 x y = #[0, 0, 0, 0] ∧ bbcAvx pc 0 x y = #[0, 0, 0, 0] := by
  have z : ∀ m : Nat, 0 % 2 ^ m = 0 ∧ 0 / 2 ^ m = 0 := fun m => ⟨Nat.zero_mod _, Nat.zero_div _⟩
  refine ⟨?_, ?_, ?_, ?_, ?_, ?_⟩ <;>
    simp [baaRef, baaAvx, bbbRef, bbbAvx, bbcRef, bbcAvx, laneTerms, baaRefLane, baaAvxLane, bbbRefLane,
      bbbAvxLane, bbcRefLane, bbcAvxLane, bbbRefFinal, bbbAvxFinal, bbcRefFinal, bbcAvxFinal, add64, mul64,
      mulEpu32, Array.ofFn_succ]


/-! ## valid layout-c operands: the b·c kernels compute `Σ x_i · y0_i` -/

/-- every 64-bit lane of `y` holds a valid layout-c pair for its prime (lane index mod 4):
  `y1 ≡ y0·2^32 (mod q)`; `y0`, `y1` may be any (also non-canonical) 32-bit representatives -/
def ValidC (q : Nat → Nat) (y : Array Nat) : Prop :=
  ∀ i, (y.getD i 0 / 4294967296) % q (i % 4) = ((y.getD i 0 % 4294967296) * 4294967296) % q (i % 4)

/-- `Σ_i x[sx·i+ox] · y0[sy·i+oy]` -/
def dotC (l : List (Nat × Nat)) : Nat := wsum (fun t => t.1 * (t.2 % 4294967296)) l

theorem bbcVal_validC (q : Nat → Nat) (ell : Nat) (x y : Array Nat) (sx ox sy oy k : Nat) (hy : ValidC q y)
    (hk : ∀ i, (sy * i + oy) % 4 = k) :
    bbcVal (laneTerms ell x y sx ox sy oy) % q k = dotC (laneTerms ell x y sx ox sy oy) % q k := by
  apply bbcVal_valid
  intro t ht
  simp only [laneTerms, List.mem_map] at ht
  obtain ⟨i, _, rfl⟩ := ht
  have := hy (sy * i + oy)
  rw [hk i] at this
  exact this

end Spq.Q120
