/-
  C16, binary64 side, products of products, step 1: composition of the error sources of ONE product row in DFT space
  when BOTH operands are known only up to an ABSOLUTE 2-norm error (abstract sequences; generalises
  `ProdErr.dft_prod_err`, whose operands are computed transforms with a relative error):
      ‖Â − Ā‖₂² ≤ da²·M,   ‖B̂ − B̄‖₂² ≤ db²·M,   ‖Ā‖₂² ≤ na²·M,  |Ā_j| ≤ la,   ‖B̄‖₂² ≤ nb²·M,  |B̄_j| ≤ lb,
      |Ĉ_j − Â_j·B̂_j| ≤ μ·|Â_j|·|B̂_j|
  ⇒   ‖Ĉ − Ā∘B̄‖₂² ≤ (rowF)²·M,   rowF = μ·(S/2 + D) + D,   D = da·(lb + db·t) + la·db,   S = la·nb + na·lb
  (2-norm of one factor times sup-norm of the other; `t² ≥ M` only enters the second-order term `da·db·t`),
  and the row-wise (Minkowski) composition `vmp_dft_abs` for the accumulation of `n` rows.
-/
import SpqProofs.Lemmas.VmpErrCompose
set_option linter.unusedSectionVars false
namespace Spq.ProgErr2
open Finset Spq.FftErr Spq.ProdErr Spq.VmpErr
variable {K : Type} [Field K] [LinearOrder K] [IsStrictOrderedRing K]

/-- error of `Â∘B̂` against `Ā∘B̄` (per `√M`): `da·(lb + db·t) + la·db` -/
def rowD (da db la lb t : K) : K := da * (lb + db * t) + la * db
/-- error of the computed product row against `Ā∘B̄` (per `√M`) -/
def rowF (μ da db na nb la lb t : K) : K := μ * ((la * nb + na * lb) / 2 + rowD da db la lb t) + rowD da db la lb t

theorem rowD_nonneg {da db la lb t : K} (h1 : 0 ≤ da) (h2 : 0 ≤ db) (h3 : 0 ≤ la) (h4 : 0 ≤ lb) (h5 : 0 ≤ t) :
    0 ≤ rowD da db la lb t := by unfold rowD; positivity

theorem rowF_nonneg {μ da db na nb la lb t : K} (h0 : 0 ≤ μ) (h1 : 0 ≤ da) (h2 : 0 ≤ db) (hna : 0 ≤ na) (hnb : 0 ≤ nb)
    (h3 : 0 ≤ la) (h4 : 0 ≤ lb) (h5 : 0 ≤ t) : 0 ≤ rowF μ da db na nb la lb t := by
  unfold rowF
  have := rowD_nonneg h1 h2 h3 h4 h5
  positivity

theorem dft_prod_abs (s : Finset ℕ) (Ab Bb Ah Bh Ch : ℕ → Cplx K) (μ da db na nb la lb M t : K)
    (hμ : 0 ≤ μ) (hda : 0 ≤ da) (hdb : 0 ≤ db) (hna : 0 ≤ na) (hnb : 0 ≤ nb) (hla : 0 ≤ la) (hlb : 0 ≤ lb)
    (hM : 0 ≤ M) (ht : 0 ≤ t) (hMt : M ≤ t ^ 2)
    (hA : ∑ j ∈ s, nsq (Ah j - Ab j) ≤ da ^ 2 * M)
    (hAn : ∑ j ∈ s, nsq (Ab j) ≤ na ^ 2 * M) (hAs : ∀ j ∈ s, nsq (Ab j) ≤ la ^ 2)
    (hB : ∑ j ∈ s, nsq (Bh j - Bb j) ≤ db ^ 2 * M)
    (hBn : ∑ j ∈ s, nsq (Bb j) ≤ nb ^ 2 * M) (hBs : ∀ j ∈ s, nsq (Bb j) ≤ lb ^ 2)
    (hC : ∀ j ∈ s, nsq (Ch j - Ah j * Bh j) ≤ μ ^ 2 * (nsq (Ah j) * nsq (Bh j))) :
    ∑ j ∈ s, nsq (Ab j * Bb j) ≤ ((la * nb + na * lb) / 2) ^ 2 * M ∧
    ∑ j ∈ s, nsq (Ch j - Ab j * Bb j) ≤ rowF μ da db na nb la lb t ^ 2 * M := by
  obtain ⟨S, hS⟩ : ∃ S, S = la * nb + na * lb := ⟨_, rfl⟩
  obtain ⟨D, hD⟩ : ∃ D, D = rowD da db la lb t := ⟨_, rfl⟩
  have hS0 : 0 ≤ S := by rw [hS]; positivity
  have hD0 : 0 ≤ D := by rw [hD]; exact rowD_nonneg hda hdb hla hlb ht
  -- sup bound of the computed B
  have supB : ∀ j ∈ s, nsq (Bh j) ≤ (lb + db * t) ^ 2 := by
    intro j hj
    have h1 : nsq (Bh j - Bb j) ≤ ∑ j ∈ s, nsq (Bh j - Bb j) :=
      single_le_sum (f := fun j => nsq (Bh j - Bb j)) (fun i _ => nsq_nonneg _) hj
    have h2 : db ^ 2 * M ≤ (db * t) ^ 2 := by
      have a1 : db ^ 2 * M ≤ db ^ 2 * t ^ 2 := mul_le_mul_of_nonneg_left hMt (by positivity)
      calc _ ≤ db ^ 2 * t ^ 2 := a1
        _ = (db * t) ^ 2 := by ring
    have := one_tri (Bb j) (Bh j - Bb j) lb (db * t) 1 hlb (by positivity)
      (by rw [mul_one]; exact hBs j hj) (by rw [mul_one]; linarith)
    rw [show Bb j + (Bh j - Bb j) = Bh j by ring, mul_one] at this
    exact this
  -- the two first-order terms
  have T1 : ∑ j ∈ s, nsq (Bh j * (Ah j - Ab j)) ≤ (da * (lb + db * t)) ^ 2 * M := by
    have h := sum_mul_le s Bh (fun j => Ah j - Ab j) _ supB
    have := mul_le_mul_of_nonneg_left hA (show (0 : K) ≤ (lb + db * t) ^ 2 by positivity)
    rw [show (da * (lb + db * t)) ^ 2 * M = (lb + db * t) ^ 2 * (da ^ 2 * M) by ring]
    linarith
  have T2 : ∑ j ∈ s, nsq (Ab j * (Bh j - Bb j)) ≤ (la * db) ^ 2 * M := by
    have h := sum_mul_le s Ab (fun j => Bh j - Bb j) _ hAs
    have := mul_le_mul_of_nonneg_left hB (show (0 : K) ≤ la ^ 2 by positivity)
    rw [show (la * db) ^ 2 * M = la ^ 2 * (db ^ 2 * M) by ring]
    linarith
  -- Â∘B̂ − Ā∘B̄
  have hDD : ∑ j ∈ s, nsq (Ah j * Bh j - Ab j * Bb j) ≤ D ^ 2 * M := by
    have := sum_tri s (fun j => Bh j * (Ah j - Ab j)) (fun j => Ab j * (Bh j - Bb j)) _ _ M (by positivity)
      (by positivity) T1 T2
    have e : ∀ j, Bh j * (Ah j - Ab j) + Ab j * (Bh j - Bb j) = Ah j * Bh j - Ab j * Bb j := fun j => by ring
    simp only [e] at this
    rw [hD]; unfold rowD
    exact this
  -- the exact product
  have hC1 : ∑ j ∈ s, nsq (Ab j * Bb j) ≤ (la * nb) ^ 2 * M := by
    have h := sum_mul_le s Ab Bb _ hAs
    have := mul_le_mul_of_nonneg_left hBn (show (0 : K) ≤ la ^ 2 by positivity)
    rw [show (la * nb) ^ 2 * M = la ^ 2 * (nb ^ 2 * M) by ring]
    linarith
  have hC2 : ∑ j ∈ s, nsq (Ab j * Bb j) ≤ (na * lb) ^ 2 * M := by
    have h := sum_mul_le s Bb Ab _ hBs
    have := mul_le_mul_of_nonneg_left hAn (show (0 : K) ≤ lb ^ 2 by positivity)
    rw [show (na * lb) ^ 2 * M = lb ^ 2 * (na ^ 2 * M) by ring]
    simp only [mul_comm (Bb _) (Ab _)] at h
    linarith
  have hCS : ∑ j ∈ s, nsq (Ab j * Bb j) ≤ (S / 2) ^ 2 * M := by
    rcases le_total (la * nb) (na * lb) with h | h
    · exact le_trans hC1 (sq_scale_mono (by positivity) (by rw [hS]; linarith) hM)
    · exact le_trans hC2 (sq_scale_mono (by positivity) (by rw [hS]; linarith) hM)
  rw [← hS]
  refine ⟨hCS, ?_⟩
  -- size of Â∘B̂
  have hAB : ∑ j ∈ s, nsq (Ah j * Bh j) ≤ (S / 2 + D) ^ 2 * M := by
    have := sum_tri s (fun j => Ab j * Bb j) (fun j => Ah j * Bh j - Ab j * Bb j) _ _ M (by positivity) hD0 hCS hDD
    simp only [add_sub_cancel] at this
    exact this
  -- fresh error of the product
  have hF : ∑ j ∈ s, nsq (Ch j - Ah j * Bh j) ≤ (μ * (S / 2 + D)) ^ 2 * M := by
    have h1 : ∑ j ∈ s, nsq (Ch j - Ah j * Bh j) ≤ μ ^ 2 * ∑ j ∈ s, nsq (Ah j * Bh j) := by
      rw [mul_sum]
      apply sum_le_sum
      intro j hj
      rw [nsq_mul]; exact hC j hj
    have := mul_le_mul_of_nonneg_left hAB (show (0 : K) ≤ μ ^ 2 by positivity)
    rw [show (μ * (S / 2 + D)) ^ 2 * M = μ ^ 2 * ((S / 2 + D) ^ 2 * M) by ring]
    linarith
  have := sum_tri s (fun j => Ch j - Ah j * Bh j) (fun j => Ah j * Bh j - Ab j * Bb j) _ _ M (by positivity) hD0 hF hDD
  simp only [sub_add_sub_cancel] at this
  refine le_trans this (le_of_eq ?_)
  unfold rowF; rw [← hD, ← hS]

/-- the row-wise composition: `Ĉ(t) = Σ_i (Â_i(t)·B̂_i(t) + δ_i(t))`, `|δ_i(t)| ≤ μ·|Â_i(t)|·|B̂_i(t)|` -/
theorem vmp_dft_abs (s : Finset ℕ) (n : ℕ) (Ab Bb Ah Bh : ℕ → ℕ → Cplx K) (Ch : ℕ → Cplx K)
    (μ M t : K) (da db na nb la lb : ℕ → K)
    (hμ : 0 ≤ μ) (hM : 0 ≤ M) (ht : 0 ≤ t) (hMt : M ≤ t ^ 2)
    (hda : ∀ i, i < n → 0 ≤ da i) (hdb : ∀ i, i < n → 0 ≤ db i)
    (hna : ∀ i, i < n → 0 ≤ na i) (hnb : ∀ i, i < n → 0 ≤ nb i) (hla : ∀ i, i < n → 0 ≤ la i)
    (hlb : ∀ i, i < n → 0 ≤ lb i)
    (hA : ∀ i, i < n → ∑ j ∈ s, nsq (Ah i j - Ab i j) ≤ da i ^ 2 * M)
    (hAn : ∀ i, i < n → ∑ j ∈ s, nsq (Ab i j) ≤ na i ^ 2 * M) (hAs : ∀ i, i < n → ∀ j ∈ s, nsq (Ab i j) ≤ la i ^ 2)
    (hB : ∀ i, i < n → ∑ j ∈ s, nsq (Bh i j - Bb i j) ≤ db i ^ 2 * M)
    (hBn : ∀ i, i < n → ∑ j ∈ s, nsq (Bb i j) ≤ nb i ^ 2 * M) (hBs : ∀ i, i < n → ∀ j ∈ s, nsq (Bb i j) ≤ lb i ^ 2)
    (hC : ∀ j ∈ s, ∃ δ : ℕ → Cplx K, (∀ i, i < n → nsq (δ i) ≤ μ ^ 2 * (nsq (Ah i j) * nsq (Bh i j))) ∧
      Ch j = ∑ i ∈ range n, (Ah i j * Bh i j + δ i)) :
    ∑ j ∈ s, nsq (Ch j - ∑ i ∈ range n, Ab i j * Bb i j) ≤
      (∑ i ∈ range n, rowF μ (da i) (db i) (na i) (nb i) (la i) (lb i) t) ^ 2 * M := by
  classical
  choose! δ hδ hCh using hC
  have row := fun i (hi : i < n) => dft_prod_abs s (Ab i) (Bb i) (Ah i) (Bh i) (fun j => Ah i j * Bh i j + δ j i)
    μ (da i) (db i) (na i) (nb i) (la i) (lb i) M t hμ (hda i hi) (hdb i hi) (hna i hi) (hnb i hi) (hla i hi)
    (hlb i hi) hM ht hMt (hA i hi) (hAn i hi) (hAs i hi) (hB i hi) (hBn i hi) (hBs i hi)
    (fun j hj => by rw [add_sub_cancel_left]; exact hδ j hj i hi)
  have := sum_tri_range s n (fun i j => (Ah i j * Bh i j + δ j i) - Ab i j * Bb i j)
    (fun i => rowF μ (da i) (db i) (na i) (nb i) (la i) (lb i) t) M
    (fun i hi => rowF_nonneg hμ (hda i hi) (hdb i hi) (hna i hi) (hnb i hi) (hla i hi) (hlb i hi) ht)
    (fun i hi => (row i hi).2)
  refine le_trans (le_of_eq ?_) this
  apply sum_congr rfl
  intro j hj
  rw [hCh j hj, sum_sub_distrib]

end Spq.ProgErr2
