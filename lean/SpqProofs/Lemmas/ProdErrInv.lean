/-
  C01 rounding budget, step 4: through the inverse transform.  `y` = values of the computed DFT-space product,
  `V ζ γ k 0` = exact DFT of the packed exact result `γ`, `ch` = values of the computed inverse transform:
      Σ_p ‖ch_p − 2^k·γ_p‖² ≤ ((ε·(S2 + F) + F)·M)²,  M = 2^k.
-/
import SpqProofs.Lemmas.ProdErrNet
import SpqProofs.Lemmas.ProdErrCompose
set_option linter.unusedSectionVars false
namespace Spq.ProdErr
open Finset Spq.Fft.Alg Spq.FftErr
variable {K : Type} [Field K] [LinearOrder K] [IsStrictOrderedRing K]

/-- the exact inverse network on the exact DFT of `γ` returns `2^k·γ` -/
theorem WIk_V (k : ℕ) (ζ ζi : Cplx K) (hinv : ζ * ζi = 1) (γ : ℕ → Cplx K) (p : ℕ) :
    WIk k ζi (fun q => V ζ γ k 0 q) k p = 2 ^ k * γ p := by
  have := WIk_of_evals k ζi ζ hinv γ k (le_refl k) p
  rw [Nat.sub_self] at this
  rw [this]; simp [V]

theorem inv_compose (k : ℕ) (ζ ζi : Cplx K) (hζi : nsq ζi = 1) (hinv : ζ * ζi = 1) (γ y ch : ℕ → Cplx K)
    (ε F S2 M : K) (hM : M = 2 ^ k) (hε : 0 ≤ ε) (hF : 0 ≤ F) (hS2 : 0 ≤ S2)
    (hy : ∑ p ∈ range (2 ^ k), nsq (y p - V ζ γ k 0 p) ≤ F ^ 2 * M)
    (hC : ∑ p ∈ range (2 ^ k), nsq (V ζ γ k 0 p) ≤ S2 ^ 2 * M)
    (hch : ∑ p ∈ range (2 ^ k), nsq (ch p - WIk k ζi y k p) ≤ ε ^ 2 * ∑ p ∈ range (2 ^ k), nsq (WIk k ζi y k p)) :
    ∑ p ∈ range (2 ^ k), nsq (ch p - 2 ^ k * γ p) ≤ ((ε * (S2 + F) + F) * M) ^ 2 := by
  have hM0 : 0 ≤ M := by rw [hM]; positivity
  -- exact inverse of the perturbation
  have h1 : ∑ p ∈ range (2 ^ k), nsq (WIk k ζi y k p - 2 ^ k * γ p) ≤ (F * M) ^ 2 * 1 := by
    have e : ∀ p, WIk k ζi y k p - 2 ^ k * γ p = WIk k ζi (fun q => y q - V ζ γ k 0 q) k p := by
      intro p; rw [WIk_sub, WIk_V k ζ ζi hinv]
    simp only [e]
    rw [WIk_norm k ζi hζi, ← hM]
    have := mul_le_mul_of_nonneg_left hy hM0
    rw [show (F * M) ^ 2 * 1 = M * (F ^ 2 * M) by ring]
    exact this
  -- size of the exact result
  have h2 : ∑ p ∈ range (2 ^ k), nsq (2 ^ k * γ p) ≤ (S2 * M) ^ 2 * 1 := by
    have e : ∀ p, 2 ^ k * γ p = WIk k ζi (fun q => V ζ γ k 0 q) k p := fun p => (WIk_V k ζ ζi hinv γ p).symm
    simp only [e]
    rw [WIk_norm k ζi hζi, ← hM]
    have := mul_le_mul_of_nonneg_left hC hM0
    rw [show (S2 * M) ^ 2 * 1 = M * (S2 ^ 2 * M) by ring]
    exact this
  -- size of the exact inverse of the computed product
  have h3 : ∑ p ∈ range (2 ^ k), nsq (WIk k ζi y k p) ≤ ((S2 + F) * M) ^ 2 * 1 := by
    have := sum_tri (range (2 ^ k)) (fun p => 2 ^ k * γ p) (fun p => WIk k ζi y k p - 2 ^ k * γ p) (S2 * M) (F * M) 1
      (by positivity) (by positivity) h2 h1
    simp only [add_sub_cancel] at this
    rw [show (S2 + F) * M = S2 * M + F * M by ring]
    exact this
  have h4 : ∑ p ∈ range (2 ^ k), nsq (ch p - WIk k ζi y k p) ≤ (ε * ((S2 + F) * M)) ^ 2 * 1 := by
    have := mul_le_mul_of_nonneg_left h3 (show (0 : K) ≤ ε ^ 2 by positivity)
    rw [show (ε * ((S2 + F) * M)) ^ 2 * 1 = ε ^ 2 * (((S2 + F) * M) ^ 2 * 1) by ring]
    linarith
  have := sum_tri (range (2 ^ k)) (fun p => ch p - WIk k ζi y k p) (fun p => WIk k ζi y k p - 2 ^ k * γ p)
    (ε * ((S2 + F) * M)) (F * M) 1 (by positivity) (by positivity) h4 h1
  simp only [sub_add_sub_cancel, mul_one] at this
  refine le_trans this (le_of_eq ?_)
  ring

/-- one coordinate out of the 2-norm -/
theorem coord_of_sum (n : ℕ) (f : ℕ → Cplx K) (B : K) (hB : 0 ≤ B) (h : ∑ p ∈ range n, nsq (f p) ≤ B ^ 2) (p : ℕ)
    (hp : p < n) : |(f p).re| ≤ B ∧ |(f p).im| ≤ B := by
  have h1 : nsq (f p) ≤ ∑ p ∈ range n, nsq (f p) :=
    single_le_sum (f := fun p => nsq (f p)) (fun i _ => nsq_nonneg _) (mem_range.2 hp)
  have h2 : nsq (f p) ≤ B ^ 2 := le_trans h1 h
  unfold nsq at h2
  constructor
  · exact abs_le_of_sq_le_sq (by nlinarith [sq_nonneg (f p).im]) hB
  · exact abs_le_of_sq_le_sq (by nlinarith [sq_nonneg (f p).re]) hB

end Spq.ProdErr
