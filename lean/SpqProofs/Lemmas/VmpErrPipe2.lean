/-
  C02 rounding budget, step 11: the inverse stage and the final conversion of one output column.
  `col_inv_stage`: every cell of the computed inverse transform of column `j` is finite and within `vbudget·m` of
  `m·(spec_j)_i`;  `col_out`: every output coefficient is an integer within `vbudget + 1/2` of `(spec_j)_i`.
-/
import SpqProofs.Lemmas.VmpErrPipe
set_option linter.unusedSectionVars false
namespace Spq.VmpErr
open Finset Spq Spq.Module Spq.Fft Spq.Fft.Alg Spq.Fft.SimP Spq.Fft.LevelN Spq.Fft.SchedN Spq.Fft.RelN Spq.FftErr Spq.F64
  Spq.Reim4 Spq.ProdErr Spq.C06Err Spq.Conv
variable {K : Type} [Field K] [LinearOrder K] [IsStrictOrderedRing K]

/-- the budget of one column: `eB ε μ_n (ε·m)·Σ_i S_i` -/
def vbudget (K : Type) [Field K] [LinearOrder K] (k : ℕ) (mat : Array Int) (nrows ncols : ℕ) (a : Array Int)
    (asz asl j : ℕ) (na nb : ℕ → K) : K :=
  eB (eps K k) ((muD (min nrows asz) : ℚ) : K) (eps K k * 2 ^ k) * sumS K k mat nrows ncols a asz asl j na nb

theorem sumS_nonneg (k : ℕ) (mat : Array Int) (nrows ncols : ℕ) (a : Array Int) (asz asl j : ℕ) (na nb : ℕ → K)
    (hna0 : ∀ i, i < min nrows asz → 0 ≤ na i) (hnb0 : ∀ i, i < min nrows asz → 0 ≤ nb i) :
    0 ≤ sumS K k mat nrows ncols a asz asl j na nb :=
  sum_nonneg (fun i hi => rowS_nonneg k mat ncols a asl j na nb i (hna0 i (mem_range.1 hi)) (hnb0 i (mem_range.1 hi)))

theorem vbudget_nonneg (k : ℕ) (mat : Array Int) (nrows ncols : ℕ) (a : Array Int) (asz asl j : ℕ) (na nb : ℕ → K)
    (hna0 : ∀ i, i < min nrows asz → 0 ≤ na i) (hnb0 : ∀ i, i < min nrows asz → 0 ≤ nb i) :
    0 ≤ vbudget K k mat nrows ncols a asz asl j na nb := by
  unfold vbudget
  have hμ : (0 : K) ≤ ((muD (min nrows asz) : ℚ) : K) := by exact_mod_cast muD_nonneg _
  exact mul_nonneg (eB_nonneg (eps_nonneg (K := K) k) hμ (mul_nonneg (eps_nonneg (K := K) k) (by positivity)))
    (sumS_nonneg k mat nrows ncols a asz asl j na nb hna0 hnb0)

theorem vmpRes_size (c : Cfg) (k : ℕ) (cN sN cNi sNi : ℕ → ℕ) (h : VCfgOk c k cN sN cNi sNi)
    (mat : Array Int) (nrows ncols : ℕ) (a : Array Int) (asz asl rsz : ℕ)
    (hM : ∀ i j, i < nrows → j < ncols → Box k (matEntry mat ncols (2 * 2 ^ k) i j)) :
    (vmpRes c mat nrows ncols a asz asl rsz).size = rsz * (2 * 2 ^ k) := by
  have hnn := p_nn c k cN sN cNi sNi h
  have hT : ∀ row col, row < nrows → col < ncols → (matDft (Cfg.parts c) mat ncols row col).size = (Cfg.parts c).nn := by
    intro row col hr hc
    rw [matDft_stF c k cN sN cNi sNi h, hnn]
    exact stF_size c k cN sN cNi sNi h.cfg _ (hM row col hr hc)
  obtain ⟨s, _⟩ := vmp_layout_g (Cfg.parts c) (p_hnn c k cN sN cNi sNi h) (p_hblk c k cN sN cNi sNi h)
    (p_hsm c k cN sN cNi sNi h) mat nrows ncols rsz asz (vecDft (Cfg.parts c) (min nrows asz) a asz asl) (fun _ => hT)
  rw [hnn] at s
  exact s

theorem dlimb_size {α : Type} (x : Array α) (j nn rsz : ℕ) (hs : x.size = rsz * nn) (hj : j < rsz) :
    (dlimb x j nn).size = nn := by
  unfold dlimb
  apply size_extract_of_le
  have := mul_step j rsz nn hj
  omega

/-- the computed inverse transform of column `j` -/
def colInv (c : Cfg) (k : ℕ) (cNi sNi : ℕ → ℕ) (mat : Array Int) (nrows ncols : ℕ) (a : Array Int) (asz asl rsz j : ℕ) :
    Array ℕ :=
  reimIfft (if c.ifftFma then "fma" else "ref") (2 ^ k) (tabI k cNi sNi)
    (dlimb (vmpRes c mat nrows ncols a asz asl rsz) j (2 * 2 ^ k))

theorem col_inv_stage (c : Cfg) (k : ℕ) (cN sN cNi sNi : ℕ → ℕ) (h : VCfgOk c k cN sN cNi sNi)
    (ζ ζi : Cplx K) (hζ : nsq ζ = 1) (hI : ζ ^ 2 ^ k = Ic) (hinv : ζ * ζi = 1)
    (hcs : ∀ ℓ d b, ℓ + d + 1 = k → b < 2 ^ ℓ →
      nsq (toC (((val (cN (twE ℓ d b)) : ℚ) : K), ((val (sN (twE ℓ d b)) : ℚ) : K)) - ζ ^ twE ℓ d b) ≤
        (((7 / 2 * u64 : ℚ)) : K) ^ 2)
    (hcsi : ∀ ℓ d b, ℓ + d + 1 = k → b < 2 ^ ℓ →
      nsq (toC (((val (cNi (twE ℓ d b)) : ℚ) : K), ((val (sNi (twE ℓ d b)) : ℚ) : K)) - ζi ^ twE ℓ d b) ≤
        (((7 / 2 * u64 : ℚ)) : K) ^ 2)
    (mat : Array Int) (nrows ncols : ℕ) (a : Array Int) (asz asl rsz : ℕ)
    (hA : ∀ i, i < min nrows asz → Box k (limbOf a i asl (2 * 2 ^ k)))
    (hM : ∀ i j, i < nrows → j < ncols → Box k (matEntry mat ncols (2 * 2 ^ k) i j))
    (j : ℕ) (hj : j < min ncols rsz) (hpos : k < 2 → 0 < min nrows asz)
    (hok : VmpOk c k cN sN cNi sNi mat nrows ncols a asz asl rsz j)
    (na nb : ℕ → K) (hna0 : ∀ i, i < min nrows asz → 0 ≤ na i) (hnb0 : ∀ i, i < min nrows asz → 0 ≤ nb i)
    (hna : ∀ i, i < min nrows asz → n2sq K (limbOf a i asl (2 * 2 ^ k)) (2 * 2 ^ k) ≤ na i ^ 2)
    (hnb : ∀ i, i < min nrows asz → n2sq K (matEntry mat ncols (2 * 2 ^ k) i j) (2 * 2 ^ k) ≤ nb i ^ 2)
    (hnl : ∀ i, i < min nrows asz → nb i ≤ n1 K (matEntry mat ncols (2 * 2 ^ k) i j) (2 * 2 ^ k)) :
    (∀ p, p < 2 * 2 ^ k → Fin64 ((colInv c k cNi sNi mat nrows ncols a asz asl rsz j)[p]!)) ∧
    (∀ i, i < 2 * 2 ^ k →
      |((val ((colInv c k cNi sNi mat nrows ncols a asz asl rsz j)[i]!) : ℚ) : K) -
          2 ^ k * (((colSpec k mat nrows ncols a asz asl j).getD i 0 : Int) : K)| ≤
        vbudget K k mat nrows ncols a asz asl j na nb * 2 ^ k) ∧
    (∀ i, i < 2 * 2 ^ k → |(((colSpec k mat nrows ncols a asz asl j).getD i 0 : Int) : K)| ≤
      sumS K k mat nrows ncols a asz asl j na nb / 2) := by
  obtain ⟨hζi, hIi⟩ := inv_root k ζ ζi hζ hI hinv
  obtain ⟨_, hCs, hCe⟩ := col_dft_stage c k cN sN cNi sNi h ζ hζ hI hcs mat nrows ncols a asz asl rsz hA hM j hj hpos hok
    na nb hna0 hnb0 hna hnb hnl
  have hjr : j < rsz := lt_of_lt_of_le hj (Nat.min_le_right _ _)
  have hsz : (dlimb (vmpRes c mat nrows ncols a asz asl rsz) j (2 * 2 ^ k)).size = 2 * 2 ^ k :=
    dlimb_size _ j _ rsz (vmpRes_size c k cN sN cNi sNi h mat nrows ncols a asz asl rsz hM) hjr
  have FI := reim_ifft_err c.ifftFma k ζi hζi hIi cNi sNi hcsi
    (dlimb (vmpRes c mat nrows ncols a asz asl rsz) j (2 * 2 ^ k)) hsz hok.okI
  obtain ⟨S, hS⟩ : ∃ S, S = sumS K k mat nrows ncols a asz asl j na nb := ⟨_, rfl⟩
  have hS0 : 0 ≤ S := by rw [hS]; exact sumS_nonneg k mat nrows ncols a asz asl j na nb hna0 hnb0
  have hμ : (0 : K) ≤ ((muD (min nrows asz) : ℚ) : K) := by exact_mod_cast muD_nonneg _
  have hθ0 : (0 : K) ≤ eps K k * 2 ^ k := mul_nonneg (eps_nonneg k) (by positivity)
  have hf0 := fB_nonneg (eps_nonneg (K := K) k) hμ hθ0
  rw [← hS] at hCs hCe
  have hP : (0 : K) < 2 ^ k := by positivity
  -- coefficient bound (Parseval)
  have hcoef : ∀ i, i < 2 * 2 ^ k → |(((colSpec k mat nrows ncols a asz asl j).getD i 0 : Int) : K)| ≤ S / 2 := by
    have hG : ∑ p ∈ range (2 ^ k), nsq ((2 : Cplx K) ^ k * pkC (colSpec k mat nrows ncols a asz asl j) (2 ^ k) p) ≤
        (S / 2 * 2 ^ k) ^ 2 := by
      have e : ∀ p, (2 : Cplx K) ^ k * pkC (colSpec k mat nrows ncols a asz asl j) (2 ^ k) p =
          WIk k ζi (fun q => V ζ (pkC (colSpec k mat nrows ncols a asz asl j) (2 ^ k)) k 0 q) k p :=
        fun p => (WIk_V k ζ ζi hinv _ p).symm
      simp only [e]
      rw [WIk_norm k ζi hζi]
      have := mul_le_mul_of_nonneg_left hCs (le_of_lt hP)
      rw [show (S / 2 * 2 ^ k) ^ 2 = 2 ^ k * ((S / 2) ^ 2 * 2 ^ k) by ring]
      exact this
    have hB0 : 0 ≤ S / 2 * 2 ^ k := by positivity
    intro i hi
    have key : ∀ x : K, |2 ^ k * x| ≤ S / 2 * 2 ^ k → |x| ≤ S / 2 := by
      intro x hx
      rw [abs_mul, abs_of_pos hP, mul_comm] at hx
      exact le_of_mul_le_mul_right hx hP
    by_cases hlt : i < 2 ^ k
    · have := (coord_of_sum (2 ^ k) (fun p => (2 : Cplx K) ^ k * pkC (colSpec k mat nrows ncols a asz asl j) (2 ^ k) p) _
        hB0 hG i hlt).1
      simp only [(two_pow_mul_re k _).1] at this
      exact key _ this
    · obtain ⟨p, rfl⟩ : ∃ p, i = 2 ^ k + p := ⟨i - 2 ^ k, by omega⟩
      have := (coord_of_sum (2 ^ k) (fun p => (2 : Cplx K) ^ k * pkC (colSpec k mat nrows ncols a asz asl j) (2 ^ k) p) _
        hB0 hG p (by omega)).2
      simp only [(two_pow_mul_re k _).2] at this
      exact key _ this
  refine ⟨FI.1, ?_, by rw [← hS]; exact hcoef⟩
  have hch : ∑ p ∈ range (2 ^ k), nsq (outC (colInv c k cNi sNi mat nrows ncols a asz asl rsz j) k p -
        WIk k ζi (fun q => outC (dlimb (vmpRes c mat nrows ncols a asz asl rsz) j (2 * 2 ^ k)) k q) k p) ≤
      eps K k ^ 2 * ∑ p ∈ range (2 ^ k),
        nsq (WIk k ζi (fun q => outC (dlimb (vmpRes c mat nrows ncols a asz asl rsz) j (2 * 2 ^ k)) k q) k p) := FI.2
  have hc := inv_compose k ζ ζi hζi hinv (pkC (colSpec k mat nrows ncols a asz asl j) (2 ^ k))
    (fun q => outC (dlimb (vmpRes c mat nrows ncols a asz asl rsz) j (2 * 2 ^ k)) k q)
    (fun p => outC (colInv c k cNi sNi mat nrows ncols a asz asl rsz j) k p) (eps K k)
    (fB (eps K k) ((muD (min nrows asz) : ℚ) : K) (eps K k * 2 ^ k) * S) (S / 2) (2 ^ k) rfl (eps_nonneg k)
    (mul_nonneg hf0 hS0) (by positivity) hCe hCs hch
  have hE : (eps K k * (S / 2 + fB (eps K k) ((muD (min nrows asz) : ℚ) : K) (eps K k * 2 ^ k) * S) +
      fB (eps K k) ((muD (min nrows asz) : ℚ) : K) (eps K k * 2 ^ k) * S) * 2 ^ k =
      vbudget K k mat nrows ncols a asz asl j na nb * 2 ^ k := by
    unfold vbudget eB; rw [← hS]; ring
  rw [hE] at hc
  have hB0 : 0 ≤ vbudget K k mat nrows ncols a asz asl j na nb * 2 ^ k :=
    mul_nonneg (vbudget_nonneg k mat nrows ncols a asz asl j na nb hna0 hnb0) (by positivity)
  intro i hi
  by_cases hlt : i < 2 ^ k
  · have := (coord_of_sum (2 ^ k) (fun p => outC (colInv c k cNi sNi mat nrows ncols a asz asl rsz j) k p -
      2 ^ k * pkC (colSpec k mat nrows ncols a asz asl j) (2 ^ k) p) _ hB0 hc i hlt).1
    simp only [QuadraticAlgebra.re_sub, (two_pow_mul_re k _).1] at this
    exact this
  · obtain ⟨p, rfl⟩ : ∃ p, i = 2 ^ k + p := ⟨i - 2 ^ k, by omega⟩
    have := (coord_of_sum (2 ^ k) (fun p => outC (colInv c k cNi sNi mat nrows ncols a asz asl rsz j) k p -
      2 ^ k * pkC (colSpec k mat nrows ncols a asz asl j) (2 ^ k) p) _ hB0 hc p (by omega)).2
    simp only [QuadraticAlgebra.im_sub, (two_pow_mul_re k _).2] at this
    exact this

end Spq.VmpErr
