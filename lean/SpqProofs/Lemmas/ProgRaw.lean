/-
  C16 helpers for the provenance conjunct of `Prog.RD` (raw transforms) and for `vmp_apply_dft_to_dft`:
  the canonical flat array `Prog.flatOf`, "two arrays holding the same limbs have the same `limbOf`", and
  `vec_znx_dft` of any array holding a vector is `vec_znx_dft` of the canonical array of its abstract value
  (any module, any carrier: `vecDft` reads its argument only through `limbOf`).
-/
import SpqProofs.Lemmas.ProgDft
namespace Spq.Prog
open Spq

variable {α : Type}

theorem mul_step_le (p p' n : Nat) (h : p < p') : p * n + n ≤ p' * n := by
  have : (p + 1) * n ≤ p' * n := Nat.mul_le_mul_right n h
  rw [Nat.add_mul, Nat.one_mul] at this
  exact this

theorem size_flatOf (nn sz : Nat) (f : Nat → Nat → Int) : (flatOf nn sz f).size = sz * nn := by simp [flatOf]

theorem getD_flatOf (nn sz : Nat) (f : Nat → Nat → Int) (i t : Nat) (hi : i < sz) (ht : t < nn) :
    (flatOf nn sz f).getD (i * nn + t) 0 = f i t := by
  have h1 : i * nn + t < sz * nn := by
    have := mul_step_le i sz nn hi
    omega
  have hN : 0 < nn := by omega
  have e1 : (i * nn + t) / nn = i := by
    rw [Nat.add_comm, Nat.add_mul_div_right _ _ hN, Nat.div_eq_of_lt ht, Nat.zero_add]
  have e2 : (i * nn + t) % nn = t := by
    rw [Nat.add_comm, Nat.add_mul_mod_self_right, Nat.mod_eq_of_lt ht]
  simp [flatOf, Array.getD_eq_getD_getElem?, h1, e1, e2]

theorem agree_flatOf (nn sz : Nat) (f : Nat → Nat → Int) : Agree nn (flatOf nn sz f) sz nn f := by
  refine ⟨fun i hi => ?_, fun i t hi ht => getD_flatOf nn sz f i t hi ht⟩
  rw [size_flatOf]
  exact mul_step_le i sz nn hi

theorem limbOf_getD_lt (x : Array Int) (i sl nn t : Nat) (ht : t < nn) :
    (Module.limbOf x i sl nn).getD t 0 = x.getD (i * sl + t) 0 := by
  unfold Module.limbOf
  simp only [Array.getD_eq_getD_getElem?, Array.getElem?_extract]
  by_cases h : i * sl + t < x.size
  · have : t < min (i * sl + nn) x.size - i * sl := by omega
    simp [this]
  · have h1 : ¬ t < min (i * sl + nn) x.size - i * sl := by omega
    have h2 : x[i * sl + t]? = none := by simp; omega
    simp [h1, h2]

theorem size_limbOf_le (x : Array Int) (i sl nn : Nat) (h : i * sl + nn ≤ x.size) :
    (Module.limbOf x i sl nn).size = nn := by
  unfold Module.limbOf
  simp; omega

/-- two arrays holding coefficient functions that agree on limb `i` have the same limb `i` -/
theorem limbOf_eq_of_agree {nn : Nat} {x x' : Array Int} {asz asl asz' asl' : Nat} {f g : Nat → Nat → Int}
    (h : Agree nn x asz asl f) (h' : Agree nn x' asz' asl' g) (i : Nat) (hi : i < asz) (hi' : i < asz')
    (hfg : ∀ t, t < nn → f i t = g i t) :
    Module.limbOf x i asl nn = Module.limbOf x' i asl' nn := by
  have s1 := size_limbOf_le x i asl nn (h.1 i hi)
  have s2 := size_limbOf_le x' i asl' nn (h'.1 i hi')
  apply Array.ext
  · rw [s1, s2]
  · intro t h1 h2
    have ht : t < nn := by rw [s1] at h1; exact h1
    have e1 := limbOf_getD_lt x i asl nn t ht
    have e2 := limbOf_getD_lt x' i asl' nn t ht
    rw [h.2 i t hi ht] at e1
    rw [h'.2 i t hi' ht, ← hfg t ht] at e2
    simp only [Array.getD_eq_getD_getElem?, Array.getElem?_eq_getElem h1] at e1
    simp only [Array.getD_eq_getD_getElem?, Array.getElem?_eq_getElem h2] at e2
    simpa using e1.trans e2.symm

theorem foldl_range_congr' {β : Type} (f f' : β → Nat → β) (n : Nat) (b : β)
    (h : ∀ i, i < n → ∀ b, f b i = f' b i) : (List.range n).foldl f b = (List.range n).foldl f' b := by
  induction n with
  | zero => rfl
  | succ n ih =>
    rw [List.range_succ, List.foldl_append, List.foldl_append, ih (fun i hi => h i (by omega))]
    exact h n (by omega) _

/-- `vec_znx_dft` depends on its integer argument only through the limbs it transforms -/
theorem vecDft_congr2 (c : Module.Parts α) (rsz : Nat) (x x' : Array Int) (asz asz' asl asl' : Nat)
    (h : ∀ i, i < rsz → (i < asz ↔ i < asz') ∧ (i < asz → Module.limbOf x i asl c.nn = Module.limbOf x' i asl' c.nn)) :
    Module.vecDft c rsz x asz asl = Module.vecDft c rsz x' asz' asl' := by
  unfold Module.vecDft
  apply foldl_range_congr'
  intro i hi acc
  obtain ⟨h1, h2⟩ := h i hi
  by_cases ha : i < asz
  · rw [if_pos ha, if_pos (h1.1 ha), h2 ha]
  · rw [if_neg ha, if_neg (fun q => ha (h1.2 q))]

/-- **raw provenance**: `vec_znx_dft` of any array holding `f` is `vec_znx_dft` of the canonical flat array of the
    abstract value `Val.mk nn rsz (zext asz f)` it is recorded with -/
theorem vecDft_raw (c : Module.Parts α) (nn : Nat) (hnn : c.nn = nn) (rsz : Nat) (x : Array Int) (asz asl : Nat)
    (f : Nat → Nat → Int) (hag : Agree nn x asz asl f) :
    Module.vecDft c rsz x asz asl =
      Module.vecDft c rsz (flatOf nn rsz fun i t => (Val.mk nn rsz (zext asz f)).coef i t) (min asz rsz) nn := by
  apply vecDft_congr2
  intro i hi
  refine ⟨⟨fun h => by omega, fun h => by omega⟩, fun ha => ?_⟩
  rw [hnn]
  exact limbOf_eq_of_agree hag (agree_flatOf nn rsz _) i ha hi
    (fun t ht => by rw [coef_mk _ _ _ _ _ hi ht, zext, if_pos ha])

end Spq.Prog
