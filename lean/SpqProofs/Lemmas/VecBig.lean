/-
  The int64 ("fft64") big-coefficient wrappers of spqlios/arithmetic/vec_znx_big.c
  (lines 101-201): a `VEC_ZNX_BIG` is reinterpreted as `int64` limbs with stride `nn` and the call
  is forwarded to the plain vec_znx function.  Each definition below is literally that forwarding
  call (a big operand has no stride argument: its stride is `nn`).

  (Model definitions; they could move to `Spq/VecZnx.lean`, they are core Lean only.)
-/
import Spq.VecZnx
namespace Spq.VecZnxBig
variable {α : Type}

/-- `fft64_vec_znx_big_add` -/
def add (o : Ops α) (nn : Nat) (h : Heap α) (res rsz a asz b bsz : Nat) : Heap α :=
  VecZnx.add o nn h res rsz nn a asz nn b bsz nn
/-- `fft64_vec_znx_big_add_small`: `a` big, `b` small -/
def addSmall (o : Ops α) (nn : Nat) (h : Heap α) (res rsz a asz b bsz bsl : Nat) : Heap α :=
  VecZnx.add o nn h res rsz nn a asz nn b bsz bsl
/-- `fft64_vec_znx_big_add_small2`: `a`, `b` small -/
def addSmall2 (o : Ops α) (nn : Nat) (h : Heap α) (res rsz a asz asl b bsz bsl : Nat) : Heap α :=
  VecZnx.add o nn h res rsz nn a asz asl b bsz bsl
/-- `fft64_vec_znx_big_sub` -/
def sub (o : Ops α) (nn : Nat) (h : Heap α) (res rsz a asz b bsz : Nat) : Heap α :=
  VecZnx.sub o nn h res rsz nn a asz nn b bsz nn
/-- `fft64_vec_znx_big_sub_small_b`: `a` big, `b` small -/
def subSmallB (o : Ops α) (nn : Nat) (h : Heap α) (res rsz a asz b bsz bsl : Nat) : Heap α :=
  VecZnx.sub o nn h res rsz nn a asz nn b bsz bsl
/-- `fft64_vec_znx_big_sub_small_a`: `a` small, `b` big -/
def subSmallA (o : Ops α) (nn : Nat) (h : Heap α) (res rsz a asz asl b bsz : Nat) : Heap α :=
  VecZnx.sub o nn h res rsz nn a asz asl b bsz nn
/-- `fft64_vec_znx_big_sub_small2`: `a`, `b` small -/
def subSmall2 (o : Ops α) (nn : Nat) (h : Heap α) (res rsz a asz asl b bsz bsl : Nat) : Heap α :=
  VecZnx.sub o nn h res rsz nn a asz asl b bsz bsl
/-- `fft64_vec_znx_big_rotate` -/
def rotate (o : Ops α) (nn : Nat) (p : Int) (h : Heap α) (res rsz a asz : Nat) : Heap α :=
  VecZnx.rotate o nn p h res rsz nn a asz nn
/-- `fft64_vec_znx_big_automorphism` -/
def automorphism (o : Ops α) (nn : Nat) (p : Int) (h : Heap α) (res rsz a asz : Nat) : Heap α :=
  VecZnx.automorphism o nn p h res rsz nn a asz nn

end Spq.VecZnxBig
