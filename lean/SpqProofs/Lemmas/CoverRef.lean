/-
  The reference butterflies `cplx_twiddle_fft_ref` / `cplx_bitwiddle_fft_ref` in exact arithmetic.
-/
import SpqProofs.Lemmas.CoverCplx
namespace Spq
namespace Cover
open Reim4
variable {α : Type}

/-! ### operations that touch, and depend on, a set of cells only -/

structure LocalOp (z : α) (f : Array α → Array α) (foot : Nat → Prop) : Prop where
  size : ∀ r, (f r).size = r.size
  frame : ∀ r x, ¬ foot x → (f r).getD x z = r.getD x z
  loc : ∀ r r', r.size = r'.size → (∀ x, foot x → r.getD x z = r'.getD x z) →
    ∀ x, foot x → (f r).getD x z = (f r').getD x z

theorem LocalOp.comp {z : α} {f g : Array α → Array α} {F G : Nat → Prop}
    (hf : LocalOp z f F) (hg : LocalOp z g G) : LocalOp z (fun r => g (f r)) (fun x => F x ∨ G x) where
  size := fun r => by rw [hg.size, hf.size]
  frame := fun r x hx => by
    rw [hg.frame _ x (fun h => hx (Or.inr h)), hf.frame _ x (fun h => hx (Or.inl h))]
  loc := fun r r' hs h x _ => by
    have hfs : (f r).size = (f r').size := by rw [hf.size, hf.size, hs]
    have hagree : ∀ y, G y → (f r).getD y z = (f r').getD y z := by
      intro y hy
      by_cases hFy : F y
      · exact hf.loc r r' hs (fun w hw => h w (Or.inl hw)) y hFy
      · rw [hf.frame r y hFy, hf.frame r' y hFy]; exact h y (Or.inr hy)
    by_cases hG : G x
    · exact hg.loc _ _ hfs hagree x hG
    · rw [hg.frame _ x hG, hg.frame _ x hG]
      by_cases hFx : F x
      · exact hf.loc r r' hs (fun w hw => h w (Or.inl hw)) x hFx
      · rw [hf.frame r x hFx, hf.frame r' x hFx]; exact h x (Or.inl (by tauto))

/-- a loop of local operations with pairwise disjoint footprints -/
theorem fold_local (z : α) (n : Nat) (body : Nat → Array α → Array α) (foot : Nat → Nat → Prop)
    (hl : ∀ j, LocalOp z (body j) (foot j)) (r0 : Array α)
    (hdisj : ∀ j j' x, j < n → j' < n → j ≠ j' → foot j x → ¬ foot j' x) :
    (Nat.fold n (fun j _ r => body j r) r0).size = r0.size ∧
    (∀ j, j < n → ∀ x, foot j x → (Nat.fold n (fun j _ r => body j r) r0).getD x z = (body j r0).getD x z) ∧
    (∀ x, (∀ j, j < n → ¬ foot j x) → (Nat.fold n (fun j _ r => body j r) r0).getD x z = r0.getD x z) :=
  fold_disjoint z n body foot (fun j r => (hl j).size r) r0
    (fun j _ r x _ hx => (hl j).frame r x hx)
    (fun j _ r r' hs hs' h x hx => (hl j).loc r r' (by rw [hs, hs']) h x hx)
    hdisj

/-! ### one butterfly -/

theorem butterfly_size (ar : RArith α) (T : α → α → α × α) (d : Array α) (ia ib : Nat) :
    (butterfly ar T d ia ib).size = d.size := by
  simp [butterfly]

theorem butterfly_getD (ar : RArith α) (T : α → α → α × α) (d : Array α) (ia ib x : Nat) :
    (butterfly ar T d ia ib).getD x ar.zero =
      if ia + 1 = x ∧ x < d.size then ar.add (d.getD (ia + 1) ar.zero) (T (d.getD ib ar.zero) (d.getD (ib + 1) ar.zero)).2
      else if ia = x ∧ x < d.size then ar.add (d.getD ia ar.zero) (T (d.getD ib ar.zero) (d.getD (ib + 1) ar.zero)).1
      else if ib + 1 = x ∧ x < d.size then ar.sub (d.getD (ia + 1) ar.zero) (T (d.getD ib ar.zero) (d.getD (ib + 1) ar.zero)).2
      else if ib = x ∧ x < d.size then ar.sub (d.getD ia ar.zero) (T (d.getD ib ar.zero) (d.getD (ib + 1) ar.zero)).1
      else d.getD x ar.zero := by
  simp only [butterfly, getD_setIfInBounds, Array.size_setIfInBounds]

theorem butterfly_local (ar : RArith α) (T : α → α → α × α) (ia ib : Nat) :
    LocalOp ar.zero (fun d => butterfly ar T d ia ib) (fun x => x = ia ∨ x = ia + 1 ∨ x = ib ∨ x = ib + 1) where
  size := fun r => butterfly_size ar T r ia ib
  frame := fun r x hx => by
    rw [butterfly_getD]
    have h1 : ¬ (ia + 1 = x ∧ x < r.size) := by intro h; exact hx (Or.inr (Or.inl h.1.symm))
    have h2 : ¬ (ia = x ∧ x < r.size) := by intro h; exact hx (Or.inl h.1.symm)
    have h3 : ¬ (ib + 1 = x ∧ x < r.size) := by intro h; exact hx (Or.inr (Or.inr (Or.inr h.1.symm)))
    have h4 : ¬ (ib = x ∧ x < r.size) := by intro h; exact hx (Or.inr (Or.inr (Or.inl h.1.symm)))
    rw [if_neg h1, if_neg h2, if_neg h3, if_neg h4]
  loc := fun r r' hs h x hx => by
    rw [butterfly_getD, butterfly_getD, hs, h ia (Or.inl rfl), h (ia + 1) (Or.inr (Or.inl rfl)),
      h ib (Or.inr (Or.inr (Or.inl rfl))), h (ib + 1) (Or.inr (Or.inr (Or.inr rfl))), h x hx]

/-- the four written cells of one butterfly whose two complexes are distinct and in bounds -/
theorem butterfly_vals (ar : RArith α) (T : α → α → α × α) (d : Array α) (ia ib : Nat)
    (hne : ia + 2 ≤ ib ∨ ib + 2 ≤ ia) (ha : ia + 2 ≤ d.size) (hb : ib + 2 ≤ d.size) :
    let t := T (d.getD ib ar.zero) (d.getD (ib + 1) ar.zero)
    (butterfly ar T d ia ib).getD ia ar.zero = ar.add (d.getD ia ar.zero) t.1 ∧
    (butterfly ar T d ia ib).getD (ia + 1) ar.zero = ar.add (d.getD (ia + 1) ar.zero) t.2 ∧
    (butterfly ar T d ia ib).getD ib ar.zero = ar.sub (d.getD ia ar.zero) t.1 ∧
    (butterfly ar T d ia ib).getD (ib + 1) ar.zero = ar.sub (d.getD (ia + 1) ar.zero) t.2 := by
  intro t
  refine ⟨?_, ?_, ?_, ?_⟩
  · rw [butterfly_getD]
    have h1 : ¬ (ia + 1 = ia ∧ ia < d.size) := by omega
    have h2 : ia = ia ∧ ia < d.size := by omega
    rw [if_neg h1, if_pos h2]
  · rw [butterfly_getD]
    have h1 : ia + 1 = ia + 1 ∧ ia + 1 < d.size := by omega
    rw [if_pos h1]
  · rw [butterfly_getD]
    have h1 : ¬ (ia + 1 = ib ∧ ib < d.size) := by omega
    have h2 : ¬ (ia = ib ∧ ib < d.size) := by omega
    have h3 : ¬ (ib + 1 = ib ∧ ib < d.size) := by omega
    have h4 : ib = ib ∧ ib < d.size := by omega
    rw [if_neg h1, if_neg h2, if_neg h3, if_pos h4]
  · rw [butterfly_getD]
    have h1 : ¬ (ia + 1 = ib + 1 ∧ ib + 1 < d.size) := by omega
    have h2 : ¬ (ia = ib + 1 ∧ ib + 1 < d.size) := by omega
    have h3 : ib + 1 = ib + 1 ∧ ib + 1 < d.size := by omega
    rw [if_neg h1, if_neg h2, if_pos h3]

/-! ### a pass of `h` butterflies `(oa+i, ob+i)` (complex indices) -/

attribute [local irreducible] butterfly

theorem level1_spec (ar : RArith α) (T : α → α → α × α) (h oa ob : Nat) (d : Array α)
    (hsep : oa + h ≤ ob ∨ ob + h ≤ oa) (ha : 2 * (oa + h) ≤ d.size) (hb : 2 * (ob + h) ≤ d.size) :
    let res := Nat.fold h (fun i _ d => butterfly ar T d (2 * (oa + i)) (2 * (ob + i))) d
    res.size = d.size ∧
    (∀ i, i < h →
      let t := T (d.getD (2 * (ob + i)) ar.zero) (d.getD (2 * (ob + i) + 1) ar.zero)
      res.getD (2 * (oa + i)) ar.zero = ar.add (d.getD (2 * (oa + i)) ar.zero) t.1 ∧
      res.getD (2 * (oa + i) + 1) ar.zero = ar.add (d.getD (2 * (oa + i) + 1) ar.zero) t.2 ∧
      res.getD (2 * (ob + i)) ar.zero = ar.sub (d.getD (2 * (oa + i)) ar.zero) t.1 ∧
      res.getD (2 * (ob + i) + 1) ar.zero = ar.sub (d.getD (2 * (oa + i) + 1) ar.zero) t.2) ∧
    (∀ x, ¬ (2 * oa ≤ x ∧ x < 2 * (oa + h)) → ¬ (2 * ob ≤ x ∧ x < 2 * (ob + h)) → res.getD x ar.zero = d.getD x ar.zero) := by
  intro res
  obtain ⟨s1, s2, s3⟩ := fold_local ar.zero h (fun i d => butterfly ar T d (2 * (oa + i)) (2 * (ob + i)))
    (fun i x => x = 2 * (oa + i) ∨ x = 2 * (oa + i) + 1 ∨ x = 2 * (ob + i) ∨ x = 2 * (ob + i) + 1)
    (fun i => butterfly_local ar T (2 * (oa + i)) (2 * (ob + i))) d
    (by intro j j' x _ _ _ hx hx'; omega)
  refine ⟨s1, ?_, ?_⟩
  · intro i hi t
    obtain ⟨v1, v2, v3, v4⟩ := butterfly_vals ar T d (2 * (oa + i)) (2 * (ob + i)) (by omega) (by omega) (by omega)
    refine ⟨?_, ?_, ?_, ?_⟩
    · rw [← v1]; exact s2 i hi _ (Or.inl rfl)
    · rw [← v2]; exact s2 i hi _ (Or.inr (Or.inl rfl))
    · rw [← v3]; exact s2 i hi _ (Or.inr (Or.inr (Or.inl rfl)))
    · rw [← v4]; exact s2 i hi _ (Or.inr (Or.inr (Or.inr rfl)))
  · intro x h1 h2
    apply s3
    intro j hj hc
    omega

/-- a pass of `h` pairs of butterflies `(oa+i, ob+i)` with `T1`, then `(oc+i, od+i)` with `T2` -/
theorem level2_spec (ar : RArith α) (T1 T2 : α → α → α × α) (h oa ob oc od : Nat) (d : Array α)
    (hab : oa + h ≤ ob ∨ ob + h ≤ oa) (hac : oa + h ≤ oc ∨ oc + h ≤ oa) (had : oa + h ≤ od ∨ od + h ≤ oa)
    (hbc : ob + h ≤ oc ∨ oc + h ≤ ob) (hbd : ob + h ≤ od ∨ od + h ≤ ob) (hcd : oc + h ≤ od ∨ od + h ≤ oc)
    (ha : 2 * (oa + h) ≤ d.size) (hb : 2 * (ob + h) ≤ d.size) (hc : 2 * (oc + h) ≤ d.size) (hd : 2 * (od + h) ≤ d.size) :
    let res := Nat.fold h (fun i _ d =>
      butterfly ar T2 (butterfly ar T1 d (2 * (oa + i)) (2 * (ob + i))) (2 * (oc + i)) (2 * (od + i))) d
    res.size = d.size ∧
    (∀ i, i < h →
      let t := T1 (d.getD (2 * (ob + i)) ar.zero) (d.getD (2 * (ob + i) + 1) ar.zero)
      let u := T2 (d.getD (2 * (od + i)) ar.zero) (d.getD (2 * (od + i) + 1) ar.zero)
      (res.getD (2 * (oa + i)) ar.zero = ar.add (d.getD (2 * (oa + i)) ar.zero) t.1 ∧
       res.getD (2 * (oa + i) + 1) ar.zero = ar.add (d.getD (2 * (oa + i) + 1) ar.zero) t.2 ∧
       res.getD (2 * (ob + i)) ar.zero = ar.sub (d.getD (2 * (oa + i)) ar.zero) t.1 ∧
       res.getD (2 * (ob + i) + 1) ar.zero = ar.sub (d.getD (2 * (oa + i) + 1) ar.zero) t.2) ∧
      (res.getD (2 * (oc + i)) ar.zero = ar.add (d.getD (2 * (oc + i)) ar.zero) u.1 ∧
       res.getD (2 * (oc + i) + 1) ar.zero = ar.add (d.getD (2 * (oc + i) + 1) ar.zero) u.2 ∧
       res.getD (2 * (od + i)) ar.zero = ar.sub (d.getD (2 * (oc + i)) ar.zero) u.1 ∧
       res.getD (2 * (od + i) + 1) ar.zero = ar.sub (d.getD (2 * (oc + i) + 1) ar.zero) u.2)) ∧
    (∀ x, ¬ (2 * oa ≤ x ∧ x < 2 * (oa + h)) → ¬ (2 * ob ≤ x ∧ x < 2 * (ob + h)) →
      ¬ (2 * oc ≤ x ∧ x < 2 * (oc + h)) → ¬ (2 * od ≤ x ∧ x < 2 * (od + h)) → res.getD x ar.zero = d.getD x ar.zero) := by
  intro res
  obtain ⟨s1, s2, s3⟩ := fold_local ar.zero h
    (fun i d => butterfly ar T2 (butterfly ar T1 d (2 * (oa + i)) (2 * (ob + i))) (2 * (oc + i)) (2 * (od + i)))
    (fun i x => (x = 2 * (oa + i) ∨ x = 2 * (oa + i) + 1 ∨ x = 2 * (ob + i) ∨ x = 2 * (ob + i) + 1) ∨
      (x = 2 * (oc + i) ∨ x = 2 * (oc + i) + 1 ∨ x = 2 * (od + i) ∨ x = 2 * (od + i) + 1))
    (fun i => (butterfly_local ar T1 (2 * (oa + i)) (2 * (ob + i))).comp (butterfly_local ar T2 (2 * (oc + i)) (2 * (od + i)))) d
    (by intro j j' x _ _ _ hx hx'; omega)
  refine ⟨s1, ?_, ?_⟩
  · intro i hi t u
    -- the inner butterfly leaves the cells of the outer one alone, and vice versa
    have inner := butterfly_local ar T1 (2 * (oa + i)) (2 * (ob + i))
    have outer := butterfly_local ar T2 (2 * (oc + i)) (2 * (od + i))
    obtain ⟨v1, v2, v3, v4⟩ := butterfly_vals ar T1 d (2 * (oa + i)) (2 * (ob + i)) (by omega) (by omega) (by omega)
    have hsz : (butterfly ar T1 d (2 * (oa + i)) (2 * (ob + i))).size = d.size := butterfly_size ar T1 d _ _
    obtain ⟨w1, w2, w3, w4⟩ := butterfly_vals ar T2 (butterfly ar T1 d (2 * (oa + i)) (2 * (ob + i)))
      (2 * (oc + i)) (2 * (od + i)) (by omega) (by rw [hsz]; omega) (by rw [hsz]; omega)
    have fr : ∀ x, ¬ (x = 2 * (oa + i) ∨ x = 2 * (oa + i) + 1 ∨ x = 2 * (ob + i) ∨ x = 2 * (ob + i) + 1) →
        (butterfly ar T1 d (2 * (oa + i)) (2 * (ob + i))).getD x ar.zero = d.getD x ar.zero := fun x hx => inner.frame d x hx
    have fo : ∀ (r : Array α) x, ¬ (x = 2 * (oc + i) ∨ x = 2 * (oc + i) + 1 ∨ x = 2 * (od + i) ∨ x = 2 * (od + i) + 1) →
        (butterfly ar T2 r (2 * (oc + i)) (2 * (od + i))).getD x ar.zero = r.getD x ar.zero := fun r x hx => outer.frame r x hx
    have f1 := fr (2 * (oc + i)) (by omega)
    have f2 := fr (2 * (oc + i) + 1) (by omega)
    have f3 := fr (2 * (od + i)) (by omega)
    have f4 := fr (2 * (od + i) + 1) (by omega)
    rw [f1, f3, f4] at w1 w3
    rw [f2, f3, f4] at w2 w4
    refine ⟨⟨?_, ?_, ?_, ?_⟩, ⟨?_, ?_, ?_, ?_⟩⟩
    · rw [s2 i hi _ (Or.inl (Or.inl rfl)), fo _ _ (by omega), v1]
    · rw [s2 i hi _ (Or.inl (Or.inr (Or.inl rfl))), fo _ _ (by omega), v2]
    · rw [s2 i hi _ (Or.inl (Or.inr (Or.inr (Or.inl rfl)))), fo _ _ (by omega), v3]
    · rw [s2 i hi _ (Or.inl (Or.inr (Or.inr (Or.inr rfl)))), fo _ _ (by omega), v4]
    · rw [s2 i hi _ (Or.inr (Or.inl rfl)), w1]
    · rw [s2 i hi _ (Or.inr (Or.inr (Or.inl rfl))), w2]
    · rw [s2 i hi _ (Or.inr (Or.inr (Or.inr (Or.inl rfl)))), w3]
    · rw [s2 i hi _ (Or.inr (Or.inr (Or.inr (Or.inr rfl)))), w4]
  · intro x h1 h2 h3 h4
    apply s3
    intro j hj hc
    omega

/-! ### the two reference passes over a commutative ring -/

section ring
variable {R : Type} [CommRing R]

theorem cplxTwiddleFftRef_spec (h : Nat) (data om : Array R) (hs : 4 * h ≤ data.size) :
    (cplxTwiddleFftRef (RArith.ofRing R) h data om).size = data.size ∧
    (∀ i, i < h →
      cxAt (cplxTwiddleFftRef (RArith.ofRing R) h data om) (2 * i) =
        cxAt data (2 * i) + cxAt om 0 * cxAt data (2 * (h + i)) ∧
      cxAt (cplxTwiddleFftRef (RArith.ofRing R) h data om) (2 * (h + i)) =
        cxAt data (2 * i) - cxAt om 0 * cxAt data (2 * (h + i))) ∧
    (∀ x, 4 * h ≤ x → (cplxTwiddleFftRef (RArith.ofRing R) h data om).getD x 0 = data.getD x 0) := by
  have L := level1_spec (RArith.ofRing R) (ctT (RArith.ofRing R) (om.getD 0 0) (om.getD 1 0)) h 0 h data
    (by omega) (by omega) (by omega)
  simp only [Nat.zero_add, ofRing_zero] at L
  obtain ⟨s1, s2, s3⟩ := L
  unfold cplxTwiddleFftRef
  simp only [ofRing_zero]
  refine ⟨s1, ?_, fun x hx => s3 x (by omega) (by omega)⟩
  intro i hi
  obtain ⟨v1, v2, v3, v4⟩ := s2 i hi
  constructor
  · ext
    · simp only [cxAt_re, Cx.add_re, Cx.mul_re, cxAt_im]; rw [v1]; rfl
    · simp only [cxAt_re, Cx.add_im, Cx.mul_im, cxAt_im]; rw [v2]; rfl
  · ext
    · simp only [cxAt_re, Cx.sub_re, Cx.mul_re, cxAt_im]; rw [v3]; rfl
    · simp only [cxAt_re, Cx.sub_im, Cx.mul_im, cxAt_im]; rw [v4]; rfl

/-- the radix-4 step of the reference code on one column: twiddles `w0` (first level), `w1` and `i·w1` (second) -/
def bitwRefCx (w0 w1 A B C D : Cx R) : Cx R × Cx R × Cx R × Cx R :=
  let A1 := A + w0 * C
  let C1 := A - w0 * C
  let B1 := B + w0 * D
  let D1 := B - w0 * D
  (A1 + w1 * B1, A1 - w1 * B1, C1 + Cx.mulI w1 * D1, C1 - Cx.mulI w1 * D1)

theorem cplxBitwiddleFftRef_spec (h : Nat) (data om : Array R) (hs : 8 * h ≤ data.size) :
    (cplxBitwiddleFftRef (CArith.ofRing R) h data om).size = data.size ∧
    (∀ i, i < h →
      let q := bitwRefCx (cxAt om 0) (cxAt om 2) (cxAt data (2 * i)) (cxAt data (2 * (h + i)))
        (cxAt data (2 * (2 * h + i))) (cxAt data (2 * (3 * h + i)))
      cxAt (cplxBitwiddleFftRef (CArith.ofRing R) h data om) (2 * i) = q.1 ∧
      cxAt (cplxBitwiddleFftRef (CArith.ofRing R) h data om) (2 * (h + i)) = q.2.1 ∧
      cxAt (cplxBitwiddleFftRef (CArith.ofRing R) h data om) (2 * (2 * h + i)) = q.2.2.1 ∧
      cxAt (cplxBitwiddleFftRef (CArith.ofRing R) h data om) (2 * (3 * h + i)) = q.2.2.2) ∧
    (∀ x, 8 * h ≤ x → (cplxBitwiddleFftRef (CArith.ofRing R) h data om).getD x 0 = data.getD x 0) := by
  have L1 := level2_spec (RArith.ofRing R) (ctT (RArith.ofRing R) (om.getD 0 0) (om.getD 1 0))
    (ctT (RArith.ofRing R) (om.getD 0 0) (om.getD 1 0)) h 0 (2 * h) h (3 * h) data
    (by omega) (by omega) (by omega) (by omega) (by omega) (by omega) (by omega) (by omega) (by omega) (by omega)
  simp only [Nat.zero_add, ofRing_zero] at L1
  obtain ⟨a1, a2, a3⟩ := L1
  generalize hl1 : Nat.fold h (fun i _ d =>
      butterfly (RArith.ofRing R) (ctT (RArith.ofRing R) (om.getD 0 0) (om.getD 1 0))
        (butterfly (RArith.ofRing R) (ctT (RArith.ofRing R) (om.getD 0 0) (om.getD 1 0)) d (2 * i) (2 * (2 * h + i)))
        (2 * (h + i)) (2 * (3 * h + i))) data = l1 at a1 a2 a3
  have L2 := level2_spec (RArith.ofRing R) (ctT (RArith.ofRing R) (om.getD 2 0) (om.getD 3 0))
    (citT (CArith.ofRing R) (om.getD 2 0) (om.getD 3 0)) h 0 h (2 * h) (3 * h) l1
    (by omega) (by omega) (by omega) (by omega) (by omega) (by omega)
    (by rw [a1]; omega) (by rw [a1]; omega) (by rw [a1]; omega) (by rw [a1]; omega)
  simp only [Nat.zero_add, ofRing_zero] at L2
  obtain ⟨b1, b2, b3⟩ := L2
  have hres : cplxBitwiddleFftRef (CArith.ofRing R) h data om =
      Nat.fold h (fun i _ d =>
        butterfly (RArith.ofRing R) (citT (CArith.ofRing R) (om.getD 2 0) (om.getD 3 0))
          (butterfly (RArith.ofRing R) (ctT (RArith.ofRing R) (om.getD 2 0) (om.getD 3 0)) d (2 * i) (2 * (h + i)))
          (2 * (2 * h + i)) (2 * (3 * h + i))) l1 := by
    rw [← hl1]; rfl
  rw [hres]
  refine ⟨by rw [b1, a1], ?_, ?_⟩
  · intro i hi
    obtain ⟨⟨p1, p2, p3, p4⟩, ⟨p5, p6, p7, p8⟩⟩ := a2 i hi
    obtain ⟨⟨q1, q2, q3, q4⟩, ⟨q5, q6, q7, q8⟩⟩ := b2 i hi
    simp only [p1, p2, p5, p6] at q1 q2 q3 q4
    simp only [p3, p4, p7, p8] at q5 q6 q7 q8
    refine ⟨?_, ?_, ?_, ?_⟩
    · ext
      · simp only [cxAt_re]; rw [q1]; simp [bitwRefCx, ctT]
      · simp only [cxAt_im]; rw [q2]; simp [bitwRefCx, ctT]
    · ext
      · simp only [cxAt_re]; rw [q3]; simp [bitwRefCx, ctT]
      · simp only [cxAt_im]; rw [q4]; simp [bitwRefCx, ctT]
    · ext
      · simp only [cxAt_re]; rw [q5]; simp [bitwRefCx, ctT, citT]
      · simp only [cxAt_im]; rw [q6]; simp [bitwRefCx, ctT, citT]
    · ext
      · simp only [cxAt_re]; rw [q7]; simp [bitwRefCx, ctT, citT]
      · simp only [cxAt_im]; rw [q8]; simp [bitwRefCx, ctT, citT]
  · intro x hx
    rw [b3 x (by omega) (by omega) (by omega) (by omega), a3 x (by omega) (by omega) (by omega) (by omega)]

end ring

end Cover
end Spq
