/-
  C06.4, structural schedule theorem for the inverse reim transform, top level (every `k`).
-/
import SpqProofs.Lemmas.FftErrSchedInv
set_option linter.unusedSectionVars false
set_option linter.unusedSimpArgs false
namespace Spq.Fft.SchedN
open Spq.Fft Spq.Fft.Alg Spq.Fft.View Spq.Fft.Sim Spq.Fft.SimP Spq.Fft.LevelN Spq.Fft.KernN Spq.Fft.Tw

variable {R : Type} [Inhabited R] (F : Flav R) (c s : ℕ → R) (k : ℕ) (y : ℕ → R × R)

theorem ipair1_advN (f : Bf R) (wr wi : R) (N ℓ b p : ℕ) (s0 : RI R) (hs : Valid N s0) (hℓ : ℓ = k - 1 - 0)
    (hp : p = 2 * b) (hN : p + 2 ≤ N) (hq : bfV f wr wi = gNet F c s k ℓ 0 b) :
    AdvI k (gNet F c s k) y (prs s0) (prs (bf f s0 p (p + 1) wr wi)) 0 1 p 2 ∧ Valid N (bf f s0 p (p + 1) wr wi) := by
  have h1 := SimP.bf_sim N f wr wi _ _ (realP f wr wi) s0 p (p + 1) hs (by omega) (by omega) (by omega)
  rw [h1.1, G_eq_twG1]
  exact ⟨AdvI.tw k _ y _ ℓ 0 b p hℓ (by omega) _ _ (bq_of_eq f wr wi _ hq), h1.2⟩

theorem ipair2_advN (f : Bf R) (wr wi : R) (N ℓ b p p1 p2 p3 : ℕ) (s0 : RI R) (hs : Valid N s0) (hℓ : ℓ = k - 1 - 1)
    (hp : p = 4 * b) (h1 : p1 = p + 1) (h2 : p2 = p + 2) (h3 : p3 = p + 3) (hN : p + 4 ≤ N)
    (hq : bfV f wr wi = gNet F c s k ℓ 1 b) :
    AdvI k (gNet F c s k) y (prs s0) (prs (bf f (bf f s0 p p2 wr wi) p1 p3 wr wi)) 1 2 p 4 ∧
      Valid N (bf f (bf f s0 p p2 wr wi) p1 p3 wr wi) := by
  have e := SimP.bf2_sim N f f wr wi wr wi _ _ _ _ (realP f wr wi) (realP f wr wi) s0 p p2 p1 p3 hs (by omega)
    (by omega) (by omega) (by omega) (by omega) (by omega)
  rw [e.1, G_G_eq_twG2' _ _ p p1 p2 p3 h1 h2 h3]
  exact ⟨AdvI.tw k _ y _ ℓ 1 b p hℓ (by omega) _ _ (bq_of_eq f wr wi _ hq), e.2⟩

/-- `ifftRI` for `m = 2^k ≥ 32` -/
theorem ifftRI_bigN (hk : 5 ≤ k) (s0 : RI R) (hs : Valid (2 ^ k) s0) :
    AdvI k (gNet F c s k) y (prs s0)
        (prs (ifftRI F (2 ^ k) (((reimIfftEnts (2 ^ k)).map (valP c s)).toArray) s0)) 0 k 0 (2 ^ k) ∧
      Valid (2 ^ k) (ifftRI F (2 ^ k) (((reimIfftEnts (2 ^ k)).map (valP c s)).toArray) s0) := by
  have h32 : 32 ≤ 2 ^ k := by
    have : 2 ^ 5 ≤ 2 ^ k := Nat.pow_le_pow_right (by omega) hk
    simpa using this
  have hb0 : 2 ^ k * (1 + 4 * brev 0 0) = 2 ^ k := by simp [brev]
  have hE : reimIfftEnts (2 ^ k) = if 2 ^ k ≤ 2048 then riBfs (4 * 2 ^ k) (2 ^ k) (2 ^ k)
      else riRec (4 * 2 ^ k) (2 ^ k) (2 ^ k) (2 ^ k) := by
    unfold reimIfftEnts
    rw [if_neg (by omega)]
    rw [show ((2 ^ k == 2) = false) by simp; omega, show ((2 ^ k == 4) = false) by simp; omega,
      show ((2 ^ k == 8) = false) by simp; omega, show ((2 ^ k == 16) = false) by simp; omega]
    simp only [Bool.false_eq_true, ↓reduceIte]
  unfold ifftRI
  rw [if_neg (by omega)]
  rw [show ((2 ^ k == 2) = false) by simp; omega, show ((2 ^ k == 4) = false) by simp; omega,
    show ((2 ^ k == 8) = false) by simp; omega, show ((2 ^ k == 16) = false) by simp; omega]
  simp only [Bool.false_eq_true, ↓reduceIte]
  rw [hE]
  by_cases hle : 2 ^ k ≤ 2048
  · rw [if_pos hle, if_pos hle]
    have hD11 : k ≤ 11 := by
      by_contra hc
      have : 2 ^ 12 ≤ 2 ^ k := Nat.pow_le_pow_right (by omega) (by omega)
      omega
    have hseg := SegP.of_toArray ((riBfs (4 * 2 ^ k) (2 ^ k) (2 ^ k)).map (valP c s))
    have := ibfs16_specN F c s k y _ (2 ^ k) 0 k 0 0 (2 ^ k) 0 s0 (by omega) rfl hk hD11 (Or.inr rfl) (by ring)
      (by omega) hs (by rw [hb0]; exact hseg)
    exact ⟨this.1, this.2.1⟩
  · rw [if_neg hle, if_neg hle]
    have hseg := SegP.of_toArray ((riRec (4 * 2 ^ k) (2 ^ k) (2 ^ k) (2 ^ k)).map (valP c s))
    have := irec16_specN F c s k y _ (2 ^ k) (2 ^ k) k 0 0 0 (2 ^ k) 0 s0 (by omega) rfl hk (Or.inl rfl) (Nat.le_refl _)
      (by ring) (by omega) hs (by rw [hb0]; exact hseg)
    exact ⟨this.1, this.2.1⟩

theorem ifftRI_k0N (hk : k = 0) (T : Array R) (s0 : RI R) (hs : Valid (2 ^ k) s0) :
    AdvI k (gNet F c s k) y (prs s0) (prs (ifftRI F (2 ^ k) T s0)) 0 k 0 (2 ^ k) ∧ Valid (2 ^ k) (ifftRI F (2 ^ k) T s0) := by
  subst hk
  simp only [ifftRI, pow_zero, Nat.le_refl, ↓reduceIte]
  exact ⟨AdvG.id _ _ _ _, hs⟩

theorem ifftRI_k1N (hk : k = 1) (s0 : RI R) (hs : Valid (2 ^ k) s0) :
    AdvI k (gNet F c s k) y (prs s0)
        (prs (ifftRI F (2 ^ k) (((reimIfftEnts (2 ^ k)).map (valP c s)).toArray) s0)) 0 k 0 (2 ^ k) ∧
      Valid (2 ^ k) (ifftRI F (2 ^ k) (((reimIfftEnts (2 ^ k)).map (valP c s)).toArray) s0) := by
  subst hk
  have hT : ((reimIfftEnts (2 ^ 1)).map (valP c s)).toArray = #[c 1, s 1] := by
    simp [reimIfftEnts, riFill2, eM, valP]
  rw [hT]
  simp only [ifftRI, ifft2, Nat.reducePow, Nat.reduceLeDiff, ↓reduceIte, BEq.rfl, Nat.zero_add]
  have := ipair1_advN F c s 1 y F.ct2 (c 1) (s 1) 2 0 0 0 s0 hs rfl rfl (by omega)
    (by rw [gNet_ct F c s 1 0 0 0 (Or.inr rfl)]; rfl)
  exact ⟨by simpa using this.1, this.2⟩

theorem ifftRI_k2N (hk : k = 2) (s0 : RI R) (hs : Valid (2 ^ k) s0) :
    AdvI k (gNet F c s k) y (prs s0)
        (prs (ifftRI F (2 ^ k) (((reimIfftEnts (2 ^ k)).map (valP c s)).toArray) s0)) 0 k 0 (2 ^ k) ∧
      Valid (2 ^ k) (ifftRI F (2 ^ k) (((reimIfftEnts (2 ^ k)).map (valP c s)).toArray) s0) := by
  subst hk
  have hT : ((reimIfftEnts (2 ^ 2)).map (valP c s)).toArray = #[c 1, s 1, c 2, s 2] := by
    simp [reimIfftEnts, riFill4, eM, valP]
  rw [hT]
  simp only [ifftRI, ifft4, Nat.reducePow, Nat.reduceLeDiff, ↓reduceIte, Nat.zero_add, Nat.reduceBEq,
    Bool.false_eq_true, BEq.rfl]
  have s1 := ipair1_advN F c s 2 y F.ctS (c 1) (s 1) 4 1 0 0 s0 hs rfl rfl (by omega)
    (by rw [gNet_small_ct F c s 2 (by omega) (by omega) 1 0 0 (Or.inr rfl)]; rfl)
  have s2 := ipair1_advN F c s 2 y F.citS (c 1) (s 1) 4 1 1 2 _ s1.2 rfl rfl (by omega)
    (by rw [show (1 : ℕ) = 2 * 0 + 1 by rfl, gNet_small_cit F c s 2 (by omega) 1 0 0 rfl]; rfl)
  have s3 := ipair2_advN F c s 2 y F.ctS (c 2) (s 2) 4 0 0 0 1 2 3 _ s2.2 rfl rfl rfl rfl rfl (by omega)
    (by rw [gNet_small_ct F c s 2 (by omega) (by omega) 0 1 0 (Or.inr rfl)]; rfl)
  have := (s1.1.par s2.1).seq s3.1
  exact ⟨by simpa using this, s3.2⟩

theorem ifftRI_k3N (hk : k = 3) (s0 : RI R) (hs : Valid (2 ^ k) s0) :
    AdvI k (gNet F c s k) y (prs s0)
        (prs (ifftRI F (2 ^ k) (((reimIfftEnts (2 ^ k)).map (valP c s)).toArray) s0)) 0 k 0 (2 ^ k) ∧
      Valid (2 ^ k) (ifftRI F (2 ^ k) (((reimIfftEnts (2 ^ k)).map (valP c s)).toArray) s0) := by
  subst hk
  have hT : ((reimIfftEnts (2 ^ 3)).map (valP c s)).toArray = #[c 1, c 5, s 1, s 5, c 2, s 2, c 4, s 4] := by
    simp [reimIfftEnts, riFill8, eM, valP]
  rw [hT]
  obtain ⟨T, hTd⟩ : ∃ T : Array R, T = #[c 1, c 5, s 1, s 5, c 2, s 2, c 4, s 4] := ⟨_, rfl⟩
  have t0 : T[0]! = c 1 := by rw [hTd]; rfl
  have t1 : T[0 + 1]! = c 5 := by rw [hTd]; rfl
  have t2 : T[0 + 2]! = s 1 := by rw [hTd]; rfl
  have t3 : T[0 + 3]! = s 5 := by rw [hTd]; rfl
  have t4 : T[0 + 4]! = c 2 := by rw [hTd]; rfl
  have t5 : T[0 + 5]! = s 2 := by rw [hTd]; rfl
  have t6 : T[0 + 6]! = c 4 := by rw [hTd]; rfl
  have t7 : T[0 + 7]! = s 4 := by rw [hTd]; rfl
  rw [← hTd]
  simp only [ifftRI, Nat.reducePow, Nat.reduceLeDiff, ↓reduceIte, Nat.reduceBEq, Bool.false_eq_true, BEq.rfl]
  unfold ifft8
  have hs8 : Valid 8 s0 := hs
  have s1 := ipair1_advN F c s 3 y F.ctS T[0]! T[0 + 2]! 8 2 0 0 s0 hs8 rfl rfl (by omega)
    (by rw [gNet_small_ct F c s 3 (by omega) (by omega) 2 0 0 (Or.inr rfl), t0, t2]; rfl)
  have s2 := ipair1_advN F c s 3 y F.citS T[0]! T[0 + 2]! 8 2 1 (0 + 2) _ s1.2 rfl rfl (by omega)
    (by rw [show (1 : ℕ) = 2 * 0 + 1 by rfl, gNet_small_cit F c s 3 (by omega) 2 0 0 rfl, t0, t2]; rfl)
  have s3 := ipair1_advN F c s 3 y F.ctS T[0 + 1]! T[0 + 3]! 8 2 2 (0 + 4) _ s2.2 rfl rfl (by omega)
    (by rw [gNet_small_ct F c s 3 (by omega) (by omega) 2 0 2 (Or.inr rfl), t1, t3]; rfl)
  have s4 := ipair1_advN F c s 3 y F.citS T[0 + 1]! T[0 + 3]! 8 2 3 (0 + 6) _ s3.2 rfl rfl (by omega)
    (by rw [show (3 : ℕ) = 2 * 1 + 1 by rfl, gNet_small_cit F c s 3 (by omega) 2 0 1 rfl, t1, t3]; rfl)
  have s5 := ipair2_advN F c s 3 y F.ctS T[0 + 4]! T[0 + 5]! 8 1 0 0 (0 + 1) (0 + 2) (0 + 3) _ s4.2
    rfl rfl rfl rfl rfl (by omega)
    (by rw [gNet_small_ct F c s 3 (by omega) (by omega) 1 1 0 (Or.inr rfl), t4, t5]; rfl)
  have s6 := ipair2_advN F c s 3 y F.citS T[0 + 4]! T[0 + 5]! 8 1 1 (0 + 4) (0 + 5) (0 + 6) (0 + 7) _ s5.2
    rfl rfl rfl rfl rfl (by omega)
    (by rw [show (1 : ℕ) = 2 * 0 + 1 by rfl, gNet_small_cit F c s 3 (by omega) 1 1 0 rfl, t4, t5]; rfl)
  have s7 := itwPass_advN 3 (gNet F c s 3) y F.ctS 8 0 2 0 0 T[0 + 6]! T[0 + 7]! _ s6.2 rfl rfl (by omega)
    (by rw [gNet_small_ct F c s 3 (by omega) (by omega) 0 2 0 (Or.inr rfl), t6, t7]; rfl)
  have l3 := ((s1.1.par s2.1).par s3.1).par s4.1
  have l2 := s5.1.par s6.1
  exact ⟨(l3.seq l2).seq s7.1, s7.2⟩

theorem ifftRI_k4N (hk : k = 4) (s0 : RI R) (hs : Valid (2 ^ k) s0) :
    AdvI k (gNet F c s k) y (prs s0)
        (prs (ifftRI F (2 ^ k) (((reimIfftEnts (2 ^ k)).map (valP c s)).toArray) s0)) 0 k 0 (2 ^ k) ∧
      Valid (2 ^ k) (ifftRI F (2 ^ k) (((reimIfftEnts (2 ^ k)).map (valP c s)).toArray) s0) := by
  have hE : reimIfftEnts (2 ^ k) = riFill16 (4 * 2 ^ k) 16 := by rw [hk]; rfl
  rw [hE]
  have hseg := SegP.of_toArray ((riFill16 (4 * 2 ^ k) 16).map (valP c s))
  obtain ⟨T, hT⟩ : ∃ T, T = ((riFill16 (4 * 2 ^ k) 16).map (valP c s)).toArray := ⟨_, rfl⟩
  rw [← hT] at hseg ⊢
  have h16 : 2 ^ k = 16 := by rw [hk]; rfl
  rw [h16] at hs ⊢
  simp only [ifftRI, Nat.reduceLeDiff, ↓reduceIte, Nat.reduceBEq, Bool.false_eq_true, BEq.rfl]
  have := ileaf_stepN F c s k y T 0 16 0 0 0 16 s0 hs rfl (by omega) (by omega) (by simp [brev]) hseg
  exact ⟨AdvI.cast _ _ _ this.1 0 k rfl hk, this.2⟩

/-- **Structural schedule theorem, inverse** (no ring laws) -/
theorem ifftRI_struct (s0 : RI R) (hs : Valid (2 ^ k) s0) :
    (∀ p, p < 2 ^ k → prs (ifftRI F (2 ^ k) (((reimIfftEnts (2 ^ k)).map (valP c s)).toArray) s0) p
      = VNI k (gNet F c s k) (prs s0) k p) ∧
    Valid (2 ^ k) (ifftRI F (2 ^ k) (((reimIfftEnts (2 ^ k)).map (valP c s)).toArray) s0) := by
  have key : AdvI k (gNet F c s k) (prs s0) (prs s0)
        (prs (ifftRI F (2 ^ k) (((reimIfftEnts (2 ^ k)).map (valP c s)).toArray) s0)) 0 k 0 (2 ^ k) ∧
      Valid (2 ^ k) (ifftRI F (2 ^ k) (((reimIfftEnts (2 ^ k)).map (valP c s)).toArray) s0) := by
    by_cases h5 : 5 ≤ k
    · exact ifftRI_bigN F c s k _ h5 s0 hs
    have : k = 0 ∨ k = 1 ∨ k = 2 ∨ k = 3 ∨ k = 4 := by omega
    rcases this with h | h | h | h | h
    · exact ifftRI_k0N F c s k _ h _ s0 hs
    · exact ifftRI_k1N F c s k _ h s0 hs
    · exact ifftRI_k2N F c s k _ h s0 hs
    · exact ifftRI_k3N F c s k _ h s0 hs
    · exact ifftRI_k4N F c s k _ h s0 hs
  refine ⟨fun p hp => ?_, key.2⟩
  exact key.1.1 (fun q _ _ => rfl) p (Nat.zero_le _) (by omega)

end Spq.Fft.SchedN
