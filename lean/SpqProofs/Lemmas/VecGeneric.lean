/-
  Generic value / frame / bounds theorem for limb-vector operations in normal form
  `G i m = K i (limb i of a) (limb i of b) (limb i of res)`.
-/
import SpqProofs.Lemmas.VecLoop
namespace Spq.Heap
variable {α : Type}

/-- a source vector is usable: it is the output itself (same offset, same stride), or each of its
    limbs is disjoint from every output limb -/
def SrcOK (nn res rsz rsl a asz asl : Nat) : Prop :=
  (a = res ∧ asl = rsl) ∨
  ∀ i j, i < asz → j < rsz → a + i * asl + nn ≤ res + j * rsl ∨ res + j * rsl + nn ≤ a + i * asl

theorem three_phase (f1 f2 f3 : Nat → Heap α → Heap α) (s c n : Nat) (hsc : s ≤ c) (hcn : c ≤ n)
    (r : Nat → Nat) (G : Nat → Array α → Array α) (B : Nat → Nat → Bool)
    (h1 : ∀ i, i < s → StepNF (f1 i) (r i) (G i) (B i))
    (h2 : ∀ i, s ≤ i → i < c → StepNF (f2 i) (r i) (G i) (B i))
    (h3 : ∀ i, c ≤ i → i < n → StepNF (f3 i) (r i) (G i) (B i)) (h : Heap α) :
    (forLimbs c n f3 (forLimbs s c f2 (forLimbs 0 s f1 h))).mem =
      (List.range' 0 n).foldl (fun m i => writeArr m (r i) (G i m)) h.mem ∧
    (forLimbs c n f3 (forLimbs s c f2 (forLimbs 0 s f1 h))).ok =
      (h.ok && (List.range' 0 n).all (fun i => B i h.mem.size)) := by
  obtain ⟨a1, b1⟩ := forLimbs_nf 0 s f1 r G B (fun i _ hi => h1 i hi) h
  obtain ⟨a2, b2⟩ := forLimbs_nf s c f2 r G B (fun i hi hi' => h2 i hi hi') (forLimbs 0 s f1 h)
  obtain ⟨a3, b3⟩ := forLimbs_nf c n f3 r G B (fun i hi hi' => h3 i hi hi') (forLimbs s c f2 (forLimbs 0 s f1 h))
  have hsz : ∀ (l : List Nat) (m : Array α), (l.foldl (fun m i => writeArr m (r i) (G i m)) m).size = m.size := by
    intro l
    induction l with
    | nil => intro m; rfl
    | cons x xs ihx => intro m; simp only [List.foldl_cons]; rw [ihx]; simp
  have e1 : List.range' 0 n = List.range' 0 (s - 0) ++ List.range' s (c - s) ++ List.range' c (n - c) := by
    have := @List.range'_append 0 s (c - s) 1
    have h2 := @List.range'_append 0 c (n - c) 1
    simp only [Nat.one_mul, Nat.zero_add, Nat.sub_zero] at *
    rw [this, show s + (c - s) = c by omega, h2, show c + (n - c) = n by omega]
  constructor
  · rw [a3, a2, a1, e1, List.foldl_append, List.foldl_append]
  · rw [b3, b2, b1, a2, a1, e1]
    simp only [hsz, List.all_append, Bool.and_assoc]

/-- the generic theorem -/
theorem vec_generic (nn res rsz rsl a asz asl b bsz bsl : Nat) (d : α)
    (K : Nat → Array α → Array α → Array α → Array α)
    (hK : ∀ i x y z, (K i x y z).size = nn)
    (hKa : ∀ i, asz ≤ i → ∀ x x' y z, K i x y z = K i x' y z)
    (hKb : ∀ i, bsz ≤ i → ∀ x y y' z, K i x y z = K i x y' z)
    (m0 : Array α)
    (hsl : nn ≤ rsl)
    (hres : ∀ i, i < rsz → res + i * rsl + nn ≤ m0.size)
    (ha : SrcOK nn res rsz rsl a asz asl) (hb : SrcOK nn res rsz rsl b bsz bsl) :
    let G := fun i (m : Array α) => K i (readLimb ⟨m, true⟩ d (a + i * asl) nn) (readLimb ⟨m, true⟩ d (b + i * bsl) nn)
                (readLimb ⟨m, true⟩ d (res + i * rsl) nn)
    let m' := (List.range' 0 rsz).foldl (fun m i => writeArr m (res + i * rsl) (G i m)) m0
    m'.size = m0.size ∧
    (∀ i c, i < rsz → c < nn → m'[res + i * rsl + c]? = (G i m0)[c]?) ∧
    (∀ x, (∀ i, i < rsz → x < res + i * rsl ∨ res + i * rsl + nn ≤ x) → m'[x]? = m0[x]?) := by
  intro G m'
  have hmono : ∀ i j, j < i → res + j * rsl + nn ≤ res + i * rsl := by
    intro i j hji
    have : (j + 1) * rsl ≤ i * rsl := Nat.mul_le_mul_right _ hji
    have h2 : (j + 1) * rsl = j * rsl + rsl := by rw [Nat.add_mul, Nat.one_mul]
    omega
  have key := limbLoop_spec nn (fun i => res + i * rsl) G
    (fun i x => (i < asz ∧ a + i * asl ≤ x ∧ x < a + i * asl + nn) ∨
                (i < bsz ∧ b + i * bsl ≤ x ∧ x < b + i * bsl + nn) ∨
                (res + i * rsl ≤ x ∧ x < res + i * rsl + nn)) 0 rsz m0
    (fun i m => hK _ _ _ _)
    (by
      intro i _ hi m m1 hsz hagree
      show K i _ _ _ = K i _ _ _
      have e3 : readLimb ⟨m, true⟩ d (res + i * rsl) nn = readLimb ⟨m1, true⟩ d (res + i * rsl) nn :=
        readLimb_congr _ _ _ _ _ (fun x h1 h2 => hagree x (Or.inr (Or.inr ⟨h1, h2⟩)))
      rw [e3]
      have ea : K i (readLimb ⟨m, true⟩ d (a + i * asl) nn) (readLimb ⟨m, true⟩ d (b + i * bsl) nn) (readLimb ⟨m1, true⟩ d (res + i * rsl) nn)
              = K i (readLimb ⟨m1, true⟩ d (a + i * asl) nn) (readLimb ⟨m, true⟩ d (b + i * bsl) nn) (readLimb ⟨m1, true⟩ d (res + i * rsl) nn) := by
        by_cases hia : i < asz
        · rw [readLimb_congr ⟨m, true⟩ ⟨m1, true⟩ _ _ _ (fun x h1 h2 => hagree x (Or.inl ⟨hia, h1, h2⟩))]
        · exact hKa i (by omega) _ _ _ _
      rw [ea]
      by_cases hib : i < bsz
      · rw [readLimb_congr ⟨m, true⟩ ⟨m1, true⟩ _ _ _ (fun x h1 h2 => hagree x (Or.inr (Or.inl ⟨hib, h1, h2⟩)))]
      · exact hKb i (by omega) _ _ _ _)
    (by
      intro i j _ hji hi x hx
      have hm := hmono i j hji
      rcases hx with ⟨hia, h1, h2⟩ | ⟨hib, h1, h2⟩ | ⟨h1, h2⟩
      · rcases ha with ⟨rfl, rfl⟩ | hdisj
        · omega
        · have := hdisj i j hia (by omega); omega
      · rcases hb with ⟨rfl, rfl⟩ | hdisj
        · omega
        · have := hdisj i j hib (by omega); omega
      · omega)
    (by intro i j _ hji _; have := hmono i j hji; omega)
    (by intro i _ hi; exact hres i (by omega))
  obtain ⟨k1, k2, k3⟩ := key
  refine ⟨k1, ?_, ?_⟩
  · intro i c hi hc; exact k2 i c (Nat.zero_le _) (by omega) hc
  · intro x hx; exact k3 x (fun i _ hi => hx i (by omega))

end Spq.Heap
