/-
  Proof script shared by the two-source AVX kernels `znx_add_i64_avx` / `znx_sub_i64_avx` (`Properties/SrcAvx.lean`).
  Expects in the context: `nn hnn hacc mem r a b hr ha hb fuel hf`, the cell function `g` and the goal
  `run fuel fn … = .ok (fillMem mem r g nn)`.  Three cases as in the C code: `nn = 1` (scalar), `nn = 2` (one
  `__m128i`), `nn = 4q` (do-while over `__m256i`, `q` iterations, pointer locals `aa bb rr rrend`).
-/
import Gen.CSrc
import SpqProofs.Lemmas.SrcAvx
import SpqProofs.Lemmas.SrcFuel
namespace Spq.CIR

set_option hygiene false in
macro "src_avx2_proof" fn:ident : tactic =>
  `(tactic| (
    cir_enter $fn
    have e2 : (2 : Int) % 18446744073709551616 = 2 := by decide
    have e1 : (1 : Int) % 18446744073709551616 = 1 := by decide
    conv => lhs; rw [show mem = fillMem mem r g 0 from (set_fill_zero mem r g).symm]
    rcases hacc with h | h | ⟨hq, hm⟩
    ·
      subst h
      have c1 : decide (((1 : Nat) : Int) ≤ 2) = true := by decide
      have c2 : decide (((1 : Nat) : Int) = 1) = true := by decide
      cir_simp
      simp only [e2, e1, c1, c2, if_true]
      rw [show (0 : Int) = ((0 : Nat) : Int) from rfl, load_fill mem r a g 0 0 (by omega) (by omega),
        load_fill mem r b g 0 0 (by omega) (by omega)]
      simp only [R.bind_ok]
      rw [store_fill mem r g 0 _ (by omega) (by rfl)]
      rfl
    · subst h
      have c1 : decide (((2 : Nat) : Int) ≤ 2) = true := by decide
      have c2 : decide (((2 : Nat) : Int) = 1) = false := by decide
      cir_simp
      simp only [e2, e1, c1, c2, if_true, exec_vstore, evalV_vadd, evalV_vsub, evalV_vload, eval_lit, R.bind_ok]
      rw [ptrAt_param_zero _ _ 0 r 0 rfl, ptrAt_param_zero _ _ 1 a 0 rfl, ptrAt_param_zero _ _ 2 b 0 rfl]
      simp only [R.bind_ok]
      rw [loadLanes_fill mem r a g 0 2 0 (by omega) (by omega), loadLanes_fill mem r b g 0 2 0 (by omega) (by omega)]
      simp only [R.bind_ok]
      rw [zipLanes_eq _ _ _ (by simp)]
      simp only [R.bind_ok, length_zipWith_map_range, if_true]
      rw [storeLanes_fill mem r g _ 0 (by rw [length_zipWith_map_range]; omega) (fun j hj => by
        rw [length_zipWith_map_range] at hj
        rw [getD_zipWith_map_range _ _ _ _ _ hj])]
      simp only [R.bind_ok, length_zipWith_map_range]
      rfl
    · obtain ⟨q, rfl⟩ : ∃ q, nn = 4 * q := ⟨nn / 4, by omega⟩
      have c1 : decide (((4 * q : Nat) : Int) ≤ 2) = false := decide_eq_false (by omega)
      have pp0 : ∀ env, ptrAt [some (r, 0), some (a, 0), some (b, 0)] env (.param 0) 0 = .ok (some (r, 0)) :=
        fun env => ptrAt_param_zero _ env 0 r 0 rfl
      have pp1 : ∀ env, ptrAt [some (r, 0), some (a, 0), some (b, 0)] env (.param 1) 0 = .ok (some (a, 0)) :=
        fun env => ptrAt_param_zero _ env 1 a 0 rfl
      have pp2 : ∀ env, ptrAt [some (r, 0), some (a, 0), some (b, 0)] env (.param 2) 0 = .ok (some (b, 0)) :=
        fun env => ptrAt_param_zero _ env 2 b 0 rfl
      have pp3 : ∀ env, ptrAt [some (r, 0), some (a, 0), some (b, 0)] env (.param 0) ((4 * q : Nat) : Int)
          = .ok (some (r, 0 + 4 * q)) := fun env => ptrAt_param _ env 0 r 0 (4 * q) rfl
      repeat (first
        | cir_simp
        | simp only [e2, e1, c1, pp0, pp1, pp2, pp3, encPtr_some, Bool.false_eq_true, if_false, Nat.zero_add])
      let S : Nat → State := fun k =>
        ⟨[((4 * q : Nat) : Int), (a : Int), ((4 * k : Nat) : Int), (b : Int), ((4 * k : Nat) : Int), (r : Int),
          ((4 * k : Nat) : Int), (r : Int), ((4 * q : Nat) : Int)], fillMem mem r g (4 * k)⟩
      refine (congrArg memOf (doWhile_sim [some (r, 0), some (a, 0), some (b, 0)] _ _ S (fun k => k + 1)
        (fun k => decide (q ≤ k)) (fun m k => k + m = q) (fun m k h _ => by omega) ?hbody ?hcond q 0 fuel (by omega)
        (termA_count q q 0 (by omega) (by omega)) (by omega))).trans ?fin
      case hbody =>
        intro m k f hG
        change exec _ _ f ⟨[((4 * q : Nat) : Int), (a : Int), ((4 * k : Nat) : Int), (b : Int), ((4 * k : Nat) : Int),
          (r : Int), ((4 * k : Nat) : Int), (r : Int), ((4 * q : Nat) : Int)], fillMem mem r g (4 * k)⟩ = _
        cir_simp
        simp only [exec_vstore, evalV_vadd, evalV_vsub, evalV_vload, eval_lit, R.bind_ok]
        rw [ptrAt_pvar _ _ 5 r (4 * k) rfl rfl, ptrAt_pvar _ _ 1 a (4 * k) rfl rfl, ptrAt_pvar _ _ 3 b (4 * k) rfl rfl]
        simp only [R.bind_ok]
        rw [loadLanes_shift _ a (4 * k) 4 0, loadLanes_shift _ b (4 * k) 4 0, loadLanes_fill mem r a g (4 * k) 4 (4 * k + 0) (by omega) (by omega),
          loadLanes_fill mem r b g (4 * k) 4 (4 * k + 0) (by omega) (by omega)]
        simp only [R.bind_ok]
        rw [zipLanes_eq _ _ _ (by simp)]
        simp only [R.bind_ok, length_zipWith_map_range, if_true]
        rw [storeLanes_shift r (4 * k), Nat.add_zero, storeLanes_fill mem r g _ (4 * k)
          (by rw [length_zipWith_map_range]; omega) (fun j hj => by
            rw [length_zipWith_map_range] at hj
            rw [getD_zipWith_map_range _ _ _ _ _ hj])]
        simp only [R.bind_ok, length_zipWith_map_range]
        -- the three `++ptr` in any order
        repeat (first
          | cir_simp
          | simp only [R.bind_ok, encPtr_some]
          | rw [ptrAt_pvar_off _ _ 5 r (4 * k) 4 _ (by rfl) rfl rfl]
          | rw [ptrAt_pvar_off _ _ 1 a (4 * k) 4 _ (by rfl) rfl rfl]
          | rw [ptrAt_pvar_off _ _ 3 b (4 * k) 4 _ (by rfl) rfl rfl])
        rfl
      case hcond =>
        intro k
        change evalB _ _ ⟨[((4 * q : Nat) : Int), (a : Int), ((4 * k : Nat) : Int), (b : Int), ((4 * k : Nat) : Int),
          (r : Int), ((4 * k : Nat) : Int), (r : Int), ((4 * q : Nat) : Int)], fillMem mem r g (4 * k)⟩ = _
        cir_simp
        simp only [eval_ptrLt, eval_lit, R.bind_ok]
        rw [ptrAt_pvar _ _ 5 r (4 * k) rfl rfl, ptrAt_pvar _ _ 7 r (4 * q) rfl rfl]
        simp only [R.bind_ok, ptrLtVal_same, decide_b2i_ne_zero]
        congr 1
        by_cases h : q ≤ k
        · rw [decide_eq_true h, decide_eq_false (by omega)]; rfl
        · rw [decide_eq_false h, decide_eq_true (by omega)]; rfl
      case fin =>
        rw [walkA_count q q 0 (by omega) (by omega)]
        rfl))

/- `znx_negate_i64_avx`: `0 - a` as `_mm256_sub_epi64(_mm256_set1_epi64x(0), a)`; pointer locals `aa rr rrend` -/
set_option hygiene false in
macro "src_avx1_proof" fn:ident : tactic =>
  `(tactic| (
    cir_enter $fn
    have e2 : (2 : Int) % 18446744073709551616 = 2 := by decide
    have e1 : (1 : Int) % 18446744073709551616 = 1 := by decide
    conv => lhs; rw [show mem = fillMem mem r g 0 from (set_fill_zero mem r g).symm]
    rcases hacc with h | h | ⟨hq, hm⟩
    · subst h
      have c1 : decide (((1 : Nat) : Int) ≤ 2) = true := by decide
      have c2 : decide (((1 : Nat) : Int) = 1) = true := by decide
      cir_simp
      simp only [e2, e1, c1, c2, if_true]
      rw [show (0 : Int) = ((0 : Nat) : Int) from rfl, load_fill mem r a g 0 0 (by omega) (by omega)]
      simp only [R.bind_ok]
      rw [store_fill mem r g 0 _ (by omega) (by rfl)]
      rfl
    · subst h
      have c1 : decide (((2 : Nat) : Int) ≤ 2) = true := by decide
      have c2 : decide (((2 : Nat) : Int) = 1) = false := by decide
      cir_simp
      simp only [e2, e1, c1, c2, if_true, exec_vstore, evalV_vsub, evalV_vset1, evalV_vload, eval_lit, eval_cast, R.bind_ok]
      rw [ptrAt_param_zero _ _ 0 r 0 rfl, ptrAt_param_zero _ _ 1 a 0 rfl]
      simp only [R.bind_ok]
      rw [loadLanes_fill mem r a g 0 2 0 (by omega) (by omega)]
      simp only [R.bind_ok]
      rw [zipLanes_eq _ _ _ (by simp)]
      simp only [R.bind_ok, length_zipWith_replicate_map_range, if_true, Bool.false_eq_true, if_false]
      rw [storeLanes_fill mem r g _ 0 (by rw [length_zipWith_replicate_map_range]; omega) (fun j hj => by
        rw [length_zipWith_replicate_map_range] at hj
        rw [getD_zipWith_replicate_map_range _ _ _ _ _ hj, wrapS_wrap_zero, subS_zero_left])]
      simp only [R.bind_ok, length_zipWith_replicate_map_range]
      rfl
    · obtain ⟨q, rfl⟩ : ∃ q, nn = 4 * q := ⟨nn / 4, by omega⟩
      have c1 : decide (((4 * q : Nat) : Int) ≤ 2) = false := decide_eq_false (by omega)
      have pp0 : ∀ env, ptrAt [some (r, 0), some (a, 0)] env (.param 0) 0 = .ok (some (r, 0)) :=
        fun env => ptrAt_param_zero _ env 0 r 0 rfl
      have pp1 : ∀ env, ptrAt [some (r, 0), some (a, 0)] env (.param 1) 0 = .ok (some (a, 0)) :=
        fun env => ptrAt_param_zero _ env 1 a 0 rfl
      have pp3 : ∀ env, ptrAt [some (r, 0), some (a, 0)] env (.param 0) ((4 * q : Nat) : Int)
          = .ok (some (r, 0 + 4 * q)) := fun env => ptrAt_param _ env 0 r 0 (4 * q) rfl
      repeat (first
        | cir_simp
        | simp only [e2, e1, c1, pp0, pp1, pp3, encPtr_some, Bool.false_eq_true, if_false, Nat.zero_add])
      let S : Nat → State := fun k =>
        ⟨[((4 * q : Nat) : Int), (a : Int), ((4 * k : Nat) : Int), (r : Int),
          ((4 * k : Nat) : Int), (r : Int), ((4 * q : Nat) : Int)], fillMem mem r g (4 * k)⟩
      refine (congrArg memOf (doWhile_sim [some (r, 0), some (a, 0)] _ _ S (fun k => k + 1)
        (fun k => decide (q ≤ k)) (fun m k => k + m = q) (fun m k h _ => by omega) ?hbody ?hcond q 0 fuel (by omega)
        (termA_count q q 0 (by omega) (by omega)) (by omega))).trans ?fin
      case hbody =>
        intro m k f hG
        change exec _ _ f ⟨[((4 * q : Nat) : Int), (a : Int), ((4 * k : Nat) : Int),
          (r : Int), ((4 * k : Nat) : Int), (r : Int), ((4 * q : Nat) : Int)], fillMem mem r g (4 * k)⟩ = _
        cir_simp
        simp only [exec_vstore, evalV_vsub, evalV_vset1, evalV_vload, eval_lit, eval_cast, R.bind_ok]
        rw [ptrAt_pvar _ _ 3 r (4 * k) rfl rfl, ptrAt_pvar _ _ 1 a (4 * k) rfl rfl]
        simp only [R.bind_ok]
        rw [loadLanes_shift _ a (4 * k) 4 0, loadLanes_fill mem r a g (4 * k) 4 (4 * k + 0) (by omega) (by omega)]
        simp only [R.bind_ok]
        rw [zipLanes_eq _ _ _ (by simp)]
        simp only [R.bind_ok, length_zipWith_replicate_map_range, if_true]
        rw [storeLanes_shift r (4 * k), Nat.add_zero, storeLanes_fill mem r g _ (4 * k)
          (by rw [length_zipWith_replicate_map_range]; omega) (fun j hj => by
            rw [length_zipWith_replicate_map_range] at hj
            rw [getD_zipWith_replicate_map_range _ _ _ _ _ hj, wrapS_wrap_zero, subS_zero_left])]
        simp only [R.bind_ok, length_zipWith_replicate_map_range]
        repeat (first
          | cir_simp
          | simp only [R.bind_ok, encPtr_some]
          | rw [ptrAt_pvar_off _ _ 3 r (4 * k) 4 _ (by rfl) rfl rfl]
          | rw [ptrAt_pvar_off _ _ 1 a (4 * k) 4 _ (by rfl) rfl rfl])
        rfl
      case hcond =>
        intro k
        change evalB _ _ ⟨[((4 * q : Nat) : Int), (a : Int), ((4 * k : Nat) : Int),
          (r : Int), ((4 * k : Nat) : Int), (r : Int), ((4 * q : Nat) : Int)], fillMem mem r g (4 * k)⟩ = _
        cir_simp
        simp only [eval_ptrLt, eval_lit, R.bind_ok]
        rw [ptrAt_pvar _ _ 3 r (4 * k) rfl rfl, ptrAt_pvar _ _ 5 r (4 * q) rfl rfl]
        simp only [R.bind_ok, ptrLtVal_same, decide_b2i_ne_zero]
        congr 1
        by_cases h : q ≤ k
        · rw [decide_eq_true h, decide_eq_false (by omega)]; rfl
        · rw [decide_eq_false h, decide_eq_true (by omega)]; rfl
      case fin =>
        rw [walkA_count q q 0 (by omega) (by omega)]
        rfl))

end Spq.CIR
