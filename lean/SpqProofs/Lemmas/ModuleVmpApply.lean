/-
  `vmpApplyDftToDft` against `vmpPrepare` in exact arithmetic (C02.1): block extraction without size
  hypotheses, what the 2-column / 1-column dot products read from the prepared matrix, the block save,
  and the loop invariant of the apply function.
-/
import SpqProofs.Lemmas.ModuleVmpPrep
import SpqProofs.Lemmas.ModuleSpec
namespace Spq.Module
open Finset Spq Reim4
variable {α : Type}

/-! ### extraction (the equations of `C17.extract_spec`, `C17.extract_rows_spec` do not need the source size) -/

theorem extract1blk_get (z : α) (m blk : Nat) (dst src : Array α) (hdst : 8 ≤ dst.size) (k : Nat) (hk : k < 4) :
    (extract1blkFromReimRef z m blk dst src).getD k z = src.getD (4 * blk + k) z ∧
    (extract1blkFromReimRef z m blk dst src).getD (4 + k) z = src.getD (m + 4 * blk + k) z := by
  have e : extract1blkFromReimRef z m blk dst src =
      V4.store (V4.store dst 0 (V4.load z src (4 * blk))) 4 (V4.load z src (4 * blk + m)) := rfl
  constructor
  · have h0 := V4.getD_store_in dst 0 (V4.load z src (4 * blk)) k z hk (by omega)
    rw [Nat.zero_add] at h0
    rw [e, V4.getD_store_out _ _ _ _ _ (by omega), h0, V4.lane_load _ _ _ _ hk]
  · have h1 : 4 * blk + m + k = m + 4 * blk + k := by omega
    rw [e, V4.getD_store_in _ _ _ _ _ hk (by rw [V4.size_store]; omega), V4.lane_load _ _ _ _ hk, h1]

theorem extractRows_get (z : α) (m nrows blk : Nat) (dst src : Array α) (hdst : 8 * nrows ≤ dst.size)
    (i k : Nat) (hi : i < nrows) (hk : k < 4) :
    (extract1blkFromContiguousReimRef z m nrows blk dst src).getD (8 * i + k) z = src.getD (i * (2 * m) + 4 * blk + k) z ∧
    (extract1blkFromContiguousReimRef z m nrows blk dst src).getD (8 * i + 4 + k) z = src.getD (i * (2 * m) + m + 4 * blk + k) z := by
  rw [extractC_eq_mapV4]
  obtain ⟨_, s2, _⟩ := mapV4_spec z (2 * nrows) (fun i => 4 * i) (fun i _ => V4.load z src (4 * blk + i * m)) dst
    (by intro j j' _ _ _; omega) (by intro j hj; omega)
  constructor
  · have := s2 (2 * i) (by omega) k hk
    have e : 8 * i + k = 4 * (2 * i) + k := by omega
    have e2 : 4 * blk + 2 * i * m + k = i * (2 * m) + 4 * blk + k := by ring
    rw [e, this, V4.lane_load _ _ _ _ hk, e2]
  · have := s2 (2 * i + 1) (by omega) k hk
    have e : 8 * i + 4 + k = 4 * (2 * i + 1) + k := by omega
    have e2 : 4 * blk + (2 * i + 1) * m + k = i * (2 * m) + m + 4 * blk + k := by ring
    rw [e, this, V4.lane_load _ _ _ _ hk, e2]

/-! ### what the prepared matrix holds at the addresses `apply` reads -/

/-- cells of block (row, col, blk) of the prepared matrix (`nn ≥ 8`) -/
theorem prepared_cell (c : Parts α) (mat : Array Int) (nrows ncols : Nat) (h8 : 8 ≤ c.nn) (hnn : c.nn = 2 * c.m)
    (hm4 : c.m % 4 = 0) (row col blk k : Nat) (hr : row < nrows) (hc : col < ncols) (hb : blk < c.m / 4) (hk : k < 4) :
    (vmpPrepare c mat nrows ncols).getD (8 * (blk * (nrows * ncols) + qslot nrows ncols row col) + k) c.ar.zero
      = (matDft c mat ncols row col).getD (4 * blk + k) c.ar.zero ∧
    (vmpPrepare c mat nrows ncols).getD (8 * (blk * (nrows * ncols) + qslot nrows ncols row col) + 4 + k) c.ar.zero
      = (matDft c mat ncols row col).getD (c.m + 4 * blk + k) c.ar.zero := by
  obtain ⟨_, h2⟩ := vmpPrepare_blk c mat nrows ncols h8 hnn hm4
  have hd : pDom nrows ncols (c.m / 4) (row, col, blk) := ⟨hr, hc, hb⟩
  obtain ⟨e1, e2⟩ := extract1blk_get c.ar.zero c.m blk (Array.replicate 8 c.ar.zero) (matDft c mat ncols row col)
    (by simp) k hk
  constructor
  · have := h2 (row, col, blk) hd trivial k (by omega)
    simp only [pSlot, pVal] at this
    rw [this, e1]
  · have := h2 (row, col, blk) hd trivial (4 + k) (by omega)
    simp only [pSlot, pVal] at this
    rw [Nat.add_assoc, this, e2]

section exact
variable {R : Type} [CommRing R]

/-- complex `t` of output column `col`: `Σ_{i<rowMax} adft_i[t] · T(i, col)[t]` (split layout, rows of `2m` cells) -/
def vmpVal (adft : Array R) (T : Nat → Nat → Array R) (m rowMax col t : Nat) : Cx R :=
  ∑ i ∈ range rowMax, cx adft (i * (2 * m) + t) (i * (2 * m) + t + m) * cx (T i col) t (t + m)

/-- a column pair (`col` even, `col + 1 < ncols`) as `reim4_vec_mat2cols_product` reads it -/
theorem pair_read (c : Parts R) (har : c.ar = RArith.ofRing R) (mat : Array Int) (nrows ncols : Nat) (h8 : 8 ≤ c.nn)
    (hnn : c.nn = 2 * c.m) (hm4 : c.m % 4 = 0) (col blk i k : Nat) (he : col % 2 = 0) (hc : col + 1 < ncols)
    (hb : blk < c.m / 4) (hi : i < nrows) (hk : k < 4) :
    cx ((vmpPrepare c mat nrows ncols).extract (blk * (8 * nrows * ncols) + col * (8 * nrows))
        (blk * (8 * nrows * ncols) + col * (8 * nrows) + 16 * nrows)) (16 * i + k) (16 * i + k + 4)
      = cx (matDft c mat ncols i col) (4 * blk + k) (4 * blk + k + c.m) ∧
    cx ((vmpPrepare c mat nrows ncols).extract (blk * (8 * nrows * ncols) + col * (8 * nrows))
        (blk * (8 * nrows * ncols) + col * (8 * nrows) + 16 * nrows)) (16 * i + 8 + k) (16 * i + 8 + k + 4)
      = cx (matDft c mat ncols i (col + 1)) (4 * blk + k) (4 * blk + k + c.m) := by
  have hz : c.ar.zero = 0 := by rw [har]; rfl
  obtain ⟨a1, a2⟩ := prepared_cell c mat nrows ncols h8 hnn hm4 i col blk k hi (by omega) hb hk
  obtain ⟨b1, b2⟩ := prepared_cell c mat nrows ncols h8 hnn hm4 i (col + 1) blk k hi hc hb hk
  rw [hz] at a1 a2 b1 b2
  rw [qslot_pair _ _ _ _ (by omega)] at a1 a2 b1 b2
  have e0 : (col + 1) / 2 = col / 2 := by omega
  rw [e0] at b1 b2
  have e1 : blk * (8 * nrows * ncols) = 8 * (blk * (nrows * ncols)) := by ring
  have e2 : col * (8 * nrows) = 16 * (col / 2 * nrows) := by
    have : col = 2 * (col / 2) := by omega
    calc col * (8 * nrows) = (2 * (col / 2)) * (8 * nrows) := by rw [← this]
      _ = 16 * (col / 2 * nrows) := by ring
  constructor
  · ext
    · simp only [cx_re]
      rw [getD_extract, if_pos (by omega), ← a1]; congr 1; omega
    · simp only [cx_im]
      rw [getD_extract, if_pos (by omega), (by omega : 4 * blk + k + c.m = c.m + 4 * blk + k), ← a2]; congr 1; omega
  · ext
    · simp only [cx_re]
      rw [getD_extract, if_pos (by omega), ← b1]; congr 1; omega
    · simp only [cx_im]
      rw [getD_extract, if_pos (by omega), (by omega : 4 * blk + k + c.m = c.m + 4 * blk + k), ← b2]; congr 1; omega

/-- the lone last column (`ncols` odd, `col = ncols - 1`) as `reim4_vec_mat1col_product` reads it -/
theorem lone_read (c : Parts R) (har : c.ar = RArith.ofRing R) (mat : Array Int) (nrows ncols : Nat) (h8 : 8 ≤ c.nn)
    (hnn : c.nn = 2 * c.m) (hm4 : c.m % 4 = 0) (col blk i k : Nat) (hl : col + 1 = ncols ∧ ncols % 2 = 1)
    (hb : blk < c.m / 4) (hi : i < nrows) (hk : k < 4) :
    cx ((vmpPrepare c mat nrows ncols).extract (blk * (8 * nrows * ncols) + col * (8 * nrows))
        (blk * (8 * nrows * ncols) + col * (8 * nrows) + 8 * nrows)) (8 * i + k) (8 * i + k + 4)
      = cx (matDft c mat ncols i col) (4 * blk + k) (4 * blk + k + c.m) := by
  have hz : c.ar.zero = 0 := by rw [har]; rfl
  obtain ⟨a1, a2⟩ := prepared_cell c mat nrows ncols h8 hnn hm4 i col blk k hi (by omega) hb hk
  rw [hz] at a1 a2
  rw [qslot_lone _ _ _ _ hl] at a1 a2
  have e1 : blk * (8 * nrows * ncols) = 8 * (blk * (nrows * ncols)) := by ring
  have e2 : col * (8 * nrows) = 16 * (col / 2 * nrows) := by
    have : col = 2 * (col / 2) := by omega
    calc col * (8 * nrows) = (2 * (col / 2)) * (8 * nrows) := by rw [← this]
      _ = 16 * (col / 2 * nrows) := by ring
  ext
  · simp only [cx_re]
    rw [getD_extract, if_pos (by omega), ← a1]; congr 1; omega
  · simp only [cx_im]
    rw [getD_extract, if_pos (by omega), (by omega : 4 * blk + k + c.m = c.m + 4 * blk + k), ← a2]; congr 1; omega

/-! ### the dot products of one block -/

/-- `extracted_blk` -/
def extBlk (adft : Array R) (m rowMax blk : Nat) : Array R :=
  extract1blkFromContiguousReimRef (0 : R) m rowMax blk (Array.replicate (8 * rowMax) 0) adft
/-- `reim4_vec_mat2cols_product_{ref,avx2}` into the 16-cell scratch -/
def prod2 (avx : Bool) (rowMax : Nat) (u v : Array R) : Array R :=
  if avx then vecMat2colsProductAvx2 (RArith.ofRing R) rowMax (Array.replicate 16 0) u v
  else vecMat2colsProductRef (RArith.ofRing R) rowMax (Array.replicate 16 0) u v
/-- `reim4_vec_mat1col_product_{ref,avx2}` -/
def prod1 (avx : Bool) (rowMax : Nat) (u v : Array R) : Array R :=
  if avx then vecMat1colProductAvx2 (RArith.ofRing R) rowMax (Array.replicate 8 0) u v
  else vecMat1colProductRef (RArith.ofRing R) rowMax (Array.replicate 8 0) u v
/-- `mat_blk_start + col_offset`, `w·nrows` cells -/
def pmatCol (P : Array R) (nrows ncols blk col w : Nat) : Array R :=
  P.extract (blk * (8 * nrows * ncols) + col * (8 * nrows)) (blk * (8 * nrows * ncols) + col * (8 * nrows) + w * nrows)

theorem prod2_eq_ref (avx : Bool) (rowMax : Nat) (u v : Array R) :
    prod2 avx rowMax u v = vecMat2colsProductRef (RArith.ofRing R) rowMax (Array.replicate 16 0) u v := by
  unfold prod2
  cases avx
  · simp
  · simp only [if_true]
    exact (C17.mat2cols_avx2_exact rowMax _ u v (by simp)).2

theorem prod1_eq_ref (avx : Bool) (rowMax : Nat) (u v : Array R) :
    prod1 avx rowMax u v = vecMat1colProductRef (RArith.ofRing R) rowMax (Array.replicate 8 0) u v := by
  unfold prod1
  cases avx
  · simp
  · simp only [if_true]
    exact (C17.mat1col_avx2_exact rowMax _ u v (by simp)).2

theorem extBlk_cx (adft : Array R) (m rowMax blk i k : Nat) (hi : i < rowMax) (hk : k < 4) :
    cx (extBlk adft m rowMax blk) (8 * i + k) (8 * i + k + 4)
      = cx adft (i * (2 * m) + (4 * blk + k)) (i * (2 * m) + (4 * blk + k) + m) := by
  obtain ⟨e1, e2⟩ := extractRows_get (0 : R) m rowMax blk (Array.replicate (8 * rowMax) 0) adft (by simp) i k hi hk
  ext
  · simp only [cx_re, extBlk]
    rw [e1]; congr 1; omega
  · simp only [cx_im, extBlk]
    rw [(by omega : 8 * i + k + 4 = 8 * i + 4 + k), e2]; congr 1; omega

/-- a column pair: both halves of the 2-column product are the specified sums -/
theorem prod2_val (c : Parts R) (har : c.ar = RArith.ofRing R) (mat : Array Int) (nrows ncols : Nat) (h8 : 8 ≤ c.nn)
    (hnn : c.nn = 2 * c.m) (hm4 : c.m % 4 = 0) (adft : Array R) (rowMax : Nat) (hrm : rowMax ≤ nrows) (avx : Bool)
    (col blk k : Nat) (he : col % 2 = 0) (hc : col + 1 < ncols) (hb : blk < c.m / 4) (hk : k < 4) :
    (prod2 avx rowMax (extBlk adft c.m rowMax blk) (pmatCol (vmpPrepare c mat nrows ncols) nrows ncols blk col 16)).size = 16 ∧
    cx (prod2 avx rowMax (extBlk adft c.m rowMax blk) (pmatCol (vmpPrepare c mat nrows ncols) nrows ncols blk col 16)) k (k + 4)
      = vmpVal adft (matDft c mat ncols) c.m rowMax col (4 * blk + k) ∧
    cx (prod2 avx rowMax (extBlk adft c.m rowMax blk) (pmatCol (vmpPrepare c mat nrows ncols) nrows ncols blk col 16)) (8 + k) (8 + k + 4)
      = vmpVal adft (matDft c mat ncols) c.m rowMax (col + 1) (4 * blk + k) := by
  rw [prod2_eq_ref]
  obtain ⟨s1, s2, _⟩ := C17.mat2cols_ref_exact rowMax (Array.replicate 16 (0 : R)) (extBlk adft c.m rowMax blk)
    (pmatCol (vmpPrepare c mat nrows ncols) nrows ncols blk col 16) (by simp)
  obtain ⟨v1, v2⟩ := s2 k hk
  refine ⟨by rw [s1]; simp, ?_, ?_⟩
  · rw [v1]; unfold vmpVal
    apply sum_congr rfl
    intro i hi
    have hi := mem_range.1 hi
    rw [extBlk_cx adft c.m rowMax blk i k hi hk]
    unfold pmatCol
    rw [(pair_read c har mat nrows ncols h8 hnn hm4 col blk i k he hc hb (by omega) hk).1]
  · rw [v2]; unfold vmpVal
    apply sum_congr rfl
    intro i hi
    have hi := mem_range.1 hi
    rw [extBlk_cx adft c.m rowMax blk i k hi hk]
    unfold pmatCol
    rw [(pair_read c har mat nrows ncols h8 hnn hm4 col blk i k he hc hb (by omega) hk).2]

/-- the lone last column -/
theorem prod1_val (c : Parts R) (har : c.ar = RArith.ofRing R) (mat : Array Int) (nrows ncols : Nat) (h8 : 8 ≤ c.nn)
    (hnn : c.nn = 2 * c.m) (hm4 : c.m % 4 = 0) (adft : Array R) (rowMax : Nat) (hrm : rowMax ≤ nrows) (avx : Bool)
    (col blk k : Nat) (hl : col + 1 = ncols ∧ ncols % 2 = 1) (hb : blk < c.m / 4) (hk : k < 4) :
    (prod1 avx rowMax (extBlk adft c.m rowMax blk) (pmatCol (vmpPrepare c mat nrows ncols) nrows ncols blk col 8)).size = 8 ∧
    cx (prod1 avx rowMax (extBlk adft c.m rowMax blk) (pmatCol (vmpPrepare c mat nrows ncols) nrows ncols blk col 8)) k (k + 4)
      = vmpVal adft (matDft c mat ncols) c.m rowMax col (4 * blk + k) := by
  rw [prod1_eq_ref]
  obtain ⟨s1, s2, _⟩ := C17.mat1col_ref_exact rowMax (Array.replicate 8 (0 : R)) (extBlk adft c.m rowMax blk)
    (pmatCol (vmpPrepare c mat nrows ncols) nrows ncols blk col 8) (by simp)
  refine ⟨by rw [s1]; simp, ?_⟩
  rw [s2 k hk]; unfold vmpVal
  apply sum_congr rfl
  intro i hi
  have hi := mem_range.1 hi
  rw [extBlk_cx adft c.m rowMax blk i k hi hk]
  unfold pmatCol
  rw [lone_read c har mat nrows ncols h8 hnn hm4 col blk i k hl hb (by omega) hk]

end exact

end Spq.Module
