/-
  Vector level: limbs of `vecDft` seen through `cellsAt`, composition `vecIdft ∘ vecDft`, dependence of `vecIdft` on
  the cells it reads.
-/
import SpqProofs.Lemmas.NttModEval
import SpqProofs.Lemmas.NttModInplace

namespace Spq.ModuleNtt
open Spq Spq.Q120 Spq.Q120Ntt

/-- limb `i < min(res_size, a_size)` of the DFT vector is the DFT of limb `i` of the source -/
theorem cellsAt_vecDft_data (M : ModPre) (r : Nat) (a : Array Int) (s sl : Nat) (i : Nat) (hi : i < min r s) :
    cellsAt (vecDft M r a s sl) (4 * 2 ^ M.k * i) (4 * 2 ^ M.k) = dftLimb M (limbI64 a (i * sl) (2 ^ M.k)) := by
  apply ext_getD 0
  · rw [size_cellsAt, size_dftLimb]
  · intro c hc
    rw [size_cellsAt] at hc
    rw [getD_cellsAt _ _ _ _ hc, getD_vecDft M r a s sl i c (Nat.lt_of_lt_of_le hi (Nat.min_le_left _ _)) hc, if_pos hi]

/-- limbs `min(res_size, a_size) ≤ i < res_size` of the DFT vector are zero -/
theorem cellsAt_vecDft_zero (M : ModPre) (r : Nat) (a : Array Int) (s sl : Nat) (i : Nat) (hi : i < r) (h : ¬ i < min r s)
    (c : Nat) : (cellsAt (vecDft M r a s sl) (4 * 2 ^ M.k * i) (4 * 2 ^ M.k)).getD c 0 = 0 := by
  by_cases hc : c < 4 * 2 ^ M.k
  · rw [getD_cellsAt _ _ _ _ hc, getD_vecDft M r a s sl i c hi hc, if_neg h]
  · exact getD_of_size_le _ _ _ (by rw [size_cellsAt]; omega)

/-- `vecIdft` only reads the first `4N·a_size` cells -/
theorem getD_vecIdft_congr (M : ModPre) (r : Nat) (b b' : Array Nat) (s : Nat)
    (h : ∀ c < 4 * 2 ^ M.k * s, b.getD c 0 = b'.getD c 0) (i t : Nat) (hi : i < r) (ht : t < 2 ^ M.k) :
    (vecIdft M r b s).getD (2 ^ M.k * i + t) 0 = (vecIdft M r b' s).getD (2 ^ M.k * i + t) 0 := by
  rw [getD_vecIdft M r b s i t hi ht, getD_vecIdft M r b' s i t hi ht]
  split
  · rename_i him
    have his : i < s := Nat.lt_of_lt_of_le him (Nat.min_le_right _ _)
    rw [cellsAt_congr b b' _ _ (fun c hc => h _ (idx_lt his hc))]
  · rfl

/-- **composition** on the live module: limb `i`, coefficient `t` of `vecIdft (vecDft a)` -/
theorem getD_vecIdft_vecDft (k : Nat) (hk : k ≤ 16) (a : Array Int) (ha : ∀ t, IsI64 (a.getD t 0))
    (aSize dftSize resSize aSl : Nat) (i t : Nat) (hi : i < resSize) (ht : t < 2 ^ k) :
    (vecIdft (curMod k) resSize (vecDft (curMod k) dftSize a aSize aSl) dftSize).getD (2 ^ k * i + t) 0
      = if i < aSize ∧ i < dftSize then a.getD (i * aSl + t) 0 else 0 := by
  have hkk : (curMod k).k = k := rfl
  have g := getD_vecIdft (curMod k) resSize (vecDft (curMod k) dftSize a aSize aSl) dftSize i t hi (by rw [hkk]; exact ht)
  rw [hkk] at g
  rw [g]
  by_cases hd : i < dftSize
  · rw [if_pos (by omega : i < min resSize dftSize)]
    by_cases hs : i < aSize
    · rw [if_pos ⟨hs, hd⟩]
      have hm : i < min dftSize aSize := by omega
      have e := cellsAt_vecDft_data (curMod k) dftSize a aSize aSl i hm
      rw [hkk] at e
      rw [e, idft_dft_limb k hk _ (fun t => by
        by_cases h : t < 2 ^ k
        · rw [getD_limbI64 _ _ _ _ h]; exact ha _
        · rw [getD_of_size_le _ _ _ (by rw [size_limbI64]; omega)]; unfold IsI64; omega) t ht,
        getD_limbI64 _ _ _ _ ht]
    · rw [if_neg (by omega)]
      have hm : ¬ i < min dftSize aSize := by omega
      have z := cellsAt_vecDft_zero (curMod k) dftSize a aSize aSl i hd hm
      rw [hkk] at z
      exact idft_zero_limb k hk _ (by rw [size_cellsAt]) z t ht
  · rw [if_neg (by omega), if_neg (by omega)]

end Spq.ModuleNtt

namespace Spq.ModuleNtt
open Spq Spq.Q120 Spq.Q120Ntt Finset

/-! ### `nn = 1` (`k = 0`): the transforms are the identity on the 4 residue words -/

/-- `OMEGA_j^(2^16) = -1 (mod q_j)`: the root used for `n = 1` -/
theorem omega0 (j : Nat) (hj : j < 4) :
    1 < Gen.q120_q j ∧ omegaN (Gen.q120_q j) (Gen.q120_omega j) 0 = Gen.q120_q j - 1 := by
  have : j = 0 ∨ j = 1 ∨ j = 2 ∨ j = 3 := by omega
  rcases this with rfl | rfl | rfl | rfl <;> decide +kernel

theorem getD_dftLimb0 (j : Nat) (hj : j < 4) (x : Array Int) :
    (dftLimb (curMod 0) x).getD j 0 = rd (lane (bFromZnx64 curParams 1 x) j) 0 := by
  have := getD_nttCells (curMod 0) (bFromZnx64 curParams 1 x) 0 j (by decide) hj
  simp only [Nat.mul_zero, Nat.zero_add] at this
  rw [show dftLimb (curMod 0) x = nttCells (curMod 0) (bFromZnx64 curParams 1 x) from rfl, this]
  simp [nttLane, nttLaneS, curMod]

/-- **evaluation form of a DFT limb**, every `k ≤ 16` (for `k = 0`: the constant polynomial and `w = -1`) -/
theorem dft_limb_eval_all (k j : Nat) (hk : k ≤ 16) (hj : j < 4) (x : Array Int) (hx : ∀ t, IsI64 (x.getD t 0)) :
    let q := Gen.q120_q j
    let w : ZMod q := ((omegaN q (Gen.q120_omega j) k : Nat) : ZMod q)
    w ^ (2 ^ k) = -1 ∧
    ∀ p < 2 ^ k,
      (((dftLimb (curMod k) x).getD (4 * p + j) 0 : Nat) : ZMod q)
        = ∑ t ∈ range (2 ^ k), ((x.getD t 0 : Int) : ZMod q) * w ^ (t * (2 * brev k p + 1)) := by
  rcases Nat.eq_zero_or_pos k with h0 | hpos
  · subst h0
    intro q w
    obtain ⟨hq, hw⟩ := omega0 j hj
    obtain ⟨_, _, hcg⟩ := lane_b 0 j hj x hx
    constructor
    · show ((omegaN (Gen.q120_q j) (Gen.q120_omega j) 0 : Nat) : ZMod (Gen.q120_q j)) ^ (2 ^ 0) = -1
      rw [hw, Nat.cast_sub (by omega), ZMod.natCast_self]; simp
    · intro p hp
      have hp0 : p = 0 := by simpa using hp
      subst hp0
      simp only [Nat.mul_zero, Nat.zero_add, pow_zero, sum_range_one, Nat.zero_mul, mul_one]
      rw [getD_dftLimb0 j hj x]
      exact cast_of_int_mod (hcg 0 (by decide))
  · exact dft_limb_eval k j hpos hk hj x hx

/-- one lane of the product theorem, every `k ≤ 16` -/
theorem prod_lane_all (k j : Nat) (hk : k ≤ 16) (hj : j < 4)
    (x y : Array Int) (hx : ∀ t, IsI64 (x.getD t 0)) (hy : ∀ t, IsI64 (y.getD t 0))
    (pc : Array Nat) (hsz : pc.size = 4 * 2 ^ k) (hlt : ∀ i, pc.getD i 0 < W64)
    (hprod : ∀ t < 2 ^ k, pc.getD (4 * t + j) 0 % Gen.q120_q j
      = ((dftLimb (curMod k) x).getD (4 * t + j) 0 * (dftLimb (curMod k) y).getD (4 * t + j) 0) % Gen.q120_q j)
    (t : Nat) (ht : t < 2 ^ k) :
    ((rd (inttLane k ((curMod k).inv j).levels ((curMod k).inv j).R ((curMod k).inv j).tbl (lane pc j)) t : Nat) : Int)
        % (Gen.q120_q j : Int) = nprodZ (2 ^ k) x y t % (Gen.q120_q j : Int) := by
  rcases Nat.eq_zero_or_pos k with h0 | hpos
  · subst h0
    have ht0 : t = 0 := by simpa using ht
    subst ht0
    have hcx := (lane_b 0 j hj x hx).2.2 0 (by decide)
    have hcy := (lane_b 0 j hj y hy).2.2 0 (by decide)
    simp only [Nat.pow_zero] at hcx hcy
    have h := hprod 0 (by decide)
    simp only [Nat.mul_zero, Nat.zero_add] at h
    rw [getD_dftLimb0 j hj x, getD_dftLimb0 j hj y] at h
    have e : rd (inttLane 0 ((curMod 0).inv j).levels ((curMod 0).inv j).R ((curMod 0).inv j).tbl (lane pc j)) 0
        = pc.getD j 0 := by
      have := rd_lane pc j 0 (by rw [hsz]; decide)
      simp only [Nat.mul_zero, Nat.zero_add] at this
      simp [inttLane, inttLaneS, this]
    rw [e]
    have h' := congrArg (fun n : Nat => (n : Int)) h
    simp only [Int.natCast_mod, Int.natCast_mul] at h'
    rw [h', Int.mul_emod, hcx, hcy, ← Int.mul_emod]
    simp [nprodZ, nmul]
  · exact prod_lane_cur k j hpos hk hj x y hx hy pc hsz hlt hprod t ht

/-- **products in DFT space, one limb**: if the limb `pc` (any 64-bit words) is, lane by lane, congruent to the
    product of the DFT limbs of `x` and `y`, then coefficient `t` of its inverse transform is congruent to the
    negacyclic product `x·y mod X^n+1` modulo every prime, lies in the centred range of `Q = q0·q1·q2·q3`, and IS the
    integer coefficient of the product whenever that coefficient is in the centred range -/
theorem idft_prod_limb (k : Nat) (hk : k ≤ 16)
    (x y : Array Int) (hx : ∀ t, IsI64 (x.getD t 0)) (hy : ∀ t, IsI64 (y.getD t 0))
    (pc : Array Nat) (hsz : pc.size = 4 * 2 ^ k) (hlt : ∀ i, pc.getD i 0 < W64)
    (hprod : ∀ t < 2 ^ k, ∀ j < 4, pc.getD (4 * t + j) 0 % Gen.q120_q j
      = ((dftLimb (curMod k) x).getD (4 * t + j) 0 * (dftLimb (curMod k) y).getD (4 * t + j) 0) % Gen.q120_q j)
    (t : Nat) (ht : t < 2 ^ k) :
    (∀ j < 4, (idftLimb (curMod k) pc).getD t 0 % (Gen.q120_q j : Int) = nprodZ (2 ^ k) x y t % (Gen.q120_q j : Int))
    ∧ -(((bigQN curParams : Int) - 1) / 2) ≤ (idftLimb (curMod k) pc).getD t 0
    ∧ (idftLimb (curMod k) pc).getD t 0 ≤ ((bigQN curParams : Int) - 1) / 2
    ∧ (-(((bigQN curParams : Int) - 1) / 2) ≤ nprodZ (2 ^ k) x y t ∧ nprodZ (2 ^ k) x y t ≤ ((bigQN curParams : Int) - 1) / 2
        → (idftLimb (curMod k) pc).getD t 0 = nprodZ (2 ^ k) x y t) := by
  have hl : ∀ j < 4, ((rd (inttLane k ((curMod k).inv j).levels ((curMod k).inv j).R ((curMod k).inv j).tbl
      (lane pc j)) t : Nat) : Int) % (Gen.q120_q j : Int) = nprodZ (2 ^ k) x y t % (Gen.q120_q j : Int) :=
    fun j hj => prod_lane_all k j hk hj x y hx hy pc hsz hlt (fun t ht => hprod t ht j hj) t ht
  obtain ⟨c1, c2⟩ := idftLimb_centered (curMod k) crtOK_current pc t ht
  refine ⟨fun j hj => ?_, c1, c2, fun hb => idftLimb_eq (curMod k) crtOK_current pc t ht _ hb hl⟩
  rw [← hl j hj]
  exact idftLimb_mod (curMod k) crtOK_current pc t ht j hj

end Spq.ModuleNtt
