/-
  C06.4, cplx butterflies: the `addsub(0, ω)` butterflies of `cplx_fft_avx2_fma.c` with the exact negation made
  explicit (`ctFmaZ`, `ictFmaZ`), the `h = 1` butterfly with table `(ω, −ω)`, and their error lemmas.
-/
import SpqProofs.Lemmas.FftErrSchedIBf
import Spq.Fft.Cplx
set_option linter.unusedSectionVars false
namespace Spq.FftErr
open Spq.Fft
variable {K : Type} [Field K] [LinearOrder K] [IsStrictOrderedRing K]

section defs
variable {α : Type} (A : Arith α)
/-- `ctFmaC` with `0 − ωi`, `0 + ωi` replaced by `−ωi`, `ωi` (they are computed exactly) -/
def ctFmaZ : Bf α := fun ra ia rb ib wr wi =>
  let nr := A.fma ib (A.neg wi) (A.mul rb wr)
  let ni := A.fma rb wi (A.mul ib wr)
  (A.add ra nr, A.add ia ni, A.sub ra nr, A.sub ia ni)
/-- `ictFmaC` likewise -/
def ictFmaZ : Bf α := fun ra ia rb ib wr wi =>
  let rd := A.sub ra rb
  let id := A.sub ia ib
  (A.add ra rb, A.add ia ib, A.fma id (A.neg wi) (A.mul rd wr), A.fma rd wi (A.mul id wr))
end defs

theorem butterfly_err_fmaZ (A : Arith K) (u τ : K) (sm : FStd A u) (hτ : 0 ≤ τ) (wh w : Cplx K)
    (hw : nsq w = 1) (hτw : nsq (wh - w) ≤ τ ^ 2) :
    BfErrAt (fun a b => bfC (ctFmaZ A) a b wh) w (eta u τ) := by
  intro a b
  have hu := sm.u_nonneg
  have t1 := fused_err u (b.im * (-wh.im)) (b.re * wh.re) (A.mul b.re wh.re)
    (A.fma b.im (A.neg wh.im) (A.mul b.re wh.re)) 1 hu (Or.inl rfl) (sm.mul _ _)
    (by have := sm.fma b.im (A.neg wh.im) (A.mul b.re wh.re)
        rw [sm.neg] at this ⊢; rw [one_mul]; exact this)
  rw [one_mul, show b.im * -wh.im + b.re * wh.re = b.re * wh.re - b.im * wh.im by ring,
    show |b.im * -wh.im| = |b.im * wh.im| by rw [mul_neg, abs_neg], add_comm |b.im * wh.im|] at t1
  have t2 := fused_err u (b.re * wh.im) (b.im * wh.re) (A.mul b.im wh.re) (A.fma b.re wh.im (A.mul b.im wh.re)) 1
    hu (Or.inl rfl) (sm.mul _ _) (by have := sm.fma b.re wh.im (A.mul b.im wh.re); rw [one_mul]; exact this)
  rw [one_mul] at t2
  exact bfly_core u τ hu hτ a b wh w hw hτw
    ⟨A.fma b.im (A.neg wh.im) (A.mul b.re wh.re), A.fma b.re wh.im (A.mul b.im wh.re)⟩ _ _
    t1 t2 (sm.add _ _) (sm.add _ _) (sm.sub _ _) (sm.sub _ _)

theorem ibutterfly_err_fmaZ (A : Arith K) (u τ : K) (sm : FStd A u) (hτ : 0 ≤ τ) (wh w : Cplx K)
    (hw : nsq w = 1) (hτw : nsq (wh - w) ≤ τ ^ 2) :
    IBfErrAt (fun a b => bfC (ictFmaZ A) a b wh) w (eta u τ) := by
  intro a b
  have hu := sm.u_nonneg
  obtain ⟨dr, hdr⟩ : ∃ dr, dr = A.sub a.re b.re := ⟨_, rfl⟩
  obtain ⟨di, hdi⟩ : ∃ di, di = A.sub a.im b.im := ⟨_, rfl⟩
  have t1 := fused_err u (di * (-wh.im)) (dr * wh.re) (A.mul dr wh.re)
    (A.fma di (A.neg wh.im) (A.mul dr wh.re)) 1 hu (Or.inl rfl) (sm.mul _ _)
    (by have := sm.fma di (A.neg wh.im) (A.mul dr wh.re)
        rw [sm.neg] at this ⊢; rw [one_mul]; exact this)
  rw [one_mul, show di * -wh.im + dr * wh.re = dr * wh.re - di * wh.im by ring,
    show |di * -wh.im| = |di * wh.im| by rw [mul_neg, abs_neg], add_comm |di * wh.im|] at t1
  have t2 := fused_err u (dr * wh.im) (di * wh.re) (A.mul di wh.re) (A.fma dr wh.im (A.mul di wh.re)) 1
    hu (Or.inl rfl) (sm.mul _ _) (by have := sm.fma dr wh.im (A.mul di wh.re); rw [one_mul]; exact this)
  rw [one_mul] at t2
  have := ibfly_core u τ hu hτ a b wh w hw hτw ⟨A.add a.re b.re, A.add a.im b.im⟩ ⟨dr, di⟩
    ⟨A.fma di (A.neg wh.im) (A.mul dr wh.re), A.fma dr wh.im (A.mul di wh.re)⟩
    (sm.add _ _) (sm.add _ _) (by rw [hdr]; exact sm.sub _ _) (by rw [hdi]; exact sm.sub _ _) t1 t2
  simp only [bfC, ictFmaZ, ← hdr, ← hdi]
  exact this

/-- the `h = 1` butterfly with its two table entries, on complex numbers -/
def lastC (f4 : Bf4 K) (a b w nw : Cplx K) : Cplx K × Cplx K :=
  bfC (fun ra ia rb ib w1 w2 => f4 ra ia rb ib w1 w2 nw.re nw.im) a b w

/-- core for two separately computed products `n̂₁ ≈ ŵ·b`, `n̂₂ ≈ ŵ'·b` (`ŵ' ≈ −ω`), each ADDED to `a` -/
theorem bfly_core2 (u τ : K) (hu : 0 ≤ u) (hτ : 0 ≤ τ) (a b wh nwh w : Cplx K) (hw : nsq w = 1)
    (hτw : nsq (wh - w) ≤ τ ^ 2) (hτn : nsq (nwh - -w) ≤ τ ^ 2) (n1 n2 o1 o2 : Cplx K)
    (hnr : |n1.re - (b.re * wh.re - b.im * wh.im)| ≤ gam u * (|b.re * wh.re| + |b.im * wh.im|))
    (hni : |n1.im - (b.re * wh.im + b.im * wh.re)| ≤ gam u * (|b.re * wh.im| + |b.im * wh.re|))
    (hmr : |n2.re - (b.re * nwh.re - b.im * nwh.im)| ≤ gam u * (|b.re * nwh.re| + |b.im * nwh.im|))
    (hmi : |n2.im - (b.re * nwh.im + b.im * nwh.re)| ≤ gam u * (|b.re * nwh.im| + |b.im * nwh.re|))
    (h1r : |o1.re - (a.re + n1.re)| ≤ u * |a.re + n1.re|) (h1i : |o1.im - (a.im + n1.im)| ≤ u * |a.im + n1.im|)
    (h2r : |o2.re - (a.re + n2.re)| ≤ u * |a.re + n2.re|) (h2i : |o2.im - (a.im + n2.im)| ≤ u * |a.im + n2.im|) :
    nsq (o1 - (a + w * b)) + nsq (o2 - (a - w * b)) ≤ eta u τ ^ 2 * (nsq (a + w * b) + nsq (a - w * b)) := by
  have hρ := rho_nonneg hu hτ
  have hd1 := prod_err u τ hu hτ b wh w hw hτw n1 hnr hni
  have hd2 := prod_err u τ hu hτ b nwh (-w) (by rw [nsq_neg]; exact hw) hτn n2 hmr hmi
  have hY := bfly_norm a b w hw
  generalize hYd : nsq (a + w * b) + nsq (a - w * b) = Y at *
  have ha := nsq_nonneg a
  have hb := nsq_nonneg b
  have hSO : nsq ((a + n1) - (a + w * b)) + nsq ((a + n2) - (a - w * b)) ≤ rho u τ ^ 2 * Y := by
    rw [show (a + n1) - (a + w * b) = n1 - w * b by ring, show (a + n2) - (a - w * b) = n2 - -w * b by ring]
    have : 0 ≤ rho u τ ^ 2 := by positivity
    nlinarith [mul_le_mul_of_nonneg_left ha this]
  have hS : nsq (a + n1) + nsq (a + n2) ≤ (1 + rho u τ) ^ 2 * Y := by
    have := pair_tri (a + w * b) (a - w * b) ((a + n1) - (a + w * b)) ((a + n2) - (a - w * b)) 1 (rho u τ) Y
      (by norm_num) hρ (by rw [hYd]; linarith) hSO
    rw [show a + w * b + ((a + n1) - (a + w * b)) = a + n1 by ring,
      show a - w * b + ((a + n2) - (a - w * b)) = a + n2 by ring] at this
    exact this
  have e1 := nsq_comp_err u o1 (a + n1) (by simpa using h1r) (by simpa using h1i)
  have e2 := nsq_comp_err u o2 (a + n2) (by simpa using h2r) (by simpa using h2i)
  have hOS : nsq (o1 - (a + n1)) + nsq (o2 - (a + n2)) ≤ (u * (1 + rho u τ)) ^ 2 * Y := by
    have hu2 : 0 ≤ u ^ 2 := by positivity
    have := mul_le_mul_of_nonneg_left hS hu2
    rw [mul_pow]
    linarith
  have := pair_tri (o1 - (a + n1)) (o2 - (a + n2)) ((a + n1) - (a + w * b)) ((a + n2) - (a - w * b))
    (u * (1 + rho u τ)) (rho u τ) Y (by positivity) hρ hOS hSO
  rw [show o1 - (a + n1) + ((a + n1) - (a + w * b)) = o1 - (a + w * b) by ring,
    show o2 - (a + n2) + ((a + n2) - (a - w * b)) = o2 - (a - w * b) by ring] at this
  exact this

/-- the `h = 1` butterfly of `cplx_fft_avx2_fma_bfs_2` (table `(ω̂, ω̂')`, `ω̂' ≈ −ω`) -/
theorem butterfly_err_last_fma (A : Arith K) (u τ : K) (sm : FStd A u) (hτ : 0 ≤ τ) (wh nwh w : Cplx K)
    (hw : nsq w = 1) (hτw : nsq (wh - w) ≤ τ ^ 2) (hτn : nsq (nwh - -w) ≤ τ ^ 2) :
    BfErrAt (fun a b => lastC (lastFma A) a b wh nwh) w (eta u τ) := by
  intro a b
  have hu := sm.u_nonneg
  have t1 := fused_err u (b.re * wh.re) (b.im * wh.im) (A.mul b.im wh.im) (A.fms b.re wh.re (A.mul b.im wh.im)) (-1)
    hu (Or.inr rfl) (sm.mul _ _)
    (by have := sm.fms b.re wh.re (A.mul b.im wh.im)
        rw [show b.re * wh.re + -1 * A.mul b.im wh.im = b.re * wh.re - A.mul b.im wh.im by ring]
        exact this)
  rw [show b.re * wh.re + -1 * (b.im * wh.im) = b.re * wh.re - b.im * wh.im by ring] at t1
  have t2 := fused_err u (b.im * wh.re) (b.re * wh.im) (A.mul b.re wh.im) (A.fma b.im wh.re (A.mul b.re wh.im)) 1
    hu (Or.inl rfl) (sm.mul _ _)
    (by have := sm.fma b.im wh.re (A.mul b.re wh.im)
        rw [one_mul]; exact this)
  rw [one_mul, add_comm (b.im * wh.re), add_comm |b.im * wh.re|] at t2
  have t3 := fused_err u (b.re * nwh.re) (b.im * nwh.im) (A.mul b.im nwh.im) (A.fms b.re nwh.re (A.mul b.im nwh.im)) (-1)
    hu (Or.inr rfl) (sm.mul _ _)
    (by have := sm.fms b.re nwh.re (A.mul b.im nwh.im)
        rw [show b.re * nwh.re + -1 * A.mul b.im nwh.im = b.re * nwh.re - A.mul b.im nwh.im by ring]
        exact this)
  rw [show b.re * nwh.re + -1 * (b.im * nwh.im) = b.re * nwh.re - b.im * nwh.im by ring] at t3
  have t4 := fused_err u (b.im * nwh.re) (b.re * nwh.im) (A.mul b.re nwh.im) (A.fma b.im nwh.re (A.mul b.re nwh.im)) 1
    hu (Or.inl rfl) (sm.mul _ _)
    (by have := sm.fma b.im nwh.re (A.mul b.re nwh.im)
        rw [one_mul]; exact this)
  rw [one_mul, add_comm (b.im * nwh.re), add_comm |b.im * nwh.re|] at t4
  exact bfly_core2 u τ hu hτ a b wh nwh w hw hτw hτn
    ⟨A.fms b.re wh.re (A.mul b.im wh.im), A.fma b.im wh.re (A.mul b.re wh.im)⟩
    ⟨A.fms b.re nwh.re (A.mul b.im nwh.im), A.fma b.im nwh.re (A.mul b.re nwh.im)⟩ _ _
    t1 t2 t3 t4 (sm.add _ _) (sm.add _ _) (sm.add _ _) (sm.add _ _)

/-- the reference `h = 1` butterfly ignores the second table entry -/
theorem butterfly_err_last_ref (A : Arith K) (u τ : K) (sm : FStd A u) (hτ : 0 ≤ τ) (wh nwh w : Cplx K)
    (hw : nsq w = 1) (hτw : nsq (wh - w) ≤ τ ^ 2) :
    BfErrAt (fun a b => lastC (ofBf (ctRef A)) a b wh nwh) w (eta u τ) :=
  butterfly_err_ref A u τ sm hτ wh w hw hτw

theorem ibutterfly_err_last_ref (A : Arith K) (u τ : K) (sm : FStd A u) (hτ : 0 ≤ τ) (wh nwh w : Cplx K)
    (hw : nsq w = 1) (hτw : nsq (wh - w) ≤ τ ^ 2) :
    IBfErrAt (fun a b => lastC (ofBf (ictRef A)) a b wh nwh) w (eta u τ) :=
  ibutterfly_err_ref A u τ sm hτ wh w hw hτw

theorem ibutterfly_err_last_fma (A : Arith K) (u τ : K) (sm : FStd A u) (hτ : 0 ≤ τ) (wh nwh w : Cplx K)
    (hw : nsq w = 1) (hτw : nsq (wh - w) ≤ τ ^ 2) :
    IBfErrAt (fun a b => lastC (ofBf (ictFma A)) a b wh nwh) w (eta u τ) :=
  ibutterfly_err_fma A u τ sm hτ wh w hw hτw

end Spq.FftErr
