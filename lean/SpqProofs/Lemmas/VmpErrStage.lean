/-
  C02 rounding budget, step 8: the binary64 module.  Sizes, the forward stage of ONE polynomial (`fwd_poly`), linearity
  of the exact network over the row sum (`V_isum`), the flagged module `pOk` (flagged arithmetic, prepared matrix =
  lifted bit-level DFTs of the entries) and the flag predicates of the VMP pipeline.
-/
import SpqProofs.Lemmas.VmpErrLayout5
import SpqProofs.Lemmas.VmpErrF64
import SpqProofs.Lemmas.VmpErrCompose
import SpqProofs.Lemmas.ProdErrSvp
import SpqProofs.Lemmas.ModuleVmpExact
set_option linter.unusedSectionVars false
namespace Spq.VmpErr
open Finset Spq Spq.Module Spq.Fft Spq.Fft.Alg Spq.Fft.SimP Spq.Fft.LevelN Spq.Fft.SchedN Spq.Fft.RelN Spq.FftErr Spq.F64
  Spq.Reim4 Spq.ProdErr Spq.C06Err

/-- flags of one forward transform (conversion + FFT) of the integer polynomial `x` -/
def FwdOk (c : Cfg) (k : ℕ) (cN sN : ℕ → ℕ) (x : Array Int) : Prop :=
  ∀ p, p < 2 * 2 ^ k →
    ((reimFftA (famOf c.fftFma aOk) (2 ^ k) ((((reimFftEnts (2 ^ k)).map (valP cN sN)).toArray).map lift)
      (((Cfg.parts c).fromZnx x).map lift))[p]!).2

/-- flags of one inverse transform of the DFT-space vector `d` -/
def InvOk (c : Cfg) (k : ℕ) (cNi sNi : ℕ → ℕ) (d : Array ℕ) : Prop :=
  ∀ p, p < 2 * 2 ^ k →
    ((reimIfftA (ifamOf c.ifftFma aOk) (2 ^ k) ((((reimIfftEnts (2 ^ k)).map (valP cNi sNi)).toArray).map lift)
      (d.map lift))[p]!).2

theorem parts_m (c : Cfg) (k : ℕ) (hnn : c.nn = 2 * 2 ^ k) : (Cfg.parts c).m = 2 ^ k := by
  show c.nn / 2 = 2 ^ k
  rw [hnn]; exact pow_half k

theorem parts_fft (c : Cfg) (k : ℕ) (cN sN cNi sNi : ℕ → ℕ) (h : CfgOk c k cN sN cNi sNi) (x : Array Int) :
    (Cfg.parts c).fft ((Cfg.parts c).fromZnx x) = stF c k cN sN x := by
  have hm : c.nn / 2 = 2 ^ k := by rw [h.nn]; exact pow_half k
  show reimFft (if c.fftFma then "fma" else "ref") (c.nn / 2) c.fftT _ = _
  rw [hm, h.fftT]; rfl

theorem parts_ifft (c : Cfg) (k : ℕ) (cN sN cNi sNi : ℕ → ℕ) (h : CfgOk c k cN sN cNi sNi) (d : Array ℕ) :
    (Cfg.parts c).ifft d = reimIfft (if c.ifftFma then "fma" else "ref") (2 ^ k) (tabI k cNi sNi) d := by
  have hm : c.nn / 2 = 2 ^ k := by rw [h.nn]; exact pow_half k
  show reimIfft (if c.ifftFma then "fma" else "ref") (c.nn / 2) c.ifftT d = _
  rw [hm, h.ifftT]

/-- size of a forward transform (law-free: the structural schedule theorem keeps the two halves valid) -/
theorem reimFft_size (fma : Bool) (k : ℕ) (cN sN : ℕ → ℕ) (d : Array ℕ) (hd : d.size = 2 * 2 ^ k) :
    (reimFft (if fma then "fma" else "ref") (2 ^ k) (tabF k cN sN) d).size = 2 * 2 ^ k := by
  rw [reimFft_eq]
  unfold reimFftA tabF
  have hv := (fftRI_struct (famOf fma f64) cN sN k (splitRI (2 ^ k) d) (splitRI_validN (2 ^ k) d hd)).2
  simp only [joinRI, Array.size_append]
  rw [hv.1, hv.2]; ring

theorem reimIfft_size (fma : Bool) (k : ℕ) (cNi sNi : ℕ → ℕ) (d : Array ℕ) (hd : d.size = 2 * 2 ^ k) :
    (reimIfft (if fma then "fma" else "ref") (2 ^ k) (tabI k cNi sNi) d).size = 2 * 2 ^ k := by
  rw [reimIfft_eq]
  unfold reimIfftA tabI
  have hv := (ifftRI_struct (ifamOf fma f64) cNi sNi k (splitRI (2 ^ k) d) (splitRI_validN (2 ^ k) d hd)).2
  simp only [joinRI, Array.size_append]
  rw [hv.1, hv.2]; ring

/-- the coefficient box of the property: `|x_t| < 2^50` on the `N` coefficients -/
def Box (k : ℕ) (x : Array Int) : Prop :=
  ∀ i, i < 2 * 2 ^ k → -1125899906842624 < x.getD i 0 ∧ x.getD i 0 < 1125899906842624

theorem stF_size (c : Cfg) (k : ℕ) (cN sN cNi sNi : ℕ → ℕ) (h : CfgOk c k cN sN cNi sNi) (x : Array Int) (hx : Box k x) :
    (stF c k cN sN x).size = 2 * 2 ^ k := by
  obtain ⟨hsz, _⟩ := fromZnx_spec c k h.nn h.fromBnd50 x hx
  unfold stF
  exact reimFft_size c.fftFma k cN sN _ hsz

variable {K : Type} [Field K] [LinearOrder K] [IsStrictOrderedRing K]

/-- forward stage of one integer polynomial: size, finiteness, 2-norm error against the exact network -/
theorem fwd_poly (c : Cfg) (k : ℕ) (cN sN cNi sNi : ℕ → ℕ) (h : CfgOk c k cN sN cNi sNi)
    (ζ : Cplx K) (hζ : nsq ζ = 1) (hI : ζ ^ 2 ^ k = Ic)
    (hcs : ∀ ℓ d b, ℓ + d + 1 = k → b < 2 ^ ℓ →
      nsq (toC (((val (cN (twE ℓ d b)) : ℚ) : K), ((val (sN (twE ℓ d b)) : ℚ) : K)) - ζ ^ twE ℓ d b) ≤
        (((7 / 2 * u64 : ℚ)) : K) ^ 2)
    (x : Array Int) (hx : Box k x) (hok : FwdOk c k cN sN x) :
    (∀ p, p < 2 * 2 ^ k → Fin64 ((stF c k cN sN x)[p]!)) ∧
    ∑ j ∈ range (2 ^ k), nsq (outC (stF c k cN sN x) k j - V ζ (pkC x (2 ^ k)) k 0 j) ≤
      eps K k ^ 2 * ∑ j ∈ range (2 ^ k), nsq (V ζ (pkC x (2 ^ k)) k 0 j) := by
  obtain ⟨hsz, _⟩ := fromZnx_spec c k h.nn h.fromBnd50 x hx
  obtain ⟨F1, F2⟩ := reim_fft_err c.fftFma k ζ hζ hI cN sN hcs _ hsz hok
  have eA : ∀ j ∈ range (2 ^ k), exactOut ζ k ((Cfg.parts c).fromZnx x) j = V ζ (pkC x (2 ^ k)) k 0 j :=
    fun j hj => exactOut_conv c k h.nn h.fromBnd50 ζ hI x hx j (mem_range.1 hj)
  refine ⟨F1, ?_⟩
  have e1 : ∑ j ∈ range (2 ^ k), nsq (outC (stF c k cN sN x) k j - V ζ (pkC x (2 ^ k)) k 0 j) =
      ∑ j ∈ range (2 ^ k), nsq (outC (stF c k cN sN x) k j - exactOut ζ k ((Cfg.parts c).fromZnx x) j) :=
    sum_congr rfl (fun j hj => by rw [eA j hj])
  have e2 : ∑ j ∈ range (2 ^ k), nsq (V ζ (pkC x (2 ^ k)) k 0 j) =
      ∑ j ∈ range (2 ^ k), nsq (exactOut ζ k ((Cfg.parts c).fromZnx x) j) :=
    sum_congr rfl (fun j hj => by rw [eA j hj])
  rw [e1, e2]
  exact F2

/-- the exact network is additive over a sum of integer polynomials -/
theorem V_isum (k : ℕ) (ζ : Cplx K) (hI : ζ ^ 2 ^ k = Ic) (n : ℕ) (f : ℕ → Array Int) (j : ℕ) (hj : j < 2 ^ k) :
    V ζ (pkC (isum (2 * 2 ^ k) n f) (2 ^ k)) k 0 j = ∑ i ∈ range n, V ζ (pkC (f i) (2 ^ k)) k 0 j := by
  rw [V_eval k ζ hI _ j hj]
  have : ∀ i ∈ range n, V ζ (pkC (f i) (2 ^ k)) k 0 j =
      evalF (2 * 2 ^ k) (fun t => ((icoef (f i) t : Int) : Cplx K)) (ζ ^ (1 + 4 * brev k j)) :=
    fun i _ => V_eval k ζ hI _ j hj
  rw [sum_congr rfl this]
  unfold evalF
  rw [sum_comm]
  apply sum_congr rfl
  intro t ht
  simp only []
  rw [icoef_isum _ _ _ _ (mem_range.1 ht)]
  push_cast
  rw [sum_mul]

/-! ### the flagged module -/

/-- a module that only carries what `vmpPrepare` / `vmpApplyDftToDft` use: the arithmetic, `nn`, the dispatch flags,
    and "conversion + DFT" of a matrix entry as one function (`fft` is the identity) -/
def mkParts {α : Type} (ar : RArith α) (nn : ℕ) (mulFma addmulFma vmpAvx : Bool) (pre : Array Int → Array α) : Parts α :=
  { nn := nn, ar := ar, fromZnx := pre, fft := fun d => d, ifft := fun d => d, toZnx := fun _ => #[],
    mulFma := mulFma, addmulFma := addmulFma, vmpAvx := vmpAvx }

/-- the flagged module: flagged binary64 arithmetic; the prepared matrix holds the LIFTED bit-level DFTs of the
    entries (flag of a cell = it is a finite double) -/
def pOk (c : Cfg) : Parts (ℕ × Prop) :=
  mkParts arithOk c.nn c.mulFma c.addmulFma c.vmpAvx (fun x => ((Cfg.parts c).fft ((Cfg.parts c).fromZnx x)).map lift)

/-- **flag of output cell `p` of the vector-matrix product**: the flagged run of `vmp_apply_dft_to_dft` on the lifted
    DFT rows of the vector and the lifted prepared matrix: every operation that cell `p` depends on had finite
    operands and an exact result that is 0 or in the normal range -/
def vmpFlag (c : Cfg) (mat : Array Int) (nrows ncols : ℕ) (a : Array Int) (asz asl rsz p : ℕ) : Prop :=
  ((vmpApplyDftToDft (pOk c) rsz ((vecDft (Cfg.parts c) (min nrows asz) a asz asl).map lift) asz
    (vmpPrepare (pOk c) mat nrows ncols) nrows ncols).getD p arithOk.zero).2

theorem matDft_pOk (c : Cfg) (mat : Array Int) (ncols i j : ℕ) :
    matDft (pOk c) mat ncols i j = (matDft (Cfg.parts c) mat ncols i j).map lift := rfl

end Spq.VmpErr
