/-
  C16, binary64 side, step 8: from one call to programs.  The numeric budget of the exact run (`Guarded PreF`) and the
  static dataflow condition (`SingleProductDepth` on the tag map `a.raw`) give the guarded run of the binary64
  instance of `DftOpsSound`; the refinement is then `C16.prog_refines_partial`.
-/
import SpqProofs.Lemmas.ProgErrLang
import SpqProofs.Properties.C16
set_option linter.unusedSectionVars false
namespace Spq.ProgErr
open Spq Spq.Module Spq.Prog Spq.Closed
variable {K : Type} [Field K] [LinearOrder K] [IsStrictOrderedRing K] {hsz : ℕ} {vars : List Var}

theorem guarded_preD (M : F64Mod K) : ∀ (ops : List OpD) (a : AState),
    Guarded (PreF M vars) (astepD M.N) ops a → SingleProductDepth ops a.raw →
    Guarded (PreD (dftOpsSound_f64 M) vars) (astepD M.N) ops a
  | [], _, _, _ => trivial
  | o :: ops, a, hg, hs =>
    ⟨preD_of_preF M o a hg.1 hs.1, guarded_preD M ops _ hg.2 (by rw [raw_astepD]; exact hs.2)⟩

/-- conversely the guarded run of the instance splits into the numeric budget and the dataflow condition -/
theorem guarded_preF (M : F64Mod K) : ∀ (ops : List OpD) (a : AState),
    Guarded (PreD (dftOpsSound_f64 M) vars) (astepD M.N) ops a →
    Guarded (PreF M vars) (astepD M.N) ops a ∧ SingleProductDepth ops a.raw
  | [], _, _ => ⟨trivial, trivial⟩
  | o :: ops, a, hg => by
    obtain ⟨h1, h2⟩ := preF_of_preD M o a hg.1
    obtain ⟨g1, g2⟩ := guarded_preF M ops _ hg.2
    rw [raw_astepD] at g2
    exact ⟨⟨h1, g1⟩, h2, g2⟩

/-- one call -/
theorem stepF_refines (M : F64Mod K) (wf : WF M.N hsz vars) (o : OpD) (a : AState) (s : CState ℕ)
    (hpre : PreF M vars o a) (hspd : opSPD o a.raw) (hR : RE M hsz vars a s) :
    RE M hsz vars (astepD M.N o a) (cstepD M.parts M.N o s) :=
  C16.stepD_refines_partial (dftOpsSound_f64 M) wf o a s (preD_of_preF M o a hpre hspd) hR

/-- the binary64 run of a program simulates the exact run -/
theorem runF_refines (M : F64Mod K) (wf : WF M.N hsz vars) (ops : List OpD) (a : AState) (s : CState ℕ)
    (hspd : SingleProductDepth ops a.raw) (hb : Guarded (PreF M vars) (astepD M.N) ops a) (hR : RE M hsz vars a s) :
    RE M hsz vars (run (astepD M.N) ops a) (run (cstepD M.parts M.N) ops s) :=
  C16.prog_refines_partial (dftOpsSound_f64 M) wf ops a s (guarded_preD M ops a hb hspd) hR

/-- the tag map after the run is the static one -/
theorem raw_run (nn : ℕ) : ∀ (ops : List OpD) (a : AState), (run (astepD nn) ops a).raw = run tagStep ops a.raw
  | [], _ => rfl
  | o :: ops, a => by
    rw [run_cons, run_cons, raw_run nn ops, raw_astepD]

end Spq.ProgErr
