/-
  Helper lemmas for Properties/ErrWitness2.lean: a product fed into a product at N = 8 over ℝ (written by the second
  auditor as a by-product of the audit, adopted unchanged): (exA8 ⊛ exB8) ⊛ exC8 through svp-product → vmp_apply_dft_to_dft →
  idft, with the library's real m = 4 tables; every budget of C16Err2 (`SvpLimbBudget`, `VmpDDBudget` incl. the accumulation
  flags on the concrete operand, `IdftLimbBudget`) discharged.
-/
import SpqProofs.Properties.C16Err2
import SpqProofs.Properties.ErrWitness
set_option linter.unusedSectionVars false
namespace Spq.ErrWitnessChain
open Finset Spq Spq.Module Spq.Fft Spq.Fft.Alg Spq.Fft.SchedN Spq.FftErr Spq.F64 Spq.Reim4 Spq.ProdErr Spq.Conv Spq.VmpErr
  Spq.ErrWitness Spq.ProgErr Spq.ProgErr2 Spq.Prog Spq.Closed

attribute [local irreducible] reimFftA reimIfftA vmpApplyDftToDft vmpPrepare

/-- Boolean flag on an arbitrary DFT-space operand -/
def vmpFlagBD (c : Cfg) (mat : Array Int) (nrows ncols : ℕ) (adft : Array ℕ) (asz rsz p : ℕ) : Bool :=
  ((vmpApplyDftToDft (pOkB c) rsz (adft.map liftB) asz
    (vmpPrepare (pOkB c) mat nrows ncols) nrows ncols).getD p arithOkB.zero).2

theorem vmp_flagD_of_bool (c : Cfg) (k : ℕ) (hk2 : 2 ≤ k) (cN sN cNi sNi : ℕ → ℕ) (h : VCfgOk c k cN sN cNi sNi)
    (mat : Array Int) (nrows ncols : ℕ) (adft : Array ℕ) (asz rsz : ℕ) (j p : ℕ) (hj : j < min ncols rsz)
    (hp : p < 2 * 2 ^ k) (hb : vmpFlagBD c mat nrows ncols adft asz rsz (j * (2 * 2 ^ k) + p) = true) :
    vmpFlagD c mat nrows ncols adft asz rsz (j * (2 * 2 ^ k) + p) := by
  have hnn := p_nn c k cN sN cNi sNi h
  have hm := parts_m c k h.cfg.nn
  have h8 : ¬ (Cfg.parts c).nn < 8 := by
    rw [hnn]
    have : 2 ^ 2 ≤ 2 ^ k := Nat.pow_le_pow_right (by norm_num) hk2
    omega
  obtain ⟨_, L1, _, _⟩ := vmp_layout_g (pOk c) (p_hnn c k cN sN cNi sNi h) (p_hblk c k cN sN cNi sNi h)
    (p_hsm c k cN sN cNi sNi h) mat nrows ncols rsz asz (adft.map lift) (fun hlt => absurd hlt h8)
  obtain ⟨_, L2, _, _⟩ := vmp_layout_g (pOkB c) (p_hnn c k cN sN cNi sNi h) (p_hblk c k cN sN cNi sNi h)
    (p_hsm c k cN sN cNi sNi h) mat nrows ncols rsz asz (adft.map liftB) (fun hlt => absurd hlt h8)
  unfold vmpFlagD
  unfold vmpFlagBD at hb
  have Q : ∀ t, RB
      (dotRe arithOkB (colKind (Cfg.parts c) ncols rsz j) (aRe arithOkB.zero (adft.map liftB) (Cfg.parts c).nn t)
        (aIm arithOkB.zero (adft.map liftB) (Cfg.parts c).nn (Cfg.parts c).m t)
        (fun i => ((matDft (Cfg.parts c) mat ncols i j).map liftB).getD t arithOkB.zero)
        (fun i => ((matDft (Cfg.parts c) mat ncols i j).map liftB).getD (t + (Cfg.parts c).m) arithOkB.zero) (min nrows asz))
      (dotRe arithOk (colKind (Cfg.parts c) ncols rsz j) (aRe arithOk.zero (adft.map lift) (Cfg.parts c).nn t)
        (aIm arithOk.zero (adft.map lift) (Cfg.parts c).nn (Cfg.parts c).m t)
        (fun i => ((matDft (Cfg.parts c) mat ncols i j).map lift).getD t arithOk.zero)
        (fun i => ((matDft (Cfg.parts c) mat ncols i j).map lift).getD (t + (Cfg.parts c).m) arithOk.zero) (min nrows asz)) ∧
    RB
      (dotIm arithOkB (colKind (Cfg.parts c) ncols rsz j) (aRe arithOkB.zero (adft.map liftB) (Cfg.parts c).nn t)
        (aIm arithOkB.zero (adft.map liftB) (Cfg.parts c).nn (Cfg.parts c).m t)
        (fun i => ((matDft (Cfg.parts c) mat ncols i j).map liftB).getD t arithOkB.zero)
        (fun i => ((matDft (Cfg.parts c) mat ncols i j).map liftB).getD (t + (Cfg.parts c).m) arithOkB.zero) (min nrows asz))
      (dotIm arithOk (colKind (Cfg.parts c) ncols rsz j) (aRe arithOk.zero (adft.map lift) (Cfg.parts c).nn t)
        (aIm arithOk.zero (adft.map lift) (Cfg.parts c).nn (Cfg.parts c).m t)
        (fun i => ((matDft (Cfg.parts c) mat ncols i j).map lift).getD t arithOk.zero)
        (fun i => ((matDft (Cfg.parts c) mat ncols i j).map lift).getD (t + (Cfg.parts c).m) arithOk.zero) (min nrows asz)) :=
    fun t => dot_sim arithOkB_sim (colKind (Cfg.parts c) ncols rsz j) _ _ _ _ _ _ _ _
      (fun i => getD_RB adft _) (fun i => getD_RB adft _) (fun i => getD_RB _ _) (fun i => getD_RB _ _) (min nrows asz)
  have hcell : ∀ t, t < 2 ^ k →
      ((vmpApplyDftToDft (pOkB c) rsz (adft.map liftB) asz (vmpPrepare (pOkB c) mat nrows ncols) nrows ncols).getD
          (j * (2 * 2 ^ k) + t) arithOkB.zero).2 = true →
        ((vmpApplyDftToDft (pOk c) rsz (adft.map lift) asz (vmpPrepare (pOk c) mat nrows ncols) nrows ncols).getD
          (j * (2 * 2 ^ k) + t) arithOk.zero).2 := by
    intro t ht hf
    have ht' : t < (Cfg.parts c).m := by rw [hm]; exact ht
    have e1 := (L1 j t hj ht' (fun hlt => absurd hlt h8)).1
    have e2 := (L2 j t hj ht' (fun hlt => absurd hlt h8)).1
    rw [show (pOk c).nn = 2 * 2 ^ k from hnn] at e1
    rw [show (pOkB c).nn = 2 * 2 ^ k from hnn] at e2
    rw [show (pOkB c).ar.zero = arithOkB.zero from rfl] at e2
    rw [show (pOk c).ar.zero = arithOk.zero from rfl] at e1
    rw [e2] at hf
    rw [e1]
    exact (Q t).1.2 hf
  have hcell2 : ∀ t, t < 2 ^ k →
      ((vmpApplyDftToDft (pOkB c) rsz (adft.map liftB) asz (vmpPrepare (pOkB c) mat nrows ncols) nrows ncols).getD
          (j * (2 * 2 ^ k) + t + 2 ^ k) arithOkB.zero).2 = true →
        ((vmpApplyDftToDft (pOk c) rsz (adft.map lift) asz (vmpPrepare (pOk c) mat nrows ncols) nrows ncols).getD
          (j * (2 * 2 ^ k) + t + 2 ^ k) arithOk.zero).2 := by
    intro t ht hf
    have ht' : t < (Cfg.parts c).m := by rw [hm]; exact ht
    have e1 := (L1 j t hj ht' (fun hlt => absurd hlt h8)).2
    have e2 := (L2 j t hj ht' (fun hlt => absurd hlt h8)).2
    rw [show (pOk c).nn = 2 * 2 ^ k from hnn, show (pOk c).m = 2 ^ k from hm] at e1
    rw [show (pOkB c).nn = 2 * 2 ^ k from hnn, show (pOkB c).m = 2 ^ k from hm] at e2
    rw [show (pOkB c).ar.zero = arithOkB.zero from rfl] at e2
    rw [show (pOk c).ar.zero = arithOk.zero from rfl] at e1
    rw [e2] at hf
    rw [e1]
    exact (Q t).2.2 hf
  by_cases hlt : p < 2 ^ k
  · exact hcell p hlt hb
  · obtain ⟨t, rfl⟩ : ∃ t, p = t + 2 ^ k := ⟨p - 2 ^ k, by omega⟩
    have ht : t < 2 ^ k := by omega
    rw [← Nat.add_assoc] at hb ⊢
    exact hcell2 t ht hb


/-! ## the concrete chain at N = 8 : svp -> vmpDD -> idft, operand = exI8 = stM (exA8, exB8), matrix 1x1 = exC8 -/

def P0 : Array Int := #[0, -94, 111, 114, -131, -22, 147, -54]
def Q0 : Array Int := #[-827, 70, 1045, -132, -1179, 1222, 29, -644]
def PV : Val := #[P0]
def MV : Val := #[exC8]

theorem P0_eq : nmul libMod8.N exA8 exB8 = P0 := ex_nmul
theorem polyP : polyArr libMod8.N (PV.coef 0) = P0 := by decide +kernel
theorem matEq : matOf libMod8 MV 1 1 = exC8 := by decide +kernel
theorem entC : matEntry exC8 1 libMod8.N 0 0 = exC8 := by decide +kernel
theorem limbI : dlimb exI8 0 libMod8.N = exI8 := by decide +kernel

/-- producer: the svp output satisfies the metric invariant with δ0 = svpDelta -/
noncomputable def d0 : ℝ := svpDelta libMod8 exA8 exB8 14 16

theorem svpB : SvpLimbBudget libMod8 exA8 exB8 d0 :=
  ⟨exA8_box, exB8_box, MulOk.of_pipe libPipeOk, 14, 16, by norm_num, by norm_num, exA8_n2, exB8_n2,
    by show (16:ℝ) ≤ ∑ t ∈ range (2 * 2 ^ 2), |((exB8.getD t 0 : Int) : ℝ)|; rw [exB8_n1]; norm_num, le_refl _⟩

theorem d0_nonneg : 0 ≤ d0 := svpDelta_nonneg libMod8 exA8 exB8 14 16 (by norm_num) (by norm_num)

theorem rep0 : MetricRep libMod8 PV 1 exI8 (fun _ => d0) := by
  refine ⟨by decide +kernel, fun i hi => ?_⟩
  have : i = 0 := by omega
  subst this
  rw [limbI, polyP, ← P0_eq]
  exact svp_stage libMod8 exA8 exB8 exA8_box exB8_box (MulOk.of_pipe libPipeOk) 14 16 (by norm_num) (by norm_num)
    exA8_n2 exB8_n2 (by show (16:ℝ) ≤ ∑ t ∈ range (2 * 2 ^ 2), |((exB8.getD t 0 : Int) : ℝ)|; rw [exB8_n1]; norm_num)

theorem P0_n2 : n2sq ℝ P0 libMod8.N ≤ (277:ℝ) ^ 2 := by
  show ∑ t ∈ range 8, _ ≤ _
  simp [sum_range_succ, P0]; norm_num

theorem flagsD : ∀ p, p < libMod8.N → vmpFlagD libC8 exC8 1 1 exI8 1 1 (0 * libMod8.N + p) := by
  intro p hp
  exact vmp_flagD_of_bool libC8 2 (le_refl 2) cN sN cNi sNi libVCfgOk exC8 1 1 exI8 1 1 0 p (by decide) hp
    (by
      have hall : (List.range (2 * 2 ^ 2)).all (fun p => vmpFlagBD libC8 exC8 1 1 exI8 1 1 (0 * (2 * 2 ^ 2) + p)) = true := by
        decide +kernel
      exact all_range hall p hp)

noncomputable def d1 : ℕ → ℝ := fun j =>
  colDelta libMod8 exC8 1 (min 1 1) (fun i => polyArr libMod8.N (PV.coef i)) j (fun _ => d0) (fun _ => 277) (fun _ => 15)

theorem vmpB : VmpDDBudget libMod8 (matOf libMod8 MV 1 1) 1 1 (fun i => polyArr libMod8.N (PV.coef i)) exI8 1 1
    (fun _ => d0) d1 := by
  rw [matEq]
  refine ⟨?_, ?_⟩
  · intro i j hi hj
    have : i = 0 := by omega
    have : j = 0 := by omega
    subst_vars
    rw [entC]; exact exC8_box
  · intro j hj _
    have hj' : j < 1 := hj
    have : j = 0 := by omega
    subst this
    refine ⟨?_, flagsD, fun _ => 277, fun _ => 15, fun _ _ => by norm_num, fun _ _ => by norm_num, ?_, ?_, le_refl _⟩
    · intro i hi
      have hi' : i < 1 := hi
      have : i = 0 := by omega
      subst this
      rw [entC]; exact lib_okC
    · intro i hi
      have hi' : i < 1 := hi
      have : i = 0 := by omega
      subst this
      show n2sq ℝ (polyArr libMod8.N (PV.coef 0)) libMod8.N ≤ _
      rw [polyP]; exact P0_n2
    · intro i hi
      have hi' : i < 1 := hi
      have : i = 0 := by omega
      subst this
      rw [entC]; exact exC8_n2

theorem d1_nonneg : ∀ j, j < 1 → 0 ≤ d1 j := fun j _ =>
  colDelta_nonneg libMod8 exC8 1 (min 1 1) _ j _ _ _ (fun _ _ => d0_nonneg) (fun _ _ => by norm_num) (fun _ _ => by norm_num)

/-- the second-level product satisfies the metric invariant -/
noncomputable def RV : Val := Val.mk libMod8.N 1 (Prog.vmpVal libMod8.N 1 (zext 1 fun i t => PV.coef i t) MV 1 1)
def R1 : Array ℕ := vmpApplyDftToDft (Cfg.parts libC8) 1 exI8 1 (vmpPrepare (Cfg.parts libC8) exC8 1 1) 1 1
theorem rep1 : MetricRep libMod8 (Val.mk libMod8.N 1 (Prog.vmpVal libMod8.N 1 (zext 1 fun i t => PV.coef i t) MV 1 1)) 1
    (vmpApplyDftToDft libMod8.parts 1 exI8 1 (vmpPrepare libMod8.parts (matOf libMod8 MV 1 1) 1 1) 1 1) d1 :=
  C16Err2.vmpDD_metric_f64_partial libMod8 PV 1 1 exI8 (fun _ => d0) MV 1 1 rep0 d1 d1_nonneg vmpB


/-! ### consumer -/
theorem R1_eq : vmpApplyDftToDft libMod8.parts 1 exI8 1 (vmpPrepare libMod8.parts (matOf libMod8 MV 1 1) 1 1) 1 1 = R1 := by
  rw [matEq]; rfl
theorem limbR : dlimb R1 0 libMod8.N = R1 := by decide +kernel
theorem R1_size : R1.size = 2 * 2 ^ 2 := by decide +kernel
theorem polyQ : polyArr libMod8.N ((Val.mk libMod8.N 1 (Prog.vmpVal libMod8.N 1 (zext 1 fun i t => PV.coef i t) MV 1 1)).coef 0) = Q0 := by
  decide +kernel

theorem invOkR : InvOk libC8 2 cNi sNi R1 :=
  ifft_flags_of_all (ifamOf libC8.ifftFma) (ifamOf_ok _) 2 cNi sNi R1 R1_size (by decide +kernel)

theorem Q0_n2 : n2sq ℝ Q0 libMod8.N ≤ (2258:ℝ) ^ 2 := by
  show ∑ t ∈ range 8, _ ≤ _
  simp [sum_range_succ, Q0]; norm_num

theorem P0_n1 : n1 ℝ P0 libMod8.N = 673 := by
  show ∑ t ∈ range 8, _ = _
  simp [sum_range_succ, P0]; norm_num
theorem C8_n1 : n1 ℝ exC8 libMod8.N = 36 := exC8_n1
theorem A8_n1 : n1 ℝ exA8 libMod8.N = 31 := exA8_n1
theorem B8_n1 : n1 ℝ exB8 libMod8.N = 37 := exB8_n1

/-- numeric bound of d0 -/
theorem d0_le : d0 ≤ ((12 * ((2:ℕ) + 1 : ℚ) * u64 : ℚ) : ℝ) * (31 * 16 + 14 * 37) := by
  have h := C16Err2.metric_budget_product_consistent libMod8 exA8 exB8 14 16 (by norm_num) (by norm_num)
  rw [A8_n1, B8_n1] at h
  have hS : (0:ℝ) ≤ (31 * 16 + 14 * 37) / 2 := by norm_num
  have : d0 ≤ invBudget libMod8 ((31 * 16 + 14 * 37) / 2) d0 := by
    unfold invBudget
    have := eps_nonneg (K := ℝ) libMod8.k
    have := d0_nonneg
    nlinarith
  exact le_trans this h

theorem d1_le : d1 0 ≤ 1 / 2 ^ 20 := by
  have h := C16Err2.vmpDD_budget_explicit_partial libMod8 exC8 1 (min 1 1) (fun i => polyArr libMod8.N (PV.coef i)) 0
    (fun _ => d0) (fun _ => 277) (fun _ => 15) (by decide) (fun _ _ => d0_nonneg) (fun _ _ => by norm_num)
    (fun _ _ => by norm_num)
    (by intro i hi
        have hi' : i < 1 := hi
        have : i = 0 := by omega
        subst this
        rw [entC, C8_n1]; norm_num)
  refine le_trans h ?_
  rw [show min 1 1 = 1 from rfl, sum_range_one, entC, C8_n1]
  rw [polyP, P0_n1]
  have hk : libMod8.k = 2 := rfl
  rw [hk]
  have hd := d0_le
  have h0 := d0_nonneg
  unfold u64 at hd ⊢
  push_cast at hd ⊢
  norm_num at hd ⊢
  nlinarith

theorem idftB : IdftLimbBudget libMod8 (dlimb R1 0 libMod8.N) Q0 (d1 0) := by
  rw [limbR]
  have h1 := d1_le
  have h0 := d1_nonneg 0 (by norm_num)
  have hE : invBudget libMod8 2258 (d1 0) < 1 / 2 := by
    unfold invBudget
    have he := eps_le16 (K := ℝ) libMod8.k libMod8.hk
    have he0 := eps_nonneg (K := ℝ) libMod8.k
    have hk : libMod8.k = 2 := rfl
    rw [hk] at he he0 ⊢
    unfold u64 at he
    push_cast at he
    norm_num at he h1
    nlinarith
  exact ⟨invOkR, 2258, by norm_num, Q0_n2, dom_of_box libMod8 _ _ 2258 (by norm_num) Q0_n2 (by norm_num) hE, hE⟩

/-- THE CHAIN: consumer theorem of C16Err2 applied to the product of a product at N = 8 over ℝ, no hypothesis left -/
theorem chain_exact : libMod8.parts.toZnx (libMod8.parts.ifft (dlimb R1 0 libMod8.N)) = Q0 := by
  have h := C16Err2.idft_of_metric_f64_partial libMod8 _ 1 _ d1 rep1 0 (by norm_num)
    (by rw [R1_eq, polyQ]; exact idftB)
  rw [R1_eq, polyQ] at h
  exact h

example : libMod8.parts.toZnx (libMod8.parts.ifft (dlimb R1 0 libMod8.N)) = Q0 := by decide +kernel
example : nmul 8 (nmul 8 exA8 exB8) exC8 = Q0 := by decide +kernel

end Spq.ErrWitnessChain
