/-
  No-overflow from a magnitude box, step 2: the bound arithmetic `aB` on the butterflies.  With data bounded by `U`
  and stored twiddles bounded by 1, every butterfly of `Spq/Fft/Core.lean` (forward and inverse, reference and FMA)
  has outputs bounded by `8·U`, and all its exact intermediate results are below `T = 2^1023` if `8·U < T`.
-/
import SpqProofs.Lemmas.VmpErrOvf1
set_option linter.unusedSectionVars false
namespace Spq.VmpErr
open Spq Spq.F64 Spq.Fft Spq.Fft.RelN Spq.FftErr

/-- the bound-flag holds and the bound is in `[0, U]` -/
def Bd (U : ℚ) (x : ℚ × Prop) : Prop := x.2 ∧ 0 ≤ x.1 ∧ x.1 ≤ U

theorem kap_le : kap ≤ 9 / 8 := by unfold kap u64; norm_num

theorem Bd.mono {U U' : ℚ} {x : ℚ × Prop} (h : Bd U x) (hU : U ≤ U') : Bd U' x := ⟨h.1, h.2.1, le_trans h.2.2 hU⟩

theorem scale_le {E V : ℚ} (hE : 0 ≤ E) (hV : E * (9 / 8) ≤ V) : E * kap ≤ V :=
  le_trans (mul_le_mul_of_nonneg_left kap_le hE) hV

theorem bd_add {U1 U2 V : ℚ} {x y : ℚ × Prop} (hx : Bd U1 x) (hy : Bd U2 y) (hlt : U1 + U2 < Tov)
    (hV : (U1 + U2) * (9 / 8) ≤ V) : Bd V (aB.add x y) := by
  obtain ⟨p1, n1, b1⟩ := hx
  obtain ⟨p2, n2, b2⟩ := hy
  refine ⟨⟨p1, p2, by linarith⟩, mul_nonneg (add_nonneg n1 n2) (le_of_lt kap_pos), ?_⟩
  show (x.1 + y.1) * kap ≤ V
  refine le_trans (mul_le_mul_of_nonneg_right (add_le_add b1 b2) (le_of_lt kap_pos)) ?_
  exact scale_le (by linarith) hV

theorem bd_sub {U1 U2 V : ℚ} {x y : ℚ × Prop} (hx : Bd U1 x) (hy : Bd U2 y) (hlt : U1 + U2 < Tov)
    (hV : (U1 + U2) * (9 / 8) ≤ V) : Bd V (aB.sub x y) := bd_add hx hy hlt hV

theorem bd_neg {U : ℚ} {x : ℚ × Prop} (hx : Bd U x) : Bd U (aB.neg x) := hx

/-- product with a stored twiddle (bounded by 1), either order -/
theorem bd_mulw {U V : ℚ} {x w : ℚ × Prop} (hx : Bd U x) (hw : Bd 1 w) (hlt : U < Tov) (hV : U * (9 / 8) ≤ V) :
    Bd V (aB.mul x w) ∧ Bd V (aB.mul w x) := by
  obtain ⟨p1, n1, b1⟩ := hx
  obtain ⟨p2, n2, b2⟩ := hw
  have hU : 0 ≤ U := le_trans n1 b1
  have h1 : x.1 * w.1 ≤ U := by
    calc x.1 * w.1 ≤ U * 1 := mul_le_mul b1 b2 n2 hU
      _ = U := mul_one _
  have h2 : w.1 * x.1 ≤ U := by rw [mul_comm]; exact h1
  constructor
  · refine ⟨⟨p1, p2, lt_of_le_of_lt h1 hlt⟩, mul_nonneg (mul_nonneg n1 n2) (le_of_lt kap_pos), ?_⟩
    show x.1 * w.1 * kap ≤ V
    exact le_trans (mul_le_mul_of_nonneg_right h1 (le_of_lt kap_pos)) (scale_le hU hV)
  · refine ⟨⟨p2, p1, lt_of_le_of_lt h2 hlt⟩, mul_nonneg (mul_nonneg n2 n1) (le_of_lt kap_pos), ?_⟩
    show w.1 * x.1 * kap ≤ V
    exact le_trans (mul_le_mul_of_nonneg_right h2 (le_of_lt kap_pos)) (scale_le hU hV)

/-- fused `x·w ± z` with a stored twiddle `w`, either order of the factors (`fma` and `fms`) -/
theorem bd_fmaw {U U3 V : ℚ} {x w z : ℚ × Prop} (hx : Bd U x) (hw : Bd 1 w) (hz : Bd U3 z) (hlt : U + U3 < Tov)
    (hV : (U + U3) * (9 / 8) ≤ V) :
    Bd V (aB.fma x w z) ∧ Bd V (aB.fma w x z) ∧ Bd V (aB.fms x w z) ∧ Bd V (aB.fms w x z) := by
  obtain ⟨p1, n1, b1⟩ := hx
  obtain ⟨p2, n2, b2⟩ := hw
  obtain ⟨p3, n3, b3⟩ := hz
  have hU : 0 ≤ U := le_trans n1 b1
  have h1 : x.1 * w.1 ≤ U := by
    calc x.1 * w.1 ≤ U * 1 := mul_le_mul b1 b2 n2 hU
      _ = U := mul_one _
  have h2 : w.1 * x.1 ≤ U := by rw [mul_comm]; exact h1
  have hU3 : 0 ≤ U3 := le_trans n3 b3
  have a1 : Bd V (((x.1 * w.1 + z.1) * kap, x.2 ∧ w.2 ∧ z.2 ∧ x.1 * w.1 + z.1 < Tov) : ℚ × Prop) := by
    refine ⟨⟨p1, p2, p3, by linarith⟩, mul_nonneg (add_nonneg (mul_nonneg n1 n2) n3) (le_of_lt kap_pos), ?_⟩
    show (x.1 * w.1 + z.1) * kap ≤ V
    exact le_trans (mul_le_mul_of_nonneg_right (add_le_add h1 b3) (le_of_lt kap_pos)) (scale_le (by linarith) hV)
  have a2 : Bd V (((w.1 * x.1 + z.1) * kap, w.2 ∧ x.2 ∧ z.2 ∧ w.1 * x.1 + z.1 < Tov) : ℚ × Prop) := by
    refine ⟨⟨p2, p1, p3, by linarith⟩, mul_nonneg (add_nonneg (mul_nonneg n2 n1) n3) (le_of_lt kap_pos), ?_⟩
    show (w.1 * x.1 + z.1) * kap ≤ V
    exact le_trans (mul_le_mul_of_nonneg_right (add_le_add h2 b3) (le_of_lt kap_pos)) (scale_le (by linarith) hV)
  exact ⟨a1, a2, a1, a2⟩

/-- outputs of a butterfly on the bound arithmetic: data `≤ U`, twiddles `≤ 1` ⇒ outputs `≤ 8U`, all flags -/
def BfBd (f : Bf (ℚ × Prop)) : Prop :=
  ∀ U : ℚ, 0 ≤ U → 8 * U < Tov → ∀ ra ia rb ib wr wi, Bd U ra → Bd U ia → Bd U rb → Bd U ib → Bd 1 wr → Bd 1 wi →
    Bd (8 * U) (f ra ia rb ib wr wi).1 ∧ Bd (8 * U) (f ra ia rb ib wr wi).2.1 ∧
    Bd (8 * U) (f ra ia rb ib wr wi).2.2.1 ∧ Bd (8 * U) (f ra ia rb ib wr wi).2.2.2

theorem ctRef_bd : BfBd (ctRef aB) := by
  intro U hU hT ra ia rb ib wr wi h1 h2 h3 h4 h5 h6
  have m1 := (bd_mulw (V := 9 / 8 * U) h3 h5 (by linarith) (by linarith)).1
  have m2 := (bd_mulw (V := 9 / 8 * U) h4 h6 (by linarith) (by linarith)).1
  have m3 := (bd_mulw (V := 9 / 8 * U) h3 h6 (by linarith) (by linarith)).1
  have m4 := (bd_mulw (V := 9 / 8 * U) h4 h5 (by linarith) (by linarith)).1
  have nr := bd_sub (V := 3 * U) m1 m2 (by linarith) (by linarith)
  have ni := bd_add (V := 3 * U) m3 m4 (by linarith) (by linarith)
  exact ⟨bd_add h1 nr (by linarith) (by linarith), bd_add h2 ni (by linarith) (by linarith),
    bd_sub h1 nr (by linarith) (by linarith), bd_sub h2 ni (by linarith) (by linarith)⟩

theorem citRef_bd : BfBd (citRef aB) := by
  intro U hU hT ra ia rb ib wr wi h1 h2 h3 h4 h5 h6
  have m1 := (bd_mulw (V := 9 / 8 * U) (bd_neg h3) h6 (by linarith) (by linarith)).1
  have m2 := (bd_mulw (V := 9 / 8 * U) h4 h5 (by linarith) (by linarith)).1
  have m3 := (bd_mulw (V := 9 / 8 * U) h3 h5 (by linarith) (by linarith)).1
  have m4 := (bd_mulw (V := 9 / 8 * U) h4 h6 (by linarith) (by linarith)).1
  have nr := bd_sub (V := 3 * U) m1 m2 (by linarith) (by linarith)
  have ni := bd_sub (V := 3 * U) m3 m4 (by linarith) (by linarith)
  exact ⟨bd_add h1 nr (by linarith) (by linarith), bd_add h2 ni (by linarith) (by linarith),
    bd_sub h1 nr (by linarith) (by linarith), bd_sub h2 ni (by linarith) (by linarith)⟩

theorem ctFma_bd : BfBd (ctFma aB) := by
  intro U hU hT ra ia rb ib wr wi h1 h2 h3 h4 h5 h6
  have m1 := (bd_mulw (V := 9 / 8 * U) h4 h6 (by linarith) (by linarith)).1
  have m2 := (bd_mulw (V := 9 / 8 * U) h3 h6 (by linarith) (by linarith)).1
  have nr := (bd_fmaw (V := 3 * U) h3 h5 m1 (by linarith) (by linarith)).2.2.1
  have ni := (bd_fmaw (V := 3 * U) h4 h5 m2 (by linarith) (by linarith)).1
  exact ⟨bd_add h1 nr (by linarith) (by linarith), bd_add h2 ni (by linarith) (by linarith),
    bd_sub h1 nr (by linarith) (by linarith), bd_sub h2 ni (by linarith) (by linarith)⟩

theorem citFmaB_bd : BfBd (citFmaB aB) := by
  intro U hU hT ra ia rb ib wr wi h1 h2 h3 h4 h5 h6
  have m1 := (bd_mulw (V := 9 / 8 * U) h4 h5 (by linarith) (by linarith)).2
  have m2 := (bd_mulw (V := 9 / 8 * U) h3 h5 (by linarith) (by linarith)).2
  have tr := (bd_fmaw (V := 3 * U) h3 h6 m1 (by linarith) (by linarith)).2.1
  have ti := (bd_fmaw (V := 3 * U) h4 h6 m2 (by linarith) (by linarith)).2.2.2
  exact ⟨bd_sub h1 tr (by linarith) (by linarith), bd_sub h2 ti (by linarith) (by linarith),
    bd_add h1 tr (by linarith) (by linarith), bd_add h2 ti (by linarith) (by linarith)⟩

theorem citFmaN_bd : BfBd (citFmaN aB) := by
  intro U hU hT ra ia rb ib wr wi h1 h2 h3 h4 h5 h6
  exact ctFma_bd U hU hT ra ia rb ib (aB.neg wi) wr h1 h2 h3 h4 (bd_neg h6) h5

theorem ictRef_bd : BfBd (ictRef aB) := by
  intro U hU hT ra ia rb ib wr wi h1 h2 h3 h4 h5 h6
  have rd := bd_sub (V := 9 / 4 * U) h1 h3 (by linarith) (by linarith)
  have id := bd_sub (V := 9 / 4 * U) h2 h4 (by linarith) (by linarith)
  have m1 := (bd_mulw (V := 3 * U) rd h5 (by linarith) (by linarith)).1
  have m2 := (bd_mulw (V := 3 * U) id h6 (by linarith) (by linarith)).1
  have m3 := (bd_mulw (V := 3 * U) rd h6 (by linarith) (by linarith)).1
  have m4 := (bd_mulw (V := 3 * U) id h5 (by linarith) (by linarith)).1
  exact ⟨bd_add h1 h3 (by linarith) (by linarith), bd_add h2 h4 (by linarith) (by linarith),
    bd_sub m1 m2 (by linarith) (by linarith), bd_add m3 m4 (by linarith) (by linarith)⟩

theorem icitRef_bd : BfBd (icitRef aB) := by
  intro U hU hT ra ia rb ib wr wi h1 h2 h3 h4 h5 h6
  have rd := bd_sub (V := 9 / 4 * U) h1 h3 (by linarith) (by linarith)
  have id := bd_sub (V := 9 / 4 * U) h2 h4 (by linarith) (by linarith)
  have m1 := (bd_mulw (V := 3 * U) rd h6 (by linarith) (by linarith)).1
  have m2 := (bd_mulw (V := 3 * U) id h5 (by linarith) (by linarith)).1
  have m3 := (bd_mulw (V := 3 * U) (bd_neg rd) h5 (by linarith) (by linarith)).1
  have m4 := (bd_mulw (V := 3 * U) id h6 (by linarith) (by linarith)).1
  exact ⟨bd_add h1 h3 (by linarith) (by linarith), bd_add h2 h4 (by linarith) (by linarith),
    bd_add m1 m2 (by linarith) (by linarith), bd_add m3 m4 (by linarith) (by linarith)⟩

theorem ictFma_bd : BfBd (ictFma aB) := by
  intro U hU hT ra ia rb ib wr wi h1 h2 h3 h4 h5 h6
  have rd := bd_sub (V := 9 / 4 * U) h1 h3 (by linarith) (by linarith)
  have id := bd_sub (V := 9 / 4 * U) h2 h4 (by linarith) (by linarith)
  have m1 := (bd_mulw (V := 3 * U) id h6 (by linarith) (by linarith)).1
  have m2 := (bd_mulw (V := 3 * U) rd h6 (by linarith) (by linarith)).1
  exact ⟨bd_add h1 h3 (by linarith) (by linarith), bd_add h2 h4 (by linarith) (by linarith),
    (bd_fmaw rd h5 m1 (by linarith) (by linarith)).2.2.1, (bd_fmaw id h5 m2 (by linarith) (by linarith)).1⟩

theorem icitFmaB_bd : BfBd (icitFmaB aB) := by
  intro U hU hT ra ia rb ib wr wi h1 h2 h3 h4 h5 h6
  have rd := bd_sub (V := 9 / 4 * U) h1 h3 (by linarith) (by linarith)
  have id := bd_sub (V := 9 / 4 * U) h2 h4 (by linarith) (by linarith)
  have m1 := (bd_mulw (V := 3 * U) id h5 (by linarith) (by linarith)).2
  have m2 := (bd_mulw (V := 3 * U) rd h5 (by linarith) (by linarith)).2
  exact ⟨bd_add h1 h3 (by linarith) (by linarith), bd_add h2 h4 (by linarith) (by linarith),
    (bd_fmaw rd h6 m1 (by linarith) (by linarith)).2.1, (bd_fmaw id h6 m2 (by linarith) (by linarith)).2.2.2⟩

theorem icitFmaN_bd : BfBd (icitFmaN aB) := by
  intro U hU hT ra ia rb ib wr wi h1 h2 h3 h4 h5 h6
  exact ictFma_bd U hU hT ra ia rb ib wi (aB.neg wr) h1 h2 h3 h4 h6 (bd_neg h5)

/-- all butterflies of an implementation -/
structure FlavBd (F : Flav (ℚ × Prop)) : Prop where
  ct : BfBd F.ct
  cit : BfBd F.cit
  ctS : BfBd F.ctS
  citS : BfBd F.citS
  ct2 : BfBd F.ct2

theorem fwdRef_bd : FlavBd (fwdRef aB) := ⟨ctRef_bd, citRef_bd, ctRef_bd, citRef_bd, ctRef_bd⟩
theorem fwdFma_bd : FlavBd (fwdFma aB) := ⟨ctFma_bd, citFmaB_bd, ctFma_bd, citFmaN_bd, ctRef_bd⟩
theorem invRef_bd : FlavBd (invRef aB) := ⟨ictRef_bd, icitRef_bd, ictRef_bd, icitRef_bd, ictRef_bd⟩
theorem invFma_bd : FlavBd (invFma aB) := ⟨ictFma_bd, icitFmaB_bd, ictFma_bd, icitFmaN_bd, ictRef_bd⟩

end Spq.VmpErr
