/-
  `rnx_divide_by_m_{ref,avx}`: cell-wise description, avx = ref, and the exact value for a power-of-two divisor.
-/
import SpqProofs.Lemmas.CoverBase
import SpqProofs.Lemmas.ConvToZnx
import SpqProofs.Lemmas.F64StdRnd
namespace Spq
namespace Cover
open Reim4 F64

/-! ### cell-wise description -/

theorem rnxRef_size (n m : Nat) (res a : Array Nat) : (rnxDivideByMRef n m res a).size = res.size :=
  scalarMap_size _ _ _

theorem rnxRef_getD (n m : Nat) (res a : Array Nat) (i : Nat) :
    (rnxDivideByMRef n m res a).getD i 0 =
      if i < n ∧ i < res.size then F64.mul (a.getD i 0) (invM m) else res.getD i 0 :=
  scalarMap_getD 0 n _ res i

theorem mulInvV_lane (invm : Nat) (a : Array Nat) (o l : Nat) (hl : l < 4) :
    (mulInvV invm a o).lane l = F64.mul (a.getD (o + l) 0) invm := by
  unfold mulInvV
  rw [V4.lane_map2, V4.lane_load _ _ _ _ hl, V4.lane_splat]

/-- the 8-wide `do … while` of the AVX kernel is the scalar loop over `8·⌈n/8⌉` cells -/
theorem rnxAvx_big (n m : Nat) (res a : Array Nat) (hn : 8 ≤ n) (hs : 8 * ((n + 7) / 8) ≤ res.size) :
    rnxDivideByMAvx n m res a = some (rnxDivideByMRef (8 * ((n + 7) / 8)) m res a) := by
  unfold rnxDivideByMAvx
  have h8 : ¬ n < 8 := by omega
  simp only [h8, if_false]
  congr 1
  have hit : 2 * doWhileIters n 8 = 2 * ((n + 7) / 8) := by
    unfold doWhileIters; rw [Nat.max_def]; split <;> omega
  rw [hit]
  obtain ⟨s1, s2, s3⟩ := mapV4_spec (0 : Nat) (2 * ((n + 7) / 8)) (fun j => 4 * j)
    (fun j _ => mulInvV (invM m) a (4 * j)) res (by intro j j' _ _ _; omega) (by intro j hj; omega)
  apply ext_getD 0 _ _ (by rw [s1, rnxRef_size])
  intro i
  rw [rnxRef_getD]
  by_cases hi : i < 8 * ((n + 7) / 8)
  · have hi2 : i < res.size := by omega
    rw [if_pos ⟨hi, hi2⟩]
    have e : i = 4 * (i / 4) + i % 4 := by omega
    have := s2 (i / 4) (by omega) (i % 4) (by omega)
    rw [mulInvV_lane _ _ _ _ (by omega)] at this
    rw [← e] at this
    exact this
  · have hn' : ¬ (i < 8 * ((n + 7) / 8) ∧ i < res.size) := by omega
    rw [if_neg hn']
    apply s3
    intro j hj
    omega

theorem rnxAvx_small (n m : Nat) (res a : Array Nat) (hn : n = 1 ∨ n = 2 ∨ n = 4) (hs : n ≤ res.size) :
    rnxDivideByMAvx n m res a = some (rnxDivideByMRef n m res a) := by
  unfold rnxDivideByMAvx
  rcases hn with rfl | rfl | rfl
  · simp only [show (1 : Nat) < 8 by omega, if_true, beq_self_eq_true]
    refine congrArg some ?_
    apply ext_getD 0 _ _ (by rw [rnxRef_size]; simp)
    intro i
    rw [rnxRef_getD, getD_setIfInBounds]
    by_cases h : i = 0
    · subst h; simp
    · have h1 : ¬ (0 = i ∧ i < res.size) := by omega
      have h2 : ¬ (i < 1 ∧ i < res.size) := by omega
      rw [if_neg h1, if_neg h2]
  · simp only [show (2 : Nat) < 8 by omega, if_true, show ((2 : Nat) == 1) = false by rfl, beq_self_eq_true,
      Bool.false_eq_true, if_false]
    refine congrArg some ?_
    apply ext_getD 0 _ _ (by rw [rnxRef_size]; simp)
    intro i
    rw [rnxRef_getD, getD_setIfInBounds, getD_setIfInBounds, Array.size_setIfInBounds]
    by_cases h1 : i = 1
    · subst h1
      have : (1 : Nat) < res.size := by omega
      simp [this]
    · by_cases h0 : i = 0
      · subst h0
        have : (0 : Nat) < res.size := by omega
        simp [this]
      · have a1 : ¬ (1 = i ∧ i < res.size) := by omega
        have a0 : ¬ (0 = i ∧ i < res.size) := by omega
        have a2 : ¬ (i < 2 ∧ i < res.size) := by omega
        rw [if_neg a1, if_neg a0, if_neg a2]
  · simp only [show (4 : Nat) < 8 by omega, if_true, show ((4 : Nat) == 1) = false by rfl,
      show ((4 : Nat) == 2) = false by rfl, beq_self_eq_true, Bool.false_eq_true, if_false]
    refine congrArg some ?_
    apply ext_getD 0 _ _ (by rw [rnxRef_size]; simp)
    intro i
    rw [rnxRef_getD, V4.getD_store]
    by_cases hi : i < 4
    · have h1 : 0 ≤ i ∧ i < 0 + 4 ∧ i < res.size := by omega
      have h2 : i < 4 ∧ i < res.size := by omega
      rw [if_pos h1, if_pos h2, mulInvV_lane _ _ _ _ (by omega)]
      congr 2; omega
    · have h1 : ¬ (0 ≤ i ∧ i < 0 + 4 ∧ i < res.size) := by omega
      have h2 : ¬ (i < 4 ∧ i < res.size) := by omega
      rw [if_neg h1, if_neg h2]

theorem rnxAvx_abort (n m : Nat) (res a : Array Nat) (hn : n < 8) (h1 : n ≠ 1) (h2 : n ≠ 2) (h4 : n ≠ 4) :
    rnxDivideByMAvx n m res a = none := by
  unfold rnxDivideByMAvx
  have e1 : (n == 1) = false := by simpa using h1
  have e2 : (n == 2) = false := by simpa using h2
  have e4 : (n == 4) = false := by simpa using h4
  simp [hn, e1, e2, e4]

/-! ### the value for a power-of-two divisor -/

theorem invM_pow2 (j : Int) (h1 : -1022 ≤ j) (h2 : j ≤ 1022) :
    decode (invM (pow2 j)) = ⟨false, 4503599627370496, -52 - j⟩ :=
  Conv.decode_invdiv j h1 h2

theorem val_invM_pow2 (j : Int) (h1 : -1022 ≤ j) (h2 : j ≤ 1022) : val (invM (pow2 j)) = 2 ^ (-j) := by
  rw [val_of_decode (invM_pow2 j h1 h2)]
  unfold sv sI
  simp only [Bool.false_eq_true, if_false]
  push_cast
  rw [show (4503599627370496 : ℚ) = 2 ^ (52 : ℤ) by norm_num, ← two_zpow_add]
  congr 1
  ring

theorem val_pow2 (j : Int) (h1 : -1022 ≤ j) (h2 : j ≤ 1023) : val (pow2 j) = 2 ^ j := by
  rw [val_of_decode (Conv.decode_pow2 j h1 h2)]
  unfold sv sI
  simp only [Bool.false_eq_true, if_false]
  push_cast
  rw [show (4503599627370496 : ℚ) = 2 ^ (52 : ℤ) by norm_num, ← two_zpow_add]
  congr 1
  ring

/-- `x * fl(1/2^j)` is exactly `x / 2^j` when that quotient is 0 or in the normal range -/
theorem mul_invM_pow2_exact (x : Nat) (j : Int) (h1 : -1022 ≤ j) (h2 : j ≤ 1022)
    (hq : val x = 0 ∨ (minNormal ≤ |val x * 2 ^ (-j)| ∧ |val x * 2 ^ (-j)| < 2 ^ (1024 : ℤ))) :
    val (F64.mul x (invM (pow2 j))) = val x * 2 ^ (-j) := by
  obtain ⟨sx, mx, ex, hx⟩ : ∃ sx mx ex, decode x = ⟨sx, mx, ex⟩ := ⟨_, _, _, rfl⟩
  have hp := invM_pow2 j h1 h2
  have hvx : val x = sv sx mx ex := val_of_decode hx
  by_cases hm0 : mx = 0
  · -- a signed zero
    subst hm0
    have hmul : F64.mul x (invM (pow2 j)) = pack (sx != false) (0 * 4503599627370496) (ex + (-52 - j)) :=
      mul_of_decode hx hp
    rw [Nat.zero_mul, pack_zero] at hmul
    rw [hmul, hvx, sv_zero, zero_mul]
    rw [val_of_decode (decode_sgn _), sv_zero]
  · have hvne : val x ≠ 0 := by
      rw [hvx]; intro h; exact hm0 (sv_eq_zero h)
    have hq' := hq.resolve_left hvne
    have hmlt : mx < 9007199254740992 := by have := decode_m_lt x; rw [hx] at this; exact this
    obtain ⟨k, hk, hn1, hn2⟩ := exists_norm_shift hm0 hmlt
    -- |val x · 2^-j| = (mx·2^k) · 2^(ex - k - j)
    have habs : |val x * 2 ^ (-j)| = ((mx * 2 ^ k : Nat) : ℚ) * 2 ^ (ex - k - j) := by
      rw [abs_mul, hvx, sv_abs, abs_of_pos (two_zpow_pos _)]
      push_cast
      have : (2 : ℚ) ^ (ex - (k : ℤ) - j) = 2 ^ ex * (2 ^ (k : ℤ))⁻¹ * 2 ^ (-j) := by
        rw [show ex - (k : ℤ) - j = ex + -(k : ℤ) + -j by ring, two_zpow_add, two_zpow_add, zpow_neg]
      rw [this, zpow_natCast]
      have hk0 : (2 : ℚ) ^ k ≠ 0 := by positivity
      field_simp
    have hlo : (4503599627370496 : ℚ) ≤ ((mx * 2 ^ k : Nat) : ℚ) := by exact_mod_cast hn1
    have hhi : ((mx * 2 ^ k : Nat) : ℚ) < 9007199254740992 := by exact_mod_cast hn2
    have hpos : (0 : ℚ) < 2 ^ (ex - k - j) := two_zpow_pos _
    -- no overflow: ex - k - j ≤ 971
    have hov : ex + (-52 - j) + 52 - k ≤ 971 := by
      by_contra hc
      have hge : (972 : ℤ) ≤ ex - k - j := by omega
      have h3 : (2 : ℚ) ^ (972 : ℤ) ≤ 2 ^ (ex - k - j) := zpow_le_zpow_right₀ (by norm_num) hge
      have h4 : (2 : ℚ) ^ (1024 : ℤ) = 4503599627370496 * 2 ^ (972 : ℤ) := by
        rw [show (4503599627370496 : ℚ) = 2 ^ (52 : ℤ) by norm_num, ← two_zpow_add]; norm_num
      have h5 := hq'.2
      rw [habs, h4] at h5
      have : (4503599627370496 : ℚ) * 2 ^ (972 : ℤ) ≤ ((mx * 2 ^ k : Nat) : ℚ) * 2 ^ (ex - k - j) :=
        mul_le_mul hlo h3 (le_of_lt (two_zpow_pos _)) (by linarith)
      exact absurd h5 (not_lt.mpr this)
    rcases mul_pow2_cases hx hp k hn1 hn2 hk hov with ⟨_, hd⟩ | ⟨hlt, _⟩
    · rw [val_of_decode hd, hvx]
      unfold sv
      have e1 : ex + (-52 - j) + 52 - (k : ℤ) = ex + -(k : ℤ) + -j := by ring
      rw [e1, two_zpow_add, two_zpow_add, zpow_neg, zpow_natCast]
      have hk0 : (2 : ℚ) ^ k ≠ 0 := by positivity
      have hsI : ((sI sx (mx * 2 ^ k) : ℤ) : ℚ) = (sI sx mx : ℚ) * 2 ^ k := by
        cases sx <;> simp [sI]
      rw [hsI]
      field_simp
    · -- underflow contradicts the hypothesis
      exfalso
      have hle : ex - k - j ≤ -1075 := by omega
      have h3 : (2 : ℚ) ^ (ex - k - j) ≤ 2 ^ (-1075 : ℤ) := zpow_le_zpow_right₀ (by norm_num) hle
      have h4 : minNormal = 9007199254740992 * 2 ^ (-1075 : ℤ) := by
        unfold minNormal
        rw [show (9007199254740992 : ℚ) = 2 ^ (53 : ℤ) by norm_num, ← two_zpow_add]; norm_num
      have h5 := hq'.1
      rw [habs, h4] at h5
      have : ((mx * 2 ^ k : Nat) : ℚ) * 2 ^ (ex - k - j) < 9007199254740992 * 2 ^ (-1075 : ℤ) := by
        calc ((mx * 2 ^ k : Nat) : ℚ) * 2 ^ (ex - k - j)
            < 9007199254740992 * 2 ^ (ex - k - j) := mul_lt_mul_of_pos_right hhi hpos
          _ ≤ 9007199254740992 * 2 ^ (-1075 : ℤ) := mul_le_mul_of_nonneg_left h3 (by norm_num)
      linarith

end Cover
end Spq
