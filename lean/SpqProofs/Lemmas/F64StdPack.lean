/-
  The value of `pack neg M E` for every nonzero `M` and every `E` (normal range, subnormal range, carry):
  finite unless the exact value reaches the overflow threshold, within half a unit in the last place of `M·2^E`.
-/
import SpqProofs.Lemmas.F64StdVal

namespace Spq.F64

theorem two_zpow_pos (e : ℤ) : (0 : ℚ) < 2 ^ e := zpow_pos (by norm_num) e

theorem two_zpow_add (a b : ℤ) : (2 : ℚ) ^ (a + b) = 2 ^ a * 2 ^ b := zpow_add₀ (by norm_num) a b

theorem two_zpow_le {a b : ℤ} (h : a ≤ b) : (2 : ℚ) ^ a ≤ 2 ^ b := zpow_le_zpow_right₀ (by norm_num) h

theorem two_zpow_lt {a b : ℤ} (h : a < b) : (2 : ℚ) ^ a < 2 ^ b := zpow_lt_zpow_right₀ (by norm_num) h

theorem two_zpow_le_iff {a b : ℤ} : (2 : ℚ) ^ a ≤ 2 ^ b ↔ a ≤ b := zpow_le_zpow_iff_right₀ (by norm_num)

theorem two_zpow_lt_iff {a b : ℤ} : (2 : ℚ) ^ a < 2 ^ b ↔ a < b := zpow_lt_zpow_iff_right₀ (by norm_num)

/-! ### finiteness of the patterns produced by `encode` -/

theorem fin64_normal_pattern (neg : Bool) (ex fr : Nat) (h2 : ex ≤ 2046) (hfr : fr < 4503599627370496) :
    Fin64 (sgn neg + ex * 4503599627370496 + fr) := by
  unfold Fin64 isFinite expField
  have hex : (sgn neg + ex * 4503599627370496 + fr) / 4503599627370496 % 2048 = ex := by
    rcases sgn_cases neg with ⟨_, h⟩ | ⟨_, h⟩ <;> rw [h] <;> omega
  rw [hex]
  refine ⟨?_, ?_⟩
  · rcases sgn_cases neg with ⟨_, h⟩ | ⟨_, h⟩ <;> rw [h] <;> omega
  · simp only [bne_iff_ne, ne_eq]; omega

theorem fin64_subnormal_pattern (neg : Bool) (q : Nat) (hq : q < 4503599627370496) : Fin64 (sgn neg + q) := by
  have := fin64_normal_pattern neg 0 q (by omega) hq
  simpa using this

/-- when `encode neg q e1` is a finite pattern of value `±q·2^e1` -/
theorem encode_val (neg : Bool) (q : Nat) (e1 : Int) (hq : q ≤ 9007199254740992)
    (h : (q < 4503599627370496 ∧ e1 = -1074) ∨
      (4503599627370496 ≤ q ∧ -1074 ≤ e1 ∧ (q < 9007199254740992 → e1 ≤ 971) ∧ (q = 9007199254740992 → e1 + 1 ≤ 971))) :
    Fin64 (encode neg q e1) ∧ val (encode neg q e1) = sv neg q e1 := by
  rcases h with ⟨h1, h2⟩ | ⟨h1, h2, h3, h4⟩
  · refine ⟨?_, ?_⟩
    · rw [encode_subnormal neg q e1 h1]; exact fin64_subnormal_pattern neg q h1
    · rw [val_of_decode (decode_encode_subnormal neg q e1 h1), h2]
  · rcases Nat.lt_or_ge q 9007199254740992 with hlt | hge
    · have he := h3 hlt
      refine ⟨?_, ?_⟩
      · rw [encode_normal neg q e1 h1 hlt (by omega)]
        exact fin64_normal_pattern neg _ _ (by omega) (by omega)
      · rw [val_of_decode (decode_encode_normal neg q e1 h1 hlt h2 he)]
    · have hq' : q = 9007199254740992 := by omega
      have he := h4 hq'
      subst hq'
      refine ⟨?_, ?_⟩
      · rw [encode_carry neg e1 (by omega)]
        have := fin64_normal_pattern neg (e1 + 1 + 1075).toNat 0 (by omega) (by omega)
        simpa using this
      · rw [val_of_decode (decode_encode_carry neg e1 h2 he)]
        unfold sv
        rw [two_zpow_add]
        have : ((sI neg 9007199254740992 : ℤ) : ℚ) = (sI neg 4503599627370496 : ℤ) * 2 := by
          cases neg <;> simp [sI] <;> norm_num
        rw [this]; ring

/-! ### the rounding error of the shifted significand -/

theorem rneI_err (M : Nat) (sh : Int) : |(rneI M sh : ℚ) * 2 ^ sh - M| ≤ 2 ^ sh / 2 := by
  unfold rneI
  split
  · obtain ⟨n, hn⟩ : ∃ n : Nat, sh = -(n : Int) := ⟨sh.natAbs, by omega⟩
    subst hn
    simp only [Int.natAbs_neg, Int.natAbs_natCast]
    push_cast
    rw [mul_assoc, ← zpow_natCast, ← two_zpow_add]
    have : ((n : ℤ) + -(n : ℤ)) = 0 := by omega
    rw [this, zpow_zero, mul_one, sub_self, abs_zero]
    exact le_of_lt (div_pos (two_zpow_pos _) (by norm_num))
  · obtain ⟨k, hk⟩ : ∃ k : Nat, sh = (k : Int) := ⟨sh.toNat, by omega⟩
    subst hk
    rw [Int.toNat_natCast, zpow_natCast]
    obtain ⟨h1, h2⟩ := rne_err M k
    have h1' : (2 : ℚ) * ((rne M k : ℚ) * 2 ^ k) ≤ 2 * M + 2 ^ k := by exact_mod_cast h1
    have h2' : (2 : ℚ) * M ≤ 2 * ((rne M k : ℚ) * 2 ^ k) + 2 ^ k := by exact_mod_cast h2
    rw [abs_le]; constructor <;> linarith

/-! ### the shift chosen by `pack` and the range of the shifted significand -/

theorem log2_bounds {M : Nat} (hM : M ≠ 0) : 2 ^ (M.log2 + 1) ≤ 2 * M ∧ M < 2 ^ (M.log2 + 1) := by
  refine ⟨?_, Nat.lt_log2_self⟩
  have := Nat.log2_self_le hM
  rw [pow_succ]; omega

/-- `2^(len-1) ≤ M` as rationals, `len = log2 M + 1` -/
theorem log2_zpow_le {M : Nat} (hM : M ≠ 0) : (2 : ℚ) ^ (((M.log2 + 1 : Nat) : ℤ) - 1) ≤ M := by
  have h := Nat.log2_self_le hM
  have e : ((M.log2 + 1 : Nat) : ℤ) - 1 = (M.log2 : ℤ) := by push_cast; omega
  rw [e, zpow_natCast]
  exact_mod_cast h

theorem shift_cases (M : Nat) (E : Int) (hM : M ≠ 0) :
    rneI M (shiftOf M E) ≤ 9007199254740992 ∧
    ((4503599627370496 ≤ rneI M (shiftOf M E) ∧ -1074 ≤ E + shiftOf M E ∧ (2 : ℚ) ^ (52 + shiftOf M E) ≤ M) ∨
     (E + shiftOf M E = -1074 ∧ rneI M (shiftOf M E) ≤ 4503599627370496 ∧
       (-1074 ≤ E → (rneI M (shiftOf M E) : ℚ) * 2 ^ shiftOf M E = M))) := by
  obtain ⟨hb1, hb2⟩ := log2_bounds hM
  have hL := log2_zpow_le hM
  obtain ⟨len, hlen⟩ : ∃ len, M.log2 + 1 = len := ⟨_, rfl⟩
  rw [hlen] at hb1 hb2 hL
  have hlen1 : 1 ≤ len := by omega
  rcases Int.lt_or_le (E + (len : Int) - 53) (-1074) with hsub | hnorm
  · -- subnormal clamp
    have hsh : shiftOf M E = -1074 - E := shiftOf_subnormal hlen hsub
    rw [hsh]
    have hq : rneI M (-1074 - E) ≤ 4503599627370496 := by
      unfold rneI
      split
      · rename_i h
        obtain ⟨n, hn⟩ : ∃ n : Nat, -1074 - E = -(n : Int) := ⟨(-1074 - E).natAbs, by omega⟩
        rw [hn]; simp only [Int.natAbs_neg, Int.natAbs_natCast]
        have h1 : M * 2 ^ n < 2 ^ len * 2 ^ n := Nat.mul_lt_mul_of_pos_right hb2 (by positivity)
        have h2 : 2 ^ len * 2 ^ n ≤ 2 ^ 52 := by
          rw [← pow_add]; exact Nat.pow_le_pow_right (by norm_num) (by omega)
        norm_num at h2; omega
      · rename_i h
        obtain ⟨k, hk⟩ : ∃ k : Nat, -1074 - E = (k : Int) := ⟨(-1074 - E).toNat, by omega⟩
        rw [hk, Int.toNat_natCast]
        apply rne_le
        have h2 : 2 ^ len ≤ 2 ^ (52 + k) := Nat.pow_le_pow_right (by norm_num) (by omega)
        rw [pow_add] at h2; norm_num at h2; omega
    refine ⟨by omega, Or.inr ⟨by omega, hq, ?_⟩⟩
    intro hE
    unfold rneI
    have : -1074 - E ≤ 0 := by omega
    simp only [this, if_true]
    obtain ⟨n, hn⟩ : ∃ n : Nat, -1074 - E = -(n : Int) := ⟨(-1074 - E).natAbs, by omega⟩
    rw [hn]; simp only [Int.natAbs_neg, Int.natAbs_natCast]
    push_cast
    rw [mul_assoc, ← zpow_natCast, ← two_zpow_add]
    have : ((n : ℤ) + -(n : ℤ)) = 0 := by omega
    rw [this, zpow_zero, mul_one]
  · -- normal shift
    have hsh : shiftOf M E = (len : Int) - 53 := shiftOf_normal hlen hnorm
    rw [hsh]
    have e52 : (52 : ℤ) + ((len : Int) - 53) = (len : ℤ) - 1 := by omega
    rw [e52]
    have hq : 4503599627370496 ≤ rneI M ((len : Int) - 53) ∧ rneI M ((len : Int) - 53) ≤ 9007199254740992 := by
      unfold rneI
      split
      · rename_i h
        obtain ⟨n, hn⟩ : ∃ n : Nat, (len : Int) - 53 = -(n : Int) := ⟨53 - len, by omega⟩
        rw [hn]; simp only [Int.natAbs_neg, Int.natAbs_natCast]
        have e : 2 ^ len * 2 ^ n = 2 ^ 53 := by rw [← pow_add]; congr 1; omega
        have h1 : M * 2 ^ n < 2 ^ len * 2 ^ n := Nat.mul_lt_mul_of_pos_right hb2 (by positivity)
        have h2 : 2 ^ len * 2 ^ n ≤ (2 * M) * 2 ^ n := Nat.mul_le_mul_right _ hb1
        rw [e] at h1 h2; norm_num at h1 h2
        constructor <;> linarith
      · rename_i h
        obtain ⟨k, hk⟩ : ∃ k : Nat, (len : Int) - 53 = (k : Int) := ⟨len - 53, by omega⟩
        rw [hk, Int.toNat_natCast]
        have e : 2 ^ len = 9007199254740992 * 2 ^ k := by
          have : len = 53 + k := by omega
          rw [this, pow_add]; norm_num
        apply rne_range
        · rw [e] at hb1; omega
        · rw [e] at hb2; exact hb2
    exact ⟨hq.2, Or.inl ⟨hq.1, by omega, hL⟩⟩

/-! ### the value of `pack` -/

theorem ovfThr_lt : ovfThr < 2 ^ (1024 : ℤ) := by
  unfold ovfThr
  have h1 : (2 : ℚ) ^ (1024 : ℤ) = 2 ^ 54 * 2 ^ (970 : ℤ) := by
    rw [← zpow_natCast, ← two_zpow_add]; norm_num
  have hp := two_zpow_pos 970
  rw [h1]
  clear h1
  generalize (2 : ℚ) ^ (970 : ℤ) = X at *
  have : (2 : ℚ) ^ 54 * X - X = (2 ^ 54 - 1) * X := by ring
  linarith

theorem ovfThr_eq_971 : ovfThr = (2 ^ 53 - 1 / 2) * 2 ^ (971 : ℤ) := by
  unfold ovfThr
  have h1 : (2 : ℚ) ^ (971 : ℤ) = 2 * 2 ^ (970 : ℤ) := by
    have : (971 : ℤ) = 1 + 970 := by norm_num
    rw [this, two_zpow_add, zpow_one]
  rw [h1]
  generalize (2 : ℚ) ^ (970 : ℤ) = X
  ring

theorem sv_sub_abs (s : Bool) (q M : Nat) (e1 E : Int) :
    |sv s q e1 - sv s M E| = |(q : ℚ) * 2 ^ e1 - (M : ℚ) * 2 ^ E| := by
  cases s
  · simp [sv, sI]
  · simp only [sv, sI, if_true]
    push_cast
    rw [← abs_neg]; congr 1; ring

/-- `pack` rounds `M·2^E` to a finite pattern within half a unit `2^e1` of the last place; either the
    significand is normalised (`2^(52+e1) ≤ M·2^E`) or `e1 = -1074` (and then a value with `E ≥ -1074` is exact) -/
theorem pack_core (neg : Bool) (M : Nat) (E : Int) (hM : M ≠ 0) (hov : (M : ℚ) * 2 ^ E < ovfThr) :
    ∃ e1 : ℤ, -1074 ≤ e1 ∧ Fin64 (pack neg M E) ∧ |val (pack neg M E) - sv neg M E| ≤ 2 ^ e1 / 2 ∧
      ((2 : ℚ) ^ (52 + e1) ≤ (M : ℚ) * 2 ^ E ∨ (e1 = -1074 ∧ (-1074 ≤ E → val (pack neg M E) = sv neg M E))) := by
  rw [pack_eq neg M E hM]
  obtain ⟨hq53, hc⟩ := shift_cases M E hM
  have herr := rneI_err M (shiftOf M E)
  generalize shiftOf M E = sh at *
  generalize rneI M sh = q at *
  have hE := two_zpow_pos E
  have hS := two_zpow_pos sh
  have herr2 : |(q : ℚ) * 2 ^ (E + sh) - (M : ℚ) * 2 ^ E| ≤ 2 ^ (E + sh) / 2 := by
    have e : (q : ℚ) * 2 ^ (E + sh) - (M : ℚ) * 2 ^ E = 2 ^ E * ((q : ℚ) * 2 ^ sh - M) := by
      rw [two_zpow_add]; ring
    rw [e, abs_mul, abs_of_pos hE, two_zpow_add, mul_div_assoc]
    exact mul_le_mul_of_nonneg_left herr (le_of_lt hE)
  have hcond : (q < 4503599627370496 ∧ E + sh = -1074) ∨
      (4503599627370496 ≤ q ∧ -1074 ≤ E + sh ∧ (q < 9007199254740992 → E + sh ≤ 971) ∧
        (q = 9007199254740992 → E + sh + 1 ≤ 971)) := by
    rcases hc with ⟨h52, he1, hML⟩ | ⟨he1, hq52, _⟩
    · right
      have hle : E + sh ≤ 971 := by
        by_contra hcon
        have h1 : (2 : ℚ) ^ (1024 : ℤ) ≤ 2 ^ (52 + sh) * 2 ^ E := by
          rw [← two_zpow_add]; exact two_zpow_le (by omega)
        have h2 : (2 : ℚ) ^ (52 + sh) * 2 ^ E ≤ (M : ℚ) * 2 ^ E := mul_le_mul_of_nonneg_right hML (le_of_lt hE)
        linarith [ovfThr_lt]
      refine ⟨h52, he1, fun _ => hle, ?_⟩
      intro hq
      by_contra hcon
      have he : E + sh = 971 := by omega
      rw [he, hq] at herr2
      rw [ovfThr_eq_971] at hov
      generalize (2 : ℚ) ^ (971 : ℤ) = X at *
      have := (abs_le.1 herr2).2
      push_cast at this
      have e : ((2 : ℚ) ^ 53 - 1 / 2) * X = 9007199254740992 * X - X / 2 := by ring
      linarith
    · rcases Nat.lt_or_ge q 4503599627370496 with h | h
      · exact Or.inl ⟨h, he1⟩
      · exact Or.inr ⟨h, by omega, fun _ => by omega, fun h' => by omega⟩
  obtain ⟨hfin, hval⟩ := encode_val neg q (E + sh) hq53 hcond
  refine ⟨E + sh, ?_, hfin, ?_, ?_⟩
  · rcases hc with ⟨_, he1, _⟩ | ⟨he1, _, _⟩ <;> omega
  · rw [hval, sv_sub_abs]; exact herr2
  · rcases hc with ⟨_, _, hML⟩ | ⟨he1, _, hex⟩
    · left
      have e : (52 : ℤ) + (E + sh) = (52 + sh) + E := by ring
      rw [e, two_zpow_add]
      exact mul_le_mul_of_nonneg_right hML (le_of_lt hE)
    · right
      refine ⟨he1, fun h => ?_⟩
      have hx := hex h
      rw [hval]
      unfold sv
      rw [two_zpow_add]
      cases neg <;> simp only [sI, if_true, Bool.false_eq_true, if_false] <;> push_cast <;> rw [← hx] <;> ring

/-- below the overflow threshold, `pack` returns a finite pattern whose value is an integer multiple of `2^E`
    with the sign `neg` (rounding never leaves the grid `2^E·ℤ` of its argument) -/
theorem pack_form (neg : Bool) (M : Nat) (E : Int) (hM : M ≠ 0) (hov : (M : ℚ) * 2 ^ E < ovfThr) :
    ∃ N : ℕ, val (pack neg M E) = sv neg N E := by
  have hr : ∀ sh : ℤ, ∃ N : ℕ, (rneI M sh : ℚ) * 2 ^ sh = N := by
    intro sh
    unfold rneI
    split
    · obtain ⟨n, hn⟩ : ∃ n : Nat, sh = -(n : Int) := ⟨sh.natAbs, by omega⟩
      subst hn
      refine ⟨M, ?_⟩
      simp only [Int.natAbs_neg, Int.natAbs_natCast]
      push_cast
      rw [mul_assoc, ← zpow_natCast, ← two_zpow_add]
      have : ((n : ℤ) + -(n : ℤ)) = 0 := by omega
      rw [this, zpow_zero, mul_one]
    · obtain ⟨k, hk⟩ : ∃ k : Nat, sh = (k : Int) := ⟨sh.toNat, by omega⟩
      subst hk
      refine ⟨rne M k * 2 ^ k, ?_⟩
      rw [Int.toNat_natCast, zpow_natCast]; push_cast; ring
  obtain ⟨N, hN⟩ := hr (shiftOf M E)
  refine ⟨N, ?_⟩
  rw [pack_eq neg M E hM]
  obtain ⟨hq53, hc⟩ := shift_cases M E hM
  have herr := rneI_err M (shiftOf M E)
  generalize shiftOf M E = sh at *
  generalize rneI M sh = q at *
  have hE := two_zpow_pos E
  have hS := two_zpow_pos sh
  have herr2 : |(q : ℚ) * 2 ^ (E + sh) - (M : ℚ) * 2 ^ E| ≤ 2 ^ (E + sh) / 2 := by
    have e : (q : ℚ) * 2 ^ (E + sh) - (M : ℚ) * 2 ^ E = 2 ^ E * ((q : ℚ) * 2 ^ sh - M) := by
      rw [two_zpow_add]; ring
    rw [e, abs_mul, abs_of_pos hE, two_zpow_add, mul_div_assoc]
    exact mul_le_mul_of_nonneg_left herr (le_of_lt hE)
  have hcond : (q < 4503599627370496 ∧ E + sh = -1074) ∨
      (4503599627370496 ≤ q ∧ -1074 ≤ E + sh ∧ (q < 9007199254740992 → E + sh ≤ 971) ∧
        (q = 9007199254740992 → E + sh + 1 ≤ 971)) := by
    rcases hc with ⟨h52, he1, hML⟩ | ⟨he1, hq52, _⟩
    · right
      have hle : E + sh ≤ 971 := by
        by_contra hcon
        have h1 : (2 : ℚ) ^ (1024 : ℤ) ≤ 2 ^ (52 + sh) * 2 ^ E := by
          rw [← two_zpow_add]; exact two_zpow_le (by omega)
        have h2 : (2 : ℚ) ^ (52 + sh) * 2 ^ E ≤ (M : ℚ) * 2 ^ E := mul_le_mul_of_nonneg_right hML (le_of_lt hE)
        linarith [ovfThr_lt]
      refine ⟨h52, he1, fun _ => hle, ?_⟩
      intro hq
      by_contra hcon
      have he : E + sh = 971 := by omega
      rw [he, hq] at herr2
      rw [ovfThr_eq_971] at hov
      generalize (2 : ℚ) ^ (971 : ℤ) = X at *
      have := (abs_le.1 herr2).2
      push_cast at this
      have e : ((2 : ℚ) ^ 53 - 1 / 2) * X = 9007199254740992 * X - X / 2 := by ring
      linarith
    · rcases Nat.lt_or_ge q 4503599627370496 with h | h
      · exact Or.inl ⟨h, he1⟩
      · exact Or.inr ⟨h, by omega, fun _ => by omega, fun h' => by omega⟩
  obtain ⟨_, hval⟩ := encode_val neg q (E + sh) hq53 hcond
  rw [hval]
  unfold sv
  rw [two_zpow_add]
  have e : ((sI neg q : ℤ) : ℚ) * (2 ^ E * 2 ^ sh) = (if neg then -1 else 1) * (((q : ℚ) * 2 ^ sh) * 2 ^ E) := by
    cases neg <;> simp [sI] <;> ring
  have e' : ((sI neg N : ℤ) : ℚ) * 2 ^ E = (if neg then -1 else 1) * ((N : ℚ) * 2 ^ E) := by
    cases neg <;> simp [sI]
  rw [e, e', hN]

theorem half_zpow (e : ℤ) : (2 : ℚ) ^ e / 2 = u64 * 2 ^ (52 + e) := by
  unfold u64
  rw [div_eq_mul_inv, ← zpow_neg_one, ← two_zpow_add, ← two_zpow_add]
  congr 1; ring

theorem halfMinSub_eq : halfMinSub = u64 * minNormal := by
  unfold halfMinSub u64 minNormal
  rw [← two_zpow_add]; norm_num

theorem u64_pos : 0 < u64 := two_zpow_pos _

theorem val_sgn (neg : Bool) : val (sgn neg) = 0 := by
  have h := decode_subnormal_pattern neg 0 (by norm_num)
  rw [Nat.add_zero] at h
  rw [val_of_decode h, sv_zero]

theorem fin64_sgn (neg : Bool) : Fin64 (sgn neg) := by
  have := fin64_subnormal_pattern neg 0 (by norm_num)
  simpa using this

/-- **`pack` satisfies the standard model.**  For `x = M·2^E` below the overflow threshold the result is finite and
    (2) in the normal range the relative error is at most `2^-53`; (3) in the subnormal range the absolute error is at most
    `2^-1075`; (4) when `E ≥ -1074` (sums of doubles) the relative bound holds without any lower limit. -/
theorem pack_std (neg : Bool) (M : Nat) (E : Int) (hov : (M : ℚ) * 2 ^ E < ovfThr) :
    Fin64 (pack neg M E) ∧
    (minNormal ≤ (M : ℚ) * 2 ^ E → |val (pack neg M E) - sv neg M E| ≤ u64 * ((M : ℚ) * 2 ^ E)) ∧
    ((M : ℚ) * 2 ^ E ≤ minNormal → |val (pack neg M E) - sv neg M E| ≤ halfMinSub) ∧
    (-1074 ≤ E → |val (pack neg M E) - sv neg M E| ≤ u64 * ((M : ℚ) * 2 ^ E)) := by
  have hu := u64_pos
  by_cases hM : M = 0
  · subst hM
    rw [pack_zero, val_sgn, sv_zero, sub_self, abs_zero]
    refine ⟨fin64_sgn neg, fun _ => ?_, fun _ => le_of_lt (two_zpow_pos _), fun _ => ?_⟩ <;> simp
  obtain ⟨e1, he1, hfin, herr, hc⟩ := pack_core neg M E hM hov
  rw [half_zpow] at herr
  have hmono : ∀ {y : ℚ}, (2 : ℚ) ^ (52 + e1) ≤ y → |val (pack neg M E) - sv neg M E| ≤ u64 * y :=
    fun h => le_trans herr (mul_le_mul_of_nonneg_left h (le_of_lt hu))
  refine ⟨hfin, fun hn => ?_, fun hs => ?_, fun hE => ?_⟩
  · rcases hc with h | ⟨h, _⟩
    · exact hmono h
    · apply hmono
      refine le_trans ?_ hn
      rw [h]; unfold minNormal; norm_num
  · have he : e1 = -1074 := by
      rcases hc with h | ⟨h, _⟩
      · have h2 : (2 : ℚ) ^ (52 + e1) ≤ 2 ^ (-1022 : ℤ) := le_trans h hs
        have := two_zpow_le_iff.1 h2
        omega
      · exact h
    rw [halfMinSub_eq]
    apply hmono
    rw [he]; unfold minNormal; norm_num
  · rcases hc with h | ⟨_, h⟩
    · exact hmono h
    · rw [h hE, sub_self, abs_zero]
      exact mul_nonneg (le_of_lt hu) (mul_nonneg (Nat.cast_nonneg _) (le_of_lt (two_zpow_pos _)))

end Spq.F64
