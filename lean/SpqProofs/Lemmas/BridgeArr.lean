/-
  Bridge, array side: the `Ops`-parametrised specification formulas of `Spq.Rq` (`rotCoeff`, `mulXpCoeff`,
  `autVal`), instantiated with the operations of a commutative ring, are the function-level formulas
  `rot`, `mulxp` of `BridgeRot.lean`; coefficient arrays as functions.
-/
import SpqProofs.Lemmas.BridgeAut

namespace Spq.Bridge
open Polynomial Finset Spq.Rq

variable {R : Type} [CommRing R]

/-- the `Ops` record of a ring -/
def ringOps (R : Type) [CommRing R] : Ops R :=
  { zero := 0, neg := Neg.neg, add := (· + ·), sub := (· - ·) }

/-- a coefficient array read as a function (zero outside) -/
def ofArr (a : Array R) : Nat → R := fun i => a.getD i 0

theorem rotCoeff_ringOps (n : Nat) (p : Int) (a : Array R) (k : Nat) :
    rotCoeff (ringOps R) n p a k = rot n p (ofArr a) k := rfl

theorem mulXpCoeff_ringOps (n : Nat) (p : Int) (a : Array R) (k : Nat) :
    mulXpCoeff (ringOps R) n p a k = mulxp n p (ofArr a) k := rfl

theorem autVal_ringOps (n : Nat) (p : Int) (a : Array R) (i : Nat) :
    autVal (ringOps R) n p a i = if autExp n p i < n then ofArr a i else - ofArr a i := rfl

theorem ofArr_of_getElem? (r : Array R) (k : Nat) (v : R) (h : r[k]? = some v) : ofArr r k = v := by
  unfold ofArr
  rw [Array.getD_eq_getD_getElem?, h]; rfl

/-- an array whose cells `k < n` are given by `F` represents `toPoly n F` -/
theorem toPoly_ofArr_of_spec (n : Nat) (r : Array R) (F : Nat → R)
    (h : ∀ k, k < n → r[k]? = some (F k)) : toPoly n (ofArr r) = toPoly n F :=
  toPoly_congr n _ _ (fun k hk => ofArr_of_getElem? r k _ (h k hk))

/-- (5), arrays: two arrays of size `n` with the same class in `R[X]/(X^n+1)` are equal -/
theorem arr_eq_of_mk_eq (n : Nat) (a b : Array R) (ha : a.size = n) (hb : b.size = n)
    (h : mk n (toPoly n (ofArr a)) = mk n (toPoly n (ofArr b))) : a = b := by
  apply Array.ext (by rw [ha, hb])
  intro i h1 h2
  have := toPoly_injective' n _ _ h i (by omega)
  unfold ofArr at this
  rwa [Array.getD_eq_getD_getElem?, Array.getD_eq_getD_getElem?, Array.getElem?_eq_getElem h1,
    Array.getElem?_eq_getElem h2] at this

end Spq.Bridge
