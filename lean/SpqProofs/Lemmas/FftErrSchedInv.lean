/-
  C06.4, structural schedule theorem (inverse reim): `ifftRI F m T s` is the inverse level network `VNI` whose block `b`
  of step `n` (level `ℓ = k − 1 − n`) runs the butterfly `gNet F c s k ℓ n b` (same selection rule as the forward
  network, with the inverse butterfly functions and the stored conjugate twiddles).
-/
import SpqProofs.Lemmas.FftErrSchedIKern
import SpqProofs.Lemmas.FftErrSchedTop
import SpqProofs.Lemmas.FftKernInv
set_option linter.unusedSectionVars false
set_option linter.unusedSimpArgs false
namespace Spq.Fft.SchedN
open Spq.Fft Spq.Fft.Alg Spq.Fft.View Spq.Fft.Sim Spq.Fft.SimP Spq.Fft.LevelN Spq.Fft.KernN Spq.Fft.Tw
open Spq.Fft.Kern (ileafE)
open Spq.Fft.Tab (length_flatMap_const)
open Spq.Fft.Sched (iter_counter)

variable {R : Type} [Inhabited R]

/-- reading `exp(−2iπx)` stored as `(cos, −sin)`: `c x` and `s x` are the two stored values -/
theorem read_eMN (c s : ℕ → R) (T : Array R) (t x : ℕ) (h : SegP T t ((eM x).map (valP c s))) :
    T[t]! = c x ∧ T[t + 1]! = s x := by
  have h0 := h 0 (by simp [eM])
  have h1 := h 1 (by simp [eM])
  simp only [Nat.add_zero] at h0
  rw [h0, h1]
  simp [eM, valP]

/-- the reim inverse leaf pack read through `reimIW16` -/
theorem ileaf_readN (c s : ℕ → R) (T : Array R) (t e U : ℕ) (h : SegP T t ((riFill16 U e).map (valP c s))) :
    ∀ q, q < 8 → reimIW16 T t q = (c (ileafE e U q), s (ileafE e U q)) := by
  have hl : ((riFill16 U e).map (valP c s)).length = 16 := by simp [riFill16, eM, gam]
  have g : ∀ j, j < 16 → T[t + j]! = ((riFill16 U e).map (valP c s))[j]! := fun j hj => h j (by omega)
  intro q hq
  have : q = 0 ∨ q = 1 ∨ q = 2 ∨ q = 3 ∨ q = 4 ∨ q = 5 ∨ q = 6 ∨ q = 7 := by omega
  rcases this with rfl | rfl | rfl | rfl | rfl | rfl | rfl | rfl
  · have a := g 0 (by omega); have b := g 4 (by omega)
    simp only [Nat.add_zero] at a
    simp only [reimIW16, ileafE, Nat.reduceLT, ↓reduceIte, Nat.reduceMul, Nat.reduceAdd, Nat.add_zero, Nat.add_assoc]
    rw [a, b]; simp [riFill16, eM, gam, valP, Nat.add_assoc]
  · have a := g 1 (by omega); have b := g 5 (by omega)
    simp only [reimIW16, ileafE, Nat.reduceLT, ↓reduceIte, Nat.reduceMul, Nat.reduceAdd, Nat.add_zero, Nat.add_assoc]
    rw [a, b]; simp [riFill16, eM, gam, valP, Nat.add_assoc]
  · have a := g 2 (by omega); have b := g 6 (by omega)
    simp only [reimIW16, ileafE, Nat.reduceLT, ↓reduceIte, Nat.reduceMul, Nat.reduceAdd, Nat.add_zero, Nat.add_assoc]
    rw [a, b]; simp [riFill16, eM, gam, valP, Nat.add_assoc]
  · have a := g 3 (by omega); have b := g 7 (by omega)
    simp only [reimIW16, ileafE, Nat.reduceLT, ↓reduceIte, Nat.reduceMul, Nat.reduceAdd, Nat.add_zero, Nat.add_assoc]
    rw [a, b]; simp [riFill16, eM, gam, valP, Nat.add_assoc]
  · have a := g 8 (by omega); have b := g 9 (by omega)
    simp only [reimIW16, ileafE, Nat.reduceLT, ↓reduceIte, Nat.reduceMul, Nat.reduceAdd, Nat.add_zero, Nat.add_assoc]
    rw [a, b]; simp [riFill16, eM, gam, valP, Nat.add_assoc]
  · have a := g 10 (by omega); have b := g 11 (by omega)
    simp only [reimIW16, ileafE, Nat.reduceLT, ↓reduceIte, Nat.reduceMul, Nat.reduceAdd, Nat.add_zero, Nat.add_assoc]
    rw [a, b]; simp [riFill16, eM, gam, valP, Nat.add_assoc]
  · have a := g 12 (by omega); have b := g 13 (by omega)
    simp only [reimIW16, ileafE, Nat.reduceLT, ↓reduceIte, Nat.reduceMul, Nat.reduceAdd, Nat.add_zero, Nat.add_assoc]
    rw [a, b]; simp [riFill16, eM, gam, valP, Nat.add_assoc]
  · have a := g 14 (by omega); have b := g 15 (by omega)
    simp only [reimIW16, ileafE, Nat.reduceLT, ↓reduceIte, Nat.reduceMul, Nat.reduceAdd, Nat.add_zero, Nat.add_assoc]
    rw [a, b]; simp [riFill16, eM, gam, valP, Nat.add_assoc]

variable (F : Flav R) (c s : ℕ → R) (k : ℕ) (y : ℕ → R × R)

/-- one inverse 16-point leaf on block `B` of level `k − 4` -/
theorem ileaf_stepN (T : Array R) (t N ℓ B off e : ℕ) (s0 : RI R) (hs : Valid N s0) (hoff : off = 16 * B)
    (hN : off + 16 ≤ N) (hk : k = ℓ + 4) (he : e = 16 * (1 + 4 * brev ℓ B))
    (hT : SegP T t ((riFill16 (4 * 2 ^ k) e).map (valP c s))) :
    AdvI k (gNet F c s k) y (prs s0) (prs (ifft16 F T t off s0)) 0 4 off 16 ∧ Valid N (ifft16 F T t off s0) := by
  have hw := ileaf_readN c s T t e (4 * 2 ^ k) hT
  obtain ⟨x0, x1, x2, x3, x4, x5, x6, x7⟩ := leaf_exps ℓ B e (4 * 2 ^ k) he (by rw [hk])
  have w0 := hw 0 (by omega); have w1 := hw 1 (by omega); have w2 := hw 2 (by omega)
  have w3 := hw 3 (by omega); have w4 := hw 4 (by omega); have w5 := hw 5 (by omega)
  have w6 := hw 6 (by omega); have w7 := hw 7 (by omega)
  simp only [ileafE] at w0 w1 w2 w3 w4 w5 w6 w7
  rw [x4] at w0; rw [x5] at w1; rw [x6] at w2; rw [x7] at w3; rw [x2] at w4; rw [x3] at w5; rw [x1] at w6
  rw [x0] at w7
  have c4 : clv (k - ℓ) = false := by rw [show k - ℓ = 4 by omega]; rfl
  have c3 : clv (k - (ℓ + 1)) = true := by rw [show k - (ℓ + 1) = 3 by omega]; rfl
  have c2 : clv (k - (ℓ + 2)) = true := by rw [show k - (ℓ + 2) = 2 by omega]; rfl
  have c1 : clv (k - (ℓ + 3)) = true := by rw [show k - (ℓ + 3) = 1 by omega]; rfl
  have hct := ctK_big F k (by omega)
  have hcit := citK_big F k (by omega)
  unfold ifft16
  apply ifft16K_advN k (gNet F c s k) y F (reimIW16 T t) N ℓ B off s0 hs (by omega) hoff hN
  · intro q hq
    rw [gNet_ct F c s k (ℓ + 3) 0 (8 * B + 2 * q) (Or.inr (by omega)), hct]
    have : q = 0 ∨ q = 1 ∨ q = 2 ∨ q = 3 := by omega
    rcases this with rfl | rfl | rfl | rfl
    · rw [w0]; rfl
    · rw [w1]
    · rw [w2]
    · rw [w3]
  · intro q hq
    rw [show 8 * B + 2 * q + 1 = 2 * (4 * B + q) + 1 by ring, gNet_cit F c s k (ℓ + 3) 0 (4 * B + q) c1, hcit,
      show 2 * (4 * B + q) = 8 * B + 2 * q by ring]
    have : q = 0 ∨ q = 1 ∨ q = 2 ∨ q = 3 := by omega
    rcases this with rfl | rfl | rfl | rfl
    · rw [w0]; rfl
    · rw [w1]
    · rw [w2]
    · rw [w3]
  · rw [gNet_ct F c s k (ℓ + 2) 1 (4 * B) (Or.inr (by omega)), hct, w4]
  · rw [show 4 * B + 1 = 2 * (2 * B) + 1 by ring, gNet_cit F c s k (ℓ + 2) 1 (2 * B) c2, hcit, w4,
      show 2 * (2 * B) = 4 * B by ring]
  · rw [gNet_ct F c s k (ℓ + 2) 1 (4 * B + 2) (Or.inr (by omega)), hct, w5]
  · rw [show 4 * B + 3 = 2 * (2 * B + 1) + 1 by ring, gNet_cit F c s k (ℓ + 2) 1 (2 * B + 1) c2, hcit, w5,
      show 2 * (2 * B + 1) = 4 * B + 2 by ring]
  · rw [gNet_ct F c s k (ℓ + 1) 2 (2 * B) (Or.inr (by omega)), hct, w6]
  · rw [gNet_cit F c s k (ℓ + 1) 2 B c3, hcit, w6]
  · rw [gNet_ct F c s k ℓ 3 B (Or.inl c4), hct, w7]

/-- the loop over the inverse 16-point leaves -/
theorem ileaves_specN (T : Array R) (N ℓ0 j b0 off m' t : ℕ) (s0 : RI R)
    (hs : Valid N s0) (hk : k = ℓ0 + j + 4) (hm : m' = 2 ^ (j + 4)) (hoff : off = m' * b0) (hN : off + m' ≤ N)
    (hT : SegP T t (((List.range (m' / 16)).flatMap
      (fun b => riFill16 (4 * 2 ^ k) (16 * (1 + 4 * brev ℓ0 b0) + frbN (4 * 2 ^ k) b))).map (valP c s))) :
    let r := iterFrom (fun b (st : RI R × ℕ) => (ifft16 F T st.2 (off + 16 * b) st.1, st.2 + 16)) (m' / 16) 0 (s0, t)
    AdvI k (gNet F c s k) y (prs s0) (prs r.1) 0 4 off m' ∧ Valid N r.1 ∧ r.2 = t + m' := by
  intro r
  have hnb : m' / 16 = 2 ^ j := by rw [hm, pow_add]; norm_num
  have hm16 : m' = 2 ^ j * 16 := by rw [hm, pow_add]; norm_num
  have hr : r = (iterFrom (fun b s => ifft16 F T (t + 16 * b) (off + 16 * b) s) (m' / 16) 0 s0, t + 16 * (m' / 16)) :=
    iter_counter (fun b t s => ifft16 F T t (off + 16 * b) s) 16 (m' / 16) s0 t
  rw [hr]
  simp only
  rw [List.map_flatMap] at hT
  have hseg := SegP.flatMap (T := T) (t := t) _ 16 (m' / 16) (fun b => by simp [riFill16, eM, gam]) hT
  have sw := sweepN (VNI k (gNet F c s k) y 0) (VNI k (gNet F c s k) y 4)
    (fun b s => ifft16 F T (t + 16 * b) (off + 16 * b) s) N off 16 (m' / 16)
    (fun b s1 hb hs1 => by
      have hb' : b < 2 ^ j := by omega
      have := ileaf_stepN F c s k y T (t + 16 * b) N (ℓ0 + j) (b0 * 2 ^ j + b) (off + 16 * b)
        (16 * (1 + 4 * brev ℓ0 b0) + frbN (4 * 2 ^ k) b) s1 hs1
        (by rw [hoff, hm16]; ring) (by omega) hk
        (by
          have := block_entry ℓ0 j 4 b0 b hb'
          rw [← hk] at this
          simpa using this)
        (by
          have := hseg b hb
          rwa [show t + b * 16 = t + 16 * b by ring] at this)
      exact ⟨this.1.of_eq (by ring) rfl, this.2⟩) s0 hs
  refine ⟨sw.1.of_eq rfl (by omega), sw.2, by omega⟩

/-- one inverse radix-4 level over the whole region: blocks of size `h = 2^e2` become blocks of size `4h` -/
theorem ir4_specN (T : Array R) (N ℓ0 j e2 b0 off m' h t : ℕ) (s0 : RI R)
    (hs : Valid N s0) (hk : k = ℓ0 + j + (e2 + 2)) (hm : m' = 2 ^ (j + (e2 + 2))) (hh : h = 2 ^ e2)
    (he2 : e2 % 2 = 0) (he4 : 4 ≤ e2) (he10 : e2 + 2 ≤ 10)
    (hoff : off = m' * b0) (hN : off + m' ≤ N)
    (hT : SegP T t (((List.range (m' / (4 * h))).flatMap (fun b =>
      eM (h * (1 + 4 * brev ℓ0 b0) + frbN (4 * 2 ^ k) b / 4) ++
      eM (2 * (h * (1 + 4 * brev ℓ0 b0) + frbN (4 * 2 ^ k) b / 4)))).map (valP c s))) :
    let r := iterFrom (fun b (st : RI R × ℕ) => (invbitwiddle F T st.2 h (off + b * (h * 4)) st.1, st.2 + 4))
      (m' / (h * 4)) 0 (s0, t)
    AdvI k (gNet F c s k) y (prs s0) (prs r.1) e2 (e2 + 2) off m' ∧ Valid N r.1 ∧
      r.2 = t + 4 * (m' / (h * 4)) := by
  intro r
  have hmm : h * 4 = 2 ^ (e2 + 2) := by rw [hh, pow_add]; norm_num
  have h44 : 4 * h = h * 4 := by ring
  rw [h44] at hT
  have hnb : m' / (h * 4) = 2 ^ j := by
    rw [hm, hmm, pow_add]; exact Nat.mul_div_cancel _ (Nat.two_pow_pos _)
  have hm' : m' = 2 ^ j * (h * 4) := by rw [hm, hmm, pow_add]
  have hr : r = (iterFrom (fun b s => invbitwiddle F T (t + 4 * b) h (off + b * (h * 4)) s) (m' / (h * 4)) 0 s0,
      t + 4 * (m' / (h * 4))) :=
    iter_counter (fun b t s => invbitwiddle F T t h (off + b * (h * 4)) s) 4 (m' / (h * 4)) s0 t
  rw [hr]
  simp only
  rw [List.map_flatMap] at hT
  have hseg := SegP.flatMap (T := T) (t := t) _ 4 (m' / (h * 4)) (fun b => by simp [eM]) hT
  have hct := ctK_big F k (by omega)
  have hcit := citK_big F k (by omega)
  have cA : clv (k - (ℓ0 + j)) = false := by
    rw [show k - (ℓ0 + j) = e2 + 2 by omega]; unfold clv
    have : (e2 + 2) % 2 = 0 := by omega
    simp [this]; omega
  have cB : clv (k - (ℓ0 + j + 1)) = true := by
    rw [show k - (ℓ0 + j + 1) = e2 + 1 by omega]; unfold clv
    have : (e2 + 1) % 2 = 1 := by omega
    simp [this]; omega
  have sw := sweepN (VNI k (gNet F c s k) y e2) (VNI k (gNet F c s k) y (e2 + 2))
    (fun b s => invbitwiddle F T (t + 4 * b) h (off + b * (h * 4)) s) N off (h * 4) (m' / (h * 4))
    (fun b s1 hb hs1 => by
      have hb' : b < 2 ^ j := by omega
      have hsb := hseg b hb
      rw [List.map_append, show t + b * 4 = t + 4 * b by ring] at hsb
      have e := ReimFwd.r4_exps ℓ0 j e2 b0 b k (h * 4) hb' hk hmm
      rw [show h * 4 * (1 + 4 * brev ℓ0 b0) / 4 = h * (1 + 4 * brev ℓ0 b0) by
        rw [show h * 4 * (1 + 4 * brev ℓ0 b0) = 4 * (h * (1 + 4 * brev ℓ0 b0)) by ring]
        exact Nat.mul_div_cancel_left _ (by omega)] at e
      obtain ⟨r0, r1⟩ := read_eMN c s T (t + 4 * b) _ hsb.left
      obtain ⟨r2, r3⟩ := read_eMN c s T (t + 4 * b + 2) _ (by simpa [eM] using hsb.right)
      rw [e.2] at r0 r1
      rw [e.1] at r2 r3
      rw [show t + 4 * b + 2 + 1 = t + 4 * b + 3 by ring] at r3
      have hbm' : b * (h * 4) + h * 4 ≤ 2 ^ j * (h * 4) := by
        have : (b + 1) * (h * 4) ≤ 2 ^ j * (h * 4) := Nat.mul_le_mul_right _ hb'
        rw [Nat.add_mul] at this; omega
      have := invbitwiddle_advN k (gNet F c s k) y F T (t + 4 * b) N (ℓ0 + j) e2 (b0 * 2 ^ j + b) (off + b * (h * 4)) h
        s1 hs1 (by omega) hh (by rw [hoff, hm']; ring) (by omega)
        (by rw [gNet_ct F c s k (ℓ0 + j + 1) e2 _ (Or.inr (by omega)), hct, r0, r1])
        (by rw [gNet_cit F c s k (ℓ0 + j + 1) e2 _ cB, hcit, r0, r1])
        (by rw [gNet_ct F c s k (ℓ0 + j) (e2 + 1) _ (Or.inl cA), hct, r2, r3])
      rw [h44] at this
      exact this) s0 hs
  refine ⟨sw.1.of_eq rfl (by rw [hnb, hm']), sw.2, trivial⟩

/-- the `while (h < ms2)` loop of `ibfs16` -/
theorem ibfsLevels_specN (T : Array R) (N ℓ0 D b0 off m' p : ℕ) (hD11 : D ≤ 11)
    (hk : k = ℓ0 + D) (hm : m' = 2 ^ D) (hoff : off = m' * b0) (hN : off + m' ≤ N) (hp : p = D % 2) (hpD : p ≤ D) :
    ∀ i fuel e j h ss (s0 : RI R) (t : ℕ), j = 2 * i + p → j + e = D → h = 2 ^ e → e % 2 = 0 → 4 ≤ e →
      ss = h * (1 + 4 * brev ℓ0 b0) → i + 1 ≤ fuel → Valid N s0 →
      SegP T t ((riBfsLevels (4 * 2 ^ k) m' fuel h ss).map (valP c s)) →
      AdvI k (gNet F c s k) y (prs s0) (prs (ibfsLevels F T m' off fuel h (s0, t)).1) e (D - p) off m' ∧
        Valid N (ibfsLevels F T m' off fuel h (s0, t)).1 ∧
        (ibfsLevels F T m' off fuel h (s0, t)).2.2 = 2 ^ (D - p) ∧
        SegP T (ibfsLevels F T m' off fuel h (s0, t)).2.1
          ((if m'.log2 % 2 != 0 then eM (2 ^ (D - p) * (1 + 4 * brev ℓ0 b0)) else []).map (valP c s)) ∧
        (ibfsLevels F T m' off fuel h (s0, t)).2.1 + (if m'.log2 % 2 != 0 then 2 else 0)
          = t + (riBfsLevels (4 * 2 ^ k) m' fuel h ss).length := by
  have hm2 : m' / 2 = 2 ^ (D - 1) ∨ D = 0 := by
    by_cases h0 : D = 0
    · exact Or.inr h0
    · left
      obtain ⟨D1, rfl⟩ : ∃ D1, D = D1 + 1 := ⟨D - 1, by omega⟩
      rw [hm, pow_succ]; simp
  intro i
  induction i with
  | zero =>
    intro fuel e j h ss s0 t hj hje hh hev he4 hss hfuel hs hT
    obtain ⟨f, rfl⟩ : ∃ f, fuel = f + 1 := ⟨fuel - 1, by omega⟩
    have he : e = D - p := by omega
    have hnot : ¬ h < m' / 2 := by
      rcases hm2 with h2 | h2
      · rw [h2, hh, he]
        have : 2 ^ (D - 1) ≤ 2 ^ (D - p) := Nat.pow_le_pow_right (by omega) (by omega)
        omega
      · rw [hm, h2]; simp
    rw [ibfsLevels, if_neg hnot]
    rw [riBfsLevels, if_neg hnot, hss, hh, he] at hT
    refine ⟨AdvI.cast _ _ _ (AdvG.id (VNI k (gNet F c s k) y e) (prs s0) off m') e (D - p) rfl he.symm, hs,
      by rw [hh, he], hT, ?_⟩
    rw [riBfsLevels, if_neg hnot]
    by_cases ho : m'.log2 % 2 != 0
    · rw [if_pos ho, if_pos ho]; simp [eM]
    · rw [if_neg ho, if_neg ho]; simp
  | succ i ih =>
    intro fuel e j h ss s0 t hj hje hh hev he4 hss hfuel hs hT
    obtain ⟨f, rfl⟩ : ∃ f, fuel = f + 1 := ⟨fuel - 1, by omega⟩
    have hD1 : D ≠ 0 := by omega
    have hlt : h < m' / 2 := by
      rcases hm2 with h2 | h2
      · rw [h2, hh]; exact Nat.pow_lt_pow_right (by omega) (by omega)
      · exact absurd h2 hD1
    rw [ibfsLevels, if_pos hlt]
    have hlenT : (riBfsLevels (4 * 2 ^ k) m' (f + 1) h ss).length
        = 4 * (m' / (4 * h)) + (riBfsLevels (4 * 2 ^ k) m' f (4 * h) (ss * 4)).length := by
      rw [riBfsLevels, if_pos hlt, List.length_append, length_flatMap_const _ 4 _ (fun b => by simp [eM])]; ring
    rw [riBfsLevels, if_pos hlt, List.map_append, hss] at hT
    have st := ir4_specN F c s k y T N ℓ0 (j - 2) e b0 off m' h t s0 hs (by omega) (by rw [hm]; congr 1; omega) hh
      hev he4 (by omega) hoff hN hT.left
    simp only at st
    obtain ⟨sA, tA, hst⟩ : ∃ sA tA, iterFrom (fun b (st : RI R × ℕ) =>
      (invbitwiddle F T st.2 h (off + b * (h * 4)) st.1, st.2 + 4)) (m' / (h * 4)) 0 (s0, t) = (sA, tA) := ⟨_, _, rfl⟩
    rw [hst] at st
    simp only [hst]
    obtain ⟨a1, v1, p1⟩ := st
    simp only at a1 v1 p1
    have hlen : (List.map (valP c s) ((List.range (m' / (4 * h))).flatMap (fun b =>
        eM (h * (1 + 4 * brev ℓ0 b0) + frbN (4 * 2 ^ k) b / 4) ++
        eM (2 * (h * (1 + 4 * brev ℓ0 b0) + frbN (4 * 2 ^ k) b / 4))))).length = 4 * (m' / (h * 4)) := by
      rw [List.length_map, length_flatMap_const _ 4 _ (fun b => by simp [eM]), Nat.mul_comm h 4]; ring
    have hT2 := hT.right
    rw [hlen, ← p1, Nat.mul_comm 4 h] at hT2
    have nx := ih f (e + 2) (j - 2) (h * 4) (h * (1 + 4 * brev ℓ0 b0) * 4) sA tA (by omega) (by omega)
      (by rw [hh, pow_add]; norm_num) (by omega) (by omega) (by ring) (by omega) v1 hT2
    obtain ⟨a2, v2, q2, p2, r2⟩ := nx
    refine ⟨a1.seq a2, v2, q2, p2, ?_⟩
    rw [r2, p1, hlenT, hss, Nat.mul_comm 4 h, Nat.add_assoc]

/-- `ibfs16` on a region of size `m' = 2^D`, `5 ≤ D ≤ 11` -/
theorem ibfs16_specN (T : Array R) (N ℓ0 D b0 off m' t : ℕ) (s0 : RI R)
    (hk : k = ℓ0 + D) (hm : m' = 2 ^ D) (hD : 5 ≤ D) (hD11 : D ≤ 11) (hb0 : D = 11 ∨ b0 = 0)
    (hoff : off = m' * b0) (hN : off + m' ≤ N) (hs : Valid N s0)
    (hT : SegP T t ((riBfs (4 * 2 ^ k) m' (m' * (1 + 4 * brev ℓ0 b0))).map (valP c s))) :
    AdvI k (gNet F c s k) y (prs s0) (prs (ibfs16 F T m' off (s0, t)).1) 0 D off m' ∧
      Valid N (ibfs16 F T m' off (s0, t)).1 ∧
      (ibfs16 F T m' off (s0, t)).2 = t + (riBfs (4 * 2 ^ k) m' (m' * (1 + 4 * brev ℓ0 b0))).length := by
  have hlog : m'.log2 = D := by rw [hm]; exact Nat.log2_two_pow
  have hpos : 0 < m' := by rw [hm]; exact Nat.two_pow_pos _
  have h16 : m' / 16 * 16 = m' := by
    have : m' = 2 ^ (D - 4) * 16 := by
      rw [hm, show (16 : ℕ) = 2 ^ 4 by norm_num, ← pow_add 2 (D - 4) 4]; congr 1; omega
    omega
  obtain ⟨i, p, hp, hDi⟩ : ∃ i p, p < 2 ∧ D = 4 + 2 * i + p := ⟨(D - 4) / 2, (D - 4) % 2, by omega, by omega⟩
  have hss : m' * (1 + 4 * brev ℓ0 b0) * 16 / m' = 16 * (1 + 4 * brev ℓ0 b0) := by
    rw [show m' * (1 + 4 * brev ℓ0 b0) * 16 = m' * (16 * (1 + 4 * brev ℓ0 b0)) by ring]
    exact Nat.mul_div_cancel_left _ hpos
  have hlenL : ((List.range (m' / 16)).flatMap (fun b =>
      riFill16 (4 * 2 ^ k) (16 * (1 + 4 * brev ℓ0 b0) + frbN (4 * 2 ^ k) b))).length = m' := by
    rw [length_flatMap_const _ 16 _ (fun b => by simp [riFill16, eM, gam]), h16]
  unfold ibfs16
  rw [riBfs, hss, List.map_append] at hT
  rw [riBfs, hss, List.length_append, hlenL]
  have s1 := ileaves_specN F c s k y T N ℓ0 (2 * i + p) b0 off m' t s0 hs (by omega)
    (by rw [hm, hDi]; congr 1; omega) hoff hN hT.left
  simp only at s1
  obtain ⟨sA, tA, hstA⟩ : ∃ sA tA, iterFrom (fun b (st : RI R × ℕ) =>
    (ifft16 F T st.2 (off + 16 * b) st.1, st.2 + 16)) (m' / 16) 0 (s0, t) = (sA, tA) := ⟨_, _, rfl⟩
  rw [hstA] at s1
  simp only [hstA]
  obtain ⟨a1, v1, p1⟩ := s1
  simp only at a1 v1 p1
  have hT2 := hT.right
  rw [List.length_map, hlenL, ← p1] at hT2
  have hfuel : i + 1 ≤ m' := by have := @Nat.lt_two_pow_self D; omega
  have s2 := ibfsLevels_specN F c s k y T N ℓ0 D b0 off m' p hD11 hk hm hoff hN (by omega) (by omega) i m' 4
    (2 * i + p) 16 (16 * (1 + 4 * brev ℓ0 b0)) sA tA rfl (by omega) (by norm_num) (by norm_num) (by omega) rfl hfuel v1 hT2
  obtain ⟨sB, tB, hB, hstB⟩ : ∃ sB tB hB, ibfsLevels F T m' off m' 16 (sA, tA) = (sB, tB, hB) := ⟨_, _, _, rfl⟩
  rw [hstB] at s2
  simp only [hstB]
  obtain ⟨a2, v2, q2, sg2, r2⟩ := s2
  simp only at a2 v2 q2 sg2 r2 ⊢
  rw [hlog] at sg2 r2 ⊢
  by_cases hodd : D % 2 != 0
  · have hp1 : p = 1 := by simp at hodd; omega
    subst hp1
    rw [if_pos hodd] at sg2 r2 ⊢
    obtain ⟨w0, w1⟩ := read_eMN c s T _ _ sg2
    rw [q2]
    have e2 : m' = 2 * 2 ^ (D - 1) := by
      rw [hm]; conv_lhs => rw [show D = D - 1 + 1 by omega, pow_succ]
      ring
    have hcl : clv (k - ℓ0) = false ∨ b0 % 2 = 0 := by
      rcases hb0 with h | h
      · left; rw [show k - ℓ0 = 11 by omega]; rfl
      · right; omega
    have s3 := itwPass_advN k (gNet F c s k) y F.ct N ℓ0 (D - 1) b0 off T[tB]! T[tB + 1]! sB v2 (by omega)
      (by rw [hoff, e2]) (by omega)
      (by rw [gNet_ct F c s k ℓ0 _ b0 hcl, ctK_big F k (by omega), w0, w1, twE])
    refine ⟨?_, s3.2, by omega⟩
    exact (a1.seq a2).seq (AdvI.cast _ _ _ (s3.1.of_eq rfl e2) (D - 1) D rfl (by omega))
  · have hp0 : p = 0 := by simp at hodd; omega
    subst hp0
    rw [if_neg hodd] at sg2 r2 ⊢
    refine ⟨?_, v2, by omega⟩
    exact a1.seq a2

/-- `irec16` -/
theorem irec16_specN (T : Array R) (N : ℕ) :
    ∀ fuel D ℓ0 b0 off m' t (s0 : RI R), k = ℓ0 + D → m' = 2 ^ D → 5 ≤ D → (b0 = 0 ∨ 11 ≤ D) → m' ≤ fuel →
      off = m' * b0 → off + m' ≤ N → Valid N s0 →
      SegP T t ((riRec (4 * 2 ^ k) fuel m' (m' * (1 + 4 * brev ℓ0 b0))).map (valP c s)) →
      AdvI k (gNet F c s k) y (prs s0) (prs (irec16 F T fuel m' off (s0, t)).1) 0 D off m' ∧
        Valid N (irec16 F T fuel m' off (s0, t)).1 ∧
        (irec16 F T fuel m' off (s0, t)).2 = t + (riRec (4 * 2 ^ k) fuel m' (m' * (1 + 4 * brev ℓ0 b0))).length := by
  intro fuel
  induction fuel with
  | zero =>
    intro D ℓ0 b0 off m' t s0 hk hm hD hinv hfuel
    have : 0 < m' := by rw [hm]; exact Nat.two_pow_pos _
    omega
  | succ f ih =>
    intro D ℓ0 b0 off m' t s0 hk hm hD hinv hfuel hoff hN hs hT
    rw [irec16]
    rw [riRec] at hT ⊢
    by_cases hle : m' ≤ 2048
    · rw [if_pos hle] at hT ⊢
      rw [if_pos hle]
      have hD11 : D ≤ 11 := by
        by_contra hc
        have : 2 ^ 12 ≤ 2 ^ D := Nat.pow_le_pow_right (by omega) (by omega)
        rw [← hm] at this; omega
      exact ibfs16_specN F c s k y T N ℓ0 D b0 off m' t s0 hk hm hD hD11 (by omega) hoff hN hs hT
    · rw [if_neg hle] at hT ⊢
      rw [if_neg hle]
      obtain ⟨D1, rfl⟩ : ∃ D1, D = D1 + 1 := ⟨D - 1, by omega⟩
      have hD1 : 11 ≤ D1 := by
        by_contra hc
        have : D1 + 1 ≤ 11 := by omega
        have : 2 ^ (D1 + 1) ≤ 2 ^ 11 := Nat.pow_le_pow_right (by omega) this
        rw [← hm] at this; omega
      have hmm : m' = 2 * 2 ^ D1 := by rw [hm, pow_succ]; ring
      have hh : m' / 2 = 2 ^ D1 := by omega
      have hpw : m' * (1 + 4 * brev ℓ0 b0) / 2 = m' / 2 * (1 + 4 * brev ℓ0 b0) := by
        rw [hmm, Nat.mul_assoc, Nat.mul_div_cancel_left _ (by omega : 0 < 2),
          Nat.mul_div_cancel_left _ (by omega : 0 < 2)]
      have hpL : m' * (1 + 4 * brev ℓ0 b0) / 2 = m' / 2 * (1 + 4 * brev (ℓ0 + 1) (2 * b0)) := by
        rw [hpw, brev_even]
      have hpR : m' * (1 + 4 * brev ℓ0 b0) / 2 + 4 * 2 ^ k / 2 = m' / 2 * (1 + 4 * brev (ℓ0 + 1) (2 * b0 + 1)) := by
        rw [hpw, brev_odd, hk, hh, pow_add, pow_succ]
        have : 4 * (2 ^ ℓ0 * (2 ^ D1 * 2)) / 2 = 4 * (2 ^ ℓ0 * 2 ^ D1) := by
          rw [show 4 * (2 ^ ℓ0 * (2 ^ D1 * 2)) = 2 * (4 * (2 ^ ℓ0 * 2 ^ D1)) by ring]
          exact Nat.mul_div_cancel_left _ (by omega)
        rw [this]; ring
      rw [List.map_append, List.map_append, hpR] at hT
      rw [hpR]
      have hTL := hT.left.left
      rw [hpL] at hTL
      have s1 := ih D1 (ℓ0 + 1) (2 * b0) off (m' / 2) t s0 (by omega) hh (by omega) (Or.inr hD1) (by omega)
        (by rw [hoff, hh, hmm]; ring) (by omega) hs hTL
      obtain ⟨sA, tA, hst⟩ : ∃ sA tA, irec16 F T f (m' / 2) off (s0, t) = (sA, tA) := ⟨_, _, rfl⟩
      rw [hst] at s1
      simp only [hst]
      obtain ⟨a1, v1, p1⟩ := s1
      simp only at a1 v1 p1
      have hTR := hT.left.right
      rw [List.length_map, hpL, ← p1] at hTR
      have s2 := ih D1 (ℓ0 + 1) (2 * b0 + 1) (off + m' / 2) (m' / 2) tA sA (by omega) hh (by omega) (Or.inr hD1)
        (by omega) (by rw [hoff, hh, hmm]; ring) (by omega) v1 hTR
      obtain ⟨sB, tB, hst2⟩ : ∃ sB tB, irec16 F T f (m' / 2) (off + m' / 2) (sA, tA) = (sB, tB) := ⟨_, _, rfl⟩
      rw [hst2] at s2
      simp only [hst2]
      obtain ⟨a2, v2, p2⟩ := s2
      simp only at a2 v2 p2
      have hTW := hT.right
      rw [List.length_append, List.length_map, List.length_map, hpL, ← Nat.add_assoc, ← p1, ← p2] at hTW
      obtain ⟨w0, w1⟩ := read_eMN c s T _ _ hTW
      have hcl : clv (k - ℓ0) = false := clv_big _ (by omega)
      have s3 := itwPass_advN k (gNet F c s k) y F.ct N ℓ0 D1 b0 off T[tB]! T[tB + 1]! sB v2 (by omega)
        (by rw [hoff, hmm]) (by omega)
        (by rw [gNet_ct F c s k ℓ0 _ b0 (Or.inl hcl), ctK_big F k (by omega), w0, w1, brev_even, hh, twE])
      rw [← hh] at s3
      refine ⟨?_, s3.2, ?_⟩
      · have b12 := (a1.par a2).of_eq rfl (show m' = m' / 2 + m' / 2 by omega)
        exact b12.seq (s3.1.of_eq rfl (show m' = 2 * (m' / 2) by omega))
      · simp only [List.length_append, eM, List.length_cons, List.length_nil, hpL]
        omega

end Spq.Fft.SchedN
