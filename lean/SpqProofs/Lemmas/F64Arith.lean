/-
  Decode-level descriptions of the soft-float operations used by the conversions: `ofInt`, `neg`, `add`,
  `sub`, `mul`, `div` by a power of two, `rint`, `toIntTrunc`.
-/
import SpqProofs.Lemmas.F64Pack

namespace Spq.F64

/-- signed significand -/
def sI (neg : Bool) (m : Nat) : Int := if neg then -(m : Int) else (m : Int)

theorem toIntM_mk (neg : Bool) (m : Nat) (e : Int) : toIntM ⟨neg, m, e⟩ = sI neg m := rfl

theorem toScaled_of_decode' {b : Nat} {neg : Bool} {m : Nat} {e : Int} (h : decode b = ⟨neg, m, e⟩) :
    toScaled b = sI neg m * (2 : Int) ^ ((e + 1074).toNat) := toScaled_of_decode h

/-! ### packSigned -/

theorem packSigned_ne_zero {v : Int} (hv : v ≠ 0) (e : Int) (z : Bool) :
    packSigned v e z = pack (decide (v < 0)) v.natAbs e := by
  unfold packSigned
  have : (v == 0) = false := by simpa using hv
  simp only [this, Bool.false_eq_true, if_false]

theorem packSigned_pos {v : Int} (hv : 0 < v) (e : Int) (z : Bool) :
    packSigned v e z = pack false v.toNat e := by
  rw [packSigned_ne_zero (by omega)]
  have h1 : decide (v < 0) = false := by simp; omega
  have h2 : v.natAbs = v.toNat := by omega
  rw [h1, h2]

theorem packSigned_zero (e : Int) (z : Bool) : packSigned 0 e z = sgn z := by
  unfold packSigned sgn; simp

/-! ### ofInt -/

theorem ofInt_zero : ofInt 0 = 0 := by
  unfold ofInt; rw [packSigned_zero]; rfl

/-- `(double)x` for `0 < |x| < 2^53`: the normalised significand `|x|·2^k` with exponent `-k` -/
theorem decode_ofInt {x : Int} (hx0 : x ≠ 0) (hx : x.natAbs < 9007199254740992) :
    ∃ k : Nat, k ≤ 52 ∧ 4503599627370496 ≤ x.natAbs * 2 ^ k ∧ x.natAbs * 2 ^ k < 9007199254740992 ∧
      decode (ofInt x) = ⟨decide (x < 0), x.natAbs * 2 ^ k, -(k : Int)⟩ := by
  obtain ⟨k, hk, h1, h2⟩ := exists_norm_shift (M := x.natAbs) (by omega) hx
  refine ⟨k, hk, h1, h2, ?_⟩
  unfold ofInt
  rw [packSigned_ne_zero hx0]
  have := decode_pack_small (decide (x < 0)) x.natAbs 0 k h1 h2 (by omega) (by omega)
  rw [this]; congr 1; omega

theorem pow_split {k : Nat} (hk : k ≤ 1074) : (2 : Int) ^ k * 2 ^ (1074 - k) = 2 ^ 1074 := by
  rw [← pow_add]; congr 1; omega

/-- the cast is exact below 2^53: the value of `(double)x`, in units of 2^-1074, is `x·2^1074` -/
theorem toScaled_ofInt {x : Int} (hx : x.natAbs < 9007199254740992) :
    toScaled (ofInt x) = x * 2 ^ 1074 := by
  by_cases hx0 : x = 0
  · subst hx0
    have hd : decode 0 = ⟨false, 0, -1074⟩ := by
      have := decode_subnormal_pattern false 0 (by norm_num)
      simpa [sgn] using this
    rw [ofInt_zero, toScaled_of_decode' hd]
    show (0 : Int) * _ = 0 * _
    rw [zero_mul, zero_mul]
  obtain ⟨k, hk, _, _, hd⟩ := decode_ofInt hx0 hx
  rw [toScaled_of_decode' hd]
  have he : (-(k : Int) + 1074).toNat = 1074 - k := by omega
  rw [he]
  have hs : sI (decide (x < 0)) (x.natAbs * 2 ^ k) = x * 2 ^ k := by
    unfold sI
    by_cases hneg : x < 0
    · simp only [hneg, decide_true, if_true]
      rw [Nat.cast_mul, Nat.cast_pow, Nat.cast_ofNat]
      have : (x.natAbs : Int) = -x := by omega
      rw [this]; ring
    · simp only [hneg, decide_false, Bool.false_eq_true, if_false]
      rw [Nat.cast_mul, Nat.cast_pow, Nat.cast_ofNat]
      have : (x.natAbs : Int) = x := by omega
      rw [this]
  rw [hs, mul_assoc, pow_split (by omega)]

/-! ### neg, add, sub, mul -/

theorem decode_neg {b : Nat} (hb : b < 18446744073709551616) {s : Bool} {m : Nat} {e : Int}
    (h : decode b = ⟨s, m, e⟩) : decode (neg b) = ⟨!s, m, e⟩ := by
  unfold decode expField fracField signBit at *
  simp only [] at *
  have hexp : neg b / 4503599627370496 % 2048 = b / 4503599627370496 % 2048 := by
    unfold neg; split <;> omega
  have hfr : neg b % 4503599627370496 = b % 4503599627370496 := by
    unfold neg; split <;> omega
  have hsg : (neg b / 9223372036854775808 % 2 == 1) = !(b / 9223372036854775808 % 2 == 1) := by
    unfold neg
    split
    · have h1 : (b + 9223372036854775808) / 9223372036854775808 % 2 = 1 := by omega
      have h2 : b / 9223372036854775808 % 2 = 0 := by omega
      rw [h1, h2]; rfl
    · have h1 : (b - 9223372036854775808) / 9223372036854775808 % 2 = 0 := by omega
      have h2 : b / 9223372036854775808 % 2 = 1 := by omega
      rw [h1, h2]; rfl
  rw [hexp, hfr, hsg]
  split at h <;> rename_i hc <;> simp only [hc, if_true, if_false, Bool.false_eq_true] <;>
    (injection h with h1 h2 h3; subst h1 h2 h3; rfl)

theorem add_of_decode {a b : Nat} {sa sb : Bool} {ma mb : Nat} {ea eb : Int}
    (ha : decode a = ⟨sa, ma, ea⟩) (hb : decode b = ⟨sb, mb, eb⟩) :
    add a b = packSigned (sI sa ma * (2 : Int) ^ ((ea - min ea eb).toNat) + sI sb mb * (2 : Int) ^ ((eb - min ea eb).toNat))
      (min ea eb) (sa && sb) := by
  unfold add; simp only [ha, hb, toIntM_mk]

theorem sI_not (s : Bool) (m : Nat) : sI (!s) m = - sI s m := by
  cases s <;> simp [sI]

theorem sub_of_decode {a b : Nat} (hb' : b < 18446744073709551616) {sa sb : Bool} {ma mb : Nat} {ea eb : Int}
    (ha : decode a = ⟨sa, ma, ea⟩) (hb : decode b = ⟨sb, mb, eb⟩) :
    sub a b = packSigned (sI sa ma * (2 : Int) ^ ((ea - min ea eb).toNat) - sI sb mb * (2 : Int) ^ ((eb - min ea eb).toNat))
      (min ea eb) (sa && !sb) := by
  unfold sub
  rw [add_of_decode ha (decode_neg hb' hb), sI_not]
  congr 1; ring

theorem mul_of_decode {a b : Nat} {sa sb : Bool} {ma mb : Nat} {ea eb : Int}
    (ha : decode a = ⟨sa, ma, ea⟩) (hb : decode b = ⟨sb, mb, eb⟩) :
    mul a b = pack (sa != sb) (ma * mb) (ea + eb) := by
  unfold mul; simp only [ha, hb]

/-! ### exactly representable products: `pack` of `a·2^t` with `a < 2^53` -/

/-- `pack` is exact on `a·2^t` when `a·2^k` is a normalised significand and the exponent stays in range -/
theorem decode_pack_exact (neg : Bool) (a t : Nat) (E : Int) (k : Nat)
    (h1 : 4503599627370496 ≤ a * 2 ^ k) (h2 : a * 2 ^ k < 9007199254740992)
    (hE : -1074 ≤ E + t - k) (hov : E + t - k ≤ 971) :
    decode (pack neg (a * 2 ^ t) E) = ⟨neg, a * 2 ^ k, E + t - k⟩ := by
  rcases Nat.le_total k t with hkt | htk
  · -- right shift by t - k, exact
    have hsplit : a * 2 ^ t = (a * 2 ^ k) * 2 ^ (t - k) := by
      rw [mul_assoc, ← pow_add]; congr 2; omega
    have hP : 0 < 2 ^ (t - k) := by positivity
    rw [hsplit]
    have := decode_pack_round neg ((a * 2 ^ k) * 2 ^ (t - k)) E (t - k)
      (Nat.mul_le_mul_right _ h1) (Nat.mul_lt_mul_of_pos_right h2 hP) (by omega)
      (by rw [rne_exact]; exact h2) (by omega)
    rw [this, rne_exact]; congr 1; omega
  · have hsplit : (a * 2 ^ t) * 2 ^ (k - t) = a * 2 ^ k := by
      rw [mul_assoc, ← pow_add]; congr 2; omega
    have := decode_pack_small neg (a * 2 ^ t) E (k - t) (by rw [hsplit]; exact h1) (by rw [hsplit]; exact h2)
      (by omega) (by omega)
    rw [this, hsplit]; congr 1; omega

end Spq.F64
