/-
  Non-vacuity witness, part 8 (C02Err): a `2 × 1` vector-matrix product at `N = 8` (two rows ⇒ a real accumulation,
  1-column AVX2 kernel as installed):  vector limbs `a₀ = exA8`, `a₁ = exB8`, matrix `M₀₀ = exB8`, `M₁₀ = exC8`,
  `exC8 = 1 − 2X + 3X² − 4X³ + 5X⁴ − 6X⁵ + 7X⁶ − 8X⁷`.  The library returns column 0
  `= a₀ ⊛ M₀₀ + a₁ ⊛ M₁₀ = [84, −123, 131, 175, −189, −31, 169, −1]` (`vmp_prepare_contiguous`, `vmp_apply_dft`,
  `vec_znx_idft`).  `libVmpOk`: all flags (two limbs, two entries, accumulation, inverse) by `decide +kernel`.
-/
import SpqProofs.Lemmas.ErrWitnessVmp
import SpqProofs.Lemmas.ErrWitnessInst
import SpqProofs.Lemmas.VmpErrPipe
set_option linter.unusedSectionVars false
namespace Spq.ErrWitness
open Finset Spq Spq.Module Spq.Fft Spq.Fft.Alg Spq.Fft.SchedN Spq.FftErr Spq.F64 Spq.ProdErr Spq.Conv Spq.VmpErr

/- elaboration only: keeps the elaborator's `whnf` from evaluating the closed flagged runs (the kernel does, in `decide`) -/
attribute [local irreducible] reimFftA reimIfftA vmpApplyDftToDft vmpPrepare

def exC8 : Array Int := #[1, -2, 3, -4, 5, -6, 7, -8]
/-- two limbs: `exA8`, `exB8` -/
def exVec : Array Int := #[3, -1, 4, 1, -5, 9, 2, -6, 2, 7, -1, 8, 2, -8, 1, 8]
/-- `2 × 1` matrix, row-major: `exB8`, `exC8` -/
def exMat : Array Int := #[2, 7, -1, 8, 2, -8, 1, 8, 1, -2, 3, -4, 5, -6, 7, -8]

theorem limb0 : limbOf exVec 0 8 (2 * 2 ^ 2) = exA8 := by decide +kernel
theorem limb1 : limbOf exVec 1 8 (2 * 2 ^ 2) = exB8 := by decide +kernel
theorem ent00 : matEntry exMat 1 (2 * 2 ^ 2) 0 0 = exB8 := by decide +kernel
theorem ent10 : matEntry exMat 1 (2 * 2 ^ 2) 1 0 = exC8 := by decide +kernel

theorem exC8_box : ∀ i, i < 2 * 2 ^ 2 → -1125899906842624 < exC8.getD i 0 ∧ exC8.getD i 0 < 1125899906842624 := by
  intro i hi
  have hi' : i < 8 := hi
  interval_cases i <;> decide

theorem exC8_n2 : ∑ t ∈ range (2 * 2 ^ 2), ((exC8.getD t 0 : Int) : ℝ) ^ 2 ≤ 15 ^ 2 := by
  show ∑ t ∈ range 8, _ ≤ _
  simp [sum_range_succ, exC8]; norm_num

theorem exC8_n1 : ∑ t ∈ range (2 * 2 ^ 2), |((exC8.getD t 0 : Int) : ℝ)| = 36 := by
  show ∑ t ∈ range 8, _ = _
  simp [sum_range_succ, exC8]; norm_num

theorem lib_okC : FwdOk libC8 2 cN sN exC8 :=
  fft_flags_of_all (famOf libC8.fftFma) (famOf_ok _) 2 cN sN ((Cfg.parts libC8).fromZnx exC8) (by decide +kernel)
    (by decide +kernel)

/-- **all flags of the vector-matrix product hold for this input** -/
theorem libVmpOk : VmpOk libC8 2 cN sN cNi sNi exMat 2 1 exVec 2 8 1 0 where
  okA := by
    intro i hi
    have hi' : i < 2 := hi
    interval_cases i
    · rw [limb0]; exact lib_okA
    · rw [limb1]; exact lib_okB
  okB := by
    intro i hi
    have hi' : i < 2 := hi
    interval_cases i
    · rw [ent00]; exact lib_okB
    · rw [ent10]; exact lib_okC
  okD := by
    have := vmp_flags_of_all libC8 2 (le_refl 2) cN sN cNi sNi libVCfgOk exMat 2 1 exVec 2 8 1 0 (by decide)
      (by decide +kernel)
    intro p hp
    exact this p hp
  okI := ifft_flags_of_all (ifamOf libC8.ifftFma) (ifamOf_ok _) 2 cNi sNi
    (dlimb (vmpRes libC8 exMat 2 1 exVec 2 8 1) 0 (2 * 2 ^ 2)) (by decide +kernel) (by decide +kernel)

/-- norms per row: `na = (14, 16)`, `nb = (16, 15)` -/
noncomputable def exNa : ℕ → ℝ := fun i => if i = 0 then 14 else 16
noncomputable def exNb : ℕ → ℝ := fun i => if i = 0 then 16 else 15

theorem exNa_nonneg : ∀ i, i < min 2 2 → 0 ≤ exNa i := by
  intro i _; unfold exNa; split <;> norm_num
theorem exNb_nonneg : ∀ i, i < min 2 2 → 0 ≤ exNb i := by
  intro i _; unfold exNb; split <;> norm_num

theorem exVec_box : ∀ i, i < min 2 2 → ∀ t, t < 2 * 2 ^ 2 →
    -1125899906842624 < (limbOf exVec i 8 (2 * 2 ^ 2)).getD t 0 ∧ (limbOf exVec i 8 (2 * 2 ^ 2)).getD t 0 < 1125899906842624 := by
  intro i hi
  have hi' : i < 2 := hi
  interval_cases i
  · rw [limb0]; exact exA8_box
  · rw [limb1]; exact exB8_box

theorem exMat_box : ∀ i j, i < 2 → j < 1 → ∀ t, t < 2 * 2 ^ 2 →
    -1125899906842624 < (matEntry exMat 1 (2 * 2 ^ 2) i j).getD t 0 ∧
      (matEntry exMat 1 (2 * 2 ^ 2) i j).getD t 0 < 1125899906842624 := by
  intro i j hi hj
  obtain rfl : j = 0 := by omega
  interval_cases i
  · rw [ent00]; exact exB8_box
  · rw [ent10]; exact exC8_box

theorem exVec_n2 : ∀ i, i < min 2 2 →
    ∑ t ∈ range (2 * 2 ^ 2), (((limbOf exVec i 8 (2 * 2 ^ 2)).getD t 0 : Int) : ℝ) ^ 2 ≤ exNa i ^ 2 := by
  intro i hi
  have hi' : i < 2 := hi
  interval_cases i
  · rw [limb0]; exact exA8_n2
  · rw [limb1]; exact exB8_n2

theorem exMat_n2 : ∀ i, i < min 2 2 →
    ∑ t ∈ range (2 * 2 ^ 2), (((matEntry exMat 1 (2 * 2 ^ 2) i 0).getD t 0 : Int) : ℝ) ^ 2 ≤ exNb i ^ 2 := by
  intro i hi
  have hi' : i < 2 := hi
  interval_cases i
  · rw [ent00]; exact exB8_n2
  · rw [ent10]; exact exC8_n2

theorem exMat_nl : ∀ i, i < min 2 2 →
    exNb i ≤ ∑ t ∈ range (2 * 2 ^ 2), |(((matEntry exMat 1 (2 * 2 ^ 2) i 0).getD t 0 : Int) : ℝ)| := by
  intro i hi
  have hi' : i < 2 := hi
  interval_cases i
  · rw [ent00, exB8_n1]; show (16 : ℝ) ≤ 37; norm_num
  · rw [ent10, exC8_n1]; show (15 : ℝ) ≤ 36; norm_num

/-- `E_sum = (12·3 + 2·2 + 3)·2^-53·((31·16 + 14·37) + (37·15 + 16·36)) = 43·2145·2^-53 < 1/2` -/
theorem exVmp_budget : (((12 * ((2 : ℕ) + 1 : ℚ) + 2 * (min 2 2 : ℕ) + 3) * u64 : ℚ) : ℝ) *
    ∑ i ∈ range (min 2 2),
      ((∑ t ∈ range (2 * 2 ^ 2), |(((limbOf exVec i 8 (2 * 2 ^ 2)).getD t 0 : Int) : ℝ)|) * exNb i +
        exNa i * ∑ t ∈ range (2 * 2 ^ 2), |(((matEntry exMat 1 (2 * 2 ^ 2) i 0).getD t 0 : Int) : ℝ)|) < 1 / 2 := by
  rw [show min 2 2 = 2 from rfl, sum_range_succ, sum_range_one, limb0, limb1, ent00, ent10, exA8_n1, exB8_n1, exC8_n1]
  unfold exNa exNb u64
  push_cast
  norm_num

end Spq.ErrWitness
