/-
  C02 rounding budget, step 6 (`vmp_layout_f64`, part 2): the block save and the loop invariant of
  `vmpApplyDftToDft` on the reim4 layout (`nn ≥ 8`), for an arbitrary arithmetic record.
-/
import SpqProofs.Lemmas.VmpErrLayout
namespace Spq.VmpErr
open Spq Spq.Module Spq.Reim4
variable {α : Type}

/-- a column pair in context: all 16 cells of the 2-column kernel output -/
theorem prod2_val_g (c : Parts α) (mat : Array Int) (nrows ncols : ℕ) (h8 : 8 ≤ c.nn) (hnn : c.nn = 2 * c.m)
    (hm4 : c.m % 4 = 0) (adft : Array α) (n : ℕ) (hrm : n ≤ nrows) (col blk k : ℕ) (he : col % 2 = 0)
    (hc : col + 1 < ncols) (hb : blk < c.m / 4) (hk : k < 4) :
    (gProd2 c n (gExt c adft n blk) (gCol (vmpPrepare c mat nrows ncols) nrows ncols blk col 16)).size = 16 ∧
    (gProd2 c n (gExt c adft n blk) (gCol (vmpPrepare c mat nrows ncols) nrows ncols blk col 16)).getD k c.ar.zero =
      colRe c (kind2 c) adft mat ncols n col (4 * blk + k) ∧
    (gProd2 c n (gExt c adft n blk) (gCol (vmpPrepare c mat nrows ncols) nrows ncols blk col 16)).getD (k + 4) c.ar.zero =
      colIm c (kind2 c) adft mat ncols n col (4 * blk + k) ∧
    (gProd2 c n (gExt c adft n blk) (gCol (vmpPrepare c mat nrows ncols) nrows ncols blk col 16)).getD (8 + k) c.ar.zero =
      colRe c (kind2 c) adft mat ncols n (col + 1) (4 * blk + k) ∧
    (gProd2 c n (gExt c adft n blk) (gCol (vmpPrepare c mat nrows ncols) nrows ncols blk col 16)).getD (8 + k + 4) c.ar.zero =
      colIm c (kind2 c) adft mat ncols n (col + 1) (4 * blk + k) := by
  obtain ⟨s, r1, r2, r3, r4⟩ := gProd2_cells c n (gExt c adft n blk)
    (gCol (vmpPrepare c mat nrows ncols) nrows ncols blk col 16) k hk
  have hn : kind2 c = .sm → 1 ≤ n := fun h => by have := kind2_ne c h; omega
  have pr := fun i (hi : i < n) => pair_read_g c mat nrows ncols h8 hnn hm4 col blk i k he hc hb (by omega) hk
  have ex := fun i (hi : i < n) => gExt_get c hnn adft n blk i k hi hk
  obtain ⟨q1, q2⟩ := dotRe_congr c.ar (kind2 c) _ _ _ _ (aRe c.ar.zero adft c.nn (4 * blk + k))
    (aIm c.ar.zero adft c.nn c.m (4 * blk + k)) (bRe c mat ncols col (4 * blk + k)) (bIm c mat ncols col (4 * blk + k)) n hn
    (fun i hi => (ex i hi).1) (fun i hi => (ex i hi).2) (fun i hi => (pr i hi).1) (fun i hi => (pr i hi).2.1)
  obtain ⟨q3, q4⟩ := dotRe_congr c.ar (kind2 c) _ _ _ _ (aRe c.ar.zero adft c.nn (4 * blk + k))
    (aIm c.ar.zero adft c.nn c.m (4 * blk + k)) (bRe c mat ncols (col + 1) (4 * blk + k))
    (bIm c mat ncols (col + 1) (4 * blk + k)) n hn
    (fun i hi => (ex i hi).1) (fun i hi => (ex i hi).2) (fun i hi => (pr i hi).2.2.1) (fun i hi => (pr i hi).2.2.2)
  exact ⟨s, by rw [r1, q1]; rfl, by rw [r2, q2]; rfl, by rw [r3, q3]; rfl, by rw [r4, q4]; rfl⟩

/-- the lone last column in context -/
theorem prod1_val_g (c : Parts α) (mat : Array Int) (nrows ncols : ℕ) (h8 : 8 ≤ c.nn) (hnn : c.nn = 2 * c.m)
    (hm4 : c.m % 4 = 0) (adft : Array α) (n : ℕ) (hrm : n ≤ nrows) (col blk k : ℕ)
    (hl : col + 1 = ncols ∧ ncols % 2 = 1) (hb : blk < c.m / 4) (hk : k < 4) :
    (gProd1 c n (gExt c adft n blk) (gCol (vmpPrepare c mat nrows ncols) nrows ncols blk col 8)).size = 8 ∧
    (gProd1 c n (gExt c adft n blk) (gCol (vmpPrepare c mat nrows ncols) nrows ncols blk col 8)).getD k c.ar.zero =
      colRe c (kind1 c) adft mat ncols n col (4 * blk + k) ∧
    (gProd1 c n (gExt c adft n blk) (gCol (vmpPrepare c mat nrows ncols) nrows ncols blk col 8)).getD (k + 4) c.ar.zero =
      colIm c (kind1 c) adft mat ncols n col (4 * blk + k) := by
  obtain ⟨s, r1, r2⟩ := gProd1_cells c n (gExt c adft n blk)
    (gCol (vmpPrepare c mat nrows ncols) nrows ncols blk col 8) k hk
  have hn : kind1 c = .sm → 1 ≤ n := fun h => by have := kind1_ne c h; omega
  have pr := fun i (hi : i < n) => lone_read_g c mat nrows ncols h8 hnn hm4 col blk i k hl hb (by omega) hk
  have ex := fun i (hi : i < n) => gExt_get c hnn adft n blk i k hi hk
  obtain ⟨q1, q2⟩ := dotRe_congr c.ar (kind1 c) _ _ _ _ (aRe c.ar.zero adft c.nn (4 * blk + k))
    (aIm c.ar.zero adft c.nn c.m (4 * blk + k)) (bRe c mat ncols col (4 * blk + k)) (bIm c mat ncols col (4 * blk + k)) n hn
    (fun i hi => (ex i hi).1) (fun i hi => (ex i hi).2) (fun i hi => (pr i hi).1) (fun i hi => (pr i hi).2)
  exact ⟨s, by rw [r1, q1]; rfl, by rw [r2, q2]; rfl⟩

/-! ### the block save -/

/-- `reim4_save_1blk_to_reim(m, blk, vec_output + col*nn, o8)` as the model writes it -/
def gSave (m nn blk : ℕ) (res : Array α) (col : ℕ) (o8 : Array α) : Array α :=
  writeAt (writeAt res (col * nn + 4 * blk) (o8.extract 0 4)) (col * nn + m + 4 * blk) (o8.extract 4 8)

theorem gSave_spec (z : α) (m nn blk : ℕ) (res : Array α) (col : ℕ) (o8 : Array α) (ho : 8 ≤ o8.size)
    (hb : 4 * blk + 4 ≤ m) (hsz : col * nn + m + 4 * blk + 4 ≤ res.size) :
    (gSave m nn blk res col o8).size = res.size ∧
    (∀ k, k < 4 → (gSave m nn blk res col o8).getD (col * nn + 4 * blk + k) z = o8.getD k z ∧
      (gSave m nn blk res col o8).getD (col * nn + m + 4 * blk + k) z = o8.getD (4 + k) z) ∧
    (∀ x, ¬ (col * nn + 4 * blk ≤ x ∧ x < col * nn + 4 * blk + 4) →
      ¬ (col * nn + m + 4 * blk ≤ x ∧ x < col * nn + m + 4 * blk + 4) →
      (gSave m nn blk res col o8).getD x z = res.getD x z) := by
  have s1 : (o8.extract 0 4).size = 4 := by simp; omega
  have s2 : (o8.extract 4 8).size = 4 := by simp; omega
  unfold gSave
  refine ⟨by simp, ?_, ?_⟩
  · intro k hk
    constructor
    · rw [getD_writeAt_out _ _ _ _ _ (by omega), getD_writeAt_in _ _ _ _ _ (by omega) (by omega), getD_extract,
        if_pos (by omega), Nat.zero_add]
    · rw [getD_writeAt_in _ _ _ _ _ (by omega) (by rw [size_writeAt]; omega), getD_extract, if_pos (by omega)]
  · intro x h1 h2
    rw [getD_writeAt_out _ _ _ _ _ (by omega), getD_writeAt_out _ _ _ _ _ (by omega)]

/-- invariant of the output vector: the blocks marked `done` hold their final cells, the columns from `colMax` on
    are still `z` -/
def GInv (z : α) (vre vim : ℕ → ℕ → α) (m nn rsz colMax : ℕ) (done : ℕ → ℕ → Prop) (res : Array α) : Prop :=
  res.size = rsz * nn ∧
  (∀ col blk k, col < colMax → blk < m / 4 → k < 4 → done col blk →
    res.getD (col * nn + 4 * blk + k) z = vre col (4 * blk + k) ∧
    res.getD (col * nn + m + 4 * blk + k) z = vim col (4 * blk + k)) ∧
  (∀ x, colMax * nn ≤ x → res.getD x z = z)

theorem GInv.mono {z : α} {vre vim : ℕ → ℕ → α} {m nn rsz colMax : ℕ} {done done' : ℕ → ℕ → Prop} {res : Array α}
    (h : GInv z vre vim m nn rsz colMax done res)
    (hd : ∀ col blk, col < colMax → blk < m / 4 → done' col blk → done col blk) :
    GInv z vre vim m nn rsz colMax done' res :=
  ⟨h.1, fun col blk k hc hb hk d => h.2.1 col blk k hc hb hk (hd col blk hc hb d), h.2.2⟩

theorem GInv.save {z : α} {vre vim : ℕ → ℕ → α} {m nn rsz colMax : ℕ} {done : ℕ → ℕ → Prop} {res : Array α}
    (h : GInv z vre vim m nn rsz colMax done res) (hnn : nn = 2 * m) (hm4 : m % 4 = 0) (hcm : colMax ≤ rsz)
    (col blk : ℕ) (o8 : Array α) (hc : col < colMax) (hb : blk < m / 4) (ho : 8 ≤ o8.size)
    (hv : ∀ k, k < 4 → o8.getD k z = vre col (4 * blk + k) ∧ o8.getD (4 + k) z = vim col (4 * blk + k)) :
    GInv z vre vim m nn rsz colMax (fun c b => done c b ∨ (c = col ∧ b = blk)) (gSave m nn blk res col o8) := by
  obtain ⟨h1, h2, h3⟩ := h
  have hcr := mul_step col rsz nn (by omega)
  have hcc := mul_step col colMax nn hc
  obtain ⟨s1, s2, s3⟩ := gSave_spec z m nn blk res col o8 ho (by omega) (by omega)
  refine ⟨by rw [s1, h1], ?_, ?_⟩
  · intro col' blk' k hc' hb' hk d
    by_cases e : col' = col ∧ blk' = blk
    · obtain ⟨e1, e2⟩ := e
      subst e1 e2
      obtain ⟨a1, a2⟩ := s2 k hk
      obtain ⟨v1, v2⟩ := hv k hk
      exact ⟨by rw [a1, v1], by rw [a2, v2]⟩
    · have d' : done col' blk' := by
        rcases d with d | d
        · exact d
        · exact absurd d e
      obtain ⟨g1, g2⟩ := h2 col' blk' k hc' hb' hk d'
      rw [← g1, ← g2]
      have t1 : col' < col → col' * nn + nn ≤ col * nn := mul_step _ _ _
      have t2 : col < col' → col * nn + nn ≤ col' * nn := mul_step _ _ _
      have t3 : col' = col → col' * nn = col * nn := fun q => by rw [q]
      rcases Nat.lt_trichotomy col' col with q | q | q
      · have := t1 q
        exact ⟨s3 _ (by omega) (by omega), s3 _ (by omega) (by omega)⟩
      · have := t3 q
        have : blk' ≠ blk := fun q2 => e ⟨q, q2⟩
        exact ⟨s3 _ (by omega) (by omega), s3 _ (by omega) (by omega)⟩
      · have := t2 q
        exact ⟨s3 _ (by omega) (by omega), s3 _ (by omega) (by omega)⟩
  · intro x hx
    rw [s3 x (by omega) (by omega)]
    exact h3 x hx

end Spq.VmpErr
