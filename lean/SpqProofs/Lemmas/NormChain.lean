/-
  C05 helper lemmas, per-coefficient level: the specification `balancedDigits` (exact integer
  arithmetic, least significant limb first), its value / range / uniqueness theorems, and the proof
  that the model's chain of `normCoef` steps computes it when all limbs satisfy `|a_i| ≤ 2^62`.

  Limb lists are written most significant limb first (index 0 = most significant, as in the C API);
  the recursion `a :: as` therefore handles the *less* significant limbs `as` first and then `a`.
-/
import SpqProofs.Lemmas.NormDigit
import Mathlib.Tactic.LinearCombination
namespace Spq.Norm
open Spq Coeffs

/-- `|v| ≤ 2^62` with literal bounds -/
def Bnd62 (v : Int) : Prop := -4611686018427387904 ≤ v ∧ v ≤ 4611686018427387904

theorem bnd62_zero : Bnd62 0 := by unfold Bnd62; omega

/-! ### one step under the bounds of the property -/

theorem pow_le_62 (k : Nat) (hk : k ≤ 62) : (2 : Int) ^ k ≤ 4611686018427387904 := by
  have e : (2 : Int) ^ k * 2 ^ (62 - k) = 4611686018427387904 := by
    rw [← pow_add, show k + (62 - k) = 62 by omega]; norm_num
  have hP : (0 : Int) < 2 ^ k := by positivity
  have hM : (0 : Int) < 2 ^ (62 - k) := by positivity
  have : (2 : Int) ^ k * 1 ≤ 2 ^ k * 2 ^ (62 - k) := mul_le_mul_of_nonneg_left (by linarith) (le_of_lt hP)
  linarith

/-- carry bound: `|t| ≤ 2^63  ⇒  |balCarry k t| ≤ 2^(63-k)` -/
theorem balCarry_bound (k : Nat) (hk : 1 ≤ k) (hk' : k ≤ 63) (t : Int)
    (h1 : -9223372036854775808 ≤ t) (h2 : t ≤ 9223372036854775808) :
    -2 ^ (63 - k) ≤ balCarry k t ∧ balCarry k t ≤ 2 ^ (63 - k) := by
  have hPM := pow_mul_63 k hk'
  have hP : (0 : Int) < 2 ^ k := by positivity
  obtain ⟨g1, g2⟩ := bal_range k hk t
  have gd := bal_decomp k t
  have hsp := pow_split k hk
  have hH : (0 : Int) < 2 ^ (k - 1) := by positivity
  generalize balDigit k t = y at *
  generalize balCarry k t = Q at *
  generalize (2 : Int) ^ (63 - k) = M at *
  generalize (2 : Int) ^ (k - 1) = H at *
  generalize (2 : Int) ^ k = P at *
  constructor
  · by_contra hcon
    have : (Q + M + 1) * P ≤ 0 * P := mul_le_mul_of_nonneg_right (by linarith) (le_of_lt hP)
    have e : (Q + M + 1) * P = Q * P + P * M + P := by ring
    linarith
  · by_contra hcon
    have : 1 * P ≤ (Q - M) * P := mul_le_mul_of_nonneg_right (by linarith) (le_of_lt hP)
    have e : (Q - M) * P = Q * P - P * M := by ring
    linarith

theorem balCarry_bnd62 (k : Nat) (hk : 1 ≤ k) (hk' : k ≤ 63) (t : Int)
    (h1 : -9223372036854775808 ≤ t) (h2 : t ≤ 9223372036854775808) : Bnd62 (balCarry k t) := by
  obtain ⟨b1, b2⟩ := balCarry_bound k hk hk' t h1 h2
  have : (2 : Int) ^ (63 - k) ≤ 4611686018427387904 := pow_le_62 (63 - k) (by omega)
  unfold Bnd62; constructor <;> linarith

/-- one `znx_normalize` step under the property's bounds: exact balanced div/mod of `x + cin`
    (an absent carry counts as 0) -/
theorem normCoef_eq (k : Nat) (hk : 1 ≤ k) (hk' : k ≤ 62) (x : Int) (hx : Bnd62 x)
    (c : Option Int) (hc : Bnd62 (c.getD 0)) :
    normCoef k x c = (balDigit k (x + c.getD 0), balCarry k (x + c.getD 0)) := by
  have hP := pow_le_62 k hk'
  have hsp := pow_split k hk
  have hH : (0 : Int) < 2 ^ (k - 1) := by positivity
  unfold Bnd62 at hx hc
  cases c with
  | none =>
    simp only [Option.getD_none, add_zero]
    apply normCoef_none k hk (by omega) <;> linarith [hx.1, hx.2]
  | some c =>
    simp only [Option.getD_some] at hc ⊢
    apply normCoef_some k hk (by omega) <;> linarith [hx.1, hx.2, hc.1, hc.2]

/-! ### the specification -/

/-- balanced base-`2^k` digits of a limb list (most significant first) and the carry out of the most
    significant limb: exact integer arithmetic, processed from the least significant limb -/
def balancedDigits (k : Nat) : List Int → List Int × Int
  | [] => ([], 0)
  | a :: as =>
    let r := balancedDigits k as
    (balDigit k (a + r.2) :: r.1, balCarry k (a + r.2))

/-- value `Σ_i a_i 2^(k (n-1-i))` -/
def val (k : Nat) : List Int → Int
  | [] => 0
  | a :: as => a * 2 ^ (k * as.length) + val k as

/-- all digits balanced -/
def Balanced (k : Nat) (ds : List Int) : Prop := ∀ d ∈ ds, -2 ^ (k - 1) ≤ d ∧ d < 2 ^ (k - 1)

@[simp] theorem length_balancedDigits (k : Nat) (as : List Int) :
    (balancedDigits k as).1.length = as.length := by
  induction as with
  | nil => rfl
  | cons a as ih => simp [balancedDigits, ih]

/-- digit `i` only depends on limbs `i, i+1, …` (the less significant ones) -/
theorem balancedDigits_drop (k : Nat) (as : List Int) (i : Nat) :
    (balancedDigits k (as.drop i)).1 = (balancedDigits k as).1.drop i := by
  induction as generalizing i with
  | nil => simp [balancedDigits]
  | cons a as ih =>
    cases i with
    | zero => rfl
    | succ i => simp [balancedDigits, ih]

/-- (a) value: `Σ r_i 2^(k(n-1-i)) + carry · 2^(kn) = Σ a_i 2^(k(n-1-i))` -/
theorem balancedDigits_val (k : Nat) (as : List Int) :
    val k (balancedDigits k as).1 + (balancedDigits k as).2 * 2 ^ (k * as.length) = val k as := by
  induction as with
  | nil => simp [balancedDigits, val]
  | cons a as ih =>
    simp only [balancedDigits, val, length_balancedDigits, List.length_cons]
    have hd := bal_decomp k (a + (balancedDigits k as).2)
    have hp : (2 : Int) ^ (k * (as.length + 1)) = 2 ^ k * 2 ^ (k * as.length) := by
      rw [Nat.mul_succ, pow_add]; ring
    rw [hp]
    generalize balDigit k (a + (balancedDigits k as).2) = d at *
    generalize balCarry k (a + (balancedDigits k as).2) = q at *
    have : a * 2 ^ (k * as.length) + (balancedDigits k as).2 * 2 ^ (k * as.length)
        = (d + q * 2 ^ k) * 2 ^ (k * as.length) := by rw [← hd]; ring
    linarith [this, add_mul d (q * 2 ^ k) ((2 : Int) ^ (k * as.length)),
      mul_assoc q ((2 : Int) ^ k) (2 ^ (k * as.length))]

/-- (a) range: every digit is in `[-2^(k-1), 2^(k-1))` -/
theorem balancedDigits_balanced (k : Nat) (hk : 1 ≤ k) (as : List Int) :
    Balanced k (balancedDigits k as).1 := by
  induction as with
  | nil => intro d hd; simp [balancedDigits] at hd
  | cons a as ih =>
    intro d hd
    simp only [balancedDigits, List.mem_cons] at hd
    rcases hd with rfl | hd
    · exact bal_range k hk _
    · exact ih d hd

/-- congruence form of (a): the digits represent `T = val k as` modulo `2^(k n)` -/
theorem balancedDigits_congr (k : Nat) (as : List Int) :
    (2 : Int) ^ (k * as.length) ∣ val k as - val k (balancedDigits k as).1 := by
  refine ⟨(balancedDigits k as).2, ?_⟩
  have := balancedDigits_val k as
  linarith

/-- (b) uniqueness: two balanced digit lists of the same length whose values agree modulo `2^(k n)`
    are equal -/
theorem balanced_unique (k : Nat) (hk : 1 ≤ k) (ds ds' : List Int) (hl : ds.length = ds'.length)
    (hb : Balanced k ds) (hb' : Balanced k ds')
    (hc : (2 : Int) ^ (k * ds.length) ∣ val k ds - val k ds') : ds = ds' := by
  induction ds generalizing ds' with
  | nil =>
    cases ds' with
    | nil => rfl
    | cons _ _ => simp at hl
  | cons d ds ih =>
    cases ds' with
    | nil => simp at hl
    | cons d' ds' =>
      simp only [List.length_cons, Nat.add_right_cancel_iff] at hl
      simp only [val, List.length_cons] at hc
      rw [← hl] at hc
      have hp : (2 : Int) ^ (k * (ds.length + 1)) = 2 ^ k * 2 ^ (k * ds.length) := by
        rw [Nat.mul_succ, pow_add]; ring
      rw [hp] at hc
      have hM : (0 : Int) < 2 ^ (k * ds.length) := by positivity
      generalize (2 : Int) ^ (k * ds.length) = M at *
      -- tails
      have htail : ds = ds' := by
        apply ih ds' hl (fun x hx => hb x (List.mem_cons_of_mem _ hx))
          (fun x hx => hb' x (List.mem_cons_of_mem _ hx))
        obtain ⟨t, ht⟩ := hc
        exact ⟨2 ^ k * t - (d - d'), by linear_combination ht⟩
      subst htail
      -- heads
      have hd : (2 : Int) ^ k ∣ d - d' := by
        obtain ⟨t, ht⟩ := hc
        refine ⟨t, ?_⟩
        have : (d - d') * M = (2 ^ k * t) * M := by linear_combination ht
        exact Int.eq_of_mul_eq_mul_right (ne_of_gt hM) this
      have h1 := hb d (by simp)
      have h2 := hb' d' (by simp)
      have hsp := pow_split k hk
      have : d - d' = 0 := by
        apply Int.eq_zero_of_abs_lt_dvd hd
        rw [abs_lt]; constructor <;> linarith [h1.1, h1.2, h2.1, h2.2]
      rw [show d = d' by linarith]

/-- (a)+(b): `balancedDigits` is *the* balanced expansion of `T mod 2^(k n)` -/
theorem balancedDigits_unique (k : Nat) (hk : 1 ≤ k) (as ds : List Int) (hl : ds.length = as.length)
    (hb : Balanced k ds) (hc : (2 : Int) ^ (k * as.length) ∣ val k as - val k ds) :
    ds = (balancedDigits k as).1 := by
  apply balanced_unique k hk ds _ (by simp [hl]) hb (balancedDigits_balanced k hk as)
  rw [hl]
  have := balancedDigits_congr k as
  have e : val k ds - val k (balancedDigits k as).1
      = (val k as - val k (balancedDigits k as).1) - (val k as - val k ds) := by ring
  rw [e]
  exact Int.dvd_sub this hc

/-! ### the model's chain -/

/-- the model's per-coefficient chain: limbs processed from the least significant one, the first step
    without carry-in (`carry_in = NULL`), every later step with the carry of the previous one -/
def normChain (k : Nat) : List Int → List Int × Option Int
  | [] => ([], none)
  | a :: as =>
    let r := normChain k as
    let s := normCoef k a r.2
    (s.1 :: r.1, some s.2)

@[simp] theorem length_normChain (k : Nat) (as : List Int) : (normChain k as).1.length = as.length := by
  induction as with
  | nil => rfl
  | cons a as ih => simp [normChain, ih]

/-- (c) under `|a_i| ≤ 2^62` the chain computes exactly the balanced digits and carries, and every
    intermediate carry satisfies `|c| ≤ 2^62` (the invariant that re-establishes the hypothesis of the
    next step) -/
theorem normChain_eq (k : Nat) (hk : 1 ≤ k) (hk' : k ≤ 62) (as : List Int) (ha : ∀ a ∈ as, Bnd62 a) :
    (normChain k as).1 = (balancedDigits k as).1 ∧
    (normChain k as).2.getD 0 = (balancedDigits k as).2 ∧
    Bnd62 (balancedDigits k as).2 := by
  induction as with
  | nil => exact ⟨rfl, rfl, bnd62_zero⟩
  | cons a as ih =>
    obtain ⟨e1, e2, e3⟩ := ih (fun x hx => ha x (List.mem_cons_of_mem _ hx))
    have hx := ha a (by simp)
    simp only [normChain, balancedDigits]
    rw [normCoef_eq k hk hk' a hx _ (by rw [e2]; exact e3), e1, e2]
    refine ⟨rfl, rfl, ?_⟩
    unfold Bnd62 at hx e3
    apply balCarry_bnd62 k hk (by omega) <;> linarith [hx.1, hx.2, e3.1, e3.2]

end Spq.Norm
