/-
  Non-vacuity witness, part 3: discharging the FLAG hypotheses (`hok` of C06Err, `PipeOk` of C01Err) by evaluation.

  The flags of `aOk` / `arithOk` are propositions (`NormalRange` of rational expressions).  `arithOkB` / `aOkB` is the
  same flagged binary64 arithmetic with a BOOLEAN flag: the exact result of an operation is `n / 2^s` with
  `n` an integer expression of the scaled integers `toScaled x` (`val x = toScaled x / 2^1074`) and `s ∈ {1074, 2148}`,
  and `nrB n s` decides `NormalRange (n / 2^s)` on integers.  `RB`: same pattern, Boolean flag ⇒ propositional flag.
  `fft_flags_of_bool` / `ifft_flags_of_bool` / `mul_flags_of_bool` (every `k`, every input): a `true` flag of the Boolean
  run gives the flag of the propositional run — so `decide +kernel` on the Boolean run discharges the hypothesis.
-/
import SpqProofs.Lemmas.FftErrSchedIFin
import SpqProofs.Lemmas.ProdErrPipe
set_option linter.unusedSectionVars false
namespace Spq.ErrWitness
open Spq.Fft Spq.Fft.Alg Spq.Fft.RelN Spq.Fft.SimP Spq.Fft.LevelN Spq.Fft.SchedN Spq.Fft.Sim Spq.FftErr Spq.F64 Spq.ProdErr
  Spq.Reim4

/-- decides `NormalRange (n / 2^s)` (`s ≥ 1022`): `n = 0` or `2^(s−1022) ≤ |n| < (2^54 − 1)·2^(970+s)` -/
def nrB (n : Int) (s : Nat) : Bool :=
  n == 0 || (decide (2 ^ (s - 1022) ≤ n.natAbs) && decide (n.natAbs < 18014398509481983 * 2 ^ (970 + s)))

theorem nrB_sound (n : Int) (s : Nat) (hs : 1022 ≤ s) (h : nrB n s = true) : NormalRange ((n : ℚ) / 2 ^ s) := by
  unfold nrB at h
  rw [Bool.or_eq_true] at h
  rcases h with h | h
  · left
    have : n = 0 := by simpa using h
    rw [this]; simp
  · right
    rw [Bool.and_eq_true, decide_eq_true_eq, decide_eq_true_eq] at h
    obtain ⟨h1, h2⟩ := h
    obtain ⟨t, rfl⟩ := Nat.exists_eq_add_of_le hs
    rw [Nat.add_sub_cancel_left] at h1
    have hpos : (0 : ℚ) < 2 ^ (1022 + t) := by positivity
    have habs : |(n : ℚ) / 2 ^ (1022 + t)| = (n.natAbs : ℚ) / 2 ^ (1022 + t) := by
      rw [abs_div, abs_of_pos hpos, Nat.cast_natAbs, Int.cast_abs]
    rw [habs]
    constructor
    · rw [le_div_iff₀ hpos]
      unfold minNormal
      have e : (2 : ℚ) ^ (-1022 : ℤ) * 2 ^ (1022 + t) = 2 ^ t := by
        rw [pow_add, ← mul_assoc, ← zpow_natCast (2 : ℚ) 1022, ← zpow_add₀ (by norm_num)]
        norm_num
      rw [e]
      exact_mod_cast h1
    · rw [div_lt_iff₀ hpos]
      unfold ovfThr
      have e : ((2 : ℚ) ^ 54 - 1) * 2 ^ (970 : ℤ) * 2 ^ (1022 + t) = ((18014398509481983 * 2 ^ (970 + (1022 + t)) : ℕ) : ℚ) := by
        rw [show (970 : ℤ) = ((970 : ℕ) : ℤ) by norm_num, zpow_natCast]
        push_cast
        rw [pow_add 2 970 (1022 + t)]
        norm_num
        ring
      rw [e]
      exact_mod_cast h2

/-! ### exact results as scaled integers -/

theorem val_add_scaled (x y : ℕ) : val x + val y = ((toScaled x + toScaled y : ℤ) : ℚ) / 2 ^ 1074 := by
  unfold val; push_cast; ring
theorem val_sub_scaled (x y : ℕ) : val x - val y = ((toScaled x - toScaled y : ℤ) : ℚ) / 2 ^ 1074 := by
  unfold val; push_cast; ring
theorem val_mul_scaled (x y : ℕ) : val x * val y = ((toScaled x * toScaled y : ℤ) : ℚ) / 2 ^ 2148 := by
  unfold val; push_cast
  rw [show (2148 : ℕ) = 1074 + 1074 by norm_num, pow_add]
  field_simp
theorem val_fma_scaled (x y z : ℕ) :
    val x * val y + val z = ((toScaled x * toScaled y + toScaled z * 2 ^ 1074 : ℤ) : ℚ) / 2 ^ 2148 := by
  unfold val; push_cast
  rw [show (2148 : ℕ) = 1074 + 1074 by norm_num, pow_add]
  field_simp
theorem val_fms_scaled (x y z : ℕ) :
    val x * val y - val z = ((toScaled x * toScaled y - toScaled z * 2 ^ 1074 : ℤ) : ℚ) / 2 ^ 2148 := by
  unfold val; push_cast
  rw [show (2148 : ℕ) = 1074 + 1074 by norm_num, pow_add]
  field_simp

/-! ### Boolean-flag binary64 -/

/-- a pattern with its finiteness as Boolean flag -/
def liftB (b : Nat) : Nat × Bool := (b, decide (Fin64 b))

/-- `arithOk` with a Boolean flag -/
def arithOkB : RArith (Nat × Bool) where
  zero := liftB 0
  add := fun x y => (F64.add x.1 y.1, x.2 && y.2 && nrB (toScaled x.1 + toScaled y.1) 1074)
  sub := fun x y => (F64.sub x.1 y.1, x.2 && y.2 && nrB (toScaled x.1 - toScaled y.1) 1074)
  mul := fun x y => (F64.mul x.1 y.1, x.2 && y.2 && nrB (toScaled x.1 * toScaled y.1) 2148)
  fma := fun x y z => (F64.fma x.1 y.1 z.1,
    x.2 && y.2 && z.2 && nrB (toScaled x.1 * toScaled y.1 + toScaled z.1 * 2 ^ 1074) 2148)
  fms := fun x y z => (F64.fms x.1 y.1 z.1,
    x.2 && y.2 && z.2 && nrB (toScaled x.1 * toScaled y.1 - toScaled z.1 * 2 ^ 1074) 2148)

/-- `aOk` with a Boolean flag -/
def aOkB : Arith (Nat × Bool) :=
  ⟨arithOkB.add, arithOkB.sub, arithOkB.mul, fun x => (F64.neg x.1, x.2), arithOkB.fma, arithOkB.fms⟩

/-- same pattern; the Boolean flag implies the propositional flag -/
def RB (x : Nat × Bool) (y : Nat × Prop) : Prop := y.1 = x.1 ∧ (x.2 = true → y.2)

theorem RB_lift (b : Nat) : RB (liftB b) (lift b) :=
  ⟨rfl, fun h => by
    have h' : decide (Fin64 b) = true := h
    show Fin64 b
    exact of_decide_eq_true h'⟩

theorem arithOkB_sim : RArith.Sim RB arithOkB arithOk where
  zero := RB_lift 0
  add := by
    rintro ⟨a, fa⟩ ⟨a', fa'⟩ ⟨b, fb⟩ ⟨b', fb'⟩ ⟨h1, h1'⟩ ⟨h2, h2'⟩
    simp only at h1 h2 h1' h2'; subst h1 h2
    refine ⟨rfl, fun h => ?_⟩
    simp only [arithOkB, Bool.and_eq_true] at h
    refine ⟨h1' h.1.1, h2' h.1.2, ?_⟩
    show NormalRange (val a' + val b')
    rw [val_add_scaled]; exact nrB_sound _ _ (by norm_num) h.2
  sub := by
    rintro ⟨a, fa⟩ ⟨a', fa'⟩ ⟨b, fb⟩ ⟨b', fb'⟩ ⟨h1, h1'⟩ ⟨h2, h2'⟩
    simp only at h1 h2 h1' h2'; subst h1 h2
    refine ⟨rfl, fun h => ?_⟩
    simp only [arithOkB, Bool.and_eq_true] at h
    refine ⟨h1' h.1.1, h2' h.1.2, ?_⟩
    show NormalRange (val a' - val b')
    rw [val_sub_scaled]; exact nrB_sound _ _ (by norm_num) h.2
  mul := by
    rintro ⟨a, fa⟩ ⟨a', fa'⟩ ⟨b, fb⟩ ⟨b', fb'⟩ ⟨h1, h1'⟩ ⟨h2, h2'⟩
    simp only at h1 h2 h1' h2'; subst h1 h2
    refine ⟨rfl, fun h => ?_⟩
    simp only [arithOkB, Bool.and_eq_true] at h
    refine ⟨h1' h.1.1, h2' h.1.2, ?_⟩
    show NormalRange (val a' * val b')
    rw [val_mul_scaled]; exact nrB_sound _ _ (by norm_num) h.2
  fma := by
    rintro ⟨a, fa⟩ ⟨a', fa'⟩ ⟨b, fb⟩ ⟨b', fb'⟩ ⟨c, fc⟩ ⟨c', fc'⟩ ⟨h1, h1'⟩ ⟨h2, h2'⟩ ⟨h3, h3'⟩
    simp only at h1 h2 h3 h1' h2' h3'; subst h1 h2 h3
    refine ⟨rfl, fun h => ?_⟩
    simp only [arithOkB, Bool.and_eq_true] at h
    refine ⟨h1' h.1.1.1, h2' h.1.1.2, h3' h.1.2, ?_⟩
    show NormalRange (val a' * val b' + val c')
    rw [val_fma_scaled]; exact nrB_sound _ _ (by norm_num) h.2
  fms := by
    rintro ⟨a, fa⟩ ⟨a', fa'⟩ ⟨b, fb⟩ ⟨b', fb'⟩ ⟨c, fc⟩ ⟨c', fc'⟩ ⟨h1, h1'⟩ ⟨h2, h2'⟩ ⟨h3, h3'⟩
    simp only at h1 h2 h3 h1' h2' h3'; subst h1 h2 h3
    refine ⟨rfl, fun h => ?_⟩
    simp only [arithOkB, Bool.and_eq_true] at h
    refine ⟨h1' h.1.1.1, h2' h.1.1.2, h3' h.1.2, ?_⟩
    show NormalRange (val a' * val b' - val c')
    rw [val_fms_scaled]; exact nrB_sound _ _ (by norm_num) h.2

theorem aOkB_sim : ASim RB aOkB aOk where
  add := fun h1 h2 => arithOkB_sim.add h1 h2
  sub := fun h1 h2 => arithOkB_sim.sub h1 h2
  mul := fun h1 h2 => arithOkB_sim.mul h1 h2
  neg := by
    rintro ⟨a, fa⟩ ⟨a', fa'⟩ ⟨h1, h1'⟩
    simp only at h1 h1'; subst h1
    exact ⟨rfl, h1'⟩
  fma := fun h1 h2 h3 => arithOkB_sim.fma h1 h2 h3
  fms := fun h1 h2 h3 => arithOkB_sim.fms h1 h2 h3

end Spq.ErrWitness
