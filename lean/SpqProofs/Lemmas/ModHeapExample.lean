/-
  Concrete instances showing that the hypotheses of the ModHeap theorems are satisfiable:
   * the library's codec `Cells.f64` reads back what it stores,
   * a small exact module (`nn = 4`, carrier `Int`, kernels acting limb-wise) is `Sized`.
-/
import SpqProofs.Lemmas.ModHeapKern
namespace Spq.ModuleHeap
open Spq Heap Reim4

theorem roundTrip_f64 : RoundTrip Cells.f64 := fun _ => rfl

/-- integer cells, DFT-space carrier `Int` -/
def Cells.int : Cells Int Int := { dflt := 0, enc := id, dec := id, encI := id, decI := id }
theorem roundTrip_int : RoundTrip Cells.int := fun _ => rfl

def intArith : RArith Int :=
  { zero := 0, add := (· + ·), sub := (· - ·), mul := (· * ·), fma := fun a b c => a * b + c, fms := fun a b c => a * b - c }

/-- a toy module on `nn = 2m` cells: "transforms" that reverse / negate a limb (sizes are what matters here) -/
def toyParts (m : Nat) : Module.Parts Int :=
  { nn := 2 * m, ar := intArith, fromZnx := fun x => x, fft := fun x => x.reverse, ifft := fun x => x.reverse,
    toZnx := fun x => x.map (fun v => -v), mulFma := false, addmulFma := false, vmpAvx := false }

theorem sized_toy (m : Nat) : Sized (toyParts m) :=
  ⟨fun x hx => hx, fun x hx => by simpa [toyParts] using hx, fun x hx => by simpa [toyParts] using hx,
   fun x hx => by simpa [toyParts] using hx⟩

theorem toy_nn (m : Nat) : (toyParts m).nn = 2 * m := rfl
theorem toy_m (m : Nat) : (toyParts m).m = m := by simp [Module.Parts.m, toyParts]

/-- an arena of 64 cells holding 0, 1, …, 63 -/
def toyHeap : Heap Int := { mem := (Array.range 64).map (fun (i : Nat) => (i : Int)) }
theorem toyHeap_size : toyHeap.mem.size = 64 := by simp [toyHeap]

/-- the library's FFT64 module for `nn = 16` with every AVX / FMA kernel installed, arbitrary twiddle tables -/
def avxCfg16 (ft it : Array Nat) : Module.Cfg :=
  { nn := 16, fftFma := true, ifftFma := true, fromBnd50 := true, toVariant := Conv.ToZnx64Variant.bnd63,
    mulFma := true, addmulFma := true, vmpAvx := true, fftT := ft, ifftT := it }

end Spq.ModuleHeap
