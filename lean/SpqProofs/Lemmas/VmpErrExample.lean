/-
  C02 rounding budget: a concrete instance of every hypothesis of the end-to-end theorems (the statements are not
  vacuous).  `N = 2` (`k = 0`), `K = ℚ`, `ζ = i`, the all-reference module `exC` of `ProdErrExample.lean`, a `1 × 1`
  matrix `M = (3 + 4X)`, the vector `a = (1 + 2X)`, two output limbs (the second one is beyond the matrix).
-/
import SpqProofs.Lemmas.VmpErrTop
import SpqProofs.Lemmas.ProdErrExample
set_option linter.unusedSectionVars false
namespace Spq.VmpErr
open Finset Spq Spq.Module Spq.Fft Spq.Fft.Alg Spq.FftErr Spq.F64 Spq.Reim4 Spq.ProdErr Spq.Conv

theorem exVCfgOk : VCfgOk exC 0 z0 z0 z0 z0 := ⟨exCfgOk, by decide⟩

theorem exLimb : limbOf #[1, 2] 0 2 (2 * 2 ^ 0) = #[1, 2] := by decide
theorem exEntry : matEntry #[3, 4] 1 (2 * 2 ^ 0) 0 0 = #[3, 4] := by decide
theorem exVD : vecDft (Cfg.parts exC) (min 1 1) #[1, 2] 1 2 = #[4607182418800017408, 4611686018427387904] := by
  decide +kernel
theorem exMD : matDft (Cfg.parts exC) #[3, 4] 1 0 0 = #[4613937818241073152, 4616189618054758400] := by decide +kernel
theorem exCol : dlimb (vmpRes exC #[3, 4] 1 1 #[1, 2] 1 2 1) 0 (2 * 2 ^ 0) = stM exC 0 z0 z0 #[1, 2] #[3, 4] := by
  rw [exM]; decide +kernel

/-- the flags of the two cells of the accumulation (one row: the reference product of `ProdErrExample`) -/
theorem ex_okD : ∀ p, p < 2 * 2 ^ 0 → vmpFlag exC #[3, 4] 1 1 #[1, 2] 1 2 1 (0 * (2 * 2 ^ 0) + p) := by
  have hT : ∀ row col, row < 1 → col < 1 → (matDft (pOk exC) #[3, 4] 1 row col).size = (pOk exC).nn := by
    intro row col hr hc
    have : row = 0 := by omega
    have : col = 0 := by omega
    subst_vars
    rw [matDft_pOk, exMD, Array.size_map]; rfl
  obtain ⟨_, L, _, _⟩ := vmp_layout_g (pOk exC) (by decide) (by decide) (fun _ => ⟨rfl, rfl⟩) #[3, 4] 1 1 1 1
    ((vecDft (Cfg.parts exC) (min 1 1) #[1, 2] 1 2).map lift) (fun _ => hT)
  obtain ⟨c1, c2⟩ := L 0 0 (by decide) (by decide) (fun _ => by decide)
  -- the two cells of the reference product, from `ex_okM`
  obtain ⟨m1, m2⟩ := (mulA_cells arithOk false 1 (by simp) ((stF exC 0 z0 z0 #[1, 2]).map lift)
    ((stF exC 0 z0 z0 #[3, 4]).map lift)).2 0 (by omega)
  have f1 := ex_okM 0 (by norm_num)
  have f2 := ex_okM 1 (by norm_num)
  have e0 : exC.mulFma = false := rfl
  have e1 : 2 ^ 0 = 1 := rfl
  rw [e0, e1] at f1 f2
  rw [m1] at f1
  rw [show (1 : ℕ) = 0 + 1 from rfl, m2] at f2
  rw [exFA, exFB] at f1 f2
  simp only [cellRe, cellIm, Bool.false_eq_true, if_false] at f1 f2
  intro p hp
  have hp' : p = 0 ∨ p = 1 := by omega
  unfold vmpFlag
  rcases hp' with rfl | rfl
  · have c1' : (vmpApplyDftToDft (pOk exC) 1 ((vecDft (Cfg.parts exC) (min 1 1) #[1, 2] 1 2).map lift) 1
        (vmpPrepare (pOk exC) #[3, 4] 1 1) 1 1).getD (0 * (2 * 2 ^ 0) + 0) arithOk.zero = _ := c1
    rw [c1']
    change (reRef arithOk (((vecDft (Cfg.parts exC) (min 1 1) #[1, 2] 1 2).map lift).getD 0 arithOk.zero)
      (((vecDft (Cfg.parts exC) (min 1 1) #[1, 2] 1 2).map lift).getD 1 arithOk.zero)
      ((matDft (pOk exC) #[3, 4] 1 0 0).getD 0 arithOk.zero) ((matDft (pOk exC) #[3, 4] 1 0 0).getD 1 arithOk.zero)).2
    rw [matDft_pOk, exVD, exMD]
    exact f1
  · have c2' : (vmpApplyDftToDft (pOk exC) 1 ((vecDft (Cfg.parts exC) (min 1 1) #[1, 2] 1 2).map lift) 1
        (vmpPrepare (pOk exC) #[3, 4] 1 1) 1 1).getD (0 * (2 * 2 ^ 0) + 1) arithOk.zero = _ := c2
    rw [c2']
    change (imRef arithOk (((vecDft (Cfg.parts exC) (min 1 1) #[1, 2] 1 2).map lift).getD 0 arithOk.zero)
      (((vecDft (Cfg.parts exC) (min 1 1) #[1, 2] 1 2).map lift).getD 1 arithOk.zero)
      ((matDft (pOk exC) #[3, 4] 1 0 0).getD 0 arithOk.zero) ((matDft (pOk exC) #[3, 4] 1 0 0).getD 1 arithOk.zero)).2
    rw [matDft_pOk, exVD, exMD]
    exact f2

theorem exVmpOk : VmpOk exC 0 z0 z0 z0 z0 #[3, 4] 1 1 #[1, 2] 1 2 1 0 where
  okA := by
    intro i hi
    have : i = 0 := by omega
    subst this
    rw [exLimb]; exact ex_okA
  okB := by
    intro i hi
    have : i = 0 := by omega
    subst this
    rw [exEntry]; exact ex_okB
  okD := ex_okD
  okI := by
    unfold InvOk
    rw [exCol]
    exact ex_okI

end Spq.VmpErr
