/-
  Bridge (2),(3): the rotation coefficient formula is multiplication by `X^p` (p any integer; `X` is a
  unit of `R[X]/(X^n+1)`), and `(X^p - 1)·a`.
-/
import SpqProofs.Lemmas.BridgeMul
import SpqProofs.Lemmas.RqSpec
import Mathlib.Tactic.Ring
import Mathlib.Tactic.LinearCombination

namespace Spq.Bridge
open Polynomial Finset

variable {R : Type} [CommRing R]

/-- the class of `X` as a unit (`X^(2n) = 1`) -/
noncomputable def rootU (n : Nat) (hn : 0 < n) : (Rq R n)ˣ :=
  Units.ofPowEqOne (root n) (2 * n) (root_pow_2n n) (by omega)

@[simp] theorem rootU_val (n : Nat) (hn : 0 < n) : ((rootU n hn : (Rq R n)ˣ) : Rq R n) = root n := rfl

theorem rootU_pow_2n (n : Nat) (hn : 0 < n) : (rootU n hn : (Rq R n)ˣ) ^ (2 * n) = 1 := by
  apply Units.ext
  rw [Units.val_pow_eq_pow_val, rootU_val, root_pow_2n]; rfl

theorem rootU_zpow_nat (n : Nat) (hn : 0 < n) (k : Nat) :
    (((rootU n hn : (Rq R n)ˣ) ^ (k : Int) : (Rq R n)ˣ) : Rq R n) = root n ^ k := by
  rw [zpow_natCast, Units.val_pow_eq_pow_val, rootU_val]

/-- `X^m` depends on `m` only modulo `2n` -/
theorem rootU_zpow_mod (n : Nat) (hn : 0 < n) (m : Int) :
    (rootU n hn : (Rq R n)ˣ) ^ m = rootU n hn ^ (m % ((2 * n : Nat) : Int)) := by
  conv_lhs => rw [← Int.emod_add_mul_ediv m ((2 * n : Nat) : Int)]
  rw [zpow_add, zpow_mul, zpow_natCast, rootU_pow_2n, one_zpow, mul_one]

/-- signed reduction of an integer exponent: `X^m = ± X^(m mod n)`, `+` iff `m mod 2n < n` -/
theorem rootU_zpow_reduce (n : Nat) (hn : 0 < n) (m : Int) :
    (((rootU n hn : (Rq R n)ˣ) ^ m : (Rq R n)ˣ) : Rq R n) =
      if (m % ((2 * n : Nat) : Int)).toNat < n then root n ^ (m % (n : Int)).toNat
      else - root n ^ (m % (n : Int)).toNat := by
  have h2 : (0 : Int) < ((2 * n : Nat) : Int) := by exact_mod_cast (by omega : 0 < 2 * n)
  have hr0 : 0 ≤ m % ((2 * n : Nat) : Int) := Int.emod_nonneg _ (ne_of_gt h2)
  have hr1 : m % ((2 * n : Nat) : Int) < ((2 * n : Nat) : Int) := Int.emod_lt_of_pos _ h2
  obtain ⟨r, hr⟩ : ∃ r : Nat, (r : Int) = m % ((2 * n : Nat) : Int) := ⟨_, Int.toNat_of_nonneg hr0⟩
  have hrlt : r < 2 * n := by exact_mod_cast (hr ▸ hr1)
  have hmn : m % (n : Int) = ((r % n : Nat) : Int) := by
    rw [Int.natCast_mod, hr]
    exact (Int.emod_emod_of_dvd m ⟨2, by push_cast; ring⟩).symm
  rw [rootU_zpow_mod, ← hr, hmn, rootU_zpow_nat, Int.toNat_natCast, Int.toNat_natCast]
  by_cases hlt : r < n
  · rw [if_pos hlt, Nat.mod_eq_of_lt hlt]
  · rw [if_neg hlt]
    have : r % n = r - n := by
      rw [Nat.mod_eq_sub_mod (by omega), Nat.mod_eq_of_lt (by omega)]
    rw [this]
    have e : r = n + (r - n) := by omega
    conv_lhs => rw [e, pow_add, root_pow_n]
    ring

/-- coefficient `k` of `X^p · a` (the formula of `Spq.Rq.rotCoeff`, on functions over a ring) -/
def rot (n : Nat) (p : Int) (a : Nat → R) (k : Nat) : R :=
  if (((k : Int) - p) % ((2 * n : Nat) : Int)).toNat < n then a (((k : Int) - p) % (n : Int)).toNat
  else - a (((k : Int) - p) % (n : Int)).toNat

/-- `k ↦ (k - p) mod n` permutes `[0,n)` -/
theorem sum_shift_perm {M : Type} [AddCommMonoid M] (n : Nat) (hn : 0 < n) (p : Int) (F : Nat → M) :
    ∑ k ∈ range n, F (((k : Int) - p) % (n : Int)).toNat = ∑ j ∈ range n, F j := by
  have hn' : (0 : Int) < (n : Int) := by exact_mod_cast hn
  have hlt : ∀ x : Int, (x % (n : Int)).toNat < n := fun x => by
    rw [Int.toNat_lt (Int.emod_nonneg _ (ne_of_gt hn'))]; exact Int.emod_lt_of_pos _ hn'
  have hcast : ∀ x : Int, (((x % (n : Int)).toNat : Nat) : Int) = x % (n : Int) := fun x =>
    Int.toNat_of_nonneg (Int.emod_nonneg _ (ne_of_gt hn'))
  apply sum_nbij' (fun k : Nat => (((k : Int) - p) % (n : Int)).toNat)
    (fun j : Nat => (((j : Int) + p) % (n : Int)).toNat)
  · intro k _; exact mem_range.2 (hlt _)
  · intro j _; exact mem_range.2 (hlt _)
  · intro k hk
    have hk' : k < n := mem_range.1 hk
    show Int.toNat (((((((k : Int) - p) % (n : Int)).toNat : Nat) : Int) + p) % (n : Int)) = k
    rw [hcast, Int.emod_add_emod, sub_add_cancel, Int.emod_eq_of_lt (by omega) (by omega)]
    rfl
  · intro j hj
    have hj' : j < n := mem_range.1 hj
    show Int.toNat (((((((j : Int) + p) % (n : Int)).toNat : Nat) : Int) - p) % (n : Int)) = j
    rw [hcast, sub_eq_add_neg, Int.emod_add_emod, add_neg_cancel_right,
      Int.emod_eq_of_lt (by omega) (by omega)]
    rfl
  · intro k _; rfl

/-- (2) the rotation formula is multiplication by the unit `X^p`, for every integer `p` -/
theorem mk_toPoly_rot' (n : Nat) (hn : 0 < n) (p : Int) (a : Nat → R) :
    mk n (toPoly n (rot n p a)) = ((rootU n hn ^ p : (Rq R n)ˣ) : Rq R n) * mk n (toPoly n a) := by
  rw [mk_toPoly, mk_toPoly, mul_sum,
    ← sum_shift_perm n hn p (fun j => ((rootU n hn ^ p : (Rq R n)ˣ) : Rq R n) * (of n (a j) * root n ^ j))]
  apply sum_congr rfl
  intro k _
  have hk : root n ^ k = ((rootU n hn ^ p : (Rq R n)ˣ) : Rq R n) *
      ((rootU n hn ^ ((k : Int) - p) : (Rq R n)ˣ) : Rq R n) := by
    rw [← Units.val_mul, ← zpow_add, add_sub_cancel, rootU_zpow_nat]
  rw [hk, rootU_zpow_reduce n hn ((k : Int) - p)]
  unfold rot
  split_ifs
  · ring
  · rw [map_neg]; ring

/-- `X^p` with the exponent reduced to a natural number in `[0,2n)` -/
theorem rootU_zpow_val (n : Nat) (hn : 0 < n) (p : Int) :
    (((rootU n hn : (Rq R n)ˣ) ^ p : (Rq R n)ˣ) : Rq R n) =
      root n ^ (p % ((2 * n : Nat) : Int)).toNat := by
  have h2 : (0 : Int) < ((2 * n : Nat) : Int) := by exact_mod_cast (by omega : 0 < 2 * n)
  rw [rootU_zpow_mod, ← rootU_zpow_nat n hn, Int.toNat_of_nonneg (Int.emod_nonneg _ (ne_of_gt h2))]

/-- (2), natural exponent: `rot p a = X^(p mod 2n) · a` -/
theorem mk_toPoly_rot_nat' (n : Nat) (hn : 0 < n) (p : Int) (a : Nat → R) :
    mk n (toPoly n (rot n p a)) = root n ^ (p % ((2 * n : Nat) : Int)).toNat * mk n (toPoly n a) := by
  rw [mk_toPoly_rot' n hn, rootU_zpow_val]

/-- coefficient `k` of `(X^p - 1) · a` (the formula of `Spq.Rq.mulXpCoeff`) -/
def mulxp (n : Nat) (p : Int) (a : Nat → R) (k : Nat) : R := rot n p a k - a k

/-- (3) `mulxp p a = (X^p - 1) · a` -/
theorem mk_toPoly_mulxp' (n : Nat) (hn : 0 < n) (p : Int) (a : Nat → R) :
    mk n (toPoly n (mulxp n p a)) =
      (((rootU n hn ^ p : (Rq R n)ˣ) : Rq R n) - 1) * mk n (toPoly n a) := by
  have : mulxp n p a = fun k => rot n p a k - a k := rfl
  rw [this, toPoly_sub, map_sub, mk_toPoly_rot' n hn, sub_mul, one_mul]

end Spq.Bridge
