/-
  C16, binary64 side: the record `Prog.DftOpsSound` of `Spq/Prog.lean`, INSTANTIATED for the binary64 module
  `Cfg.parts c` (`dftOpsSound_f64`).  Representation relations: `RepV = LimbExact` (inverse transform + rounding of
  every limb is the exact limb), `RepS` / `RepM` = "bit for bit the prepared exact operand".  Budgets (all receive
  the limb count `rsz` of the result): `RtBudget` per transformed limb, `ProdBudget` per product, `VmpBudget` per
  vector-matrix product; `vmp_apply_dft_to_dft` additionally requires that its vector operand is tagged as a RAW
  transform with enough input limbs — then it is bit for bit `vmp_apply_dft` (`vmpDD_eq2`) and C02Err applies.
-/
import SpqProofs.Lemmas.ProgErrStep
set_option linter.unusedSectionVars false
namespace Spq.ProgErr
open Spq Spq.Module Spq.Prog Spq.Closed Spq.ProdErr Spq.VmpErr Spq.Conv
variable {K : Type} [Field K] [LinearOrder K] [IsStrictOrderedRing K]

/-- `fromZnx` of the binary64 module reads exactly the `N` coefficients of its argument -/
theorem fromLocal_f64 (M : F64Mod K) (x y : Array Int) (h : ∀ t, t < M.N → x.getD t 0 = y.getD t 0) :
    M.parts.fromZnx x = M.parts.fromZnx y := by
  have hnn := M.ok.cfg.nn
  have hm : M.c.nn / 2 = 2 ^ M.k := by rw [hnn]; exact pow_half M.k
  have hpos : 0 < 2 ^ M.k := Nat.two_pow_pos M.k
  apply Array.ext_getElem?
  intro i
  by_cases hi : i < 2 * 2 ^ M.k
  · show (if M.c.fromBnd50 then fromZnx64Bnd50 (M.c.nn / 2) x else fromZnx64Ref (M.c.nn / 2) x)[i]? =
      (if M.c.fromBnd50 then fromZnx64Bnd50 (M.c.nn / 2) y else fromZnx64Ref (M.c.nn / 2) y)[i]?
    rw [hm]
    cases hfb : M.c.fromBnd50 with
    | false =>
      simp only [Bool.false_eq_true, if_false]
      unfold fromZnx64Ref
      rw [scalarLoop_getElem? _ _ i hi, scalarLoop_getElem? _ _ i hi, h i hi]
    | true =>
      have hdiv := two_pow_mod4 M.k (M.ok.cfg.fromBnd50 hfb)
      simp only [if_true]
      unfold fromZnx64Bnd50
      rw [chunks4_getElem? _ (2 ^ M.k) i hpos hdiv hi, chunks4_getElem? _ (2 ^ M.k) i hpos hdiv hi, h i hi]
  · have s1 := fromZnx_size M.c M.k hnn M.ok.cfg.fromBnd50 x
    have s2 := fromZnx_size M.c M.k hnn M.ok.cfg.fromBnd50 y
    rw [Array.getElem?_eq_none (by rw [s1]; omega), Array.getElem?_eq_none (by rw [s2]; omega)]

theorem limbExact_congr (M : F64Mod K) (P P' : Val) (sz : ℕ) (d : Array ℕ)
    (h : ∀ i t, i < sz → t < M.N → P.coef i t = P'.coef i t) (hl : LimbExact M P sz d) : LimbExact M P' sz d := by
  intro i hi
  rw [hl i hi]
  exact polyArr_congr _ _ _ (fun t ht => h i t hi ht)

/-- the canonical form of a prepared scalar -/
abbrev spOf (M : F64Mod K) (sp : Array Int) : Array Int := polyArr M.N fun t => sp.getD t 0

/-- **`DftOpsSound` for the binary64 module** -/
def dftOpsSound_f64 (M : F64Mod K) : DftOpsSound M.parts M.N where
  nn_eq := M.nn
  RepV := LimbExact M
  RepS sp s := s = svpPrepare M.parts (spOf M sp)
  RepM Mv nrows ncols pm := pm = vmpPrepare M.parts (matOf M Mv nrows ncols) nrows ncols
  dft_budget rsz asz f := ∀ i, i < asz → i < rsz → RtBudget M (polyArr M.N (f i))
  svp_prepare_budget _ := True
  svp_budget rsz asz f sp := ∀ i, i < asz → i < rsz → ProdBudget M (polyArr M.N (f i)) (spOf M sp)
  vmp_prepare_budget _ _ _ := True
  vmp_budget rsz asz f Mv nrows ncols := VmpBudget M (matOf M Mv nrows ncols) nrows ncols (flatOf M.N asz f) asz rsz
  vmp_dd_budget rsz raw P asz Mv nrows ncols := ∃ az, raw = some az ∧ min nrows asz ≤ az ∧
    VmpBudget M (matOf M Mv nrows ncols) nrows ncols (flatOf M.N asz fun i t => P.coef i t) asz rsz
  idft_budget _ _ := True
  small_product_budget fa fb := ProdBudget M (polyArr M.N fa) (polyArr M.N fb)
  dft_exact := fun x asz asl rsz f _ hag hb => dft_sound M x asz asl rsz f hag hb
  svp_prepare_exact := fun x f hx _ => by
    show svpPrepare M.parts x = svpPrepare M.parts (spOf M _)
    unfold svpPrepare
    rw [fromLocal_f64 M x (spOf M (Array.ofFn (n := M.N) fun t => f t.val)) (fun t ht => by
      rw [hx t ht, getD_polyArr _ _ _ ht]
      exact (getD_polyArr M.N f t ht).symm)]
  svp_exact := fun x asz asl rsz f sp s _ hag hs hb => by
    rw [show s = svpPrepare M.parts (spOf M sp) from hs]
    refine limbExact_congr M _ _ rsz _ ?_ (svp_sound M x asz asl rsz f hag (spOf M sp) hb)
    intro i t hi ht
    rw [coef_mk _ _ _ _ _ hi ht, coef_mk _ _ _ _ _ hi ht]
    exact polyMul_congr _ _ _ _ _ (fun _ _ => rfl) (fun u hu => getD_polyArr _ _ _ hu) t ht
  vmp_prepare_exact := fun x nrows ncols f hag _ => vmpPrepare_matOf M x nrows ncols f hag
  vmp_exact := fun x asz asl rsz f Mv pm nrows ncols _ hag hM hb => by
    rw [show pm = vmpPrepare M.parts (matOf M Mv nrows ncols) nrows ncols from hM]
    exact vmp_sound M x asz asl rsz f hag Mv nrows ncols hb
  vmp_dd_exact := fun P asz rsz d Mv pm nrows ncols raw _ hprov hM hb => by
    obtain ⟨az, hraw, hrow, hv⟩ := hb
    rw [show pm = vmpPrepare M.parts (matOf M Mv nrows ncols) nrows ncols from hM, hprov az hraw,
      vmpDD_eq2 M rsz asz az _ _ nrows ncols hrow]
    exact vmp_sound_canon M asz rsz (fun i t => P.coef i t) Mv nrows ncols hv
  dft_idft_exact := fun P sz rsz d h _ i t hi ht => idft_of_limbExact M P sz rsz d h i t hi ht
  small_product_exact := fun a b fa fb h1 h2 hb t ht => by
    have e : smallProduct M.parts a b = smallProduct M.parts (polyArr M.N fa) (polyArr M.N fb) := by
      unfold smallProduct
      rw [fromLocal_f64 M a (polyArr M.N fa) (fun u hu => by rw [h1 u hu, getD_polyArr _ _ _ hu]),
        fromLocal_f64 M b (polyArr M.N fb) (fun u hu => by rw [h2 u hu, getD_polyArr _ _ _ hu])]
    rw [e, small_sound M fa fb hb, getD_polyArr _ _ _ ht]

end Spq.ProgErr
