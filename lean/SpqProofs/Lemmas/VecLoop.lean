/-
  Normal form of the three-phase limb loops of vec_znx: one pass over the output limbs with a
  per-limb generator, and the resulting value / frame / bounds-flag theorem.
-/
import SpqProofs.Lemmas.Heap
namespace Spq.Heap
variable {α : Type}

theorem foldl_congr_mem {β γ : Type} (f g : β → γ → β) (l : List γ) (b : β)
    (h : ∀ x, x ∈ l → ∀ b, f b x = g b x) : l.foldl f b = l.foldl g b := by
  induction l generalizing b with
  | nil => rfl
  | cons x xs ih =>
    simp only [List.foldl_cons]
    rw [h x (by simp)]
    exact ih _ (fun y hy => h y (by simp [hy]))

/-- a limb step in normal form: write `G m` at `r`, and-ing `B ok-of-bounds` into the flag -/
structure StepNF (f : Heap α → Heap α) (r : Nat) (G : Array α → Array α) (B : Nat → Bool) : Prop where
  mem : ∀ h, (f h).mem = writeArr h.mem r (G h.mem)
  ok : ∀ h, (f h).ok = (h.ok && B h.mem.size)

theorem forLimbs_nf (lo hi : Nat) (f : Nat → Heap α → Heap α) (r : Nat → Nat)
    (G : Nat → Array α → Array α) (B : Nat → Nat → Bool)
    (hf : ∀ i, lo ≤ i → i < hi → StepNF (f i) (r i) (G i) (B i)) (h : Heap α) :
    (forLimbs lo hi f h).mem = (List.range' lo (hi - lo)).foldl (fun m i => writeArr m (r i) (G i m)) h.mem ∧
    (forLimbs lo hi f h).ok = (h.ok && (List.range' lo (hi - lo)).all (fun i => B i h.mem.size)) := by
  unfold forLimbs
  generalize hn : hi - lo = n
  have hle : lo + n ≤ hi ∨ n = 0 := by omega
  clear hn
  induction n with
  | zero => simp
  | succ n ih =>
    have hi' : lo + n < hi := by omega
    have ih' := ih (by omega)
    simp only [List.range'_concat, List.foldl_append, List.foldl_cons, List.foldl_nil, Nat.one_mul,
      List.all_append, List.all_cons, List.all_nil, Bool.and_true]
    obtain ⟨e1, e2⟩ := ih'
    have hs := hf (lo + n) (by omega) hi'
    constructor
    · rw [hs.mem, e1]
    · rw [hs.ok, e2, e1]
      have hsz : ∀ (l : List Nat) (m : Array α), (l.foldl (fun m i => writeArr m (r i) (G i m)) m).size = m.size := by
        intro l
        induction l with
        | nil => intro m; rfl
        | cons x xs ihx => intro m; simp only [List.foldl_cons]; rw [ihx]; simp
      rw [hsz, Bool.and_assoc]

theorem stepNF_limb0 (k : Array α) (r : Nat) :
    StepNF (limb0 k r) r (fun _ => k) (fun sz => decide (r + k.size ≤ sz)) :=
  ⟨fun _ => rfl, fun _ => rfl⟩

theorem stepNF_limb1 (d : α) (nn : Nat) (k : Array α → Array α) (hk : ∀ x, (k x).size = nn) (r a : Nat) :
    StepNF (limb1 d nn k r a) r (fun m => k (readLimb ⟨m, true⟩ d a nn))
      (fun sz => decide (a + nn ≤ sz) && decide (r + nn ≤ sz)) :=
  ⟨fun _ => rfl, fun h => by simp only [limb1, writeLimb, touch, hk, Bool.and_assoc]⟩

theorem stepNF_limb2 (d : α) (nn : Nat) (k : Array α → Array α → Array α) (hk : ∀ x y, (k x y).size = nn)
    (r a b : Nat) :
    StepNF (limb2 d nn k r a b) r (fun m => k (readLimb ⟨m, true⟩ d a nn) (readLimb ⟨m, true⟩ d b nn))
      (fun sz => decide (a + nn ≤ sz) && decide (b + nn ≤ sz) && decide (r + nn ≤ sz)) :=
  ⟨fun _ => rfl, fun h => by
    simp only [limb2, writeLimb, touch, hk, Bool.and_assoc]
    first | rfl | (congr 3 <;> simp)⟩

end Spq.Heap
